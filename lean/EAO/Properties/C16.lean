import EAO.Lemmas.Scaled
/-!
# C16 — scaled and structured assets are equivalent to what they wrap

Property theorems only; helper lemmas are in `EAO/Lemmas/Scaled.lean` and `EAO/Lemmas/Structured.lean`.
`buildScaled` models `ScaledAsset.setup_optim_problem`, `structured` models
`StructuredAsset.setup_optim_problem`, `assemble` models `Portfolio.setup_optim_problem`.
-/
namespace EAO.C16
open EAO EAO.Scaled EAO.Structured

/-! ## scaled asset -/

/-- the base problem "with all capacities multiplied by `k`", read off the finished base problem:
    every right-hand side times `k`, the bounds of every capacity variable times `k`, the bounds of
    the other variables unchanged.  Capacity variables (`dispVars`, the code's `Idisp` since 3f8a945) are
    the variables with a mapping row of type 'd' or with a NON-BOOLEAN mapping row of type 'i' (the dispatch
    at an internal node of a wrapped structured asset); variables that only have boolean 'i' rows (on / start
    flags), rows of another type ('size') or no mapping row at all (orders outside the horizon) are not. -/
def RescaledBaseFeasible (base : AssetProblem) (k : Rat) (x : Vec) : Prop :=
  (∀ j, j < base.n →
    if (dispVars base.mapping).contains j
    then base.l.getD j 0 * k ≤ x j ∧ x j ≤ base.u.getD j 0 * k
    else base.l.getD j 0 ≤ x j ∧ x j ≤ base.u.getD j 0) ∧
  ∀ r ∈ base.rows, (scaleRhs k r).Sat x

/-- **C16 (scaled asset at a fixed scale).**  For ANY non-empty base problem whose bounds have the right
    length and whose capacity variables are variables of the base (`d < n`; implied by "mapping rows point
    at base variables", `dispVars_lt`), with `0 < norm`: let `(x, s)` be a point whose scale component
    `s = x n` satisfies `0 ≤ s`, `min_scale ≤ s ≤ max_scale`.  Then `(x, s)` satisfies bounds and rows of the
    scaled problem iff `x` satisfies the base problem with every right-hand side and the bounds of every
    capacity variable (a mapping row of type 'd', or a non-boolean row of type 'i': dispatch at an internal
    node of a wrapped structure) multiplied by `s/norm`, the bounds of all other variables (boolean
    internal variables, variables of other types, variables without mapping row) unchanged — the widened box `min(0,l)·max_scale/norm ≤ x ≤ max(0,u)·max_scale/norm` is
    implied, which needs exactly `0 ≤ s ≤ max_scale` and `0 < norm` — and the value is the base value minus
    `s · fix_costs · Σdt`.  (No hypothesis on the columns of the base rows is needed for the equivalence;
    `scaled_wf` uses `columns < n` to show that the rows stay inside the `n + 1` variables.) -/
theorem scaled_fixed (p : ScaledP) (base : AssetProblem) (dtSum : Rat) (x : Vec) (s : Rat)
    (hne : 0 < base.n) (hl : base.l.length = base.n) (hu : base.u.length = base.n)
    (hdisp : ∀ d ∈ dispVars base.mapping, d < base.n)
    (hnorm : 0 < p.normScale) (h0 : 0 ≤ s) (hmin : p.minScale ≤ s) (hmax : s ≤ p.maxScale)
    (hxs : x base.n = s) :
    ((buildScaled p base dtSum).FeasibleRelaxed x ↔ RescaledBaseFeasible base (s / p.normScale) x) ∧
    - costAt (buildScaled p base dtSum).c 0 x = - costAt base.c 0 x - s * p.fixCosts * dtSum := by
  have hlne : ¬ base.l.length = 0 := by omega
  constructor
  · unfold buildScaled
    rw [if_neg hlne]
    unfold AssetProblem.FeasibleRelaxed RescaledBaseFeasible buildScaledCore
    simp only [hl]
    rw [inBounds_append _ _ _ _ base.n (by rw [mapAt_length, hl]) (by rw [mapAt_length, hu]),
      inBounds_single, Nat.add_zero, hxs]
    simp only [List.forall_mem_append, List.forall_mem_map, tieRow_U_sat,
      tieRow_L_sat, scaleRow_sat, hxs]
    constructor
    · rintro ⟨⟨hb, _⟩, ⟨hrows, hU⟩, hL⟩
      refine ⟨fun j hj => ?_, hrows⟩
      have hbj := hb j (by rw [mapAt_length, hl]; exact hj)
      rw [mapAt_getD _ _ _ _ (by omega), mapAt_getD _ _ _ _ (by omega)] at hbj
      by_cases hc : (dispVars base.mapping).contains j = true
      · rw [if_pos hc]
        have hmem : j ∈ dispVars base.mapping := by simpa using hc
        exact ⟨hL j hmem, hU j hmem⟩
      · rw [if_neg hc]
        simpa only [hc, Bool.false_eq_true, if_false] using hbj
    · rintro ⟨hb, hrows⟩
      refine ⟨⟨fun j hj => ?_, ⟨hmin, hmax⟩⟩, ⟨hrows, fun d hd => ?_⟩, fun d hd => ?_⟩
      · rw [mapAt_length, hl] at hj
        have := hb j hj
        rw [mapAt_getD _ _ _ _ (by omega), mapAt_getD _ _ _ _ (by omega)]
        by_cases hc : (dispVars base.mapping).contains j = true
        · rw [if_pos hc] at this
          simp only [hc, if_true]
          exact ⟨Rat.le_trans (widened_lower (base.l.getD j 0) s p.maxScale p.normScale hnorm h0 hmax) this.1,
                 Rat.le_trans this.2 (widened_upper (base.u.getD j 0) s p.maxScale p.normScale hnorm h0 hmax)⟩
        · rw [if_neg hc] at this
          simpa only [hc, Bool.false_eq_true, if_false] using this
      · have := hb d (hdisp d hd)
        rw [if_pos (by simpa using hd)] at this
        exact this.2
      · have := hb d (hdisp d hd)
        rw [if_pos (by simpa using hd)] at this
        exact this.1
  · unfold buildScaled
    rw [if_neg hlne]
    show - costAt (base.c ++ [p.fixCosts * dtSum]) 0 x = _
    rw [costAt_append]
    simp only [costAt_cons, costAt_nil, Nat.zero_add]
    have : x base.c.length = s := hxs
    rw [this]; grind

/-- non-vacuity of `scaled_fixed`: a base with two capacity variables (type 'd'), one row `x0 + x1 ≤ 3`,
    scale 1 of norm 2, a feasible point -/
def exBase : AssetProblem :=
  { name := "b", nodes := ["n"], c := [2, -1], l := [0, -1], u := [4, 0],
    rows := [⟨[(0, 1), (1, 1)], 3, .U⟩],
    mapping := [⟨0, "b", some "n", .d, 0, 1, false, "disp"⟩, ⟨1, "b", some "n", .d, 1, 1, false, "disp"⟩] }
def exP : ScaledP := { name := "s", node0 := "n", minScale := 0, maxScale := 2, normScale := 2, fixCosts := 3 }
def exX : Vec := fun j => if j = 0 then 3/2 else if j = 1 then -1/4 else if j = 2 then 1 else 0

example : (∀ d ∈ dispVars exBase.mapping, d < exBase.n) ∧ (buildScaled exP exBase 4).FeasibleRelaxed exX ∧
    RescaledBaseFeasible exBase (1 / 2) exX ∧ - costAt (buildScaled exP exBase 4).c 0 exX = - costAt exBase.c 0 exX - 12 := by
  unfold RescaledBaseFeasible
  decide +kernel

/-- the case that was wrong before the repair 8409988 (finding S-1): an order book with the order `x0` in
    the horizon (two steps) and an order `x1` outside (a variable without mapping row, not a capacity
    variable).  Now `x0` is tied to the scale `x2`: "order fully executed at scale 0" is infeasible, the
    point (1/2, 1, 1/2) is feasible for the scaled problem and for the base rescaled by 1/2 (where `x1`
    keeps its box [0,1]); the scale's mapping row points at variable 2. -/
def exOB : AssetProblem :=
  { name := "ob", nodes := ["n"], c := [-12, 0], l := [0, 0], u := [1, 1], rows := [],
    mapping := [⟨0, "ob", some "n", .d, 0, 1, false, "0"⟩, ⟨0, "ob", some "n", .d, 1, 1, false, "0"⟩] }
def exPOB : ScaledP := { name := "s", node0 := "n", minScale := 0, maxScale := 1, normScale := 1, fixCosts := 1 }
def exXOB0 : Vec := fun j => if j = 0 then 1 else if j = 1 then 1 else 0
def exXOB : Vec := fun j => if j = 0 then 1/2 else if j = 1 then 1 else 1/2

example : dispVars exOB.mapping = [0] ∧ ¬ (buildScaled exPOB exOB 4).FeasibleRelaxed exXOB0 ∧
    (buildScaled exPOB exOB 4).FeasibleRelaxed exXOB ∧ RescaledBaseFeasible exOB ((1/2) / 1) exXOB ∧
    ¬ RescaledBaseFeasible exOB ((1/2) / 1) (fun j => if j = 1 then 2 else exXOB j) ∧
    (buildScaled exPOB exOB 4).mapping.getLast? = some ⟨2, "s", some "n", .other "size", 0, 1, false, "scale"⟩ := by
  unfold RescaledBaseFeasible
  decide +kernel

/-- which variables are tied to the scale (3f8a945): a base like a wrapped structure with a plant inside —
    `x0` dispatch at the external node (type 'd'), `x1` dispatch at an internal node (type 'i', not boolean),
    `x2` an on-flag (type 'i', boolean).  `x0` and `x1` are capacity variables: widened box, tie rows, bounds
    times `s/norm` in the rescaled base; `x2` keeps its bounds [0,1] and gets no tie row.  At scale 1 of
    norm 2 the point (1, 3/2, 1, s = 1) is feasible; raising `x1` above `4·(1/2)` is not; the flag may be 1
    whatever the scale, but not 3/2. -/
def exMix : AssetProblem :=
  { name := "w", nodes := ["n"], c := [1, 0, 5], l := [0, 0, 0], u := [2, 4, 1],
    rows := [⟨[(0, 1), (1, -1)], 0, .U⟩],
    mapping := [⟨0, "w", some "n", .d, 0, 1, false, "disp"⟩, ⟨1, "w", some "w_internal_m", .i, 0, 1, false, "disp__pl"⟩,
                ⟨2, "w", none, .i, 0, 1, true, "bool_on__pl"⟩] }
def exPMix : ScaledP := { name := "s", node0 := "n", minScale := 0, maxScale := 3, normScale := 2, fixCosts := 1 }
def exXMix : Vec := fun j => if j = 0 then 1 else if j = 1 then 3/2 else if j = 2 then 1 else if j = 3 then 1 else 0

example : dispVars exMix.mapping = [0, 1] ∧
    (buildScaled exPMix exMix 2).l = [0, 0, 0, 0] ∧ (buildScaled exPMix exMix 2).u = [3, 6, 1, 3] ∧
    (buildScaled exPMix exMix 2).rows.length = 1 + 2 * 2 ∧
    (buildScaled exPMix exMix 2).FeasibleRelaxed exXMix ∧ RescaledBaseFeasible exMix (1 / 2) exXMix ∧
    ¬ (buildScaled exPMix exMix 2).FeasibleRelaxed (fun j => if j = 1 then 5/2 else exXMix j) ∧
    ¬ RescaledBaseFeasible exMix (1 / 2) (fun j => if j = 1 then 5/2 else exXMix j) ∧
    ¬ (buildScaled exPMix exMix 2).FeasibleRelaxed (fun j => if j = 2 then 3/2 else exXMix j) ∧
    ¬ RescaledBaseFeasible exMix (1 / 2) (fun j => if j = 2 then 3/2 else exXMix j) ∧
    (buildScaled exPMix exMix 2).FeasibleRelaxed (fun j => if j = 3 then 1/2 else if j = 0 then 1/2 else if j = 1 then 1 else exXMix j) := by
  unfold RescaledBaseFeasible
  decide +kernel

/-- the rescaled base problem reads a point only below `n` (needs: base rows mention columns `< n` only) -/
theorem rescaledBaseFeasible_congr (base : AssetProblem) (k : Rat) (x y : Vec)
    (hcols : ∀ r ∈ base.rows, ∀ q ∈ r.coeffs, q.1 < base.n) (hxy : ∀ j, j < base.n → x j = y j) :
    RescaledBaseFeasible base k x ↔ RescaledBaseFeasible base k y := by
  have key : ∀ x y : Vec, (∀ j, j < base.n → x j = y j) → RescaledBaseFeasible base k x → RescaledBaseFeasible base k y := by
    intro x y hxy ⟨hb, hr⟩
    refine ⟨fun j hj => ?_, fun r hr' => ?_⟩
    · rw [← hxy j hj]; exact hb j hj
    · exact (scaleRhs_sat_congr k r x y (fun q hq => hxy q.1 (hcols r hr' q hq))).mp (hr r hr')
  exact ⟨key x y hxy, key y x (fun j hj => (hxy j hj).symm)⟩

/-- a point of the scaled problem has its scale component within `[min_scale, max_scale]` -/
theorem scaled_scale_in_range (p : ScaledP) (base : AssetProblem) (dtSum : Rat) (z : Vec)
    (hne : 0 < base.n) (hl : base.l.length = base.n) (hu : base.u.length = base.n)
    (hz : (buildScaled p base dtSum).FeasibleRelaxed z) : p.minScale ≤ z base.n ∧ z base.n ≤ p.maxScale := by
  have hlne : ¬ base.l.length = 0 := by omega
  unfold buildScaled at hz
  rw [if_neg hlne] at hz
  have hb := hz.1
  unfold buildScaledCore at hb
  simp only [] at hb
  rw [inBounds_append _ _ _ _ base.n (by rw [mapAt_length, hl]) (by rw [mapAt_length, hu]),
    inBounds_single, Nat.add_zero] at hb
  exact hb.2

/-- **C16 (scaled asset, free scale).**  Under the hypotheses of `scaled_fixed` (for the base: non-empty,
    bounds of the right length, capacity variables `< n`; `0 < norm`), `0 ≤ min_scale`, and base rows that
    mention columns `< n` only (so that the base problem does not read the scale component): a number `B`
    bounds the values of the scaled problem iff it bounds, for EVERY allowed scale `min_scale ≤ s ≤ max_scale`,
    the values of the base problem rescaled by `s/norm` less the fixed costs `s · fix_costs · Σdt`.  The value
    set of the scaled problem and the union over the allowed scales of the value sets of the rescaled base
    problems (less fixed costs) have the same upper bounds, hence the same supremum: "with a free scale the
    optimum is the best over the allowed range".  (Relaxed problems, as in `scaled_fixed`.) -/
theorem scaled_free (p : ScaledP) (base : AssetProblem) (dtSum : Rat)
    (hne : 0 < base.n) (hl : base.l.length = base.n) (hu : base.u.length = base.n)
    (hdisp : ∀ d ∈ dispVars base.mapping, d < base.n)
    (hcols : ∀ r ∈ base.rows, ∀ q ∈ r.coeffs, q.1 < base.n)
    (hnorm : 0 < p.normScale) (hmin0 : 0 ≤ p.minScale) (B : Rat) :
    (∀ z, (buildScaled p base dtSum).FeasibleRelaxed z → - costAt (buildScaled p base dtSum).c 0 z ≤ B) ↔
    (∀ s, p.minScale ≤ s → s ≤ p.maxScale → ∀ x, RescaledBaseFeasible base (s / p.normScale) x →
      - costAt base.c 0 x - s * p.fixCosts * dtSum ≤ B) := by
  constructor
  · intro h s hs1 hs2 x hx
    have h0 : 0 ≤ s := Rat.le_trans hmin0 hs1
    have hzn : (fun j => if j = base.n then s else x j) base.n = s := by simp
    have hzx : ∀ j, j < base.n → (fun j => if j = base.n then s else x j) j = x j := by
      intro j hj
      have : j ≠ base.n := by omega
      simp [this]
    obtain ⟨hfeas, hval⟩ := scaled_fixed p base dtSum (fun j => if j = base.n then s else x j) s hne hl hu hdisp hnorm h0 hs1 hs2 hzn
    have hz := hfeas.mpr ((rescaledBaseFeasible_congr base _ _ x hcols hzx).mpr hx)
    have := h _ hz
    rw [hval, costAt_congr base.c 0 _ x (fun j hj => by
      rw [Nat.zero_add]; exact hzx j hj)] at this
    exact this
  · intro h z hz
    obtain ⟨hs1, hs2⟩ := scaled_scale_in_range p base dtSum z hne hl hu hz
    have h0 : 0 ≤ z base.n := Rat.le_trans hmin0 hs1
    obtain ⟨hfeas, hval⟩ := scaled_fixed p base dtSum z (z base.n) hne hl hu hdisp hnorm h0 hs1 hs2 rfl
    rw [hval]
    exact h (z base.n) hs1 hs2 z (hfeas.mp hz)

/-- non-vacuity of `scaled_free` on `exBase` (norm 2, scale range [0, 2], fixed costs 3·4 per unit of scale):
    the hypotheses hold, the scaled problem has a point of value −61/4 at scale 1 whose base part is a point
    of the base rescaled by 1/2 with the same value less 12, and a point at scale 0 of value 0 -/
example : (∀ d ∈ dispVars exBase.mapping, d < exBase.n) ∧ (∀ r ∈ exBase.rows, ∀ q ∈ r.coeffs, q.1 < exBase.n) ∧
    (0 : Rat) ≤ exP.minScale ∧ (buildScaled exP exBase 4).FeasibleRelaxed exX ∧
    - costAt (buildScaled exP exBase 4).c 0 exX = -61/4 ∧ RescaledBaseFeasible exBase (1 / 2) exX ∧
    - costAt exBase.c 0 exX - 1 * exP.fixCosts * 4 = -61/4 ∧
    (buildScaled exP exBase 4).FeasibleRelaxed (fun _ => 0) ∧ - costAt (buildScaled exP exBase 4).c 0 (fun _ => 0) = 0 := by
  unfold RescaledBaseFeasible
  decide +kernel

/-- **C16 (scaled asset, shape).**  For a non-empty base problem with bounds of the right length, rows
    and mapping rows that mention base variables only, the scaled problem has `n + 1` variables, bounds of
    that length, `|rows| + 2·nD` rows whose columns are `< n + 1`, and a mapping all of whose rows carry
    the scaled asset's name and point at variables `< n + 1`; its last mapping row is the row of the scale
    (`type 'size'`, `var_name 'scale'`, step 0, first node, not boolean) and points at variable `n`, the
    scale variable — whether or not the last base variable has a mapping row. -/
theorem scaled_wf (p : ScaledP) (base : AssetProblem) (dtSum : Rat) (hne : 0 < base.n)
    (hl : base.l.length = base.n) (hu : base.u.length = base.n)
    (hcols : ∀ r ∈ base.rows, ∀ q ∈ r.coeffs, q.1 < base.n)
    (hmap : ∀ m ∈ base.mapping, m.var < base.n) :
    (buildScaled p base dtSum).n = base.n + 1 ∧
    (buildScaled p base dtSum).l.length = base.n + 1 ∧ (buildScaled p base dtSum).u.length = base.n + 1 ∧
    (buildScaled p base dtSum).rows.length = base.rows.length + 2 * (dispVars base.mapping).length ∧
    (∀ r ∈ (buildScaled p base dtSum).rows, ∀ q ∈ r.coeffs, q.1 < base.n + 1) ∧
    (∀ m ∈ (buildScaled p base dtSum).mapping, m.var < base.n + 1 ∧ m.asset = p.name) ∧
    (buildScaled p base dtSum).mapping.getLast? = some (scaleMapRow p base.n) ∧
    (scaleMapRow p base.n).var = base.n ∧ (scaleMapRow p base.n).kind = .other "size" ∧
    (scaleMapRow p base.n).isBool = false := by
  have hlne : ¬ base.l.length = 0 := by omega
  have hdisp := dispVars_lt base hmap
  unfold buildScaled
  rw [if_neg hlne]
  refine ⟨?_, ?_, ?_, ?_, ?_, ?_, ?_, rfl, rfl, rfl⟩
  · show (base.c ++ [p.fixCosts * dtSum]).length = _
    simp [AssetProblem.n]
  · show (mapAt _ _ base.l ++ [p.minScale]).length = _
    simp [mapAt_length, hl]
  · show (mapAt _ _ base.u ++ [p.maxScale]).length = _
    simp [mapAt_length, hu]
  · simp only [buildScaledCore, List.length_append, List.length_map]
    omega
  · intro r hr q hq
    simp only [buildScaledCore, List.mem_append, hl] at hr
    rcases hr with (hr | hr) | hr
    · obtain ⟨r', hr', rfl⟩ := List.mem_map.mp hr
      simp only [scaleRow, List.mem_append, List.mem_singleton] at hq
      rcases hq with hq | rfl
      · have := hcols r' hr' q hq; omega
      · simp only []; omega
    · obtain ⟨d, hd, rfl⟩ := List.mem_map.mp hr
      have := hdisp d hd
      simp only [tieRow, List.mem_cons, List.not_mem_nil, or_false] at hq
      rcases hq with rfl | rfl <;> simp only [] <;> omega
    · obtain ⟨d, hd, rfl⟩ := List.mem_map.mp hr
      have := hdisp d hd
      simp only [tieRow, List.mem_cons, List.not_mem_nil, or_false] at hq
      rcases hq with rfl | rfl <;> simp only [] <;> omega
  · intro m hm
    simp only [buildScaledCore, List.mem_append, List.mem_map, List.mem_singleton, hl] at hm
    rcases hm with ⟨m', hm', rfl⟩ | rfl
    · exact ⟨by have := hmap m' hm'; simp only []; omega, rfl⟩
    · exact ⟨by simp only [scaleMapRow]; omega, rfl⟩
  · simp [buildScaledCore, hl]

/-- an empty base problem (base asset not active in the horizon) is handed on unchanged -/
theorem scaled_empty (p : ScaledP) (base : AssetProblem) (dtSum : Rat) (h : base.l.length = 0) :
    buildScaled p base dtSum = base := by
  unfold buildScaled; rw [if_pos h]

/-! ## structured asset -/

/-- dispatch rows of an asset sit at the asset's own nodes (part of `C01.WF`; evaluated by the harness on
    every captured real asset problem) -/
def DispAtOwnNodes (a : AssetProblem) : Prop :=
  ∀ m ∈ a.mapping, m.kind = .d → ∀ n, m.node = some n → n ∈ a.nodes

/-- **C16 (structured vs flat, variables).**  The portfolio with the structured asset and the flat
    portfolio with the inner assets in its place have the same cost vector and the same bounds: the
    variables correspond one to one, in the same order (no permutation is needed). -/
theorem structured_flat_vectors (name : String) (ext : List String) (outer inner : List AssetProblem)
    (gridI : List Nat) (skip : List String) :
    (assemble (outer ++ [structured name ext inner gridI]) gridI skip).c = (assemble (outer ++ inner) gridI skip).c ∧
    (assemble (outer ++ [structured name ext inner gridI]) gridI skip).l = (assemble (outer ++ inner) gridI skip).l ∧
    (assemble (outer ++ [structured name ext inner gridI]) gridI skip).u = (assemble (outer ++ inner) gridI skip).u := by
  refine ⟨?_, ?_, ?_⟩
  · rw [assemble_c, assemble_c, assembleFrom_append_c, assembleFrom_append_c, assembleFrom_cons_c, assembleFrom_nil,
      List.append_nil]
    show _ ++ (assembleFrom 0 inner).c = _
    rw [assembleFrom_c_off 0 (0 + (outer.map (·.n)).sum) inner]
  · rw [assemble_l, assemble_l, assembleFrom_append_l, assembleFrom_append_l, assembleFrom_cons_l, assembleFrom_nil,
      List.append_nil]
    show _ ++ (assembleFrom 0 inner).l = _
    rw [assembleFrom_l_off 0 (0 + (outer.map (·.n)).sum) inner]
  · rw [assemble_u, assemble_u, assembleFrom_append_u, assembleFrom_append_u, assembleFrom_cons_u, assembleFrom_nil,
      List.append_nil]
    show _ ++ (assembleFrom 0 inner).u = _
    rw [assembleFrom_u_off 0 (0 + (outer.map (·.n)).sum) inner]

/-- **C16 (structured vs flat, restrictions).**  Provided every asset's dispatch rows sit at its own
    nodes, the inner non-external node names do not occur among the nodes of the outer assets and are
    not skipped, a point satisfies all rows of the portfolio with the structured asset iff it satisfies
    all rows of the flat portfolio: the asset rows coincide (shifted by the same offset), every nodal
    row of the flat problem at an inner node is an `S` row inside the structured asset and vice versa,
    and the nodal rows at outer nodes have the same coefficients (dispatch rows at external nodes keep
    type 'd', variable and factor).  Together with `structured_flat_vectors`: same feasible set, same
    objective, hence same optimal value and the same optimal points. -/
theorem structured_flat (name : String) (ext : List String) (outer inner : List AssetProblem)
    (gridI : List Nat) (skip : List String)
    (hwo : ∀ a ∈ outer, DispAtOwnNodes a) (hwi : ∀ a ∈ inner, DispAtOwnNodes a)
    (hsep : ∀ a ∈ outer, ∀ n ∈ a.nodes, n ∈ portfolioNodes inner → n ∈ ext)
    (hskip : ∀ n ∈ portfolioNodes inner, n ∉ ext → n ∉ skip) (x : Vec) :
    (∀ r ∈ (assemble (outer ++ [structured name ext inner gridI]) gridI skip).rows, r.Sat x) ↔
    (∀ r ∈ (assemble (outer ++ inner) gridI skip).rows, r.Sat x) := by
  have hoff : (assembleFrom (0 + (outer.map (·.n)).sum) inner).mapping =
      (assembleFrom 0 inner).mapping.map (MapRow.shift (outer.map (·.n)).sum) := by
    have := assembleFrom_mapping_shift inner (outer.map (·.n)).sum 0
    simpa using this
  have hoffR : (assembleFrom (0 + (outer.map (·.n)).sum) inner).rows =
      (assembleFrom 0 inner).rows.map (Row.rename ((outer.map (·.n)).sum + ·)) := by
    have := assembleFrom_rows_shift inner (outer.map (·.n)).sum 0
    simpa using this
  have hM2 : (assembleFrom 0 (outer ++ inner)).mapping =
      (assembleFrom 0 outer).mapping ++ (assembleFrom 0 inner).mapping.map (MapRow.shift (outer.map (·.n)).sum) := by
    rw [assembleFrom_append_mapping, hoff]
  have hM1 : (assembleFrom 0 (outer ++ [structured name ext inner gridI])).mapping =
      (assembleFrom 0 outer).mapping ++
        ((assembleFrom 0 inner).mapping.map (MapRow.shift (outer.map (·.n)).sum)).map (structuredMapRow name ext) := by
    rw [assembleFrom_append_mapping, assembleFrom_cons_mapping, assembleFrom_nil, List.append_nil]
    show _ ++ (((assemble inner gridI ext).mapping.map (structuredMapRow name ext)).map _) = _
    rw [assemble_mapping, List.map_map, List.map_map]
    congr 1
    apply List.map_congr_left
    intro m _
    simp only [Function.comp, smr_shift, Nat.zero_add]
  have hR2 : (assembleFrom 0 (outer ++ inner)).rows =
      (assembleFrom 0 outer).rows ++ (assembleFrom 0 inner).rows.map (Row.rename ((outer.map (·.n)).sum + ·)) := by
    rw [assembleFrom_append_rows, hoffR]
  have hR1 : (assembleFrom 0 (outer ++ [structured name ext inner gridI])).rows =
      (assembleFrom 0 outer).rows ++
        (((assembleFrom 0 inner).rows ++ (nodalPairs (assembleFrom 0 inner).mapping (portfolioNodes inner) ext gridI).map
          (fun p => nodalRow (assembleFrom 0 inner).mapping p.2 p.1)).map Row.nToS).map
            (Row.rename ((outer.map (·.n)).sum + ·)) := by
    rw [assembleFrom_append_rows, assembleFrom_cons_rows, assembleFrom_nil, List.append_nil]
    show _ ++ (((assemble inner gridI ext).rows.map Row.nToS).map _) = _
    rw [assemble_rows, Nat.zero_add]
  -- hypotheses of the core lemma
  have hO : ∀ m ∈ (assembleFrom 0 outer).mapping, m.kind = .d → ∀ n, m.node = some n → n ∈ portfolioNodes outer := by
    intro m hm hk n hn
    obtain ⟨a, ha, m', hm', o, rfl⟩ := mem_assembleFrom_mapping outer 0 m hm
    exact mem_portfolioNodes outer a ha n (hwo a ha m' hm' hk n hn)
  have hI : ∀ m ∈ (assembleFrom 0 inner).mapping.map (MapRow.shift (outer.map (·.n)).sum), m.kind = .d →
      ∀ n, m.node = some n → n ∈ portfolioNodes inner := by
    intro m hm hk n hn
    obtain ⟨m0, hm0, rfl⟩ := List.mem_map.mp hm
    obtain ⟨a, ha, m', hm', o, rfl⟩ := mem_assembleFrom_mapping inner 0 m0 hm0
    exact mem_portfolioNodes inner a ha n (hwi a ha m' hm' hk n hn)
  have hsep' : ∀ n ∈ portfolioNodes outer, n ∈ portfolioNodes inner → n ∈ ext := by
    intro n hn hni
    obtain ⟨a, ha, hna⟩ := (mem_portfolioNodes_iff outer n).mp hn
    exact hsep a ha n hna hni
  have h1 : ∀ n, n ∈ portfolioNodes (outer ++ [structured name ext inner gridI]) ↔ n ∈ portfolioNodes outer ∨ n ∈ ext := by
    intro n
    rw [mem_portfolioNodes_iff, mem_portfolioNodes_iff]
    constructor
    · rintro ⟨a, ha, hn⟩
      rcases List.mem_append.mp ha with h | h
      · exact Or.inl ⟨a, h, hn⟩
      · have : a = structured name ext inner gridI := by simpa using h
        subst this; exact Or.inr hn
    · rintro (⟨a, ha, hn⟩ | hn)
      · exact ⟨a, List.mem_append.mpr (Or.inl ha), hn⟩
      · exact ⟨structured name ext inner gridI, by simp, hn⟩
  have h2 : ∀ n, n ∈ portfolioNodes (outer ++ inner) ↔ n ∈ portfolioNodes outer ∨ n ∈ portfolioNodes inner := by
    intro n
    simp only [mem_portfolioNodes_iff, List.mem_append]
    constructor
    · rintro ⟨a, ha | ha, hn⟩
      · exact Or.inl ⟨a, ha, hn⟩
      · exact Or.inr ⟨a, ha, hn⟩
    · rintro (⟨a, ha, hn⟩ | ⟨a, ha, hn⟩)
      · exact ⟨a, Or.inl ha, hn⟩
      · exact ⟨a, Or.inr ha, hn⟩
  have key := nodal_core (assembleFrom 0 outer).mapping
    ((assembleFrom 0 inner).mapping.map (MapRow.shift (outer.map (·.n)).sum)) name ext
    (portfolioNodes outer) (portfolioNodes inner) skip gridI hO hI hsep' hskip _ _ h1 h2 x
  rw [nodalPairs_map_shift] at key
  -- rows of either problem, piece by piece
  have conv1 : ∀ r : Row, ((r.nToS).rename ((outer.map (·.n)).sum + ·)).Sat x ↔
      (r.rename ((outer.map (·.n)).sum + ·)).Sat x := by
    intro r; rw [sat_rename, nToS_sat, ← sat_rename]
  have conv2 : ∀ n t, ((nodalRow (assembleFrom 0 inner).mapping n t).rename ((outer.map (·.n)).sum + ·)).Sat x ↔
      (nodalRow ((assembleFrom 0 inner).mapping.map (MapRow.shift (outer.map (·.n)).sum)) n t).eval x = 0 := by
    intro n t; rw [← nodalRow_map_shift, nodalRow_sat_iff]
  rw [assemble_rows, assemble_rows, hM1, hM2, hR1, hR2]
  simp only [List.forall_mem_append, List.forall_mem_map, conv1, conv2, nodalRow_sat_iff]
  constructor
  · rintro ⟨⟨ho, hi, hA⟩, hB⟩
    exact ⟨⟨ho, hi⟩, key.mp ⟨hA, hB⟩⟩
  · rintro ⟨⟨ho, hi⟩, h⟩
    obtain ⟨hA, hB⟩ := key.mpr h
    exact ⟨⟨ho, hi, hA⟩, hB⟩

/-- non-vacuity of `structured_flat`: a market at the outer node `N`; inside the structured asset a supply
    contract at the inner node `i` and a transport `i → N` with efficiency 1/2 (one variable, two mapping
    rows); the hypotheses hold, the point (market −1, supply 2, transport 2) satisfies the rows of both
    problems, the structured problem has the inner balance as an `S` row and one `N` row, the flat one two
    `N` rows -/
def exMkt : AssetProblem :=
  { name := "mkt", nodes := ["N"], c := [-5], l := [-10], u := [10], rows := [],
    mapping := [⟨0, "mkt", some "N", .d, 0, 1, false, "disp"⟩] }
def exSup : AssetProblem :=
  { name := "sup", nodes := ["i"], c := [1], l := [0], u := [4], rows := [⟨[(0, 1)], 3, .U⟩],
    mapping := [⟨0, "sup", some "i", .d, 0, 1, false, "disp"⟩] }
def exTr : AssetProblem :=
  { name := "tr", nodes := ["i", "N"], c := [0], l := [0], u := [5], rows := [],
    mapping := [⟨0, "tr", some "i", .d, 0, -1, false, "disp"⟩, ⟨0, "tr", some "N", .d, 0, 1/2, false, "disp"⟩] }
def exXS : Vec := fun j => if j = 0 then -1 else 2

example : ∀ a ∈ [exMkt, exSup, exTr], DispAtOwnNodes a := by
  intro a ha m hm hk n hn
  simp only [List.mem_cons, List.not_mem_nil, or_false] at ha
  rcases ha with rfl | rfl | rfl <;> simp [exMkt, exSup, exTr] at hm <;> rcases hm with rfl | rfl <;>
    simp_all [exMkt, exSup, exTr]

example : (∀ a ∈ [exMkt], ∀ n ∈ a.nodes, n ∈ portfolioNodes [exSup, exTr] → n ∈ ["N"]) ∧
    (∀ n ∈ portfolioNodes [exSup, exTr], n ∉ ["N"] → n ∉ ([] : List String)) ∧
    (∀ r ∈ (assemble ([exMkt] ++ [structured "sa" ["N"] [exSup, exTr] [0]]) [0] []).rows, r.Sat exXS) ∧
    (∀ r ∈ (assemble ([exMkt] ++ [exSup, exTr]) [0] []).rows, r.Sat exXS) ∧
    ((assemble ([exMkt] ++ [structured "sa" ["N"] [exSup, exTr] [0]]) [0] []).rows.map (·.kind)) = [.U, .S, .N] ∧
    ((assemble ([exMkt] ++ [exSup, exTr]) [0] []).rows.map (·.kind)) = [.U, .N, .N] := by
  decide +kernel

end EAO.C16
