import EAO.Model.Storage
import EAO.Model.Contract
import EAO.Lemmas.Storage
import EAO.Properties.C05
/-!
# C08 — horizon and windows, builder side: the storage

The analogue of `EAO/Properties/C08.lean` (contracts, transports) for `buildStorage`, with all options the model
has (one or two variables, two nodes, time blocks, no simultaneous in/out, maximum holding duration).  The
builder sees the horizon only through the restricted grid `g` (= horizon ∩ `[start, end)`,
`EAO.C19.restricted_is_filter`).

* `storage_built_wf`: what the builder returns is well formed (lengths, column and mapping indices below the
  number of variables, names, dispatch rows at the storage's nodes and at steps of `g.idx`, no `N` rows);
* `empty_window_inert_storage` (+ `empty_window_always_ok_storage`): on a grid without steps the result has no
  variable, no row, no mapping row — and the set-up succeeds whatever the other arguments are (the code returns
  before it looks at the price data or the blocks);
* `vars_only_in_window_storage`: EVERY mapping row (dispatch and both kinds of boolean) sits at a step of the
  restricted grid;
* `no_dispatch_outside_window_storage`: hence the dispatch read-out is 0 at every step outside the window for
  every `x`; so are the reported charge and discharge, and the reported fill level does not move there
  (`no_charge_outside_window_storage`, `fill_level_constant_outside_window_storage`).
-/
namespace EAO.C08
open EAO EAO.Storage

/-- well-formedness of what `buildStorage` returns (restatement of `EAO.C05.storage_wf` in the vocabulary of this
    property; `gridI := g.idx`) -/
theorem storage_built_wf {p : StorageP} {g : Grid} {prices : Prices} {fullT : Nat} {P : AssetProblem}
    (hg : g.Ok) (h : buildStorage p g fullT prices = .ok P) :
    EAO.C05.AssetWF g.idx P ∧ P.name = p.name ∧ P.nodes = p.nodes ∧
      P.n = (if g.T = 0 then 0 else nVars p g.T) :=
  EAO.C05.storage_wf p g fullT prices P g.idx h hg.2.1
    (fun k hk => idxAt_mem g k (by rw [hg.1]; exact hk))

/-- on a grid with no step (window entirely outside the horizon, empty or reversed window) the set-up
    succeeds, for ANY parameters, price data and block positions … -/
theorem empty_window_always_ok_storage (p : StorageP) {g : Grid} (prices : Prices) (fullT : Nat)
    (hg : g.Ok) (hT : g.T = 0) :
    buildStorage p g fullT prices
      = .ok { name := p.name, nodes := p.nodes, c := [], l := [], u := [], rows := [], mapping := [] } := by
  unfold buildStorage
  rw [if_pos (by rw [hg.2.1]; exact hT)]

/-- … and returns a problem with no variable, no row and no mapping row -/
theorem empty_window_inert_storage {p : StorageP} {g : Grid} {prices : Prices} {fullT : Nat} {P : AssetProblem}
    (hg : g.Ok) (hT : g.T = 0) (h : buildStorage p g fullT prices = .ok P) :
    P.c = [] ∧ P.l = [] ∧ P.u = [] ∧ P.rows = [] ∧ P.mapping = [] := by
  rw [empty_window_always_ok_storage p prices fullT hg hT] at h
  cases h
  exact ⟨rfl, rfl, rfl, rfl, rfl⟩

/-- every mapping row's step is a step of the restricted grid -/
theorem vars_only_in_window_storage {p : StorageP} {g : Grid} {prices : Prices} {fullT : Nat} {P : AssetProblem}
    (hg : g.Ok) (h : buildStorage p g fullT prices = .ok P) : ∀ m ∈ P.mapping, m.step ∈ g.idx := by
  intro m hm
  by_cases hne : g.dt.length = 0
  · have hT : g.T = 0 := by rw [← hg.2.1]; exact hne
    rw [(empty_window_inert_storage hg hT h).2.2.2.2] at hm
    simp at hm
  · obtain ⟨pr, bl, _, _, rfl⟩ := buildStorage_ok p g fullT prices P h hne
    obtain ⟨k, hk, hs⟩ := storage_mapping_steps p g g.T m hm
    rw [hs]
    exact idxAt_mem g k (by rw [hg.1]; exact hk)

/-- … hence a step outside the restricted grid carries no dispatch of the storage, whatever the solution -/
theorem no_dispatch_outside_window_storage {p : StorageP} {g : Grid} {prices : Prices} {fullT : Nat}
    {P : AssetProblem} (hg : g.Ok) (h : buildStorage p g fullT prices = .ok P)
    (t : Nat) (ht : t ∉ g.idx) (x : Vec) (n : String) :
    ((P.mapping.filter fun m => m.step == t && m.node == some n).map fun m => x m.var * m.factor).sum = 0 := by
  have : (P.mapping.filter fun m => m.step == t && m.node == some n) = [] := by
    apply List.filter_eq_nil_iff.mpr
    intro m hm
    have := vars_only_in_window_storage hg h m hm
    simp only [Bool.and_eq_true, beq_iff_eq, not_and]
    intro hst
    exact absurd (hst ▸ this) ht
  rw [this]; rfl

/-- the reported charge and discharge are 0 outside the window -/
theorem no_charge_outside_window_storage {p : StorageP} {g : Grid} {prices : Prices} {fullT : Nat}
    {P : AssetProblem} (hg : g.Ok) (h : buildStorage p g fullT prices = .ok P)
    (t : Nat) (ht : t ∉ g.idx) (x : Vec) :
    chargeOut p P.mapping x t = 0 ∧ dischargeOut p P.mapping x t = 0 := by
  have hz : ∀ (q : MapRow → Bool) (f : MapRow → Rat),
      ((P.mapping.filter fun m => q m && m.step == t).map f).sum = 0 := by
    intro q f
    have : (P.mapping.filter fun m => q m && m.step == t) = [] := by
      apply List.filter_eq_nil_iff.mpr
      intro m hm
      have := vars_only_in_window_storage hg h m hm
      simp only [Bool.and_eq_true, beq_iff_eq, not_and]
      intro _ hst
      exact absurd (hst ▸ this) ht
    rw [this]; rfl
  unfold chargeOut dischargeOut
  exact ⟨hz _ _, hz _ _⟩

/-- the reported fill level does not change at a step outside the window (it keeps the start level before the
    window and the last level after it) -/
theorem fill_level_constant_outside_window_storage {p : StorageP} {g : Grid} {prices : Prices} {fullT : Nat}
    {P : AssetProblem} (hg : g.Ok) (h : buildStorage p g fullT prices = .ok P)
    (t : Nat) (ht : t ∉ g.idx) (x : Vec) : fillInc p P.mapping g x t = 0 := by
  unfold fillInc
  have h1 : ((storageDispRows P.mapping p.name).filter fun m => m.step == t) = [] := by
    apply List.filter_eq_nil_iff.mpr
    intro m hm
    have hm' : m ∈ P.mapping := by
      unfold storageDispRows at hm
      have hmem : ∀ (M : List MapRow) (seen : List Nat) (m : MapRow), m ∈ firstRows M seen → m ∈ M := by
        intro M
        induction M with
        | nil => intro seen m hm; simp [firstRows] at hm
        | cons m' M ih =>
          intro seen m hm
          unfold firstRows at hm
          split at hm
          · exact List.mem_cons_of_mem _ (ih _ _ hm)
          · rcases List.mem_cons.mp hm with h | h
            · exact h ▸ List.mem_cons_self
            · exact List.mem_cons_of_mem _ (ih _ _ h)
      exact (List.mem_filter.mp (hmem _ _ _ hm)).1
    have := vars_only_in_window_storage hg h m hm'
    simp only [beq_iff_eq]
    intro hst
    exact absurd (hst ▸ this) ht
  have h2 : ((List.range g.idx.length).filter fun k => idxAt g k == t) = [] := by
    apply List.filter_eq_nil_iff.mpr
    intro k hk
    simp only [beq_iff_eq]
    intro hst
    exact ht (hst ▸ idxAt_mem g k (List.mem_range.mp hk))
  rw [h1, h2]
  simp only [List.map_nil, List.sum_nil]
  grind

end EAO.C08

/-! ### non-vacuity: a storage whose window lies strictly inside the horizon (kernel-evaluated) -/
namespace EAO.C08.ExStorage
open EAO EAO.Storage

/-- horizon of 8 hourly steps; the window covers steps 2…5 -/
def g : Grid := { pts := [7200, 10800, 14400, 18000], idx := [2, 3, 4, 5], dt := [1, 1, 1, 1], Dt := [3, 4, 5, 6], df := [1, 1, 1, 1] }

/-- two nodes, efficiency 1/2, inflow, time blocks, both MIP options -/
def p : StorageP :=
  { name := "s", nodes := ["a", "b"], size := 4, capIn := 2, capOut := 2, startLevel := 1, endLevel := 1,
    costIn := 0, costOut := 1/8, costStore := 1/4, effIn := 1/2, inflow := 1/4, price := none,
    noSimult := true, maxStoreDuration := some 2, blocks := some [0, 2] }

/-- window entirely outside the horizon -/
def gEmpty : Grid := { pts := [], idx := [], dt := [], Dt := [], df := [] }

example : g.Ok ∧ gEmpty.Ok ∧ gEmpty.T = 0 := by decide +kernel

-- the set-up succeeds: 16 variables (4 in, 4 out, 4 + 4 booleans), all 16 mapping rows at steps 2…5
example : (match buildStorage p g 8 [] with
    | .ok P => P.n == 16 && P.mapping.length == 16 && P.mapping.all (fun m => g.idx.contains m.step)
                && P.mapping.all (fun m => decide (2 ≤ m.step ∧ m.step ≤ 5))
    | .error _ => false) = true := by decide +kernel

-- steps 0, 1, 6, 7 of the horizon are outside the window
example : (0 ∉ g.idx) ∧ (1 ∉ g.idx) ∧ (6 ∉ g.idx) ∧ (7 ∉ g.idx) := by decide +kernel

-- empty window: nothing is built, even with a price key that does not exist
example : (match buildStorage { p with price := some "nokey" } gEmpty 8 [] with
    | .ok P => P.c.isEmpty && P.l.isEmpty && P.u.isEmpty && P.rows.isEmpty && P.mapping.isEmpty
    | .error _ => false) = true := by decide +kernel

end EAO.C08.ExStorage
