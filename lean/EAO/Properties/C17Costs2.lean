import EAO.Properties.C17Costs
import EAO.Lemmas.CostsOnly2
/-!
# C17 — `costs_only=True` for the remaining bases

Property theorems only; helper lemmas live in `EAO/Lemmas/CostsOnly2.lean`.

`EAO/Properties/C17Costs.lean` proves `costs_only_is_cost` over whole asset descriptions (`CSpec`) with the hypothesis
`BasesWF` (every base of a scaled asset has as many bounds as costs — the scaled asset tests `len(op.l)` in the full branch
and `len(op)` in the cost-only branch) and discharges it only for the LP builders (`GridsOk`).  This file

* proves the length facts for the rest: the CHP chain (`chp_bounds_len`, with or without ramp profiles, with or without
  minimum-load costs) and the coarse builders (`coarse_simple_bounds_len`, `coarse_transport_bounds_len`), hence
  `basesWF_chp`, `basesWF_coarse`, `basesWF_all`;
* so that `costs_only_is_cost_all : periodicFree → GridsWF → build = ok a → costsOnly = ok a.c` and the portfolio /
  cost-sample theorems (`portfolio_costs_only_is_cost_all`, `cost_samples_are_problem_costs_all`, `cost_samples_fit_all`)
  need no `BasesWF` — only grids as `Timegrid` makes them (`GridsWF`: lists of equal length; `True` for storages and order
  books);
* adds the `Storage` with an own coarse `freq` (`EAO/Model/CoarseStorage.lean`, not a constructor of `CSpec`) as
  stand-alone theorems: `costs_only_is_cost_coarse_storage` (+ `…_G` from the full grid and the cuts), its error side
  (`costs_only_coarse_storage_error_side`, `setup_error_shared_coarse_storage`), `coarse_storage_bounds_len`,
  `shape_price_free_coarse_storage`.
-/
namespace EAO.C17C2
open EAO EAO.CostsOnly EAO.CostsOnly2 EAO.C17C

/-! ## (1) the length facts -/

/-- **chp_any_bounds_len.**  `CHPAsset` / `Plant`, with or without ramp profiles, on top of a parent problem with as many
    lower bounds as costs: the same holds for the result (heat copy, on / start / shutdown booleans included). -/
theorem chp_any_bounds_len {p : CHPP} {q : CHPProfP} {base : AssetProblem} {g : Grid} {pr : Prices} {u s : Nat}
    {a : AssetProblem} (hg : g.Ok) (hb : base.l.length = base.c.length) (h : buildCHPAny p q base g pr u s = .ok a) :
    a.l.length = a.c.length :=
  buildCHPAny_len hg hb h

/-- **minload_bounds_len.**  Minimum-load costs add one cost and one bound per step. -/
theorem minload_bounds_len {m : MinLoadP} {a : AssetProblem} {g : Grid} {pr : Prices} {b : AssetProblem}
    (hg : g.Ok) (ha : a.l.length = a.c.length) (h : buildMinLoad m a g pr = .ok b) : b.l.length = b.c.length :=
  buildMinLoad_len hg ha h

/-- **chp_bounds_len.**  The whole chain Contract → CHPAsset / Plant → minimum-load costs. -/
theorem chp_bounds_len {p : CHPP} {q : CHPProfP} {ml : Option MinLoadP} {cp : ContractP} {g : Grid} {pr : Prices}
    {fullT u s : Nat} {a : AssetProblem} (hg : g.Ok) (h : buildCHPAsset p q ml cp g pr fullT u s = .ok a) :
    a.l.length = a.c.length :=
  chp_asset_len hg h

theorem coarse_simple_bounds_len {p : ContractP} {cg : CoarseGrid} {dtF : List Rat} {pr : Prices} {fullT : Nat}
    {a : AssetProblem} (hcg : CoarseOk cg) (h : buildCoarseSimpleContract p cg dtF pr fullT = .ok a) :
    a.l.length = a.c.length :=
  coarse_simple_len hcg h

theorem coarse_transport_bounds_len {p : TransportP} {cg : CoarseGrid} {dtF : List Rat} {pr : Prices} {fullT : Nat}
    {a : AssetProblem} (hcg : CoarseOk cg) (h : buildCoarseTransport p cg dtF pr fullT = .ok a) :
    a.l.length = a.c.length :=
  coarse_transport_len hcg h

/-- the hypothesis on the coarse grid follows from `CoarseGrid.WellFormed` (what `coarsen` returns) -/
theorem coarseOk_of_wellFormed {cg : CoarseGrid} {dtFine : List Rat} (h : cg.WellFormed dtFine) : CoarseOk cg :=
  coarseOk_of_wf h

/-- **basesWF_chp.**  A scaled asset over a CHP asset / plant (any profile, any minimum-load costs): the hypothesis
    `BasesWF` of `C17C.costs_only_is_cost` holds. -/
theorem basesWF_chp (sp : ScaledP) (p : CHPP) (q : CHPProfP) (ml : Option MinLoadP) (cp : ContractP) (g : Grid)
    (fullT u s : Nat) (dtSum : Rat) (pr : Prices) (hg : g.Ok) :
    BasesWF (.scaled sp (.chp p q ml cp g fullT u s) dtSum) pr := by
  rw [BasesWF]
  refine ⟨fun base hb => ?_, by simp [BasesWF]⟩
  rw [CSpec.build] at hb
  exact chp_asset_len hg hb

/-- **basesWF_coarse.**  A scaled asset over a contract or a transport with an own coarse frequency. -/
theorem basesWF_coarse (sp : ScaledP) (cg : CoarseGrid) (dtFine : List Rat) (fullT : Nat) (dtSum : Rat) (pr : Prices)
    (hcg : CoarseOk cg) :
    (∀ p : ContractP, BasesWF (.scaled sp (.coarseSimple p cg dtFine fullT) dtSum) pr) ∧
    (∀ p : TransportP, BasesWF (.scaled sp (.coarseTransport p cg dtFine fullT) dtSum) pr) := by
  refine ⟨fun p => ?_, fun p => ?_⟩
  · rw [BasesWF]
    refine ⟨fun base hb => ?_, by simp [BasesWF]⟩
    rw [CSpec.build] at hb
    exact coarse_simple_len hcg hb
  · rw [BasesWF]
    refine ⟨fun base hb => ?_, by simp [BasesWF]⟩
    rw [CSpec.build] at hb
    exact coarse_transport_len hcg hb

/-! ## (2) whole asset descriptions without `BasesWF` -/

mutual
/-- every grid in the description has its per-step lists as long as its point list, every coarse grid in addition one
    list of minor steps per coarse step (what `Timegrid` / `set_restricted_grid` make).  Nothing is asked of storages
    and order books. -/
def GridsWF : CSpec → Prop
  | .simple _ g _ => g.Ok
  | .contract _ g _ _ => g.Ok
  | .multi _ _ g _ _ => g.Ok
  | .transport _ g _ => g.Ok
  | .extTransport _ g _ _ => g.Ok
  | .coarseSimple _ cg _ _ => CoarseOk cg
  | .coarseTransport _ cg _ _ => CoarseOk cg
  | .storage _ _ _ => True
  | .orderBook _ _ _ _ _ _ _ _ => True
  | .chp _ _ _ _ g _ _ _ => g.Ok
  | .scaled _ b _ => GridsWF b
  | .structured _ _ inner _ => GridsWFAll inner
  | .linked _ _ inner _ _ _ _ _ _ => GridsWFAll inner
  | .periodic s _ => GridsWF s
def GridsWFAll : List CSpec → Prop
  | [] => True
  | s :: ss => GridsWF s ∧ GridsWFAll ss
end

mutual
/-- **build_len_all.**  Every problem ANY description builds has as many bounds as costs. -/
theorem build_len_all : (s : CSpec) → (pr : Prices) → GridsWF s → (a : AssetProblem) → s.build pr = .ok a →
    a.l.length = a.c.length
  | .simple p g fullT, pr, hg, a, h => by
    rw [CSpec.build] at h; rw [GridsWF] at hg; exact (simpleContract_wf hg h).l_len
  | .contract p g fullT u, pr, hg, a, h => by
    rw [CSpec.build] at h; rw [GridsWF] at hg; exact (contract_wf' hg h).l_len
  | .multi p f g fullT u, pr, hg, a, h => by
    rw [CSpec.build] at h; rw [GridsWF] at hg; exact (multi_wf' hg h).l_len
  | .transport p g fullT, pr, hg, a, h => by
    rw [CSpec.build] at h; rw [GridsWF] at hg; exact (transport_wf' hg h).l_len
  | .extTransport p g fullT u, pr, hg, a, h => by
    rw [CSpec.build] at h; rw [GridsWF] at hg; exact (extTransport_wf' hg h).l_len
  | .coarseSimple p cg dtFine fullT, pr, hg, a, h => by
    rw [CSpec.build] at h; rw [GridsWF] at hg; exact coarse_simple_len hg h
  | .coarseTransport p cg dtFine fullT, pr, hg, a, h => by
    rw [CSpec.build] at h; rw [GridsWF] at hg; exact coarse_transport_len hg h
  | .storage p g T, pr, _, a, h => by rw [CSpec.build] at h; exact storage_len h
  | .orderBook name node starts stops capas prices fullExec g, pr, _, a, h => by
    rw [CSpec.build] at h; exact orderBookRaw_len h
  | .chp p q ml cp g fullT u s, pr, hg, a, h => by
    rw [CSpec.build] at h; rw [GridsWF] at hg; exact chp_asset_len hg h
  | .scaled p b dtSum, pr, hg, a, h => by
    rw [CSpec.build] at h
    rw [GridsWF] at hg
    split at h
    · exact absurd (bind_eq_ok h).choose_spec.1 throw_ne_ok
    · obtain ⟨base, hb, h⟩ := bind_eq_ok h
      simp only [pure, Except.pure, Except.ok.injEq] at h
      subst h
      exact scaled_len p base dtSum (build_len_all b pr hg base hb)
  | .structured name ext inner gridI, pr, hg, a, h => by
    rw [CSpec.build] at h
    rw [GridsWF] at hg
    obtain ⟨as, has, h⟩ := bind_eq_ok h
    simp only [pure, Except.pure, Except.ok.injEq] at h
    subst h
    rw [structured_l, structured_c]
    exact sum_lengths_eq (buildAll_len_all inner pr hg as has)
  | .linked name ext inner gridI lp u s T aCols, pr, hg, a, h => by
    rw [CSpec.build] at h
    rw [GridsWF] at hg
    obtain ⟨as, has, h⟩ := bind_eq_ok h
    obtain ⟨hc, hl⟩ := linked_c (liftLink_ok h)
    rw [hc, hl, structured_l, structured_c]
    exact sum_lengths_eq (buildAll_len_all inner pr hg as has)
  | .periodic s labels, pr, hg, a, h => by
    rw [CSpec.build] at h
    obtain ⟨a0, _, h⟩ := bind_eq_ok h
    exact makePeriodic_len (liftPeriodic_ok h)
theorem buildAll_len_all : (ss : List CSpec) → (pr : Prices) → GridsWFAll ss → (as : List AssetProblem) →
    CSpec.buildAll ss pr = .ok as → ∀ a ∈ as, a.l.length = a.c.length
  | [], pr, _, as, h => by
    rw [buildAll_nil] at h; cases h; intro a ha; cases ha
  | s :: ss, pr, hg, as, h => by
    rw [GridsWFAll] at hg
    obtain ⟨a, rest, ha, hr, rfl⟩ := buildAll_cons_ok h
    intro b hb
    rcases List.mem_cons.mp hb with rfl | hb
    · exact build_len_all s pr hg.1 _ ha
    · exact buildAll_len_all ss pr hg.2 rest hr b hb
end

/-- **basesWF_all.**  The hypothesis `BasesWF` of `C17C.costs_only_is_cost` holds for EVERY description on well-formed
    grids: contracts, transports, coarse frequency, storages, order books, the CHP chain and wrappers around wrappers. -/
theorem basesWF_all : (s : CSpec) → (pr : Prices) → GridsWF s → BasesWF s pr
  | .scaled p b dtSum, pr, hg => by
    rw [GridsWF] at hg
    rw [BasesWF]
    exact ⟨fun base hb => build_len_all b pr hg base hb, basesWF_all b pr hg⟩
  | .simple _ _ _, _, _ => by simp [BasesWF]
  | .contract _ _ _ _, _, _ => by simp [BasesWF]
  | .multi _ _ _ _ _, _, _ => by simp [BasesWF]
  | .transport _ _ _, _, _ => by simp [BasesWF]
  | .extTransport _ _ _ _, _, _ => by simp [BasesWF]
  | .coarseSimple _ _ _ _, _, _ => by simp [BasesWF]
  | .coarseTransport _ _ _ _, _, _ => by simp [BasesWF]
  | .storage _ _ _, _, _ => by simp [BasesWF]
  | .orderBook _ _ _ _ _ _ _ _, _, _ => by simp [BasesWF]
  | .chp _ _ _ _ _ _ _ _, _, _ => by simp [BasesWF]
  | .structured _ _ _ _, _, _ => by simp [BasesWF]
  | .linked _ _ _ _ _ _ _ _ _, _, _ => by simp [BasesWF]
  | .periodic _ _, _, _ => by simp [BasesWF]

mutual
/-- the earlier hypothesis implies the new one (so the new theorems cover `C17C.costs_only_is_cost_lp`) -/
theorem gridsWF_of_gridsOk : (s : CSpec) → GridsOk s → GridsWF s
  | .simple _ _ _, h => by rw [GridsOk] at h; rw [GridsWF]; exact h
  | .contract _ _ _ _, h => by rw [GridsOk] at h; rw [GridsWF]; exact h
  | .multi _ _ _ _ _, h => by rw [GridsOk] at h; rw [GridsWF]; exact h
  | .transport _ _ _, h => by rw [GridsOk] at h; rw [GridsWF]; exact h
  | .extTransport _ _ _ _, h => by rw [GridsOk] at h; rw [GridsWF]; exact h
  | .coarseSimple _ _ _ _, h => by rw [GridsOk] at h; exact h.elim
  | .coarseTransport _ _ _ _, h => by rw [GridsOk] at h; exact h.elim
  | .storage _ _ _, _ => by rw [GridsWF]; trivial
  | .orderBook _ _ _ _ _ _ _ _, _ => by rw [GridsWF]; trivial
  | .chp _ _ _ _ _ _ _ _, h => by rw [GridsOk] at h; exact h.elim
  | .scaled _ b _, h => by rw [GridsOk] at h; rw [GridsWF]; exact gridsWF_of_gridsOk b h
  | .structured _ _ inner _, h => by rw [GridsOk] at h; rw [GridsWF]; exact gridsWFAll_of_gridsOkAll inner h
  | .linked _ _ inner _ _ _ _ _ _, h => by rw [GridsOk] at h; rw [GridsWF]; exact gridsWFAll_of_gridsOkAll inner h
  | .periodic s _, h => by rw [GridsOk] at h; rw [GridsWF]; exact gridsWF_of_gridsOk s h
theorem gridsWFAll_of_gridsOkAll : (ss : List CSpec) → GridsOkAll ss → GridsWFAll ss
  | [], _ => by rw [GridsWFAll]; trivial
  | s :: ss, h => by
    rw [GridsOkAll] at h; rw [GridsWFAll]
    exact ⟨gridsWF_of_gridsOk s h.1, gridsWFAll_of_gridsOkAll ss h.2⟩
end

/-- **costs_only_is_cost_all.**  For EVERY asset description — contracts, transports, coarse frequency, storage, order
    book, CHP asset / plant / minimum-load costs, scaled / structured / linked wrappers around any of them — on grids as
    `Timegrid` makes them and without a periodic asset whose cost-only branch is reached (finding F-17e,
    `C17C.periodic_witness`): if the set-up returns problem `a`, the cost-only branch returns `a.c`.  No `BasesWF`. -/
theorem costs_only_is_cost_all (s : CSpec) (pr : Prices) (hpf : s.periodicFree = true) (hg : GridsWF s)
    (a : AssetProblem) (h : s.build pr = .ok a) : s.costsOnly pr = .ok a.c :=
  costs_only_is_cost s pr hpf (basesWF_all s pr hg) a h

/-- hence a failing cost-only branch means a failing set-up -/
theorem costs_only_fails_only_if_build_fails_all (s : CSpec) (pr : Prices) (hpf : s.periodicFree = true)
    (hg : GridsWF s) (e : BuildError) (h : s.costsOnly pr = .error e) : ∃ e', s.build pr = .error e' :=
  costs_only_fails_only_if_build_fails s pr hpf (basesWF_all s pr hg) e h

namespace Ex2
def g : Grid := { pts := [0, 3600], idx := [0, 1], dt := [1, 1], Dt := [1, 2], df := [1, 1] }
def cg : CoarseGrid := { grid := { pts := [0, 7200], idx := [0, 2], dt := [2, 2], Dt := [1, 3], df := [1, 1] },
                         minor := [[0, 1], [2, 3]] }
def sp : ScaledP := { name := "sc", node0 := "el", minScale := 0, maxScale := 2, normScale := 1, fixCosts := 3 }
def cc : ContractP := { name := "c", nodes := ["el"], price := some "p", extraCosts := .scalar 0, minCap := .scalar (-1),
                        maxCap := .scalar 1, minTake := [], maxTake := [] }
/-- a scaled CHP asset with minimum-load costs -/
def chpSpec : CSpec := .scaled sp (.chp EAO.C17C.Ex.p default (some EAO.C17C.Ex.ml) EAO.C17C.Ex.cp g 2 3600 3600) 2
/-- a scaled contract on two-step blocks -/
def coarseSpec : CSpec := .scaled sp (.coarseSimple cc cg [1, 1, 1, 1] 4) 4
end Ex2

/-- non-vacuity (CHP base): hypotheses hold, both sides return the vector with the fix costs appended -/
example :
    Ex2.chpSpec.periodicFree = true ∧ GridsWF Ex2.chpSpec ∧
    (Ex2.chpSpec.build [("p", [10, 20])]).map (·.c) = .ok [10, 20, 5, 10, 2, 2, 3, 3, 7, 7, 6] ∧
    Ex2.chpSpec.costsOnly [("p", [10, 20])] = .ok [10, 20, 5, 10, 2, 2, 3, 3, 7, 7, 6] := by
  refine ⟨rfl, ?_, by decide +kernel, by decide +kernel⟩
  show Ex2.g.Ok
  decide

/-- non-vacuity (coarse base) -/
example :
    Ex2.coarseSpec.periodicFree = true ∧ GridsWF Ex2.coarseSpec ∧
    (Ex2.coarseSpec.build [("p", [1, 3, 5, 9])]).map (·.c) = .ok [2, 7, 12] ∧
    Ex2.coarseSpec.costsOnly [("p", [1, 3, 5, 9])] = .ok [2, 7, 12] := by
  refine ⟨rfl, ?_, by decide +kernel, by decide +kernel⟩
  show Ex2.cg.grid.Ok ∧ Ex2.cg.minor.length = Ex2.cg.grid.T
  decide

/-- **gridsWF_witness.**  The hypothesis on the grids cannot be dropped: on a coarse grid whose list of discount factors is
    missing (not what `Timegrid` makes) the transport problem has bounds but an empty cost vector; the scaled asset over it
    tests `len(op.l)` in the full branch (appends the fix costs) and `len(op)` in the cost-only branch (returns `[]`). -/
theorem gridsWF_witness :
    let tr : TransportP := { name := "t", nodes := ["a", "b"], costsConst := 1, costsKey := none, minCap := 0, maxCap := 2,
                             efficiency := 1, minTake := [], maxTake := [] }
    let cgBad : CoarseGrid := { Ex2.cg with grid := { Ex2.cg.grid with df := [] } }
    let s : CSpec := .scaled Ex2.sp (.coarseTransport tr cgBad [1, 1, 1, 1] 4) 4
    s.periodicFree = true ∧ (s.build []).map (·.c) = .ok [12] ∧ s.costsOnly [] = .ok [] := by
  decide +kernel

/-! ## (3) portfolio and cost samples without `BasesWF` -/

/-- **portfolio_costs_only_is_cost_all.**  `Portfolio.setup_optim_problem(costs_only=True)` returns the cost vector of the
    assembled portfolio problem, for portfolios of any modelled assets. -/
theorem portfolio_costs_only_is_cost_all (specs : List CSpec) (gridI : List Nat) (skip : List String) (pr : Prices)
    (hpf : ∀ s ∈ specs, s.periodicFree = true ∧ GridsWF s) (P : Problem)
    (h : portfolioProblem specs gridI skip pr = .ok P) : portfolioCostsOnly specs pr = .ok P.c :=
  portfolio_costs_only_is_cost specs gridI skip pr
    (fun s hs => ⟨(hpf s hs).1, basesWF_all s pr (hpf s hs).2⟩) P h

/-- **cost_samples_are_problem_costs_all.**  `create_cost_samples`: the i-th vector is the cost vector of the portfolio
    problem set up with the i-th price sample. -/
theorem cost_samples_are_problem_costs_all (specs : List CSpec) (gridI : List Nat) (skip : List String)
    (samples : List Prices) (prob : Prices → Problem)
    (hpf : ∀ s ∈ specs, s.periodicFree = true ∧ GridsWF s)
    (h : ∀ pr ∈ samples, portfolioProblem specs gridI skip pr = .ok (prob pr)) :
    createCostSamples specs samples = .ok (samples.map fun pr => (prob pr).c) :=
  cost_samples_are_problem_costs specs gridI skip samples prob
    (fun pr _ s hs => ⟨(hpf s hs).1, basesWF_all s pr (hpf s hs).2⟩) h

/-- **cost_samples_fit_all.**  The vectors of `create_cost_samples` satisfy the hypothesis `SamplesFit` of the SLP theorems
    (`C17.makeSlp_ok_iff`, `slp_structure`, `slp_value_mean`), for portfolios of any modelled assets, provided the number
    of variables is the same under every sample (finding F-17m, `C17C.zero_aux_witness`). -/
theorem cost_samples_fit_all (specs : List CSpec) (gridI : List Nat) (skip : List String) (pr0 : Prices)
    (samples : List Prices) (prob : Prices → Problem)
    (hpf : ∀ s ∈ specs, s.periodicFree = true ∧ GridsWF s)
    (h : ∀ pr ∈ samples, portfolioProblem specs gridI skip pr = .ok (prob pr))
    (hshape : ∀ pr ∈ samples, (prob pr).n = (prob pr0).n)
    (cs : List (List Rat)) (hcs : createCostSamples specs samples = .ok cs) :
    EAO.C17.SamplesFit (prob pr0) cs :=
  cost_samples_fit specs gridI skip pr0 samples prob
    (fun pr _ s hs => ⟨(hpf s hs).1, basesWF_all s pr (hpf s hs).2⟩) h hshape cs hcs

/-- non-vacuity: a portfolio of the scaled CHP asset and the scaled coarse contract, two price samples -/
example :
    createCostSamples [Ex2.chpSpec] [[("p", [10, 20])], [("p", [30, 50])]]
      = .ok [[10, 20, 5, 10, 2, 2, 3, 3, 7, 7, 6], [30, 50, 15, 25, 2, 2, 3, 3, 7, 7, 6]] ∧
    (portfolioProblem [Ex2.chpSpec] [0, 1] [] [("p", [30, 50])]).map (·.c)
      = .ok [30, 50, 15, 25, 2, 2, 3, 3, 7, 7, 6] := by
  decide +kernel

/-! ## (4) the storage with an own coarse `freq` -/

/-- **costs_only_is_cost_coarse_storage.**  `Storage(…, freq=f)`, constructor guards included: whenever the set-up on the
    coarse grid succeeds with problem `a`, the cost-only branch (plain mean of the price per coarse step, costs on the
    coarse grid, one zero per boolean variable) returns `a.c`. -/
theorem costs_only_is_cost_coarse_storage {p : StorageP} {cg : CoarseGrid} {dtFine : List Rat} {prices : Prices}
    {fullT : Nat} {a : AssetProblem} (h : mkCoarseStorage p cg dtFine prices fullT = .ok a) :
    mkCostsOnlyCoarseStorage p cg prices fullT = .ok a.c :=
  mk_coarse_storage_cost h

/-- the same from the full grid and the cuts of `Asset.set_timegrid` -/
theorem costs_only_is_cost_coarse_storage_G {p : StorageP} {ref : Grid} {freqA freqP : Nat} {cuts : List Int}
    {prices : Prices} {a : AssetProblem} (h : mkCoarseStorageG p ref freqA freqP cuts prices = .ok a) :
    mkCostsOnlyCoarseStorageG p ref freqA freqP cuts prices = .ok a.c :=
  mk_coarse_storage_cost_G h

/-- **costs_only_coarse_storage_error_side.**  When the cost-only branch returns a vector, the set-up returns a problem
    with that vector, or fails with an IndexError (asset without node, block structure, extension of the mapping to the
    minor grid) or with the NaN assertion of the block structure.  Nothing else. -/
theorem costs_only_coarse_storage_error_side {p : StorageP} {cg : CoarseGrid} {dtFine : List Rat} {prices : Prices}
    {fullT : Nat} {c : List Rat} (h : costsOnlyCoarseStorage p cg prices fullT = .ok c) :
    (∃ a, buildCoarseStorage p cg dtFine prices fullT = .ok a ∧ a.c = c) ∨
      buildCoarseStorage p cg dtFine prices fullT = .error .index ∨
      buildCoarseStorage p cg dtFine prices fullT = .error .nanInput := by
  rcases coarse_storage_vs_cost p cg dtFine prices fullT with ⟨e, _, he⟩ | ⟨c', hc', hcase⟩
  · rw [h] at he; cases he
  · rw [h] at hc'; cases hc'; exact hcase

/-- every other error of the set-up is raised by the cost-only branch too, with the same class -/
theorem setup_error_shared_coarse_storage {p : StorageP} {cg : CoarseGrid} {dtFine : List Rat} {prices : Prices}
    {fullT : Nat} {e : BuildError} (h : buildCoarseStorage p cg dtFine prices fullT = .error e)
    (h1 : e ≠ .index) (h2 : e ≠ .nanInput) : costsOnlyCoarseStorage p cg prices fullT = .error e := by
  rcases coarse_storage_vs_cost p cg dtFine prices fullT with ⟨e', he', hc⟩ | ⟨c', _, ⟨a, ha, _⟩ | he | he⟩
  · rw [h] at he'; cases he'; exact hc
  · rw [h] at ha; cases ha
  · rw [h] at he; cases he; exact absurd rfl h1
  · rw [h] at he; cases he; exact absurd rfl h2

/-- **coarse_storage_bounds_len.**  The coarse storage problem has as many lower bounds as costs — it can be the base of a
    scaled asset (no hypothesis on the grid). -/
theorem coarse_storage_bounds_len {p : StorageP} {cg : CoarseGrid} {dtFine : List Rat} {prices : Prices} {fullT : Nat}
    {a : AssetProblem} (h : buildCoarseStorage p cg dtFine prices fullT = .ok a) : a.l.length = a.c.length :=
  coarse_storage_len h

/-- hence scaled over a coarse storage: cost-only vector = `c` of the scaled problem -/
theorem costs_only_is_cost_scaled_coarse_storage (sp : ScaledP) (dtSum : Rat) {p : StorageP} {cg : CoarseGrid}
    {dtFine : List Rat} {prices : Prices} {fullT : Nat} {a : AssetProblem}
    (h : buildCoarseStorage p cg dtFine prices fullT = .ok a) :
    (costsOnlyCoarseStorage p cg prices fullT).map (costsOnlyScaled sp · dtSum) = .ok (buildScaled sp a dtSum).c := by
  rw [coarse_storage_cost h, scaled_cost sp a dtSum (coarse_storage_len h)]
  rfl

/-- **shape_price_free_coarse_storage.**  The number of entries of the cost-only vector does not depend on the prices
    (`cost_samples_fit` needs no extra hypothesis for it). -/
theorem shape_price_free_coarse_storage {p : StorageP} {cg : CoarseGrid} {pr pr' : Prices} {fullT : Nat}
    {c c' : List Rat} (h : costsOnlyCoarseStorage p cg pr fullT = .ok c)
    (h' : costsOnlyCoarseStorage p cg pr' fullT = .ok c') : c.length = c'.length :=
  coarse_storage_shape_price_free h h'

namespace Ex2
def sto : StorageP :=
  { name := "s", nodes := ["n"], size := 4, capIn := 1, capOut := 1, startLevel := 0, endLevel := 0, costIn := 1, costOut := 0,
    costStore := 0, effIn := 1, inflow := 0, price := some "p", noSimult := true, maxStoreDuration := none, blocks := none }
end Ex2

/-- non-vacuity: two-variable storage with the no-simultaneous booleans on two-step blocks — the price of a block is the
    plain mean (2, 7), in: `-(1 + price)`, out: `-price`, booleans 0 -/
example :
    (mkCoarseStorage Ex2.sto Ex2.cg [1, 1, 1, 1] [("p", [1, 3, 5, 9])] 4).map (·.c) = .ok [-3, -8, -2, -7, 0, 0] ∧
      mkCostsOnlyCoarseStorage Ex2.sto Ex2.cg [("p", [1, 3, 5, 9])] 4 = .ok [-3, -8, -2, -7, 0, 0] := by
  decide +kernel

/-- the cost-only branch really succeeds where the set-up fails: a coarse storage without node -/
example :
    mkCostsOnlyCoarseStorage { Ex2.sto with nodes := [] } Ex2.cg [("p", [1, 3, 5, 9])] 4 = .ok [-3, -8, -2, -7, 0, 0] ∧
      (mkCoarseStorage { Ex2.sto with nodes := [] } Ex2.cg [1, 1, 1, 1] [("p", [1, 3, 5, 9])] 4).map (·.c)
        = .error .index := by
  decide +kernel

end EAO.C17C2
