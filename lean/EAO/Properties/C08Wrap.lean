import EAO.Lemmas.WrapWindow
import EAO.Properties.C08
import EAO.Properties.C08Storage
/-!
# C08 — windows of wrappers reach what they wrap (`StructuredAsset`, `ScaledAsset`)

Model: `EAO.Model.WrapWindow` (pure level `clip` / `restrictWin` / `buildTree`; literal level `setupL` with the date forms
of Python, the clipping loop, exceptions and the `finally:` blocks).  Proved here:

* `clip_is_intersection` (+ `_nested`, `_grid`, `_literal`, `clip_type_error_iff`): the window a wrapped asset is set up with
  is the intersection of its own and the wrapper's window — for every combination of given / not given on both sides, to any
  depth of nesting (structure in structure, scaled over structure, structure containing scaled), as a statement about
  instants, about restricted grids, and about what the literal `max` / `min` on Python dates computes;
* `setup_eq_pure`: the literal set-up (clipping loop, set-up of the wrapped objects, restoration) computes exactly the pure
  problem `buildTree` — `structured` / `buildScaled` of the wrapped builders run on `Grid.restrict` through the clipped
  windows — or raises exactly the exception of the first failing wrapped builder, unless it stops at a `TypeError`;
* `no_type_error`, `setup_is_pure`: with dates of one form throughout (all without zone, or all zone-aware on a grid with
  zone) no `TypeError` occurs and the literal set-up IS the pure function;
* `every_grid_call_clipped`: every `set_restricted_grid` call made during a set-up, also a failing one, is made with the
  calling object's own window clipped by all wrappers above it;
* `wrapped_rows_in_window` (+ `_literal`, `wrapped_dispatch_in_window`): every mapping row of a wrapped problem belongs to a
  leaf and sits at a step whose start lies in window(every wrapper above) ∩ window(leaf) ∩ horizon — composed with the
  per-builder theorems `vars_only_in_window` of `EAO.Properties.C08*` (`leaf_*`); the only other rows are the scale variables'
  (type 'size', step 0 by construction);
* `restore_exact` (+ `restore_exact_everywhere`): after the set-up — successful or not — every object of the tree carries the
  `start` / `end` it had before;
* `orderbook_in_structure_window`, `order_outside_structure_window_inert`: an order book, which has no window of its own, is
  dispatched inside a wrapper only at steps that start inside the wrappers' windows AND inside the order; an order without
  such a step has cost 0 and no mapping row.
-/
namespace EAO.C08W
open EAO EAO.WrapWindow

variable {ε : Type}

/-! ## (1) clipping is intersection -/

/-- **clip = intersection**: an instant lies in the clipped window iff it lies in the wrapped asset's own window and in the
    wrapper's — whatever sides are given (`none`) on either -/
theorem clip_is_intersection (own wrapper : Win) (p : Int) :
    hasPt (clip own wrapper) p = (hasPt own p && hasPt wrapper p) := hasPt_clip own wrapper p

/-- the sixteen combinations spelled out: a side that only one of the two gives is taken from that one, a side both give is
    the later start / the earlier end, a side none gives stays open -/
theorem clip_cases (s e s' e' : Int) :
    clip (none, none) (none, none) = (none, none) ∧
    clip (some s, none) (none, none) = (some s, none) ∧ clip (none, some e) (none, none) = (none, some e) ∧
    clip (none, none) (some s', none) = (some s', none) ∧ clip (none, none) (none, some e') = (none, some e') ∧
    clip (some s, some e) (none, none) = (some s, some e) ∧ clip (none, none) (some s', some e') = (some s', some e') ∧
    clip (some s, none) (some s', none) = (some (max s s'), none) ∧
    clip (none, some e) (none, some e') = (none, some (min e e')) ∧
    clip (some s, none) (none, some e') = (some s, some e') ∧ clip (none, some e) (some s', none) = (some s', some e) ∧
    clip (some s, some e) (some s', none) = (some (max s s'), some e) ∧
    clip (some s, some e) (none, some e') = (some s, some (min e e')) ∧
    clip (some s, none) (some s', some e') = (some (max s s'), some e') ∧
    clip (none, some e) (some s', some e') = (some s', some (min e e')) ∧
    clip (some s, some e) (some s', some e') = (some (max s s'), some (min e e')) := by
  have h1 : (if s ≤ s' then s' else s) = max s s' := by split <;> omega
  have h2 : (if e ≤ e' then e else e') = min e e' := by split <;> omega
  simp only [clip, State.clipStart, State.clipStop, h1, h2, and_self]

/-- **to any depth**: the window of the object at path `q` below `t` (structure in structure, scaled over structure,
    structure containing scaled, …) contains an instant iff the window `t` is set up with and the own windows of ALL objects
    along the path do -/
theorem clip_is_intersection_nested (env : Env) (t : WTree ε) (q : List Nat) (cur : Win) (p : Int) :
    hasPt (effWin env t q cur) p = (hasPt cur p && (pathWins env t q).all (hasPt · p)) :=
  hasPt_effWin env q t cur p

/-- **on the grid**: restricting the grid by the clipped window = restricting, by the wrapped asset's own window, the grid the
    wrapper's window leaves (`Grid.restrict` twice); `None` means the grid's own start / end -/
theorem clip_is_intersection_grid (g : Grid) (gs ge : Int) (hor : Horizon g gs ge) (own wrapper : Win) :
    restrictWin g gs ge (clip own wrapper) = restrictWin (restrictWin g gs ge wrapper) gs ge own :=
  restrictWin_clip g gs ge hor own wrapper

/-- the steps of a restricted grid are the steps whose START POINT lies in the window -/
theorem restricted_steps (g : Grid) (gs ge : Int) (hor : Horizon g gs ge) (w : Win) (i : Nat) :
    i ∈ (restrictWin g gs ge w).idx ↔ ∃ p, (p, i) ∈ g.pts.zip g.idx ∧ hasPt w p = true :=
  mem_restrictWin_idx g gs ge hor w i

/-- **the literal statements compute the intersection**: where `max(Timestamp(a.start), Timestamp(self.start))` and
    `min(Timestamp(a.end), Timestamp(self.end))` do not raise, the attributes they leave stand — on a grid whose localisation
    keeps the order of wall-clock times — for `clip` of the instants of the two windows; dates without zone are compared by
    wall clock, dates with zone by instant -/
theorem clip_is_intersection_literal (env : Env) (hm : MonoLoc env) (own wrapper : WinD) (s e : Option WDate)
    (hs : clipStartD own.1 wrapper.1 = some s) (he : clipStopD own.2 wrapper.2 = some e) :
    env.winI (s, e) = clip (env.winI own) (env.winI wrapper) := clipD_winI env hm own wrapper s e hs he

/-- the comparison raises (`TypeError`) exactly when both sides give the date and one is zone-aware, the other not -/
theorem clip_type_error_iff (own wrapper : Option WDate) :
    clipStartD own wrapper = none ↔
      ∃ a b, own = some a ∧ wrapper = some b ∧
        ((∃ x y, a = .naive x ∧ b = .aware y) ∨ (∃ x y, a = .aware x ∧ b = .naive y)) := by
  cases wrapper with
  | none => simp [clipStartD]
  | some w =>
    cases own with
    | none => simp [clipStartD]
    | some o =>
      cases o <;> cases w <;> simp [clipStartD, maxD, WDate.lt?] <;> split <;> simp_all

/-! ## (2) the literal set-up computes the pure problem; every grid call is clipped -/

/-- **literal = pure.**  For a top-level object: when the set-up returns a problem it is `buildTop` — every leaf builder run
    on the grid restricted by its clipped window, wrapped by `buildScaled` / `structured`; when it raises the exception of a
    wrapped builder, `buildTop` fails with it -/
theorem setup_eq_pure (env : Env) (hm : MonoLoc env) (t : WTree ε) :
    (∀ P, (setupTop env t).res = .ok P → buildTop env t = .ok P) ∧
    (∀ e, (setupTop env t).res = .error (.build e) → buildTop env t = .error e) :=
  setupL_pure env hm t t.win []

/-- **every `set_restricted_grid` call is made with the clipped window**: each event of the trace, also of a set-up that
    ends in an exception, belongs to an object `q` of the tree and carries `effWin` of that object -/
theorem every_grid_call_clipped (env : Env) (hm : MonoLoc env) (t : WTree ε) :
    ∀ ev ∈ (setupTop env t).trace, ∃ q, ev.1 = q ∧ (t.sub? q).isSome = true ∧ ev.2 = effWin env t q (env.winI t.win) := by
  intro ev hev
  obtain ⟨q, h1, h2, h3⟩ := setupL_events env hm t t.win [] ev hev
  exact ⟨q, by simpa using h1, h2, h3⟩

/-- **when the `TypeError` cannot occur**: if all dates of the tree are of one form — all without zone, or all zone-aware and
    the grid has a zone — the set-up returns a problem or the exception of a wrapped builder; so `setup_eq_pure` decides it -/
theorem no_type_error (env : Env) (aw : Bool) (hA : aw = true → env.aware = true) (t : WTree ε) (ht : TreeOk aw t) :
    ∀ e, (setupTop env t).res = .error e → ∃ b, e = .build b :=
  setupL_no_type env aw hA t t.win [] ht (treeOk_win aw t ht)

/-- … hence for such a tree the literal set-up IS the pure function, results and exceptions -/
theorem setup_is_pure (env : Env) (hm : MonoLoc env) (aw : Bool) (hA : aw = true → env.aware = true) (t : WTree ε)
    (ht : TreeOk aw t) :
    (setupTop env t).res = match buildTop env t with
      | .ok P => .ok P
      | .error e => .error (.build e) := by
  obtain ⟨h1, h2⟩ := setup_eq_pure env hm t
  cases hr : (setupTop env t).res with
  | ok P => rw [h1 P hr]
  | error e =>
    obtain ⟨b, rfl⟩ := no_type_error env aw hA t ht e hr
    rw [h2 b hr]

/-! ## (3) rows of the wrapped problem sit inside all windows -/

/-- the five contract / transport builders satisfy the leaf hypothesis (`EAO.C08.vars_only_in_window`) -/
theorem leaf_simple_contract (p : ContractP) (prices : Prices) (fullT : Nat) :
    LeafInWindow fun g => buildSimpleContract p g prices fullT :=
  fun _ P hg h => C08.vars_only_in_window hg (.simple p prices fullT P h)

theorem leaf_contract (p : ContractP) (prices : Prices) (fullT u : Nat) :
    LeafInWindow fun g => buildContract p g prices fullT u :=
  fun _ P hg h => C08.vars_only_in_window hg (.contract p prices fullT u P h)

theorem leaf_multi (p : ContractP) (factors : List Rat) (prices : Prices) (fullT u : Nat) :
    LeafInWindow fun g => buildMulti p factors g prices fullT u :=
  fun _ P hg h => C08.vars_only_in_window hg (.multi p factors prices fullT u P h)

theorem leaf_transport (p : TransportP) (prices : Prices) (fullT : Nat) :
    LeafInWindow fun g => buildTransport p g prices fullT :=
  fun _ P hg h => C08.vars_only_in_window hg (.transport p prices fullT P h)

theorem leaf_ext_transport (p : TransportP) (prices : Prices) (fullT u : Nat) :
    LeafInWindow fun g => buildExtTransport p g prices fullT u :=
  fun _ P hg h => C08.vars_only_in_window hg (.extTransport p prices fullT u P h)

/-- the storage builder (`EAO.C08.vars_only_in_window_storage`) -/
theorem leaf_storage (p : StorageP) (prices : Prices) (fullT : Nat) :
    LeafInWindow fun g => buildStorage p g fullT prices :=
  fun _ _ hg h => C08.vars_only_in_window_storage hg h

/-- the order book -/
theorem leaf_orderbook (name node : String) (orders : List Order) (fe : Bool) :
    LeafInWindow (ε := BuildError) fun g => buildOrderBook name node orders fe g :=
  orderbook_leafInWindow name node orders fe

/-- **rows of a wrapped problem.**  Whatever the nesting: every mapping row of the problem a top-level wrapper builds either
    is the row of a scale variable (type 'size', at step 0 by construction), or belongs to a leaf `q` and sits at a step
    `(p, step)` of the horizon whose start `p` lies in the top object's window AND in the own window of every object on the
    path down to the leaf, the leaf included: window(structure) ∩ … ∩ window(leaf) ∩ horizon -/
theorem wrapped_rows_in_window (env : Env) (hg : env.g.Ok) (hor : Horizon env.g env.gs env.ge) (t : WTree ε)
    (hl : LeavesOk LeafInWindow t) (P : AssetProblem) (h : buildTop env t = .ok P) :
    ∀ m ∈ P.mapping,
      (∃ q w b p, t.sub? q = some (.leaf w b) ∧ (p, m.step) ∈ env.g.pts.zip env.g.idx ∧
        hasPt (env.winI t.win) p = true ∧ ∀ v ∈ pathWins env t q, hasPt v p = true) ∨
      (m.kind = .other "size" ∧ m.step = 0) := by
  intro m hm
  rcases buildTree_rows env hg t _ P hl h m hm with ⟨q, w, b, hq, hs⟩ | hsz
  · obtain ⟨p, hp, hin⟩ := (mem_restrictWin_idx env.g env.gs env.ge hor _ _).mp hs
    rw [hasPt_effWin, Bool.and_eq_true, List.all_eq_true] at hin
    exact Or.inl ⟨q, w, b, p, hq, hp, hin.1, hin.2⟩
  · exact Or.inr hsz

/-- the same for what the LITERAL set-up returns -/
theorem wrapped_rows_in_window_literal (env : Env) (hm : MonoLoc env) (hg : env.g.Ok)
    (hor : Horizon env.g env.gs env.ge) (t : WTree ε) (hl : LeavesOk LeafInWindow t) (P : AssetProblem)
    (h : (setupTop env t).res = .ok P) :
    ∀ m ∈ P.mapping,
      (∃ q w b p, t.sub? q = some (.leaf w b) ∧ (p, m.step) ∈ env.g.pts.zip env.g.idx ∧
        hasPt (env.winI t.win) p = true ∧ ∀ v ∈ pathWins env t q, hasPt v p = true) ∨
      (m.kind = .other "size" ∧ m.step = 0) :=
  wrapped_rows_in_window env hg hor t hl P ((setup_eq_pure env hm t).1 P h)

/-- no exception for dispatch: a dispatch row of the wrapped problem always sits inside all windows -/
theorem wrapped_dispatch_in_window (env : Env) (hg : env.g.Ok) (hor : Horizon env.g env.gs env.ge) (t : WTree ε)
    (hl : LeavesOk LeafInWindow t) (P : AssetProblem) (h : buildTop env t = .ok P) (m : MapRow) (hm : m ∈ P.mapping)
    (hd : m.kind = .d) :
    ∃ q p, (t.sub? q).isSome = true ∧ (p, m.step) ∈ env.g.pts.zip env.g.idx ∧
      hasPt (env.winI t.win) p = true ∧ ∀ v ∈ pathWins env t q, hasPt v p = true := by
  rcases wrapped_rows_in_window env hg hor t hl P h m hm with ⟨q, w, b, p, hq, hp, h1, h2⟩ | ⟨hk, _⟩
  · exact ⟨q, p, by rw [hq]; rfl, hp, h1, h2⟩
  · rw [hd] at hk; cases hk

/-! ## (4) restoration -/

/-- **after the set-up every object carries its original start / end** — whether the set-up returned a problem, stopped at a
    `TypeError` in the middle of the clipping loop, or a wrapped builder raised -/
theorem restore_exact (env : Env) (t : WTree ε) : (setupTop env t).tree = t := by
  unfold setupTop
  rw [setupL_tree, setWin_win]

/-- the same for an object that is itself set up by a wrapper (attributes currently `cur`, path `path`): the wrapper finds it
    as it handed it over, so that its own `finally:` restores the original -/
theorem restore_exact_everywhere (env : Env) (t : WTree ε) (cur : WinD) (path : List Nat) :
    (setupL env t cur path).tree = t.setWin cur := setupL_tree env t cur path

/-! ## (5) order books inside wrappers -/

/-- **an order book inside wrappers is dispatched only inside their windows.**  On the grid restricted by the window `w` the
    order book is given (for an order book at path `q`: `effWin`, the intersection of the wrappers' windows —
    `clip_is_intersection_nested`, its own window `(none, none)` contributing nothing: `clip_none_own`), every mapping row is
    the row of an order `k` at a step `(p, step)` of the horizon whose start lies inside the order AND inside `w` -/
theorem orderbook_in_structure_window (env : Env) (hg : env.g.Ok) (hor : Horizon env.g env.gs env.ge)
    (name node : String) (orders : List Order) (fe : Bool) (w : Win) (m : MapRow)
    (hm : m ∈ (orderBookProblem name node orders fe (env.restricted w)).mapping) :
    ∃ k o p, orders[k]? = some o ∧ m.var = k ∧ (p, m.step) ∈ env.g.pts.zip env.g.idx ∧
      o.covers p = true ∧ hasPt w p = true := by
  obtain ⟨j, o, i, hj, hi, rfl⟩ := OrderBook.mem_orderMapFrom name node fe _ orders 0 m hm
  obtain ⟨hiT, hcov⟩ := OrderBook.mem_coverPos _ o i hi
  have hok := restrictWin_ok env.g hg env.gs env.ge w
  have hlen : i < (restrictWin env.g env.gs env.ge w).idx.length := by rw [hok.1]; exact hiT
  obtain ⟨hpair, hin⟩ := restricted_pair env.g env.gs env.ge hor w i hiT hlen
  exact ⟨j, o, _, hj, by simp [orderRow], hpair, hcov, hin⟩

/-- the order book has no window of its own: inside a wrapper it gets exactly the wrapper's -/
theorem orderbook_window_is_wrappers (wrapper : Win) : clip (none, none) wrapper = wrapper := clip_none_own wrapper

/-- **an order without a step inside the wrappers' windows is inert**: no mapping row, cost 0 (its variable is free and
    worthless) -/
theorem order_outside_structure_window_inert (env : Env) (hor : Horizon env.g env.gs env.ge)
    (name node : String) (orders : List Order) (fe : Bool) (w : Win) (k : Nat) (o : Order) (hk : orders[k]? = some o)
    (hout : ∀ p ∈ env.g.pts, hasPt w p = true → o.covers p = false) :
    orderCost (env.restricted w) o = 0 ∧
    ∀ m ∈ (orderBookProblem name node orders fe (env.restricted w)).mapping, m.var ≠ k := by
  have hc := coverPos_restricted_nil env.g env.gs env.ge hor w o hout
  refine ⟨OrderBook.orderCost_of_cover_nil _ o hc, ?_⟩
  intro m hm
  have := OrderBook.no_row_of_cover_nil name node fe (env.restricted w) orders 0 k o hk hc m hm
  simpa using this

end EAO.C08W

/-! ## non-vacuity: concrete instances (evaluated by the kernel) -/
namespace EAO.C08W.Ex
open EAO EAO.WrapWindow

/-- four hourly steps 00:00 … 04:00; a grid with zone one hour east of UTC (wall clock = instant + 3600) -/
def g : Grid := { pts := [0, 3600, 7200, 10800], idx := [0, 1, 2, 3], dt := [1, 1, 1, 1], Dt := [1, 2, 3, 4], df := [1, 1, 1, 1] }
def env : Env := { g := g, gs := 0, ge := 14400, aware := true, loc := fun w => w - 3600 }
def envNaive : Env := { env with aware := false, loc := fun w => w }

example : g.Ok ∧ Horizon g 0 14400 := by
  refine ⟨by decide, ?_⟩
  intro p hp
  simp only [g, List.mem_cons, List.not_mem_nil, or_false] at hp
  rcases hp with rfl | rfl | rfl | rfl <;> omega

example : MonoLoc env ∧ MonoLoc envNaive := ⟨fun a b h => by show a - 3600 ≤ b - 3600; omega, fun _ _ h => h⟩

def sp : ScaledP := { name := "s", node0 := "n", minScale := 0, maxScale := 2, normScale := 1, fixCosts := 3 }
def ob : List Order := [{ start := 0, stop := 14400, capa := 1, price := 5 }, { start := 10800, stop := 14400, capa := 2, price := 7 }]

/-- a structure 02:00 wall clock (= 01:00) … around a stand-in leaf ending 04:00 wall clock (= 03:00), an order book (no window) and a
    scaled asset (… 03:00 wall clock = 02:00) over a leaf -/
def t : WTree BuildError :=
  .structured (some (.naive 7200), none) "sa" ["n"]
    [.leaf (none, some (.naive 14400)) (stubBuilder "a" "n" none),
     .leaf (none, none) (fun g => buildOrderBook "ob" "n" ob false g),
     .scaled (none, some (.naive 10800)) sp (.leaf (none, none) (stubBuilder "b" "n" none))]

-- the leaf gets steps 1, 2; the order book steps 1, 2, 3 (its second order only step 3); the scaled leaf step 1;
-- the scale row sits at step 0; literal and pure level agree; everything is restored
example : (match (setupTop env t).res, buildTop env t with
    | .ok P, .ok Q =>
      P.mapping.map (fun m => (m.var, m.step, m.varName)) ==
        [(0, 1, "disp__a"), (1, 2, "disp__a"), (2, 1, "0__ob"), (2, 2, "0__ob"), (2, 3, "0__ob"), (3, 3, "1__ob"),
         (4, 1, "disp__s"), (5, 0, "scale__s")]
      && P.c == Q.c && P.mapping == Q.mapping && P.c == [1, 1, 15, 14, 1, 3]
    | _, _ => false) = true := by decide +kernel

example : (setupTop env t).trace =
    [([], (some 3600, none)), ([0], (some 3600, some 10800)), ([1], (some 3600, none)), ([2], (some 3600, some 7200)),
     ([0], (some 3600, some 10800)), ([1], (some 3600, none)), ([2, 0], (some 3600, some 7200)), ([2], (some 3600, some 7200))] := by
  decide +kernel

example : effWin env t [2, 0] (env.winI t.win) = (some 3600, some 7200) ∧
    pathWins env t [2, 0] = [(none, some 7200), (none, none)] := by decide +kernel

/-- a zone-aware end on the second inner asset: the clipping loop stops there with a TypeError — after the first asset's
    attributes were overwritten — and `finally:` puts them back -/
def tMixed : WTree BuildError :=
  .structured (some (.naive 7200), some (.naive 14400)) "sa" ["n"]
    [.leaf (none, some (.naive 10800)) (stubBuilder "a" "n" none),
     .leaf (none, some (.aware 7200)) (stubBuilder "b" "n" none)]

example : (match (setupTop env tMixed).res with | .error .type => true | _ => false) = true ∧
    (setupTop env tMixed).trace = [([], (some 3600, some 10800)), ([0], (some 3600, some 7200))] ∧
    (match (setupTop env tMixed).tree with
     | .structured w _ _ [.leaf w0 _, .leaf w1 _] =>
       w == (some (.naive 7200), some (.naive 14400)) && w0 == (none, some (.naive 10800)) && w1 == (none, some (.aware 7200))
     | _ => false) = true := by decide +kernel

/-- a wrapped builder that raises: the exception comes through, literal and pure, and the attributes are restored -/
def tFail : WTree BuildError :=
  .scaled (some (.naive 7200), none) sp (.leaf (none, some (.naive 10800)) (stubBuilder "a" "n" (some .assertion)))

example : (match (setupTop env tFail).res, buildTop env tFail with
    | .error (.build .assertion), .error .assertion => true | _, _ => false) = true ∧
    (match (setupTop env tFail).tree with
     | .scaled w _ (.leaf w0 _) => w == (some (.naive 7200), none) && w0 == (none, some (.naive 10800))
     | _ => false) = true := by decide +kernel

/-- an aware date on a grid without zone: TypeError of the grid, nothing changed -/
example : (match (setupTop envNaive tMixed).res with | .error .type => true | _ => false) = true := by decide +kernel

/-- the hypotheses of `wrapped_rows_in_window` hold for `t` (stand-in builders and the order book are leaves in window) -/
example : LeavesOk LeafInWindow t := by
  simp only [t, LeavesOk, LeavesOkL]
  exact ⟨stub_leafInWindow "a" "n", C08W.leaf_orderbook "ob" "n" ob false, stub_leafInWindow "b" "n", trivial⟩

/-- all dates of `t` are without zone: the hypotheses of `no_type_error` / `setup_is_pure` hold (with `aw = false`) -/
example : TreeOk false t ∧ (false = true → env.aware = true) := by
  refine ⟨?_, fun h => by cases h⟩
  simp [t, TreeOk, TreeOkL, winOk, dateOk]

-- an order that lies inside the horizon but outside the wrapper's window is inert
example : (∀ p ∈ env.g.pts, hasPt (some 3600, some 10800) p = true →
      ({ start := 10800, stop := 14400, capa := 2, price := 7 } : Order).covers p = false) ∧
    orderCost (env.restricted (some 3600, some 10800)) { start := 10800, stop := 14400, capa := 2, price := 7 } = 0 := by
  decide +kernel

end EAO.C08W.Ex
