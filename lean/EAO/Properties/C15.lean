import EAO.Model.Assemble
import EAO.Lemmas.Fix
/-!
# C15 — fixing a time window pins exactly that part of the solution

Property theorems only (helper lemmas, if any are needed, go to `EAO/Lemmas/Fix.lean`).
`fixWindow` is the model of the `fix_time_window` branch of `Portfolio.setup_optim_problem`.
-/
namespace EAO.C15

/-- costs, rows, mapping and nodal record are untouched -/
theorem fix_window_rest (P : Problem) (steps : List Nat) (xprev : List Rat) :
    (fixWindow P steps xprev).c = P.c ∧ (fixWindow P steps xprev).rows = P.rows ∧
    (fixWindow P steps xprev).mapping = P.mapping ∧ (fixWindow P steps xprev).nodal = P.nodal := by
  exact ⟨rfl, rfl, rfl, rfl⟩

/-- every variable that has SOME mapping row with a step in the window is pinned: any point
    satisfying the new bounds takes the previous value there (several rows per variable are
    handled by quantifying over rows, not positions) -/
theorem fix_window_pins (P : Problem) (steps : List Nat) (xprev : List Rat)
    (hl : P.l.length = P.n) (hu : P.u.length = P.n)
    (x : Vec) (hx : InBounds (fixWindow P steps xprev).l (fixWindow P steps xprev).u x)
    (m : MapRow) (hm : m ∈ P.mapping) (hs : m.step ∈ steps) (hv : m.var < P.n) :
    x m.var = xprev.getD m.var 0 := by
  have hfix := fixedVars_contains_of_mem P steps m hm hs
  obtain ⟨h1, h2⟩ := fixWindow_bounds_fixed P steps xprev m.var (by omega) (by omega) hfix
  have hb := hx m.var (by rw [fixWindow_l_length]; omega)
  rw [h1, h2] at hb
  exact Rat.le_antisymm hb.2 hb.1

/-- all other variables keep their bounds (remain free) -/
theorem fix_window_free (P : Problem) (steps : List Nat) (xprev : List Rat) (j : Nat)
    (hfree : ∀ m ∈ P.mapping, m.var = j → m.step ∉ steps) :
    (fixWindow P steps xprev).l.getD j 0 = P.l.getD j 0 ∧
    (fixWindow P steps xprev).u.getD j 0 = P.u.getD j 0 := by
  exact fixWindow_bounds_free P steps xprev j (fixedVars_contains_false P steps j hfree)

/-- lengths of the bound vectors are unchanged -/
theorem fix_window_lengths (P : Problem) (steps : List Nat) (xprev : List Rat) :
    (fixWindow P steps xprev).l.length = P.l.length ∧ (fixWindow P steps xprev).u.length = P.u.length := by
  exact ⟨fixWindow_l_length P steps xprev, fixWindow_u_length P steps xprev⟩

/-- the previous solution stays feasible, and nothing new becomes feasible (when the previous
    solution respected the old bounds) -/
theorem fix_window_feasible (P : Problem) (steps : List Nat) (xprev : List Rat)
    (hl : P.l.length = P.n) (hu : P.u.length = P.n)
    (hprev : P.Feasible (fun j => xprev.getD j 0)) :
    (fixWindow P steps xprev).Feasible (fun j => xprev.getD j 0) ∧
    ∀ x, (fixWindow P steps xprev).Feasible x → P.Feasible x := by
  have hlu : P.l.length ≤ P.u.length := by omega
  refine ⟨⟨⟨fixWindow_inBounds_prev P steps xprev hlu hprev.1.1, hprev.1.2⟩, hprev.2⟩, ?_⟩
  intro x hx
  exact ⟨⟨fixWindow_inBounds_old P steps xprev hlu hprev.1.1 x hx.1.1, hx.1.2⟩, hx.2⟩

/-- hence: with unchanged costs, if the previous solution was optimal it is optimal for the fixed
    problem with the same value, i.e. the optimal value is unchanged -/
theorem fix_window_value_unchanged (P : Problem) (steps : List Nat) (xprev : List Rat)
    (hl : P.l.length = P.n) (hu : P.u.length = P.n)
    (hprev : P.Feasible (fun j => xprev.getD j 0))
    (hopt : ∀ x, P.Feasible x → P.value x ≤ P.value (fun j => xprev.getD j 0)) :
    (fixWindow P steps xprev).Feasible (fun j => xprev.getD j 0) ∧
    (fixWindow P steps xprev).value (fun j => xprev.getD j 0) = P.value (fun j => xprev.getD j 0) ∧
    ∀ x, (fixWindow P steps xprev).Feasible x →
      (fixWindow P steps xprev).value x ≤ (fixWindow P steps xprev).value (fun j => xprev.getD j 0) := by
  obtain ⟨hf, hback⟩ := fix_window_feasible P steps xprev hl hu hprev
  refine ⟨hf, rfl, ?_⟩
  intro x hx
  exact hopt x (hback x hx)

/-! ## Non-vacuity: a concrete instance

Three variables, one `U` row `x0 + x1 ≤ 6`; variable 1 has two mapping rows (steps 0 and 1),
variable 2 is boolean; the window is the single step 1, so variables 1 and 2 are pinned (variable 1
through its *second* row) and variable 0 stays free.  The previous solution `[5, 0, 1]` is feasible
and optimal (value 8), so all hypotheses of the theorems above are satisfiable. -/

/-- 3 variables; variable 1 has two mapping rows (steps 0 and 1); variable 2 is boolean -/
def exP : Problem :=
  { c := [-1, 2, -3], l := [0, 0, 0], u := [5, 5, 1],
    rows := [{ coeffs := [(0, 1), (1, 1)], rhs := 6, kind := .U }],
    mapping := [⟨0, "a", some "n", .d, 0, 1, false, "disp"⟩,
                ⟨1, "b", some "n", .d, 0, 1, false, "disp"⟩,
                ⟨1, "b", some "n", .d, 1, 1, false, "disp"⟩,
                ⟨2, "b", none, .i, 1, 1, true, "on"⟩],
    nodal := [] }
def exPrev : List Rat := [5, 0, 1]

example : fixedVars exP [1] = [1, 2] := by decide
example : (fixWindow exP [1] exPrev).l = [0, 0, 1] ∧ (fixWindow exP [1] exPrev).u = [5, 0, 1] := by
  decide
example : exP.boolVars = [2] := by decide

theorem exP_feasible : exP.Feasible (fun j => exPrev.getD j 0) := by
  refine ⟨⟨?_, ?_⟩, ?_⟩
  · intro j hj
    have : j = 0 ∨ j = 1 ∨ j = 2 := by simp [exP] at hj; omega
    rcases this with rfl | rfl | rfl <;> decide
  · intro r hr
    simp [exP] at hr
    subst hr
    simp [Row.Sat, Row.eval, exPrev]
    grind
  · decide

theorem exP_opt : ∀ x, exP.Feasible x → exP.value x ≤ exP.value (fun j => exPrev.getD j 0) := by
  intro x hx
  have h0 := hx.1.1 0 (by decide)
  have h1 := hx.1.1 1 (by decide)
  have h2 := hx.1.1 2 (by decide)
  simp [exP, exPrev, Problem.value, costAt] at h0 h1 h2 ⊢
  grind

example (x : Vec) (hx : InBounds (fixWindow exP [1] exPrev).l (fixWindow exP [1] exPrev).u x) :
    x 1 = 0 := by
  have := fix_window_pins exP [1] exPrev rfl rfl x hx
    ⟨1, "b", some "n", .d, 1, 1, false, "disp"⟩ (by decide) (by decide) (by decide)
  simpa [exPrev] using this

example : (fixWindow exP [1] exPrev).value (fun j => exPrev.getD j 0) = 8 ∧
    ∀ x, (fixWindow exP [1] exPrev).Feasible x → (fixWindow exP [1] exPrev).value x ≤ 8 := by
  obtain ⟨_, h2, h3⟩ := fix_window_value_unchanged exP [1] exPrev rfl rfl exP_feasible exP_opt
  have h8 : exP.value (fun j => exPrev.getD j 0) = 8 := by
    simp [exP, exPrev, Problem.value, costAt]; grind
  rw [h2] at h3
  rw [h8] at h3
  exact ⟨h2.trans h8, h3⟩

end EAO.C15
