import EAO.Model.Assemble
import EAO.Model.Readout
import EAO.Model.Translate
import EAO.Lemmas.Nodal
import EAO.Lemmas.Accounting
/-!
# C04 — value accounting: reported value = Σ per-asset discounted cash flows

Property theorems only; helper lemmas go to `EAO/Lemmas/Accounting.lean`.
`dcf` models `Asset.dcf` (a variable is booked at the step of its FIRST mapping row among the
rows of that asset), `Problem.value` is `-c·x`.
-/
namespace EAO.C04

/-- Well-formedness of an asset problem as far as accounting needs it: mapping rows carry the
    asset's name, point at one of its variables and at a step `< T`; and a variable WITHOUT any
    mapping row has zero cost (true for every EAO asset: the only row-less variables are orders
    with no step in the horizon, whose cost is `capa·0·price = 0`). -/
structure WF (T : Nat) (a : AssetProblem) : Prop where
  map : ∀ m ∈ a.mapping, m.asset = a.name ∧ m.var < a.n ∧ m.step < T
  rowless : ∀ j, j < a.n → (∀ m ∈ a.mapping, m.var ≠ j) → a.c.getD j 0 = 0

/-- offset of the asset at position `i` -/
def offset (as : List AssetProblem) (i : Nat) : Nat := ((as.take i).map (·.n)).sum

/-- **per asset**: the asset's discounted cash flows over all steps add up to minus the cost of
    its own variables times their values -/
theorem asset_dcf_total (as : List AssetProblem) (gridI : List Nat) (skip : List String) (T : Nat)
    (hnd : (as.map (·.name)).Nodup) (hwf : ∀ a ∈ as, WF T a) (x : Vec)
    (i : Nat) (hi : i < as.length) :
    dcfTotal (assemble as gridI skip).c (assemble as gridI skip).mapping (as[i]).name T x
      = - costAt (as[i]).c (offset as i) x := by
  have hdec : as = as.take i ++ as[i] :: as.drop (i + 1) := by
    rw [← List.drop_eq_getElem_cons hi, List.take_append_drop]
  have hnd' : (((as.take i) ++ as[i] :: as.drop (i + 1)).map (·.name)).Nodup := by
    rw [← hdec]; exact hnd
  have hmap : ∀ b ∈ as.take i ++ as[i] :: as.drop (i + 1), ∀ m ∈ b.mapping,
      m.asset = b.name ∧ m.var < b.n ∧ m.step < T := by
    rw [← hdec]; exact fun b hb => (hwf b hb).map
  have key := dcfTotal_block (as.take i) (as.drop (i + 1)) as[i] T hnd' hmap
    (hwf as[i] (List.getElem_mem hi)).rowless x
  rw [← hdec] at key
  simpa [offset] using key

/-- **C04**: the reported value equals the sum over all assets and steps of the DCF table — for
    every `x` (in particular for the optimum), any number of assets, steps and rows per variable -/
theorem value_accounting (as : List AssetProblem) (gridI : List Nat) (skip : List String) (T : Nat)
    (hnd : (as.map (·.name)).Nodup) (hwf : ∀ a ∈ as, WF T a) (x : Vec) :
    ((as.map (·.name)).map fun a =>
        dcfTotal (assemble as gridI skip).c (assemble as gridI skip).mapping a T x).sum
      = (assemble as gridI skip).value x := by
  have key := dcfTotal_sum_suffix as T hnd (fun b hb => (hwf b hb).map)
    (fun b hb => (hwf b hb).rowless) x [] as rfl
  rw [List.map_map]
  simpa [Problem.value, Function.comp_def] using key

set_option linter.unusedVariables false in
/-- **split**: the mapping of a split problem is the concatenation of the interval mappings shifted by
    the interval offsets (`mapping_tmp.index += len_res`), the cost vector the concatenation of the
    interval costs; the accounting identity holds for the block sum with per-asset totals summed
    over intervals.  Stated for the block-diagonal sum of interval problems, each of which is an
    assembled problem. -/
theorem value_accounting_split (intervals : List (List AssetProblem × List Nat)) (skip : List String) (T : Nat)
    (hnd : ∀ iv ∈ intervals, (iv.1.map (·.name)).Nodup) (hwf : ∀ iv ∈ intervals, ∀ a ∈ iv.1, WF T a)
    (xs : List Vec) (hlen : xs.length = intervals.length) :
    ((intervals.zip xs).map fun p =>
        ((p.1.1.map (·.name)).map fun a =>
          dcfTotal (assemble p.1.1 p.1.2 skip).c (assemble p.1.1 p.1.2 skip).mapping a T p.2).sum).sum
      = ((intervals.zip xs).map fun p => (assemble p.1.1 p.1.2 skip).value p.2).sum := by
  congr 1
  apply List.map_congr_left
  intro p hp
  have hmem : p.1 ∈ intervals := (List.of_mem_zip hp).1
  exact value_accounting p.1.1 p.1.2 skip T (hnd _ hmem) (hwf _ hmem) p.2

/-! ### non-vacuity

Two assets.  `exA` has three variables: variable 0 with TWO mapping rows (steps 0 and 1; booked at
step 0, the first row), variable 1 row-less with zero cost, variable 2 with one row at step 1.
`exB` has one variable. -/
def exA : AssetProblem :=
  { name := "a", nodes := ["n"], c := [3, 0, 2], l := [0, 0, 0], u := [9, 9, 9], rows := [],
    mapping := [⟨0, "a", some "n", .d, 0, 1, false, "disp"⟩, ⟨2, "a", none, .i, 1, 1, false, "aux"⟩,
                ⟨0, "a", some "n", .d, 1, 1/2, false, "disp"⟩] }
def exB : AssetProblem :=
  { name := "b", nodes := ["n"], c := [5], l := [-9], u := [9], rows := [],
    mapping := [⟨0, "b", some "n", .d, 0, 2, false, "disp"⟩] }
def exX : Vec := fun j => if j = 0 then 2 else if j = 1 then 7 else if j = 2 then -1 else 1/2

theorem exWF : ∀ a ∈ [exA, exB], WF 2 a := by
  intro a ha
  simp only [List.mem_cons, List.not_mem_nil, or_false] at ha
  rcases ha with rfl | rfl <;> exact ⟨by decide +kernel, by decide +kernel⟩

theorem exNodup : ([exA, exB].map (·.name)).Nodup := by decide +kernel

/-- the hypotheses are satisfiable and the theorems apply to the instance -/
example : ((["a", "b"]).map fun a =>
      dcfTotal (assemble [exA, exB] [0, 1] []).c (assemble [exA, exB] [0, 1] []).mapping a 2 exX).sum
    = (assemble [exA, exB] [0, 1] []).value exX :=
  value_accounting [exA, exB] [0, 1] [] 2 exNodup exWF exX

/-- direct evaluation of the same instance: the DCF table (asset × step), the per-asset totals and
    the value; variable 0 of `exA` is booked once (at step 0) although it has two rows, the row-less
    variable 1 (value 7) contributes nothing -/
example :
    let P := assemble [exA, exB] [0, 1] []
    dcf P.c P.mapping "a" 0 exX = -6 ∧ dcf P.c P.mapping "a" 1 exX = 2 ∧
    dcf P.c P.mapping "b" 0 exX = -5/2 ∧ dcf P.c P.mapping "b" 1 exX = 0 ∧
    dcfTotal P.c P.mapping "a" 2 exX = - costAt exA.c (offset [exA, exB] 0) exX ∧
    dcfTotal P.c P.mapping "b" 2 exX = - costAt exB.c (offset [exA, exB] 1) exX ∧
    offset [exA, exB] 1 = 3 ∧ P.value exX = -13/2 := by
  decide +kernel

/-- `asset_dcf_total` applies to the instance (asset at position 1, offset 3) -/
example : dcfTotal (assemble [exA, exB] [0, 1] []).c (assemble [exA, exB] [0, 1] []).mapping "b" 2 exX
    = - costAt [5] (offset [exA, exB] 1) exX :=
  asset_dcf_total [exA, exB] [0, 1] [] 2 exNodup exWF exX 1 (by decide)

/-- `value_accounting_split` applies to a two-interval instance; both sides evaluate to `-33/2` -/
example :
    let ivs : List (List AssetProblem × List Nat) := [([exA, exB], [0, 1]), ([exB], [0])]
    ((ivs.zip [exX, exX]).map fun p =>
        ((p.1.1.map (·.name)).map fun a =>
          dcfTotal (assemble p.1.1 p.1.2 []).c (assemble p.1.1 p.1.2 []).mapping a 2 p.2).sum).sum
      = ((ivs.zip [exX, exX]).map fun p => (assemble p.1.1 p.1.2 []).value p.2).sum ∧
    ((ivs.zip [exX, exX]).map fun p => (assemble p.1.1 p.1.2 []).value p.2).sum = -33/2 := by
  refine ⟨value_accounting_split _ [] 2 ?_ ?_ [exX, exX] rfl, by decide +kernel⟩
  · intro iv hiv
    simp only [List.mem_cons, List.not_mem_nil, or_false] at hiv
    rcases hiv with rfl | rfl <;> decide +kernel
  · intro iv hiv a ha
    simp only [List.mem_cons, List.not_mem_nil, or_false] at hiv
    rcases hiv with rfl | rfl
    · exact exWF a ha
    · exact exWF a (by simp only [List.mem_cons, List.not_mem_nil, or_false] at ha ⊢; exact Or.inr ha)

end EAO.C04
