import EAO.Model.Assemble
import EAO.Model.Readout
import EAO.Model.Translate
import EAO.Lemmas.Nodal
/-!
# C04 — value accounting: reported value = Σ per-asset discounted cash flows

Property theorems only; helper lemmas go to `EAO/Lemmas/Accounting.lean`.
`dcf` models `Asset.dcf` (a variable is booked at the step of its FIRST mapping row among the
rows of that asset), `Problem.value` is `-c·x`.
-/
namespace EAO.C04

/-- Well-formedness of an asset problem as far as accounting needs it: mapping rows carry the
    asset's name, point at one of its variables and at a step `< T`; and a variable WITHOUT any
    mapping row has zero cost (true for every EAO asset: the only row-less variables are orders
    with no step in the horizon, whose cost is `capa·0·price = 0`). -/
structure WF (T : Nat) (a : AssetProblem) : Prop where
  map : ∀ m ∈ a.mapping, m.asset = a.name ∧ m.var < a.n ∧ m.step < T
  rowless : ∀ j, j < a.n → (∀ m ∈ a.mapping, m.var ≠ j) → a.c.getD j 0 = 0

/-- offset of the asset at position `i` -/
def offset (as : List AssetProblem) (i : Nat) : Nat := ((as.take i).map (·.n)).sum

/-- **per asset**: the asset's discounted cash flows over all steps add up to minus the cost of
    its own variables times their values -/
theorem asset_dcf_total (as : List AssetProblem) (gridI : List Nat) (skip : List String) (T : Nat)
    (hnd : (as.map (·.name)).Nodup) (hwf : ∀ a ∈ as, WF T a) (x : Vec)
    (i : Nat) (hi : i < as.length) :
    dcfTotal (assemble as gridI skip).c (assemble as gridI skip).mapping (as[i]).name T x
      = - costAt (as[i]).c (offset as i) x := by
  sorry

/-- **C04**: the reported value equals the sum over all assets and steps of the DCF table — for
    every `x` (in particular for the optimum), any number of assets, steps and rows per variable -/
theorem value_accounting (as : List AssetProblem) (gridI : List Nat) (skip : List String) (T : Nat)
    (hnd : (as.map (·.name)).Nodup) (hwf : ∀ a ∈ as, WF T a) (x : Vec) :
    ((as.map (·.name)).map fun a =>
        dcfTotal (assemble as gridI skip).c (assemble as gridI skip).mapping a T x).sum
      = (assemble as gridI skip).value x := by
  sorry

/-- **split**: the mapping of a split problem is the concatenation of the interval mappings shifted by
    the interval offsets (`mapping_tmp.index += len_res`), the cost vector the concatenation of the
    interval costs; the accounting identity holds for the block sum with per-asset totals summed
    over intervals.  Stated for the block-diagonal sum of interval problems, each of which is an
    assembled problem. -/
theorem value_accounting_split (intervals : List (List AssetProblem × List Nat)) (skip : List String) (T : Nat)
    (hnd : ∀ iv ∈ intervals, (iv.1.map (·.name)).Nodup) (hwf : ∀ iv ∈ intervals, ∀ a ∈ iv.1, WF T a)
    (xs : List Vec) (hlen : xs.length = intervals.length) :
    ((intervals.zip xs).map fun p =>
        ((p.1.1.map (·.name)).map fun a =>
          dcfTotal (assemble p.1.1 p.1.2 skip).c (assemble p.1.1 p.1.2 skip).mapping a T p.2).sum).sum
      = ((intervals.zip xs).map fun p => (assemble p.1.1 p.1.2 skip).value p.2).sum := by
  sorry

end EAO.C04
