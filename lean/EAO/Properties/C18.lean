import EAO.Model.Assemble
import EAO.Model.Readout
import EAO.Model.Lagrange
import EAO.Lemmas.Lagrange
/-!
# C18 — reported nodal prices are supergradients of the optimal value (and the certificate
theorems shared with C03)

Property theorems only; helper lemmas live in `EAO/Lemmas/Lagrange.lean`.
-/
namespace EAO.C18

/-- Weak duality for box-constrained problems with row kinds U/L/S/N: ANY sign-correct multiplier
    vector gives an upper bound on the value of every (relaxed-)feasible point.  No dual feasibility
    is needed because all variables are boxed. -/
theorem lagrangian_bound (P : Problem) (y : List Rat) (hwf : P.WFCols) (hy : SignOK P.rows y)
    (x : Vec) (hx : P.FeasibleRelaxed x) : P.value x ≤ lagrangianUB P y :=
  lagrangian_bound_aux P y hwf hy x hx

/-- The bound is affine in the right-hand side of a row, with slope the row's multiplier. -/
theorem lagrangian_affine (P : Problem) (y : List Rat) (i : Nat) (δ : Rat)
    (hi : i < P.rows.length) (hy : y.length = P.rows.length) :
    lagrangianUB (P.perturbRhs i δ) y = lagrangianUB P y + y.getD i 0 * δ := by
  -- `hy` is not needed: entries of `y` beyond the rows are ignored by `zip`, and `i` is a row index
  have _ := hy
  exact lagrangianUB_perturbRhs P y i δ hi

/-- index (among all rows) of the `k`-th nodal row of an assembled problem: nodal rows come last -/
def nodalRowIndex (P : Problem) (k : Nat) : Nat := P.rows.length - P.nodal.length + k

/-- an extra injection `δ` at the node/step of the `k`-th nodal restriction: its right-hand side
    becomes `-δ` (dispatch into the node counts positive, so the assets together must take `δ` out) -/
def inject (P : Problem) (k : Nat) (δ : Rat) : Problem := P.perturbRhs (nodalRowIndex P k) (-δ)

/-- **C18.**  Let `P` be any problem whose last `P.nodal.length` rows are its nodal rows, `V` the reported
    optimum, `dualN` the reported nodal duals, and `y` any sign-correct multiplier vector that carries
    `dualN` on the nodal rows.  With `gap = lagrangianUB P y - V`, every point feasible for the problem
    with an injection `δ` (of either sign) at the `k`-th (node, step) has value at most
    `V + price_k * δ + gap`, where `price_k` is what the read-out writes into the price table. -/
theorem price_supergradient (P : Problem) (y dualN : List Rat) (V : Rat) (k : Nat) (δ : Rat)
    (hwf : P.WFCols) (hy : SignOK P.rows y)
    (hk : k < P.nodal.length) (hnr : P.nodal.length ≤ P.rows.length)
    (hyk : y.getD (nodalRowIndex P k) 0 = dualN.getD k 0)
    (x' : Vec) (hx' : (inject P k δ).FeasibleRelaxed x') :
    (inject P k δ).value x' ≤
      V + ((nodalPrices P.nodal dualN).getD k ((0, ""), 0)).2 * δ + (lagrangianUB P y - V) := by
  have hi : nodalRowIndex P k < P.rows.length := by unfold nodalRowIndex; omega
  have hb := lagrangian_bound (inject P k δ) y (Problem.WFCols_perturbRhs hwf _ _)
    (SignOK_perturbRows hy _ _) x' hx'
  have ha := lagrangian_affine P y (nodalRowIndex P k) (-δ) hi hy.1
  rw [nodalPrices_getD P.nodal dualN k hk]
  unfold inject at hb ⊢
  rw [ha, hyk] at hb
  grind

/-! ### non-vacuity

`max x₀ + 2 x₁` subject to `0 ≤ x ≤ 4`, one `U` row `x₀ + x₁ ≤ 5` and, as last row, one `N` row
`x₀ - x₁ = 0` belonging to `(step 0, node "n")`.  Optimum `V = 15/2` at `x = (5/2, 5/2)`; the exact
multipliers are `y = (3/2, -1/2)`, so `dualN = [-1/2]` and the reported price is `1/2`.  With an
injection `δ = 1` the nodal row reads `x₀ - x₁ = -1`, the point `(2, 3)` is feasible and has value
`8 = V + price * δ + gap` with `gap = 0`: all hypotheses hold and the bound is attained. -/

def exP : Problem :=
  { c := [-1, -2], l := [0, 0], u := [4, 4],
    rows := [{ coeffs := [(0, 1), (1, 1)], rhs := 5, kind := .U },
             { coeffs := [(0, 1), (1, -1)], rhs := 0, kind := .N }],
    mapping := [], nodal := [(0, "n")] }

def exY : List Rat := [3/2, -1/2]
def exDualN : List Rat := [-1/2]
def exX : Vec := fun j => [5/2, 5/2].getD j 0
def exX' : Vec := fun j => [2, 3].getD j 0

/-- hypotheses of `lagrangian_bound` hold on the example, and the bound is tight there -/
example : exP.WFCols ∧ SignOK exP.rows exY ∧ exP.FeasibleRelaxed exX ∧
    exP.value exX = 15/2 ∧ lagrangianUB exP exY = 15/2 := by
  unfold Problem.WFCols SignOK Problem.FeasibleRelaxed InBounds
  decide +kernel

/-- hypotheses of `lagrangian_affine` hold on the example (row 1, `δ = -1`) and both sides are `8` -/
example : 1 < exP.rows.length ∧ exY.length = exP.rows.length ∧
    lagrangianUB (exP.perturbRhs 1 (-1)) exY = 8 ∧ lagrangianUB exP exY + exY.getD 1 0 * (-1) = 8 := by
  decide +kernel

/-- hypotheses of `price_supergradient` hold on the example with `k = 0`, `δ = 1 ≠ 0`, the injected
    problem really differs (`rhs = -1` on the nodal row), and the bound is attained by `exX'` -/
example : exP.WFCols ∧ SignOK exP.rows exY ∧ 0 < exP.nodal.length ∧
    exP.nodal.length ≤ exP.rows.length ∧ nodalRowIndex exP 0 = 1 ∧
    exY.getD (nodalRowIndex exP 0) 0 = exDualN.getD 0 0 ∧
    (inject exP 0 1).rows.map (·.rhs) = [5, -1] ∧
    (inject exP 0 1).FeasibleRelaxed exX' ∧ ¬ exP.FeasibleRelaxed exX' ∧
    (inject exP 0 1).value exX' = 8 ∧
    ((nodalPrices exP.nodal exDualN).getD 0 ((0, ""), 0)).2 = 1/2 ∧
    (15/2 : Rat) + ((nodalPrices exP.nodal exDualN).getD 0 ((0, ""), 0)).2 * 1
      + (lagrangianUB exP exY - 15/2) = 8 := by
  unfold Problem.WFCols SignOK Problem.FeasibleRelaxed InBounds
  decide +kernel

end EAO.C18
