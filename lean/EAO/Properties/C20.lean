import EAO.Model.OrderBook
import EAO.Model.Readout
import EAO.Model.Assemble
import EAO.Lemmas.OrderBook
import EAO.Properties.C02
/-!
# C20 — order book: partial or full execution, delivered over the order's window

Property theorems only; helper lemmas are in `EAO/Lemmas/OrderBook.lean`.

`orderBookProblem name node orders fullExec g` is what `OrderBook.setup_optim_problem` returns on the
grid `g` (`buildOrderBook` is `.ok` of it, `build_ok`).  Variable `k` is the executed fraction of order
number `k`.  An order *covers* grid position `i` iff `start ≤ pts_i < stop` (`Order.covers`);
`coverPos g o` lists the covered positions.

Grid hypotheses used below (all true for every grid the implementation produces, and evaluated by the
harness on the real grid): `g.idx.length = g.T` (one index per step), `g.idx.Nodup` (distinct step
indices), `∀ t ∈ g.idx, t < T` (steps lie in the portfolio's horizon).
-/
namespace EAO.C20
open EAO EAO.OrderBook

/-- the variables `OptimProblem.optimize` declares boolean: flag on the FIRST mapping row of the variable
    (this is `Problem.boolVars` read off a mapping) -/
def boolVarsOf (M : List MapRow) : List Nat := ((firstRows M []).filter (·.isBool)).map (·.var)

theorem boolVarsOf_eq (P : Problem) : P.boolVars = boolVarsOf P.mapping := rfl

/-- the builder cannot fail on well-typed orders -/
theorem build_ok (name node : String) (orders : List Order) (fe : Bool) (g : Grid) :
    buildOrderBook name node orders fe g = .ok (orderBookProblem name node orders fe g) := rfl

/-- **order_rows**: one variable per order, bounds `[0,1]`, no restriction rows; every mapping row carries
    the full-execution flag, and the boolean variables are exactly — under full execution — the orders
    with at least one covered step, none otherwise. -/
theorem order_rows (name node : String) (orders : List Order) (fe : Bool) (g : Grid) :
    let P := orderBookProblem name node orders fe g
    P.n = orders.length ∧ P.l.length = orders.length ∧ P.u.length = orders.length ∧
    (∀ k, k < orders.length → P.l.getD k 0 = 0 ∧ P.u.getD k 0 = 1) ∧
    P.rows = [] ∧
    (∀ m ∈ P.mapping, m.isBool = fe) ∧
    (∀ k, k ∈ boolVarsOf P.mapping ↔ (fe = true ∧ ∃ o, orders[k]? = some o ∧ coverPos g o ≠ [])) := by
  refine ⟨by simp [orderBookProblem, AssetProblem.n], by simp [orderBookProblem], by simp [orderBookProblem], ?_, rfl, ?_, ?_⟩
  · intro k hk
    simp [orderBookProblem, List.getD_eq_getElem?_getD, hk]
  · intro m hm
    obtain ⟨j, o, i, _, _, rfl⟩ := mem_orderMapFrom name node fe g orders 0 m hm
    rfl
  · intro k
    simp only [boolVarsOf, orderBookProblem, List.mem_map, List.mem_filter]
    constructor
    · rintro ⟨m, ⟨hm, hb⟩, rfl⟩
      have hm' := firstRows_subset _ _ _ hm
      obtain ⟨j, o, i, hj, hi, rfl⟩ := mem_orderMapFrom name node fe g orders 0 m hm'
      refine ⟨by simpa [orderRow] using hb, o, by simpa [orderRow] using hj, ?_⟩
      intro hc; rw [hc] at hi; cases hi
    · rintro ⟨hfe, o, hk, hc⟩
      obtain ⟨i, hi⟩ := List.exists_mem_of_ne_nil _ hc
      have hmem := orderRow_mem_orderMapFrom name node fe g orders 0 k o i hk hi
      obtain ⟨m', hm', hv⟩ := firstRows_complete _ [] _ hmem (by simp)
      refine ⟨m', ⟨hm', ?_⟩, by simpa [orderRow] using hv⟩
      obtain ⟨j, o', i', _, _, rfl⟩ := mem_orderMapFrom name node fe g orders 0 m' (firstRows_subset _ _ _ hm')
      simpa [orderRow] using hfe

/-- **order_feasible**: the order book restricts nothing but the fractions — a point is feasible for its own
    problem iff every executed fraction lies in `[0,1]` (integrality is `order_rows`) -/
theorem order_feasible (name node : String) (orders : List Order) (fe : Bool) (g : Grid) (x : Vec) :
    (orderBookProblem name node orders fe g).FeasibleRelaxed x ↔ ∀ k, k < orders.length → 0 ≤ x k ∧ x k ≤ 1 := by
  have hb := (order_rows name node orders fe g).2.2.2.1
  simp only [AssetProblem.FeasibleRelaxed, InBounds]
  have hl : (orderBookProblem name node orders fe g).l.length = orders.length := by simp [orderBookProblem]
  have hr : (orderBookProblem name node orders fe g).rows = [] := rfl
  rw [hl, hr]
  constructor
  · rintro ⟨h, _⟩ k hk
    have := h k hk
    rw [(hb k hk).1, (hb k hk).2] at this
    exact this
  · intro h
    refine ⟨?_, by simp⟩
    intro k hk
    rw [(hb k hk).1, (hb k hk).2]
    exact h k hk

/-- in a portfolio consisting of the order book alone the boolean variables handed to the solver are
    those of `order_rows` (embedding at offset 0 changes nothing) -/
theorem order_bools_portfolio (name node : String) (orders : List Order) (fe : Bool) (g : Grid)
    (gridI : List Nat) (skip : List String) :
    (assemble [orderBookProblem name node orders fe g] gridI skip).boolVars
      = boolVarsOf (orderBookProblem name node orders fe g).mapping := by
  have hshift : ∀ M : List MapRow, M.map (MapRow.shift 0) = M := by
    intro M
    induction M with
    | nil => rfl
    | cons m M ih => simp [MapRow.shift, ih]
  simp [Problem.boolVars, boolVarsOf, assemble, assembleFrom, hshift]

/-- **order_delivery**: at the step of grid position `i` the order book delivers the sum over the orders
    covering that step of `fraction · capacity · step length` -/
theorem order_delivery (name node : String) (orders : List Order) (fe : Bool) (g : Grid) (x : Vec)
    (i : Nat) (hi : i < g.T) (hlen : g.idx.length = g.T) (hnd : g.idx.Nodup) :
    dispatchOut (orderBookProblem name node orders fe g).mapping name node (g.idx.getD i 0) x
      = ((orders.zipIdx.filter fun p => p.1.covers (g.pts.getD i 0)).map fun p =>
          x p.2 * p.1.capa * g.dt.getD i 0).sum := by
  rw [sum_filter_ite]
  have := dispatch_orderMapFrom name node fe g x i hi hlen hnd orders 0
  simp only [orderBookProblem]
  rw [this]
  apply sum_map_congr'
  intro p _
  split
  · grind
  · rfl

/-- at a step index that is not a step of the grid, and at any other node, nothing is delivered -/
theorem order_delivery_elsewhere (name node : String) (orders : List Order) (fe : Bool) (g : Grid) (x : Vec)
    (n : String) (t : Nat) (h : n ≠ node ∨ t ∉ g.idx) (hlen : g.idx.length = g.T) :
    dispatchOut (orderBookProblem name node orders fe g).mapping name n t x = 0 := by
  unfold dispatchOut
  have : ((orderBookProblem name node orders fe g).mapping.filter fun m => m.asset == name && isDisp n t m) = [] := by
    rw [List.filter_eq_nil_iff]
    intro m hm
    obtain ⟨j, o, i, _, hi, rfl⟩ := mem_orderMapFrom name node fe g orders 0 m hm
    have hiT := (mem_coverPos g o i hi).1
    rcases h with h | h
    · simp [isDisp, orderRow]; intro e; exact absurd e.symm h
    · have hmem : g.idx.getD i 0 ∈ g.idx := by
        rw [List.getD_eq_getElem?_getD, List.getElem?_eq_getElem (by omega)]
        exact List.getElem_mem _
      simp [isDisp, orderRow]
      intro _ e
      exact h (e ▸ hmem)
  rw [this]; rfl

/-- **order_cash**: the discounted cash flows of the order book over the horizon add up to minus
    `Σ_o fraction_o · capa_o · price_o · Σ_{t covered by o} dt_t · df_t` -/
theorem order_cash (name node : String) (orders : List Order) (fe : Bool) (g : Grid) (x : Vec) (T : Nat)
    (hlen : g.idx.length = g.T) (hT : ∀ t ∈ g.idx, t < T) :
    dcfTotal (orderBookProblem name node orders fe g).c (orderBookProblem name node orders fe g).mapping name T x
      = - (orders.zipIdx.map fun p =>
            x p.2 * p.1.capa * p.1.price * ((coverPos g p.1).map fun i => g.dt.getD i 0 * g.df.getD i 0).sum).sum := by
  have hall : ∀ m ∈ orderMapFrom name node fe g 0 orders, m.asset = name ∧ m.step < T := by
    intro m hm
    obtain ⟨j, o, i, _, hi, rfl⟩ := mem_orderMapFrom name node fe g orders 0 m hm
    have hiT := (mem_coverPos g o i hi).1
    refine ⟨rfl, hT _ ?_⟩
    simp only [orderRow]
    rw [List.getD_eq_getElem?_getD, List.getElem?_eq_getElem (by omega)]
    exact List.getElem_mem _
  have hfilter : (orderMapFrom name node fe g 0 orders).filter (fun m => m.asset == name)
      = orderMapFrom name node fe g 0 orders := by
    rw [List.filter_eq_self]
    intro m hm
    simp [(hall m hm).1]
  simp only [dcfTotal, dcf, assetFirstRows, orderBookProblem, hfilter]
  rw [sum_steps_all' _ _ T (fun m hm => (hall m (firstRows_subset _ _ _ hm)).2)]
  rw [firstRows_orderMapFrom name node fe g orders 0 [] (by simp)]
  rw [sum_orderHeadFrom name node fe g x (fun j => (orders.map (orderCost g)).getD j 0) orders 0
    (by intro i h; simp [List.getD_eq_getElem?_getD, h])]
  rw [← sum_map_neg']
  apply sum_map_congr'
  intro p _
  simp only [orderCost, coverWeight]
  grind

/-- **order_report**: the order rows of the `special` table list, in order, the orders with at least one
    covered step, each with its own number, executed fraction and `fraction · cost` -/
theorem order_report (name node : String) (orders : List Order) (fe : Bool) (g : Grid) (x : Vec) :
    orderRows (orderBookProblem name node orders fe g).c (orderBookProblem name node orders fe g).mapping name x
      = (orders.zipIdx.filter fun p => !(coverPos g p.1).isEmpty).map fun p =>
          { asset := name, kind := "d", name := toString p.2, value := x p.2,
            costs := x p.2 * (p.1.capa * ((coverPos g p.1).map fun i => g.dt.getD i 0 * g.df.getD i 0).sum * p.1.price) } := by
  have hfilter : (orderMapFrom name node fe g 0 orders).filter (fun m => m.asset == name)
      = orderMapFrom name node fe g 0 orders := by
    rw [List.filter_eq_self]
    intro m hm
    obtain ⟨j, o, i, _, _, rfl⟩ := mem_orderMapFrom name node fe g orders 0 m hm
    simp [orderRow]
  simp only [orderRows, assetFirstRows, orderBookProblem, hfilter]
  rw [firstRows_orderMapFrom name node fe g orders 0 [] (by simp)]
  apply map_orderHeadFrom
  intro i h b hb
  obtain ⟨i', _, rfl⟩ := mem_orderMapRows name node fe g _ _ b hb
  simp [orderRow, List.getD_eq_getElem?_getD, h, orderCost, coverWeight]

/-- **order_outside_inert**: an order with no step inside the horizon — whatever its position `k` in
    the list — has zero cost and no mapping row; the problem has no restriction rows; hence its variable
    occurs in no nodal row, and neither the value nor any dispatch depends on it. -/
theorem order_outside_inert (name node : String) (orders : List Order) (fe : Bool) (g : Grid)
    (k : Nat) (o : Order) (hk : orders[k]? = some o)
    (hout : ∀ i, i < g.T → ¬ (o.start ≤ g.pts.getD i 0 ∧ g.pts.getD i 0 < o.stop)) :
    let P := orderBookProblem name node orders fe g
    P.c.getD k 0 = 0 ∧ (∀ m ∈ P.mapping, m.var ≠ k) ∧ P.rows = [] ∧
    (∀ n t, ∀ p ∈ (nodalRow P.mapping n t).coeffs, p.1 ≠ k) ∧
    (∀ (x : Vec) (v : Rat), costAt P.c 0 (fun i => if i = k then v else x i) = costAt P.c 0 x) ∧
    (∀ (a n : String) (t : Nat) (x : Vec) (v : Rat),
        dispatchOut P.mapping a n t (fun i => if i = k then v else x i) = dispatchOut P.mapping a n t x) := by
  have hc : coverPos g o = [] := (coverPos_eq_nil_iff g o).mpr hout
  have hcost : (orderBookProblem name node orders fe g).c.getD k 0 = 0 := by
    simp [orderBookProblem, List.getD_eq_getElem?_getD, hk, orderCost_of_cover_nil g o hc]
  have hrow : ∀ m ∈ (orderBookProblem name node orders fe g).mapping, m.var ≠ k := by
    intro m hm
    have := no_row_of_cover_nil name node fe g orders 0 k o hk hc m hm
    simpa using this
  refine ⟨hcost, hrow, rfl, ?_, ?_, ?_⟩
  · intro n t p hp
    simp only [nodalRow, List.mem_map, List.mem_filter] at hp
    obtain ⟨m, ⟨hm, _⟩, rfl⟩ := hp
    exact hrow m hm
  · intro x v
    apply costAt_update_zero
    intro _
    simpa using hcost
  · intro a n t x v
    unfold dispatchOut
    apply sum_map_congr'
    intro m hm
    have := hrow m (List.mem_filter.mp hm).1
    simp [MapRow.contrib, this]


/-! ## order_refines: the order book against its textbook formulation

The reference, written over physical quantities like `EAO/Spec/Textbook.lean` (MEANT TO BE READ): every order
`o` (number `k`) is executed at a fraction `fr k ∈ [0,1]` — in `{0,1}` under full execution; it covers the
window positions whose start lies in `[o.start, o.stop)`; at portfolio step `t` the book delivers, at its node,
`Σ_o Σ_{i covered by o, step of i = t} fr_o · capa_o · dt_i` and nothing anywhere else; it pays
`Σ_o fr_o · capa_o · price_o · Σ_{i covered by o} dt_i · df_i`. -/

/-- window positions covered by the order -/
def covered (g : Grid) (o : Order) : List Nat :=
  (List.range g.T).filter fun i => decide (o.start ≤ g.pts.getD i 0) && decide (g.pts.getD i 0 < o.stop)

/-- volume delivered at portfolio step `t` -/
def delivered (g : Grid) (orders : List Order) (fr : Nat → Rat) (t : Nat) : Rat :=
  (orders.zipIdx.map fun p =>
    (((covered g p.1).filter fun i => Textbook.stepOf g i == t).map fun i => fr p.2 * p.1.capa * Textbook.dtOf g i).sum).sum

/-- discounted payment for the executed fractions -/
def paid (g : Grid) (orders : List Order) (fr : Nat → Rat) : Rat :=
  (orders.zipIdx.map fun p =>
    fr p.2 * p.1.capa * p.1.price * ((covered g p.1).map fun i => Textbook.dtOf g i * Textbook.dfOf g i).sum).sum

/-- all the portfolio sees of the textbook order book: its attainable (flows, cash) pairs -/
def orderBookSem (node : String) (orders : List Order) (g : Grid) (full : Bool) : Textbook.AssetSem :=
  ⟨fun fl c => ∃ fr : Nat → Rat,
      (∀ k, k < orders.length → 0 ≤ fr k ∧ fr k ≤ 1) ∧
      (full = true → ∀ k, k < orders.length → fr k = 0 ∨ fr k = 1) ∧
      (∀ n t, fl n t = if n = node then delivered g orders fr t else 0) ∧
      c = - paid g orders fr⟩

theorem covered_eq (g : Grid) (o : Order) : covered g o = coverPos g o := rfl

/-- flow of the model's order-book problem into any node at any step, for any assignment -/
theorem order_flow (name node : String) (orders : List Order) (fe : Bool) (g : Grid) (n : String) (t : Nat) (y : Vec) :
    C09.flow (orderBookProblem name node orders fe g) n t y = if n = node then delivered g orders y t else 0 := by
  unfold C09.flow
  by_cases hn : n = node
  · subst hn
    simp only [if_true, orderBookProblem]
    exact flow_orderMapFrom_node name n fe g y t orders 0
  · simp only [hn, if_false, orderBookProblem]
    rw [flow_orderMapFrom_other name node fe g n hn t orders 0]
    rfl

/-- minus the cost of the model's order-book problem is minus the textbook payment -/
theorem order_cost (name node : String) (orders : List Order) (fe : Bool) (g : Grid) (y : Vec) :
    - costAt (orderBookProblem name node orders fe g).c 0 y = - paid g orders y := by
  simp only [orderBookProblem, paid]
  rw [costAt_map_zipIdx]
  congr 1
  apply sum_map_congr'
  intro p _
  simp only [orderCost, coverWeight, covered_eq, Textbook.dtOf, Textbook.dfOf]
  grind

/-- **order_refines** (partial execution / relaxation): the order book's asset problem and the textbook order
    book have the SAME attainable (flows, cash) pairs, with `fraction = x`; no hypothesis on the grid. -/
theorem order_refines (name node : String) (orders : List Order) (fe : Bool) (g : Grid) :
    Textbook.RefinesExactly (orderBookProblem name node orders fe g) (orderBookSem node orders g false) := by
  intro fl c
  constructor
  · rintro ⟨fr, hb, _, hfl, rfl⟩
    refine ⟨fr, (order_feasible name node orders fe g fr).mpr hb, ?_, order_cost name node orders fe g fr |>.symm⟩
    intro n t
    rw [hfl n t]
    exact (order_flow name node orders fe g n t fr).symm
  · rintro ⟨y, hy, hfl, rfl⟩
    refine ⟨y, (order_feasible name node orders fe g y).mp hy, (fun h => by cases h), ?_, order_cost name node orders fe g y⟩
    intro n t
    rw [hfl n t]
    exact order_flow name node orders fe g n t y

/-- **order_refines_full** (full execution): the pairs attainable by the asset problem with its boolean
    variables forced to 0/1 (`boolVarsOf` = what `OptimProblem.optimize` declares boolean: the orders with a
    step in the horizon) are exactly the pairs of the textbook order book with EVERY fraction in `{0,1}` —
    the fractions of orders outside the horizon, which the code leaves continuous, change neither flows nor
    cash. -/
theorem order_refines_full (name node : String) (orders : List Order) (g : Grid) (fl : Textbook.Flows) (c : Rat) :
    (orderBookSem node orders g true).Attain fl c ↔
      ∃ y, (orderBookProblem name node orders true g).FeasibleRelaxed y ∧
        (∀ j ∈ boolVarsOf (orderBookProblem name node orders true g).mapping, y j = 0 ∨ y j = 1) ∧
        (∀ n t, fl n t = C09.flow (orderBookProblem name node orders true g) n t y) ∧
        c = - costAt (orderBookProblem name node orders true g).c 0 y := by
  have hbv := (order_rows name node orders true g).2.2.2.2.2.2
  constructor
  · rintro ⟨fr, hb, hfull, hfl, rfl⟩
    refine ⟨fr, (order_feasible name node orders true g fr).mpr hb, ?_, ?_, (order_cost name node orders true g fr).symm⟩
    · intro j hj
      obtain ⟨_, o, ho, _⟩ := (hbv j).mp hj
      have hjl : j < orders.length := by
        rcases Nat.lt_or_ge j orders.length with h | h
        · exact h
        · rw [List.getElem?_eq_none h] at ho; cases ho
      exact hfull rfl j hjl
    · intro n t
      rw [hfl n t]
      exact (order_flow name node orders true g n t fr).symm
  · rintro ⟨y, hy, hbool, hfl, rfl⟩
    have hb := (order_feasible name node orders true g y).mp hy
    let M := (orderBookProblem name node orders true g).mapping
    let fr : Nat → Rat := fun k => if k ∈ boolVarsOf M then y k else 0
    -- on orders with a covered step the two assignments agree
    have hagree : ∀ p ∈ orders.zipIdx, covered g p.1 ≠ [] → fr p.2 = y p.2 := by
      intro p hp hc
      have ho : orders[p.2]? = some p.1 := List.mem_zipIdx_iff_getElem?.mp hp
      have : p.2 ∈ boolVarsOf M := (hbv p.2).mpr ⟨rfl, p.1, ho, hc⟩
      simp [fr, this]
    refine ⟨fr, ?_, ?_, ?_, ?_⟩
    · intro k hk
      by_cases h : k ∈ boolVarsOf M
      · simpa [fr, h] using hb k hk
      · simp only [fr, h, if_false]
        exact ⟨Rat.le_refl, by decide⟩
    · intro _ k _
      by_cases h : k ∈ boolVarsOf M
      · simpa [fr, h] using hbool k h
      · left; simp [fr, h]
    · intro n t
      rw [hfl n t, order_flow]
      by_cases hn : n = node
      · simp only [hn, if_true, delivered]
        apply sum_map_congr'
        intro p hp
        cases hc : covered g p.1 with
        | nil => rfl
        | cons i rest =>
          rw [← hc, hagree p hp (by rw [hc]; exact List.cons_ne_nil _ _)]
      · simp [hn]
    · rw [order_cost]
      congr 1
      simp only [paid]
      apply sum_map_congr'
      intro p hp
      cases hc : covered g p.1 with
      | nil => simp [Rat.mul_zero]
      | cons i rest =>
        rw [← hc, hagree p hp (by rw [hc]; exact List.cons_ne_nil _ _)]

/-- the order book satisfies the premises of the composition theorems (`EAO.C09.WF`, `EAO.C09.Local`) -/
theorem orderbook_composable (name node : String) (orders : List Order) (fe : Bool) (g : Grid) (gridI : List Nat)
    (hlen : g.idx.length = g.T) (hsteps : ∀ t ∈ g.idx, t ∈ gridI) :
    C09.WF gridI (orderBookProblem name node orders fe g) ∧ C09.Local (orderBookProblem name node orders fe g) := by
  have hmap : ∀ m ∈ (orderBookProblem name node orders fe g).mapping,
      m.node = some node ∧ m.var < orders.length ∧ m.step ∈ g.idx := by
    intro m hm
    obtain ⟨j, o, i, hj, hi, rfl⟩ := mem_orderMapFrom name node fe g orders 0 m hm
    have hiT := (mem_coverPos g o i hi).1
    have hjl : j < orders.length := by
      rcases Nat.lt_or_ge j orders.length with h | h
      · exact h
      · rw [List.getElem?_eq_none h] at hj; cases hj
    refine ⟨rfl, by simpa [orderRow] using hjl, ?_⟩
    simp only [orderRow]
    rw [List.getD_eq_getElem?_getD, List.getElem?_eq_getElem (by omega)]
    exact List.getElem_mem _
  have hn : (orderBookProblem name node orders fe g).n = orders.length := by simp [orderBookProblem, AssetProblem.n]
  refine ⟨⟨by simp [orderBookProblem, AssetProblem.n], by simp [orderBookProblem, AssetProblem.n], ?_⟩, ⟨?_, ?_⟩⟩
  · intro m hm n _ hnode
    obtain ⟨h1, _, h3⟩ := hmap m hm
    rw [h1] at hnode
    cases hnode
    exact ⟨by simp [orderBookProblem], hsteps _ h3⟩
  · intro r hr; cases hr
  · intro m hm _
    rw [hn]; exact (hmap m hm).2.1

/-- **order_refines_portfolio**: a portfolio containing the order book at any position, whose other assets
    `p.1` are well-formed, local and refine their textbook semantics `p.2`, has — relaxed, i.e. for partial
    execution — (1) every feasible point matched by a textbook-portfolio point with the same flows of every
    asset and no less value, (2) conversely, (3) the SAME upper bounds of its value set as the textbook
    portfolio in which the order book is replaced by the per-order formulation. -/
theorem order_refines_portfolio (name node : String) (orders : List Order) (fe : Bool) (g : Grid)
    (pre suf : List (AssetProblem × Textbook.AssetSem)) (gridI : List Nat) (skip : List String)
    (hlen : g.idx.length = g.T) (hsteps : ∀ t ∈ g.idx, t ∈ gridI)
    (hothers : ∀ p ∈ pre ++ suf, C09.WF gridI p.1 ∧ C09.Local p.1 ∧ Textbook.Refines p.1 p.2) :
    let L := pre ++ (orderBookProblem name node orders fe g, orderBookSem node orders g false) :: suf
    let as := L.map (·.1)
    let sems := L.map (·.2)
    (∀ x, (assemble as gridI skip).FeasibleRelaxed x →
      ∃ V, (assemble as gridI skip).value x ≤ V ∧
        Textbook.portfolioAttain sems skip (fun i n t => C09.flow (as.getD i default) n t (C09.block as i x)) V) ∧
    (∀ fl V, Textbook.portfolioAttain sems skip fl V →
      ∃ x, (assemble as gridI skip).FeasibleRelaxed x ∧ V ≤ (assemble as gridI skip).value x ∧
        ∀ i, i < as.length → ∀ n t, C09.flow (as.getD i default) n t (C09.block as i x) = fl i n t) ∧
    (∀ B, (∀ x, (assemble as gridI skip).FeasibleRelaxed x → (assemble as gridI skip).value x ≤ B) ↔
          (∀ fl V, Textbook.portfolioAttain sems skip fl V → V ≤ B)) := by
  intro L as sems
  have hcomp := orderbook_composable name node orders fe g gridI hlen hsteps
  have hall : ∀ p ∈ L, C09.WF gridI p.1 ∧ C09.Local p.1 ∧ Textbook.Refines p.1 p.2 := by
    intro p hp
    rcases List.mem_append.mp hp with h | h
    · exact hothers p (List.mem_append_left _ h)
    · rcases List.mem_cons.mp h with h | h
      · subst h
        exact ⟨hcomp.1, hcomp.2, (order_refines name node orders fe g).refines⟩
      · exact hothers p (List.mem_append_right _ h)
  have hwf : ∀ a ∈ as, C09.WF gridI a := by
    intro a ha
    obtain ⟨p, hp, rfl⟩ := List.mem_map.mp ha
    exact (hall p hp).1
  have hloc : ∀ a ∈ as, C09.Local a := by
    intro a ha
    obtain ⟨p, hp, rfl⟩ := List.mem_map.mp ha
    exact (hall p hp).2.1
  have hl : sems.length = as.length := by simp [as, sems]
  refine C02.portfolio_refines as sems hl gridI skip hwf hloc ?_
  intro i hi
  have hiL : i < L.length := by simpa [as] using hi
  have h1 : as[i] = (L[i]).1 := by simp [as]
  have h2 : sems[i]'(by omega) = (L[i]).2 := by simp [sems]
  rw [h1, h2]
  exact (hall L[i] (List.getElem_mem _)).2.2

/-! ## full execution at portfolio level: `Problem.Feasible` (boolean flags enforced)

Generic ingredients (in `EAO/Lemmas/OrderBook.lean`, namespace `EAO.Textbook`): `MapInRange a` (every mapping row
points at one of the asset's own variables), `feasible_bool_iff` (the boolean variables of the assembled problem
are those of the assets, shifted by their offsets), `RefinesBool a S` (like `Refines`, for the asset's own
problem WITH its boolean flags), `refinesBool_iff_refines` (the same thing for an asset without boolean
variables), `portfolio_core_bool` (composition). -/

theorem boolVarsOf_eq_bvars (M : List MapRow) : boolVarsOf M = Textbook.bvars M := rfl

/-- **portfolio_refines_bool** — `EAO.C02.portfolio_refines` for `Problem.Feasible`: if every asset problem with
    its boolean flags and its textbook semantics dominate each other (`RefinesBool`), then the assembled MIP and
    the textbook portfolio match point-wise in both directions (same flows of every asset, no less value) and
    have the same upper bounds of their value sets. -/
theorem portfolio_refines_bool (as : List AssetProblem) (sems : List Textbook.AssetSem) (hlen : sems.length = as.length)
    (gridI : List Nat) (skip : List String)
    (hwf : ∀ a ∈ as, C09.WF gridI a) (hloc : ∀ a ∈ as, C09.Local a) (hrange : ∀ a ∈ as, Textbook.MapInRange a)
    (href : ∀ i, (h : i < as.length) → Textbook.RefinesBool (as[i]) (sems[i]'(by omega))) :
    (∀ x, (assemble as gridI skip).Feasible x →
      ∃ V, (assemble as gridI skip).value x ≤ V ∧
        Textbook.portfolioAttain sems skip (fun i n t => C09.flow (as.getD i default) n t (C09.block as i x)) V) ∧
    (∀ fl V, Textbook.portfolioAttain sems skip fl V →
      ∃ x, (assemble as gridI skip).Feasible x ∧ V ≤ (assemble as gridI skip).value x ∧
        ∀ i, i < as.length → ∀ n t, C09.flow (as.getD i default) n t (C09.block as i x) = fl i n t) ∧
    (∀ B, (∀ x, (assemble as gridI skip).Feasible x → (assemble as gridI skip).value x ≤ B) ↔
          (∀ fl V, Textbook.portfolioAttain sems skip fl V → V ≤ B)) := by
  obtain ⟨h1, h2⟩ := Textbook.portfolio_core_bool as sems hlen gridI skip
    (fun a ha => ⟨(hwf a ha).len_l, (hwf a ha).len_u⟩) (fun a ha => (hwf a ha).disp)
    (fun a ha => (hloc a ha).cols) hrange href
  refine ⟨h1, h2, ?_⟩
  intro B
  constructor
  · intro hB fl V hV
    obtain ⟨x, hx, hle, _⟩ := h2 fl V hV
    exact Rat.le_trans hle (hB x hx)
  · intro hB x hx
    obtain ⟨V, hle, hV⟩ := h1 x hx
    exact Rat.le_trans hle (hB _ V hV)

/-- every mapping row of the order book points at one of its variables (no hypothesis on the grid) -/
theorem orderbook_mapInRange (name node : String) (orders : List Order) (fe : Bool) (g : Grid) :
    Textbook.MapInRange (orderBookProblem name node orders fe g) := by
  intro m hm
  obtain ⟨j, o, i, hj, _, rfl⟩ := mem_orderMapFrom name node fe g orders 0 m hm
  have hjl : j < orders.length := by
    rcases Nat.lt_or_ge j orders.length with h | h
    · exact h
    · rw [List.getElem?_eq_none h] at hj; cases hj
  simpa [orderRow, orderBookProblem, AssetProblem.n] using hjl

/-- **order_refinesBool**: the full-execution order book with its boolean flags refines the textbook order book
    with every fraction in `{0,1}` (equal sets of pairs, `order_refines_full`) -/
theorem order_refinesBool (name node : String) (orders : List Order) (g : Grid) :
    Textbook.RefinesBool (orderBookProblem name node orders true g) (orderBookSem node orders g true) :=
  ⟨fun fl c hs => ⟨c, Rat.le_refl, (order_refines_full name node orders g fl c).mp hs⟩,
   fun fl c hs => ⟨c, Rat.le_refl, (order_refines_full name node orders g fl c).mpr hs⟩⟩

/-- **order_refines_portfolio_full**: a portfolio containing a FULL-EXECUTION order book at any position, whose
    other assets `p.1` are well-formed, local, have their mapping in range and refine their textbook semantics
    `p.2` with their own boolean flags (`RefinesBool`; other MIP assets are allowed), has — with the boolean flags
    enforced, `Problem.Feasible` — (1) every feasible point matched by a point of the textbook portfolio in which
    the book is the per-order formulation with every fraction in `{0,1}`, same flows of every asset and no less
    value, (2) conversely, (3) the SAME upper bounds of its value set as that textbook portfolio. -/
theorem order_refines_portfolio_full (name node : String) (orders : List Order) (g : Grid)
    (pre suf : List (AssetProblem × Textbook.AssetSem)) (gridI : List Nat) (skip : List String)
    (hlen : g.idx.length = g.T) (hsteps : ∀ t ∈ g.idx, t ∈ gridI)
    (hothers : ∀ p ∈ pre ++ suf,
      C09.WF gridI p.1 ∧ C09.Local p.1 ∧ Textbook.MapInRange p.1 ∧ Textbook.RefinesBool p.1 p.2) :
    let L := pre ++ (orderBookProblem name node orders true g, orderBookSem node orders g true) :: suf
    let as := L.map (·.1)
    let sems := L.map (·.2)
    (∀ x, (assemble as gridI skip).Feasible x →
      ∃ V, (assemble as gridI skip).value x ≤ V ∧
        Textbook.portfolioAttain sems skip (fun i n t => C09.flow (as.getD i default) n t (C09.block as i x)) V) ∧
    (∀ fl V, Textbook.portfolioAttain sems skip fl V →
      ∃ x, (assemble as gridI skip).Feasible x ∧ V ≤ (assemble as gridI skip).value x ∧
        ∀ i, i < as.length → ∀ n t, C09.flow (as.getD i default) n t (C09.block as i x) = fl i n t) ∧
    (∀ B, (∀ x, (assemble as gridI skip).Feasible x → (assemble as gridI skip).value x ≤ B) ↔
          (∀ fl V, Textbook.portfolioAttain sems skip fl V → V ≤ B)) := by
  intro L as sems
  have hcomp := orderbook_composable name node orders true g gridI hlen hsteps
  have hall : ∀ p ∈ L, C09.WF gridI p.1 ∧ C09.Local p.1 ∧ Textbook.MapInRange p.1 ∧ Textbook.RefinesBool p.1 p.2 := by
    intro p hp
    rcases List.mem_append.mp hp with h | h
    · exact hothers p (List.mem_append_left _ h)
    · rcases List.mem_cons.mp h with h | h
      · subst h
        exact ⟨hcomp.1, hcomp.2, orderbook_mapInRange name node orders true g, order_refinesBool name node orders g⟩
      · exact hothers p (List.mem_append_right _ h)
  have hmem : ∀ a ∈ as, ∃ p ∈ L, a = p.1 := by
    intro a ha
    obtain ⟨p, hp, rfl⟩ := List.mem_map.mp ha
    exact ⟨p, hp, rfl⟩
  have hl : sems.length = as.length := by simp [as, sems]
  refine portfolio_refines_bool as sems hl gridI skip
    (fun a ha => by obtain ⟨p, hp, rfl⟩ := hmem a ha; exact (hall p hp).1)
    (fun a ha => by obtain ⟨p, hp, rfl⟩ := hmem a ha; exact (hall p hp).2.1)
    (fun a ha => by obtain ⟨p, hp, rfl⟩ := hmem a ha; exact (hall p hp).2.2.1) ?_
  intro i hi
  have hiL : i < L.length := by simpa [as] using hi
  have h1 : as[i] = (L[i]).1 := by simp [as]
  have h2 : sems[i]'(by omega) = (L[i]).2 := by simp [sems]
  rw [h1, h2]
  exact (hall L[i] (List.getElem_mem _)).2.2.2

/-- **order_refines_portfolio_full_lp_others**: the special case in which the other assets have no boolean
    variables (all LP assets of C02): their relaxed `Refines` is enough. -/
theorem order_refines_portfolio_full_lp_others (name node : String) (orders : List Order) (g : Grid)
    (pre suf : List (AssetProblem × Textbook.AssetSem)) (gridI : List Nat) (skip : List String)
    (hlen : g.idx.length = g.T) (hsteps : ∀ t ∈ g.idx, t ∈ gridI)
    (hothers : ∀ p ∈ pre ++ suf,
      C09.WF gridI p.1 ∧ C09.Local p.1 ∧ Textbook.MapInRange p.1 ∧ boolVarsOf p.1.mapping = [] ∧
      Textbook.Refines p.1 p.2) :
    let L := pre ++ (orderBookProblem name node orders true g, orderBookSem node orders g true) :: suf
    let as := L.map (·.1)
    let sems := L.map (·.2)
    (∀ x, (assemble as gridI skip).Feasible x →
      ∃ V, (assemble as gridI skip).value x ≤ V ∧
        Textbook.portfolioAttain sems skip (fun i n t => C09.flow (as.getD i default) n t (C09.block as i x)) V) ∧
    (∀ fl V, Textbook.portfolioAttain sems skip fl V →
      ∃ x, (assemble as gridI skip).Feasible x ∧ V ≤ (assemble as gridI skip).value x ∧
        ∀ i, i < as.length → ∀ n t, C09.flow (as.getD i default) n t (C09.block as i x) = fl i n t) ∧
    (∀ B, (∀ x, (assemble as gridI skip).Feasible x → (assemble as gridI skip).value x ≤ B) ↔
          (∀ fl V, Textbook.portfolioAttain sems skip fl V → V ≤ B)) :=
  order_refines_portfolio_full name node orders g pre suf gridI skip hlen hsteps
    (fun p hp => by
      obtain ⟨h1, h2, h3, h4, h5⟩ := hothers p hp
      exact ⟨h1, h2, h3, (Textbook.refinesBool_iff_refines p.1 p.2 h4).mpr h5⟩)

/-- the well-formedness the accounting theorems (C04) ask of an asset problem, restated locally:
    mapping rows carry the asset's name, point at one of its variables and at a step `< T`; a variable
    without any mapping row has zero cost -/
structure WF (T : Nat) (a : AssetProblem) : Prop where
  map : ∀ m ∈ a.mapping, m.asset = a.name ∧ m.var < a.n ∧ m.step < T
  rowless : ∀ j, j < a.n → (∀ m ∈ a.mapping, m.var ≠ j) → a.c.getD j 0 = 0

/-- **orderbook_wf**: shape of the built problem — vector lengths, single node, every mapping row is a
    dispatch row of this asset at its node, for one of its variables, at a step of the grid (below `T`),
    named by the order number; and the `rowless → zero cost` condition holds. -/
theorem orderbook_wf (name node : String) (orders : List Order) (fe : Bool) (g : Grid) (T : Nat)
    (hlen : g.idx.length = g.T) (hT : ∀ t ∈ g.idx, t < T) :
    let P := orderBookProblem name node orders fe g
    P.name = name ∧ P.nodes = [node] ∧ P.c.length = orders.length ∧ P.l.length = orders.length ∧
    P.u.length = orders.length ∧ P.rows = [] ∧
    (∀ m ∈ P.mapping, m.asset = name ∧ m.node = some node ∧ m.kind = .d ∧ m.var < P.n ∧ m.step ∈ g.idx ∧
        m.varName = toString m.var) ∧
    WF T P := by
  have hmap : ∀ m ∈ (orderBookProblem name node orders fe g).mapping,
      m.asset = name ∧ m.node = some node ∧ m.kind = .d ∧ m.var < orders.length ∧ m.step ∈ g.idx ∧
        m.varName = toString m.var := by
    intro m hm
    obtain ⟨j, o, i, hj, hi, rfl⟩ := mem_orderMapFrom name node fe g orders 0 m hm
    have hiT := (mem_coverPos g o i hi).1
    have hjl : j < orders.length := by
      rcases Nat.lt_or_ge j orders.length with h | h
      · exact h
      · rw [List.getElem?_eq_none h] at hj; cases hj
    refine ⟨rfl, rfl, rfl, by simpa [orderRow] using hjl, ?_, rfl⟩
    simp only [orderRow]
    rw [List.getD_eq_getElem?_getD, List.getElem?_eq_getElem (by omega)]
    exact List.getElem_mem _
  have hn : (orderBookProblem name node orders fe g).n = orders.length := by simp [orderBookProblem, AssetProblem.n]
  refine ⟨rfl, rfl, by simp [orderBookProblem], by simp [orderBookProblem], by simp [orderBookProblem], rfl, ?_, ?_, ?_⟩
  · intro m hm
    obtain ⟨h1, h2, h3, h4, h5, h6⟩ := hmap m hm
    exact ⟨h1, h2, h3, by rw [hn]; exact h4, h5, h6⟩
  · intro m hm
    obtain ⟨h1, _, _, h4, h5, _⟩ := hmap m hm
    exact ⟨h1, by rw [hn]; exact h4, hT _ h5⟩
  · intro j hj hno
    rw [hn] at hj
    have hc : coverPos g orders[j] = [] := by
      cases hcp : coverPos g orders[j] with
      | nil => rfl
      | cons i rest =>
        have hmem := orderRow_mem_orderMapFrom name node fe g orders 0 j orders[j] i (by simp [hj]) (by rw [hcp]; exact List.mem_cons_self)
        exact absurd (by simp [orderRow]) (hno _ hmem)
    simp [orderBookProblem, List.getD_eq_getElem?_getD, hj, orderCost_of_cover_nil g _ hc]

/-! ### non-vacuity

Grid of three hourly steps (indices 0,1,2; the last one discounted by 1/2).  Order 0 buys 2 over steps
0–1 at price 5, order 1 sells 3/2 over steps 1–2 at price 4, order 2 lies before the horizon. -/
def exGrid : Grid := { pts := [0, 3600, 7200], idx := [0, 1, 2], dt := [1, 1, 1], Dt := [1, 2, 3], df := [1, 1, 1/2] }
def exOrders : List Order :=
  [{ start := 0, stop := 7200, capa := 2, price := 5 }, { start := 3600, stop := 10000, capa := -3/2, price := 4 },
   { start := -5, stop := 0, capa := 1, price := 1 }]
def exX : Vec := fun k => if k = 0 then 1/2 else if k = 1 then 1 else 7

example : (orderBookProblem "ob" "n" exOrders true exGrid).c = [20, -9, 0] := by decide +kernel
example : boolVarsOf (orderBookProblem "ob" "n" exOrders true exGrid).mapping = [0, 1] := by decide +kernel
example : boolVarsOf (orderBookProblem "ob" "n" exOrders false exGrid).mapping = [] := by decide +kernel
example : exGrid.idx.length = exGrid.T ∧ exGrid.idx.Nodup ∧ ∀ t ∈ exGrid.idx, t < 3 := by decide
-- step 1 is covered by both orders: 1/2·2·1 + 1·(-3/2)·1 = -1/2
example : dispatchOut (orderBookProblem "ob" "n" exOrders true exGrid).mapping "ob" "n" 1 exX = -1/2 := by decide +kernel
-- cash: -(1/2·20 + 1·(-9)) = -1; the order outside the horizon (fraction 7) does not count
example : dcfTotal (orderBookProblem "ob" "n" exOrders true exGrid).c
    (orderBookProblem "ob" "n" exOrders true exGrid).mapping "ob" 3 exX = -1 := by decide +kernel
example : ∀ i, i < exGrid.T → ¬ ((-5 : Int) ≤ exGrid.pts.getD i 0 ∧ exGrid.pts.getD i 0 < 0) := by decide
example : (orderRows (orderBookProblem "ob" "n" exOrders true exGrid).c
    (orderBookProblem "ob" "n" exOrders true exGrid).mapping "ob" exX).map (·.name) = ["0", "1"] := by decide +kernel

-- the textbook order book on the same data: delivery at step 1, payment, an attainable pair under full execution
def exFr : Vec := fun k => if k = 0 then 1 else 0
example : delivered exGrid exOrders exX 1 = -1/2 := by decide +kernel
example : paid exGrid exOrders exX = 1 := by decide +kernel
example : (orderBookSem "n" exOrders exGrid true).Attain
    (fun n t => if n = "n" then delivered exGrid exOrders exFr t else 0) (- paid exGrid exOrders exFr) :=
  ⟨exFr, by decide +kernel, fun _ => by decide +kernel, fun _ _ => rfl, rfl⟩
-- the premises of `order_refines_portfolio` are satisfiable (here: the book alone on the grid 0,1,2)
example := order_refines_portfolio "ob" "n" exOrders false exGrid [] [] [0, 1, 2] [] (by decide) (by decide)
  (by intro p hp; cases hp)

end EAO.C20

/-! ### non-vacuity of the full-execution portfolio theorems

Market contract (sells up to 3 at price 3) and a full-execution book with two buy orders (2 units at 1, 2 units at
2) on one step.  All-or-nothing optimum 4 (order 0 only), relaxed optimum at least 5 (order 0 and half of order 1). -/
namespace EAO.C20.ExFull
open EAO EAO.OrderBook EAO.C20

/-- one hourly step -/
def g1 : Grid := { pts := [0], idx := [0], dt := [1], Dt := [1], df := [1] }
/-- market at node "n": sells up to 3 at price 3 (one variable in `[-3, 0]`, cost 3) -/
def market : AssetProblem :=
  { name := "market", nodes := ["n"], c := [3], l := [-3], u := [0], rows := [],
    mapping := [{ var := 0, asset := "market", node := some "n", kind := .d, step := 0, factor := 1,
                  isBool := false, varName := "disp" }] }
/-- two buy orders over the step: 2 units at price 1, 2 units at price 2 -/
def ords : List Order := [{ start := 0, stop := 3600, capa := 2, price := 1 }, { start := 0, stop := 3600, capa := 2, price := 2 }]
def book : AssetProblem := orderBookProblem "ob" "n" ords true g1
def P : Problem := assemble [market, book] [0] []
def vec (xs : List Rat) : Vec := fun j => xs.getD j 0

theorem refines_self (a : AssetProblem) : Textbook.Refines a (Textbook.attainEAO a) :=
  ⟨fun _ c h => ⟨c, Rat.le_refl, h⟩, fun _ c h => ⟨c, Rat.le_refl, h⟩⟩

theorem market_ok : C09.WF [0] market ∧ C09.Local market ∧ Textbook.MapInRange market ∧
    boolVarsOf market.mapping = [] ∧ Textbook.Refines market (Textbook.attainEAO market) := by
  refine ⟨⟨rfl, rfl, ?_⟩, ⟨?_, ?_⟩, ?_, by decide, refines_self market⟩
  · intro m hm n _ hn
    simp [market] at hm
    subst hm
    simp at hn
    subst hn
    simp [market]
  · intro r hr; cases hr
  · intro m hm _
    simp [market] at hm
    subst hm
    decide
  · intro m hm
    simp [market] at hm
    subst hm
    decide

theorem others_ok : ∀ p ∈ [(market, Textbook.attainEAO market)] ++ ([] : List (AssetProblem × Textbook.AssetSem)),
    C09.WF [0] p.1 ∧ C09.Local p.1 ∧ Textbook.MapInRange p.1 ∧ boolVarsOf p.1.mapping = [] ∧
      Textbook.Refines p.1 p.2 := by
  intro p hp
  simp at hp
  subst hp
  exact market_ok

/-- the hypotheses of `order_refines_portfolio_full_lp_others` are met -/
example := order_refines_portfolio_full_lp_others "ob" "n" ords g1 [(market, Textbook.attainEAO market)] [] [0] []
  (by decide) (by decide) others_ok

-- all-or-nothing: execute order 0, sell 2 — value 4, feasible with the boolean flags
example : P.Feasible (vec [-2, 1, 0]) ∧ P.value (vec [-2, 1, 0]) = 4 := by decide +kernel
-- relaxed: execute order 0 and half of order 1, sell 3 — value 5, feasible only without the flags
example : P.FeasibleRelaxed (vec [-3, 1, 1/2]) ∧ ¬ P.Feasible (vec [-3, 1, 1/2]) ∧ P.value (vec [-3, 1, 1/2]) = 5 := by
  decide +kernel
example : P.boolVars = [1, 2] := by decide +kernel

theorem cov0 : ∀ o ∈ ords, covered g1 o = [0] := by decide

theorem delivered_eq (fr : Nat → Rat) : delivered g1 ords fr 0 = 2 * fr 0 + 2 * fr 1 := by
  have h0 : covered g1 { start := 0, stop := 3600, capa := 2, price := 1 } = [0] := by decide
  have h1 : covered g1 { start := 0, stop := 3600, capa := 2, price := 2 } = [0] := by decide
  simp only [delivered, ords, List.zipIdx_cons, List.zipIdx_nil, List.map_cons, List.map_nil, h0, h1]
  simp [Textbook.stepOf, Textbook.dtOf, g1]
  grind

theorem paid_eq (fr : Nat → Rat) : paid g1 ords fr = 2 * fr 0 + 4 * fr 1 := by
  have h0 : covered g1 { start := 0, stop := 3600, capa := 2, price := 1 } = [0] := by decide
  have h1 : covered g1 { start := 0, stop := 3600, capa := 2, price := 2 } = [0] := by decide
  simp only [paid, ords, List.zipIdx_cons, List.zipIdx_nil, List.map_cons, List.map_nil, h0, h1]
  simp [Textbook.dfOf, Textbook.dtOf, g1]
  grind

/-- the all-or-nothing optimum is 4 (attained above), obtained on the TEXTBOOK side through statement (3) of
    `order_refines_portfolio_full_lp_others`; the relaxed problem reaches 5 -/
theorem full_optimum : ∀ x, P.Feasible x → P.value x ≤ 4 := by
  have inst := order_refines_portfolio_full_lp_others "ob" "n" ords g1 [(market, Textbook.attainEAO market)] [] [0] []
    (by decide) (by decide) others_ok
  apply (inst.2.2 4).mpr
  rintro fl V ⟨c, hat, hbal, rfl⟩
  obtain ⟨y, hy, hfl0, hc0⟩ := hat 0 (by decide)
  obtain ⟨fr, hb, hfull, hfl1, hc1⟩ := hat 1 (by decide)
  have hbal0 := hbal "n" (by decide) 0
  have hy0 := hy.1 0 (by decide)
  have e0 : fl 0 "n" 0 = y 0 := by
    rw [hfl0]
    simp [Perm.flowOf, market, isDisp, MapRow.contrib]
    grind
  have e1 : fl 1 "n" 0 = 2 * fr 0 + 2 * fr 1 := by
    rw [hfl1]; simp [delivered_eq]
  have ec0 : c 0 = - (3 * y 0) := by
    rw [hc0]; simp [market, costAt]; grind
  have ec1 : c 1 = - (2 * fr 0 + 4 * fr 1) := by
    rw [hc1, paid_eq]
  have hsum : Textbook.sumN (fun i => fl i "n" 0) 2 = fl 0 "n" 0 + fl 1 "n" 0 := by
    simp [Textbook.sumN, List.range_succ]; grind
  have hV : Textbook.sumN c 2 = c 0 + c 1 := by
    simp [Textbook.sumN, List.range_succ]; grind
  have hl : ([Textbook.attainEAO market, orderBookSem "n" ords g1 true] : List Textbook.AssetSem).length = 2 := rfl
  simp only [List.map_cons, List.map_nil, List.cons_append, List.nil_append, List.length_cons, List.length_nil] at hbal0 ⊢
  rw [hsum, e0, e1] at hbal0
  rw [hV, ec0, ec1]
  have hy1 : -3 ≤ y 0 := by simpa [market] using hy0.1
  have f0 := hfull rfl 0 (by decide)
  have f1 := hfull rfl 1 (by decide)
  rcases f0 with f0 | f0 <;> rcases f1 with f1 | f1 <;> rw [f0, f1] at hbal0 ⊢ <;> grind

end EAO.C20.ExFull
