import EAO.Model.BlockSplit
import EAO.Lemmas.BlockSplit
import EAO.Properties.C14
/-!
# C14 for storages optimised in time blocks (`block_size`) — the split set-up

`EAO.C14S` leaves `block_size` out.  The real code recomputes the block starts on the grid the storage is set up on
(`EAO.Model.BlockSplit`: `blocksOn` = `blockStartsTick` on the restricted grid of the INTERVAL, anchored at the asset's
own `start` if given, else at the interval's start; a block date at or after the last point of the grid makes the last
step a block of its own).  This file:

* `block_rows_restart` — with start level = end level the level rows of the block `[a, e)` ARE the rows of a storage
  that starts with `start_level` at position `a` and pins `end_level` at position `e - 1` (`restartUpper`,
  `restartLower` of `EAO.C14S`): a block boundary acts exactly like a split cut.
* `single_block_is_unblocked` — block starts `[0]` (no block date inside the grid): the set-up is the one without
  `block_size`.
* `blocks_aligned_split_equals_unsplit_partial` — for the literal split set-up with recomputed blocks (`setupSplitK`)
  and the unsplit problem (`setupPortfolioK`): when the witness of `EAO.C14` holds along the explicit matching,
  feasible sets and values correspond both ways and the value sets have the same upper bounds: split = unsplit.
* `blocked_storage_interval_is_restriction` — ONE storage in LP form apart from time blocks, no storage costs, start
  level = end level: if every unsplit block lies inside the interval's piece `[sa, sa+m)` of the storage's grid or is
  disjoint from it, and the blocks found on the interval grid are the unsplit blocks of that piece (shifted), the
  storage the split set-up builds in the interval IS the restriction (`restrictTo`) of the unsplit storage WITH blocks.
* `blocks_pairs_aligned_split_equals_unsplit` — portfolios of the five builders and storages in time blocks: under
  `splitHypsS` of the portfolio without blocks, `lpKAll`, the reference grid inside `[gs, ge)` and the PAIR-LEVEL
  alignment `pairsAligned` (decidable: the block pairs of every interval are the unsplit block pairs of the interval's
  piece) the split set-up succeeds, the witness of `EAO.C14` is TRUE for the explicit matching, and split = unsplit
  (feasible sets, values, upper bounds) — no certificate.
* `blocks_aligned_split_equals_unsplit` — **the former TARGET, proved**: the same with the SET-level condition
  `blocksAligned` (block boundaries of the unsplit problem = cuts and block boundaries of the interval problems, as
  sets), which `harness/comp/blocksplit.py` evaluates on every generated case (oracle `aligned_witness`).  The bridge
  `blocksAligned ⇒ pairsAligned` (`EAO.BlockSplit.pairsAligned_of_blocksAligned`) needs that `blockStartsTick` returns
  a strictly increasing list `< T` starting with 0 on every interval grid (`blockStartsTick_ok`) and that two strictly
  increasing boundary lists with the same elements have the same consecutive pairs (`aligned_core`).
* machine-checked instances: an ALIGNED one (blocks of 90 minutes on an hourly grid, own start: `blocksAligned` and
  the witness are true), F-14k (blocks of 3 h, intervals of 4 h: misaligned, a split-feasible point violates the
  unsplit problem) and F-14f (blocks = intervals of 4 h: the last step of every interval is a block of its own, an
  unsplit-feasible point is not split-feasible).
  Plus: the counterexample without `hpts`, and the hypotheses of the new theorems on the aligned instance.

REPAIR of the statement as first written: the hypothesis `hpts` (the reference grid lies inside `[gs, ge)`, i.e. `gs`,
`ge` really are `timegrid.start`, `timegrid.end`) is added.  The window of an interval storage is `start or interval
start .. stop or interval end`; it selects the steps of the unsplit window `start or gs .. stop or ge` only then.
Without it the statement FAILS: machine-checked counterexample in the example section (`gs`, `ge` = 00:00, 04:00 on the
eight-hour grid: `splitHypsS`, `lpKAll`, `blocksAligned` true, witness false).
-/
namespace EAO.C14K
open EAO EAO.SplitStorage EAO.SplitBuild EAO.BlockSplit EAO.Split

/-- **A block boundary acts like a split cut.**  Start level = end level, no maximum holding duration: the "full" and
    "empty" level rows of step `a + j` of the block `[a, e)` are literally the level rows of a storage restarted at
    position `a` with `e - a` steps (what an interval of a split optimisation sets up, `EAO.C14S.storage_interval_rows`). -/
theorem block_rows_restart (p : StorageP) (g : Grid) (a e j : Nat) (hd : p.maxStoreDuration = none)
    (hse : p.startLevel = p.endLevel) (hae : a ≤ e) :
    Storage.upperRow p g g.T a e (a + j) = Storage.restartUpper p g a (e - a) j ∧
    Storage.lowerRow p g g.T a e (a + j) = Storage.restartLower p g a (e - a) j :=
  ⟨upperRow_eq_restart p g a e j hd hse hae, lowerRow_eq_restart p g a e j hse hae⟩

/-- **One block = no blocks.**  When the code finds the block starts `[0]` on a grid with at least one step (or the
    grid has no step at all), the storage problem is the one set up without `block_size`. -/
theorem single_block_is_unblocked (p : StorageP) (g : Grid) (T : Nat) (prices : Prices)
    (h : g.dt.length = 0 ∨ 0 < g.T) :
    buildStorage { p with blocks := some [0] } g T prices = buildStorage { p with blocks := none } g T prices :=
  single_block p g T prices h

/-- **Split = unsplit under the witness, for the set-up that recomputes the blocks.**  `U` the unsplit problem of a
    portfolio with storages in time blocks, `ps` the interval problems of the split set-up (block starts recomputed on
    every interval grid): if the witness of `EAO.C14` holds along the explicit matching `splitPerm U Is`, then a point of
    the block sum is feasible iff its transport is feasible for `U` (with and without integrality), values agree, and
    the split and unsplit value sets have the same upper bounds.  (`blocksAligned ⇒ witness` is the TARGET above.) -/
theorem blocks_aligned_split_equals_unsplit_partial (specs : List SpecK) (ref : Grid) (gs ge : Int) (cuts : List Int)
    (prices : Prices) (unitSec : Nat) (skip : List String) (U : Problem) (ps : List Problem)
    (_hU : setupPortfolioK specs ref gs ge prices unitSec skip = .ok U)
    (_hS : setupSplitK specs ref cuts prices unitSec skip = .ok ps)
    (hW : splitWitness U ps (splitPerm U ((splitPairs cuts).map (intervalSteps ref))) = true) :
    let perm := splitPerm U ((splitPairs cuts).map (intervalSteps ref))
    (∀ x, ((blockSum ps).Feasible x ↔ U.Feasible (transportAlong perm x)) ∧
          ((blockSum ps).FeasibleRelaxed x ↔ U.FeasibleRelaxed (transportAlong perm x)) ∧
          (blockSum ps).value x = U.value (transportAlong perm x)) ∧
    (∀ y, (U.FeasibleRelaxed y ↔ (blockSum ps).FeasibleRelaxed (pullbackAlong perm y)) ∧
          U.value y = (blockSum ps).value (pullbackAlong perm y)) ∧
    (∀ B, (∀ y, U.Feasible y → U.value y ≤ B) ↔ (∀ x, (blockSum ps).Feasible x → (blockSum ps).value x ≤ B)) ∧
    (∀ B, (∀ y, U.FeasibleRelaxed y → U.value y ≤ B) ↔
      (∀ x, (blockSum ps).FeasibleRelaxed x → (blockSum ps).value x ≤ B)) := by
  intro perm
  refine ⟨fun x => C14.split_witness_feasible U ps perm hW x, fun y => ?_,
    fun B => C14.split_upper_bounds U ps perm hW B, fun B => C14.split_upper_bounds_relaxed U ps perm hW B⟩
  obtain ⟨_, h2, h3⟩ := C14.split_witness_pullback U ps perm hW y
  exact ⟨h2, h3⟩

/-- **The interval storage with time blocks is the restriction of the unsplit storage with time blocks.**  `p` in LP
    form apart from `blocks`, no storage costs, start level = end level; `bl` the blocks of the unsplit storage on its
    grid `g` (block starts `aa`), `[sa, sa+m)` the positions of `g` at the interval's steps `I`.  If every block lies
    inside that piece or is disjoint from it, and the block starts `aaI` found on the interval grid give exactly the
    blocks of the piece (written with the positions of the picked grid), then what the split set-up builds in the
    interval is `A.restrictTo I`: same variables, costs, bounds, mapping, and the level rows of the blocks of the piece. -/
theorem blocked_storage_interval_is_restriction (p : StorageP) (aa aaI : Option (List Nat)) (g : Grid) (T : Nat)
    (prices : Prices) (A : AssetProblem) (bl : List (Nat × Nat)) (I : List Nat) (sa m : Nat)
    (hg : g.Ok) (hlp : ({ p with blocks := none } : StorageP).lp = true) (hcs : p.costStore = 0)
    (hse : p.startLevel = p.endLevel) (hP : g.posIn I = List.range' sa m) (hT : 0 < g.T)
    (hbl : Storage.blocksOf { p with blocks := aa } g.T = .ok bl)
    (hal : ∀ ae ∈ bl, inside sa m ae = true ∨ ae.2 ≤ sa ∨ sa + m ≤ ae.1)
    (haaI : m ≠ 0 → Storage.blocksOf { p with blocks := aaI } m = .ok ((bl.filter (inside sa m)).map (unshift sa)))
    (hA : buildStorage { p with blocks := aa } g T prices = .ok A) :
    buildStorage { p with blocks := aaI } (g.pick I) I.length (pickPrices I prices) = .ok (A.restrictTo I) :=
  blk_interval_build { p with blocks := none } aa aaI g T prices A bl I sa m hg hlp hcs hse hP hT hbl hal haaI hA

/-- **Split = unsplit for storages in time blocks, without a certificate** (pair-level alignment).  Portfolio of the
    five builders and storages with `block_size`; `splitHypsS` for the portfolio WITHOUT blocks, every storage `lpK`,
    the reference grid inside `[gs, ge)`, `pairsAligned` (for every storage and interval: each unsplit block inside
    the interval's piece or disjoint from it, the blocks recomputed on the interval grid = the unsplit blocks of the
    piece).  Then the split set-up succeeds, the witness of `EAO.C14` holds against the UNSPLIT problem along the explicit
    matching, and hence feasible sets, values and upper bounds of split and unsplit agree. -/
theorem blocks_pairs_aligned_split_equals_unsplit (specs : List SpecK) (ref : Grid) (gs ge : Int) (cuts : List Int)
    (prices : Prices) (unitSec : Nat) (skip : List String) (U : Problem)
    (hH : splitHypsS (specs.map fun a => a.unblocked gs ge) ref cuts prices = true)
    (hK : lpKAll specs = true) (hpts : ∀ t ∈ ref.pts, gs ≤ t ∧ t < ge)
    (hal : pairsAligned specs ref gs ge cuts = true)
    (hU : setupPortfolioK specs ref gs ge prices unitSec skip = .ok U) (hpos : 0 < U.n) :
    ∃ ps, setupSplitK specs ref cuts prices unitSec skip = .ok ps ∧
      splitWitness U ps (splitPerm U ((splitPairs cuts).map (intervalSteps ref))) = true ∧
      (∀ x, ((blockSum ps).Feasible x ↔
              U.Feasible (transportAlong (splitPerm U ((splitPairs cuts).map (intervalSteps ref))) x)) ∧
            ((blockSum ps).FeasibleRelaxed x ↔
              U.FeasibleRelaxed (transportAlong (splitPerm U ((splitPairs cuts).map (intervalSteps ref))) x)) ∧
            (blockSum ps).value x =
              U.value (transportAlong (splitPerm U ((splitPairs cuts).map (intervalSteps ref))) x)) ∧
      (∀ B, (∀ y, U.Feasible y → U.value y ≤ B) ↔ (∀ x, (blockSum ps).Feasible x → (blockSum ps).value x ≤ B)) ∧
      (∀ B, (∀ y, U.FeasibleRelaxed y → U.value y ≤ B) ↔
        (∀ x, (blockSum ps).FeasibleRelaxed x → (blockSum ps).value x ≤ B)) := by
  obtain ⟨ps, hS, hW⟩ := blocks_split_witness specs ref gs ge cuts prices unitSec skip U hH hK hpts hal hU hpos
  obtain ⟨h1, _, h3, h4⟩ := blocks_aligned_split_equals_unsplit_partial specs ref gs ge cuts prices unitSec skip U ps hU hS hW
  exact ⟨ps, hS, hW, h1, h3, h4⟩

/-- **Split = unsplit for storages in time blocks whose boundaries are aligned with the cuts** (the TARGET of this
    file).  Portfolio of the five builders and storages with `block_size`; `splitHypsS` for the portfolio WITHOUT blocks,
    every storage `lpK` (no boolean options, `cost_store = 0`, start level = end level in `[0, size]`), the reference grid
    inside `[gs, ge)`, and `blocksAligned`: for every storage the block boundaries of the unsplit problem are, as a set,
    the cuts and the block boundaries the code recomputes on the interval grids.  Then the split set-up succeeds, the
    witness of `EAO.C14` holds against the UNSPLIT problem along the explicit matching, and feasible sets, values and
    upper bounds of split and unsplit agree. -/
theorem blocks_aligned_split_equals_unsplit (specs : List SpecK) (ref : Grid) (gs ge : Int) (cuts : List Int)
    (prices : Prices) (unitSec : Nat) (skip : List String) (U : Problem)
    (hH : splitHypsS (specs.map fun a => a.unblocked gs ge) ref cuts prices = true)
    (hK : lpKAll specs = true) (hpts : ∀ t ∈ ref.pts, gs ≤ t ∧ t < ge)
    (hal : blocksAligned specs ref gs ge cuts = true)
    (hU : setupPortfolioK specs ref gs ge prices unitSec skip = .ok U) (hpos : 0 < U.n) :
    ∃ ps, setupSplitK specs ref cuts prices unitSec skip = .ok ps ∧
      splitWitness U ps (splitPerm U ((splitPairs cuts).map (intervalSteps ref))) = true ∧
      (∀ x, ((blockSum ps).Feasible x ↔
              U.Feasible (transportAlong (splitPerm U ((splitPairs cuts).map (intervalSteps ref))) x)) ∧
            ((blockSum ps).FeasibleRelaxed x ↔
              U.FeasibleRelaxed (transportAlong (splitPerm U ((splitPairs cuts).map (intervalSteps ref))) x)) ∧
            (blockSum ps).value x =
              U.value (transportAlong (splitPerm U ((splitPairs cuts).map (intervalSteps ref))) x)) ∧
      (∀ B, (∀ y, U.Feasible y → U.value y ≤ B) ↔ (∀ x, (blockSum ps).Feasible x → (blockSum ps).value x ≤ B)) ∧
      (∀ B, (∀ y, U.FeasibleRelaxed y → U.value y ≤ B) ↔
        (∀ x, (blockSum ps).FeasibleRelaxed x → (blockSum ps).value x ≤ B)) :=
  blocks_pairs_aligned_split_equals_unsplit specs ref gs ge cuts prices unitSec skip U hH hK hpts
    (pairsAligned_of_blocksAligned specs ref gs ge cuts prices hH hpts hal) hU hpos

/-! ## instances: a market and a storage in time blocks, eight hourly steps, two intervals of four hours

Node `n`: a market `m` (prices 1,1,1,1,1,1,9,1, capacities −2 … 2) and a storage `s` (size 10, charge / discharge 1 per
hour, start level = end level = 0, no costs).  Unsplit variable order `m0..m7, s0..s7`; the interval problems have the
variables `m0..m3, s0..s3 | m4..m7, s4..s7`. -/
section Example
private def g8 : Grid :=
  { pts := [0, 3600, 7200, 10800, 14400, 18000, 21600, 25200], idx := [0, 1, 2, 3, 4, 5, 6, 7],
    dt := [1, 1, 1, 1, 1, 1, 1, 1], Dt := [1, 2, 3, 4, 5, 6, 7, 8], df := [1, 1, 1, 1, 1, 1, 1, 1] }
private def exCuts : List Int := [0, 14400, 28800]
private def exPrices : Prices := [("p", [1, 1, 1, 1, 1, 1, 9, 1])]
private def ones8 : List Rat := [1, 1, 1, 1, 1, 1, 1, 1]
private def exMarket : ContractP :=
  { name := "m", nodes := ["n"], price := some "p", extraCosts := .scalar 0, minCap := .scalar (-2),
    maxCap := .scalar 2, minTake := [], maxTake := [] }
private def exStore : StorageP :=
  { name := "s", nodes := ["n"], size := 10, capIn := 1, capOut := 1, startLevel := 0, endLevel := 0, costIn := 0,
    costOut := 0, costStore := 0, effIn := 1, inflow := 0, price := none, noSimult := false,
    maxStoreDuration := none, blocks := none }
/-- block size `bs` seconds, own start `st` -/
private def exSpecs (bs : Nat) (st : Option Int) : List SpecK :=
  [.builder { spec := .simple exMarket, start := -1000000, stop := 1000000, df := ones8 },
   .storage exStore (some bs) st none ones8]
private def exIs : List (List Nat) := (splitPairs exCuts).map (intervalSteps g8)
private def unsplitOf (specs : List SpecK) : Problem :=
  match setupPortfolioK specs g8 0 28800 exPrices 3600 [] with | .ok U => U | .error _ => default
private def splitOf (specs : List SpecK) : List Problem :=
  match setupSplitK specs g8 exCuts exPrices 3600 [] with | .ok ps => ps | .error _ => []
private def exPerm : List Nat := [0, 1, 2, 3, 8, 9, 10, 11, 4, 5, 6, 7, 12, 13, 14, 15]

/-- **aligned**: blocks of 90 minutes anchored at the storage's own start 00:00.  Unsplit boundaries 0,1,3,4,6,7,8; the
    first interval (grid end 04:00) 0,1,3,4, the second (anchored at 00:00 as well) 4,6,7,8: `blocksAligned`, the storage
    is `lpK`, the portfolio without blocks satisfies `splitHypsS`, and the witness holds -/
example : blocksAligned (exSpecs 5400 (some 0)) g8 0 28800 exCuts = true ∧ exStore.lpK = true ∧
    splitHypsS ((exSpecs 5400 (some 0)).map fun a => a.unblocked 0 28800) g8 exCuts exPrices = true ∧
    unsplitBoundaries g8 0 28800 (some 5400) (some 0) none ones8 = [0, 1, 3, 4, 6, 7, 8] ∧
    splitBoundaries g8 0 28800 exCuts (some 5400) (some 0) none ones8 = [0, 1, 3, 4, 4, 6, 7, 8] ∧
    splitPerm (unsplitOf (exSpecs 5400 (some 0))) exIs = exPerm ∧
    splitWitness (unsplitOf (exSpecs 5400 (some 0))) (splitOf (exSpecs 5400 (some 0))) exPerm = true := by
  decide +kernel

private theorem exU_ok : setupPortfolioK (exSpecs 5400 (some 0)) g8 0 28800 exPrices 3600 [] =
    .ok (unsplitOf (exSpecs 5400 (some 0))) := by
  unfold unsplitOf
  cases hh : setupPortfolioK (exSpecs 5400 (some 0)) g8 0 28800 exPrices 3600 [] with
  | ok U => rfl
  | error e =>
    have h : (match setupPortfolioK (exSpecs 5400 (some 0)) g8 0 28800 exPrices 3600 [] with
      | .ok _ => true | .error _ => false) = true := by decide +kernel
    rw [hh] at h; cases h

private theorem exS_ok : setupSplitK (exSpecs 5400 (some 0)) g8 exCuts exPrices 3600 [] =
    .ok (splitOf (exSpecs 5400 (some 0))) := by
  unfold splitOf
  cases hh : setupSplitK (exSpecs 5400 (some 0)) g8 exCuts exPrices 3600 [] with
  | ok U => rfl
  | error e =>
    have h : (match setupSplitK (exSpecs 5400 (some 0)) g8 exCuts exPrices 3600 [] with
      | .ok _ => true | .error _ => false) = true := by decide +kernel
    rw [hh] at h; cases h

/-- the theorem at work on the aligned instance: split and unsplit have the same upper bounds of the values -/
example : ∀ B, (∀ y, (unsplitOf (exSpecs 5400 (some 0))).FeasibleRelaxed y → (unsplitOf (exSpecs 5400 (some 0))).value y ≤ B) ↔
    (∀ x, (blockSum (splitOf (exSpecs 5400 (some 0)))).FeasibleRelaxed x →
      (blockSum (splitOf (exSpecs 5400 (some 0)))).value x ≤ B) :=
  (blocks_aligned_split_equals_unsplit_partial (exSpecs 5400 (some 0)) g8 0 28800 exCuts exPrices 3600 []
    (unsplitOf (exSpecs 5400 (some 0))) (splitOf (exSpecs 5400 (some 0))) exU_ok exS_ok (by decide +kernel)).2.2.2

/-- **F-14k (misaligned)**: blocks of 3 h, no own start.  Unsplit boundaries 0,3,6,8; the second interval anchors its
    blocks at 04:00: boundaries 4,7,8.  Not aligned, the witness is false; the storage charges in hour 5 and discharges in
    hour 6 (price 9): feasible for the interval problems, but the unsplit row that pins the level at the end of the block
    `[3, 6)` is violated -/
example : blocksAligned (exSpecs 10800 none) g8 0 28800 exCuts = false ∧
    unsplitBoundaries g8 0 28800 (some 10800) none none ones8 = [0, 3, 6, 8] ∧
    splitBoundaries g8 0 28800 exCuts (some 10800) none none ones8 = [0, 3, 4, 4, 7, 8] ∧
    splitWitness (unsplitOf (exSpecs 10800 none)) (splitOf (exSpecs 10800 none)) exPerm = false ∧
    (blockSum (splitOf (exSpecs 10800 none))).FeasibleRelaxed
      (C14.vecOfList [0, 0, 0, 0, 0, 0, 0, 0, 0, 1, -1, 0, 0, -1, 1, 0]) ∧
    (blockSum (splitOf (exSpecs 10800 none))).value
      (C14.vecOfList [0, 0, 0, 0, 0, 0, 0, 0, 0, 1, -1, 0, 0, -1, 1, 0]) = 8 ∧
    ¬ (unsplitOf (exSpecs 10800 none)).FeasibleRelaxed
      (transportAlong exPerm (C14.vecOfList [0, 0, 0, 0, 0, 0, 0, 0, 0, 1, -1, 0, 0, -1, 1, 0])) := by
  decide +kernel

/-- **F-14f (blocks = intervals)**: blocks of 4 h, intervals of 4 h.  The block date 04:00 = end of the first interval
    grid is mapped to its last step: interval boundaries 0,3,4 | 4,7,8, unsplit 0,4,7,8 (the effect occurs once, at the
    end of the horizon).  Not aligned, the witness is false; charging in hour 2 and discharging in hour 3 is feasible for
    the unsplit problem but not for the interval problems (hour 3 is a block of its own) -/
example : blocksAligned (exSpecs 14400 none) g8 0 28800 exCuts = false ∧
    unsplitBoundaries g8 0 28800 (some 14400) none none ones8 = [0, 4, 7, 8] ∧
    splitBoundaries g8 0 28800 exCuts (some 14400) none none ones8 = [0, 3, 4, 4, 7, 8] ∧
    splitWitness (unsplitOf (exSpecs 14400 none)) (splitOf (exSpecs 14400 none)) exPerm = false ∧
    (unsplitOf (exSpecs 14400 none)).FeasibleRelaxed
      (C14.vecOfList [0, 0, 1, -1, 0, 0, 0, 0, 0, 0, -1, 1, 0, 0, 0, 0]) ∧
    ¬ (blockSum (splitOf (exSpecs 14400 none))).FeasibleRelaxed
      (pullbackAlong exPerm (C14.vecOfList [0, 0, 1, -1, 0, 0, 0, 0, 0, 0, -1, 1, 0, 0, 0, 0])) := by
  decide +kernel

/-- the hypotheses of `blocks_aligned_split_equals_unsplit` / `blocks_pairs_aligned_split_equals_unsplit` on the
    aligned instance (`blocksAligned`, `splitHypsS` are in the first example); F-14k and F-14f are not pair-aligned either -/
example : pairsAligned (exSpecs 5400 (some 0)) g8 0 28800 exCuts = true ∧ lpKAll (exSpecs 5400 (some 0)) = true ∧
    (∀ t ∈ g8.pts, (0 : Int) ≤ t ∧ t < 28800) ∧
    pairsAligned (exSpecs 10800 none) g8 0 28800 exCuts = false ∧
    pairsAligned (exSpecs 14400 none) g8 0 28800 exCuts = false := by decide +kernel

/-- the theorem at work: the split set-up of the aligned instance succeeds with the witness, no evaluation of the witness -/
example : ∃ ps, setupSplitK (exSpecs 5400 (some 0)) g8 exCuts exPrices 3600 [] = .ok ps ∧
    splitWitness (unsplitOf (exSpecs 5400 (some 0))) ps
      (splitPerm (unsplitOf (exSpecs 5400 (some 0))) ((splitPairs exCuts).map (intervalSteps g8))) = true := by
  obtain ⟨ps, h1, h2, _⟩ := blocks_aligned_split_equals_unsplit (exSpecs 5400 (some 0)) g8 0 28800 exCuts exPrices
    3600 [] (unsplitOf (exSpecs 5400 (some 0))) (by decide +kernel) (by decide +kernel) (by decide +kernel)
    (by decide +kernel) exU_ok (by decide +kernel)
  exact ⟨ps, h1, h2⟩

/-- `blocked_storage_interval_is_restriction` on the second interval of the aligned instance: unsplit blocks
    `[0,1) [1,3) [3,4) [4,6) [6,7) [7,8)`, piece `[4, 8)`: the blocks `[0,2) [2,3) [3,4)` of the interval grid -/
example : Storage.blocksOf { exStore with blocks := some [0, 1, 3, 4, 6, 7] } g8.T =
      .ok [(0, 1), (1, 3), (3, 4), (4, 6), (6, 7), (7, 8)] ∧
    g8.posIn [4, 5, 6, 7] = List.range' 4 4 ∧
    ([(0, 1), (1, 3), (3, 4), (4, 6), (6, 7), (7, 8)].filter (inside 4 4)).map (unshift 4) = [(0, 2), (2, 3), (3, 4)] ∧
    Storage.blocksOf { exStore with blocks := some [0, 2, 3] } 4 = .ok [(0, 2), (2, 3), (3, 4)] ∧
    ({ exStore with blocks := none } : StorageP).lp = true := by decide +kernel

/-- **the reference grid must lie inside `[gs, ge)`** (hypothesis `hpts`): the same portfolio with blocks of 2 h and
    `gs = 00:00`, `ge = 04:00` on the eight-hour grid.  The unsplit storage lives on the first four steps only (12
    variables); in the second interval the window of the storage is `interval start .. interval end`, so the split set-up
    gives it four more steps (8 + 8 variables).  `splitHypsS`, `lpKAll`, `blocksAligned` and `pairsAligned` all hold
    (the second piece of the storage's grid is empty, its boundaries are shifted by 0), the witness is false: without
    `hpts` both `blocks_aligned_split_equals_unsplit` and `blocks_pairs_aligned_split_equals_unsplit` fail -/
example : blocksAligned (exSpecs 7200 none) g8 0 14400 exCuts = true ∧
    pairsAligned (exSpecs 7200 none) g8 0 14400 exCuts = true ∧ lpKAll (exSpecs 7200 none) = true ∧
    splitHypsS ((exSpecs 7200 none).map fun a => a.unblocked 0 14400) g8 exCuts exPrices = true ∧
    (match setupPortfolioK (exSpecs 7200 none) g8 0 14400 exPrices 3600 [],
        setupSplitK (exSpecs 7200 none) g8 exCuts exPrices 3600 [] with
      | .ok U, .ok ps => decide (U.n = 12) && decide (ps.map (·.n) = [8, 8]) && !splitWitness U ps (splitPerm U exIs)
      | _, _ => false) = true := by decide +kernel

/-- `block_rows_restart` / `single_block_is_unblocked`: hypotheses satisfiable -/
example : exStore.maxStoreDuration = none ∧ exStore.startLevel = exStore.endLevel ∧ (3 : Nat) ≤ 6 ∧
    (g8.dt.length = 0 ∨ 0 < g8.T) := by decide +kernel
end Example

end EAO.C14K
