import EAO.Model.Storage
import EAO.Model.Contract
import EAO.Lemmas.Storage
import EAO.Lemmas.StorageUnit
/-!
# C12 — time bookkeeping, builder side: the storage

The analogue of `EAO.C12.unit_change` (contracts, transports) for `buildStorage`.

* `limits_follow_dt_storage`: the bounds of the dispatch variables are `rate · dt_t` (`−cap_in·dt_t` below for
  charging, `cap_out·dt_t` above for discharging), hence `limits_total_storage`: they add up to
  `rate × elapsed time` whatever the step lengths.
* `unit_change_storage` (+ `unit_change_mk_storage`, `unit_change_fill_level`, `unit_change_charge`):
  re-expressing the problem for another main time unit — every step length `dt`, `Dt` multiplied by `k > 0`
  (`Grid.scaleDt`, same steps, same discount factors), every rate per time (`cap_in`, `cap_out`, `inflow`,
  `cost_store`) multiplied by `1/k`, `max_store_duration` multiplied by `k`; size, levels, efficiency, costs per
  volume, price key and price data, nodes, options, block positions untouched (`StorageP.rescale`) — gives the
  SAME asset problem: equal in every field (`name, nodes, c, l, u, rows, mapping`), the same error otherwise.
  All parameters of a storage are scalars, so no hypothesis on how they are given is needed (unlike the contract
  theorem, which excludes rates given as keys into the price data).  Consequently feasible sets, objective,
  optimal value and dispatched volumes are the same; the reported fill level, charge and discharge are the same
  functions of `x` as well.
-/
namespace EAO.C12
open EAO EAO.Storage

/-- per-step limits are rate × step length (all options; the booleans have bounds 0 and 1) -/
theorem limits_follow_dt_storage {p : StorageP} {g : Grid} {prices : Prices} {fullT : Nat} {P : AssetProblem}
    (hg : g.Ok) (hT : g.T ≠ 0) (h : buildStorage p g fullT prices = .ok P) :
    (sep p = true → ∀ t, t < g.T →
      P.l.getD t 0 = -(p.capIn * g.dt.getD t 0) ∧ P.u.getD t 0 = 0 ∧
      P.l.getD (g.T + t) 0 = 0 ∧ P.u.getD (g.T + t) 0 = p.capOut * g.dt.getD t 0) ∧
    (sep p = false → ∀ t, t < g.T →
      P.l.getD t 0 = -(p.capIn * g.dt.getD t 0) ∧ P.u.getD t 0 = p.capOut * g.dt.getD t 0) := by
  have hne : g.dt.length ≠ 0 := by rw [hg.2.1]; exact hT
  obtain ⟨pr, bl, _, _, rfl⟩ := buildStorage_ok p g fullT prices P h hne
  exact ⟨fun hs t ht => bounds_two p g g.T t hs ht, fun hs t ht => bounds_one p g g.T t hs ht⟩

theorem sum_map_getD_range (l : List Rat) : ((List.range l.length).map fun i => l.getD i 0) = l := by
  apply List.ext_getElem (by simp)
  intro i h1 h2
  simp [List.getD_eq_getElem?_getD, List.getElem?_eq_getElem h2]

theorem sum_map_mul_left' (c : Rat) (l : List Rat) : (l.map fun d => c * d).sum = c * l.sum := by
  induction l with
  | nil => simp
  | cons a l ih => simp only [List.map_cons, List.sum_cons, ih]; grind

/-- … so the discharge limits add up to `cap_out × elapsed time` and the charge limits to
    `−cap_in × elapsed time`, for any step lengths (daylight-saving days, calendar months) -/
theorem limits_total_storage {p : StorageP} {g : Grid} {prices : Prices} {fullT : Nat} {P : AssetProblem}
    (hg : g.Ok) (hT : g.T ≠ 0) (h : buildStorage p g fullT prices = .ok P) :
    ((List.range g.T).map fun t => P.l.getD t 0).sum = -(p.capIn * g.dt.sum) ∧
    ((List.range g.T).map fun t => P.u.getD (if sep p then g.T + t else t) 0).sum = p.capOut * g.dt.sum := by
  obtain ⟨h2, h1⟩ := limits_follow_dt_storage hg hT h
  have hdt : ((List.range g.T).map fun i => g.dt.getD i 0) = g.dt := by
    rw [← hg.2.1]; exact sum_map_getD_range g.dt
  constructor
  · have e : ((List.range g.T).map fun t => P.l.getD t 0)
        = (List.range g.T).map ((fun d => -(p.capIn) * d) ∘ fun i => g.dt.getD i 0) := by
      apply List.map_congr_left
      intro t ht
      have ht' := List.mem_range.mp ht
      by_cases hs : sep p = true
      · rw [(h2 hs t ht').1]; simp only [Function.comp]; grind
      · rw [(h1 (by simpa using hs) t ht').1]; simp only [Function.comp]; grind
    rw [e, ← List.map_map, hdt, sum_map_mul_left']; grind
  · have e : ((List.range g.T).map fun t => P.u.getD (if sep p then g.T + t else t) 0)
        = (List.range g.T).map ((fun d => p.capOut * d) ∘ fun i => g.dt.getD i 0) := by
      apply List.map_congr_left
      intro t ht
      have ht' := List.mem_range.mp ht
      by_cases hs : sep p = true
      · simp only [hs, if_true]; rw [(h2 hs t ht').2.2.2]; rfl
      · have hs' : sep p = false := by simpa using hs
        simp only [hs', Bool.false_eq_true, if_false]; rw [(h1 hs' t ht').2]; rfl
    rw [e, ← List.map_map, hdt, sum_map_mul_left']

/-! ### change of the main time unit -/

/-- scaling every `dt` by `k`, every rate by `1/k` and the holding limit by `k` gives the same problem -/
theorem unit_change_storage {k : Rat} (hk : 0 < k) (p : StorageP) (g : Grid) (prices : Prices) (fullT : Nat) :
    buildStorage (p.rescale k) (g.scaleDt k) fullT prices = buildStorage p g fullT prices :=
  buildStorage_rescale hk p g fullT prices

/-- the constructor guards do not depend on the unit either -/
theorem guards_rescale {k : Rat} (hk : 0 < k) (p : StorageP) : (p.rescale k).guards = p.guards := by
  have hpos : 0 < 1 / k := by
    have := Rat.inv_pos.mpr hk
    rw [Rat.div_def, Rat.one_mul]; exact this
  have h1 := one_div_mul_self k hk
  have hiff : ∀ c : Rat, 0 ≤ c * (1 / k) ↔ 0 ≤ c := by
    intro c
    constructor
    · intro h
      have := Rat.mul_le_mul_of_nonneg_right h (Rat.le_of_lt hk)
      have e : c * (1 / k) * k = c := by rw [Rat.mul_assoc, h1, Rat.mul_one]
      rw [e, Rat.zero_mul] at this
      exact this
    · intro h
      have := Rat.mul_le_mul_of_nonneg_right h (Rat.le_of_lt hpos)
      rw [Rat.zero_mul] at this
      exact this
  show (decide (p.startLevel ≤ p.size) && decide (0 ≤ p.capIn * (1 / k)) && decide (0 ≤ p.capOut * (1 / k))
      && decide (p.nodes.length ≤ 2)) = p.guards
  rw [decide_eq_decide.mpr (hiff p.capIn), decide_eq_decide.mpr (hiff p.capOut)]
  rfl

theorem unit_change_mk_storage {k : Rat} (hk : 0 < k) (p : StorageP) (g : Grid) (prices : Prices) (fullT : Nat) :
    mkStorage (p.rescale k) (g.scaleDt k) fullT prices = mkStorage p g fullT prices := by
  unfold mkStorage
  rw [guards_rescale hk, unit_change_storage hk]

/-- the reported fill level is the same function of the mapping and `x` in both units -/
theorem unit_change_fill_level {k : Rat} (hk : 0 < k) (p : StorageP) (g : Grid) (M : List MapRow) (fullT : Nat)
    (x : Vec) : fillLevel (p.rescale k) M (g.scaleDt k) fullT x = fillLevel p M g fullT x := by
  have hinc : fillInc (p.rescale k) M (g.scaleDt k) x = fillInc p M g x := by
    funext t
    unfold fillInc
    have e : (fun j => (p.rescale k).inflow * Storage.dtAt (g.scaleDt k) j) = fun j => p.inflow * Storage.dtAt g j :=
      infl_rescale hk p g
    rw [e]
    rfl
  unfold fillLevel
  rw [hinc]
  rfl

/-- so are the reported charge and discharge (they do not involve time at all) -/
theorem unit_change_charge (k : Rat) (p : StorageP) (M : List MapRow) (x : Vec) (t : Nat) :
    chargeOut (p.rescale k) M x t = chargeOut p M x t ∧ dischargeOut (p.rescale k) M x t = dischargeOut p M x t :=
  ⟨rfl, rfl⟩

end EAO.C12

/-! ### non-vacuity: days → hours, `k = 24` (kernel-evaluated) -/
namespace EAO.C12.ExStorage
open EAO EAO.Storage

/-- main time unit DAY: a horizon of 8 steps of 1/4 day, the storage's window covers steps 2…5 -/
def g : Grid := { pts := [43200, 64800, 86400, 108000], idx := [2, 3, 4, 5], dt := [1/4, 1/4, 1/4, 1/4],
                  Dt := [3/4, 1, 5/4, 3/2], df := [1, 1, 1, 1] }

/-- rates per day; holding limit 1/2 day; two nodes, blocks, both MIP options, costs of storing -/
def p : StorageP :=
  { name := "s", nodes := ["a", "b"], size := 4, capIn := 8, capOut := 8, startLevel := 1, endLevel := 1,
    costIn := 0, costOut := 1/8, costStore := 6, effIn := 1/2, inflow := 1, price := none,
    noSimult := true, maxStoreDuration := some (1/2), blocks := some [0, 2] }

-- in hours: steps of 6 h, rates per hour, holding limit 12 h
example : (g.scaleDt 24).dt = [6, 6, 6, 6] ∧ (p.rescale 24).capIn = 1/3 ∧ (p.rescale 24).inflow = 1/24 ∧
    (p.rescale 24).costStore = 1/4 ∧ (p.rescale 24).maxStoreDuration = some 12 ∧ (p.rescale 24).size = 4 := by
  decide +kernel

example : g.Ok ∧ p.guards = true ∧ g.T ≠ 0 := by decide +kernel

/-- the problem in hours is literally the problem in days (instance of `unit_change_storage`) -/
example : buildStorage (p.rescale 24) (g.scaleDt 24) 8 [] = buildStorage p g 8 [] :=
  unit_change_storage (by decide +kernel) p g [] 8

-- and it is a real problem: 16 variables, 4 + 4 level rows, 8 exclusivity rows, 2 window rows; discharge limit 2 per step
example : (match buildStorage (p.rescale 24) (g.scaleDt 24) 8 [] with
    | .ok P => P.n == 16 && P.rows.length == 18 && P.u.take 8 == [0, 0, 0, 0, 2, 2, 2, 2]
    | .error _ => false) = true := by decide +kernel
example : (match buildStorage p g 8 [] with
    | .ok P => P.n == 16 && P.rows.length == 18 && P.u.take 8 == [0, 0, 0, 0, 2, 2, 2, 2]
    | .error _ => false) = true := by decide +kernel

end EAO.C12.ExStorage
