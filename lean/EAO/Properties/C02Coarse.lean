import EAO.Properties.C02
import EAO.Properties.C13Builders
import EAO.Lemmas.CoarseTextbook
/-!
# C02 + C13 — a contract / transport with an own, coarser frequency refines the textbook model with equal rates

`EAO/Properties/C02.lean` relates the `freq=None` builders to the textbook specification (`EAO/Spec/Textbook.lean`);
`EAO/Properties/C13Builders.lean` relates the builders WITH `freq` to the `freq=None` builder on the fine steps with the
price averaged per coarse step, plus "same rate inside a coarse step".  Composed here:

the problem `SimpleContract(freq=f)` / `Transport(freq=f)` builds (`buildCoarseSimpleContract`, `buildCoarseTransport`) and
the TEXTBOOK contract / transport on the FINE steps (`minorGrid ref cg`) with the per-coarse-step mean price (cost) and the
additional textbook constraint `EqualRate` — "volume over step length is the same in all fine steps of a coarse step" —
have the same attainable (flows per FINE step, cash) pairs (`RefinesExactly`; for the two-variable form of a contract
mutual domination, `Refines`, as in `EAO.C02.contract_refines_two`).  Hypotheses: those of both theorems
(`CoarseGrid.WellFormed`, `EqualDiscount`, `ConstInside`: what is true for the code resp. the complements are findings
F-13h / F-13i).  The textbook point of a coarse point `z` is its expansion `expand … z` (fine step `t` of coarse step `i`
gets `z_i · dt_t/dt_i`).

Theorems: `coarse_contract_refines_textbook`, `coarse_transport_refines_textbook`; from the grid up (top-level grid, cuts of
whole coarse steps, scalar parameters; the fine steps are the window `ref.restrict s e`): `coarse_contract_refines_textbook_grid`,
`coarse_transport_refines_textbook_grid`; `coarse_pairs_sub_fine`.

Helper definitions and lemmas: `EAO/Lemmas/CoarseTextbook.lean` (namespace `EAO.CoarseTextbook`): `EqualRate`,
`contractSemEq`, `transportSemEq` (the textbook semantics with the additional constraint), `CoreData`.
-/
namespace EAO.C02C
open EAO EAO.Textbook EAO.Perm EAO.CoarseBuild EAO.CoarseTextbook

/-- **coarse_contract_refines_textbook.**  `Pc` = what `SimpleContract(freq=f)` builds on the coarse grid `cg` of the full
    grid `ref`.  With `price` the plain mean of the price series per coarse step, `lo`/`hi` the RATES `make_vector` returns
    for `min_cap`/`max_cap` on the fine steps, `d.ec` the spread on the fine steps (`CoreData`: what the `freq=None` set-up on
    the fine steps looks at): `Pc` and the textbook contract on the FINE steps with price `price[owner]`, rates `lo`/`hi`
    and the additional constraint `EqualRate`
    * have the SAME attainable (flows per fine step, cash) pairs in the one-variable form (no spread, or capacities of one
      sign), the textbook volume of coarse point `z` being `expand … z`;
    * dominate each other (`Refines`: same flows, no less cash, both directions) in the two-variable form, for a non-negative
      spread and non-negative discount factors — textbook → model by splitting `q` into negative and positive part (both
      keep the rate constant inside a coarse step), model → textbook by netting `q = x_in + x_out` of the expansion. -/
theorem coarse_contract_refines_textbook (p : ContractP) (ref : Grid) (cg : CoarseGrid) (prices : Prices) (fullT : Nat)
    (Pc : AssetProblem) (hwf : cg.WellFormed ref.dt) (hdf : EqualDiscount ref cg)
    (hcap : ConstInside p ref cg prices)
    (hc : buildCoarseSimpleContract p cg ref.dt prices fullT = .ok Pc) :
    ∃ (price : List Rat) (d : SCData) (lo hi : List Rat),
      coarsePrice p.price cg.minor prices fullT = .ok price ∧
      CoreData p (minorGrid ref cg) prices (spreadList cg.owner price) d lo hi ∧
      (oneVariable d.ec d.minC d.maxC = true →
        RefinesExactly Pc
          (contractSemEq (contractS1 lo hi (spreadList cg.owner price) d.ec d.node) (minorGrid ref cg) cg.owner)) ∧
      (oneVariable d.ec d.minC d.maxC = false →
        (∀ k, k < (minorGrid ref cg).T → 0 ≤ d.ec.getD k 0) → (∀ k, k < (minorGrid ref cg).T → 0 ≤ dfOf (minorGrid ref cg) k) →
        Refines Pc
          (contractSemEq (contractS1 lo hi (spreadList cg.owner price) d.ec d.node) (minorGrid ref cg) cg.owner)) := by
  obtain ⟨Pf, hf, B, _, _, _, hz, hsurj⟩ := C13B.coarse_equiv_contract p ref cg prices fullT Pc hwf hdf hcap hc
  obtain ⟨hill, price, a, hprice, _, _⟩ := buildCoarseSimpleContract_ok hc
  rw [fineSimpleContract_eq hill hprice] at hf
  have hg : (minorGrid ref cg).Ok := minorGrid_ok
  have hpl : (spreadList cg.owner price).length = (minorGrid ref cg).T := by
    rw [minorGrid_T]; simp [spreadList]
  obtain ⟨d, lo, hi, hd, hl, hlol, hhil, hlo', hhi', rfl⟩ := simpleCore_data hg hpl hf
  refine ⟨price, d, lo, hi, hprice, hd, ?_, ?_⟩
  · intro hone
    rw [if_pos hone] at hz hsurj
    obtain ⟨hn, hfe, hflw, hcsh⟩ := scOne_textbook p _ hg d lo hi hl hlol hhil hlo' hhi' hone
    rw [← hd.price]
    exact compose_exact p.name _ _ _ minorGrid_T (by rw [hn, minorGrid_T]) (coarseContract_asset hwf hc)
      (scOne_asset p _ d) hfe hflw hcsh (contract_congr _ _) hz hsurj
  · intro htwo hec hdfp
    rw [if_neg (by rw [htwo]; simp)] at hz hsurj
    rw [← hd.price]
    exact compose_two p _ hg d lo hi hl hlo' hhi' hec hdfp (minorGrid_dt_pos hwf) minorGrid_T
      (coarseContract_asset hwf hc) hz hsurj

/-- **coarse_transport_refines_textbook.**  `Pc` = what `Transport(freq=f)` builds.  With `cts` the plain mean of the cost
    series per coarse step: `Pc` and the textbook transport on the FINE steps (flow `f_t ∈ [min, max]·dt_t`, `−f_t` at the
    first and `+eff·f_t` at the second node, cash `−df_t·(cts[owner t] + const)·|f_t|`) with the additional constraint
    `EqualRate` have the SAME attainable (flows, cash) pairs. -/
theorem coarse_transport_refines_textbook (p : TransportP) (ref : Grid) (cg : CoarseGrid) (prices : Prices) (fullT : Nat)
    (Pc : AssetProblem) (hwf : cg.WellFormed ref.dt) (hdf : EqualDiscount ref cg)
    (hc : buildCoarseTransport p cg ref.dt prices fullT = .ok Pc) :
    ∃ n0 n1 cts, p.nodes = [n0, n1] ∧ coarseCosts p.costsKey cg.minor prices fullT = .ok cts ∧
      RefinesExactly Pc
        (transportSemEq (transportS p (spreadList cg.owner cts) n0 n1 [] [] 1) (minorGrid ref cg) cg.owner) := by
  obtain ⟨n0, n1, cts, hn, h1, h2, hcts, hfl, _⟩ := buildCoarseTransport_ok hc
  have hlen := coarseCosts_length hcts
  have hflF : trFlags p (minorGrid ref cg) (spreadList cg.owner cts) = true := by
    rw [(trFlags_spread hwf p cts hlen).2]; exact hfl
  have hf' : fineTransport p ref cg prices fullT
      = .ok (trProblem p (minorGrid ref cg) n0 n1 (spreadList cg.owner cts)) := by
    unfold fineTransport
    rw [hn]
    simp only [bind, Except.bind, hcts]
    rw [if_neg h1, if_neg (by simpa using h2)]
    exact transportCore_of_flags p n0 n1 _ _ hflF
  obtain ⟨Pf, hf, _, _, hz, hsurj⟩ := C13B.coarse_equiv_transport p ref cg prices fullT Pc hwf hdf hc
  rw [hf'] at hf
  injection hf with hf
  subst hf
  have hg : (minorGrid ref cg).Ok := minorGrid_ok
  have hcl : (spreadList cg.owner cts).length = (minorGrid ref cg).T := by
    rw [minorGrid_T]; simp [spreadList]
  obtain ⟨hnn, hfe, hflw, hcsh⟩ := trProblem_textbook p _ hg n0 n1 _ hcl hflF
  refine ⟨n0, n1, cts, hn, hcts, ?_⟩
  exact compose_exact p.name _ _ _ minorGrid_T (by rw [hnn, minorGrid_T]) (coarseTransport_asset hwf hc)
    (trProblem_asset p _ n0 n1 _) hfe hflw hcsh (transport_congr _ _) hz hsurj

/-- **from the grid up** (contract): top-level reference grid, cuts of whole coarse steps `[s, e)`, constant capacities and
    spread.  The fine steps then ARE the window `ref.restrict s e` of the `freq=None` asset, so the textbook contract lives on
    the asset's own fine window; the only hypothesis left about the data is equal discounting inside the coarse steps. -/
theorem coarse_contract_refines_textbook_grid (p : ContractP) (ref : Grid) (cuts : List Int) (cg : CoarseGrid) (s e : Int)
    (prices : Prices) (fullT : Nat) (Pc : AssetProblem) (a b ec : Rat)
    (htl : ref.TopLevel) (hco : ref.coarsen cuts = .ok cg) (hcuts : cuts.Pairwise (· ≤ ·))
    (h0 : cuts.head? = some s) (hn : cuts.getLast? = some e)
    (hmin : p.minCap = .scalar a) (hmax : p.maxCap = .scalar b) (hec : p.extraCosts = .scalar ec)
    (hdf : EqualDiscount ref cg)
    (hc : buildCoarseSimpleContract p cg ref.dt prices fullT = .ok Pc) :
    minorGrid ref cg = ref.restrict s e ∧
    ∃ (price : List Rat) (d : SCData) (lo hi : List Rat),
      coarsePrice p.price cg.minor prices fullT = .ok price ∧
      CoreData p (ref.restrict s e) prices (spreadList cg.owner price) d lo hi ∧
      (oneVariable d.ec d.minC d.maxC = true →
        RefinesExactly Pc
          (contractSemEq (contractS1 lo hi (spreadList cg.owner price) d.ec d.node) (ref.restrict s e) cg.owner)) ∧
      (oneVariable d.ec d.minC d.maxC = false →
        (∀ k, k < (ref.restrict s e).T → 0 ≤ d.ec.getD k 0) → (∀ k, k < (ref.restrict s e).T → 0 ≤ dfOf (ref.restrict s e) k) →
        Refines Pc
          (contractSemEq (contractS1 lo hi (spreadList cg.owner price) d.ec d.node) (ref.restrict s e) cg.owner)) := by
  have hwf := C13B.coarsen_wellFormed ref cuts cg htl hco hcuts
  have hg := C13B.minorGrid_eq_restrict ref cuts cg s e htl hco hcuts h0 hn
  have := coarse_contract_refines_textbook p ref cg prices fullT Pc hwf hdf
    (C13B.constInside_scalar p ref cg prices hwf a b ec hmin hmax hec) hc
  rw [hg] at this
  exact ⟨hg, this⟩

/-- **from the grid up** (transport) -/
theorem coarse_transport_refines_textbook_grid (p : TransportP) (ref : Grid) (cuts : List Int) (cg : CoarseGrid) (s e : Int)
    (prices : Prices) (fullT : Nat) (Pc : AssetProblem)
    (htl : ref.TopLevel) (hco : ref.coarsen cuts = .ok cg) (hcuts : cuts.Pairwise (· ≤ ·))
    (h0 : cuts.head? = some s) (hn : cuts.getLast? = some e) (hdf : EqualDiscount ref cg)
    (hc : buildCoarseTransport p cg ref.dt prices fullT = .ok Pc) :
    minorGrid ref cg = ref.restrict s e ∧
    ∃ n0 n1 cts, p.nodes = [n0, n1] ∧ coarseCosts p.costsKey cg.minor prices fullT = .ok cts ∧
      RefinesExactly Pc
        (transportSemEq (transportS p (spreadList cg.owner cts) n0 n1 [] [] 1) (ref.restrict s e) cg.owner) := by
  have hwf := C13B.coarsen_wellFormed ref cuts cg htl hco hcuts
  have hg := C13B.minorGrid_eq_restrict ref cuts cg s e htl hco hcuts h0 hn
  have := coarse_transport_refines_textbook p ref cg prices fullT Pc hwf hdf hc
  rw [hg] at this
  exact ⟨hg, this⟩

/-- the additional constraint only removes pairs: whatever the coarse asset attains, the textbook asset on the fine steps
    WITHOUT the constraint attains too (a coarse frequency never gains value against the textbook fine asset with the
    averaged price) -/
theorem coarse_pairs_sub_fine (c : ContractS) (r : TransportS) (g : Grid) (owner : List Nat) (fl : Flows) (v : Rat) :
    ((contractSemEq c g owner).Attain fl v → (contractSem c g).Attain fl v) ∧
    ((transportSemEq r g owner).Attain fl v → (transportSem r g).Attain fl v) :=
  ⟨contractSemEq_sub c g owner fl v, transportSemEq_sub r g owner fl v⟩

end EAO.C02C

/-! ### non-vacuity (concrete instances, evaluated by the kernel; grids and assets of `EAO.C13B.Ex`) -/
namespace EAO.C02C.Ex
open EAO EAO.Textbook EAO.Perm EAO.CoarseBuild EAO.CoarseTextbook EAO.C13B.Ex

theorem ok_inj {ε α : Type} {a b : α} (h : (Except.ok a : Except ε α) = .ok b) : a = b := by injection h

def prq : Prices := [("q", [1, 3, 2, 6])]

/-- one-variable form: `pflat` (sells 0…1 per hour, no spread) on the hourly grid `ref4` with a 2-hour frequency.  All
    hypotheses hold, the branch `oneVariable = true` is taken, and the conclusion is reached: the coarse problem has exactly
    the pairs of the textbook contract on the four fine steps with prices `(2, 2, 4, 4)` and equal rates per coarse step. -/
example : ∃ Pc price lo hi node, buildCoarseSimpleContract pflat cg2 ref4.dt prq 4 = .ok Pc ∧
    coarsePrice pflat.price cg2.minor prq 4 = .ok price ∧
    RefinesExactly Pc (contractSemEq (contractS1 lo hi (spreadList cg2.owner price) [0, 0, 0, 0] node)
      (minorGrid ref4 cg2) cg2.owner) := by
  obtain ⟨Pc, hc⟩ := ok_of_isSome (buildCoarseSimpleContract pflat cg2 ref4.dt prq 4) (by decide +kernel)
  obtain ⟨price, d, lo, hi, hprice, hd, h1, _⟩ := coarse_contract_refines_textbook pflat ref4 cg2 prq 4 Pc cg2_wf cg2_df
    (C13B.constInside_scalar pflat ref4 cg2 prq cg2_wf 0 1 0 rfl rfl rfl) hc
  obtain ⟨minO, maxO, ecO, hv, he, hmi, hma⟩ := hd.vectors
  have hv' : contractVectors pflat (minorGrid ref4 cg2) prq
      = .ok ([some 0, some 0, some 0, some 0], [some 1, some 1, some 1, some 1], [some 0, some 0, some 0, some 0]) := by
    decide +kernel
  rw [hv'] at hv
  cases hv
  have e1 : d.ec = [0, 0, 0, 0] := ok_inj (he.symm.trans (by decide +kernel))
  have e2 : d.minC = [0, 0, 0, 0] := ok_inj (hmi.symm.trans (by decide +kernel))
  have e3 : d.maxC = [1, 1, 1, 1] := ok_inj (hma.symm.trans (by decide +kernel))
  have hone : oneVariable d.ec d.minC d.maxC = true := by rw [e1, e2, e3]; decide +kernel
  exact ⟨Pc, price, lo, hi, d.node, hc, hprice, by rw [← e1]; exact h1 hone⟩

/-- numbers of this instance: the coarse point `z = (2, 1)` (2 and 1 units in the two 2-hour steps) is feasible and costs 8;
    its expansion `(1, 1, 1/2, 1/2)` has the textbook cash −8 at the mean prices `(2, 2, 4, 4)`, equal rates inside the
    coarse steps, and the flows `1` and `1/2` at the fine steps 1 and 2 -/
example : (match buildCoarseSimpleContract pflat cg2 ref4.dt prq 4 with
      | .ok P => decide (P.l = [0, 0]) && decide (P.u = [2, 2]) && decide (costAt P.c 0 (fun j => if j = 0 then 2 else 1) = 8) &&
                 decide (flowOf P "n" 1 (fun j => if j = 0 then 2 else 1) = 1) &&
                 decide (flowOf P "n" 2 (fun j => if j = 0 then 2 else 1) = 1/2)
      | .error _ => false) = true ∧
    (List.range 4).map (expand cg2.owner (cg2.weights ref4.dt) cg2.grid.T (fun j => if j = 0 then 2 else 1)) = [1, 1, 1/2, 1/2] ∧
    coarsePrice pflat.price cg2.minor prq 4 = .ok [2, 4] ∧ spreadList cg2.owner [2, 4] = [2, 2, 4, 4] ∧
    (contractS1 [0, 0, 0, 0] [1, 1, 1, 1] [2, 2, 4, 4] [0, 0, 0, 0] "n").cash (minorGrid ref4 cg2)
      (expand cg2.owner (cg2.weights ref4.dt) cg2.grid.T (fun j => if j = 0 then 2 else 1)) = -8 ∧
    (contractS1 [0, 0, 0, 0] [1, 1, 1, 1] [2, 2, 4, 4] [0, 0, 0, 0] "n").flows (minorGrid ref4 cg2)
      (expand cg2.owner (cg2.weights ref4.dt) cg2.grid.T (fun j => if j = 0 then 2 else 1)) "n" 2 = 1/2 := by
  decide +kernel

/-- `EqualRate` holds for the expansion and fails for `(1, 0, 0, 0)` (all of the first coarse step's volume in its first hour) -/
example : EqualRate cg2.owner (minorGrid ref4 cg2)
      (expand cg2.owner (cg2.weights ref4.dt) cg2.grid.T (fun j => if j = 0 then 2 else 1)) ∧
    ¬ EqualRate cg2.owner (minorGrid ref4 cg2) (fun j => if j = 0 then 1 else 0) := by
  constructor
  · have h : ∀ j, j < (minorGrid ref4 cg2).T → ∀ k, k < (minorGrid ref4 cg2).T → cg2.owner.getD j 0 = cg2.owner.getD k 0 →
        expand cg2.owner (cg2.weights ref4.dt) cg2.grid.T (fun j => if j = 0 then 2 else 1) j * dtOf (minorGrid ref4 cg2) k
          = expand cg2.owner (cg2.weights ref4.dt) cg2.grid.T (fun j => if j = 0 then 2 else 1) k * dtOf (minorGrid ref4 cg2) j := by
      decide +kernel
    exact fun j k hj hk => h j hj k hk
  · intro h
    have := h 0 1 (by decide +kernel) (by decide +kernel) (by decide +kernel)
    revert this
    decide +kernel

/-- two-variable form: `pc` (buys up to 1, sells up to 2 per hour, spread 1/2).  All hypotheses hold, the branch
    `oneVariable = false` is taken with `ec ≥ 0`, `df ≥ 0`, and the conclusion is reached. -/
example : ∃ Pc price lo hi node, buildCoarseSimpleContract pc cg2 ref4.dt prices4 4 = .ok Pc ∧
    coarsePrice pc.price cg2.minor prices4 4 = .ok price ∧
    Refines Pc (contractSemEq (contractS1 lo hi (spreadList cg2.owner price) [1/2, 1/2, 1/2, 1/2] node)
      (minorGrid ref4 cg2) cg2.owner) := by
  obtain ⟨Pc, hc⟩ := ok_of_isSome (buildCoarseSimpleContract pc cg2 ref4.dt prices4 4) (by decide +kernel)
  obtain ⟨price, d, lo, hi, hprice, hd, _, h2⟩ := coarse_contract_refines_textbook pc ref4 cg2 prices4 4 Pc cg2_wf cg2_df
    (C13B.constInside_scalar pc ref4 cg2 prices4 cg2_wf (-1) 2 (1/2) rfl rfl rfl) hc
  obtain ⟨minO, maxO, ecO, hv, he, hmi, hma⟩ := hd.vectors
  have hv' : contractVectors pc (minorGrid ref4 cg2) prices4
      = .ok ([some (-1), some (-1), some (-1), some (-1)], [some 2, some 2, some 2, some 2],
             [some (1/2), some (1/2), some (1/2), some (1/2)]) := by
    decide +kernel
  rw [hv'] at hv
  cases hv
  have e1 : d.ec = [1/2, 1/2, 1/2, 1/2] := ok_inj (he.symm.trans (by decide +kernel))
  have e2 : d.minC = [-1, -1, -1, -1] := ok_inj (hmi.symm.trans (by decide +kernel))
  have e3 : d.maxC = [2, 2, 2, 2] := ok_inj (hma.symm.trans (by decide +kernel))
  have htwo : oneVariable d.ec d.minC d.maxC = false := by rw [e1, e2, e3]; decide +kernel
  have hec : ∀ k, k < (minorGrid ref4 cg2).T → 0 ≤ d.ec.getD k 0 := by rw [e1]; decide +kernel
  have hdfp : ∀ k, k < (minorGrid ref4 cg2).T → 0 ≤ dfOf (minorGrid ref4 cg2) k := by decide +kernel
  exact ⟨Pc, price, lo, hi, d.node, hc, hprice, by rw [← e1]; exact h2 htwo hec hdfp⟩

/-- transport `pt` (efficiency 1/2, costs 1 + series) with a 2-hour frequency: all hypotheses hold and the conclusion is reached -/
example : ∃ Pc n0 n1 cts, buildCoarseTransport pt cg2 ref4.dt prices4 4 = .ok Pc ∧ pt.nodes = [n0, n1] ∧
    coarseCosts pt.costsKey cg2.minor prices4 4 = .ok cts ∧
    RefinesExactly Pc (transportSemEq (transportS pt (spreadList cg2.owner cts) n0 n1 [] [] 1) (minorGrid ref4 cg2) cg2.owner) := by
  obtain ⟨Pc, hc⟩ := ok_of_isSome (buildCoarseTransport pt cg2 ref4.dt prices4 4) (by decide +kernel)
  obtain ⟨n0, n1, cts, hn, hcts, h⟩ := coarse_transport_refines_textbook pt ref4 cg2 prices4 4 Pc cg2_wf cg2_df hc
  exact ⟨Pc, n0, n1, cts, hc, hn, hcts, h⟩

/-- numbers: mean costs `(2, 4)` + 1; the coarse point `z = (6, 2)` costs 28; its expansion `(3, 3, 1, 1)` has the textbook
    cash −28 and puts `−3` at node `a`, `+3/2` at node `b` in fine step 1 -/
example : coarseCosts pt.costsKey cg2.minor prices4 4 = .ok [2, 4] ∧
    (match buildCoarseTransport pt cg2 ref4.dt prices4 4 with
      | .ok P => decide (costAt P.c 0 (fun j => if j = 0 then 6 else 2) = 28) &&
                 decide (flowOf P "a" 1 (fun j => if j = 0 then 6 else 2) = -3) &&
                 decide (flowOf P "b" 1 (fun j => if j = 0 then 6 else 2) = 3/2)
      | .error _ => false) = true ∧
    (transportS pt [2, 2, 4, 4] "a" "b" [] [] 1).cash (minorGrid ref4 cg2)
      (expand cg2.owner (cg2.weights ref4.dt) cg2.grid.T (fun j => if j = 0 then 6 else 2)) = -28 ∧
    (transportS pt [2, 2, 4, 4] "a" "b" [] [] 1).flows (minorGrid ref4 cg2)
      (expand cg2.owner (cg2.weights ref4.dt) cg2.grid.T (fun j => if j = 0 then 6 else 2)) "b" 1 = 3/2 := by
  decide +kernel

end EAO.C02C.Ex
