import EAO.Spec.Textbook
import EAO.Lemmas.Textbook
import EAO.Properties.C09
/-!
# C02 — reference equivalence: the assembled LP means what the textbook formulation says

The reference is `EAO/Spec/Textbook.lean` (physical quantities; meant to be read).  For every asset kind a
REFINEMENT theorem relates the asset problem the builder model returns (`EAO/Model`, tied to the code by the
correspondence checks) to the textbook semantics: maps in both directions that preserve feasibility, the flow
into every node at every step (`EAO.C09.flow`) and the cash (`- costAt c 0 x`).  `portfolio_refines` composes
them through `EAO.C09.assemble_feasible_iff` / `assemble_value`: the assembled problem and the textbook
portfolio problem have the same attainable values (stated with upper bounds; no optimum is assumed to exist),
and every feasible point of the assembled problem maps to a textbook-feasible one with the same flows.

Helper lemmas: `EAO/Lemmas/Textbook.lean` (namespace `EAO.Textbook`).
-/
namespace EAO.C02
open EAO EAO.Storage EAO.Textbook EAO.Perm

/-! ## composition -/

/-- **portfolio_refines.**  If every asset problem and its textbook semantics dominate each other (same flows,
    no less cash, in both directions — `Refines`; equal sets of pairs in the exact cases), then
    (1) every feasible point of the assembled problem is matched by a point of the textbook portfolio problem
        with the same flows of every asset and no less value — in particular EAO's optimal dispatch is feasible
        for the reference;
    (2) every point of the textbook portfolio problem is matched by a feasible point of the assembled problem
        with the same flows and no less value;
    (3) hence both problems have the same upper bounds of their value sets, i.e. the same optimum. -/
theorem portfolio_refines (as : List AssetProblem) (sems : List AssetSem) (hlen : sems.length = as.length)
    (gridI : List Nat) (skip : List String)
    (hwf : ∀ a ∈ as, C09.WF gridI a) (hloc : ∀ a ∈ as, C09.Local a)
    (href : ∀ i, (h : i < as.length) → Refines (as[i]) (sems[i]'(by omega))) :
    (∀ x, (assemble as gridI skip).FeasibleRelaxed x →
      ∃ V, (assemble as gridI skip).value x ≤ V ∧
        portfolioAttain sems skip (fun i n t => C09.flow (as.getD i default) n t (C09.block as i x)) V) ∧
    (∀ fl V, portfolioAttain sems skip fl V →
      ∃ x, (assemble as gridI skip).FeasibleRelaxed x ∧ V ≤ (assemble as gridI skip).value x ∧
        ∀ i, i < as.length → ∀ n t, C09.flow (as.getD i default) n t (C09.block as i x) = fl i n t) ∧
    (∀ B, (∀ x, (assemble as gridI skip).FeasibleRelaxed x → (assemble as gridI skip).value x ≤ B) ↔
          (∀ fl V, portfolioAttain sems skip fl V → V ≤ B)) := by
  obtain ⟨h1, h2⟩ := portfolio_core as sems hlen gridI skip
    (fun a ha => ⟨(hwf a ha).len_l, (hwf a ha).len_u⟩) (fun a ha => (hwf a ha).disp)
    (fun a ha => (hloc a ha).cols) (fun a ha => (hloc a ha).vars) href
  refine ⟨h1, h2, ?_⟩
  intro B
  constructor
  · intro hB fl V hV
    obtain ⟨x, hx, hle, _⟩ := h2 fl V hV
    exact Rat.le_trans hle (hB x hx)
  · intro hB x hx
    obtain ⟨V, hle, hV⟩ := h1 x hx
    exact Rat.le_trans hle (hB _ V hV)

/-! ## storage -/

theorem storage_nodes (p : StorageP) (hne : p.nodes ≠ []) :
    ∃ nIn nOut, nodeIn p = some nIn ∧ nodeOut p = some nOut ∧ (p.nodes.length ≠ 2 → nOut = nIn) := by
  unfold nodeIn nodeOut
  cases h : p.nodes with
  | nil => exact absurd h hne
  | cons a rest =>
    cases rest with
    | nil => exact ⟨a, a, by simp, by simp, fun _ => rfl⟩
    | cons b rest2 =>
      by_cases h2 : (a :: b :: rest2).length = 2
      · exact ⟨a, b, by simp, by rw [if_pos h2]; rfl, fun hh => absurd h2 hh⟩
      · exact ⟨a, a, by simp, by rw [if_neg h2]; rfl, fun _ => rfl⟩

/-- **storage_refines, two-variable form** (efficiency ≠ 1, in/out costs, or separate in/out nodes; plain LP:
    no MIP option, no time blocks).  The problem `buildStorage` returns and the textbook storage have the SAME
    attainable (flows, cash) pairs — charge `= −x_in`, discharge `= x_out`: bounds ⇔ rates, the `2n`
    cumulative-sum rows ⇔ level recursion within `[0, size]` ending at the end level (efficiency on the charge
    side only), flows `−ch` at the first and `+di` at the last node, and minus the cost equals the textbook cash
    (holding cost on the LEVEL, by the tail-sum exchange) plus the constant `holdingConstant` that eaopack
    leaves out of its value.  `hend`: the constructor does not check the end level; for `end ∉ [0, size]` the
    code asks for `level = end` at the last step and nothing else there. -/
theorem storage_refines_two (p : StorageP) (g : Grid) (T : Nat) (prices : Prices) (a : AssetProblem)
    (hb : buildStorage p g T prices = .ok a) (hlen : g.dt.length = g.T) (hpos : 0 < g.T) (hp : Plain p)
    (hend : 0 ≤ p.endLevel ∧ p.endLevel ≤ p.size) (hs : sep p = true) :
    ∃ pr nIn nOut, priceVec p g T prices = .ok pr ∧ nodeIn p = some nIn ∧ nodeOut p = some nOut ∧
      RefinesExactly a (storageSem (storageS p pr nIn nOut) g) := by
  obtain ⟨pr, hpr, hne, rfl⟩ := buildStorage_plain p g T prices a hb (by omega) hp
  obtain ⟨nIn, nOut, hin, hout, _⟩ := storage_nodes p hne
  refine ⟨pr, nIn, nOut, hpr, hin, hout, ?_⟩
  intro fl c
  constructor
  · rintro ⟨d, hd, hfl, rfl⟩
    let y : Vec := fun j => if j < g.T then -(d.ch j) else d.di (j - g.T)
    have hR : ∀ k, k < g.T → d.ch k = -(y k) ∧ d.di k = y (g.T + k) := by
      intro k hk
      have h1 : y k = -(d.ch k) := by simp [y, hk]
      have h2 : y (g.T + k) = d.di k := by
        show (if g.T + k < g.T then -(d.ch (g.T + k)) else d.di (g.T + k - g.T)) = d.di k
        rw [if_neg (by omega), Nat.add_sub_cancel_left]
      rw [h1, h2]; exact ⟨by grind, rfl⟩
    have hflow : ∀ j, j < g.T → p.effIn * d.ch j - d.di j = Storage.flow p g.T y j := by
      intro j hj
      simp only [Storage.flow, hs, if_true]
      rw [(hR j hj).1, (hR j hj).2]
    refine ⟨y, ⟨?_, ?_⟩, ?_, ?_⟩
    · refine (bounds_iff_two p g g.T y hp hs).mpr (fun t ht => ?_)
      obtain ⟨c1, c2, c3, c4, _, _⟩ := hd.1 t ht
      have e1 := (hR t ht).1
      have e2 := (hR t ht).2
      simp only [storageS, dtOf] at c2 c4
      simp only [cp, ct, dtAt]
      grind
    · exact (storage_levels_iff p g pr nIn nOut y d hp.msd hend hflow).mpr
        ⟨fun k hk => ⟨(hd.1 k hk).2.2.2.2.1, (hd.1 k hk).2.2.2.2.2⟩, hd.2⟩
    · intro n t
      rw [hfl n t]
      exact (storage_flow_two p g pr nIn nOut n t y d hs hin hout hR).symm
    · exact (storage_cash_two p g pr nIn nOut y d hp hs hR).symm
  · rintro ⟨y, ⟨hbd, hr⟩, hfl, rfl⟩
    let d : Cycle := ⟨fun k => -(y k), fun k => y (g.T + k)⟩
    have hR : ∀ k, k < g.T → d.ch k = -(y k) ∧ d.di k = y (g.T + k) := fun _ _ => ⟨rfl, rfl⟩
    have hflow : ∀ j, j < g.T → p.effIn * d.ch j - d.di j = Storage.flow p g.T y j := by
      intro j _
      simp only [Storage.flow, hs, if_true, d]
    obtain ⟨l1, l2⟩ := (storage_levels_iff p g pr nIn nOut y d hp.msd hend hflow).mp hr
    refine ⟨d, ⟨?_, l2⟩, ?_, ?_⟩
    · intro k hk
      obtain ⟨b1, b2, b3, b4⟩ := (bounds_iff_two p g g.T y hp hs).mp hbd k hk
      simp only [cp, ct, dtAt] at b1 b4
      refine ⟨?_, ?_, b3, ?_, (l1 k hk).1, (l1 k hk).2⟩
      · show 0 ≤ -(y k); grind
      · show -(y k) ≤ p.capIn * g.dt.getD k 0; grind
      · exact b4
    · intro n t
      rw [hfl n t]
      exact storage_flow_two p g pr nIn nOut n t y d hs hin hout hR
    · exact storage_cash_two p g pr nIn nOut y d hp hs hR

/-- **storage_refines, one-variable form** (efficiency 1, no in/out costs, one node): `x = di − ch`; from `x`
    the textbook dispatch is `ch = max(−x, 0)`, `di = max(x, 0)`.  Same attainable pairs.  `hcap`, `hdt`: the
    constructor's `cap ≥ 0` and non-negative step lengths (a charge of `0` must be within `[0, cap·dt]`). -/
theorem storage_refines_one (p : StorageP) (g : Grid) (T : Nat) (prices : Prices) (a : AssetProblem)
    (hb : buildStorage p g T prices = .ok a) (hlen : g.dt.length = g.T) (hpos : 0 < g.T) (hp : Plain p)
    (hend : 0 ≤ p.endLevel ∧ p.endLevel ≤ p.size) (hs : sep p = false)
    (hcap : 0 ≤ p.capIn ∧ 0 ≤ p.capOut) (hdt : ∀ k, k < g.T → 0 ≤ dtOf g k) :
    ∃ pr nIn, priceVec p g T prices = .ok pr ∧ nodeIn p = some nIn ∧ nodeOut p = some nIn ∧
      RefinesExactly a (storageSem (storageS p pr nIn nIn) g) := by
  obtain ⟨pr, hpr, hne, rfl⟩ := buildStorage_plain p g T prices a hb (by omega) hp
  obtain ⟨he, _, _, hn2⟩ := sep_false p hs
  obtain ⟨nIn, nOut, hin, hout, hsame⟩ := storage_nodes p hne
  have := hsame hn2
  subst this
  refine ⟨pr, nOut, hpr, hin, hout, ?_⟩
  intro fl c
  constructor
  · rintro ⟨d, hd, hfl, rfl⟩
    let y : Vec := fun j => d.di j - d.ch j
    have hR : ∀ k, k < g.T → y k = d.di k - d.ch k := fun _ _ => rfl
    have hflow : ∀ j, j < g.T → p.effIn * d.ch j - d.di j = Storage.flow p g.T y j := by
      intro j _
      simp only [Storage.flow, hs, Bool.false_eq_true, if_false, he, y]; grind
    refine ⟨y, ⟨?_, ?_⟩, ?_, ?_⟩
    · refine (bounds_iff_one p g g.T y hp hs).mpr (fun t ht => ?_)
      obtain ⟨c1, c2, c3, c4, _, _⟩ := hd.1 t ht
      simp only [storageS, dtOf] at c2 c4
      simp only [cp, ct, dtAt]
      show -(p.capIn * g.dt.getD t 0) ≤ d.di t - d.ch t ∧ d.di t - d.ch t ≤ p.capOut * g.dt.getD t 0
      grind
    · exact (storage_levels_iff p g pr nOut nOut y d hp.msd hend hflow).mpr
        ⟨fun k hk => ⟨(hd.1 k hk).2.2.2.2.1, (hd.1 k hk).2.2.2.2.2⟩, hd.2⟩
    · intro n t
      rw [hfl n t]
      exact (storage_flow_one p g pr nOut n t y d hs hin hR).symm
    · exact (storage_cash_one p g pr nOut y d hp hs hR).symm
  · rintro ⟨y, ⟨hbd, hr⟩, hfl, rfl⟩
    let d : Cycle := ⟨fun k => if y k ≤ 0 then -(y k) else 0, fun k => if y k ≤ 0 then 0 else y k⟩
    have hR : ∀ k, k < g.T → y k = d.di k - d.ch k := by
      intro k _
      show y k = (if y k ≤ 0 then 0 else y k) - (if y k ≤ 0 then -(y k) else 0)
      split <;> grind
    have hflow : ∀ j, j < g.T → p.effIn * d.ch j - d.di j = Storage.flow p g.T y j := by
      intro j hj
      simp only [Storage.flow, hs, Bool.false_eq_true, if_false, he]
      rw [hR j hj]; grind
    obtain ⟨l1, l2⟩ := (storage_levels_iff p g pr nOut nOut y d hp.msd hend hflow).mp hr
    refine ⟨d, ⟨?_, l2⟩, ?_, ?_⟩
    · intro k hk
      obtain ⟨b1, b2⟩ := (bounds_iff_one p g g.T y hp hs).mp hbd k hk
      simp only [cp, ct, dtAt] at b1 b2
      have n1 : 0 ≤ p.capIn * g.dt.getD k 0 := Rat.mul_nonneg hcap.1 (hdt k hk)
      have n2 : 0 ≤ p.capOut * g.dt.getD k 0 := Rat.mul_nonneg hcap.2 (hdt k hk)
      refine ⟨?_, ?_, ?_, ?_, (l1 k hk).1, (l1 k hk).2⟩
      · show 0 ≤ (if y k ≤ 0 then -(y k) else 0); split <;> grind
      · show (if y k ≤ 0 then -(y k) else 0) ≤ p.capIn * g.dt.getD k 0; split <;> grind
      · show 0 ≤ (if y k ≤ 0 then 0 else y k); split <;> grind
      · show (if y k ≤ 0 then 0 else y k) ≤ p.capOut * g.dt.getD k 0; split <;> grind
    · intro n t
      rw [hfl n t]
      exact storage_flow_one p g pr nOut n t y d hs hin hR
    · exact storage_cash_one p g pr nOut y d hp hs hR

/-! ## transport -/

/-- **transport_refines.**  The problem `buildTransport` returns and the textbook transport (flow `f_t` within
    `[min, max]·dt_t`, `−f_t` at the first and `+eff·f_t` at the second node, cash `−df_t·cost_t·|f_t|`) have
    the SAME attainable (flows, cash) pairs, with `f = x`.  This includes the sign flip of the cost vector when
    all capacities are ≤ 0 (the guard of the builder — one sign of capacity, or no costs — is what makes a
    single variable per step enough for `|f|`). -/
theorem transport_refines {p : TransportP} {g : Grid} {prices : Prices} {fullT : Nat} {P : AssetProblem}
    (hg : g.Ok) (h : buildTransport p g prices fullT = .ok P) :
    ∃ n0 n1 cts, p.nodes = [n0, n1] ∧ transportCosts p.costsKey g prices fullT = .ok cts ∧
      RefinesExactly P (transportSem (transportS p cts n0 n1 [] [] 1) g) := by
  obtain ⟨cts', hc', hguard⟩ := buildTransport_guard h
  obtain ⟨n0, n1, cts, hn, _, _, hc, rfl⟩ := buildTransport_ok h
  have : cts' = cts := by rw [hc] at hc'; injection hc' with e; exact e.symm
  subst this
  have hcl : cts'.length = g.T := by rw [transportCosts_length hc, hg.1]
  refine ⟨n0, n1, cts', hn, hc, ?_⟩
  intro fl c
  constructor
  · rintro ⟨f, ⟨hb, _⟩, hfl, rfl⟩
    refine ⟨f, ⟨(transport_bounds_iff p g hg f).mpr hb, ?_⟩, ?_, ?_⟩
    · intro r hr; simp [trProblem] at hr
    · intro n t; rw [hfl n t]; exact (transport_flow p g hg n0 n1 n cts' t f [] [] 1).symm
    · exact (transport_cash p g hg n0 n1 cts' hcl f [] [] 1 hguard hb).symm
  · rintro ⟨y, ⟨hbd, _⟩, hfl, rfl⟩
    have hb := (transport_bounds_iff p g hg y).mp hbd
    refine ⟨y, ⟨hb, ?_, ?_⟩, ?_, ?_⟩
    · intro q hq; simp [transportS] at hq
    · intro q hq; simp [transportS] at hq
    · intro n t; rw [hfl n t]; exact transport_flow p g hg n0 n1 n cts' t y [] [] 1
    · exact transport_cash p g hg n0 n1 cts' hcl y [] [] 1 hguard hb

end EAO.C02
