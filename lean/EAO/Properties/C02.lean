import EAO.Spec.Textbook
import EAO.Lemmas.Textbook
import EAO.Properties.C09
import EAO.Properties.C08
/-!
# C02 — reference equivalence: the assembled LP means what the textbook formulation says

The reference is `EAO/Spec/Textbook.lean` (physical quantities; meant to be read).  For every asset kind a
REFINEMENT theorem relates the asset problem the builder model returns (`EAO/Model`, tied to the code by the
correspondence checks) to the textbook semantics: maps in both directions that preserve feasibility, the flow
into every node at every step (`EAO.C09.flow`) and the cash (`- costAt c 0 x`).  `portfolio_refines` composes
them through `EAO.C09.assemble_feasible_iff` / `assemble_value`: the assembled problem and the textbook
portfolio problem have the same attainable values (stated with upper bounds; no optimum is assumed to exist),
and every feasible point of the assembled problem maps to a textbook-feasible one with the same flows.

Theorems: `portfolio_refines`; `storage_refines_two`, `storage_refines_one`; `transport_refines`,
`ext_transport_refines` (+ `take_rows_spec_transport`); `contract_refines_one`, `contract_refines_two`,
`take_rows_spec`, `contract_take_refines`, `multi_refines`; `empty_window_refines`, `empty_window_refines_storage`.
`IdxInj g` (used where take rows are read): the steps of the window are pairwise different — they are increasing
reference indices of the portfolio grid (`EAO.Storage.IdxInc` is the same fact for storages).

Helper lemmas: `EAO/Lemmas/Textbook.lean` (namespace `EAO.Textbook`).
-/
namespace EAO.C02
open EAO EAO.Storage EAO.Textbook EAO.Perm

/-! ## composition -/

/-- **portfolio_refines.**  If every asset problem and its textbook semantics dominate each other (same flows,
    no less cash, in both directions — `Refines`; equal sets of pairs in the exact cases), then
    (1) every feasible point of the assembled problem is matched by a point of the textbook portfolio problem
        with the same flows of every asset and no less value — in particular EAO's optimal dispatch is feasible
        for the reference;
    (2) every point of the textbook portfolio problem is matched by a feasible point of the assembled problem
        with the same flows and no less value;
    (3) hence both problems have the same upper bounds of their value sets, i.e. the same optimum. -/
theorem portfolio_refines (as : List AssetProblem) (sems : List AssetSem) (hlen : sems.length = as.length)
    (gridI : List Nat) (skip : List String)
    (hwf : ∀ a ∈ as, C09.WF gridI a) (hloc : ∀ a ∈ as, C09.Local a)
    (href : ∀ i, (h : i < as.length) → Refines (as[i]) (sems[i]'(by omega))) :
    (∀ x, (assemble as gridI skip).FeasibleRelaxed x →
      ∃ V, (assemble as gridI skip).value x ≤ V ∧
        portfolioAttain sems skip (fun i n t => C09.flow (as.getD i default) n t (C09.block as i x)) V) ∧
    (∀ fl V, portfolioAttain sems skip fl V →
      ∃ x, (assemble as gridI skip).FeasibleRelaxed x ∧ V ≤ (assemble as gridI skip).value x ∧
        ∀ i, i < as.length → ∀ n t, C09.flow (as.getD i default) n t (C09.block as i x) = fl i n t) ∧
    (∀ B, (∀ x, (assemble as gridI skip).FeasibleRelaxed x → (assemble as gridI skip).value x ≤ B) ↔
          (∀ fl V, portfolioAttain sems skip fl V → V ≤ B)) := by
  obtain ⟨h1, h2⟩ := portfolio_core as sems hlen gridI skip
    (fun a ha => ⟨(hwf a ha).len_l, (hwf a ha).len_u⟩) (fun a ha => (hwf a ha).disp)
    (fun a ha => (hloc a ha).cols) (fun a ha => (hloc a ha).vars) href
  refine ⟨h1, h2, ?_⟩
  intro B
  constructor
  · intro hB fl V hV
    obtain ⟨x, hx, hle, _⟩ := h2 fl V hV
    exact Rat.le_trans hle (hB x hx)
  · intro hB x hx
    obtain ⟨V, hle, hV⟩ := h1 x hx
    exact Rat.le_trans hle (hB _ V hV)

/-! ## storage -/

theorem storage_nodes (p : StorageP) (hne : p.nodes ≠ []) :
    ∃ nIn nOut, nodeIn p = some nIn ∧ nodeOut p = some nOut ∧ (p.nodes.length ≠ 2 → nOut = nIn) := by
  unfold nodeIn nodeOut
  cases h : p.nodes with
  | nil => exact absurd h hne
  | cons a rest =>
    cases rest with
    | nil => exact ⟨a, a, by simp, by simp, fun _ => rfl⟩
    | cons b rest2 =>
      by_cases h2 : (a :: b :: rest2).length = 2
      · exact ⟨a, b, by simp, by rw [if_pos h2]; rfl, fun hh => absurd h2 hh⟩
      · exact ⟨a, a, by simp, by rw [if_neg h2]; rfl, fun _ => rfl⟩

/-- **storage_refines, two-variable form** (efficiency ≠ 1, in/out costs, or separate in/out nodes; plain LP:
    no MIP option, no time blocks).  The problem `buildStorage` returns and the textbook storage have the SAME
    attainable (flows, cash) pairs — charge `= −x_in`, discharge `= x_out`: bounds ⇔ rates, the `2n`
    cumulative-sum rows ⇔ level recursion within `[0, size]` ending at the end level (efficiency on the charge
    side only), flows `−ch` at the first and `+di` at the last node, and minus the cost equals the textbook cash
    (holding cost on the LEVEL, by the tail-sum exchange) plus the constant `holdingConstant` that eaopack
    leaves out of its value.  `hend`: the constructor does not check the end level; for `end ∉ [0, size]` the
    code asks for `level = end` at the last step and nothing else there. -/
theorem storage_refines_two (p : StorageP) (g : Grid) (T : Nat) (prices : Prices) (a : AssetProblem)
    (hb : buildStorage p g T prices = .ok a) (hlen : g.dt.length = g.T) (hpos : 0 < g.T) (hp : Plain p)
    (hend : 0 ≤ p.endLevel ∧ p.endLevel ≤ p.size) (hs : sep p = true) :
    ∃ pr nIn nOut, priceVec p g T prices = .ok pr ∧ nodeIn p = some nIn ∧ nodeOut p = some nOut ∧
      RefinesExactly a (storageSem (storageS p pr nIn nOut) g) := by
  obtain ⟨pr, hpr, hne, rfl⟩ := buildStorage_plain p g T prices a hb (by omega) hp
  obtain ⟨nIn, nOut, hin, hout, _⟩ := storage_nodes p hne
  refine ⟨pr, nIn, nOut, hpr, hin, hout, ?_⟩
  intro fl c
  constructor
  · rintro ⟨d, hd, hfl, rfl⟩
    let y : Vec := fun j => if j < g.T then -(d.ch j) else d.di (j - g.T)
    have hR : ∀ k, k < g.T → d.ch k = -(y k) ∧ d.di k = y (g.T + k) := by
      intro k hk
      have h1 : y k = -(d.ch k) := by simp [y, hk]
      have h2 : y (g.T + k) = d.di k := by
        show (if g.T + k < g.T then -(d.ch (g.T + k)) else d.di (g.T + k - g.T)) = d.di k
        rw [if_neg (by omega), Nat.add_sub_cancel_left]
      rw [h1, h2]; exact ⟨by grind, rfl⟩
    have hflow : ∀ j, j < g.T → p.effIn * d.ch j - d.di j = Storage.flow p g.T y j := by
      intro j hj
      simp only [Storage.flow, hs, if_true]
      rw [(hR j hj).1, (hR j hj).2]
    refine ⟨y, ⟨?_, ?_⟩, ?_, ?_⟩
    · refine (bounds_iff_two p g g.T y hp hs).mpr (fun t ht => ?_)
      obtain ⟨c1, c2, c3, c4, _, _⟩ := hd.1 t ht
      have e1 := (hR t ht).1
      have e2 := (hR t ht).2
      simp only [storageS, dtOf] at c2 c4
      simp only [cp, ct, dtAt]
      grind
    · exact (storage_levels_iff p g pr nIn nOut y d hp.msd hend hflow).mpr
        ⟨fun k hk => ⟨(hd.1 k hk).2.2.2.2.1, (hd.1 k hk).2.2.2.2.2⟩, hd.2⟩
    · intro n t
      rw [hfl n t]
      exact (storage_flow_two p g pr nIn nOut n t y d hs hin hout hR).symm
    · exact (storage_cash_two p g pr nIn nOut y d hp hs hR).symm
  · rintro ⟨y, ⟨hbd, hr⟩, hfl, rfl⟩
    let d : Cycle := ⟨fun k => -(y k), fun k => y (g.T + k)⟩
    have hR : ∀ k, k < g.T → d.ch k = -(y k) ∧ d.di k = y (g.T + k) := fun _ _ => ⟨rfl, rfl⟩
    have hflow : ∀ j, j < g.T → p.effIn * d.ch j - d.di j = Storage.flow p g.T y j := by
      intro j _
      simp only [Storage.flow, hs, if_true, d]
    obtain ⟨l1, l2⟩ := (storage_levels_iff p g pr nIn nOut y d hp.msd hend hflow).mp hr
    refine ⟨d, ⟨?_, l2⟩, ?_, ?_⟩
    · intro k hk
      obtain ⟨b1, b2, b3, b4⟩ := (bounds_iff_two p g g.T y hp hs).mp hbd k hk
      simp only [cp, ct, dtAt] at b1 b4
      refine ⟨?_, ?_, b3, ?_, (l1 k hk).1, (l1 k hk).2⟩
      · show 0 ≤ -(y k); grind
      · show -(y k) ≤ p.capIn * g.dt.getD k 0; grind
      · exact b4
    · intro n t
      rw [hfl n t]
      exact storage_flow_two p g pr nIn nOut n t y d hs hin hout hR
    · exact storage_cash_two p g pr nIn nOut y d hp hs hR

/-- **storage_refines, one-variable form** (efficiency 1, no in/out costs, one node): `x = di − ch`; from `x`
    the textbook dispatch is `ch = max(−x, 0)`, `di = max(x, 0)`.  Same attainable pairs.  `hcap`, `hdt`: the
    constructor's `cap ≥ 0` and non-negative step lengths (a charge of `0` must be within `[0, cap·dt]`). -/
theorem storage_refines_one (p : StorageP) (g : Grid) (T : Nat) (prices : Prices) (a : AssetProblem)
    (hb : buildStorage p g T prices = .ok a) (hlen : g.dt.length = g.T) (hpos : 0 < g.T) (hp : Plain p)
    (hend : 0 ≤ p.endLevel ∧ p.endLevel ≤ p.size) (hs : sep p = false)
    (hcap : 0 ≤ p.capIn ∧ 0 ≤ p.capOut) (hdt : ∀ k, k < g.T → 0 ≤ dtOf g k) :
    ∃ pr nIn, priceVec p g T prices = .ok pr ∧ nodeIn p = some nIn ∧ nodeOut p = some nIn ∧
      RefinesExactly a (storageSem (storageS p pr nIn nIn) g) := by
  obtain ⟨pr, hpr, hne, rfl⟩ := buildStorage_plain p g T prices a hb (by omega) hp
  obtain ⟨he, _, _, hn2⟩ := sep_false p hs
  obtain ⟨nIn, nOut, hin, hout, hsame⟩ := storage_nodes p hne
  have := hsame hn2
  subst this
  refine ⟨pr, nOut, hpr, hin, hout, ?_⟩
  intro fl c
  constructor
  · rintro ⟨d, hd, hfl, rfl⟩
    let y : Vec := fun j => d.di j - d.ch j
    have hR : ∀ k, k < g.T → y k = d.di k - d.ch k := fun _ _ => rfl
    have hflow : ∀ j, j < g.T → p.effIn * d.ch j - d.di j = Storage.flow p g.T y j := by
      intro j _
      simp only [Storage.flow, hs, Bool.false_eq_true, if_false, he, y]; grind
    refine ⟨y, ⟨?_, ?_⟩, ?_, ?_⟩
    · refine (bounds_iff_one p g g.T y hp hs).mpr (fun t ht => ?_)
      obtain ⟨c1, c2, c3, c4, _, _⟩ := hd.1 t ht
      simp only [storageS, dtOf] at c2 c4
      simp only [cp, ct, dtAt]
      show -(p.capIn * g.dt.getD t 0) ≤ d.di t - d.ch t ∧ d.di t - d.ch t ≤ p.capOut * g.dt.getD t 0
      grind
    · exact (storage_levels_iff p g pr nOut nOut y d hp.msd hend hflow).mpr
        ⟨fun k hk => ⟨(hd.1 k hk).2.2.2.2.1, (hd.1 k hk).2.2.2.2.2⟩, hd.2⟩
    · intro n t
      rw [hfl n t]
      exact (storage_flow_one p g pr nOut n t y d hs hin hR).symm
    · exact (storage_cash_one p g pr nOut y d hp hs hR).symm
  · rintro ⟨y, ⟨hbd, hr⟩, hfl, rfl⟩
    let d : Cycle := ⟨fun k => if y k ≤ 0 then -(y k) else 0, fun k => if y k ≤ 0 then 0 else y k⟩
    have hR : ∀ k, k < g.T → y k = d.di k - d.ch k := by
      intro k _
      show y k = (if y k ≤ 0 then 0 else y k) - (if y k ≤ 0 then -(y k) else 0)
      split <;> grind
    have hflow : ∀ j, j < g.T → p.effIn * d.ch j - d.di j = Storage.flow p g.T y j := by
      intro j hj
      simp only [Storage.flow, hs, Bool.false_eq_true, if_false, he]
      rw [hR j hj]; grind
    obtain ⟨l1, l2⟩ := (storage_levels_iff p g pr nOut nOut y d hp.msd hend hflow).mp hr
    refine ⟨d, ⟨?_, l2⟩, ?_, ?_⟩
    · intro k hk
      obtain ⟨b1, b2⟩ := (bounds_iff_one p g g.T y hp hs).mp hbd k hk
      simp only [cp, ct, dtAt] at b1 b2
      have n1 : 0 ≤ p.capIn * g.dt.getD k 0 := Rat.mul_nonneg hcap.1 (hdt k hk)
      have n2 : 0 ≤ p.capOut * g.dt.getD k 0 := Rat.mul_nonneg hcap.2 (hdt k hk)
      refine ⟨?_, ?_, ?_, ?_, (l1 k hk).1, (l1 k hk).2⟩
      · show 0 ≤ (if y k ≤ 0 then -(y k) else 0); split <;> grind
      · show (if y k ≤ 0 then -(y k) else 0) ≤ p.capIn * g.dt.getD k 0; split <;> grind
      · show 0 ≤ (if y k ≤ 0 then 0 else y k); split <;> grind
      · show (if y k ≤ 0 then 0 else y k) ≤ p.capOut * g.dt.getD k 0; split <;> grind
    · intro n t
      rw [hfl n t]
      exact storage_flow_one p g pr nOut n t y d hs hin hR
    · exact storage_cash_one p g pr nOut y d hp hs hR

/-! ## transport -/

/-- **transport_refines.**  The problem `buildTransport` returns and the textbook transport (flow `f_t` within
    `[min, max]·dt_t`, `−f_t` at the first and `+eff·f_t` at the second node, cash `−df_t·cost_t·|f_t|`) have
    the SAME attainable (flows, cash) pairs, with `f = x`.  This includes the sign flip of the cost vector when
    all capacities are ≤ 0 (the guard of the builder — one sign of capacity, or no costs — is what makes a
    single variable per step enough for `|f|`). -/
theorem transport_refines {p : TransportP} {g : Grid} {prices : Prices} {fullT : Nat} {P : AssetProblem}
    (hg : g.Ok) (h : buildTransport p g prices fullT = .ok P) :
    ∃ n0 n1 cts, p.nodes = [n0, n1] ∧ transportCosts p.costsKey g prices fullT = .ok cts ∧
      RefinesExactly P (transportSem (transportS p cts n0 n1 [] [] 1) g) := by
  obtain ⟨cts', hc', hguard⟩ := buildTransport_guard h
  obtain ⟨n0, n1, cts, hn, _, _, hc, rfl⟩ := buildTransport_ok h
  have : cts' = cts := by rw [hc] at hc'; injection hc' with e; exact e.symm
  subst this
  have hcl : cts'.length = g.T := by rw [transportCosts_length hc, hg.1]
  refine ⟨n0, n1, cts', hn, hc, ?_⟩
  intro fl c
  constructor
  · rintro ⟨f, ⟨hb, _⟩, hfl, rfl⟩
    refine ⟨f, ⟨(transport_bounds_iff p g hg f).mpr hb, ?_⟩, ?_, ?_⟩
    · intro r hr; simp [trProblem] at hr
    · intro n t; rw [hfl n t]; exact (transport_flow p g hg n0 n1 n cts' t f [] [] 1).symm
    · exact (transport_cash p g hg n0 n1 cts' hcl f [] [] 1 hguard hb).symm
  · rintro ⟨y, ⟨hbd, _⟩, hfl, rfl⟩
    have hb := (transport_bounds_iff p g hg y).mp hbd
    refine ⟨y, ⟨hb, ?_, ?_⟩, ?_, ?_⟩
    · intro q hq; simp [transportS] at hq
    · intro q hq; simp [transportS] at hq
    · intro n t; rw [hfl n t]; exact transport_flow p g hg n0 n1 n cts' t y [] [] 1
    · exact transport_cash p g hg n0 n1 cts' hcl y [] [] 1 hguard hb

/-! ## contract -/

/-- **contract_refines, one-variable form** (no spread, or capacities of one sign only).  With `lo`, `hi` the
    RATES that `make_vector` returns for `min_cap`, `max_cap` (scalar, array, price key or interval data), the
    problem `buildSimpleContract` returns and the textbook contract — volume `q_t ∈ [lo_t, hi_t]·dt_t`, flow
    `+q_t`, cash `−df_t·(price_t·q_t + ec_t·|q_t|)` — have the SAME attainable (flows, cash) pairs, `q = x`.
    The spread enters the single cost coefficient with the sign of the only possible direction
    (`price − ec` when the contract can only buy, `price + ec` when it can only sell). -/
theorem contract_refines_one {p : ContractP} {g : Grid} {prices : Prices} {fullT : Nat} {P : AssetProblem}
    (hg : g.Ok) (h : buildSimpleContract p g prices fullT = .ok P) :
    ∃ (d : SCData) (minO maxO ecO : List (Option Rat)) (lo hi : List Rat),
      priceVector p.price g prices fullT = .ok d.price ∧
      contractVectors p g prices = .ok (minO, maxO, ecO) ∧ allSome ecO = .ok d.ec ∧
      baseVector p.minCap g prices none = .ok (lo.map some) ∧
      baseVector p.maxCap g prices none = .ok (hi.map some) ∧ p.nodes.head? = some d.node ∧
      (oneVariable d.ec d.minC d.maxC = true →
        RefinesExactly P (contractSem (contractS1 lo hi d.price d.ec d.node) g)) := by
  obtain ⟨d, minO, maxO, ecO, hp, hv, he, hmi, hma, ⟨rest, hn⟩, rfl⟩ := buildSimpleContract_ok h
  obtain ⟨h1, h2, _, _⟩ := contractVectors_ok hv
  obtain ⟨lo, hlo, hlol, hlo'⟩ := capVector_eq hg h2 hmi
  obtain ⟨hi, hhi, hhil, hhi'⟩ := capVector_eq hg h1 hma
  have hl := scData_lengths hg hp hv he hmi hma
  refine ⟨d, minO, maxO, ecO, lo, hi, hp, hv, he, hlo, hhi, by simp [hn], ?_⟩
  intro hone
  rw [if_pos hone]
  have hvol : ∀ q : Nat → Rat,
      (∀ k, k < g.T → lo.getD k 0 * dtOf g k ≤ q k ∧ q k ≤ hi.getD k 0 * dtOf g k) →
      ∀ k, k < g.T → d.minC.getD k 0 ≤ q k ∧ q k ≤ d.maxC.getD k 0 := by
    intro q hq k hk
    rw [hlo', hhi', getD_zipWith_mul _ _ _ (by omega) (by rw [hg.2.1]; exact hk),
      getD_zipWith_mul _ _ _ (by omega) (by rw [hg.2.1]; exact hk)]
    exact hq k hk
  intro fl c
  constructor
  · rintro ⟨q, ⟨hb, _⟩, hfl, rfl⟩
    refine ⟨q, ⟨?_, ?_⟩, ?_, ?_⟩
    · show InBounds d.minC d.maxC q
      rw [hlo', hhi']
      exact (contract_bounds_iff lo hi g hg hlol hhil q).mpr hb
    · intro r hr; simp [scOne] at hr
    · intro n t; rw [hfl n t]; exact (contract_flow_one p g hg d lo hi n t q).symm
    · exact (contract_cash_one p g hg d lo hi q hl hone (hvol q hb)).symm
  · rintro ⟨y, ⟨hbd, _⟩, hfl, rfl⟩
    have hbd' : InBounds d.minC d.maxC y := hbd
    rw [hlo', hhi'] at hbd'
    have hb := (contract_bounds_iff lo hi g hg hlol hhil y).mp hbd'
    refine ⟨y, ⟨hb, ?_, ?_⟩, ?_, ?_⟩
    · intro q hq; simp [contractS1] at hq
    · intro q hq; simp [contractS1] at hq
    · intro n t; rw [hfl n t]; exact contract_flow_one p g hg d lo hi n t y
    · exact contract_cash_one p g hg d lo hi y hl hone (hvol y hb)

/-! ## contracts with a spread on both sides, take periods, several commodities -/

/-- what a successful set-up of a (simple) contract looked at: `d.price` the price sampled at the window,
    `d.ec` the spread, `d.minC`/`d.maxC` the volume limits, `lo`/`hi` the RATES `make_vector` returns for
    `min_cap`/`max_cap` (scalar, array, price key or interval data), `d.node` the contract's (first) node -/
structure ContractData (p : ContractP) (g : Grid) (prices : Prices) (fullT : Nat) (d : SCData) (lo hi : List Rat) :
    Prop where
  price   : priceVector p.price g prices fullT = .ok d.price
  vectors : ∃ minO maxO ecO, contractVectors p g prices = .ok (minO, maxO, ecO) ∧ allSome ecO = .ok d.ec ∧
              allSome minO = .ok d.minC ∧ allSome maxO = .ok d.maxC
  lo_rate : baseVector p.minCap g prices none = .ok (lo.map some)
  hi_rate : baseVector p.maxCap g prices none = .ok (hi.map some)
  node    : p.nodes.head? = some d.node

/-- inversion of `buildSimpleContract`, with everything the refinement theorems need -/
theorem simple_data {p : ContractP} {g : Grid} {prices : Prices} {fullT : Nat} {a : AssetProblem}
    (hg : g.Ok) (h : buildSimpleContract p g prices fullT = .ok a) :
    ∃ (d : SCData) (lo hi : List Rat), ContractData p g prices fullT d lo hi ∧
      (d.price.length = g.T ∧ d.ec.length = g.T ∧ d.minC.length = g.T ∧ d.maxC.length = g.T) ∧
      lo.length = g.T ∧ hi.length = g.T ∧
      d.minC = List.zipWith (· * ·) lo g.dt ∧ d.maxC = List.zipWith (· * ·) hi g.dt ∧
      a = (if oneVariable d.ec d.minC d.maxC then scOne p g d else scTwo p g d) := by
  obtain ⟨d, minO, maxO, ecO, hp, hv, he, hmi, hma, ⟨rest, hn⟩, rfl⟩ := buildSimpleContract_ok h
  obtain ⟨h1, h2, _, _⟩ := contractVectors_ok hv
  obtain ⟨lo, hlo, hlol, hlo'⟩ := capVector_eq hg h2 hmi
  obtain ⟨hi, hhi, hhil, hhi'⟩ := capVector_eq hg h1 hma
  exact ⟨d, lo, hi, ⟨hp, ⟨minO, maxO, ecO, hv, he, hmi, hma⟩, hlo, hhi, by simp [hn]⟩,
    scData_lengths hg hp hv he hmi hma, hlol, hhil, hlo', hhi', rfl⟩

/-- **contract_refines_two.**  `buildSimpleContract` in its two-variable form (a spread, capacities of both
    signs), for a non-negative spread and non-negative discount factors: the problem and the textbook contract
    `Refine` each other in the sense of `portfolio_refines` — textbook → model by splitting `q` into its negative
    and positive part (same flow, same cash), model → textbook by netting `q = x_in + x_out` (same flow, no less
    cash: `|x_in + x_out| ≤ x_out − x_in`).  Not an equality of the sets of pairs: the model also allows wasteful
    simultaneous buying and selling.  `Ex.ec_nonneg_needed` shows that `hec` cannot be dropped. -/
theorem contract_refines_two {p : ContractP} {g : Grid} {prices : Prices} {fullT : Nat} {P : AssetProblem}
    (hg : g.Ok) (hinj : IdxInj g) (h : buildSimpleContract p g prices fullT = .ok P) :
    ∃ (d : SCData) (lo hi : List Rat), ContractData p g prices fullT d lo hi ∧
      (oneVariable d.ec d.minC d.maxC = false →
        (∀ k, k < g.T → 0 ≤ d.ec.getD k 0) → (∀ k, k < g.T → 0 ≤ dfOf g k) →
        Refines P (contractSem (contractS1 lo hi d.price d.ec d.node) g)) := by
  obtain ⟨d, lo, hi, hd, hl, _, _, hlo', hhi', rfl⟩ := simple_data hg h
  refine ⟨d, lo, hi, hd, ?_⟩
  intro htwo hec hdf
  have := contract_gen_two p g hg hinj d lo hi hl hlo' hhi' hec hdf 1 [(d.node, 1)] [] []
  rw [contractP_simple _ d.node (sc_nodes p g d).2, contractSG_simple] at this
  simpa [htwo] using this

/-- **take_rows_spec.**  The take rows of `buildContract` hold at `x` iff the textbook take constraints
    `Σ_{t ∈ period ∩ window} q_t (≤ | ≥) V·covered time/((e−s)/unit)` hold for the physical volume: `q = x` in the
    one-variable form, `q = x_in + x_out` in the two-variable form (a row sums the mapping factors at the
    covered steps).  Periods covering no step of the window restrict nothing (there is no row). -/
theorem take_rows_spec {p : ContractP} {g : Grid} {prices : Prices} {fullT u : Nat} {P : AssetProblem}
    (hg : g.Ok) (hinj : IdxInj g) (h : buildContract p g prices fullT u = .ok P) (y : Vec) :
    (∀ r ∈ P.rows, r.Sat y) ↔
      takesOK g u (p.maxTake.map toPeriod) (p.minTake.map toPeriod)
        (fun k => if P.n = g.T then y k else y k + y (g.T + k)) := by
  obtain ⟨a, ha, rfl⟩ := buildContract_ok h
  obtain ⟨d, lo, hi, _, hl, _, _, _, _, rfl⟩ := simple_data hg ha
  by_cases hone : oneVariable d.ec d.minC d.maxC = true
  · simp only [hone, if_true]
    have hn : (scOne p g d).c.length = g.T := by
      simp [scOne, oneVarPrice_length hl.1 hl.2.1, hg.2.2]
    obtain ⟨hne, hq⟩ := takes_one p g hg hinj d y
    have := contract_rows_iff (scOne p g d) rfl g u [(d.node, 1)] p.maxTake p.minTake y y hne hq
    rw [contractP_plain _ d.node (sc_nodes p g d).1] at this
    simpa [AssetProblem.n, hn] using this
  · have hone' : oneVariable d.ec d.minC d.maxC = false := by simpa using hone
    simp only [hone', Bool.false_eq_true, if_false]
    have hn : (scTwo p g d).c.length = 2 * g.T := by
      simp [scTwo, hl.1, hl.2.1, hg.2.2]; omega
    obtain ⟨hne, hq⟩ := takes_two p g hg hinj d y
    by_cases hT : g.T = 0
    · -- no step at all: no row, and no period covers a step
      have h0 : ∀ q, takesOK g u (p.maxTake.map toPeriod) (p.minTake.map toPeriod) q :=
        fun q => takesOK_empty g hT u _ _ q
      have := contract_rows_iff (scTwo p g d) rfl g u [(d.node, 1)] p.maxTake p.minTake y
        (fun k => y k + y (g.T + k)) hne hq
      rw [contractP_plain _ d.node (sc_nodes p g d).2] at this
      exact ⟨fun _ => h0 _, fun _ => this.mpr (h0 _)⟩
    · have := contract_rows_iff (scTwo p g d) rfl g u [(d.node, 1)] p.maxTake p.minTake y
        (fun k => y k + y (g.T + k)) hne hq
      rw [contractP_plain _ d.node (sc_nodes p g d).2] at this
      have hne' : ¬ (2 * g.T = g.T) := by omega
      simpa [AssetProblem.n, hn, hne'] using this

/-- **contract_take_refines.**  `buildContract` (capacities, spread, minimum/maximum takes) against the textbook
    contract with the same take periods: equal sets of attainable pairs in the one-variable form, mutual
    domination (`Refines`) in the two-variable form under `ec ≥ 0`, `df ≥ 0`. -/
theorem contract_take_refines {p : ContractP} {g : Grid} {prices : Prices} {fullT u : Nat} {P : AssetProblem}
    (hg : g.Ok) (hinj : IdxInj g) (h : buildContract p g prices fullT u = .ok P) :
    ∃ (d : SCData) (lo hi : List Rat), ContractData p g prices fullT d lo hi ∧
      (oneVariable d.ec d.minC d.maxC = true →
        RefinesExactly P (contractSem (contractSG lo hi d.price d.ec [(d.node, 1)] p.maxTake p.minTake u) g)) ∧
      (oneVariable d.ec d.minC d.maxC = false →
        (∀ k, k < g.T → 0 ≤ d.ec.getD k 0) → (∀ k, k < g.T → 0 ≤ dfOf g k) →
        Refines P (contractSem (contractSG lo hi d.price d.ec [(d.node, 1)] p.maxTake p.minTake u) g)) := by
  obtain ⟨a, ha, rfl⟩ := buildContract_ok h
  obtain ⟨d, lo, hi, hd, hl, hlol, hhil, hlo', hhi', rfl⟩ := simple_data hg ha
  refine ⟨d, lo, hi, hd, ?_, ?_⟩
  · intro hone
    have := contract_gen_one p g hg hinj d lo hi hl hlol hhil hlo' hhi' hone u [(d.node, 1)] p.maxTake p.minTake
    rw [contractP_plain _ d.node (sc_nodes p g d).1] at this
    simpa [hone] using this
  · intro htwo hec hdf
    have := contract_gen_two p g hg hinj d lo hi hl hlo' hhi' hec hdf u [(d.node, 1)] p.maxTake p.minTake
    rw [contractP_plain _ d.node (sc_nodes p g d).2] at this
    simpa [htwo] using this

/-- **multi_refines.**  `buildMulti` (a contract whose single dispatch variable is booked at every node `k` with
    `factor_k`): the textbook multi-commodity contract has the flows `factor_k·q_t` at node `k` and the feasible
    set (capacities, takes on `q`) and cash of the underlying contract. -/
theorem multi_refines {p : ContractP} {factors : List Rat} {g : Grid} {prices : Prices} {fullT u : Nat}
    {P : AssetProblem} (hg : g.Ok) (hinj : IdxInj g) (h : buildMulti p factors g prices fullT u = .ok P) :
    factors.length = p.nodes.length ∧
    ∃ (d : SCData) (lo hi : List Rat), ContractData p g prices fullT d lo hi ∧
      (oneVariable d.ec d.minC d.maxC = true →
        RefinesExactly P
          (contractSem (contractSG lo hi d.price d.ec (p.nodes.zip factors) p.maxTake p.minTake u) g)) ∧
      (oneVariable d.ec d.minC d.maxC = false →
        (∀ k, k < g.T → 0 ≤ d.ec.getD k 0) → (∀ k, k < g.T → 0 ≤ dfOf g k) →
        Refines P
          (contractSem (contractSG lo hi d.price d.ec (p.nodes.zip factors) p.maxTake p.minTake u) g)) := by
  obtain ⟨hf, b, hb, rfl⟩ := buildMulti_ok h
  obtain ⟨a, ha, rfl⟩ := buildContract_ok hb
  obtain ⟨d, lo, hi, hd, hl, hlol, hhil, hlo', hhi', rfl⟩ := simple_data hg ha
  refine ⟨hf, d, lo, hi, hd, ?_, ?_⟩
  · intro hone
    have := contract_gen_one p g hg hinj d lo hi hl hlol hhil hlo' hhi' hone u (p.nodes.zip factors)
      p.maxTake p.minTake
    simpa [hone, contractP, multiMap] using this
  · intro htwo hec hdf
    have := contract_gen_two p g hg hinj d lo hi hl hlo' hhi' hec hdf u (p.nodes.zip factors)
      p.maxTake p.minTake
    simpa [htwo, contractP, multiMap] using this

/-! ## extended transport -/

/-- take rows of `buildExtTransport` ⇔ textbook take constraints on the volume `f` leaving the first node
    (the rows sit at the first node, whose mapping rows carry the factor −1: a maximum take is an `L` row with
    negated volume) -/
theorem take_rows_spec_transport {p : TransportP} {g : Grid} {prices : Prices} {fullT u : Nat} {P : AssetProblem}
    (hg : g.Ok) (hinj : IdxInj g) (hnd : p.nodes.Nodup) (h : buildExtTransport p g prices fullT u = .ok P)
    (y : Vec) :
    (∀ r ∈ P.rows, r.Sat y) ↔ takesOK g u (p.maxTake.map toPeriod) (p.minTake.map toPeriod) y := by
  obtain ⟨a, ha, rfl⟩ := buildExtTransport_ok h
  obtain ⟨n0, n1, cts, hn, _, _, _, rfl⟩ := buildTransport_ok ha
  have h01 : n0 ≠ n1 := by rw [hn] at hnd; simpa using hnd
  have := ext_rows_iff p g hg hinj n0 n1 cts h01 u p.maxTake p.minTake y
  simpa [hn, trProblem] using this

/-- **ext_transport_refines.**  `buildExtTransport` against the textbook transport with take periods on the
    volume leaving the first node: the SAME attainable (flows, cash) pairs. -/
theorem ext_transport_refines {p : TransportP} {g : Grid} {prices : Prices} {fullT u : Nat} {P : AssetProblem}
    (hg : g.Ok) (hinj : IdxInj g) (hnd : p.nodes.Nodup) (h : buildExtTransport p g prices fullT u = .ok P) :
    ∃ n0 n1 cts, p.nodes = [n0, n1] ∧ transportCosts p.costsKey g prices fullT = .ok cts ∧
      RefinesExactly P
        (transportSem (transportS p cts n0 n1 (p.maxTake.map toPeriod) (p.minTake.map toPeriod) u) g) := by
  have hrows := fun y => take_rows_spec_transport hg hinj hnd h y
  obtain ⟨a, ha, rfl⟩ := buildExtTransport_ok h
  obtain ⟨cts', hc', hguard⟩ := buildTransport_guard ha
  obtain ⟨n0, n1, cts, hn, _, _, hc, rfl⟩ := buildTransport_ok ha
  have : cts' = cts := by rw [hc] at hc'; injection hc' with e; exact e.symm
  subst this
  have hcl : cts'.length = g.T := by rw [transportCosts_length hc, hg.1]
  refine ⟨n0, n1, cts', hn, hc, ?_⟩
  intro fl c
  constructor
  · rintro ⟨f, ⟨hb, htk⟩, hfl, rfl⟩
    refine ⟨f, ⟨(transport_bounds_iff p g hg f).mpr hb, (hrows f).mpr htk⟩, ?_, ?_⟩
    · intro n t; rw [hfl n t]; exact (transport_flow p g hg n0 n1 n cts' t f _ _ u).symm
    · exact (transport_cash p g hg n0 n1 cts' hcl f _ _ u hguard hb).symm
  · rintro ⟨y, ⟨hbd, hr⟩, hfl, rfl⟩
    have hb := (transport_bounds_iff p g hg y).mp hbd
    refine ⟨y, ⟨hb, (hrows y).mp hr⟩, ?_, ?_⟩
    · intro n t; rw [hfl n t]; exact transport_flow p g hg n0 n1 n cts' t y _ _ u
    · exact transport_cash p g hg n0 n1 cts' hcl y _ _ u hguard hb

/-! ## the empty window -/

/-- **empty window, contracts and transports.**  On a window without a step (`g.T = 0`: the asset's window lies
    outside the horizon) every one of the five builders returns the problem without variables
    (`EAO.C08.empty_window_inert`); it attains exactly (no flow, no cash) — as does every textbook contract and
    every textbook transport on that window. -/
theorem empty_window_refines {g : Grid} {name : String} {nodes : List String} {P : AssetProblem}
    (hg : g.Ok) (hT : g.T = 0) (h : C08.BuiltBy g name nodes P) :
    (∀ c : ContractS, RefinesExactly P (contractSem c g)) ∧ (∀ r : TransportS, RefinesExactly P (transportSem r g)) := by
  obtain ⟨h1, h2, _, h4, h5⟩ := C08.empty_window_inert hg hT h
  exact ⟨fun c fl v => by rw [contractSem_empty c g hT, empty_attain P ⟨h1, h2, h4, h5⟩],
         fun r fl v => by rw [transportSem_empty r g hT, empty_attain P ⟨h1, h2, h4, h5⟩]⟩

/-- **empty window, storage** (any options) -/
theorem empty_window_refines_storage (p : StorageP) (g : Grid) (T : Nat) (prices : Prices) (a : AssetProblem)
    (hb : buildStorage p g T prices = .ok a) (hlen : g.dt.length = g.T) (hT : g.T = 0) :
    ∀ s : StorageS, RefinesExactly a (storageSem s g) := by
  unfold buildStorage at hb
  rw [if_pos (by omega)] at hb
  cases hb
  intro s fl v
  rw [storageSem_empty s g hT, empty_attain _ ⟨rfl, rfl, rfl, rfl⟩]

end EAO.C02

/-! ### non-vacuity and numeric cross-checks (evaluated by the kernel) -/
namespace EAO.C02.Ex
open EAO EAO.Storage EAO.Textbook EAO.Perm

def vecOf (xs : List Rat) : Vec := fun j => xs.getD j 0
def feasB (a : AssetProblem) (x : Vec) : Bool := decide (InBounds a.l a.u x) && a.rows.all fun r => decide (r.Sat x)

/-- two steps of one hour, discounted with 1 and 1/2 -/
def g2 : Grid := { pts := [0, 3600], idx := [0, 1], dt := [1, 1], Dt := [1, 2], df := [1, 1/2] }

/-- two-node storage with everything switched on: efficiency 1/2, inflow, start 1, end 0, all three costs -/
def st : StorageP :=
  { name := "s", nodes := ["a", "b"], size := 2, capIn := 1, capOut := 1, startLevel := 1, endLevel := 0,
    costIn := 1/8, costOut := 1/4, costStore := 1/4, effIn := 1/2, inflow := 1/8, price := none,
    noSimult := false, maxStoreDuration := none, blocks := none }

/-- discharge 1 and 1/4: levels 1/8 and 0 -/
def stY : Vec := vecOf [0, 0, 1, 1/4]
def stD : Cycle := ⟨fun k => -(stY k), fun k => stY (2 + k)⟩

/-- hypotheses of `storage_refines_two` hold and the set-up succeeds with a feasible point that moves volume … -/
example : g2.dt.length = g2.T ∧ 0 < g2.T ∧ (0 ≤ st.endLevel ∧ st.endLevel ≤ st.size) ∧ sep st = true ∧
    (match buildStorage st g2 2 [] with | .ok a => feasB a stY | .error _ => false) = true := by decide +kernel
example : Plain st := ⟨rfl, rfl, rfl⟩

/-- … and on it: levels 1/8, 0; minus the model's cost = textbook cash + holding constant (= 7/16);
    flows `+1`, `+1/4` at the discharge node `b`, nothing at `a` -/
example : (List.range 2).map (fun k => level (storageS st (fun _ => 0) "a" "b") g2 stD (k + 1)) = [1/8, 0] ∧
    (match buildStorage st g2 2 [] with
      | .ok a => decide (- costAt a.c 0 stY = (storageS st (fun _ => 0) "a" "b").cash g2 stD
                          + (storageS st (fun _ => 0) "a" "b").holdingConstant g2) &&
                 decide (flowOf a "b" 0 stY = 1) && decide (flowOf a "b" 1 stY = 1/4) && decide (flowOf a "a" 0 stY = 0)
      | .error _ => false) = true ∧
    (storageS st (fun _ => 0) "a" "b").holdingConstant g2 = 7/16 ∧
    (storageS st (fun _ => 0) "a" "b").flows g2 stD "b" 1 = 1/4 := by decide +kernel

/-- transport with capacities ≤ 0 (flow from the second to the first node), costs 1/2, efficiency 3/4:
    the set-up succeeds; for `f = (−1, −2)` minus the model's cost equals the textbook cash `−Σ df·cost·|f|` -/
def tr : TransportP :=
  { name := "t", nodes := ["a", "b"], costsConst := 1/2, costsKey := none, minCap := -2, maxCap := 0,
    efficiency := 3/4, minTake := [], maxTake := [] }
example : g2.Ok ∧ (match buildTransport tr g2 [] 2 with
      | .ok a => feasB a (vecOf [-1, -2]) &&
                 decide (- costAt a.c 0 (vecOf [-1, -2]) = (transportS tr [0, 0] "a" "b" [] [] 1).cash g2 (vecOf [-1, -2])) &&
                 decide (flowOf a "a" 1 (vecOf [-1, -2]) = 2) && decide (flowOf a "b" 1 (vecOf [-1, -2]) = -3/2)
      | .error _ => false) = true ∧
    (transportS tr [0, 0] "a" "b" [] [] 1).cash g2 (vecOf [-1, -2]) = -1 := by decide +kernel

/-- contract that can only buy, with a spread: one variable, cost coefficient `price − ec` -/
def ctBuy : ContractP :=
  { name := "c", nodes := ["n"], price := some "p", extraCosts := .scalar (1/2), minCap := .scalar (-2),
    maxCap := .scalar 0, minTake := [], maxTake := [] }
example : (match buildSimpleContract ctBuy g2 [("p", [3, 5])] 2 with
      | .ok a => feasB a (vecOf [-1, -2]) && decide (a.c = [5/2, 9/4]) &&
                 decide (- costAt a.c 0 (vecOf [-1, -2])
                   = (contractS1 [-2, -2] [0, 0] [3, 5] [1/2, 1/2] "n").cash g2 (vecOf [-1, -2]))
      | .error _ => false) = true := by decide +kernel

/-! ### `ec ≥ 0` is needed for the two-variable form

Spread `−1`, capacities `[−1, 1]`, one step: the model's point `x_in = −1`, `x_out = 1` is feasible, puts nothing
into the node and earns `2`; the textbook contract with no flow (`q = 0`) earns `0`. -/
def g1 : Grid := { pts := [0], idx := [0], dt := [1], Dt := [1], df := [1] }
def ctNeg : ContractP :=
  { name := "c", nodes := ["n"], price := none, extraCosts := .scalar (-1), minCap := .scalar (-1),
    maxCap := .scalar 1, minTake := [], maxTake := [] }

theorem ec_nonneg_needed :
    (match buildSimpleContract ctNeg g1 [] 1 with
      | .ok a => decide (a.n = 2) && feasB a (vecOf [-1, 1]) && decide (flowOf a "n" 0 (vecOf [-1, 1]) = 0) &&
                 decide (- costAt a.c 0 (vecOf [-1, 1]) = 2)
      | .error _ => false) = true ∧
    ∀ q : Nat → Rat, (contractS1 [-1] [1] [0] [-1] "n").flows g1 q "n" 0 = 0 →
      (contractS1 [-1] [1] [0] [-1] "n").cash g1 q = 0 := by
  refine ⟨by decide +kernel, ?_⟩
  intro q hq
  have h0 : q 0 = 0 := by
    simp [ContractS.flows, contractS1, atStep, sumN, stepOf, g1, Grid.T] at hq
    grind
  simp [ContractS.cash, contractS1, sumN, g1, Grid.T, h0, absR, dfOf]
  grind

/-! ### multi-commodity contract with a spread on both sides and a maximum take (two-variable form) -/

theorem g2_inj : IdxInj g2 := by
  intro i j hi hj h
  simp only [g2, Grid.T, List.length] at hi hj
  rcases i with _ | _ | i <;> rcases j with _ | _ | j <;> simp_all [g2] <;> omega

/-- 4 h period with volume 4, of which the 2 h of the window are covered: limit 2 -/
def ctM : ContractP :=
  { name := "c", nodes := ["n", "m"], price := some "p", extraCosts := .scalar (1/2), minCap := .scalar (-2),
    maxCap := .scalar 3, minTake := [], maxTake := [(0, 14400, 4)] }
def ctMS : ContractS := contractSG [-2, -2] [3, 3] [3, 5] [1/2, 1/2] [("n", 2), ("m", 1/2)] ctM.maxTake [] 3600
/-- buys 1 and sells 1 in step 0 (wasteful), sells 2 in step 1: net `q = (0, 2)` -/
def ctMY : Vec := vecOf [-1, 0, 1, 2]
def ctMQ : Nat → Rat := fun k => ctMY k + ctMY (2 + k)

/-- hypotheses of `multi_refines` (two-variable branch) hold; on the model's point: feasible, flows `factor·q`
    at both nodes, take volume 2 at its prorated limit 2, and the netted textbook point earns MORE (−11/2 vs −13/2) -/
example : g2.Ok ∧ (∀ k, k < g2.T → 0 ≤ dfOf g2 k) ∧
    (match buildMulti ctM [2, 1/2] g2 [("p", [3, 5])] 2 3600 with
      | .ok a => decide (a.n = 4) && feasB a ctMY &&
                 decide (flowOf a "n" 1 ctMY = 4) && decide (flowOf a "m" 1 ctMY = 1) &&
                 decide (flowOf a "n" 0 ctMY = 0) &&
                 decide (- costAt a.c 0 ctMY = -13/2) && decide (ctMS.cash g2 ctMQ = -11/2)
      | .error _ => false) = true ∧
    ctMS.flows g2 ctMQ "n" 1 = 4 ∧ ctMS.flows g2 ctMQ "m" 1 = 1 ∧
    (toPeriod (0, 14400, 4)).limit g2 3600 = 2 ∧ (toPeriod (0, 14400, 4)).volume g2 ctMQ = 2 := by
  decide +kernel

/-- extended transport (positive direction) with a maximum take: hypotheses of `ext_transport_refines` hold -/
def xt : TransportP :=
  { name := "t", nodes := ["a", "b"], costsConst := 1/2, costsKey := none, minCap := 0, maxCap := 2,
    efficiency := 3/4, minTake := [], maxTake := [(0, 14400, 4)] }
example : xt.nodes.Nodup ∧ (match buildExtTransport xt g2 [] 2 3600 with
      | .ok a => feasB a (vecOf [1, 1]) && !(feasB a (vecOf [2, 1])) && decide (a.rows.length = 1)
      | .error _ => false) = true := by decide +kernel

/-- empty window: the set-up of a contract on a grid without steps succeeds and has no variable -/
def g0 : Grid := { pts := [], idx := [], dt := [], Dt := [], df := [] }
example : g0.Ok ∧ g0.T = 0 ∧ (match buildContract ctM g0 [("p", [3, 5])] 2 3600 with
      | .ok a => decide (a.n = 0) | .error _ => false) = true := by decide +kernel

end EAO.C02.Ex
