import EAO.Model.SplitStorage
import EAO.Lemmas.SplitStorage
import EAO.Properties.C14
/-!
# C14 for storages — the split optimisation of a portfolio WITH storages, at builder level

`EAO.C14B` proves split = unsplit for contracts and transports.  A storage couples the intervals through its level;
`EAO.C14` handles that with a per-instance certificate (`splitLeWitness`).  This file PROVES it for the `Storage`
builder in LP form (no time blocks, no boolean options, `freq = None`):

* `storage_interval_is_restart` — in an interval the split set-up builds the storage afresh on the asset grid picked at
  the interval's steps (`storageOn`), and that problem is literally the restriction of the **restart form** of the
  unsplit storage (`withIntervalRows`: same variables, costs, bounds, mapping; the level rows of every interval instead
  of the cumulative ones) to the interval's steps.
* `storage_interval_rows` — what those rows are, on the unsplit variables: the level rows of a storage that starts
  with `start_level` at the interval's first position and pins `end_level` at its last (`restartUpper`, `restartLower`).
* `storage_split_feasible_in_unsplit` — start level = end level in `[0, size]`, intervals cutting the storage's grid
  into consecutive pieces: every point that satisfies the bounds and ALL interval level rows satisfies the bounds and
  all cumulative level rows of the unsplit storage (whatever `cost_store`, `inflow`, efficiency, costs, price).
* `split_is_restart_builders` — portfolios of contracts, transports and storages: under the decidable hypotheses
  `splitHypsS` the split set-up succeeds and IS the restart problem `setupRestart` (witness of `EAO.C14` TRUE for the
  explicit matching) — whatever the start and end levels.
* `restart_in_unsplit_builders`, `split_le_unsplit_builders`, `split_solution_le_unsplit_builders` — with
  `levelHypsS` (every storage: start = end in `[0, size]`): the restart problem has the variables, costs, bounds and
  mapping of the unsplit problem and a feasible set inside it; hence every split-feasible point, transported along the
  explicit matching, is unsplit-feasible with the same value; split never exceeds unsplit; the concatenated interval
  solutions are an unsplit-feasible dispatch worth the sum of the interval values.
* Witness for start ≠ end (F-14g) at the end of the file.

The model of the split set-up (`setupSplitS`) is tied to `Portfolio.setup_split_optim_problem` by the correspondence
`harness/comp/splitstorage.py`, which also evaluates `splitHypsS`, `levelHypsS` and the restart witness on every case.
-/
namespace EAO.C14S
open EAO EAO.SplitStorage EAO.SplitBuild

/-! ## (1) one storage -/

/-- **The interval problem of a storage is the storage built on the interval grid, and that is the restart form of the
    unsplit storage restricted to the interval.**  `g` is the storage's grid on the full horizon, `I` the original steps
    of one of the pairwise disjoint intervals `Is`; LP form, no storage costs. -/
theorem storage_interval_is_restart (p : StorageP) (g : Grid) (T Tref : Nat) (prices : Prices) (A : AssetProblem)
    (Is : List (List Nat)) (I : List Nat) (hg : g.Ok) (hidx : ∀ t ∈ g.idx, t < Tref) (hlp : p.lp = true)
    (hcs : p.costStore = 0) (hI : I ∈ Is) (hdis : Is.Pairwise fun I J => ∀ t ∈ I, t ∉ J)
    (hA : buildStorage p g T prices = .ok A) :
    buildStorage p (g.pick I) I.length (pickPrices I prices) = .ok (storageOn p g prices I) ∧
    (A.withIntervalRows Is (storageOn p g prices)).restrictTo I = storageOn p g prices I := by
  obtain ⟨pr, rfl, hpr⟩ := buildStorage_form p g T prices A hg hlp hA
  have hform := fun I => storageOn_form p g T prices pr I hg hlp hpr
  let prI : List Nat → Nat → Rat := fun I => Classical.choose (hform I)
  have hprI := fun I => Classical.choose_spec (hform I)
  have hfun : storageOn p g prices = fun I' => storForm p (g.pick I') (prI I') := by
    funext I'; exact (hprI I').2.1
  have hB0 : Banded (storForm p g pr) Tref := storForm_banded p g pr Tref hg hlp hidx _ (storForm_rows_ok p g pr hlp)
  refine ⟨by rw [(hprI I).2.1]; exact (hprI I).1, ?_⟩
  rw [hfun]
  exact restart_restrict p g pr prI Is I hg hlp hcs hI (keep_pairwise hB0 Is hdis) (hprI I).2.2

/-- **The level rows restart.**  When the interval's steps are the positions `a .. a+m-1` of the storage's grid, the
    rows of the interval storage, written with the unsplit variables (`liftRows`), hold at `y` iff the level rows of a
    storage that starts with `start_level` at position `a` and pins `end_level` at position `a+m-1` hold. -/
theorem storage_interval_rows (p : StorageP) (g : Grid) (T : Nat) (prices : Prices) (A : AssetProblem) (I : List Nat)
    (a m : Nat) (hg : g.Ok) (hlp : p.lp = true) (hpos : g.posIn I = List.range' a m)
    (hA : buildStorage p g T prices = .ok A) (y : Vec) :
    (∀ r ∈ liftRows A I (storageOn p g prices I), r.Sat y) ↔
      ∀ i, i < m → (Storage.restartUpper p g a m i).Sat y ∧ (Storage.restartLower p g a m i).Sat y := by
  obtain ⟨pr, rfl, hpr⟩ := buildStorage_form p g T prices A hg hlp hA
  obtain ⟨prI, _, h2, _⟩ := storageOn_form p g T prices pr I hg hlp hpr
  rw [h2]
  exact lift_rows_restart p g pr prI I hg hlp a m hpos y

/-- **Start level = end level: the concatenated interval solutions satisfy every level row of the unsplit storage.**
    If the intervals cut the storage's grid into consecutive pieces (`tiles`) and `0 ≤ start_level = end_level ≤ size`,
    every point feasible for the restart form (bounds and all interval level rows) is feasible for the unsplit
    storage: the level after every interval is `start_level` again, so the cumulative sums of the unsplit rows are the
    interval sums. -/
theorem storage_split_feasible_in_unsplit (p : StorageP) (g : Grid) (T : Nat) (prices : Prices) (A : AssetProblem)
    (Is : List (List Nat)) (hg : g.Ok) (hlp : p.lp = true) (hlev : p.levelOK = true) (ht : tiles g Is = true)
    (hA : buildStorage p g T prices = .ok A) (y : Vec)
    (hy : (A.withIntervalRows Is (storageOn p g prices)).FeasibleRelaxed y) : A.FeasibleRelaxed y := by
  obtain ⟨pr, rfl, hpr⟩ := buildStorage_form p g T prices A hg hlp hA
  have hform := fun I => storageOn_form p g T prices pr I hg hlp hpr
  let prI : List Nat → Nat → Rat := fun I => Classical.choose (hform I)
  have hprI := fun I => Classical.choose_spec (hform I)
  refine ⟨hy.1, restart_rows_imply p g pr prI Is hg hlp hlev ht y (fun I hI r hr => ?_)⟩
  apply hy.2 r
  refine List.mem_flatMap.mpr ⟨I, hI, ?_⟩
  rw [(hprI I).2.1]
  exact hr

/-- **The cost vectors, with `cost_store`.**  For every dispatch `y` of the unsplit storage: its unsplit cost `c·y` is
    the sum over the intervals of the interval storage's cost of the interval's part of `y`, PLUS, per interval, the
    storage costs of all steps AFTER the interval (`storeAfter` at the interval's end) times the net level change of the
    interval (`levelInc` summed over the interval's positions).  The interval cost vectors count the holding costs
    inside the interval only; what an interval leaves in the storage is paid for later.  No condition on the levels;
    `cost_store`, `inflow`, efficiency and prices arbitrary. -/
theorem storage_split_value (p : StorageP) (g : Grid) (T : Nat) (prices : Prices) (A : AssetProblem)
    (Is : List (List Nat)) (hg : g.Ok) (hlp : p.lp = true) (ht : tiles g Is = true)
    (hA : buildStorage p g T prices = .ok A) (y : Vec) :
    costAt A.c 0 y =
      (Is.map fun I =>
        costAt (storageOn p g prices I).c 0 (fun v => y ((A.keep I).getD v 0)) +
        Storage.storeAfter p g (g.segEnd I) *
          (sumTo (Storage.levelInc p g.T y) (g.segEnd I) - sumTo (Storage.levelInc p g.T y) (g.segStart I))).sum := by
  obtain ⟨pr, rfl, hpr⟩ := buildStorage_form p g T prices A hg hlp hA
  have hform := fun I => storageOn_form p g T prices pr I hg hlp hpr
  let prI : List Nat → Nat → Rat := fun I => Classical.choose (hform I)
  have hprI := fun I => Classical.choose_spec (hform I)
  have hfun : storageOn p g prices = fun I' => storForm p (g.pick I') (prI I') := by
    funext I'; exact (hprI I').2.1
  rw [hfun]
  exact storForm_cost_split p g pr prI Is hg hlp ht (fun I _ => (hprI I).2.2) y

/-- **Start level = end level: the values agree up to a constant.**  On every point that satisfies the interval level
    rows (the restart form) the unsplit cost is the sum of the interval costs MINUS the constant
    `Σ_I storeAfter(end of I) · inflow of I` (`cumInfl` difference) — zero when `cost_store = 0` or `inflow = 0`.  The
    objective values (`-c·y`) of a split solution therefore differ from its unsplit value by that constant: unsplit
    value = sum of interval values + constant. -/
theorem storage_split_value_const (p : StorageP) (g : Grid) (T : Nat) (prices : Prices) (A : AssetProblem)
    (Is : List (List Nat)) (hg : g.Ok) (hlp : p.lp = true) (ht : tiles g Is = true)
    (hse : p.startLevel = p.endLevel) (hA : buildStorage p g T prices = .ok A) (y : Vec)
    (hy : ∀ r ∈ (A.withIntervalRows Is (storageOn p g prices)).rows, r.Sat y) :
    costAt A.c 0 y =
      (Is.map fun I =>
        costAt (storageOn p g prices I).c 0 (fun v => y ((A.keep I).getD v 0)) +
        Storage.storeAfter p g (g.segEnd I) *
          -(Storage.cumInfl p g (g.segEnd I) - Storage.cumInfl p g (g.segStart I))).sum := by
  obtain ⟨pr, rfl, hpr⟩ := buildStorage_form p g T prices A hg hlp hA
  have hform := fun I => storageOn_form p g T prices pr I hg hlp hpr
  let prI : List Nat → Nat → Rat := fun I => Classical.choose (hform I)
  have hprI := fun I => Classical.choose_spec (hform I)
  have hfun : storageOn p g prices = fun I' => storForm p (g.pick I') (prI I') := by
    funext I'; exact (hprI I').2.1
  rw [hfun] at hy ⊢
  exact storForm_cost_const p g pr prI Is hg hlp ht hse (fun I _ => (hprI I).2.2) y
    (fun I hI r hr => hy r (List.mem_flatMap.mpr ⟨I, hI, hr⟩))

/-- without storage costs (or without inflow) the constant vanishes: the unsplit cost is the sum of the interval costs -/
theorem storage_split_value_eq (p : StorageP) (g : Grid) (T : Nat) (prices : Prices) (A : AssetProblem)
    (Is : List (List Nat)) (hg : g.Ok) (hlp : p.lp = true) (ht : tiles g Is = true)
    (hse : p.startLevel = p.endLevel) (h0 : p.costStore = 0 ∨ p.inflow = 0)
    (hA : buildStorage p g T prices = .ok A) (y : Vec)
    (hy : ∀ r ∈ (A.withIntervalRows Is (storageOn p g prices)).rows, r.Sat y) :
    costAt A.c 0 y =
      (Is.map fun I => costAt (storageOn p g prices I).c 0 (fun v => y ((A.keep I).getD v 0))).sum := by
  rw [storage_split_value_const p g T prices A Is hg hlp ht hse hA y hy]
  congr 1
  apply List.map_congr_left
  intro I _
  have hz : Storage.storeAfter p g (g.segEnd I) *
      -(Storage.cumInfl p g (g.segEnd I) - Storage.cumInfl p g (g.segStart I)) = 0 := by
    rcases h0 with h | h
    · have : ∀ k, sumTo (Storage.storeRate p g) k = 0 := fun k =>
        Textbook.sumTo_zero_fn _ _ (fun j _ => by simp [Storage.storeRate, h])
      unfold Storage.storeAfter
      rw [this, this]
      grind
    · have : ∀ k, Storage.cumInfl p g k = 0 := fun k =>
        Textbook.sumTo_zero_fn _ _ (fun j _ => by simp [Storage.infl, h])
      rw [this, this]
      grind
  rw [hz]
  grind

/-! ## (2) portfolios of contracts, transports and storages -/

/-- **The split set-up IS the restart problem.**  Under the decidable hypotheses `splitHypsS` (top-level reference
    grid, price arrays on the grid, cuts dividing the steps into pieces, contracts and transports stable in every
    interval, storages in LP form without storage costs whose grid the intervals cut into consecutive pieces): if
    the restart set-up succeeds with at least one variable, the split set-up succeeds and its interval problems are —
    as a block sum — the restart problem renamed along the explicit matching: the witness of `EAO.C14` is TRUE.
    No condition on the start and end levels. -/
theorem split_is_restart_builders (specs : List SpecS) (ref : Grid) (cuts : List Int) (prices : Prices)
    (unitSec : Nat) (skip : List String) (R : Problem) (hH : splitHypsS specs ref cuts prices = true)
    (hR : setupRestart specs ref cuts prices unitSec skip = .ok R) (hpos : 0 < R.n) :
    ∃ ps, setupSplitS specs ref cuts prices unitSec skip = .ok ps ∧
      splitWitness R ps (splitPerm R ((splitPairs cuts).map (intervalSteps ref))) = true :=
  restart_split specs ref cuts prices unitSec skip R hH hR hpos

/-- **The restart problem lies inside the unsplit problem** (start level = end level in `[0, size]` for every
    storage): same costs, bounds, mapping and nodal record — in particular the same variables, the same matching —
    and every feasible point of the restart problem is feasible for the unsplit problem, with the same value. -/
theorem restart_in_unsplit_builders (specs : List SpecS) (ref : Grid) (cuts : List Int) (prices : Prices)
    (unitSec : Nat) (skip : List String) (U : Problem) (hH : splitHypsS specs ref cuts prices = true)
    (hL : levelHypsS specs = true) (hU : setupPortfolioS specs ref prices unitSec skip = .ok U) (hpos : 0 < U.n) :
    ∃ R, setupRestart specs ref cuts prices unitSec skip = .ok R ∧
      R.c = U.c ∧ R.l = U.l ∧ R.u = U.u ∧ R.mapping = U.mapping ∧ R.nodal = U.nodal ∧
      (∀ y, R.FeasibleRelaxed y → U.FeasibleRelaxed y) ∧ (∀ y, R.Feasible y → U.Feasible y) ∧
      ∀ y, R.value y = U.value y := by
  obtain ⟨R, _, h1, _, _, h4⟩ := portfolio_le specs ref cuts prices unitSec skip U hH hL hU hpos
  exact ⟨R, h1, h4⟩

/-- **Every split-feasible point is unsplit-feasible; split never exceeds unsplit** — for mixed portfolios of
    contracts, transports and storages, without a certificate.  Under `splitHypsS` and `levelHypsS`: the split set-up
    succeeds, and every feasible point `x` of the block sum of its interval problems, transported along the explicit
    matching `splitPerm U …`, satisfies ALL restrictions and bounds of the unsplit problem (the cumulative level rows
    on the original grid), with and without integrality conditions, and has the same value; hence every upper bound
    of the unsplit values bounds the split values. -/
theorem split_le_unsplit_builders (specs : List SpecS) (ref : Grid) (cuts : List Int) (prices : Prices)
    (unitSec : Nat) (skip : List String) (U : Problem) (hH : splitHypsS specs ref cuts prices = true)
    (hL : levelHypsS specs = true) (hU : setupPortfolioS specs ref prices unitSec skip = .ok U) (hpos : 0 < U.n) :
    ∃ ps, setupSplitS specs ref cuts prices unitSec skip = .ok ps ∧
      (∀ x, ((blockSum ps).Feasible x →
              U.Feasible (transportAlong (splitPerm U ((splitPairs cuts).map (intervalSteps ref))) x)) ∧
            ((blockSum ps).FeasibleRelaxed x →
              U.FeasibleRelaxed (transportAlong (splitPerm U ((splitPairs cuts).map (intervalSteps ref))) x)) ∧
            (blockSum ps).value x =
              U.value (transportAlong (splitPerm U ((splitPairs cuts).map (intervalSteps ref))) x)) ∧
      (∀ B, (∀ y, U.Feasible y → U.value y ≤ B) → ∀ x, (blockSum ps).Feasible x → (blockSum ps).value x ≤ B) ∧
      (∀ B, (∀ y, U.FeasibleRelaxed y → U.value y ≤ B) →
        ∀ x, (blockSum ps).FeasibleRelaxed x → (blockSum ps).value x ≤ B) := by
  obtain ⟨R, ps, _, h2, hw, _, _, _, _, _, h9, h10, h11⟩ :=
    portfolio_le specs ref cuts prices unitSec skip U hH hL hU hpos
  have key : ∀ x, ((blockSum ps).Feasible x →
        U.Feasible (transportAlong (splitPerm U ((splitPairs cuts).map (intervalSteps ref))) x)) ∧
      ((blockSum ps).FeasibleRelaxed x →
        U.FeasibleRelaxed (transportAlong (splitPerm U ((splitPairs cuts).map (intervalSteps ref))) x)) ∧
      (blockSum ps).value x =
        U.value (transportAlong (splitPerm U ((splitPairs cuts).map (intervalSteps ref))) x) := by
    intro x
    obtain ⟨g1, g2, g3⟩ := C14.split_witness_feasible R ps _ hw x
    exact ⟨fun hx => h10 _ (g1.mp hx), fun hx => h9 _ (g2.mp hx), by rw [g3, h11]⟩
  refine ⟨ps, h2, key, fun B hB x hx => ?_, fun B hB x hx => ?_⟩
  · rw [(key x).2.2]; exact hB _ ((key x).1 hx)
  · rw [(key x).2.2]; exact hB _ ((key x).2.1 hx)

/-- **The split solution is an unsplit-feasible dispatch worth the sum of the interval values, and that sum never
    exceeds the unsplit optimum.**  Under `splitHypsS` and `levelHypsS`: if every interval solution `xs[i]` is feasible
    for the `i`-th interval problem of the split set-up, the concatenation (`np.hstack`), transported along the explicit
    matching, is feasible for the unsplit problem, its unsplit value is the sum of the interval values, and this sum is
    below every upper bound of the unsplit value set. -/
theorem split_solution_le_unsplit_builders (specs : List SpecS) (ref : Grid) (cuts : List Int) (prices : Prices)
    (unitSec : Nat) (skip : List String) (U : Problem) (ps : List Problem)
    (hH : splitHypsS specs ref cuts prices = true) (hL : levelHypsS specs = true)
    (hU : setupPortfolioS specs ref prices unitSec skip = .ok U) (hpos : 0 < U.n)
    (hS : setupSplitS specs ref cuts prices unitSec skip = .ok ps)
    (xs : List (List Rat)) (hlen : xs.length = ps.length)
    (hn : ∀ i, (h : i < ps.length) → (xs.getD i []).length = (ps[i]).n)
    (hfeas : ∀ i, (h : i < ps.length) → (ps[i]).FeasibleRelaxed (C14.vecOfList (xs.getD i []))) :
    let perm := splitPerm U ((splitPairs cuts).map (intervalSteps ref))
    U.FeasibleRelaxed (transportAlong perm (concatVec xs)) ∧
    U.value (transportAlong perm (concatVec xs)) =
      ((List.range ps.length).map fun i => (ps.getD i default).value (C14.vecOfList (xs.getD i []))).sum ∧
    ∀ B, (∀ y, U.FeasibleRelaxed y → U.value y ≤ B) →
      ((List.range ps.length).map fun i => (ps.getD i default).value (C14.vecOfList (xs.getD i []))).sum ≤ B := by
  obtain ⟨R, ps', _, h2, hw, _, _, _, _, _, h9, _, h11⟩ :=
    portfolio_le specs ref cuts prices unitSec skip U hH hL hU hpos
  rw [hS] at h2
  injection h2 with h2
  subst h2
  intro perm
  obtain ⟨_, hwp, _, _⟩ := C14.witness_parts R ps perm hw
  have hxB := C14.concat_relaxed ps hwp xs hlen hn hfeas
  obtain ⟨_, g2, g3⟩ := C14.split_witness_feasible R ps perm hw (concatVec xs)
  have hv := C14.concat_value ps xs hlen hn
  have hUf := h9 _ (g2.mp hxB)
  have hval : U.value (transportAlong perm (concatVec xs)) =
      ((List.range ps.length).map fun i => (ps.getD i default).value (C14.vecOfList (xs.getD i []))).sum := by
    rw [← h11, ← g3, hv]
  exact ⟨hUf, hval, fun B hB => by rw [← hval]; exact hB _ hUf⟩

/-! ## non-vacuity: a market and a storage, four hourly steps, two intervals

Node `n`: a market `m` (prices 1, 3, 1, 3, capacities −2 … 2, one variable per step) and a storage `s` (size 4,
charge / discharge 1 per hour, start level 1, end level `e`, no costs, efficiency 1: one variable per step, level after
step `t` = `1 − Σ_{τ≤t} s_τ`).  Unsplit variable order `m0..m3, s0..s3`; the split set-up (`cuts = 0 h, 2 h, 4 h`)
returns two interval problems with the variables `m0, m1, s0, s1 | m2, m3, s2, s3`. -/
section Example
private def exRef : Grid :=
  { pts := [0, 3600, 7200, 10800], idx := [0, 1, 2, 3], dt := [1, 1, 1, 1], Dt := [1, 2, 3, 4], df := [1, 1, 1, 1] }
private def exCuts : List Int := [0, 7200, 14400]
private def exPrices : Prices := [("p", [1, 3, 1, 3])]
private def exMarket : ContractP :=
  { name := "m", nodes := ["n"], price := some "p", extraCosts := .scalar 0, minCap := .scalar (-2),
    maxCap := .scalar 2, minTake := [], maxTake := [] }
/-- the storage with start level `st`, end level `e`, storage costs `cs` -/
private def exStore (st e cs : Rat) : StorageP :=
  { name := "s", nodes := ["n"], size := 4, capIn := 1, capOut := 1, startLevel := st, endLevel := e, costIn := 0,
    costOut := 0, costStore := cs, effIn := 1, inflow := 0, price := none, noSimult := false,
    maxStoreDuration := none, blocks := none }
private def exSpecs (st e cs : Rat) : List SpecS :=
  [.builder { spec := .simple exMarket, start := -1000000, stop := 1000000, df := [1, 1, 1, 1] },
   .storage (exStore st e cs) (-1000000) 1000000 [1, 1, 1, 1]]
private def exIs : List (List Nat) := (splitPairs exCuts).map (intervalSteps exRef)

private def unsplitOf (specs : List SpecS) : Problem :=
  match setupPortfolioS specs exRef exPrices 3600 [] with | .ok U => U | .error _ => default
private def restartOfEx (specs : List SpecS) : Problem :=
  match setupRestart specs exRef exCuts exPrices 3600 [] with | .ok U => U | .error _ => default
private def splitOf (specs : List SpecS) : List Problem :=
  match setupSplitS specs exRef exCuts exPrices 3600 [] with | .ok ps => ps | .error _ => []

private theorem exU_ok : setupPortfolioS (exSpecs 1 1 0) exRef exPrices 3600 [] = .ok (unsplitOf (exSpecs 1 1 0)) := by
  have h : (match setupPortfolioS (exSpecs 1 1 0) exRef exPrices 3600 [] with | .ok _ => true | .error _ => false) = true := by
    decide +kernel
  unfold unsplitOf
  cases hh : setupPortfolioS (exSpecs 1 1 0) exRef exPrices 3600 [] with
  | ok U => rfl
  | error e => rw [hh] at h; cases h

/-- the hypotheses hold: start level = end level = 1 -/
example : splitHypsS (exSpecs 1 1 0) exRef exCuts exPrices = true ∧ levelHypsS (exSpecs 1 1 0) = true ∧
    exIs = [[0, 1], [2, 3]] ∧ tiles exRef exIs = true := by decide +kernel

/-- the unsplit problem: 8 variables, 8 cumulative level rows (the last pair pins the end level) and 4 nodal rows -/
example : (unsplitOf (exSpecs 1 1 0)).n = 8 ∧ (unsplitOf (exSpecs 1 1 0)).c = [1, 3, 1, 3, 0, 0, 0, 0] ∧
    ((unsplitOf (exSpecs 1 1 0)).rows.map fun r => (r.coeffs.map (·.1), r.rhs)) =
      [([4], 3), ([4, 5], 3), ([4, 5, 6], 3), ([4, 5, 6, 7], 0),
       ([4], -1), ([4, 5], -1), ([4, 5, 6], -1), ([4, 5, 6, 7], 0),
       ([0, 4], 0), ([1, 5], 0), ([2, 6], 0), ([3, 7], 0)] := by decide +kernel

/-- the restart problem: the same variables, the level rows of the two intervals instead -/
example : (restartOfEx (exSpecs 1 1 0)).c = (unsplitOf (exSpecs 1 1 0)).c ∧
    ((restartOfEx (exSpecs 1 1 0)).rows.map fun r => (r.coeffs.map (·.1), r.rhs)) =
      [([4], 3), ([4, 5], 0), ([4], -1), ([4, 5], 0), ([6], 3), ([6, 7], 0), ([6], -1), ([6, 7], 0),
       ([0, 4], 0), ([1, 5], 0), ([2, 6], 0), ([3, 7], 0)] := by decide +kernel

/-- the interval storage on the unsplit variables (second interval = positions 2, 3 of the storage's grid): by the
    theorem its rows are the level rows restarting at position 2 -/
example : (Storage.restartUpper (exStore 1 1 0) exRef 2 2 1).coeffs = [(2, -1), (3, -1)] ∧
    (Storage.restartUpper (exStore 1 1 0) exRef 2 2 1).rhs = 0 ∧
    (Storage.restartLower (exStore 1 1 0) exRef 2 2 0).coeffs = [(2, -1)] ∧
    (Storage.restartLower (exStore 1 1 0) exRef 2 2 0).rhs = -1 := by decide +kernel

/-- what the split set-up returns, and the matching -/
example : ((splitOf (exSpecs 1 1 0)).map fun P => (P.n, P.rows.length, P.nodal.map (·.1))) =
      [(4, 6, [0, 1]), (4, 6, [2, 3])] ∧
    splitPerm (unsplitOf (exSpecs 1 1 0)) exIs = [0, 1, 4, 5, 2, 3, 6, 7] := by decide +kernel

/-- the restart witness evaluated: true (as `split_is_restart_builders` says); the two-sided witness against the
    UNSPLIT problem is false — the cumulative rows couple the intervals -/
example : splitWitness (restartOfEx (exSpecs 1 1 0)) (splitOf (exSpecs 1 1 0))
      (splitPerm (unsplitOf (exSpecs 1 1 0)) exIs) = true ∧
    splitWitness (unsplitOf (exSpecs 1 1 0)) (splitOf (exSpecs 1 1 0))
      (splitPerm (unsplitOf (exSpecs 1 1 0)) exIs) = false := by decide +kernel

/-- **the theorem at work**: the split set-up succeeds and every split-feasible point is unsplit-feasible -/
example : ∃ ps, setupSplitS (exSpecs 1 1 0) exRef exCuts exPrices 3600 [] = .ok ps ∧
    ∀ B, (∀ y, (unsplitOf (exSpecs 1 1 0)).FeasibleRelaxed y → (unsplitOf (exSpecs 1 1 0)).value y ≤ B) →
      ∀ x, (blockSum ps).FeasibleRelaxed x → (blockSum ps).value x ≤ B := by
  obtain ⟨ps, h1, _, _, h4⟩ := split_le_unsplit_builders (exSpecs 1 1 0) exRef exCuts exPrices 3600 []
    (unsplitOf (exSpecs 1 1 0)) (by decide +kernel) (by decide +kernel) exU_ok (by decide +kernel)
  exact ⟨ps, h1, h4⟩

/-- interval solutions: buy and charge at price 1, discharge and sell at price 3 (value 2 per interval); the
    concatenation is feasible for the unsplit problem and worth 4 there -/
example : (blockSum (splitOf (exSpecs 1 1 0))).FeasibleRelaxed (C14.vecOfList [1, -1, -1, 1, 1, -1, -1, 1]) ∧
    (unsplitOf (exSpecs 1 1 0)).FeasibleRelaxed
      (transportAlong [0, 1, 4, 5, 2, 3, 6, 7] (C14.vecOfList [1, -1, -1, 1, 1, -1, -1, 1])) ∧
    (unsplitOf (exSpecs 1 1 0)).value
      (transportAlong [0, 1, 4, 5, 2, 3, 6, 7] (C14.vecOfList [1, -1, -1, 1, 1, -1, -1, 1])) = 4 := by
  decide +kernel

/-- **start level ≠ end level (F-14g)**: start 1, end 2.  `splitHypsS` still holds — the split set-up IS the restart
    problem — but `levelHypsS` fails, and so does the conclusion: every interval raises the level by 1, the
    concatenation ends at level 3, not 2.  A split-feasible point whose transport violates the unsplit end-level row: -/
example : splitHypsS (exSpecs 1 2 0) exRef exCuts exPrices = true ∧ levelHypsS (exSpecs 1 2 0) = false ∧
    splitWitness (restartOfEx (exSpecs 1 2 0)) (splitOf (exSpecs 1 2 0)) (splitPerm (unsplitOf (exSpecs 1 2 0)) exIs) = true ∧
    (blockSum (splitOf (exSpecs 1 2 0))).FeasibleRelaxed (C14.vecOfList [1, 0, -1, 0, 1, 0, -1, 0]) ∧
    ¬ (unsplitOf (exSpecs 1 2 0)).FeasibleRelaxed
      (transportAlong [0, 1, 4, 5, 2, 3, 6, 7] (C14.vecOfList [1, 0, -1, 0, 1, 0, -1, 0])) := by decide +kernel

/-- **the level must lie inside the storage** (`0 ≤ start_level`): start = end = −1.  Every interval may borrow — the
    level is only checked relative to the interval's start and is back at −1 at its end; the unsplit storage needs a
    level ≥ 0 after the second step.  Split-feasible, not unsplit-feasible: -/
example : splitHypsS (exSpecs (-1) (-1) 0) exRef exCuts exPrices = true ∧ levelHypsS (exSpecs (-1) (-1) 0) = false ∧
    (blockSum (splitOf (exSpecs (-1) (-1) 0))).FeasibleRelaxed (C14.vecOfList [1, -1, -1, 1, 1, -1, -1, 1]) ∧
    ¬ (unsplitOf (exSpecs (-1) (-1) 0)).FeasibleRelaxed
      (transportAlong [0, 1, 4, 5, 2, 3, 6, 7] (C14.vecOfList [1, -1, -1, 1, 1, -1, -1, 1])) := by decide +kernel

/-- **storage costs**: with `cost_store = 1` the interval cost vectors count the later steps of the interval only, the
    unsplit one those of the whole horizon: `splitHypsS` fails and the restart witness (same costs) is false -/
example : splitHypsS (exSpecs 1 1 1) exRef exCuts exPrices = false ∧
    (unsplitOf (exSpecs 1 1 1)).c = [1, 3, 1, 3, -4, -3, -2, -1] ∧
    ((splitOf (exSpecs 1 1 1)).map (·.c)) = [[1, 3, -2, -1], [1, 3, -2, -1]] ∧
    splitWitness (restartOfEx (exSpecs 1 1 1)) (splitOf (exSpecs 1 1 1)) (splitPerm (unsplitOf (exSpecs 1 1 1)) exIs) = false := by
  decide +kernel
/-- the data of `storage_split_value` for that storage: holding one unit after the first interval costs 2 (steps 2, 3),
    after the second nothing; the intervals cut the grid into consecutive pieces -/
example : Storage.storeAfter (exStore 1 1 1) exRef 2 = 2 ∧ Storage.storeAfter (exStore 1 1 1) exRef 4 = 0 ∧
    exRef.segStart [2, 3] = 2 ∧ exRef.segEnd [2, 3] = 4 ∧ (exStore 1 1 1).lp = true ∧ tiles exRef exIs = true := by
  decide +kernel

/-- **storage costs and a DRAIN (`inflow < 0`): the reported split value EXCEEDS the unsplit value.**  Storage with
    `cost_store = 1`, `inflow = −1`, charge at most 1 per hour, start level = end level = 0: the level must not fall
    below 0, so the storage has to charge 1 in every hour — the dispatch is forced, the same in the split and the unsplit
    problem.  The interval cost vectors (`−2, −1`) leave out the holding costs of LATER intervals, the unsplit one
    (`−4, −3, −2, −1`) has them: by `storage_split_value_const` the values differ by `storeAfter(2) · inflow of interval 1
    = 2 · (−2) = −4`.  The forced dispatch is worth −14 in the split problem and −18 in the unsplit problem. -/
private def exLeak : List SpecS :=
  [.builder { spec := .simple exMarket, start := -1000000, stop := 1000000, df := [1, 1, 1, 1] },
   .storage { exStore 0 0 1 with inflow := -1 } (-1000000) 1000000 [1, 1, 1, 1]]

example : levelHypsS exLeak = true ∧
    (unsplitOf exLeak).c = [1, 3, 1, 3, -4, -3, -2, -1] ∧ ((splitOf exLeak).map (·.c)) = [[1, 3, -2, -1], [1, 3, -2, -1]] ∧
    (blockSum (splitOf exLeak)).FeasibleRelaxed (C14.vecOfList [1, 1, -1, -1, 1, 1, -1, -1]) ∧
    (unsplitOf exLeak).FeasibleRelaxed (transportAlong [0, 1, 4, 5, 2, 3, 6, 7] (C14.vecOfList [1, 1, -1, -1, 1, 1, -1, -1])) ∧
    (blockSum (splitOf exLeak)).value (C14.vecOfList [1, 1, -1, -1, 1, 1, -1, -1]) = -14 ∧
    (unsplitOf exLeak).value (transportAlong [0, 1, 4, 5, 2, 3, 6, 7] (C14.vecOfList [1, 1, -1, -1, 1, 1, -1, -1])) = -18 := by
  decide +kernel
/-! ### time blocks (`block_size`) are NOT covered — and the statement fails for them

The theorems above need the LP form without time blocks.  With `block_size` the real code computes the block starts on
the grid it is given, anchored at that grid's start: in an interval the blocks are anchored at the INTERVAL's start and
need not line up with the blocks of the unsplit storage.  Eight hourly steps, blocks of 3 h, intervals of 4 h: the
unsplit storage has the blocks `[0,3) [3,6) [6,8)`, the second interval (steps 4 … 7) the blocks `[4,7) [7,8)`.  An
empty storage (start = end = 0) that charges in hour 5 and discharges in hour 6 satisfies every level row of the second
interval's storage, but not the unsplit row that pins the level at the end of the block `[3,6)`.  (Real code, prices
`1,1,1,1,1,1,9,1`: split value 8, unsplit value 0 — see the package report.) -/
private def g8 : Grid :=
  { pts := [0, 3600, 7200, 10800, 14400, 18000, 21600, 25200], idx := [0, 1, 2, 3, 4, 5, 6, 7],
    dt := [1, 1, 1, 1, 1, 1, 1, 1], Dt := [1, 2, 3, 4, 5, 6, 7, 8], df := [1, 1, 1, 1, 1, 1, 1, 1] }
private def exBlk (aa : List Nat) : StorageP := { exStore 0 0 0 with size := 10, blocks := some aa }
private def rowsHold (r : Except BuildError AssetProblem) (y : Vec) : Option Bool :=
  match r with
  | .ok A => some (A.rows.all fun r => decide (r.Sat y))
  | .error _ => none

example : blockStartsTick g8 0 28800 10800 = [0, 3, 6] ∧
    blockStartsTick (g8.pick [4, 5, 6, 7]) 14400 28800 10800 = [0, 3] ∧
    blockStartsTick (g8.pick [0, 1, 2, 3]) 0 14400 10800 = [0, 3] ∧
    rowsHold (buildStorage (exBlk [0, 3]) (g8.pick [0, 1, 2, 3]) 4 []) (C14.vecOfList [0, 0, 0, 0]) = some true ∧
    rowsHold (buildStorage (exBlk [0, 3]) (g8.pick [4, 5, 6, 7]) 4 []) (C14.vecOfList [0, -1, 1, 0]) = some true ∧
    rowsHold (buildStorage (exBlk [0, 3, 6]) g8 8 []) (C14.vecOfList [0, 0, 0, 0, 0, -1, 1, 0]) = some false := by
  decide +kernel
end Example

end EAO.C14S
