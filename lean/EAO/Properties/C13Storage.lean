import EAO.Model.CoarseStorage
import EAO.Model.Readout
import EAO.Lemmas.CoarseStorage
import EAO.Properties.C05
import EAO.Properties.C13Builders
/-!
# C13 / C05 for `Storage(freq=…)`: a storage with an own, coarser frequency

Property theorems only; helper lemmas in `EAO/Lemmas/CoarseStorage.lean`, the model of the `freq` path of
`Storage.setup_optim_problem` and of the repaired `Storage.fill_level` in `EAO/Model/CoarseStorage.lean`.

The coarse builder works on the coarse restricted grid `cg` (one variable - or a pair `disp_in`, `disp_out` - per coarse
step, price = plain mean over the minor steps, `dt` of the coarse step for the rate limits and the inflow, discount factor
of the first minor step, fill-level rows per coarse step) and extends its mapping to the minor grid with the weights
`dt_fine/dt_coarse`.  It is compared with THE FINE PROBLEM `fineStorage`: the `freq=None` builder's tail (`storageCore`;
by `storage_builder_is_core` the `freq=None` builder IS this tail behind the sampled price) on the fine steps of the
coarse grid (`minorGrid`; by `EAO.C13B.minorGrid_eq_restrict` this is `ref.restrict start end` for a window of whole
coarse steps) with the price series replaced by its plain mean per coarse step.
-/
namespace EAO.C13S
open EAO EAO.CoarseBuild EAO.CoarseStorage EAO.Storage

/-! ### C13: the coarse problem is the fine problem plus "same rate inside every coarse step" -/

/-- **C13 `coarse_equiv_storage`** (LP form: no holding-duration limit, no time blocks, no no-simultaneous booleans).
    `Pc` = what `Storage(freq=f)` builds on the coarse grid `cg` (at least one coarse step) of the full grid `ref`; then the
    fine problem `Pf` (same storage without `freq` on the fine steps of `cg`, price averaged per coarse step) is built too.
    `B` blocks of variables (1: `disp`, 2: `disp_in | disp_out`), the same for both.  For every coarse point `z` and its
    expansion `x` (fine step `t` of coarse step `i` gets `z_i·dt_t/dt_i`):
    * `x` has the same rate inside every coarse step, and the same dispatch at every asset, node and FINE step;
    * `x` feasible ⇒ `z` feasible, for all data;  `z` feasible ⇒ `x` feasible when `0 ≤ start level ≤ size` and
      `0 ≤ end level ≤ size` (necessary: `Ex.start_below_zero_witness`, `Ex.end_above_size_witness` - the constructor
      accepts such levels);
    * same cost (so the same value `-c·x`) with equal discount factors inside every coarse step (complement: F-13h,
      `Ex.unequal_discount_witness`) and `cost_store = 0` (necessary: `Ex.cost_store_witness`);
    and every fine point with the same rate inside every coarse step is such an expansion. -/
theorem coarse_equiv_storage (p : StorageP) (ref : Grid) (cg : CoarseGrid) (prices : Prices) (fullT : Nat)
    (Pc : AssetProblem) (hwf : cg.WellFormed ref.dt) (hT : 0 < cg.grid.T)
    (hmh : p.maxStoreDuration = none) (hbl : p.blocks = none) (hns : hasNS p = false)
    (hc : buildCoarseStorage p cg ref.dt prices fullT = .ok Pc) :
    ∃ Pf, fineStorage p ref cg prices fullT = .ok Pf ∧
    ∃ B, (B = 1 ∨ B = 2) ∧ Pc.n = cg.grid.T * B ∧ Pf.n = (minorGrid ref cg).T * B ∧
      (∀ z : Vec,
        SameRate cg.owner (minorGrid ref cg).dt Pf.n (expand cg.owner (cg.weights ref.dt) cg.grid.T z) ∧
        (Pf.FeasibleRelaxed (expand cg.owner (cg.weights ref.dt) cg.grid.T z) → Pc.FeasibleRelaxed z) ∧
        (0 ≤ p.startLevel ∧ p.startLevel ≤ p.size → 0 ≤ p.endLevel ∧ p.endLevel ≤ p.size →
          Pc.FeasibleRelaxed z → Pf.FeasibleRelaxed (expand cg.owner (cg.weights ref.dt) cg.grid.T z)) ∧
        (EqualDiscount ref cg → p.costStore = 0 →
          costAt Pf.c 0 (expand cg.owner (cg.weights ref.dt) cg.grid.T z) = costAt Pc.c 0 z) ∧
        ∀ a n t, dispatchOut Pf.mapping a n t (expand cg.owner (cg.weights ref.dt) cg.grid.T z)
          = dispatchOut Pc.mapping a n t z) ∧
      (∀ x : Vec, SameRate cg.owner (minorGrid ref cg).dt Pf.n x →
        ∃ z : Vec, ∀ j, j < Pf.n → x j = expand cg.owner (cg.weights ref.dt) cg.grid.T z j) := by
  have hne : cg.grid.dt.length ≠ 0 := by rw [hwf.ok.2.1]; omega
  obtain ⟨price, bl, hprice, hbl', hn, rfl⟩ := buildCoarseStorage_ok hc hne
  rw [blocksOf_none p _ hbl] at hbl'
  injection hbl' with hbl'
  subst hbl'
  refine ⟨_, fineStorage_eq hne hbl hn hprice, nBlocks p, ?_, ?_, ?_, ?_, ?_⟩
  · unfold nBlocks; split <;> simp
  · show (costVec p cg.grid cg.grid.T _).length = _
    rw [costVec_length, nVars_lp p _ hmh hns]
  · show (costVec p (minorGrid ref cg) (minorGrid ref cg).T _).length = _
    rw [costVec_length, nVars_lp p _ hmh hns]
  · intro z
    have hx := isExpansion_expand (ref := ref) (cg := cg) z
    have hnF : (coreProblem p (minorGrid ref cg) (fun k => price.getD (cg.owner.getD k 0) 0) [(0, (minorGrid ref cg).T)]).n
        = cg.owner.length * nBlocks p := by
      show (costVec p (minorGrid ref cg) (minorGrid ref cg).T _).length = _
      rw [costVec_length, nVars_lp p _ hmh hns, minorGrid_T]
    refine ⟨?_, ?_, ?_, ?_, ?_⟩
    · rw [hnF]; exact sameRate_expand_cg (nBlocks p) z
    · intro hf
      refine ⟨?_, ?_⟩
      · have := hf.1
        simp only [coreProblem, minorGrid_T] at this
        exact (inBounds_expand hwf p hmh hns hx).mp this
      · exact rows_coarse_of_fine hwf hT p hmh hns (fun i => price.getD i 0) _ hx hf.2
    · intro hs he hcz
      refine ⟨?_, ?_⟩
      · have := hcz.1
        simp only [coreProblem, minorGrid_T]
        exact (inBounds_expand hwf p hmh hns hx).mpr this
      · exact rows_fine_of_coarse hwf hT p hmh hns (fun i => price.getD i 0) _ hx hs he hcz.2
    · intro hdf hcs
      simp only [coreProblem, minorGrid_T]
      exact costAt_expand hwf hdf p hmh hns hcs (fun i => price.getD i 0) hx
    · intro a n t
      simp only [coreProblem, minorGrid_T]
      exact dispatch_expand hwf p hn hx a n t
  · intro x hx
    have hnF : (coreProblem p (minorGrid ref cg) (fun k => price.getD (cg.owner.getD k 0) 0) [(0, (minorGrid ref cg).T)]).n
        = cg.owner.length * nBlocks p := by
      show (costVec p (minorGrid ref cg) (minorGrid ref cg).T _).length = _
      rw [costVec_length, nVars_lp p _ hmh hns, minorGrid_T]
    rw [hnF] at hx ⊢
    exact expand_surj_cg hwf (nBlocks p) x hx

/-- **C13 `coarse_equiv_storage_nosimult`**: the same with the no-simultaneous option (MIP; three blocks
    `disp_in | disp_out | bool_1`, no holding-duration limit, no time blocks).  The expansion `expandNS` spreads the two
    dispatch blocks as `expand` does and COPIES the boolean of a coarse step to each of its fine steps.  For every coarse
    point `z`: same rate, same dispatch, the fine booleans are 0/1 iff the coarse ones are; fine feasible ⇒ coarse feasible
    (rate limits, fill-level rows and both no-simultaneous rows), the converse for start and end level in `[0, size]`; same
    cost under the hypotheses of `coarse_equiv_storage`; and every fine point with the same rate and equal booleans inside
    every coarse step is such an expansion. -/
theorem coarse_equiv_storage_nosimult (p : StorageP) (ref : Grid) (cg : CoarseGrid) (prices : Prices) (fullT : Nat)
    (Pc : AssetProblem) (hwf : cg.WellFormed ref.dt) (hT : 0 < cg.grid.T)
    (hmh : p.maxStoreDuration = none) (hbl : p.blocks = none) (hns : hasNS p = true)
    (hc : buildCoarseStorage p cg ref.dt prices fullT = .ok Pc) :
    ∃ Pf, fineStorage p ref cg prices fullT = .ok Pf ∧
      Pc.n = cg.grid.T * 3 ∧ Pf.n = (minorGrid ref cg).T * 3 ∧
      (∀ z : Vec,
        SameRate cg.owner (minorGrid ref cg).dt ((minorGrid ref cg).T * 2) (expandNS cg.owner (cg.weights ref.dt) cg.grid.T z) ∧
        ((∀ k, k < (minorGrid ref cg).T →
            expandNS cg.owner (cg.weights ref.dt) cg.grid.T z (2 * (minorGrid ref cg).T + k) = 0 ∨
            expandNS cg.owner (cg.weights ref.dt) cg.grid.T z (2 * (minorGrid ref cg).T + k) = 1)
          ↔ (∀ i, i < cg.grid.T → z (2 * cg.grid.T + i) = 0 ∨ z (2 * cg.grid.T + i) = 1)) ∧
        (Pf.FeasibleRelaxed (expandNS cg.owner (cg.weights ref.dt) cg.grid.T z) → Pc.FeasibleRelaxed z) ∧
        (0 ≤ p.startLevel ∧ p.startLevel ≤ p.size → 0 ≤ p.endLevel ∧ p.endLevel ≤ p.size →
          Pc.FeasibleRelaxed z → Pf.FeasibleRelaxed (expandNS cg.owner (cg.weights ref.dt) cg.grid.T z)) ∧
        (EqualDiscount ref cg → p.costStore = 0 →
          costAt Pf.c 0 (expandNS cg.owner (cg.weights ref.dt) cg.grid.T z) = costAt Pc.c 0 z) ∧
        ∀ a n t, dispatchOut Pf.mapping a n t (expandNS cg.owner (cg.weights ref.dt) cg.grid.T z)
          = dispatchOut Pc.mapping a n t z) ∧
      (∀ x : Vec, SameRate cg.owner (minorGrid ref cg).dt ((minorGrid ref cg).T * 2) x →
        (∀ j k, j < (minorGrid ref cg).T → k < (minorGrid ref cg).T → cg.owner.getD j 0 = cg.owner.getD k 0 →
          x ((minorGrid ref cg).T * 2 + j) = x ((minorGrid ref cg).T * 2 + k)) →
        ∃ z : Vec, ∀ j, j < Pf.n → x j = expandNS cg.owner (cg.weights ref.dt) cg.grid.T z j) := by
  have hne : cg.grid.dt.length ≠ 0 := by rw [hwf.ok.2.1]; omega
  obtain ⟨price, bl, hprice, hbl', hn, rfl⟩ := buildCoarseStorage_ok hc hne
  rw [blocksOf_none p _ hbl] at hbl'
  injection hbl' with hbl'
  subst hbl'
  have S := spread_of_wf hwf
  have hnpos := S.n_pos hT
  have hnF : (coreProblem p (minorGrid ref cg) (fun k => price.getD (cg.owner.getD k 0) 0) [(0, (minorGrid ref cg).T)]).n
      = cg.owner.length * 3 := by
    show (costVec p (minorGrid ref cg) (minorGrid ref cg).T _).length = _
    rw [costVec_length, nVars_ns p _ hmh hns, minorGrid_T]; omega
  refine ⟨_, fineStorage_eq hne hbl hn hprice, ?_, ?_, ?_, ?_⟩
  · show (costVec p cg.grid cg.grid.T _).length = _
    rw [costVec_length, nVars_ns p _ hmh hns]; omega
  · rw [hnF, minorGrid_T]
  · intro z
    have hx := isExpansion_expandNS (ref := ref) (cg := cg) z
    have hb := boolCopy_expandNS (ref := ref) (cg := cg) z
    have hsr := sameRate_expandNS (ref := ref) (cg := cg) z
    rw [minorGrid_T]
    generalize expandNS cg.owner (cg.weights ref.dt) cg.grid.T z = x at hx hb hsr ⊢
    refine ⟨hsr, bools_iff hwf hb, ?_, ?_, ?_, ?_⟩
    · intro hf
      refine feasible_coarse_of_fine_ns hwf hT p hmh hns (fun i => price.getD i 0)
        (fun k => price.getD (cg.owner.getD k 0) 0) hx hb ?_
      rw [minorGrid_T]; exact hf
    · intro hs he hcz
      have := feasible_fine_of_coarse_ns hwf hT p hmh hns (fun i => price.getD i 0)
        (fun k => price.getD (cg.owner.getD k 0) 0) hx hb hs he hcz
      rw [minorGrid_T] at this; exact this
    · intro hdf hcs
      simp only [coreProblem, minorGrid_T]
      exact costAt_expand_ns hwf hdf p hmh hns hcs (fun i => price.getD i 0) hx
    · intro a n t
      simp only [coreProblem, minorGrid_T]
      exact dispatch_expand hwf p hn hx a n t
  · intro x hx hbx
    rw [hnF]
    rw [minorGrid_T] at hx hbx
    exact expandNS_surj hwf x hx hbx

/-- the `freq=None` builder is the empty-window test, the sampled price and then the tail `storageCore` the coarse
    builder and the fine comparison problem share -/
theorem storage_builder_is_core (p : StorageP) (g : Grid) (T : Nat) (prices : Prices) :
    buildStorage p g T prices
      = (if g.dt.length = 0 then
           .ok { name := p.name, nodes := p.nodes, c := [], l := [], u := [], rows := [], mapping := [] }
         else match priceVec p g T prices with
           | .error e => .error e
           | .ok pr => storageCore p g pr) :=
  buildStorage_eq_core p g T prices

/-- a window that misses the horizon: both problems are the empty problem, whatever the parameters -/
theorem coarse_storage_empty_window (p : StorageP) (ref : Grid) (cg : CoarseGrid) (prices : Prices) (fullT : Nat)
    (h : cg.grid.dt.length = 0) :
    buildCoarseStorage p cg ref.dt prices fullT
      = .ok { name := p.name, nodes := p.nodes, c := [], l := [], u := [], rows := [], mapping := [] } ∧
    fineStorage p ref cg prices fullT
      = .ok { name := p.name, nodes := p.nodes, c := [], l := [], u := [], rows := [], mapping := [] } := by
  unfold buildCoarseStorage fineStorage
  rw [if_pos h, if_pos h]
  exact ⟨rfl, rfl⟩

/-! ### C05: the physical level of the expanded schedule -/

/-- physical fill level after the first `j` steps of the window: the start level, then `C05.physLevel` -/
def levelAfter (p : StorageP) (g : Grid) (n : Nat) (x : Vec) : Nat → Rat
  | 0 => p.startLevel
  | j + 1 => C05.physLevel p g n x j

theorem levelAfter_eq_lev (p : StorageP) (g : Grid) (n : Nat) (x : Vec) (j : Nat) :
    levelAfter p g n x j = lev p g n x j := by
  cases j with
  | zero => exact (lev_zero' p g n x).symm
  | succ j => exact C05.physLevel_eq_lev p g n x j

/-- **the elapsed share of a coarse step** at the end of fine step `k` is positive, at most one, and one at the last
    fine step of every coarse step -/
theorem cumWeight_pos_le_one (ref : Grid) (cg : CoarseGrid) (hwf : cg.WellFormed ref.dt) (k : Nat)
    (hk : k < cg.owner.length) :
    0 < cumWeight cg.owner (cg.weights ref.dt) k ∧ cumWeight cg.owner (cg.weights ref.dt) k ≤ 1 ∧
    ((∀ s, k < s → s < cg.owner.length → cg.owner.getD s 0 ≠ cg.owner.getD k 0) →
      cumWeight cg.owner (cg.weights ref.dt) k = 1) := by
  have S := spread_of_wf hwf
  rw [cumWeight_eq]
  exact ⟨cwF_pos S k hk, cwF_le_one S k hk, fun h => cwF_last S k hk h⟩

/-- **C05 `coarse_storage_level`.**  For any coarse point `z` and any fine point `x` whose dispatch blocks are its
    expansion (`expand … z`, `expandNS … z`): the physical level at the END of fine step `k` is the linear interpolation
    between the coarse levels at the two ends of the coarse step `i = owner k` of `k`, at the elapsed share of that step:
    `level_{i-1} + cumWeight_k · (level_i − level_{i-1})` (`level_{-1}` = start level).  All options, all data. -/
theorem coarse_storage_level (p : StorageP) (ref : Grid) (cg : CoarseGrid) (hwf : cg.WellFormed ref.dt) (z x : Vec)
    (hx : IsExpansion ref cg z x) (k : Nat) (hk : k < cg.owner.length) :
    C05.physLevel p (minorGrid ref cg) (minorGrid ref cg).T x k
      = levelAfter p cg.grid cg.grid.T z (cg.owner.getD k 0)
        + cumWeight cg.owner (cg.weights ref.dt) k
          * (C05.physLevel p cg.grid cg.grid.T z (cg.owner.getD k 0) - levelAfter p cg.grid cg.grid.T z (cg.owner.getD k 0)) := by
  rw [C05.physLevel_eq_lev, C05.physLevel_eq_lev, levelAfter_eq_lev, minorGrid_T, cumWeight_eq]
  exact lev_expand hwf p hx k hk

/-- the model's expansions satisfy the hypothesis of the level theorems -/
theorem expansions_are_expansions (ref : Grid) (cg : CoarseGrid) (z : Vec) :
    IsExpansion ref cg z (expand cg.owner (cg.weights ref.dt) cg.grid.T z) ∧
    IsExpansion ref cg z (expandNS cg.owner (cg.weights ref.dt) cg.grid.T z) :=
  ⟨isExpansion_expand z, isExpansion_expandNS z⟩

/-- at the last fine step of a coarse step the fine level IS the coarse level -/
theorem coarse_storage_level_at_ends (p : StorageP) (ref : Grid) (cg : CoarseGrid) (hwf : cg.WellFormed ref.dt)
    (z x : Vec) (hx : IsExpansion ref cg z x) (k : Nat) (hk : k < cg.owner.length)
    (hlast : ∀ s, k < s → s < cg.owner.length → cg.owner.getD s 0 ≠ cg.owner.getD k 0) :
    C05.physLevel p (minorGrid ref cg) (minorGrid ref cg).T x k
      = C05.physLevel p cg.grid cg.grid.T z (cg.owner.getD k 0) := by
  rw [coarse_storage_level p ref cg hwf z x hx k hk, (cumWeight_pos_le_one ref cg hwf k hk).2.2 hlast]
  grind

/-- **`coarse_storage_level_bounds`.**  If the start level and the coarse levels at the end of every coarse step lie in
    `[0, size]`, the physical level of the expanded schedule lies in `[0, size]` at the end of EVERY fine step. -/
theorem coarse_storage_level_bounds (p : StorageP) (ref : Grid) (cg : CoarseGrid) (hwf : cg.WellFormed ref.dt)
    (z x : Vec) (hx : IsExpansion ref cg z x)
    (hs : 0 ≤ p.startLevel ∧ p.startLevel ≤ p.size)
    (hc : ∀ i, i < cg.grid.T → 0 ≤ C05.physLevel p cg.grid cg.grid.T z i ∧ C05.physLevel p cg.grid cg.grid.T z i ≤ p.size)
    (k : Nat) (hk : k < cg.owner.length) :
    0 ≤ C05.physLevel p (minorGrid ref cg) (minorGrid ref cg).T x k ∧
    C05.physLevel p (minorGrid ref cg) (minorGrid ref cg).T x k ≤ p.size := by
  rw [coarse_storage_level p ref cg hwf z x hx k hk]
  obtain ⟨h1, h2, _⟩ := cumWeight_pos_le_one ref cg hwf k hk
  have ho := owner_lt hwf k hk
  have hprev : 0 ≤ levelAfter p cg.grid cg.grid.T z (cg.owner.getD k 0) ∧
      levelAfter p cg.grid cg.grid.T z (cg.owner.getD k 0) ≤ p.size := by
    cases hi : cg.owner.getD k 0 with
    | zero => exact hs
    | succ i => exact hc i (by omega)
  exact interp_bounds _ _ _ 0 p.size (Rat.le_of_lt h1) h2 hprev (hc _ ho)

/-- **`coarse_storage_feasible_level`.**  A storage with a coarse frequency, without time blocks and holding-duration
    limit (with or without the no-simultaneous option), start and end level in `[0, size]`: for every point `z` that
    satisfies the rows of the coarse problem, the physical level of the expanded schedule is within `[0, size]` at the end
    of every FINE step and equals the end level at the end of the last one. -/
theorem coarse_storage_feasible_level (p : StorageP) (ref : Grid) (cg : CoarseGrid) (prices : Prices) (fullT : Nat)
    (Pc : AssetProblem) (hwf : cg.WellFormed ref.dt) (hT : 0 < cg.grid.T)
    (hmh : p.maxStoreDuration = none) (hbl : p.blocks = none)
    (hc : buildCoarseStorage p cg ref.dt prices fullT = .ok Pc)
    (hs : 0 ≤ p.startLevel ∧ p.startLevel ≤ p.size) (he : 0 ≤ p.endLevel ∧ p.endLevel ≤ p.size)
    (z x : Vec) (hx : IsExpansion ref cg z x) (hz : ∀ r ∈ Pc.rows, r.Sat z) :
    (∀ k, k < cg.owner.length →
      0 ≤ C05.physLevel p (minorGrid ref cg) (minorGrid ref cg).T x k ∧
      C05.physLevel p (minorGrid ref cg) (minorGrid ref cg).T x k ≤ p.size) ∧
    C05.physLevel p (minorGrid ref cg) (minorGrid ref cg).T x (cg.owner.length - 1) = p.endLevel := by
  have hne : cg.grid.dt.length ≠ 0 := by rw [hwf.ok.2.1]; omega
  obtain ⟨price, bl, hprice, hbl', hn, rfl⟩ := buildCoarseStorage_ok hc hne
  rw [blocksOf_none p _ hbl] at hbl'
  injection hbl' with hbl'
  subst hbl'
  have S := spread_of_wf hwf
  have hnpos := S.n_pos hT
  have hrows : ∀ r ∈ upperRows p cg.grid cg.grid.T [(0, cg.grid.T)] ++ lowerRows p cg.grid cg.grid.T [(0, cg.grid.T)], r.Sat z := by
    intro r hr
    apply hz
    show r ∈ upperRows p cg.grid cg.grid.T [(0, cg.grid.T)] ++ lowerRows p cg.grid cg.grid.T [(0, cg.grid.T)]
      ++ nsRows p cg.grid cg.grid.T ++ holdRows p cg.grid cg.grid.T
    exact List.mem_append_left _ (List.mem_append_left _ hr)
  have hlc := (levelIneq_iff_levOK p cg.grid cg.grid.T z hT).mp ((levelRows_iff p cg.grid z hmh).mp hrows)
  have hlf := levOK_fine_of_coarse S (owner_mono cg) hT p.size p.endLevel _ _
    (fun k hk => lev_expand hwf p hx k hk) (by rw [lev_zero']; exact hs) he hlc
  have hend : C05.physLevel p (minorGrid ref cg) (minorGrid ref cg).T x (cg.owner.length - 1) = p.endLevel := by
    rw [C05.physLevel_eq_lev, minorGrid_T]
    have e : cg.owner.length - 1 + 1 = cg.owner.length := by omega
    rw [e]; exact hlf.2
  refine ⟨fun k hk => ?_, hend⟩
  by_cases hkl : k + 1 < cg.owner.length
  · rw [C05.physLevel_eq_lev, minorGrid_T]
    exact hlf.1 k hkl
  · have : k = cg.owner.length - 1 := by omega
    rw [this, hend]; exact he

/-! ### C05: the reported fill level of a coarse storage (after the repairs F-05e / F-05f) -/

/-- **`fill_level_coarse_reported`**, all options, any `x`.  On the mapping a coarse storage returns, the repaired
    `Storage.fill_level` books at a full-grid step `t`, for every fine step of the storage that is `t` (fine steps
    numbered `k` in the order of the minor lists, coarse step `owner k`), what the code makes of the coarse step's
    variables (`max(0,−x)·eff_in + min(0,−x)` each) times `dt_fine/dt_coarse`, plus the inflow of the FINE step - and
    nothing at any other step. -/
theorem fill_level_coarse_reported (p : StorageP) (ref : Grid) (cg : CoarseGrid) (prices : Prices) (fullT : Nat)
    (Pc : AssetProblem) (hwf : cg.WellFormed ref.dt) (hT : 0 < cg.grid.T)
    (hc : buildCoarseStorage p cg ref.dt prices fullT = .ok Pc) (x : Vec) (t : Nat) :
    fillIncCoarse p Pc.mapping cg ref.dt x t
      = (((List.range cg.owner.length).filter fun k => cg.minor.flatten.getD k 0 == t).map fun k =>
          repFlow p cg.grid.T x (cg.owner.getD k 0) * (cg.weights ref.dt).getD k 0
            + p.inflow * ref.dt.getD (cg.minor.flatten.getD k 0) 0).sum := by
  have hne : cg.grid.dt.length ≠ 0 := by rw [hwf.ok.2.1]; omega
  obtain ⟨price, bl, _, _, hn, rfl⟩ := buildCoarseStorage_ok hc hne
  show fillIncCoarse p ((Storage.mapping p cg.grid cg.grid.T).flatMap (extendRow cg ref.dt)) cg ref.dt x t = _
  rw [fillIncCoarse_formula hwf p hn, sum_filter_map]
  apply rsum_congr
  intro k _
  simp only [beq_iff_eq]

/-- **`fill_level_coarse_true`**: reported = physical per FINE step.  The level `Storage.fill_level` (and the column
    `<name>_fill_level` of `io.extract_output`) reports at the full-grid step of the `k`-th fine step of the storage is
    the physical level of the expanded schedule at the end of that step.  Two-variable form: for every `z` with
    `z_in ≤ 0 ≤ z_out` (which the bounds enforce); one-variable form: for every `z`.  The minor steps are in increasing
    order (they are: `I_minor_in_major` lists the steps of consecutive intervals). -/
theorem fill_level_coarse_true (p : StorageP) (ref : Grid) (cg : CoarseGrid) (prices : Prices) (fullT Tfull : Nat)
    (Pc : AssetProblem) (hwf : cg.WellFormed ref.dt) (hT : 0 < cg.grid.T)
    (hinc : cg.minor.flatten.Pairwise (· < ·))
    (hc : buildCoarseStorage p cg ref.dt prices fullT = .ok Pc) (z x : Vec) (hx : IsExpansion ref cg z x)
    (hsign : sep p = true → ∀ i, i < cg.grid.T → z i ≤ 0 ∧ 0 ≤ z (cg.grid.T + i))
    (k : Nat) (hk : k < cg.owner.length) (hkT : cg.minor.flatten.getD k 0 < Tfull) :
    (fillLevelCoarse p Pc.mapping cg ref.dt Tfull z).getD (cg.minor.flatten.getD k 0) 0
      = C05.physLevel p (minorGrid ref cg) (minorGrid ref cg).T x k := by
  have hne : cg.grid.dt.length ≠ 0 := by rw [hwf.ok.2.1]; omega
  obtain ⟨price, bl, _, _, hn, rfl⟩ := buildCoarseStorage_ok hc hne
  show (fillLevelCoarse p ((Storage.mapping p cg.grid cg.grid.T).flatMap (extendRow cg ref.dt)) cg ref.dt Tfull z).getD _ 0 = _
  unfold fillLevelCoarse
  rw [List.getD_eq_getElem?_getD, List.getElem?_map, List.getElem?_range hkT]
  simp only [Option.map_some, Option.getD_some]
  rw [sumTo_fillIncCoarse hwf hinc p hn hx k hk, C05.physLevel_eq_lev, minorGrid_T]
  unfold lev cumInfl
  have h1 : sumTo (fun s => repFlow p cg.owner.length x s + infl p (minorGrid ref cg) s) (k + 1)
      = sumTo (fun s => flow p cg.owner.length x s + infl p (minorGrid ref cg) s) (k + 1) := by
    apply sumTo_congr
    intro s hs
    congr 1
    have hs' : s < cg.owner.length := by omega
    rw [repFlow_expand hwf p hx s hs', flow_expand p hx s hs']
    congr 1
    apply repFlow_eq_flow
    intro hsep
    exact hsign hsep _ (owner_lt hwf s hs')
  rw [h1, sumTo_add]; grind

/-- in the two-variable form the sign condition of `fill_level_coarse_true` follows from the bounds of the coarse
    problem -/
theorem fill_level_coarse_true_feasible (p : StorageP) (ref : Grid) (cg : CoarseGrid) (prices : Prices) (fullT Tfull : Nat)
    (Pc : AssetProblem) (hwf : cg.WellFormed ref.dt) (hT : 0 < cg.grid.T)
    (hinc : cg.minor.flatten.Pairwise (· < ·))
    (hc : buildCoarseStorage p cg ref.dt prices fullT = .ok Pc) (z x : Vec) (hx : IsExpansion ref cg z x)
    (hz : InBounds Pc.l Pc.u z)
    (k : Nat) (hk : k < cg.owner.length) (hkT : cg.minor.flatten.getD k 0 < Tfull) :
    (fillLevelCoarse p Pc.mapping cg ref.dt Tfull z).getD (cg.minor.flatten.getD k 0) 0
      = C05.physLevel p (minorGrid ref cg) (minorGrid ref cg).T x k := by
  apply fill_level_coarse_true p ref cg prices fullT Tfull Pc hwf hT hinc hc z x hx _ k hk hkT
  intro hs i hi
  have hne : cg.grid.dt.length ≠ 0 := by rw [hwf.ok.2.1]; omega
  obtain ⟨price, bl, _, _, hn, rfl⟩ := buildCoarseStorage_ok hc hne
  have hz' : InBounds (lowerVec p cg.grid cg.grid.T) (upperVec p cg.grid cg.grid.T) z := hz
  unfold InBounds at hz'
  rw [lowerVec_length] at hz'
  have hnv := nd_le_nVars p cg.grid.T
  have hnd : nd p cg.grid.T = 2 * cg.grid.T := by simp [nd, hs]
  obtain ⟨b1, b2, b3, b4⟩ := bounds_two p cg.grid cg.grid.T i hs hi
  have h1 := hz' i (by omega)
  have h2 := hz' (cg.grid.T + i) (by omega)
  rw [b2] at h1
  rw [b3] at h2
  exact ⟨h1.2, h2.1⟩

/-- **`coarse_mapping_weights`**, all options.  Every mapping row of a coarse storage (dispatch rows and the rows of the
    boolean variables) sits on a minor step of the coarse step `i` of its variable (`var mod T_c = i`) and carries the
    factor `dt_fine/dt_coarse`; so every dispatch variable reaches each of its fine steps with the share `dt_fine/dt_coarse`
    of its volume, rate `x/dt_coarse`. -/
theorem coarse_mapping_weights (p : StorageP) (ref : Grid) (cg : CoarseGrid) (prices : Prices) (fullT : Nat)
    (Pc : AssetProblem) (hwf : cg.WellFormed ref.dt) (hT : 0 < cg.grid.T)
    (hc : buildCoarseStorage p cg ref.dt prices fullT = .ok Pc) (m : MapRow) (hm : m ∈ Pc.mapping) :
    ∃ i, i < cg.grid.T ∧ m.step ∈ cg.minor.getD i [] ∧ m.var % cg.grid.T = i ∧
      m.factor = ref.dt.getD m.step 0 / cg.grid.dt.getD i 0 ∧
      ∀ x : Vec, m.contrib x / ref.dt.getD m.step 0 = x m.var / cg.grid.dt.getD i 0 := by
  have hne : cg.grid.dt.length ≠ 0 := by rw [hwf.ok.2.1]; omega
  obtain ⟨price, bl, _, _, hn, rfl⟩ := buildCoarseStorage_ok hc hne
  obtain ⟨i, hi, hs, hv, hf⟩ := mem_extended_mapping hwf p m hm
  refine ⟨i, hi, hs, hv, hf, fun x => ?_⟩
  have hi' : i < cg.minor.length := by rw [hwf.minorLen]; exact hi
  have := rate_of_row hwf m i hi' hs 1 (by rw [hf]; grind) x
  rw [this]; grind

/-- **`coarse_dispatch_is_fine_dispatch`**, all options: for every coarse point the dispatch the extended mapping reads
    off it at an asset, node and FINE step is the dispatch the fine storage's own mapping (all factors 1) reads off the
    expanded point -/
theorem coarse_dispatch_is_fine_dispatch (p : StorageP) (ref : Grid) (cg : CoarseGrid) (prices : Prices) (fullT : Nat)
    (Pc : AssetProblem) (hwf : cg.WellFormed ref.dt) (hT : 0 < cg.grid.T)
    (hc : buildCoarseStorage p cg ref.dt prices fullT = .ok Pc) (z x : Vec) (hx : IsExpansion ref cg z x)
    (a n : String) (t : Nat) :
    dispatchOut Pc.mapping a n t z
      = dispatchOut (Storage.mapping p (minorGrid ref cg) (minorGrid ref cg).T) a n t x := by
  have hne : cg.grid.dt.length ≠ 0 := by rw [hwf.ok.2.1]; omega
  obtain ⟨price, bl, _, _, hn, rfl⟩ := buildCoarseStorage_ok hc hne
  rw [minorGrid_T]
  exact (dispatch_expand hwf p hn hx a n t).symm

/-! ### from the grid up -/

/-- **from the grid up**: top-level reference grid, cuts of whole coarse steps `[s, e)`.  The coarse grid `Grid.coarsen`
    makes is well formed, its minor steps are in increasing order and the fine problem lives on `ref.restrict s e`: the
    hypotheses of the theorems above about the grids are true for the code (windows that are not whole coarse steps:
    finding F-19b, the coarse grid then covers less than the window). -/
theorem coarse_storage_grid_hyps (ref : Grid) (cuts : List Int) (cg : CoarseGrid) (s e : Int)
    (htl : ref.TopLevel) (hco : ref.coarsen cuts = .ok cg) (hcuts : cuts.Pairwise (· ≤ ·))
    (h0 : cuts.head? = some s) (hn : cuts.getLast? = some e) :
    cg.WellFormed ref.dt ∧ minorGrid ref cg = ref.restrict s e ∧ cg.minor.flatten.Pairwise (· < ·) := by
  have hwf := C13B.coarsen_wellFormed ref cuts cg htl hco hcuts
  have hg := C13B.minorGrid_eq_restrict ref cuts cg s e htl hco hcuts h0 hn
  refine ⟨hwf, hg, ?_⟩
  have hidx : cg.minor.flatten = (ref.restrict s e).idx := by rw [← hg]; rfl
  rw [hidx]
  show (sel (ref.mask s e) ref.idx).Pairwise (· < ·)
  rw [htl.idx]
  exact List.Pairwise.sublist (sel_sublist _ _) List.pairwise_lt_range

end EAO.C13S

/-! ### non-vacuity and the complements of the hypotheses (concrete instances, evaluated by the kernel) -/
namespace EAO.C13S.Ex
open EAO EAO.CoarseBuild EAO.CoarseStorage EAO.Storage EAO.C13B.Ex

/-- the coarse point and its expansion on the grids of `EAO.C13B.Ex`: hourly grid of 4 steps (`ref4`), two steps of two
    hours (`cg2`) -/
def ex (z : List Rat) : Vec := expand cg2.owner (cg2.weights ref4.dt) cg2.grid.T (C05.vecOf z)

/-- two-variable storage (efficiency 1/2), price series, inflow 1/4 per hour, start = end = 1 -/
def ps : StorageP :=
  { name := "s", nodes := ["a"], size := 4, capIn := 1, capOut := 1, startLevel := 1, endLevel := 1,
    costIn := 0, costOut := 0, costStore := 0, effIn := 1/2, inflow := 1/4, price := some "p",
    noSimult := false, maxStoreDuration := none, blocks := none }

-- the coarse problem: price means 2 and 4, limits 1·2 h, inflow 1/2 per coarse step, weights 1/2 on every minor step
example : (match buildCoarseStorage ps cg2 ref4.dt prices4 4 with
    | .ok P => P.c == [-2, -4, -2, -4] && P.l == [-2, -2, 0, 0] && P.u == [0, 0, 2, 2] && P.rows.length == 4 &&
        P.mapping.map (fun m => (m.var, m.step, m.factor)) ==
          [(0, 0, 1/2), (0, 1, 1/2), (1, 2, 1/2), (1, 3, 1/2), (2, 0, 1/2), (2, 1, 1/2), (3, 2, 1/2), (3, 3, 1/2)]
    | .error _ => false) = true := by decide +kernel

-- the fine problem: the price series [1,3,2,6] replaced by [2,2,4,4], hourly limits, a fill-level row per hour
example : (match fineStorage ps ref4 cg2 prices4 4 with
    | .ok P => P.c == [-2, -2, -4, -4, -2, -2, -4, -4] && P.l == [-1, -1, -1, -1, 0, 0, 0, 0] && P.rows.length == 8
    | .error _ => false) = true := by decide +kernel

/-- charge 2 in the first coarse step, discharge 3/2 in the second: coarse levels 1 + 1 + 1/2 = 5/2, then 1 -/
def zs : List Rat := [-2, 0, 0, 2]

example : C05.feasibleB (buildCoarseStorage ps cg2 ref4.dt prices4 4) (C05.vecOf zs) = true ∧
    C05.feasibleB (fineStorage ps ref4 cg2 prices4 4) (ex zs) = true ∧
    (List.range 2).map (C05.physLevel ps cg2.grid 2 (C05.vecOf zs)) = [5/2, 1] ∧
    (List.range 4).map (C05.physLevel ps (minorGrid ref4 cg2) 4 (ex zs)) = [7/4, 5/2, 7/4, 1] ∧
    (List.range 4).map (cumWeight cg2.owner (cg2.weights ref4.dt)) = [1/2, 1, 1/2, 1] := by decide +kernel

/-- every hypothesis of `coarse_equiv_storage` holds for this instance; the conclusion is the theorem's -/
example : ∃ Pc Pf, buildCoarseStorage ps cg2 ref4.dt prices4 4 = .ok Pc ∧ fineStorage ps ref4 cg2 prices4 4 = .ok Pf ∧
    ∀ z : Vec, (Pc.FeasibleRelaxed z ↔ Pf.FeasibleRelaxed (expand cg2.owner (cg2.weights ref4.dt) cg2.grid.T z)) ∧
      costAt Pf.c 0 (expand cg2.owner (cg2.weights ref4.dt) cg2.grid.T z) = costAt Pc.c 0 z := by
  obtain ⟨Pc, hc⟩ := ok_of_isSome (buildCoarseStorage ps cg2 ref4.dt prices4 4) (by decide +kernel)
  obtain ⟨Pf, hf, B, _, _, _, hz, _⟩ := coarse_equiv_storage ps ref4 cg2 prices4 4 Pc cg2_wf (by decide +kernel) rfl rfl
    (by decide +kernel) hc
  refine ⟨Pc, Pf, hc, hf, fun z => ⟨⟨?_, (hz z).2.1⟩, (hz z).2.2.2.1 cg2_df rfl⟩⟩
  exact (hz z).2.2.1 (by decide +kernel) (by decide +kernel)

/-- the reported fill level of the coarse storage at the coarse point is the physical level per hour (two steps of the
    full grid before … here the storage covers the whole grid of 4 steps) -/
example : (match buildCoarseStorage ps cg2 ref4.dt prices4 4 with
    | .ok P => fillLevelCoarse ps P.mapping cg2 ref4.dt 4 (C05.vecOf zs)
    | .error _ => []) = [7/4, 5/2, 7/4, 1] ∧ cg2.minor.flatten.Pairwise (· < ·) := by decide +kernel

/-- the same storage with the no-simultaneous option: three blocks of variables -/
def pns : StorageP := { ps with noSimult := true }

/-- mode "in" (boolean 0) in the first coarse step, "out" (boolean 1) in the second -/
def zns : List Rat := [-2, 0, 0, 2, 0, 1]

example : hasNS pns = true ∧
    C05.feasibleB (buildCoarseStorage pns cg2 ref4.dt prices4 4) (C05.vecOf zns) = true ∧
    C05.feasibleB (fineStorage pns ref4 cg2 prices4 4)
      (expandNS cg2.owner (cg2.weights ref4.dt) cg2.grid.T (C05.vecOf zns)) = true ∧
    (List.range 12).map (expandNS cg2.owner (cg2.weights ref4.dt) cg2.grid.T (C05.vecOf zns))
      = [-1, -1, 0, 0, 0, 0, 1, 1, 0, 0, 1, 1] := by decide +kernel

/-- every hypothesis of `coarse_equiv_storage_nosimult` holds for this instance -/
example : ∃ Pc Pf, buildCoarseStorage pns cg2 ref4.dt prices4 4 = .ok Pc ∧ fineStorage pns ref4 cg2 prices4 4 = .ok Pf ∧
    Pc.n = 6 ∧ Pf.n = 12 ∧
    ∀ z : Vec, (Pc.FeasibleRelaxed z ↔ Pf.FeasibleRelaxed (expandNS cg2.owner (cg2.weights ref4.dt) cg2.grid.T z)) := by
  obtain ⟨Pc, hc⟩ := ok_of_isSome (buildCoarseStorage pns cg2 ref4.dt prices4 4) (by decide +kernel)
  obtain ⟨Pf, hf, hnC, hnF, hz, _⟩ := coarse_equiv_storage_nosimult pns ref4 cg2 prices4 4 Pc cg2_wf (by decide +kernel) rfl rfl
    (by decide +kernel) hc
  have e1 : cg2.grid.T = 2 := by decide +kernel
  have e2 : (minorGrid ref4 cg2).T = 4 := by decide +kernel
  rw [e1] at hnC
  rw [e2] at hnF
  exact ⟨Pc, Pf, hc, hf, hnC, hnF, fun z => ⟨(hz z).2.2.2.1 (by decide +kernel) (by decide +kernel), (hz z).2.2.1⟩⟩

/-- the grids of the examples are what `Grid.coarsen` makes of the hourly grid along the two-hour cuts; the minor steps
    are in increasing order -/
example : cg2.WellFormed ref4.dt ∧ minorGrid ref4 cg2 = ref4.restrict 0 14400 ∧ cg2.minor.flatten.Pairwise (· < ·) := by
  exact coarse_storage_grid_hyps ref4 cuts2 cg2 0 14400 ref4_top (by decide +kernel) (by decide +kernel) rfl rfl

/-! the complements: where a hypothesis fails the statement fails -/

/-- one-variable storage with holding costs 1 per volume and hour, end level 2 -/
def pcs : StorageP :=
  { name := "s", nodes := ["a"], size := 4, capIn := 1, capOut := 1, startLevel := 0, endLevel := 2,
    costIn := 0, costOut := 0, costStore := 1, effIn := 1, inflow := 0, price := none,
    noSimult := false, maxStoreDuration := none, blocks := none }

/-- **finding #1 of this package on the model** (`cost_store = 0` is necessary): charging 2 in the first two-hour step
    (feasible in both problems) costs 8 in the coarse problem - the whole volume is charged holding costs from the begin of
    the coarse step - and 7 at its expansion (1 per hour) in the fine problem; all other hypotheses hold -/
theorem cost_store_witness :
    (match buildCoarseStorage pcs cg2 ref4.dt [] 4, fineStorage pcs ref4 cg2 [] 4 with
     | .ok Pc, .ok Pf =>
       Pc.c == [-4, -2] && Pf.c == [-4, -3, -2, -1] &&
       costAt Pc.c 0 (C05.vecOf [-2, 0]) == 8 && costAt Pf.c 0 (ex [-2, 0]) == 7 &&
       C05.feasibleB (.ok Pc) (C05.vecOf [-2, 0]) && C05.feasibleB (.ok Pf) (ex [-2, 0])
     | _, _ => false) = true ∧ pcs.costStore ≠ 0 ∧ EqualDiscount ref4 cg2 := by
  refine ⟨by decide +kernel, by decide +kernel, cg2_df⟩

/-- one-variable storage with a price -/
def pdf : StorageP :=
  { name := "s", nodes := ["a"], size := 4, capIn := 1, capOut := 1, startLevel := 2, endLevel := 0,
    costIn := 0, costOut := 0, costStore := 0, effIn := 1, inflow := 0, price := some "q",
    noSimult := false, maxStoreDuration := none, blocks := none }

/-- **F-13h on the model, for storages** (`EqualDiscount` is necessary): discount factors 1, 1/2 inside the coarse
    steps, price 1: discharging 2 in the first coarse step costs −2 in the coarse problem, −3/2 at its expansion -/
theorem unequal_discount_witness :
    (match buildCoarseStorage pdf cg2 ref4d.dt [("q", [1, 1, 1, 1])] 4, fineStorage pdf ref4d cg2 [("q", [1, 1, 1, 1])] 4 with
     | .ok Pc, .ok Pf =>
       costAt Pc.c 0 (C05.vecOf [2, 0]) == -2 &&
       costAt Pf.c 0 (expand cg2.owner (cg2.weights ref4d.dt) cg2.grid.T (C05.vecOf [2, 0])) == -3/2
     | _, _ => false) = true ∧ ¬ EqualDiscount ref4d cg2 := by
  constructor <;> decide +kernel

/-- start level −1 (the constructor only checks `start_level ≤ size`), inflow 1/2 per hour, end level 1 -/
def pneg : StorageP :=
  { name := "s", nodes := ["a"], size := 2, capIn := 1, capOut := 1, startLevel := -1, endLevel := 1,
    costIn := 0, costOut := 0, costStore := 0, effIn := 1, inflow := 1/2, price := none,
    noSimult := false, maxStoreDuration := none, blocks := none }

/-- **`0 ≤ start level` is necessary**: doing nothing is feasible for the coarse problem (levels 0 and 1 at the ends of
    the two-hour steps) but not for the fine one (level −1/2 after the first hour) -/
theorem start_below_zero_witness :
    pneg.guards = true ∧
    C05.feasibleB (buildCoarseStorage pneg cg2 ref4.dt [] 4) (C05.vecOf [0, 0]) = true ∧
    C05.feasibleB (fineStorage pneg ref4 cg2 [] 4) (ex [0, 0]) = false ∧
    (List.range 4).map (C05.physLevel pneg (minorGrid ref4 cg2) 4 (ex [0, 0])) = [-1/2, 0, 1/2, 1] := by decide +kernel

/-- end level 3 in a storage of size 2 (the constructor does not check the end level), start level 2 -/
def pover : StorageP :=
  { name := "s", nodes := ["a"], size := 2, capIn := 1, capOut := 1, startLevel := 2, endLevel := 3,
    costIn := 0, costOut := 0, costStore := 0, effIn := 1, inflow := 0, price := none,
    noSimult := false, maxStoreDuration := none, blocks := none }

/-- **`end level ≤ size` is necessary**: charging 1 in the last coarse step is feasible for the coarse problem (its
    last row only forces the end level) but the expansion passes level 5/2 > size inside that step -/
theorem end_above_size_witness :
    pover.guards = true ∧
    C05.feasibleB (buildCoarseStorage pover cg2 ref4.dt [] 4) (C05.vecOf [0, -1]) = true ∧
    C05.feasibleB (fineStorage pover ref4 cg2 [] 4) (ex [0, -1]) = false ∧
    (List.range 4).map (C05.physLevel pover (minorGrid ref4 cg2) 4 (ex [0, -1])) = [2, 2, 5/2, 3] := by decide +kernel

/-- holding-duration limit of one coarse step (2 h) -/
def phold : StorageP :=
  { name := "s", nodes := ["a"], size := 2, capIn := 1, capOut := 1, startLevel := 0, endLevel := 0,
    costIn := 0, costOut := 0, costStore := 0, effIn := 1, inflow := 0, price := none,
    noSimult := false, maxStoreDuration := some 2, blocks := none }

/-- all 0/1 vectors of length `n` -/
def bools : Nat → List (List Rat)
  | 0 => [[]]
  | n + 1 => (bools n).flatMap fun b => [0 :: b, 1 :: b]

/-- **`max_store_duration` is outside the equivalence**: charge 2 in the first two-hour step, discharge 2 in the second,
    indicators (1, 0): feasible for the coarse problem (the volume is held for ONE coarse step = the limit).  The expanded
    schedule (−1, −1, 1, 1) has the levels 1, 2, 1, 0: non-zero at the end of three consecutive hours, more than the limit
    of 2 h admits: no 0/1 choice of the four fine indicators makes it feasible for the fine problem. -/
theorem max_hold_witness :
    C05.feasibleB (buildCoarseStorage phold cg2 ref4.dt [] 4) (C05.vecOf [-2, 2, 1, 0]) = true ∧
    (bools 4).all (fun b => !C05.feasibleB (fineStorage phold ref4 cg2 [] 4) (C05.vecOf ([-1, -1, 1, 1] ++ b))) = true ∧
    (List.range 4).map (C05.physLevel phold (minorGrid ref4 cg2) 4 (C05.vecOf [-1, -1, 1, 1])) = [1, 2, 1, 0] := by
  decide +kernel

end EAO.C13S.Ex
