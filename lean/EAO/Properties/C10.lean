import EAO.Lemmas.State
/-!
# C10 — building a problem is a pure function of parameters, prices and grid (slot logic)

Model: `EAO.Model.State` (the mutable slots of grid objects, assets and portfolio; what every primitive
builder reads from them).  The theorems say: in every state reachable by any finite sequence of
`set_timegrid` / set-up / portfolio set-up / `dcf` / `fill_level` / `make_slp` calls on freshly
constructed objects, a set-up call makes every builder read exactly the asset's OWN window, frequency
and wacc, on the grid the call names (or the asset was put on) — nothing another asset or an earlier
call left in the shared grid object.

What this does NOT cover (only the history oracle `harness/comp/history.py` does): aliasing of Python
containers, pandas in-place semantics (`prices_to_grid` replacing the index of the caller's DataFrame),
the numeric content of the restricted grid.
-/
namespace EAO.C10
open EAO.State

/-- the one precondition the current code needs: a `ScaledAsset` called WITHOUT grid argument delegates to the
    base asset's own `timegrid` attribute; the result is the wrapper's only if both sit on the same grid object
    (see `scaled_noarg_not_pure` below for what happens otherwise) -/
def SideCond (env : Env) (s : PyState) : Call → Prop
  | .setup a none => ScaledSynced env s a
  | _ => True

/-- **C10 (slot logic).**  Current code (`rederive = true`): for every reachable state and every call, what the
    builders read (`Result`) is what they should read (`setupPure`: own window / frequency / wacc of every
    asset involved, structured assets' inner windows clipped from the ORIGINAL inner windows). -/
theorem setup_pure (env : Env) (s : PyState) (hs : Reachable true env s) (call : Call) (hS : SideCond env s call) :
    (setupSt true env s call).2 = setupPure env (ownPtrs s) call := by
  obtain ⟨calls, rfl⟩ := hs
  have hI : Inv env (run true env (init env) calls) := run_inv true env calls _ (inv_init env)
  cases call with
  | setTimegrid a g => simp [setupSt, setupPure]
  | setup a arg =>
    cases arg with
    | some g => simpa [setupSt, setupPure] using setupAsset_arg true env _ a g hI
    | none =>
      have := setupAsset_noarg env _ a hI hS
      simp only [setupSt, setupPure, ownPtrs]
      rw [this]
      cases ((run true env (init env) calls).assets a).grid <;> rfl
  | setupPortfolio arg => exact (setupPortfolioSt_eq true env _ arg hI).1
  | dcf a => rfl
  | fillLevel a =>
    simp only [setupSt, setupPure, ownPtrs]
    cases ((run true env (init env) calls).assets a).grid <;> rfl
  | makeSlp g t =>
    have hI1 : Inv env { (run true env (init env) calls) with
        grids := writeRestricted (writeRestricted (run true env (init env) calls).grids g (some t, none, none)) g (none, some t, none) } := hI
    have := (setupPortfolioSt_eq true env _ (some g) hI1).1
    simp only [setupSt, setupPure] at this ⊢
    rw [this]
    rfl

/-- a set-up WITH grid argument never depended on the history, before and after the fix (any `rederive`),
    for plain, scaled and structured assets alike -/
theorem setup_pure_with_grid (rd : Bool) (env : Env) (s : PyState) (hs : Reachable rd env s) (a g : Nat) :
    (setupSt rd env s (.setup a (some g))).2 = .ok (pureAsset (env.asset a) g) := by
  obtain ⟨calls, rfl⟩ := hs
  exact setupAsset_arg rd env _ a g (run_inv rd env calls _ (inv_init env))

/-- the same for a portfolio set-up: the problem of every asset is built from its own data although all assets
    write into the SAME grid object one after the other -/
theorem setup_pure_portfolio (rd : Bool) (env : Env) (s : PyState) (hs : Reachable rd env s) (g : Nat) :
    (setupSt rd env s (.setupPortfolio (some g))).2 = .ok ((List.range env.length).flatMap fun a => pureAsset (env.asset a) g) := by
  obtain ⟨calls, rfl⟩ := hs
  have := (setupPortfolioSt_eq rd env _ (some g) (run_inv rd env calls _ (inv_init env))).1
  simpa [setupSt, setupPure] using this

/-- the windows of wrapped assets survive every history (`finally:` in `StructuredAsset.setup_optim_problem`) -/
theorem inner_windows_restored (rd : Bool) (env : Env) (s : PyState) (hs : Reachable rd env s) (a : Nat) :
    (s.assets a).sub.map win = (env.asset a).subs.map pwin := by
  obtain ⟨calls, rfl⟩ := hs
  exact run_inv rd env calls _ (inv_init env) a

/-! ### why the fix 7e0d787 matters: without re-derivation the statement is false -/

def envTwo : Env := [.plain { start := some 0, stop := some 4 }, .plain { start := some 5, stop := some 9, wacc := 1 }]

/-- pre-fix behaviour (`rederive = false`): asset 0 and asset 1 are set up on the same grid object 7, then asset 0
    is set up again WITHOUT grid argument: its builder reads the window and discount factors of asset 1. -/
theorem setup_not_pure_without_rederive :
    ¬ (∀ (env : Env) (s : PyState), Reachable false env s → ∀ call, SideCond env s call →
        (setupSt false env s call).2 = setupPure env (ownPtrs s) call) := by
  intro h
  have := h envTwo _ ⟨[.setup 0 (some 7), .setup 1 (some 7)], rfl⟩ (.setup 0 none) trivial
  revert this
  decide

example : (setupSt false envTwo (run false envTwo (init envTwo) [.setup 0 (some 7), .setup 1 (some 7)]) (.setup 0 none)).2
    = .ok [{ grid := 7, restricted := some (some 5, some 9, none), disc := some 1 }] := by decide +kernel
example : (setupSt true envTwo (run true envTwo (init envTwo) [.setup 0 (some 7), .setup 1 (some 7)]) (.setup 0 none)).2
    = .ok [{ grid := 7, restricted := some (some 0, some 4, none), disc := some 0 }] := by decide +kernel

/-! ### what is still not pure in the current code: `ScaledAsset` without grid argument -/

def envScaled : Env := [.scaled { start := some 0 } { stop := some 9 }]

/-- current code: `sca.set_timegrid(tg)` then `sca.setup_optim_problem(prices)` raises (the base asset has no grid) -/
theorem scaled_noarg_raises :
    (setupSt true envScaled (run true envScaled (init envScaled) [.setTimegrid 0 3]) (.setup 0 none)).2 = .error .noGrid
    ∧ setupPure envScaled (ownPtrs (run true envScaled (init envScaled) [.setTimegrid 0 3])) (.setup 0 none)
        = .ok (pureAsset (envScaled.asset 0) 3) := by
  decide

/-- current code: set-up on grid 1, `sca.set_timegrid(grid 2)`, set-up without grid argument: built on grid 1.
    So `SideCond` cannot be dropped from `setup_pure`. -/
theorem scaled_noarg_not_pure :
    ¬ (∀ (env : Env) (s : PyState), Reachable true env s → ∀ call,
        (setupSt true env s call).2 = setupPure env (ownPtrs s) call) := by
  intro h
  have := h envScaled _ ⟨[.setup 0 (some 1), .setTimegrid 0 2], rfl⟩ (.setup 0 none)
  revert this
  decide

/- TARGET (not proved, time): `ScaledSynced` holds in every state reached by a history without `setTimegrid` on a scaled
   wrapper:  `(∀ c ∈ calls, ∀ a g, c = .setTimegrid a g → ∀ p b, env.asset a ≠ .scaled p b) →
              ∀ a, ScaledSynced env (run true env (init env) calls) a`
   (invariant: base pointer = wrapper pointer; kept by `setupAsset` on a scaled asset in all three branches, untouched by the
   other calls).  Not covered by the model at all: `setup_split_optim_problem` restoring the full grid for top-level assets
   only (finding H3), which breaks the same invariant in the real code. -/

/-! ### interval data: the normal form evaluates like the raw form -/

theorem normalise_intervals (d : IntervalDict) : (normalise d).intervals = d.intervals := by
  unfold normalise
  cases h : d.ends with
  | some es => rfl
  | none =>
    by_cases hall : (EAO.implicitEnds d.starts).all Option.isSome = true
    · have e1 := map_some_getD _ hall
      simp only [IntervalDict.intervals, EAO.mkIntervals, h, hall, if_true]
      rw [e1]
      congr 3
      exact (List.map_id'' (fun e => by cases e <;> rfl) _).symm
    · simp [hall]

/-- `values_to_grid` gives the same array for the dictionary it used to leave behind in the caller's hands
    (explicit ends, lists) as for the raw one, on every grid: in-place normalisation of that kind cannot change a
    later result -/
theorem values_to_grid_normalise (pts : List Int) (d : IntervalDict) :
    EAO.valuesToGrid pts (normalise d).intervals = EAO.valuesToGrid pts d.intervals := by
  rw [normalise_intervals]

theorem normalise_idem (d : IntervalDict) : normalise (normalise d) = normalise d := by
  unfold normalise
  cases h : d.ends with
  | some es => simp [h]
  | none =>
    by_cases hall : (EAO.implicitEnds d.starts).all Option.isSome = true
    · simp [hall]
    · simp [hall, h]

/-- non-vacuity: two starts without ends get the implicit ends written out, and evaluate alike -/
example : (normalise { starts := [0, 10], ends := none, values := [1, 2] }).ends = some [10, 30] := by decide
example : (EAO.valuesToGrid [0, 5, 10, 25, 30] (normalise { starts := [0, 10], ends := none, values := [1, 2] }).intervals).toOption
    = some [some 1, some 1, some 2, some 2, none] := by decide +kernel

end EAO.C10
