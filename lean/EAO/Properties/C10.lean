import EAO.Lemmas.State
/-!
# C10 — building a problem is a pure function of parameters, prices and grid (slot logic)

Model: `EAO.Model.State` (the mutable slots of grid objects, assets and portfolio; what every primitive
builder reads from them).  The theorems say: in every state reachable by any finite sequence of
`set_timegrid` / set-up / portfolio set-up / `dcf` / `fill_level` / `make_slp` calls on freshly
constructed objects, a set-up call makes every builder read exactly the asset's OWN window, frequency
and wacc, on the grid the call names (or the asset was put on) — nothing another asset or an earlier
call left in the shared grid object.

What this does NOT cover (only the history oracle `harness/comp/history.py` does): aliasing of Python
containers, pandas in-place semantics (`prices_to_grid` replacing the index of the caller's DataFrame),
the numeric content of the restricted grid.
-/
namespace EAO.C10
open EAO.State

/-- **C10 (slot logic).**  Current code (`current`: after 7e0d787 and 19afd7c): for every reachable state and EVERY call,
    what the builders read (`Result`) is what they should read (`setupPure`): the own window / frequency / wacc of every
    asset involved (structured assets' inner windows clipped from the ORIGINAL inner windows), on the grid the call names
    or, without grid argument, on the grid the object itself was put on (`ownPtrs`).  No side condition is left. -/
theorem setup_pure (env : Env) (s : PyState) (hs : Reachable current env s) (call : Call) :
    (setupSt current env s call).2 = setupPure env (ownPtrs s) call := by
  obtain ⟨calls, rfl⟩ := hs
  have hI : Inv env (run current env (init env) calls) := run_inv current env calls _ (inv_init env)
  cases call with
  | setTimegrid a g => simp [setupSt, setupPure]
  | setup a arg =>
    cases arg with
    | some g => simpa [setupSt, setupPure] using setupAsset_arg current env _ a g hI
    | none =>
      have := setupAsset_noarg env _ a hI
      simp only [setupSt, setupPure]
      rw [this]
      cases ownGrid env (ownPtrs (run current env (init env) calls)) a <;> rfl
  | setTimegridSub a i g => simp [setupSt, setupPure]
  | setupSub a i arg => exact setupSubSt_eq env _ a i arg hI
  | setupPortfolio arg => exact (setupPortfolioSt_eq current env _ arg hI).1
  | setupSplit g tmp =>
    have h := (setupIntervals_eq current env tmp _ hI).1
    simp only [setupSt, setupPure]
    rcases hsi : setupIntervals current env (run current env (init env) calls) tmp with ⟨s1, r⟩
    rw [hsi] at h
    simp only at h
    subst h
    rfl
  | dcf a => rfl
  | fillLevel a =>
    simp only [setupSt, setupPure, ownPtrs]
    cases ((run current env (init env) calls).assets a).grid <;> rfl
  | makeSlp g t =>
    have hI1 : Inv env { (run current env (init env) calls) with
        grids := writeRestricted (writeRestricted (run current env (init env) calls).grids g (some t, none, none)) g (none, some t, none) } := hI
    have := (setupPortfolioSt_eq current env _ (some g) hI1).1
    simp only [setupSt, setupPure] at this ⊢
    rw [this]
    rfl

/-- a set-up WITH grid argument never depended on the history, in every code version,
    for plain, scaled and structured assets alike -/
theorem setup_pure_with_grid (v : Version) (env : Env) (s : PyState) (hs : Reachable v env s) (a g : Nat) :
    (setupSt v env s (.setup a (some g))).2 = .ok (pureAsset (env.asset a) g) := by
  obtain ⟨calls, rfl⟩ := hs
  exact setupAsset_arg v env _ a g (run_inv v env calls _ (inv_init env))

/-- the same for a portfolio set-up: the problem of every asset is built from its own data although all assets
    write into the SAME grid object one after the other -/
theorem setup_pure_portfolio (v : Version) (env : Env) (s : PyState) (hs : Reachable v env s) (g : Nat) :
    (setupSt v env s (.setupPortfolio (some g))).2 = .ok ((List.range env.length).flatMap fun a => pureAsset (env.asset a) g) := by
  obtain ⟨calls, rfl⟩ := hs
  have := (setupPortfolioSt_eq v env _ (some g) (run_inv v env calls _ (inv_init env))).1
  simpa [setupSt, setupPure] using this

/-- and for a split set-up: every interval problem of every asset is built from the asset's own data on the interval grid -/
theorem setup_pure_split (v : Version) (env : Env) (s : PyState) (hs : Reachable v env s) (g : Nat) (tmp : List Nat) :
    (setupSt v env s (.setupSplit g tmp)).2
      = .ok (tmp.flatMap fun t => (List.range env.length).flatMap fun a => pureAsset (env.asset a) t) := by
  obtain ⟨calls, rfl⟩ := hs
  have h := (setupIntervals_eq v env tmp _ (run_inv v env calls _ (inv_init env))).1
  simp only [setupSt]
  rcases hsi : setupIntervals v env (run v env (init env) calls) tmp with ⟨s1, r⟩
  rw [hsi] at h
  simp only at h
  subst h
  rfl

/-- the windows of wrapped assets survive every history (`finally:` in `StructuredAsset.setup_optim_problem`) -/
theorem inner_windows_restored (v : Version) (env : Env) (s : PyState) (hs : Reachable v env s) (a : Nat) :
    (s.assets a).sub.map win = (env.asset a).subs.map pwin := by
  obtain ⟨calls, rfl⟩ := hs
  exact run_inv v env calls _ (inv_init env) a

/-! ### why the fix 7e0d787 matters: without re-derivation the statement is false -/

def envTwo : Env := [.plain { start := some 0, stop := some 4 }, .plain { start := some 5, stop := some 9, wacc := 1 }]

/-- behaviour before 7e0d787 (`rederive = false`): asset 0 and asset 1 are set up on the same grid object 7, then asset 0
    is set up again WITHOUT grid argument: its builder reads the window and discount factors of asset 1. -/
theorem setup_not_pure_without_rederive :
    ¬ (∀ (env : Env) (s : PyState), Reachable { rederive := false } env s → ∀ call,
        (setupSt { rederive := false } env s call).2 = setupPure env (ownPtrs s) call) := by
  intro h
  have := h envTwo _ ⟨[.setup 0 (some 7), .setup 1 (some 7)], rfl⟩ (.setup 0 none)
  revert this
  decide

example : (setupSt { rederive := false } envTwo (run { rederive := false } envTwo (init envTwo) [.setup 0 (some 7), .setup 1 (some 7)]) (.setup 0 none)).2
    = .ok [{ grid := 7, restricted := some (some 5, some 9, none), disc := some 1 }] := by decide +kernel
example : (setupSt current envTwo (run current envTwo (init envTwo) [.setup 0 (some 7), .setup 1 (some 7)]) (.setup 0 none)).2
    = .ok [{ grid := 7, restricted := some (some 0, some 4, none), disc := some 0 }] := by decide +kernel

/-! ### why the fix 19afd7c matters: `ScaledAsset` without grid argument (former finding H2) -/

def envScaled : Env := [.scaled { start := some 0 } { stop := some 9 }]

/-- behaviour before 19afd7c (`scaledOwnGrid = false`): set-up on grid 1, `sca.set_timegrid(grid 2)`, set-up without grid
    argument: built on grid 1, the grid the BASE asset still sits on. -/
theorem scaled_noarg_not_pure_before_fix :
    ¬ (∀ (env : Env) (s : PyState), Reachable { scaledOwnGrid := false } env s → ∀ call,
        (setupSt { scaledOwnGrid := false } env s call).2 = setupPure env (ownPtrs s) call) := by
  intro h
  have := h envScaled _ ⟨[.setup 0 (some 1), .setTimegrid 0 2], rfl⟩ (.setup 0 none)
  revert this
  decide

/-- before 19afd7c: `sca.set_timegrid(tg)` then `sca.setup_optim_problem(prices)` raised (the base asset has no grid) ... -/
example : (setupSt { scaledOwnGrid := false } envScaled (run { scaledOwnGrid := false } envScaled (init envScaled) [.setTimegrid 0 3]) (.setup 0 none)).2
    = .error .noGrid := by decide
/-- ... now it builds both problems on grid 3 -/
example : (setupSt current envScaled (run current envScaled (init envScaled) [.setTimegrid 0 3]) (.setup 0 none)).2
    = .ok (pureAsset (envScaled.asset 0) 3) := by decide +kernel
example : (setupSt current envScaled (run current envScaled (init envScaled) [.setup 0 (some 1), .setTimegrid 0 2]) (.setup 0 none)).2
    = .ok (pureAsset (envScaled.asset 0) 2) := by decide +kernel

/-! ### known finding H3: a split set-up leaves WRAPPED assets on the grid of the last interval

`setup_pure` takes the objects' own grid attributes as input.  What it cannot say is that these attributes are the ones
the user's calls named: `setup_split_optim_problem(prices, tg, ...)` puts the portfolio and its TOP-LEVEL assets back on `tg`,
the assets wrapped by a scaled / structured asset stay on the temporary grid of the last interval. -/

instance (env : Env) (s : PyState) (g : Nat) : Decidable (AllOn env s g) := by
  unfold AllOn; exact inferInstance

/-- after a plain portfolio set-up with grid argument the portfolio, every asset and every WRAPPED asset sit on that grid,
    in every reachable state and every code version (the pointer part of "same problem no matter what was set up before") -/
theorem portfolio_setup_all_on (v : Version) (env : Env) (s : PyState) (hs : Reachable v env s) (g : Nat) :
    AllOn env (setupSt v env s (.setupPortfolio (some g))).1 g := by
  obtain ⟨calls, rfl⟩ := hs
  have h := setupAll_on v env g (List.range env.length) { (run v env (init env) calls) with pf := some g }
    (run_inv v env calls _ (inv_init env))
  refine ⟨by simpa [setupSt, setupPortfolioSt] using h.1, ?_⟩
  intro a ha
  have := h.2 a (Or.inl (List.mem_range.2 ha))
  simpa [setupSt, setupPortfolioSt, On] using this

def envSplit : Env := [.scaled {} { stop := some 9 }, .plain {}]

/-- a plain portfolio set-up on grid 0 leaves the portfolio, all assets and all wrapped assets on grid 0 ... -/
example : AllOn envSplit (run current envSplit (init envSplit) [.setupPortfolio (some 0)]) 0 := by decide
/-- ... a split set-up on grid 0 with interval grids 10, 11 does not: -/
theorem split_leaves_wrapped_assets_on_interval_grid :
    ¬ (∀ (env : Env) (s : PyState) (g : Nat) (tmp : List Nat), Reachable current env s →
        AllOn env (setupSt current env s (.setupSplit g tmp)).1 g) := by
  intro h
  have := h envSplit _ 0 [10, 11] ⟨[], rfl⟩
  revert this
  decide

/-- the wrapper is back on grid 0, its base asset sits on interval grid 11 -/
example : (ownPtrs (run current envSplit (init envSplit) [.setupSplit 0 [10, 11]])).asset 0 = some 0
    ∧ (ownPtrs (run current envSplit (init envSplit) [.setupSplit 0 [10, 11]])).sub 0 0 = some 11 := by decide

/-- consequence (the known finding): the same direct no-argument set-up of the wrapped asset gives different problems after
    a plain portfolio set-up and after a split set-up of the same portfolio on the same grid (grid 0 vs the LAST INTERVAL's
    grid 11, see the two examples below): the result depends on which kind of set-up ran before. -/
theorem wrapped_noarg_after_split_not_pure :
    (setupSt current envSplit (run current envSplit (init envSplit) [.setupPortfolio (some 0)]) (.setupSub 0 0 none)).2
      ≠ (setupSt current envSplit (run current envSplit (init envSplit) [.setupSplit 0 [10, 11]]) (.setupSub 0 0 none)).2 := by
  decide

example : (setupSt current envSplit (run current envSplit (init envSplit) [.setupPortfolio (some 0)]) (.setupSub 0 0 none)).2
    = .ok [usedOf 0 none (some 9) none 0] := by decide +kernel
example : (setupSt current envSplit (run current envSplit (init envSplit) [.setupSplit 0 [10, 11]]) (.setupSub 0 0 none)).2
    = .ok [usedOf 11 none (some 9) none 0] := by decide +kernel

/-- the TOP-LEVEL call is fine since 19afd7c: after the split the scaled asset itself builds on grid 0 again -/
example : (setupSt current envSplit (run current envSplit (init envSplit) [.setupSplit 0 [10, 11]]) (.setup 0 none)).2
    = .ok (pureAsset (envSplit.asset 0) 0) := by decide +kernel
/-- before 19afd7c it built on the interval grid 11 (H2 and H3 together) -/
example : (setupSt { scaledOwnGrid := false } envSplit (run { scaledOwnGrid := false } envSplit (init envSplit) [.setupSplit 0 [10, 11]]) (.setup 0 none)).2
    = .ok (pureAsset (envSplit.asset 0) 11) := by decide +kernel

/-! ### interval data: the normal form evaluates like the raw form -/

theorem normalise_intervals (d : IntervalDict) : (normalise d).intervals = d.intervals := by
  unfold normalise
  cases h : d.ends with
  | some es => rfl
  | none =>
    by_cases hall : (EAO.implicitEnds d.starts).all Option.isSome = true
    · have e1 := map_some_getD _ hall
      simp only [IntervalDict.intervals, EAO.mkIntervals, h, hall, if_true]
      rw [e1]
      congr 3
      exact (List.map_id'' (fun e => by cases e <;> rfl) _).symm
    · simp [hall]

/-- `values_to_grid` gives the same array for the dictionary it used to leave behind in the caller's hands
    (explicit ends, lists) as for the raw one, on every grid: in-place normalisation of that kind cannot change a
    later result -/
theorem values_to_grid_normalise (pts : List Int) (d : IntervalDict) :
    EAO.valuesToGrid pts (normalise d).intervals = EAO.valuesToGrid pts d.intervals := by
  rw [normalise_intervals]

theorem normalise_idem (d : IntervalDict) : normalise (normalise d) = normalise d := by
  unfold normalise
  cases h : d.ends with
  | some es => simp [h]
  | none =>
    by_cases hall : (EAO.implicitEnds d.starts).all Option.isSome = true
    · simp [hall]
    · simp [hall, h]

/-- non-vacuity: two starts without ends get the implicit ends written out, and evaluate alike -/
example : (normalise { starts := [0, 10], ends := none, values := [1, 2] }).ends = some [10, 30] := by decide
example : (EAO.valuesToGrid [0, 5, 10, 25, 30] (normalise { starts := [0, 10], ends := none, values := [1, 2] }).intervals).toOption
    = some [some 1, some 1, some 2, some 2, none] := by decide +kernel

end EAO.C10
