import EAO.Lemmas.State
/-!
# C10 — building a problem is a pure function of parameters, prices and grid (slot logic)

Model: `EAO.Model.State` (the mutable slots of grid objects, of the portfolio and of every object of the asset TREES — wrappers
nested in wrappers to any depth, linked assets —; what every builder reads from them).  The theorems say: in every state reachable
by any finite sequence of `set_timegrid` / set-up / portfolio set-up / split set-up / `dcf` / `fill_level` / `make_slp` calls on
freshly constructed objects (calls on top-level assets and, directly, on wrapped assets at any depth), a set-up call makes every
builder read exactly the object's OWN window (clipped by the windows of the wrappers above it inside the object the call names),
frequency and wacc, on the grid the call names (or the object was put on) — nothing another asset or an earlier call left in the
shared grid object, and no window a wrapper clipped during an earlier call.

What this does NOT cover (only the history oracle `harness/comp/history.py` does): aliasing of Python containers, pandas in-place
semantics (`prices_to_grid` replacing the index of the caller's DataFrame), the numeric content of the restricted grid, the state
after an exception other than "no grid set".
-/
namespace EAO.C10
open EAO.State

/-- **C10 (slot logic).**  Current code (`current`: after 7e0d787 and 19afd7c): for every reachable state and EVERY call,
    what the builders read (`Result`) is what they should read (`setupPure`): the own window / frequency / wacc of every
    object of the tree involved (windows clipped, through all levels, from the ORIGINAL windows), on the grid the call names
    or, without grid argument, on the grid the object itself was put on (`ownPtrs`).  No side condition is left. -/
theorem setup_pure (env : Env) (s : PyState) (hs : Reachable current env s) (call : Call) :
    (setupSt current env s call).2 = setupPure env (ownPtrs s) call := by
  obtain ⟨calls, rfl⟩ := hs
  have hI : Inv env (run current env (init env) calls) := run_inv current env calls _ (inv_init env)
  cases call with
  | setTimegrid ad g => simp [setupSt, setupPure]
  | setup ad arg =>
    cases arg with
    | some g =>
      have := setupAt_arg current env _ ad g hI
      simp only [setupSt, setupPure]
      rw [this]
      cases env.at ad <;> rfl
    | none =>
      have := setupAt_noarg env _ ad hI
      simp only [setupSt, setupPure]
      rw [this]
      cases env.at ad <;> rfl
  | setupPortfolio arg => exact (setupPortfolioSt_eq current env _ arg hI).1
  | setupSplit g tmp =>
    have h := (setupIntervals_eq current env tmp _ hI).1
    simp only [setupSt, setupPure]
    rw [h]
  | dcf a => rfl
  | fillLevel a =>
    simp only [setupSt, setupPure, ownPtrs]
    cases ((run current env (init env) calls).objs [a]).grid <;> rfl
  | makeSlp g t =>
    have hI1 : Inv env { (run current env (init env) calls) with
        grids := writeRestricted (writeRestricted (run current env (init env) calls).grids g (some t, none, none)) g (none, some t, none) } := hI
    have := (setupPortfolioSt_eq current env _ (some g) hI1).1
    simp only [setupSt, setupPure] at this ⊢
    rw [this]
    rfl

/-- a set-up WITH grid argument never depended on the history, in every code version, for the object at ANY address:
    plain, scaled, structured and linked assets, top-level or wrapped at any depth and called directly -/
theorem setup_pure_with_grid (v : Version) (env : Env) (s : PyState) (hs : Reachable v env s) (ad : Addr) (g : Nat) :
    (setupSt v env s (.setup ad (some g))).2 = match env.at ad with
      | some x => .ok (pureAsset x g)
      | none => .ok [] := by
  obtain ⟨calls, rfl⟩ := hs
  exact setupAt_arg v env _ ad g (run_inv v env calls _ (inv_init env))

/-- the same for a top-level asset, in the words of the flat model -/
theorem setup_pure_with_grid_top (v : Version) (env : Env) (s : PyState) (hs : Reachable v env s) (a g : Nat) :
    (setupSt v env s (.setup [a] (some g))).2 = .ok (pureAsset (env.asset a) g) := by
  rw [setup_pure_with_grid v env s hs, at_top]

/-- the same for a portfolio set-up: the problem of every asset is built from its own data although all assets
    write into the SAME grid object one after the other -/
theorem setup_pure_portfolio (v : Version) (env : Env) (s : PyState) (hs : Reachable v env s) (g : Nat) :
    (setupSt v env s (.setupPortfolio (some g))).2 = .ok ((List.range env.length).flatMap fun a => pureAsset (env.asset a) g) := by
  obtain ⟨calls, rfl⟩ := hs
  have := (setupPortfolioSt_eq v env _ (some g) (run_inv v env calls _ (inv_init env))).1
  simpa [setupSt, setupPure] using this

/-- and for a split set-up: every interval problem of every asset is built from the asset's own data on the interval grid -/
theorem setup_pure_split (v : Version) (env : Env) (s : PyState) (hs : Reachable v env s) (g : Nat) (tmp : List Nat) :
    (setupSt v env s (.setupSplit g tmp)).2
      = .ok (tmp.flatMap fun t => (List.range env.length).flatMap fun a => pureAsset (env.asset a) t) := by
  obtain ⟨calls, rfl⟩ := hs
  have h := (setupIntervals_eq v env tmp _ (run_inv v env calls _ (inv_init env))).1
  simp only [setupSt]
  rw [h]

/-- the windows of ALL objects (wrapped at any depth) survive every history: whatever a scaled / structured / linked asset
    clips during its set-up it restores (`finally:`) -/
theorem inner_windows_restored (v : Version) (env : Env) (s : PyState) (hs : Reachable v env s) (ad : Addr) :
    win (s.objs ad) = iwin env ad := by
  obtain ⟨calls, rfl⟩ := hs
  exact run_inv v env calls _ (inv_init env) ad

/-- stronger, and for every state: no single call changes the window of any object -/
theorem call_keeps_windows (v : Version) (env : Env) (s : PyState) (call : Call) (ad : Addr) :
    win ((setupSt v env s call).1.objs ad) = win (s.objs ad) :=
  setupSt_win v env s call ad

/-! ### what `pureAsset` says, without recursion -/

/-- every builder below `x` (an object that is no structured asset: primitive assets and scaled assets) reads, when `x` is set up
    on grid `g`, its own frequency and wacc and its own window clipped by the windows of ALL wrappers above it -/
theorem pure_reads_clipped (g : Nat) : ∀ (q : List Nat) (x y : Asset) (s e : Option Int), x.sub? q = some y →
    (∀ p l inner, y ≠ .structured p l inner) →
    usedOf g (effWin x q s e).1 (effWin x q s e).2 y.params.freq y.params.wacc ∈ pureAt g x s e
  | [], x, y, s, e, h, hy => by
    simp only [Asset.sub?, Option.some.injEq] at h
    subst h
    cases x with
    | plain p => simp [pureAt, effWin, Asset.params]
    | scaled p b => simp [pureAt, effWin, Asset.params]
    | structured p l inner => exact absurd rfl (hy p l inner)
  | i :: q, x, y, s, e, h, hy => by
    simp only [Asset.sub?] at h
    cases hc : x.subs[i]? with
    | none => rw [hc] at h; cases h
    | some c =>
      rw [hc] at h
      simp only at h
      have ih := pure_reads_clipped g q c y (clipStart c.params.start s) (clipStop c.params.stop e) h hy
      simp only [effWin, hc]
      cases x with
      | plain p => simp [Asset.subs] at hc
      | scaled p b =>
        simp only [Asset.subs] at hc
        cases i with
        | zero =>
          simp only [List.getElem?_cons_zero, Option.some.injEq] at hc
          subst hc
          simp only [pureAt, List.mem_append]
          exact Or.inl ih
        | succ i => simp at hc
      | structured p l inner =>
        simp only [Asset.subs] at hc
        have := mem_pureList g inner i c s e _ hc ih
        simp only [pureAt]
        split
        · exact List.mem_append_left _ this
        · exact this

/-! ### linked assets: the loop over the steps reads what the wrapped asset set up LAST left in the grid object -/

/-- the builders of a linked asset read what those of the structured asset with the same inner assets read, and then the
    `LinkedAsset` itself reads — for its loop `for t in range(self.timegrid.restricted.T)` — the window of the asset of its
    portfolio that was set up LAST (here: a primitive or scaled asset `c` with own window, clipped by the linked asset's),
    not its own window and not the windows of the two assets it links (the cause of known finding F-09e) -/
theorem linked_reads_last_inner (g : Nat) (p : Params) (cs : List Asset) (c : Asset) (hc : ∀ q l inner, c ≠ .structured q l inner) :
    pureAsset (.structured p true (cs ++ [c])) g
      = pureAsset (.structured p false (cs ++ [c])) g
        ++ [usedOf g (clipStart c.params.start p.start) (clipStop c.params.stop p.stop) c.params.freq c.params.wacc] := by
  have hl : lastWrite g c (clipStart c.params.start p.start) (clipStop c.params.stop p.stop)
      = usedOf g (clipStart c.params.start p.start) (clipStop c.params.stop p.stop) c.params.freq c.params.wacc := by
    cases c with
    | plain q => rfl
    | scaled q b => rfl
    | structured q l inner => exact absurd rfl (hc q l inner)
  have e1 : (Asset.structured p true (cs ++ [c])).params = p := rfl
  have e2 : (Asset.structured p false (cs ++ [c])).params = p := rfl
  simp only [pureAsset, pureAt, e1, e2, lastWriteL_append, hl]
  simp

def lkA : Asset := .plain { start := some 5, stop := some 6 }
def lkB : Asset := .plain { start := some 2, stop := some 15 }

/-- so the read of a linked asset depends on the ORDER of the assets it wraps (witness of F-09e in the slot model: windows
    5..6 and 2..15; the loop runs over the steps of 2..15 in one order, over those of 5..6 in the other) -/
theorem linked_read_depends_on_inner_order :
    (pureAsset (.structured {} true [lkA, lkB]) 0).getLast? ≠ (pureAsset (.structured {} true [lkB, lkA]) 0).getLast? := by
  decide

example : (pureAsset (.structured {} true [lkA, lkB]) 0).getLast? = some (usedOf 0 (some 2) (some 15) none 0) := by decide +kernel
example : (pureAsset (.structured {} true [lkB, lkA]) 0).getLast? = some (usedOf 0 (some 5) (some 6) none 0) := by decide +kernel

/-! ### why the fix 7e0d787 matters: without re-derivation the statement is false -/

def envTwo : Env := [.plain { start := some 0, stop := some 4 }, .plain { start := some 5, stop := some 9, wacc := 1 }]

/-- behaviour before 7e0d787 (`rederive = false`): asset 0 and asset 1 are set up on the same grid object 7, then asset 0
    is set up again WITHOUT grid argument: its builder reads the window and discount factors of asset 1. -/
theorem setup_not_pure_without_rederive :
    ¬ (∀ (env : Env) (s : PyState), Reachable { rederive := false } env s → ∀ call,
        (setupSt { rederive := false } env s call).2 = setupPure env (ownPtrs s) call) := by
  intro h
  have := h envTwo _ ⟨[.setup [0] (some 7), .setup [1] (some 7)], rfl⟩ (.setup [0] none)
  revert this
  decide

example : (setupSt { rederive := false } envTwo (run { rederive := false } envTwo (init envTwo) [.setup [0] (some 7), .setup [1] (some 7)]) (.setup [0] none)).2
    = .ok [{ grid := 7, restricted := some (some 5, some 9, none), disc := some 1 }] := by decide +kernel
example : (setupSt current envTwo (run current envTwo (init envTwo) [.setup [0] (some 7), .setup [1] (some 7)]) (.setup [0] none)).2
    = .ok [{ grid := 7, restricted := some (some 0, some 4, none), disc := some 0 }] := by decide +kernel

/-! ### why the fix 19afd7c matters: `ScaledAsset` without grid argument (former finding H2) -/

def envScaled : Env := [.scaled { start := some 0 } (.plain { stop := some 9 })]

/-- behaviour before 19afd7c (`scaledOwnGrid = false`): set-up on grid 1, `sca.set_timegrid(grid 2)`, set-up without grid
    argument: built on grid 1, the grid the BASE asset still sits on. -/
theorem scaled_noarg_not_pure_before_fix :
    ¬ (∀ (env : Env) (s : PyState), Reachable { scaledOwnGrid := false } env s → ∀ call,
        (setupSt { scaledOwnGrid := false } env s call).2 = setupPure env (ownPtrs s) call) := by
  intro h
  have := h envScaled _ ⟨[.setup [0] (some 1), .setTimegrid [0] 2], rfl⟩ (.setup [0] none)
  revert this
  decide

/-- before 19afd7c: `sca.set_timegrid(tg)` then `sca.setup_optim_problem(prices)` raised (the base asset has no grid) ... -/
example : (setupSt { scaledOwnGrid := false } envScaled (run { scaledOwnGrid := false } envScaled (init envScaled) [.setTimegrid [0] 3]) (.setup [0] none)).2
    = .error .noGrid := by decide
/-- ... now it builds both problems on grid 3 -/
example : (setupSt current envScaled (run current envScaled (init envScaled) [.setTimegrid [0] 3]) (.setup [0] none)).2
    = .ok (pureAsset (envScaled.asset 0) 3) := by decide +kernel
example : (setupSt current envScaled (run current envScaled (init envScaled) [.setup [0] (some 1), .setTimegrid [0] 2]) (.setup [0] none)).2
    = .ok (pureAsset (envScaled.asset 0) 2) := by decide +kernel

/-! ### wrappers nested in wrappers: non-vacuity of the theorems above on a tree of depth 4 -/

/-- a scaled asset (window 1..) over a structured asset (window ..8) holding a scaled asset (window 2..) over a contract (0..9,
    wacc 1/2), a linked asset (window 3..7) over two assets, and a plain asset -/
def envDeep : Env :=
  [.scaled { start := some 1 }
    (.structured { stop := some 8 } false
      [.scaled { start := some 2 } (.plain { start := some 0, stop := some 9, wacc := 1/2 }),
       .structured { start := some 3, stop := some 7 } true [.plain { stop := some 5 }, .plain { start := some 4, wacc := 1 }],
       .plain {}]),
   .plain { start := some 6 }]

/-- the contract at depth 3 reads 2..8: its own window 0..9 clipped by 2.. (scaled), ..8 (structured) and 1.. (outer scaled) -/
example : effWin (envDeep.asset 0) [0, 0, 0] (some 1) none = (some 2, some 8) := by decide
example : pureAsset (envDeep.asset 0) 5 =
    [usedOf 5 (some 2) (some 8) none (1/2), usedOf 5 (some 2) (some 8) none 0,      -- contract, scaled asset around it
     usedOf 5 (some 3) (some 5) none 0, usedOf 5 (some 4) (some 7) none 1,          -- the two assets wrapped by the linked asset
     usedOf 5 (some 4) (some 7) none 1,                                              -- the linked asset: what the last of them left
     usedOf 5 (some 1) (some 8) none 0,                                              -- plain asset inside the structured asset
     usedOf 5 (some 1) none none 0] := by decide +kernel                             -- outer scaled asset
/-- after any history — here: a portfolio set-up on grid 1, a direct set-up of the inner scaled asset on grid 2, `set_timegrid(grid 3)`
    on the linked asset, a split set-up — a set-up of the whole tree on grid 5 reads exactly that, and the windows are the constructed ones -/
example : (setupSt current envDeep (run current envDeep (init envDeep)
      [.setupPortfolio (some 1), .setup [0, 0, 0] (some 2), .setTimegrid [0, 0, 1] 3, .setupSplit 1 [10, 11]]) (.setup [0] (some 5))).2
    = .ok (pureAsset (envDeep.asset 0) 5) := by decide +kernel
example : win ((run current envDeep (init envDeep)
      [.setupPortfolio (some 1), .setup [0, 0, 0] (some 2), .setTimegrid [0, 0, 1] 3, .setupSplit 1 [10, 11]]).objs [0, 0, 0, 0]) = (some 0, some 9) := by
  decide
/-- the linked asset at depth 2 set up directly without grid argument builds on the grid it was put on (3), with its own windows -/
example : (setupSt current envDeep (run current envDeep (init envDeep)
      [.setupPortfolio (some 1), .setTimegrid [0, 0, 1] 3]) (.setup [0, 0, 1] none)).2
    = .ok [usedOf 3 (some 3) (some 5) none 0, usedOf 3 (some 4) (some 7) none 1, usedOf 3 (some 4) (some 7) none 1] := by decide +kernel
/-- a chain of wrappers that never saw a grid works on the grid of the innermost base asset (`ownGrid`) -/
example : (setupSt current [.scaled {} (.scaled { stop := some 3 } (.plain {}))]
      (run current [.scaled {} (.scaled { stop := some 3 } (.plain {}))] (init [.scaled {} (.scaled { stop := some 3 } (.plain {}))]) [.setTimegrid [0, 0, 0] 4])
      (.setup [0] none)).2
    = .ok [usedOf 4 none (some 3) none 0, usedOf 4 none (some 3) none 0, usedOf 4 none none none 0] := by decide +kernel

/-! ### known finding H3: a split set-up leaves WRAPPED assets on the grid of the last interval

`setup_pure` takes the objects' own grid attributes as input.  What it cannot say is that these attributes are the ones
the user's calls named: `setup_split_optim_problem(prices, tg, ...)` puts the portfolio and its TOP-LEVEL assets back on `tg`,
the assets wrapped by a scaled / structured asset (at every depth) stay on the temporary grid of the last interval. -/

instance (env : Env) (s : PyState) (g : Nat) : Decidable (AllOn env s g) := by
  unfold AllOn; exact inferInstance

/-- after a plain portfolio set-up with grid argument the portfolio, every asset and every WRAPPED asset (at every depth) sit on
    that grid, in every state and every code version (the pointer part of "same problem no matter what was set up before") -/
theorem portfolio_setup_all_on (v : Version) (env : Env) (s : PyState) (g : Nat) :
    AllOn env (setupSt v env s (.setupPortfolio (some g))).1 g := by
  have h := setupAll_on v env g (List.range env.length) { s with pf := some g }
  refine ⟨by simpa [setupSt, setupPortfolioSt] using h.1, ?_⟩
  intro a ha
  have := h.2 a (Or.inl (List.mem_range.2 ha))
  simpa [setupSt, setupPortfolioSt, On] using this

def envSplit : Env := [.scaled {} (.plain { stop := some 9 }), .plain {}]

/-- a plain portfolio set-up on grid 0 leaves the portfolio, all assets and all wrapped assets on grid 0 ... -/
example : AllOn envSplit (run current envSplit (init envSplit) [.setupPortfolio (some 0)]) 0 := by decide
example : AllOn envDeep (run current envDeep (init envDeep) [.setupSplit 1 [10, 11], .setupPortfolio (some 0)]) 0 := by decide
/-- ... a split set-up on grid 0 with interval grids 10, 11 does not: -/
theorem split_leaves_wrapped_assets_on_interval_grid :
    ¬ (∀ (env : Env) (s : PyState) (g : Nat) (tmp : List Nat), Reachable current env s →
        AllOn env (setupSt current env s (.setupSplit g tmp)).1 g) := by
  intro h
  have := h envSplit _ 0 [10, 11] ⟨[], rfl⟩
  revert this
  decide

/-- the wrapper is back on grid 0, its base asset sits on interval grid 11 -/
example : (ownPtrs (run current envSplit (init envSplit) [.setupSplit 0 [10, 11]])).obj [0] = some 0
    ∧ (ownPtrs (run current envSplit (init envSplit) [.setupSplit 0 [10, 11]])).obj [0, 0] = some 11 := by decide
/-- in a deeper tree every level below the top stays on the interval grid -/
example : (List.map (ownPtrs (run current envDeep (init envDeep) [.setupSplit 0 [10, 11]])).obj [[0], [0, 0], [0, 0, 0], [0, 0, 0, 0], [0, 0, 1, 1], [1]])
    = [some 0, some 11, some 11, some 11, some 11, some 0] := by decide

/-- consequence (the known finding): the same direct no-argument set-up of the wrapped asset gives different problems after
    a plain portfolio set-up and after a split set-up of the same portfolio on the same grid (grid 0 vs the LAST INTERVAL's
    grid 11, see the two examples below): the result depends on which kind of set-up ran before. -/
theorem wrapped_noarg_after_split_not_pure :
    (setupSt current envSplit (run current envSplit (init envSplit) [.setupPortfolio (some 0)]) (.setup [0, 0] none)).2
      ≠ (setupSt current envSplit (run current envSplit (init envSplit) [.setupSplit 0 [10, 11]]) (.setup [0, 0] none)).2 := by
  decide

example : (setupSt current envSplit (run current envSplit (init envSplit) [.setupPortfolio (some 0)]) (.setup [0, 0] none)).2
    = .ok [usedOf 0 none (some 9) none 0] := by decide +kernel
example : (setupSt current envSplit (run current envSplit (init envSplit) [.setupSplit 0 [10, 11]]) (.setup [0, 0] none)).2
    = .ok [usedOf 11 none (some 9) none 0] := by decide +kernel

/-- the TOP-LEVEL call is fine since 19afd7c: after the split the scaled asset itself builds on grid 0 again -/
example : (setupSt current envSplit (run current envSplit (init envSplit) [.setupSplit 0 [10, 11]]) (.setup [0] none)).2
    = .ok (pureAsset (envSplit.asset 0) 0) := by decide +kernel
/-- before 19afd7c it built on the interval grid 11 (H2 and H3 together) -/
example : (setupSt { scaledOwnGrid := false } envSplit (run { scaledOwnGrid := false } envSplit (init envSplit) [.setupSplit 0 [10, 11]]) (.setup [0] none)).2
    = .ok (pureAsset (envSplit.asset 0) 11) := by decide +kernel

/-! ### interval data: the normal form evaluates like the raw form -/

theorem normalise_intervals (d : IntervalDict) : (normalise d).intervals = d.intervals := by
  unfold normalise
  cases h : d.ends with
  | some es => rfl
  | none =>
    by_cases hall : (EAO.implicitEnds d.starts).all Option.isSome = true
    · have e1 := map_some_getD _ hall
      simp only [IntervalDict.intervals, EAO.mkIntervals, h, hall, if_true]
      rw [e1]
      congr 3
      exact (List.map_id'' (fun e => by cases e <;> rfl) _).symm
    · simp [hall]

/-- `values_to_grid` gives the same array for the dictionary it used to leave behind in the caller's hands
    (explicit ends, lists) as for the raw one, on every grid: in-place normalisation of that kind cannot change a
    later result -/
theorem values_to_grid_normalise (pts : List Int) (d : IntervalDict) :
    EAO.valuesToGrid pts (normalise d).intervals = EAO.valuesToGrid pts d.intervals := by
  rw [normalise_intervals]

theorem normalise_idem (d : IntervalDict) : normalise (normalise d) = normalise d := by
  unfold normalise
  cases h : d.ends with
  | some es => simp [h]
  | none =>
    by_cases hall : (EAO.implicitEnds d.starts).all Option.isSome = true
    · simp [hall]
    · simp [hall, h]

/-- non-vacuity: two starts without ends get the implicit ends written out, and evaluate alike -/
example : (normalise { starts := [0, 10], ends := none, values := [1, 2] }).ends = some [10, 30] := by decide
example : (EAO.valuesToGrid [0, 5, 10, 25, 30] (normalise { starts := [0, 10], ends := none, values := [1, 2] }).intervals).toOption
    = some [some 1, some 1, some 2, some 2, none] := by decide +kernel

end EAO.C10
