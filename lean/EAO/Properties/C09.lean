import EAO.Model.Assemble
import EAO.Model.Readout
import EAO.Lemmas.Nodal
import EAO.Lemmas.Blocks
import EAO.Lemmas.Wf
import EAO.Lemmas.Accounting
import EAO.Lemmas.Perm
/-!
# C09 — results do not depend on asset / node names or on the order of assets

Property theorems only; helper lemmas go to `EAO/Lemmas/Perm.lean` (namespace `EAO.Perm`).
-/
namespace EAO.C09
open EAO.Perm

/-- renaming of asset and node names in an asset problem -/
def renameAsset (ρa ρn : String → String) (a : AssetProblem) : AssetProblem :=
  { a with name := ρa a.name, nodes := a.nodes.map ρn,
           mapping := a.mapping.map fun m => { m with asset := ρa m.asset, node := m.node.map ρn } }

/-- the same renaming applied to an assembled problem: numbers untouched -/
def renameProblem (ρa ρn : String → String) (P : Problem) : Problem :=
  { P with mapping := P.mapping.map fun m => { m with asset := ρa m.asset, node := m.node.map ρn },
           nodal := P.nodal.map fun p => (p.1, ρn p.2) }

/-- **renaming**: for an injective renaming of nodes (and any renaming of assets) the assembled problem
    of the renamed assets is the renamed assembled problem — same cost, bounds and rows (hence same
    feasible set, optimal value and optimal solutions), renamed mapping and nodal record.  Names enter
    the assembly only through equality tests. -/
theorem assemble_rename (ρa ρn : String → String) (hn : ∀ a b, ρn a = ρn b → a = b)
    (as : List AssetProblem) (gridI : List Nat) (skip : List String) :
    assemble (as.map (renameAsset ρa ρn)) gridI (skip.map ρn) = renameProblem ρa ρn (assemble as gridI skip) :=
  assemble_ren ρa ρn hn as gridI skip

/-- read-outs of the renamed problem are the read-outs of the original under the renamed labels -/
theorem dispatch_rename (ρa ρn : String → String) (ha : ∀ a b, ρa a = ρa b → a = b) (hn : ∀ a b, ρn a = ρn b → a = b)
    (M : List MapRow) (a n : String) (t : Nat) (x : Vec) :
    dispatchOut (M.map fun m => { m with asset := ρa m.asset, node := m.node.map ρn }) (ρa a) (ρn n) t x
      = dispatchOut M a n t x :=
  dispatchOut_ren ρa ρn ha hn M a n t x

theorem dcf_rename (ρa ρn : String → String) (ha : ∀ a b, ρa a = ρa b → a = b)
    (c : List Rat) (M : List MapRow) (a : String) (t : Nat) (x : Vec) :
    dcf c (M.map fun m => { m with asset := ρa m.asset, node := m.node.map ρn }) (ρa a) t x = dcf c M a t x :=
  dcf_ren ρa ρn ha c M a t x

/-- offset of the asset at position `i` -/
def offset (as : List AssetProblem) (i : Nat) : Nat := ((as.take i).map (·.n)).sum

/-- the slice of `x` belonging to asset `i` -/
def block (as : List AssetProblem) (i : Nat) (x : Vec) : Vec := fun j => x (offset as i + j)

/-- flow of an asset into node `n` at step `t`, from its own block of variables -/
def flow (a : AssetProblem) (n : String) (t : Nat) (y : Vec) : Rat :=
  ((a.mapping.filter (isDisp n t)).map (·.contrib y)).sum

/-- well-formedness used here -/
structure WF (gridI : List Nat) (a : AssetProblem) : Prop where
  len_l : a.l.length = a.n
  len_u : a.u.length = a.n
  disp  : ∀ m ∈ a.mapping, ∀ n, m.kind = .d → m.node = some n → n ∈ a.nodes ∧ m.step ∈ gridI

/-- **composition principle**: `x` is (relaxed-)feasible for the assembled problem iff every asset's own
    bounds and rows hold on its block and the assets' flows add up to zero at every (node ∉ skip, step);
    the value is the sum of the assets' values on their blocks.  This description does not mention the
    order of the assets. -/
theorem assemble_feasible_iff (as : List AssetProblem) (gridI : List Nat) (skip : List String)
    (hwf : ∀ a ∈ as, WF gridI a) (x : Vec) :
    (assemble as gridI skip).FeasibleRelaxed x ↔
      (∀ i, (h : i < as.length) → (as[i]).FeasibleRelaxed (block as i x)) ∧
      (∀ n, n ∉ skip → ∀ t,
        ((List.range as.length).map fun i => flow (as.getD i default) n t (block as i x)).sum = 0) :=
  feasible_iff as gridI skip (fun a ha => ⟨(hwf a ha).len_l, (hwf a ha).len_u⟩)
    (fun a ha => (hwf a ha).disp) x

theorem assemble_value (as : List AssetProblem) (gridI : List Nat) (skip : List String) (x : Vec) :
    (assemble as gridI skip).value x =
      ((List.range as.length).map fun i => - costAt (as.getD i default).c 0 (block as i x)).sum :=
  value_eq as gridI skip x

/-- locality (hypothesis added to `assemble_perm`, see the counterexample `perm_needs_local` below):
    the asset's rows, and its dispatch mapping rows, mention only the asset's own variables.  Without
    it an asset's row may read a variable of whatever asset happens to come next in the list. -/
structure Local (a : AssetProblem) : Prop where
  cols : ∀ r ∈ a.rows, ∀ p ∈ r.coeffs, p.1 < a.n
  vars : ∀ m ∈ a.mapping, m.kind = .d → m.var < a.n

/-- **permutation**: for a permutation `as'` of the asset list, every point feasible for `assemble as`
    can be rearranged block-wise into a point feasible for `assemble as'` with the same value and the
    same block for every asset (hence, by `asset_dcf_total` and the definition of `dispatchOut`, the same
    per-asset dispatch and cash flows).  Together with symmetry of `List.Perm` this gives equal optimal
    values and equal sets of optimal per-asset dispatches.
    REPAIRED: hypothesis `hloc` added (the statement without it is false, see `perm_needs_local`). -/
theorem assemble_perm (as as' : List AssetProblem) (hp : as.Perm as') (gridI : List Nat) (skip : List String)
    (hwf : ∀ a ∈ as, WF gridI a) (hloc : ∀ a ∈ as, Local a)
    (x : Vec) (hx : (assemble as gridI skip).FeasibleRelaxed x) :
    ∃ x' : Vec, (assemble as' gridI skip).FeasibleRelaxed x' ∧
      (assemble as' gridI skip).value x' = (assemble as gridI skip).value x ∧
      ∃ π : Nat → Nat, (∀ i, i < as.length → π i < as'.length ∧ as'.getD (π i) default = as.getD i default ∧
        ∀ j, j < (as.getD i default).n → block as' (π i) x' j = block as i x j) :=
  perm_core as as' hp gridI skip (fun a ha => ⟨(hwf a ha).len_l, (hwf a ha).len_u⟩)
    (fun a ha => (hwf a ha).disp) (fun a ha => (hloc a ha).cols) (fun a ha => (hloc a ha).vars) x hx

/-! ## Concrete instances (non-vacuity)

Three assets on the grid `[0,1]` at node `"n"` (and an unused second node `"m"` of `ex2`); the names
`"1"` and `"11"` are prefix-related on purpose.  `ex1` supplies at both steps (one asset row),
`ex11` takes at step 0, `ex2` takes at step 1 with factor 2. -/

def ex1 : AssetProblem :=
  { name := "1", nodes := ["n"], c := [2, 0], l := [0, 0], u := [5, 5],
    rows := [⟨[(0, 1), (1, 1)], 6, .U⟩],
    mapping := [⟨0, "1", some "n", .d, 0, 1, false, "disp"⟩, ⟨1, "1", some "n", .d, 1, 1, false, "disp"⟩] }
def ex11 : AssetProblem :=
  { name := "11", nodes := ["n"], c := [-3], l := [-4], u := [0], rows := [],
    mapping := [⟨0, "11", some "n", .d, 0, 1, false, "disp"⟩] }
def ex2 : AssetProblem :=
  { name := "2", nodes := ["n", "m"], c := [1], l := [-5], u := [0], rows := [],
    mapping := [⟨0, "2", some "n", .d, 1, 2, false, "disp"⟩] }

/-- a feasible point of `assemble [ex1, ex11, ex2]` -/
def exX : Vec := fun j => [3, 2, -3, -1].getD j 0

theorem exWF : ∀ a ∈ [ex1, ex11, ex2], WF [0, 1] a := by
  intro a ha
  simp only [List.mem_cons, List.not_mem_nil, or_false] at ha
  rcases ha with rfl | rfl | rfl
  · refine ⟨by decide, by decide, ?_⟩
    intro m hm n hk hn
    simp only [ex1, List.mem_cons, List.not_mem_nil, or_false] at hm
    rcases hm with rfl | rfl <;> simp at hn <;> subst hn <;> simp [ex1]
  · refine ⟨by decide, by decide, ?_⟩
    intro m hm n hk hn
    simp only [ex11, List.mem_cons, List.not_mem_nil, or_false] at hm
    rcases hm with rfl <;> simp at hn <;> subst hn <;> simp [ex11]
  · refine ⟨by decide, by decide, ?_⟩
    intro m hm n hk hn
    simp only [ex2, List.mem_cons, List.not_mem_nil, or_false] at hm
    rcases hm with rfl <;> simp at hn <;> subst hn <;> simp [ex2]

theorem exLocal : ∀ a ∈ [ex1, ex11, ex2], Local a := by
  intro a ha
  simp only [List.mem_cons, List.not_mem_nil, or_false] at ha
  rcases ha with rfl | rfl | rfl <;> exact ⟨by decide +kernel, by decide⟩

theorem exFeasible : (assemble [ex1, ex11, ex2] [0, 1] []).FeasibleRelaxed exX := by decide +kernel

/-- renaming by prefixing: asset `"1"` becomes `"11"` (the old name of another asset), `"11"` becomes
    `"111"`; node `"n"` becomes `"Nn"` -/
theorem prefix_inj (p : String) : ∀ a b : String, p ++ a = p ++ b → a = b :=
  fun _ _ h => (String.append_right_inj p).mp h

example := assemble_rename ("1" ++ ·) ("N" ++ ·) (prefix_inj "N") [ex1, ex11, ex2] [0, 1] ["m"]
example := dispatch_rename ("1" ++ ·) ("N" ++ ·) (prefix_inj "1") (prefix_inj "N")
  (assemble [ex1, ex11, ex2] [0, 1] []).mapping "1" "n" 0 exX
example := dcf_rename ("1" ++ ·) ("N" ++ ·) (prefix_inj "1")
  (assemble [ex1, ex11, ex2] [0, 1] []).c (assemble [ex1, ex11, ex2] [0, 1] []).mapping "11" 0 exX

/-- the renamed example evaluated: nodal record and asset column of the mapping carry the new labels,
    the rows are those of the original; the dispatch of the asset now called `"11"` (formerly `"1"`)
    is the dispatch of `ex1`, not that of `ex11` -/
example :
    (assemble ([ex1, ex11, ex2].map (renameAsset ("1" ++ ·) ("N" ++ ·))) [0, 1] []).nodal = [(0, "Nn"), (1, "Nn")] ∧
    (assemble ([ex1, ex11, ex2].map (renameAsset ("1" ++ ·) ("N" ++ ·))) [0, 1] []).mapping.map (·.asset)
      = ["11", "11", "111", "12"] ∧
    dispatchOut (assemble ([ex1, ex11, ex2].map (renameAsset ("1" ++ ·) ("N" ++ ·))) [0, 1] []).mapping
      "11" "Nn" 0 exX = 3 ∧
    dispatchOut (assemble [ex1, ex11, ex2] [0, 1] []).mapping "1" "n" 0 exX = 3 ∧
    dispatchOut (assemble [ex1, ex11, ex2] [0, 1] []).mapping "11" "n" 0 exX = -3 := by
  decide +kernel

/-- composition principle and value at the example -/
example := (assemble_feasible_iff [ex1, ex11, ex2] [0, 1] [] exWF exX).mp exFeasible
example : (assemble [ex1, ex11, ex2] [0, 1] []).value exX = -6 + 0 + -9 + 1 ∧
    ((List.range 3).map fun i =>
      - costAt ([ex1, ex11, ex2].getD i default).c 0 (block [ex1, ex11, ex2] i exX)).sum = -14 := by
  decide +kernel
example := assemble_value [ex1, ex11, ex2] [0, 1] [] exX

/-- a swap and a rotation of the asset list -/
theorem exSwap : [ex1, ex11, ex2].Perm [ex11, ex1, ex2] := List.Perm.swap ex11 ex1 [ex2]
theorem exRot : [ex1, ex11, ex2].Perm [ex2, ex1, ex11] :=
  ((List.Perm.swap ex2 ex11 []).cons ex1).trans (List.Perm.swap ex2 ex1 [ex11])

example := assemble_perm _ _ exSwap [0, 1] [] exWF exLocal exX exFeasible
example := assemble_perm _ _ exRot [0, 1] [] exWF exLocal exX exFeasible

/-- the rearranged points of the example, explicitly -/
example : (assemble [ex11, ex1, ex2] [0, 1] []).FeasibleRelaxed (fun j => [-3, 3, 2, -1].getD j 0) ∧
    (assemble [ex2, ex1, ex11] [0, 1] []).FeasibleRelaxed (fun j => [-1, 3, 2, -3].getD j 0) ∧
    (assemble [ex11, ex1, ex2] [0, 1] []).value (fun j => [-3, 3, 2, -1].getD j 0) = -14 ∧
    (assemble [ex2, ex1, ex11] [0, 1] []).value (fun j => [-1, 3, 2, -3].getD j 0) = -14 := by
  decide +kernel

/-! ### why `assemble_perm` needs `Local`

`cxA` has one variable and a row `x₁ = 0` that reads variable 1 — not its own.  In the order
`[cxB, cxA]` that index points behind the assembled vector (a free position of the total function
`x`), in the order `[cxA, cxB]` it points at `cxB`'s variable, which `cxB` fixes to 1. -/
def cxA : AssetProblem :=
  { name := "a", nodes := [], c := [0], l := [0], u := [1], rows := [⟨[(1, 1)], 0, .S⟩], mapping := [] }
def cxB : AssetProblem :=
  { name := "b", nodes := [], c := [0], l := [1], u := [1], rows := [], mapping := [] }

/-- counterexample to the original statement of `assemble_perm` (without `hloc`): all original
    hypotheses hold, but the permuted problem has no feasible point at all -/
theorem perm_needs_local :
    [cxB, cxA].Perm [cxA, cxB] ∧ (∀ a ∈ [cxB, cxA], WF [] a) ∧
    (assemble [cxB, cxA] [] []).FeasibleRelaxed (fun j => [1, 0].getD j 0) ∧
    ¬ ∃ x' : Vec, (assemble [cxA, cxB] [] []).FeasibleRelaxed x' := by
  refine ⟨List.Perm.swap cxA cxB [], ?_, by decide +kernel, ?_⟩
  · intro a ha
    simp only [List.mem_cons, List.not_mem_nil, or_false] at ha
    rcases ha with rfl | rfl <;> exact ⟨by decide, by decide, fun m hm => by simp [cxA, cxB] at hm⟩
  · rintro ⟨x', hb, hr⟩
    have h1 := (hb 1 (by decide)).1
    have h2 := hr ⟨[(1, 1)], 0, .S⟩ (by
      rw [assemble_rows]
      exact List.mem_append_left _ (by simp [assembleFrom, cxA, Row.rename]))
    have e1 : (assemble [cxA, cxB] [] []).l.getD 1 0 = 1 := by decide +kernel
    rw [e1] at h1
    simp only [Row.Sat, Row.eval, List.map_cons, List.map_nil, List.sum_cons, List.sum_nil] at h2
    grind

end EAO.C09
