import EAO.Lemmas.DstGrid
import EAO.Properties.C19
/-!
# C19 + C12 (daylight saving) — daily grids in zones with daylight saving

Model: `EAO/Model/DstGrid.lean`.  The zone is a finite table of UTC-offset transitions (input);
`localDayRange z start stop k` is `pd.date_range(start, end, freq='<k>d', tz=zone)` for a frequency of whole days:
the points are the instants whose LOCAL wall time is `wall(start) + j·k days`; a wall time that no instant has
(clock set forward) / that two instants have (clock set back) is the error class `NonExistentTimeError` /
`AmbiguousTimeError`, as in pandas.  Property theorems only (helper lemmas: `EAO/Lemmas/DstGrid.lean`).

Hypotheses used below (all evaluated by the driver op `day_grid` / the harness on every generated case):
* `z.spreadBelow (k·86400)`: any two offsets of the table differ by less than `k` days (real zones: 1 h; it fails for the
  table of Pacific/Apia around 2011-12-30, where a whole day was skipped, with `k = 1`);
* `z.wall start ≤ z.wall stop`: the end is not earlier than the start on the local clock;
* for "no point after the end" one of: `WallOrder z` (semantic: an instant whose wall time is unique does not come after an
  instant with the same or a later wall time; it follows from the decidable `z.regular`, `wallOrder_of_regular`) or the decidable `endOK z start stop k` (the offset at the end is the offset
  `rem` seconds earlier, `rem` = what whole periods leave over; trivially true when the end lies on the lattice of days).
-/
namespace EAO.C19D
open EAO EAO.DstGrid

/-! ## localisation of one wall time -/

/-- `tz_localize` answers `u` exactly when `u` has the wall time `w` and no other instant has it -/
theorem localize_ok_iff (z : Zone) (w u : Int) :
    z.localize w = .ok u ↔ z.wall u = w ∧ ∀ u', z.wall u' = w → u' = u :=
  DstGrid.localize_ok_iff z w u

/-- the two error classes: no instant / two different instants with this wall time; there is no other error -/
theorem localize_error_iff (z : Zone) (w : Int) :
    (z.localize w = .error .nonexistent ↔ ∀ u, z.wall u ≠ w) ∧
    (z.localize w = .error .ambiguous ↔ ∃ u u', u ≠ u' ∧ z.wall u = w ∧ z.wall u' = w) ∧
    (∀ e, z.localize w = .error e → e = .nonexistent ∨ e = .ambiguous) :=
  ⟨localize_nonexistent_iff z w, localize_ambiguous_iff z w, localize_error_cases z w⟩

/-! ## the points of a daily range -/

/-- a daily range that is built has one point per whole period of `k` days that fits between the wall times of start and
    end, plus one; the `j`-th point is THE instant whose local wall time is `wall(start) + j·k days` (for a start at
    local midnight: the local midnights); start and end have wall times of their own (no other instant shares them) -/
theorem day_grid_walls (z : Zone) (start stop : Int) (k : Nat) (pts : List Int) (hk : 0 < k)
    (hw : z.wall start ≤ z.wall stop) (h : localDayRange z start stop k = .ok pts) :
    pts.length = tickCount (z.wall start) (z.wall stop) (k * 86400) + 1 ∧
    (∀ j (hj : j < pts.length),
      z.wall pts[j] = z.wall start + (j : Int) * ((k * 86400 : Nat) : Int) ∧
      ∀ u', z.wall u' = z.wall start + (j : Int) * ((k * 86400 : Nat) : Int) → u' = pts[j]) ∧
    (∀ u', z.wall u' = z.wall start → u' = start) ∧ (∀ u', z.wall u' = z.wall stop → u' = stop) := by
  obtain ⟨hl, hu⟩ := range_points z start stop k pts hk hw h
  obtain ⟨_, hs, he⟩ := localDayRange_ok z start stop k pts h
  exact ⟨hl, fun j hj => hu j hj, hs.2, he.2⟩

/-- the points are strictly increasing, the first one is the start, none lies after the end -/
theorem day_grid_points (z : Zone) (start stop : Int) (k : Nat) (pts : List Int) (hk : 0 < k)
    (hs : z.spreadBelow ((k * 86400 : Nat) : Int) = true) (hw : z.wall start ≤ z.wall stop)
    (hend : WallOrder z ∨ endOK z start stop k = true)
    (h : localDayRange z start stop k = .ok pts) :
    pts.Pairwise (· < ·) ∧ pts.head? = some start ∧ ∀ p ∈ pts, p ≤ stop :=
  ⟨range_pairwise z start stop k pts hk hs hw h, range_head z start stop k pts hk hw h,
   range_le_stop z start stop k pts hk hs hw hend h⟩

/-- under the order hypothesis the condition on the local clock follows from `start ≤ stop` -/
theorem wall_le_of_wallOrder (z : Zone) (start stop : Int) (k : Nat) (pts : List Int) (ho : WallOrder z)
    (hle : start ≤ stop) (h : localDayRange z start stop k = .ok pts) : z.wall start ≤ z.wall stop := by
  obtain ⟨_, _, he⟩ := localDayRange_ok z start stop k pts h
  apply Classical.byContradiction
  intro hlt
  have := ho stop start (by omega) (fun u' hu' => he.2 u' hu')
  have hse : start = stop := by omega
  rw [hse] at hlt
  omega

/-! ## step lengths: 23 h and 25 h days -/

/-- each step lasts `k·86400` s minus the change of UTC offset across it; in main time units `dt_j · unit` is that number
    of seconds; every `dt` is positive -/
theorem day_grid_dt (z : Zone) (start stop : Int) (k unitSec : Nat) (df : List Rat) (pts : List Int) (hk : 0 < k)
    (hu : 0 < unitSec) (hs : z.spreadBelow ((k * 86400 : Nat) : Int) = true) (hw : z.wall start ≤ z.wall stop)
    (h : localDayRange z start stop k = .ok pts) :
    (∀ j (hj : j + 1 < pts.length),
      pts[j+1] - pts[j] = ((k * 86400 : Nat) : Int) - (z.offset pts[j+1] - z.offset pts[j]) ∧
      ∃ d, (Grid.ofPoints pts unitSec df).dt[j]? = some d ∧
        d * (unitSec : Rat) = ((((k * 86400 : Nat) : Int) - (z.offset pts[j+1] - z.offset pts[j]) : Int) : Rat)) ∧
    ∀ d ∈ (Grid.ofPoints pts unitSec df).dt, 0 < d := by
  refine ⟨fun j hj => ?_, C19.dt_pos pts unitSec df hu (range_pairwise z start stop k pts hk hs hw h)⟩
  have hstep := range_step z start stop k pts hk hw h j (j+1) (by omega) hj
  have hstep' : pts[j+1] - pts[j] = ((k * 86400 : Nat) : Int) - (z.offset pts[j+1] - z.offset pts[j]) := by
    have : (((j + 1 : Nat) : Int) - (j : Int)) * ((k * 86400 : Nat) : Int) = ((k * 86400 : Nat) : Int) := by
      have : ((j + 1 : Nat) : Int) - (j : Int) = 1 := by omega
      rw [this, Int.one_mul]
    omega
  refine ⟨hstep', ?_⟩
  obtain ⟨_, d, D, hd, _, hdu, _, _⟩ := (C19.dt_real pts unitSec df hu).2.2.2.2 j hj
  exact ⟨d, hd, by rw [hdu, hstep']⟩

/-- the CET table of 2021 -/
def cet2021 : Zone := { base := 3600, trans := [(1616893200, 7200), (1635642000, 3600)] }

/-- machine-checked instances (CET 2021): the week around the spring change has a day of 23 h, around the autumn change a
    day of 25 h, a 2-day step across the spring change lasts 47 h; in the main time unit d the short day is 23/24 -/
theorem cet_spring_autumn_witness :
    (dayGrid cet2021 1616713200 1617228000 1 3600 []).map (·.dt) = .ok [24, 24, 23, 24, 24, 24] ∧
    (dayGrid cet2021 1635458400 1635894000 1 3600 []).map (·.dt) = .ok [24, 24, 25, 24, 24] ∧
    (dayGrid cet2021 1616713200 1617228000 2 3600 []).map (·.dt) = .ok [48, 47, 48] ∧
    (dayGrid cet2021 1616799600 1617055200 1 86400 []).map (·.dt) = .ok [1, 23/24, 1] ∧
    (dayGrid cet2021 1616713200 1617228000 1 3600 []).map (·.pts)
      = .ok [1616713200, 1616799600, 1616886000, 1616968800, 1617055200, 1617141600] := by
  decide +kernel

/-! ## totals follow elapsed time -/

/-- the step lengths add up to the real elapsed time from the start to the closing point, and `Dt_j` is the elapsed time
    from the start to the END of step `j`; when the wall time of the end lies on the lattice `wall(start) + n·k days` the
    closing point is the end: `Σ dt · unit = end − start` -/
theorem day_grid_total (z : Zone) (start stop : Int) (k unitSec : Nat) (df : List Rat) (pts : List Int) (hk : 0 < k)
    (hu : 0 < unitSec) (hw : z.wall start ≤ z.wall stop) (h : localDayRange z start stop k = .ok pts) :
    (∀ j (hj : j + 1 < pts.length), ∃ D, (Grid.ofPoints pts unitSec df).Dt[j]? = some D ∧
        D * (unitSec : Rat) = ((pts[j+1] - start : Int) : Rat) ∧ D = ((Grid.ofPoints pts unitSec df).dt.take (j+1)).sum) ∧
    (∀ m (hm : pts.length = m + 2),
        (Grid.ofPoints pts unitSec df).dt.sum * (unitSec : Rat) = ((pts[m+1] - start : Int) : Rat)) ∧
    (∀ n : Nat, 0 < n → z.wall stop = z.wall start + (n : Int) * ((k * 86400 : Nat) : Int) →
        (Grid.ofPoints pts unitSec df).T = n ∧
        (Grid.ofPoints pts unitSec df).dt.sum * (unitSec : Rat) = ((stop - start : Int) : Rat)) := by
  have hhead := range_head z start stop k pts hk hw h
  have h0 : ∀ (hp : 0 < pts.length), pts[0] = start := by
    intro hp
    cases pts with
    | nil => simp at hp
    | cons p ps => simpa using hhead
  have hreal := C19.dt_real pts unitSec df hu
  have hDt : ∀ j (hj : j + 1 < pts.length), ∃ D, (Grid.ofPoints pts unitSec df).Dt[j]? = some D ∧
        D * (unitSec : Rat) = ((pts[j+1] - start : Int) : Rat) ∧ D = ((Grid.ofPoints pts unitSec df).dt.take (j+1)).sum := by
    intro j hj
    obtain ⟨_, d, D, _, hD, _, hDu, hsum⟩ := hreal.2.2.2.2 j hj
    refine ⟨D, hD, ?_, hsum⟩
    rw [hDu, h0 (by omega)]
  have hsumAll : ∀ m (hm : pts.length = m + 2),
        (Grid.ofPoints pts unitSec df).dt.sum * (unitSec : Rat) = ((pts[m+1] - start : Int) : Rat) := by
    intro m hm
    obtain ⟨D, _, hDu, hsum⟩ := hDt m (by omega)
    have hlen : (Grid.ofPoints pts unitSec df).dt.length = m + 1 := by rw [hreal.2.1]; omega
    rw [List.take_of_length_le (by omega)] at hsum
    rw [← hsum, hDu]
  refine ⟨hDt, hsumAll, ?_⟩
  intro n hn hlat
  obtain ⟨hl, hlast⟩ := range_last_eq_stop z start stop k pts hk hw h n hlat
  obtain ⟨m, rfl⟩ : ∃ m, n = m + 1 := ⟨n - 1, by omega⟩
  refine ⟨by show pts.dropLast.length = m + 1; simp [hl], ?_⟩
  rw [hsumAll m (by omega)]
  have : pts[m+1]'(by omega) = stop := by
    rw [List.getElem?_eq_getElem (by omega)] at hlast
    exact Option.some.inj hlast
  rw [this]

/-! ## `CalendarOK` holds: the C19 theorems apply without hypothesis on what pandas returned -/

/-- the hypothesis `CalendarOK` of `EAO.C19.calendar_grid_points` holds for every daily range that is built -/
theorem day_grid_calendarOK (z : Zone) (start stop : Int) (k : Nat) (pts : List Int) (hk : 0 < k)
    (hs : z.spreadBelow ((k * 86400 : Nat) : Int) = true) (hw : z.wall start ≤ z.wall stop)
    (hend : WallOrder z ∨ endOK z start stop k = true)
    (h : localDayRange z start stop k = .ok pts) : CalendarOK pts start stop = true :=
  calendarOK_of pts start stop (range_pairwise z start stop k pts hk hs hw h) (range_head z start stop k pts hk hw h)
    (range_le_stop z start stop k pts hk hs hw hend h)

/-- the grid object: built only for `start < end`; its points are strictly increasing, the first is the start as soon as
    there is one step, all lie before the end; `I = 0..T-1` -/
theorem day_grid_calendar_points (z : Zone) (start stop : Int) (k unitSec : Nat) (df : List Rat) (g : Grid) (hk : 0 < k)
    (hs : z.spreadBelow ((k * 86400 : Nat) : Int) = true) (hw : z.wall start ≤ z.wall stop)
    (hend : WallOrder z ∨ endOK z start stop k = true)
    (h : dayGrid z start stop k unitSec df = .ok g) :
    start < stop ∧ g.pts.Pairwise (· < ·) ∧ (2 ≤ g.T + 1 → 1 ≤ g.T → g.pts.head? = some start) ∧
    (∀ p ∈ g.pts, p < stop) ∧ g.idx = List.range g.T := by
  unfold dayGrid at h
  split at h
  · rename_i hlt
    split at h
    · cases h
    · rename_i pts hpts
      injection h with h; subst h
      have hc := day_grid_calendarOK z start stop k pts hk hs hw hend hpts
      obtain ⟨h1, h2, h3⟩ := C19.calendar_grid_points pts start stop unitSec df hc
      refine ⟨hlt, h1, ?_, h3, rfl⟩
      intro _ hT
      apply h2
      have : (Grid.ofPoints pts unitSec df).T = pts.length - 1 := by simp [Grid.T, Grid.ofPoints]
      omega
  · cases h

/-! ## errors -/

/-- exactly how the constructor fails: `assert` for `start ≥ end`; otherwise the class of the FIRST wall time of the range
    that cannot be localised, then that of the start's, then that of the end's wall time (an end inside the repeated hour
    fails although no point lies there) -/
theorem day_grid_errors (z : Zone) (start stop : Int) (k unitSec : Nat) (df : List Rat) (e : TzError) :
    (¬ start < stop → dayGrid z start stop k unitSec df = .error .assertion) ∧
    (start < stop → (dayGrid z start stop k unitSec df = .error e ↔ localDayRange z start stop k = .error e)) ∧
    (localDayRange z start stop k = .error e ↔
      (∃ pre w post, dayWalls z start stop k = pre ++ w :: post ∧ (∀ x ∈ pre, ∃ u, z.localize x = .ok u) ∧
          z.localize w = .error e) ∨
      ((∃ pts, z.localizeAll (dayWalls z start stop k) = .ok pts) ∧
        (z.localize (z.wall start) = .error e ∨
         ((∃ u, z.localize (z.wall start) = .ok u) ∧ z.localize (z.wall stop) = .error e)))) := by
  refine ⟨fun hn => by simp [dayGrid, hn], fun hlt => ?_, ?_⟩
  · simp only [dayGrid, hlt, if_true]
    cases localDayRange z start stop k with
    | error e' => simp
    | ok pts => simp
  · rw [← localizeAll_error_iff]
    unfold localDayRange
    cases hA : z.localizeAll (dayWalls z start stop k) with
    | error e' => simp
    | ok pts =>
      cases hS : z.localize (z.wall start) with
      | error e' => simp
      | ok s =>
        cases hE : z.localize (z.wall stop) with
        | error e' => simp
        | ok t => simp

/-- zones changing at midnight (tables from the zone data base): São Paulo 2018-11-04 00:00 does not exist; Havana
    2021-11-07 00:00 exists twice; Lord Howe (30 min): the day of the autumn change lasts 24.5 h -/
theorem midnight_change_witness :
    dayGrid { base := -10800, trans := [(1541300400, -7200)] } 1541041200 1541642400 1 3600 [] = .error .nonexistent ∧
    dayGrid { base := -14400, trans := [(1636261200, -18000)] } 1636084800 1636520400 1 3600 [] = .error .ambiguous ∧
    (dayGrid { base := 39600, trans := [(1617462000, 37800)] } 1617282000 1617629400 1 3600 []).map (·.dt)
      = .ok [24, 24, 49/2, 24] := by
  decide +kernel

/-! ## the order hypothesis -/

/- `WallOrder z` for every table that is REGULAR (`Zone.regular`, decidable, `EAO/Lemmas/DstGrid.lean`): the instants of
   the table do not decrease, and a clock set back by `d` seconds is not changed again within `d` seconds before or after
   (`t_{i+1} - t_i ≥ o_{i-1} - o_i` and `t_i - t_{i-1} ≥ o_{i-1} - o_i` for every drop) - all tables of real zones.  Tables
   without drop: `wallOrder_of_no_drop` (no condition on the gaps).  For grids the decidable `endOK` remains available
   (evaluated by the driver on every case). -/

/-- the order hypothesis holds for every regular table: instants in order, every setting-back of the clock at most as large
    as the gap to the transition before and to the transition after it -/
theorem wallOrder_of_regular (z : Zone) (hr : z.regular = true) : WallOrder z :=
  wallOrder_of_regular' z hr

/-- the CET table of 2021 is regular (spring forward, autumn back by 1 h, seven months apart), so it satisfies the order
    hypothesis; a table that sets the clock forward by 2 h and back by 1 h only 1000 s later is not regular, and the order
    hypothesis FAILS for it: the instant 1000 has the wall time 4600 alone, yet comes after the instant 500 whose wall time
    is 7700 -/
theorem regular_witness :
    cet2021.regular = true ∧ WallOrder cet2021 ∧
    ({ base := 0, trans := [(0, 7200), (1000, 3600)] } : Zone).regular = false ∧
    ¬ WallOrder { base := 0, trans := [(0, 7200), (1000, 3600)] } := by
  refine ⟨by decide +kernel, wallOrder_of_regular _ (by decide +kernel), by decide +kernel, fun ho => ?_⟩
  have hloc : ({ base := 0, trans := [(0, 7200), (1000, 3600)] } : Zone).localize 4600 = .ok 1000 := by decide +kernel
  have hu := ((localize_ok_iff _ _ _).mp hloc).2
  have := ho 1000 500 (by decide +kernel) (fun u' hu' => hu u' (by rw [hu']; decide +kernel))
  omega

/-- the order hypothesis holds for every table whose offsets never decrease in time (only changes forward) -/
theorem wallOrder_of_no_drop (z : Zone) (ho : (z.base :: z.trans.map (·.2)).Pairwise (· ≤ ·))
    (ht : (z.trans.map (·.1)).Pairwise (· ≤ ·)) : WallOrder z :=
  wallOrder_of_monotone z fun x y hxy => (offsetFrom_monotone z.trans z.base ho ht x y hxy).1

/-! ## non-vacuity -/

example : localDayRange cet2021 1616713200 1617228000 1
    = .ok [1616713200, 1616799600, 1616886000, 1616968800, 1617055200, 1617141600, 1617228000] := by decide +kernel
example : cet2021.spreadBelow ((1 * 86400 : Nat) : Int) = true := by decide +kernel
example : cet2021.wall 1616713200 ≤ cet2021.wall 1617228000 := by decide +kernel
example : endOK cet2021 1616713200 1617228000 1 = true := by decide +kernel
/-- an end off the lattice (12:00 local after the change): still `endOK` -/
example : endOK cet2021 1616713200 1617012000 1 = true := by decide +kernel
example : CalendarOK [1616713200, 1616799600, 1616886000, 1616968800] 1616713200 1616968800 = true := by decide +kernel
/-- a wall time in the skipped hour / in the repeated hour of CET 2021 -/
example : cet2021.localize 1616898600 = .error .nonexistent ∧ cet2021.localize 1635647400 = .error .ambiguous ∧
    cet2021.localize 1616889600 = .ok 1616886000 := by decide +kernel
/-- a table with forward changes only satisfies the order hypothesis -/
example : WallOrder { base := 3600, trans := [(1616893200, 7200)] } :=
  wallOrder_of_no_drop _ (by decide) (by decide)
/-- a table with a drop larger than the gap to the next transition is not regular; the same drop with room is -/
example : ({ base := 7200, trans := [(1000, 3600), (2000, 7200)] } : Zone).regular = false ∧
    ({ base := 7200, trans := [(1000, 3600), (4600, 7200)] } : Zone).regular = true := by decide +kernel
/-- the spread hypothesis fails for the table of Pacific/Apia at the end of 2011 (a whole day skipped) with `k = 1` -/
example : ({ base := -36000, trans := [(1325239200, 50400)] } : Zone).spreadBelow ((1 * 86400 : Nat) : Int) = false := by
  decide +kernel

end EAO.C19D
