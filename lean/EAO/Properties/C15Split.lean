import EAO.Model.FixSplit
import EAO.Lemmas.Fix
import EAO.Lemmas.FixSplit
/-!
# C15 in the split set-up — `fix_time_window` of `Portfolio.setup_split_optim_problem`

`fixSplit` (`EAO.Model.FixSplit`) is the model of the loop of `__setup_split_intervals__` with a window: every
interval gets the window cut at its original steps `tmp_I` (mask / index list turned into a mask / date) and the
previous solution from the running offset `len_res` on, and is fixed by `fixWindow` (`EAO.Properties.C15`) with LOCAL
steps.  The theorems say that this is `fixWindow` of the block-sum problem with the window in ORIGINAL steps and the
WHOLE previous solution — in every contributing interval, also after intervals the loop skips.

Property theorems only; helper lemmas in `EAO/Lemmas/FixSplit.lean`.
-/
namespace EAO.C15S
open EAO EAO.FixSplit

/-- **what a successful set-up returns**: one problem per contributing interval (some step, some variable; the others
    contribute nothing and do not advance the offset), each the interval problem fixed with the local steps of the
    sliced window and the values `x[off : off + n]`, nodal record re-labelled; every slicing succeeded and the
    previous solution reaches to the end of every contributing interval -/
theorem fix_split_result (T : Nat) (w : FixI) (x : List Rat) (ivs : List IntervalIn) (Qs : List Problem)
    (h : fixSplit T w x ivs = .ok Qs) :
    Qs = (withOffsets 0 (keptIntervals ivs)).map (fixedInterval T w x) ∧
    Qs.length = (keptIntervals ivs).length ∧ keptIntervals ivs ≠ [] ∧
    ∀ p ∈ withOffsets 0 (keptIntervals ivs),
      windowLocal T w p.2 = .ok (windowLocalD T w p.2) ∧ p.1 + p.2.prob.n ≤ x.length := by
  obtain ⟨h1, hne⟩ := fixSplit_ok h
  obtain ⟨h2, h3⟩ := fixSplitFrom_spec T w x ivs 0 Qs h1
  refine ⟨h2, ?_, ?_, ?_⟩
  · rw [h2, List.length_map, withOffsets_length]
  · intro hk
    rw [hk] at h2
    exact hne h2
  · intro p hp
    obtain ⟨⟨loc, hloc⟩, hlen⟩ := h3 p hp
    exact ⟨by rw [windowLocalD_of_ok hloc]; exact hloc, hlen⟩

/-- **the slicing of the window is the restriction to the interval**: a local step is named by the sliced window iff
    its ORIGINAL step lies in the window expressed in original steps (`windowSteps`) -/
theorem fix_split_window_local (T : Nat) (w : FixI) (iv : IntervalIn) (loc : List Nat) (refPts : List Int)
    (h : windowLocal T w iv = .ok loc) (hg : iv.onGrid refPts) (s : Nat) :
    s ∈ loc ↔ s < iv.steps.length ∧ iv.steps.getD s 0 ∈ windowSteps T refPts w :=
  windowLocal_mem refPts h hg s

/-- **fixing per interval = `fixWindow` of the block sum**: the block sum of the interval problems fixed with the
    sliced window and the sliced previous solution has the bounds of `fixWindow` of the split problem (mapping in
    original steps) with the window in original steps and the whole previous solution — variable by variable, the
    variables of an interval shifted by its offset — and the cost, rows and mapping of the set-up without window -/
theorem fix_split_is_fix_of_block_sum (T : Nat) (w : FixI) (x : List Rat) (ivs : List IntervalIn)
    (Qs : List Problem) (refPts : List Int)
    (h : fixSplit T w x ivs = .ok Qs)
    (hwf : ∀ iv ∈ keptIntervals ivs, iv.wf) (hg : ∀ iv ∈ keptIntervals ivs, iv.onGrid refPts) :
    (blockSum Qs).l = (fixWindow (splitProblem ivs) (windowSteps T refPts w) x).l ∧
    (blockSum Qs).u = (fixWindow (splitProblem ivs) (windowSteps T refPts w) x).u ∧
    (blockSum Qs).c = (splitProblem ivs).c ∧ (blockSum Qs).rows = (splitProblem ivs).rows ∧
    (blockSum Qs).mapping = (blockSum ((keptIntervals ivs).map (·.prob))).mapping := by
  obtain ⟨hQ, _, _, hp⟩ := fix_split_result T w x ivs Qs h
  have hloc : ∀ p ∈ withOffsets 0 (keptIntervals ivs), ∃ loc, windowLocal T w p.2 = .ok loc :=
    fun p hpm => ⟨_, (hp p hpm).1⟩
  obtain ⟨r1, r2, r3⟩ := blockSum_fixed_rest T w x (keptIntervals ivs)
  obtain ⟨_, _, o3, o4⟩ := blockSum_orig_bounds (keptIntervals ivs)
  rw [hQ]
  refine ⟨blockSum_fixed_l T w x refPts _ hloc hwf hg, blockSum_fixed_u T w x refPts _ hloc hwf hg, ?_, ?_, r3⟩
  · rw [r1]; exact o3.symm
  · rw [r2]; exact o4.symm

/-- **exactly the window is pinned, in every interval, also after skipped intervals**: for the `k`-th contributing
    interval (reached with offset `q.1.1` = the variables of the contributing intervals before it) a variable with a
    mapping row at an ORIGINAL step of the window has both bounds at `x[offset + j]`; a variable without such a row
    keeps the bounds of the set-up without window -/
theorem fix_split_exactly_window (T : Nat) (w : FixI) (x : List Rat) (ivs : List IntervalIn)
    (Qs : List Problem) (refPts : List Int)
    (h : fixSplit T w x ivs = .ok Qs)
    (hwf : ∀ iv ∈ keptIntervals ivs, iv.wf) (hg : ∀ iv ∈ keptIntervals ivs, iv.onGrid refPts) :
    ∀ q ∈ (withOffsets 0 (keptIntervals ivs)).zip Qs, ∀ j, j < q.1.2.prob.n →
      ((∃ m ∈ q.1.2.prob.mapping, m.var = j ∧ q.1.2.steps.getD m.step 0 ∈ windowSteps T refPts w) →
        q.2.l.getD j 0 = x.getD (q.1.1 + j) 0 ∧ q.2.u.getD j 0 = x.getD (q.1.1 + j) 0) ∧
      ((∀ m ∈ q.1.2.prob.mapping, m.var = j → q.1.2.steps.getD m.step 0 ∉ windowSteps T refPts w) →
        q.2.l.getD j 0 = q.1.2.prob.l.getD j 0 ∧ q.2.u.getD j 0 = q.1.2.prob.u.getD j 0) := by
  obtain ⟨hQ, _, _, hp⟩ := fix_split_result T w x ivs Qs h
  intro q hq j hj
  rw [hQ] at hq
  obtain ⟨hq1, hq2⟩ := mem_zip_map _ _ q hq
  have hiv := mem_withOffsets_snd hq1
  have hloc : ∃ loc, windowLocal T w q.1.2 = .ok loc := ⟨_, (hp _ hq1).1⟩
  have hl := fixedInterval_l T w x refPts q.1 hloc (hwf _ hiv) (hg _ hiv)
  have hu := fixedInterval_u T w x refPts q.1 hloc (hwf _ hiv) (hg _ hiv)
  have hjl : j < q.1.2.prob.l.length := by rw [(hwf _ hiv).1]; exact hj
  have hju : j < q.1.2.prob.u.length := by rw [(hwf _ hiv).2.1]; exact hj
  rw [hq2, hl, hu]
  constructor
  · rintro ⟨m, hm, hv, hs⟩
    have hc : (fv q.1.2.orig.mapping (windowSteps T refPts w)).contains j = true := by
      rw [List.contains_iff_mem, mem_fv]
      exact ⟨{ m with step := q.1.2.steps.getD m.step 0 }, List.mem_map_of_mem hm, hs, hv⟩
    rw [setWhere_getD_of_true _ _ _ _ hjl hc, setWhere_getD_of_true _ _ _ _ hju hc, getD_drop']
    exact ⟨rfl, rfl⟩
  · intro hfree
    have hc : (fv q.1.2.orig.mapping (windowSteps T refPts w)).contains j = false := by
      cases hcc : (fv q.1.2.orig.mapping (windowSteps T refPts w)).contains j with
      | false => rfl
      | true =>
        rw [List.contains_iff_mem, mem_fv] at hcc
        obtain ⟨m', hm', hs, hv⟩ := hcc
        obtain ⟨m, hm, rfl⟩ := List.mem_map.mp hm'
        exact absurd hs (hfree m hm hv)
    rw [setWhere_getD_of_false _ _ _ _ hc, setWhere_getD_of_false _ _ _ _ hc]
    exact ⟨rfl, rfl⟩

/-- **C15 for the split set-up**: every point within the bounds of the fixed split problem takes the previous value
    at every variable that has a row of the split mapping (original steps, variables numbered through all intervals)
    at a step of the window -/
theorem fix_split_pins (T : Nat) (w : FixI) (x : List Rat) (ivs : List IntervalIn)
    (Qs : List Problem) (refPts : List Int)
    (h : fixSplit T w x ivs = .ok Qs)
    (hwf : ∀ iv ∈ keptIntervals ivs, iv.wf) (hg : ∀ iv ∈ keptIntervals ivs, iv.onGrid refPts)
    (z : Vec) (hz : InBounds (blockSum Qs).l (blockSum Qs).u z)
    (m : MapRow) (hm : m ∈ (splitProblem ivs).mapping) (hs : m.step ∈ windowSteps T refPts w)
    (hv : m.var < (splitProblem ivs).n) :
    z m.var = x.getD m.var 0 := by
  obtain ⟨hl, hu, _⟩ := fix_split_is_fix_of_block_sum T w x ivs Qs refPts h hwf hg
  rw [hl, hu] at hz
  have hlen : (splitProblem ivs).l.length = (splitProblem ivs).n :=
    asm_l_length _ (by
      intro a ha
      obtain ⟨P, hP, rfl⟩ := List.mem_map.mp ha
      exact (orig_wf_l _ hwf P hP).1) 0
  have hulen : (splitProblem ivs).u.length = (splitProblem ivs).n :=
    asm_u_length _ (by
      intro a ha
      obtain ⟨P, hP, rfl⟩ := List.mem_map.mp ha
      exact (orig_wf_u _ hwf P hP).1) 0
  have hfix := fixedVars_contains_of_mem (splitProblem ivs) _ m hm hs
  obtain ⟨h1, h2⟩ := fixWindow_bounds_fixed (splitProblem ivs) _ x m.var (by omega) (by omega) hfix
  have hb := hz m.var (by rw [fixWindow_l_length]; omega)
  rw [h1, h2] at hb
  exact Rat.le_antisymm hb.2 hb.1

/-- the offset of the `k`-th contributing interval is the number of variables of the contributing intervals before
    it — skipped intervals do not count -/
theorem fix_split_offsets (ivs : List IntervalIn) (k : Nat)
    (hk : k < (withOffsets 0 (keptIntervals ivs)).length) :
    ((withOffsets 0 (keptIntervals ivs))[k]).1 = (((keptIntervals ivs).take k).map fun iv => iv.prob.n).sum ∧
    ((withOffsets 0 (keptIntervals ivs))[k]).2 = (keptIntervals ivs)[k]'(by rw [withOffsets_length] at hk; exact hk) := by
  constructor
  · rw [withOffsets_getElem _ 0 k hk, Nat.zero_add]
  · have := withOffsets_snd 0 (keptIntervals ivs)
    have h2 : ((withOffsets 0 (keptIntervals ivs)).map (·.2))[k]'(by rw [List.length_map]; exact hk) =
        (keptIntervals ivs)[k]'(by rw [withOffsets_length] at hk; exact hk) := by
      simp only [this]
    rw [List.getElem_map] at h2
    exact h2

/-- **the previous solution stays feasible, nothing new becomes feasible, the value is unchanged**: with
    `B` = the split problem without window (block sum of the interval problems) -/
theorem fix_split_keeps_feasible (T : Nat) (w : FixI) (x : List Rat) (ivs : List IntervalIn)
    (Qs : List Problem) (refPts : List Int)
    (h : fixSplit T w x ivs = .ok Qs)
    (hwf : ∀ iv ∈ keptIntervals ivs, iv.wf) (hg : ∀ iv ∈ keptIntervals ivs, iv.onGrid refPts)
    (hprev : (blockSum ((keptIntervals ivs).map (·.prob))).Feasible (fun j => x.getD j 0)) :
    (blockSum Qs).Feasible (fun j => x.getD j 0) ∧
    (∀ z, (blockSum Qs).Feasible z → (blockSum ((keptIntervals ivs).map (·.prob))).Feasible z) ∧
    ∀ z, (blockSum Qs).value z = (blockSum ((keptIntervals ivs).map (·.prob))).value z := by
  obtain ⟨hl, hu, hc, hr, hm⟩ := fix_split_is_fix_of_block_sum T w x ivs Qs refPts h hwf hg
  obtain ⟨o1, o2, o3, o4⟩ := blockSum_orig_bounds (keptIntervals ivs)
  have hlen : (splitProblem ivs).l.length = (splitProblem ivs).n :=
    asm_l_length _ (by
      intro a ha
      obtain ⟨P, hP, rfl⟩ := List.mem_map.mp ha
      exact (orig_wf_l _ hwf P hP).1) 0
  have hulen : (splitProblem ivs).u.length = (splitProblem ivs).n :=
    asm_u_length _ (by
      intro a ha
      obtain ⟨P, hP, rfl⟩ := List.mem_map.mp ha
      exact (orig_wf_u _ hwf P hP).1) 0
  have hlu : (splitProblem ivs).l.length ≤ (splitProblem ivs).u.length := by omega
  have hbB : InBounds (splitProblem ivs).l (splitProblem ivs).u (fun j => x.getD j 0) := by
    show InBounds (blockSum _).l (blockSum _).u _
    rw [o1, o2]; exact hprev.1.1
  have hbool : (blockSum Qs).boolVars = (blockSum ((keptIntervals ivs).map (·.prob))).boolVars := by
    unfold Problem.boolVars; rw [hm]
  have hrows : (blockSum Qs).rows = (blockSum ((keptIntervals ivs).map (·.prob))).rows := by
    rw [hr]; exact o4
  refine ⟨⟨⟨?_, ?_⟩, ?_⟩, ?_, ?_⟩
  · rw [hl, hu]
    exact fixWindow_inBounds_prev _ _ _ hlu hbB
  · rw [hrows]; exact hprev.1.2
  · rw [hbool]; exact hprev.2
  · intro z hz
    refine ⟨⟨?_, ?_⟩, ?_⟩
    · have := hz.1.1
      rw [hl, hu] at this
      have h2 := fixWindow_inBounds_old _ _ _ hlu hbB z this
      have h3 : InBounds (blockSum ((keptIntervals ivs).map IntervalIn.orig)).l
          (blockSum ((keptIntervals ivs).map IntervalIn.orig)).u z := h2
      rw [o1, o2] at h3
      exact h3
    · rw [← hrows]; exact hz.1.2
    · rw [← hbool]; exact hz.2
  · intro z
    unfold Problem.value
    rw [hc]
    show -costAt (blockSum ((keptIntervals ivs).map IntervalIn.orig)).c 0 z = _
    rw [o3]

/-- **no failure on well-formed input**: a window the set-up accepts (`FixI.valid`: a mask over the whole grid, indices
    inside the grid counted from the front or from the end, a date), interval steps on the grid, a previous solution
    with a value for every variable, some contributing interval -/
theorem fix_split_total (T : Nat) (w : FixI) (x : List Rat) (ivs : List IntervalIn)
    (hv : w.valid T = true) (hs : ∀ iv ∈ ivs, ∀ t ∈ iv.steps, t < T)
    (hx : ((keptIntervals ivs).map fun iv => iv.prob.n).sum ≤ x.length) (hne : keptIntervals ivs ≠ []) :
    ∃ Qs, fixSplit T w x ivs = .ok Qs := by
  obtain ⟨Qs, hQs⟩ := fixSplitFrom_total T w x hv ivs hs 0 (by omega)
  obtain ⟨h1, _⟩ := fixSplitFrom_spec T w x ivs 0 Qs hQs
  have hQne : Qs.isEmpty = false := by
    cases hk : keptIntervals ivs with
    | nil => exact absurd hk hne
    | cons a L => rw [h1, hk]; rfl
  exact ⟨Qs, by simp [fixSplit, hQs, bind, Except.bind, hQne, pure, Except.pure]⟩

/-! ## Non-vacuity: a concrete split set-up with skipped intervals

Grid of 5 steps (points 0, 10, 20, 30, 40).  Four passes of the loop: one without step, the interval of steps 0, 1
(two variables), the interval of step 2 WITHOUT variable (skipped after its set-up), the interval of steps 3, 4 (three
variables; variable 1 has rows at both local steps, variable 2 is internal at local step 0).  The window is given as
the index list `[4, -4]` = original steps 4 and 1. -/

def mr (v : Nat) (t : Nat) (k : VarKind) : MapRow := ⟨v, "a", some "n", k, t, 1, false, "disp"⟩

def exIvs : List IntervalIn :=
  [ ⟨[], [], ⟨[], [], [], [], [], []⟩⟩,
    ⟨[0, 1], [0, 10], ⟨[1, 2], [0, 0], [5, 5], [], [mr 0 0 .d, mr 1 1 .d], [(0, "n"), (1, "n")]⟩⟩,
    ⟨[2], [20], ⟨[], [], [], [], [], []⟩⟩,
    ⟨[3, 4], [30, 40], ⟨[1, 1, 1], [0, -1, 0], [7, 8, 9],
        [⟨[(0, 1), (1, 1)], 6, .U⟩], [mr 0 0 .d, mr 1 0 .d, mr 1 1 .d, mr 2 0 .i], [(0, "n"), (1, "n")]⟩⟩ ]

def exPts : List Int := [0, 10, 20, 30, 40]
def exX : List Rat := [1, 2, 3, 4, 5]
def exW : FixI := .idx [4, -4]

example : windowSteps 5 exPts exW = [4, 1] := by decide +kernel
example : (withOffsets 0 (keptIntervals exIvs)).map (·.1) = [0, 2] := by decide +kernel
example : (fixSplit 5 exW exX exIvs).toOption.map (fun Qs => Qs.map fun Q => (Q.l, Q.u, Q.nodal)) =
    some [([0, 2], [5, 2], [(0, "n"), (1, "n")]), ([0, 4, 0], [7, 4, 9], [(3, "n"), (4, "n")])] := by
  decide +kernel
/-- the same window as a mask and as a date window `<= 10` (steps 0, 1): same problems / the first interval pinned -/
example : (fixSplit 5 (.mask [false, true, false, false, true]) exX exIvs).toOption.map
      (fun Qs => Qs.map fun Q => (Q.l, Q.u, Q.nodal)) =
    (fixSplit 5 exW exX exIvs).toOption.map (fun Qs => Qs.map fun Q => (Q.l, Q.u, Q.nodal)) := by
  decide +kernel
example : (fixSplit 5 (.date 10) exX exIvs).toOption.map (fun Qs => Qs.map fun Q => (Q.l, Q.u)) =
    some [([1, 2], [1, 2]), ([0, -1, 0], [7, 8, 9])] := by
  decide +kernel
/-- the error classes: index out of the grid, a previous solution that is too short, a container that is no array -/
def errOf (r : Except FixErr (List Problem)) : Option FixErr :=
  match r with
  | .error e => some e
  | .ok _ => none
example : errOf (fixSplit 5 (.idx [5]) exX exIvs) = some .index ∧
    errOf (fixSplit 5 exW [1, 2, 3, 4] exIvs) = some .assertion ∧
    errOf (fixSplit 5 .other exX exIvs) = some .assertion ∧ errOf (fixSplit 5 .floats exX exIvs) = some .index ∧
    errOf (fixSplit 5 (.mask [true, true, true]) exX exIvs) = some .index ∧
    errOf (fixSplit 5 exW exX []) = some .value := by
  decide +kernel

theorem exIvs_wf : ∀ iv ∈ keptIntervals exIvs, iv.wf := by
  intro iv hiv
  have : iv = exIvs[1] ∨ iv = exIvs[3] := by
    have hk : keptIntervals exIvs = [exIvs[1], exIvs[3]] := rfl
    rw [hk] at hiv
    simpa using hiv
  rcases this with rfl | rfl
  · refine ⟨rfl, rfl, ?_, ?_⟩ <;> · intro m hm; simp [exIvs, mr] at hm; rcases hm with rfl | rfl <;> decide
  · refine ⟨rfl, rfl, ?_, ?_⟩ <;>
    · intro m hm; simp [exIvs, mr] at hm; rcases hm with rfl | rfl | rfl | rfl <;> decide

theorem exIvs_onGrid : ∀ iv ∈ keptIntervals exIvs, iv.onGrid exPts := by
  intro iv hiv
  have : iv = exIvs[1] ∨ iv = exIvs[3] := by
    have hk : keptIntervals exIvs = [exIvs[1], exIvs[3]] := rfl
    rw [hk] at hiv
    simpa using hiv
  rcases this with rfl | rfl
  · refine ⟨?_, by decide +kernel⟩
    intro t ht; simp [exIvs] at ht; rcases ht with rfl | rfl <;> decide
  · refine ⟨?_, by decide +kernel⟩
    intro t ht; simp [exIvs] at ht; rcases ht with rfl | rfl <;> decide

/-- the hypotheses of the theorems hold on the instance: the block sum has the bounds of `fixWindow` in original steps -/
example : ∃ Qs, fixSplit 5 exW exX exIvs = .ok Qs ∧
    (blockSum Qs).l = (fixWindow (splitProblem exIvs) [4, 1] exX).l ∧ (blockSum Qs).l = [0, 2, 0, 4, 0] := by
  obtain ⟨Qs, hQs⟩ := fix_split_total 5 exW exX exIvs (by decide) (by decide) (by decide +kernel) (by decide +kernel)
  refine ⟨Qs, hQs, ?_, ?_⟩
  · have := (fix_split_is_fix_of_block_sum 5 exW exX exIvs Qs exPts hQs exIvs_wf exIvs_onGrid).1
    have hw : windowSteps 5 exPts exW = [4, 1] := by decide +kernel
    rw [hw] at this
    exact this
  · rw [(fix_split_result 5 exW exX exIvs Qs hQs).1]
    decide +kernel

/-- the variable of the LAST interval with a row at original step 4 sits at position 2 + 1 of the previous solution -/
example (z : Vec) (Qs : List Problem) (h : fixSplit 5 exW exX exIvs = .ok Qs)
    (hz : InBounds (blockSum Qs).l (blockSum Qs).u z) : z 3 = 4 := by
  have := fix_split_pins 5 exW exX exIvs Qs exPts h exIvs_wf exIvs_onGrid z hz
    ⟨3, "a", some "n", .d, 4, 1, false, "disp"⟩ (by decide +kernel) (by decide +kernel) (by decide +kernel)
  simpa [exX] using this

end EAO.C15S
