import EAO.Lemmas.Prices
/-!
# C19 (prices) — `Timegrid.prices_to_grid`: interpolation of price data onto the grid

Model: `EAO/Model/Prices.lean` (`pricesToGrid`, per column `gridColumn` = union with the grid points, interpolation in
time from the DEFINED entries, selection of the grid points).  Instants are integer seconds, `none` is NaN.
Hypotheses used below: `rows.Pairwise (·.1 < ·.1)` — the rows of the column are sorted by instant and the instants are
distinct (what the union of the indexes gives for every frame the code accepts: `sortRows`, theorem `sort_irrelevant`);
`pts.Pairwise (· < ·)` — the grid points increase (every `Timegrid` does).

(1) `column_is_pointwise`      the result at a grid instant is a function of the defined rows and the instant alone
(2) `gridded_passthrough…`     data that are defined at the grid instants come back unchanged (column, array, frame)
(3) `interp_linear`, `interp_between`, `interp_const_outside`, `interp_defined_iff`   what the filled-in values are
(4) `interp_idempotent…`       gridding the gridded result again changes nothing
(5) `nan_filled_witness`       the recorded finding F-19f as a machine-checked instance: gaps of a gridded array are filled
(6) `interp_restrict…`, `split_sees_same_prices`   restricting the grid commutes with gridding (split set-ups see the same prices)
(7) `sort_irrelevant`, `error_classes`
-/
namespace EAO.C19P
open EAO EAO.Prices

/-! ## (1) the pipeline is pointwise -/

/-- one column (rows sorted by instant, distinct instants) brought to ANY grid: the entry at a grid instant `p` is
    `np.interp` of the defined rows at `p` — union, interpolation of the whole column and selection collapse to a
    function of the defined rows and `p` alone (no other grid point, no undefined row matters) -/
theorem column_is_pointwise (pts : List Int) (rows : List PRow) (hs : rows.Pairwise fun a b => a.1 < b.1) :
    gridColumn pts rows = pts.map (npInterp (definedRows rows)) :=
  gridColumn_eq pts hs

example : gridColumn [0, 10, 20, 30] [(5, some 1), (12, none), (25, some 3)] = [some 1, some (3/2), some (5/2), some 3] := by
  decide +kernel

/-! ## (2) gridded data pass through -/

/-- a column that has a DEFINED value at every grid instant comes back with exactly these values, whatever other
    instants (before, between, after the grid points; defined or not) the input has -/
theorem gridded_passthrough (pts : List Int) (rows : List PRow) (hs : rows.Pairwise fun a b => a.1 < b.1)
    (vals : List Rat) (hl : vals.length = pts.length)
    (hv : ∀ i (hi : i < pts.length), (pts[i], some (vals[i]'(hl ▸ hi))) ∈ rows) :
    gridColumn pts rows = vals.map some := by
  rw [gridColumn_eq pts hs]
  apply List.ext_getElem (by simp [hl])
  intro i h1 h2
  simp only [List.getElem_map]
  have hi : i < pts.length := by simpa using h1
  exact npInterp_knot (sortedK_definedRows hs) (mem_definedRows.mpr (hv i hi))

example : gridColumn [10, 20] [(5, some 7), (10, some 1), (12, none), (15, some 9), (20, some 2), (30, none)] = [some 1, some 2] := by
  decide +kernel

/-- arrays / frames with a numeric index: the rows ARE the grid points.  Of the grid's length and without undefined
    entry they come back unchanged; of any other length (with at least one column) the call fails with `length` -/
theorem gridded_passthrough_array (pts : List Int) (aw : Bool) (hp : pts.Pairwise (· < ·))
    (n : Nat) (cols : List (String × List Rat)) :
    (n = pts.length → (∀ c ∈ cols, c.2.length = pts.length) →
      pricesToGrid pts aw ⟨.numeric n, cols.map fun c => (c.1, c.2.map some)⟩
        = .ok (cols.map fun c => (c.1, c.2.map some))) ∧
    (n ≠ pts.length → cols ≠ [] →
      pricesToGrid pts aw ⟨.numeric n, cols.map fun c => (c.1, c.2.map some)⟩ = .error .length) := by
  constructor
  · intro hn hc
    subst hn
    simp only [pricesToGrid, bne_self_eq_false, Bool.and_false, Bool.false_eq_true, ↓reduceIte, List.map_map]
    congr 1
    apply List.map_congr_left
    intro c hcm
    simp only [Function.comp]
    congr 1
    apply gridded_passthrough pts _ (sorted_zip _ hp) c.2 (hc c hcm)
    intro i hi
    have hci : i < c.2.length := by rw [hc c hcm]; exact hi
    have : (pts.zip (c.2.map some))[i]'(by simp [hc c hcm, hi]) = (pts[i], some c.2[i]) := by simp
    rw [← this]
    exact List.getElem_mem _
  · intro hn hc
    have : (cols.map fun c => (c.1, c.2.map some)).isEmpty = false := by
      cases cols with
      | nil => exact absurd rfl hc
      | cons _ _ => rfl
    simp [pricesToGrid, this, hn]

example : pricesToGrid [0, 10, 20] false ⟨.numeric 3, [("p", [some 4, some (1/8), some 2])]⟩ = .ok [("p", [some 4, some (1/8), some 2])] := by
  decide +kernel
example : pricesToGrid [0, 10, 20] false ⟨.numeric 2, [("p", [some 4, some 2])]⟩ = .error .length := by decide +kernel
/-- a frame WITHOUT columns may have any length -/
example : pricesToGrid [0, 10, 20] false ⟨.numeric 2, []⟩ = .ok [] := by decide +kernel

/-- the earlier model of the gridded case (`pricesPassThrough` of `EAO/Model/Grid.lean`, theorem
    `EAO.C19.gridded_passthrough`) is the special case "one array without undefined entry" of this model:
    both accept exactly the arrays of the grid's length and return them unchanged, both reject the others with `length` -/
theorem passthrough_models_agree (pts : List Int) (aw : Bool) (hp : pts.Pairwise (· < ·)) (name : String) (arr : List Rat) :
    (arr.length = pts.length →
      pricesPassThrough pts.length arr = .ok arr ∧
      pricesToGrid pts aw ⟨.numeric arr.length, [(name, arr.map some)]⟩ = .ok [(name, arr.map some)]) ∧
    (arr.length ≠ pts.length →
      pricesPassThrough pts.length arr = .error .length ∧
      pricesToGrid pts aw ⟨.numeric arr.length, [(name, arr.map some)]⟩ = .error .length) := by
  have h := gridded_passthrough_array pts aw hp arr.length [(name, arr)]
  constructor
  · intro hl
    refine ⟨by simp [pricesPassThrough, hl], ?_⟩
    have := h.1 hl (by intro c hc; simp at hc; rw [hc]; exact hl)
    simpa using this
  · intro hl
    refine ⟨by simp [pricesPassThrough, hl], ?_⟩
    have := h.2 hl (by simp)
    simpa using this

/-- frames with a (sorted) datetime index of the grid's kind (both naive or both zone-aware): the call succeeds, keeps
    names and order of the columns, and every column that is defined at all grid instants comes back with its values
    there — whatever the other columns and the other instants are -/
theorem gridded_passthrough_frame (pts ts : List Int) (aw : Bool) (cols : List (String × List (Option Rat)))
    (hts : ts.Pairwise (· < ·)) :
    ∃ out, pricesToGrid pts aw ⟨.instants aw ts, cols⟩ = .ok out ∧ out.map (·.1) = cols.map (·.1) ∧
      ∀ k (hk : k < cols.length) (vals : List Rat) (hl : vals.length = pts.length),
        (∀ i (hi : i < pts.length), (pts[i], some (vals[i]'(hl ▸ hi))) ∈ ts.zip cols[k].2) →
        out[k]? = some (cols[k].1, vals.map some) := by
  refine ⟨cols.map fun c => (c.1, gridColumn pts (sortRows (ts.zip c.2))), ?_, ?_, ?_⟩
  · have : decide ts.Nodup = true := by simpa using nodup_of_sorted hts
    simp [pricesToGrid, this]
  · simp [List.map_map, Function.comp]
  · intro k hk vals hl hv
    rw [List.getElem?_map, List.getElem?_eq_getElem hk]
    simp only [Option.map_some]
    rw [sortRows_of_sorted (sorted_zip _ hts)]
    rw [gridded_passthrough pts _ (sorted_zip _ hts) vals hl hv]

example : pricesToGrid [10, 20] true ⟨.instants true [5, 10, 20, 30], [("p", [some 7, some 1, some 2, none]), ("q", [none, none, some 5, none])]⟩
    = .ok [("p", [some 1, some 2]), ("q", [some 5, some 5])] := by decide +kernel

/-! ## (3) the filled-in values -/

/-- explicit formula: with `(a, v)`, `(b, w)` NEIGHBOURING defined rows of the column (nothing defined in between), the
    entry at a grid instant `p` with `a ≤ p ≤ b` is `(w − v)/(b − a)·(p − a) + v` (in this order of operations: `np.interp`) -/
theorem interp_linear (pts : List Int) (rows : List PRow) (hs : rows.Pairwise fun a b => a.1 < b.1)
    (pre post : List (Int × Rat)) (a b : Int) (v w : Rat)
    (hk : definedRows rows = pre ++ (a, v) :: (b, w) :: post)
    (i : Nat) (hi : i < pts.length) (ha : a ≤ pts[i]) (hb : pts[i] ≤ b) :
    (gridColumn pts rows)[i]? = some (some ((w - v) / ((b - a : Int) : Rat) * ((pts[i] - a : Int) : Rat) + v)) := by
  rw [gridColumn_eq pts hs, List.getElem?_map, List.getElem?_eq_getElem hi]
  simp only [Option.map_some]
  have hsk := sortedK_definedRows hs
  rw [hk] at hsk ⊢
  rw [npInterp_segment hsk ha hb]

/-- the same value in the usual form `v + (w − v)·(p − a)/(b − a)` -/
theorem interp_linear' (pts : List Int) (rows : List PRow) (hs : rows.Pairwise fun a b => a.1 < b.1)
    (pre post : List (Int × Rat)) (a b : Int) (v w : Rat)
    (hk : definedRows rows = pre ++ (a, v) :: (b, w) :: post)
    (i : Nat) (hi : i < pts.length) (ha : a ≤ pts[i]) (hb : pts[i] ≤ b) :
    (gridColumn pts rows)[i]? = some (some (v + (w - v) * ((pts[i] - a : Int) : Rat) / ((b - a : Int) : Rat))) := by
  rw [interp_linear pts rows hs pre post a b v w hk i hi ha hb]
  congr 2
  rw [Rat.div_def, Rat.div_def]
  grind

example : (gridColumn [0, 16, 32] [(8, some 1), (16, none), (24, some 3)])[1]? = some (some 2) := by decide +kernel

/-- the entry lies between the two neighbouring defined values and equals them at their instants -/
theorem interp_between (pts : List Int) (rows : List PRow) (hs : rows.Pairwise fun a b => a.1 < b.1)
    (pre post : List (Int × Rat)) (a b : Int) (v w : Rat)
    (hk : definedRows rows = pre ++ (a, v) :: (b, w) :: post)
    (i : Nat) (hi : i < pts.length) (ha : a ≤ pts[i]) (hb : pts[i] ≤ b) :
    ∃ r, (gridColumn pts rows)[i]? = some (some r) ∧ min v w ≤ r ∧ r ≤ max v w ∧
      (pts[i] = a → r = v) ∧ (pts[i] = b → r = w) := by
  refine ⟨_, interp_linear pts rows hs pre post a b v w hk i hi ha hb, ?_⟩
  have hsk := sortedK_definedRows hs
  rw [hk] at hsk
  have hab : a < b := by
    have := (List.pairwise_append.mp hsk).2.1
    exact (List.pairwise_cons.mp this).1 (b, w) (by simp)
  have hbt := segment_between v w a b pts[i] hab ha hb
  have hd : ((b - a : Int) : Rat) ≠ 0 := by
    have : (0 : Rat) < ((b - a : Int) : Rat) := Rat.intCast_pos.mpr (by omega)
    exact (Rat.ne_of_lt this).symm
  refine ⟨?_, ?_, ?_, ?_⟩
  · rcases Rat.le_total (a := v) (b := w) with h | h
    · have := (hbt.1 h).1; grind
    · have := (hbt.2 h).1; grind
  · rcases Rat.le_total (a := v) (b := w) with h | h
    · have := (hbt.1 h).2; grind
    · have := (hbt.2 h).2; grind
  · intro h
    rw [h]
    have : a - a = 0 := by omega
    rw [this]
    simp
    grind
  · intro h
    rw [h, Rat.div_mul_cancel hd]
    grind

example : ∃ r, (gridColumn [0, 10, 20] [(5, some 1), (25, some 3)])[1]? = some (some r) ∧ (1 : Rat) ≤ r ∧ r ≤ 3 :=
  ⟨3/2, by decide +kernel, by decide +kernel, by decide +kernel⟩

/-- constant extension: at grid instants up to the first defined row the entry is the first defined value, at grid
    instants from the last defined row on the last defined value (`limit_direction='both'`, no extrapolation of slopes) -/
theorem interp_const_outside (pts : List Int) (rows : List PRow) (hs : rows.Pairwise fun a b => a.1 < b.1)
    (i : Nat) (hi : i < pts.length) :
    (∀ a v rest, definedRows rows = (a, v) :: rest → pts[i] ≤ a → (gridColumn pts rows)[i]? = some (some v)) ∧
    (∀ b w pre, definedRows rows = pre ++ [(b, w)] → b ≤ pts[i] → (gridColumn pts rows)[i]? = some (some w)) := by
  rw [gridColumn_eq pts hs, List.getElem?_map, List.getElem?_eq_getElem hi]
  simp only [Option.map_some]
  constructor
  · intro a v rest hk hp
    rw [hk, npInterp_left (q := (a, v)) hp]
  · intro b w pre hk hp
    have hsk := sortedK_definedRows hs
    rw [hk] at hsk ⊢
    rw [npInterp_right (q := (b, w)) hsk hp]

example : gridColumn [0, 10, 20, 30, 40] [(15, some 2), (25, some 4)] = [some 2, some 2, some 3, some 4, some 4] := by
  decide +kernel

/-- a column with at least one defined row is defined at EVERY grid instant (gaps, leading and trailing undefined
    stretches are all filled); a column without a defined row stays undefined everywhere -/
theorem interp_defined_iff (pts : List Int) (rows : List PRow) (hs : rows.Pairwise fun a b => a.1 < b.1) :
    (definedRows rows ≠ [] → ∀ o ∈ gridColumn pts rows, o.isSome) ∧
    (definedRows rows = [] → ∀ o ∈ gridColumn pts rows, o = none) := by
  rw [gridColumn_eq pts hs]
  constructor
  · intro hne o ho
    obtain ⟨p, _, rfl⟩ := List.mem_map.mp ho
    cases h : npInterp (definedRows rows) p with
    | none => exact absurd (npInterp_eq_none.mp h) hne
    | some _ => rfl
  · intro he o ho
    obtain ⟨p, _, rfl⟩ := List.mem_map.mp ho
    exact npInterp_eq_none.mpr he

example : gridColumn [0, 10, 20] [(5, none), (10, none), (35, none)] = [none, none, none] := by decide +kernel

/-! ## (4) idempotence -/

/-- the gridded column, put back on its grid instants and gridded again, is unchanged -/
theorem interp_idempotent (pts : List Int) (rows : List PRow) (hp : pts.Pairwise (· < ·))
    (hs : rows.Pairwise fun a b => a.1 < b.1) :
    gridColumn pts (pts.zip (gridColumn pts rows)) = gridColumn pts rows :=
  gridColumn_idem hp hs

/-- whatever `prices_to_grid` returns — for any form of input: numeric or datetime index, unsorted keys, any columns —
    handed back as a frame on the grid instants (with its datetime index, or as arrays / numeric index) it comes back
    unchanged -/
theorem interp_idempotent_frame (pts : List Int) (aw : Bool) (f : PriceFrame) (out : List (String × List (Option Rat)))
    (hp : pts.Pairwise (· < ·)) (h : pricesToGrid pts aw f = .ok out) :
    pricesToGrid pts aw ⟨.instants aw pts, out⟩ = .ok out ∧
    pricesToGrid pts aw ⟨.numeric pts.length, out⟩ = .ok out := by
  have hcols := pricesToGrid_ok_cols hp h
  have hnd : decide pts.Nodup = true := by simpa using nodup_of_sorted hp
  have key : ∀ c ∈ out, (c.1, gridColumn pts (pts.zip c.2)) = c := by
    intro c hc
    obtain ⟨rows, hr, hc2⟩ := hcols c hc
    rw [hc2, gridColumn_idem hp hr, ← hc2]
  constructor
  · simp only [pricesToGrid, hnd, Bool.not_true, Bool.and_false, Bool.false_eq_true, ↓reduceIte, bne_self_eq_false,
      Bool.false_and]
    congr 1
    conv => rhs; rw [← List.map_id out]
    apply List.map_congr_left
    intro c hc
    rw [sortRows_of_sorted (sorted_zip _ hp)]
    exact key c hc
  · simp only [pricesToGrid, bne_self_eq_false, Bool.and_false, Bool.false_eq_true, ↓reduceIte]
    congr 1
    conv => rhs; rw [← List.map_id out]
    apply List.map_congr_left
    intro c hc
    exact key c hc

example : pricesToGrid [0, 10, 20] false ⟨.instants false [15, 5], [("p", [some 3, some 1])]⟩ = .ok [("p", [some 1, some 2, some 3])] ∧
    pricesToGrid [0, 10, 20] false ⟨.instants false [0, 10, 20], [("p", [some 1, some 2, some 3])]⟩ = .ok [("p", [some 1, some 2, some 3])] := by
  decide +kernel

/-! ## (5) finding F-19f -/

/-- machine-checked instance of the recorded finding F-19f: an array that is already on the grid but has undefined
    entries (as `values_to_grid` produces them outside all intervals) does NOT pass through unchanged — the gaps are
    filled: constant at the start, linear in time inside -/
theorem nan_filled_witness :
    pricesToGrid [0, 3600, 7200, 10800, 14400] false ⟨.numeric 5, [("a", [none, some 1, some 2, none, some 4])]⟩
      = .ok [("a", [some 1, some 1, some 2, some 3, some 4])] := by
  decide +kernel

/-! ## (6) restricting the grid commutes with gridding -/

/-- the value at a grid instant depends only on the defined rows of the column: restricting the grid by ANY mask
    (numpy `arr[mask]`, as `Grid.restrict` does) commutes with gridding -/
theorem interp_restrict (pts : List Int) (m : List Bool) (rows : List PRow) (hs : rows.Pairwise fun a b => a.1 < b.1) :
    gridColumn (sel m pts) rows = sel m (gridColumn pts rows) := by
  rw [gridColumn_eq _ hs, gridColumn_eq _ hs, sel_map]

example : gridColumn (sel [false, true, true, false] [0, 10, 20, 30]) [(5, some 1), (25, some 3)]
    = sel [false, true, true, false] (gridColumn [0, 10, 20, 30] [(5, some 1), (25, some 3)]) := by decide +kernel

/-- for a frame with a datetime index (any order of the keys, any zone kind): gridding on the masked grid gives the
    masked columns of the result on the whole grid, and fails with the same error class when that fails (as long as the
    masked grid has a point: on a grid without points nothing is checked) -/
theorem interp_restrict_frame (pts : List Int) (m : List Bool) (aw aw' : Bool) (ts : List Int)
    (cols : List (String × List (Option Rat))) (hne : sel m pts ≠ []) :
    pricesToGrid (sel m pts) aw ⟨.instants aw' ts, cols⟩
      = (pricesToGrid pts aw ⟨.instants aw' ts, cols⟩).map fun out => out.map fun c => (c.1, sel m c.2) := by
  have hne' : pts ≠ [] := by
    intro h; rw [h] at hne
    exact hne (by cases m with | nil => rfl | cons b m => cases b <;> rfl)
  have e1 : (sel m pts).isEmpty = false := by cases h : sel m pts with | nil => exact absurd h hne | cons _ _ => rfl
  have e2 : pts.isEmpty = false := by cases h : pts with | nil => exact absurd h hne' | cons _ _ => rfl
  simp only [pricesToGrid, e1, e2, Bool.not_false, Bool.true_and, Bool.false_and, Bool.and_true]
  by_cases hnd : ts.Nodup
  · simp only [hnd, decide_true, Bool.not_true, Bool.false_eq_true, ↓reduceIte]
    split
    · rfl
    · simp only [Except.map, List.map_map]
      congr 1
      apply List.map_congr_left
      intro c _
      simp only [Function.comp]
      rw [interp_restrict pts m _ (sorted_sortRows (nodup_zip _ hnd))]
  · simp [hnd, Except.map]

example : pricesToGrid (sel [false, true, true] [0, 10, 20]) false ⟨.instants false [15, 5], [("p", [some 3, some 1])]⟩
    = .ok [("p", [some 2, some 3])] := by decide +kernel

/-- the split set-up (`setup_split_optim_problem`): the prices are gridded on the whole grid first, then THAT frame is
    gridded again on the grid of every interval.  The interval sees exactly the masked columns — the values the unsplit
    set-up sees at these steps (any input form, any mask, also an empty one) -/
theorem split_sees_same_prices (pts : List Int) (m : List Bool) (aw : Bool) (f : PriceFrame)
    (out : List (String × List (Option Rat))) (hp : pts.Pairwise (· < ·)) (h : pricesToGrid pts aw f = .ok out) :
    pricesToGrid (sel m pts) aw ⟨.instants aw pts, out⟩ = .ok (out.map fun c => (c.1, sel m c.2)) := by
  have hcols := pricesToGrid_ok_cols hp h
  have hnd : decide pts.Nodup = true := by simpa using nodup_of_sorted hp
  simp only [pricesToGrid, hnd, Bool.not_true, Bool.and_false, Bool.false_eq_true, ↓reduceIte, bne_self_eq_false,
    Bool.false_and]
  congr 1
  apply List.map_congr_left
  intro c hc
  obtain ⟨rows, hr, hc2⟩ := hcols c hc
  rw [sortRows_of_sorted (sorted_zip _ hp), interp_restrict pts m _ (sorted_zip _ hp), hc2, gridColumn_idem hp hr]

example : pricesToGrid [0, 10, 20, 30] false ⟨.instants false [25, 5], [("p", [some 3, some 1])]⟩ = .ok [("p", [some 1, some (3/2), some (5/2), some 3])] ∧
    pricesToGrid (sel [false, false, true, true] [0, 10, 20, 30]) false ⟨.instants false [0, 10, 20, 30], [("p", [some 1, some (3/2), some (5/2), some 3])]⟩
      = .ok [("p", [some (5/2), some 3])] := by decide +kernel

/-! ## (7) order of the rows, error classes -/

/-- the order in which the rows of a column arrive does not matter (distinct instants): the union of the indexes is sorted -/
theorem sort_irrelevant (pts : List Int) (rows₁ rows₂ : List PRow) (hperm : rows₁.Perm rows₂)
    (hn : (rows₁.map (·.1)).Nodup) :
    gridColumn pts (sortRows rows₁) = gridColumn pts (sortRows rows₂) := by
  rw [sortRows_perm_eq hperm hn]

example : gridColumn [0, 10, 20] (sortRows [(15, some 3), (5, some 1)]) = gridColumn [0, 10, 20] (sortRows [(5, some 1), (15, some 3)]) := by
  decide +kernel

/-- exactly when `prices_to_grid` fails, and how -/
theorem error_classes (pts : List Int) (aw : Bool) (f : PriceFrame) :
    (pricesToGrid pts aw f = .error .length ↔ ∃ n, f.index = .numeric n ∧ f.cols ≠ [] ∧ n ≠ pts.length) ∧
    (pricesToGrid pts aw f = .error .duplicate ↔ ∃ a ts, f.index = .instants a ts ∧ pts ≠ [] ∧ ¬ ts.Nodup) ∧
    (pricesToGrid pts aw f = .error .tz ↔ ∃ a ts, f.index = .instants a ts ∧ (pts = [] ∨ ts.Nodup) ∧ a ≠ aw ∧
        f.cols ≠ [] ∧ (pts ≠ [] ∨ ts ≠ [])) := by
  obtain ⟨idx, cols⟩ := f
  cases idx with
  | numeric n =>
    simp only [pricesToGrid]
    by_cases hc : cols = []
    · subst hc; simp
    · have : cols.isEmpty = false := by cases cols with | nil => exact absurd rfl hc | cons _ _ => rfl
      by_cases hn : n = pts.length
      · simp [this, hn]
      · simp [this, hn, hc]
  | instants a ts =>
    simp only [pricesToGrid]
    by_cases hp : pts = [] <;> by_cases hc : cols = [] <;> by_cases ht : ts = [] <;> by_cases hnd : ts.Nodup <;>
      cases a <;> cases aw <;> simp_all

example : pricesToGrid [0, 10] false ⟨.instants false [5, 5], [("p", [some 1, some 2])]⟩ = .error .duplicate := by decide +kernel
example : pricesToGrid [0, 10] true ⟨.instants false [5, 7], [("p", [some 1, some 2])]⟩ = .error .tz := by decide +kernel
/-- on a grid without points a repeated instant is not noticed … -/
example : pricesToGrid [] false ⟨.instants false [5, 5], [("p", [some 1, some 2])]⟩ = .ok [("p", [])] := by decide +kernel
/-- … and a frame without columns is never interpolated -/
example : pricesToGrid [0, 10] true ⟨.instants false [5, 7], []⟩ = .ok [] := by decide +kernel

end EAO.C19P
