import EAO.Properties.C07Split
import EAO.Properties.C08
import EAO.Properties.C05
import EAO.Properties.C20
import EAO.Lemmas.SplitMappingTie
/-!
# C07 / C14 — the builders produce `AssetWF` problems; what `setupSplit` returns is `Assembled`

`EAO.Properties.C07` and `EAO.Properties.C07Split` state the mapping theorems for assemblies of asset problems that satisfy
`EAO.C07.AssetWF`, and for split set-ups whose interval problems are `Assembled`.  This file closes the two gaps:

**(a)** `AssetWF` IS a theorem for the modelled builders: the five contract / transport builders
(`simple_contract_assetWF`, `contract_assetWF`, `multi_assetWF`, `transport_assetWF`, `ext_transport_assetWF`, all of them:
`built_assetWF`), the storage (`storage_assetWF`, from `EAO.C05.storage_wf`) and the order book (`orderbook_assetWF`, from
`EAO.C20.orderbook_wf`); hence the C07 theorems hold for the literal `setupPortfolio` of a builder portfolio
(`portfolio_assembled`, `mapping_faithful_builders`).

**(b)** every element of what `setupSplit` (`EAO/Model/SplitBuild.lean`) returns is
`relabelNodal (intervalSteps ref ab) (assemble as J.idx skip)` with `as` the builders' outputs on the interval grid `J`
(`setup_split_assembled`); the passes of the loop, written as `IntervalIn` (`splitIntervals`), satisfy `Assembled`,
`IntervalIn.wf`, have duplicate-free and pairwise disjoint step lists and rows over their own variables
(`split_hyps_builders`) — so the seven theorems of `EAO.C07S` hold for the literal split set-up of a builder portfolio:
`split_joint_fields_builders`, `split_block_builders`, `split_mapping_faithful_builders`, `split_rows_of_variable_builders`,
`split_nodal_once_builders`, `split_nodal_rows_builders`, `split_skipped_builders`.

Hypotheses about the grid (`GridFits`): the reference grid is a top-level grid (`I = 0 .. T-1`, one `dt` per step) and every
asset has one discount factor per step; for the statements about steps of DIFFERENT intervals the cuts are in increasing order.
Property theorems only; helper lemmas in `EAO/Lemmas/SplitMappingTie.lean`.
-/
namespace EAO.C07T
open EAO EAO.FixSplit EAO.SplitMapping EAO.SplitMappingTie

/-! ## (a) the builders produce `AssetWF` problems -/

/-- **the bridge**: `BuiltWf` (what `EAO.C08.built_wf` proves) gives `EAO.C07.AssetWF` on every step list that contains the
    steps of the asset's restricted grid -/
theorem assetWF_of_built {name : String} {nodes : List String} {g : Grid} {P : AssetProblem} {gridI : List Nat}
    (hw : BuiltWf name nodes g P) (hI : ∀ t ∈ g.idx, t ∈ gridI) : EAO.C07.AssetWF gridI P :=
  assetWF_of_builtWf hw hI

theorem simple_contract_assetWF {p : ContractP} {g : Grid} {prices : Prices} {fullT : Nat} {P : AssetProblem}
    {gridI : List Nat} (hg : g.Ok) (h : buildSimpleContract p g prices fullT = .ok P) (hI : ∀ t ∈ g.idx, t ∈ gridI) :
    EAO.C07.AssetWF gridI P ∧ P.name = p.name ∧ P.nodes = p.nodes :=
  have hw := EAO.C08.simple_contract_wf hg h
  ⟨assetWF_of_builtWf hw hI, hw.name_eq, hw.nodes_eq⟩

theorem contract_assetWF {p : ContractP} {g : Grid} {prices : Prices} {fullT u : Nat} {P : AssetProblem}
    {gridI : List Nat} (hg : g.Ok) (h : buildContract p g prices fullT u = .ok P) (hI : ∀ t ∈ g.idx, t ∈ gridI) :
    EAO.C07.AssetWF gridI P ∧ P.name = p.name ∧ P.nodes = p.nodes :=
  have hw := EAO.C08.contract_wf hg h
  ⟨assetWF_of_builtWf hw hI, hw.name_eq, hw.nodes_eq⟩

theorem multi_assetWF {p : ContractP} {factors : List Rat} {g : Grid} {prices : Prices} {fullT u : Nat}
    {P : AssetProblem} {gridI : List Nat} (hg : g.Ok) (h : buildMulti p factors g prices fullT u = .ok P)
    (hI : ∀ t ∈ g.idx, t ∈ gridI) : EAO.C07.AssetWF gridI P ∧ P.name = p.name ∧ P.nodes = p.nodes :=
  have hw := EAO.C08.multi_wf hg h
  ⟨assetWF_of_builtWf hw hI, hw.name_eq, hw.nodes_eq⟩

theorem transport_assetWF {p : TransportP} {g : Grid} {prices : Prices} {fullT : Nat} {P : AssetProblem}
    {gridI : List Nat} (hg : g.Ok) (h : buildTransport p g prices fullT = .ok P) (hI : ∀ t ∈ g.idx, t ∈ gridI) :
    EAO.C07.AssetWF gridI P ∧ P.name = p.name ∧ P.nodes = p.nodes :=
  have hw := EAO.C08.transport_wf hg h
  ⟨assetWF_of_builtWf hw hI, hw.name_eq, hw.nodes_eq⟩

theorem ext_transport_assetWF {p : TransportP} {g : Grid} {prices : Prices} {fullT u : Nat} {P : AssetProblem}
    {gridI : List Nat} (hg : g.Ok) (h : buildExtTransport p g prices fullT u = .ok P) (hI : ∀ t ∈ g.idx, t ∈ gridI) :
    EAO.C07.AssetWF gridI P ∧ P.name = p.name ∧ P.nodes = p.nodes :=
  have hw := EAO.C08.ext_transport_wf hg h
  ⟨assetWF_of_builtWf hw hI, hw.name_eq, hw.nodes_eq⟩

/-- all five at once, over `EAO.C08.BuiltBy` -/
theorem built_assetWF {g : Grid} {name : String} {nodes : List String} {P : AssetProblem} {gridI : List Nat}
    (hg : g.Ok) (h : EAO.C08.BuiltBy g name nodes P) (hI : ∀ t ∈ g.idx, t ∈ gridI) :
    EAO.C07.AssetWF gridI P ∧ P.name = name ∧ P.nodes = nodes :=
  have hw := EAO.C08.built_wf hg h
  ⟨assetWF_of_builtWf hw hI, hw.name_eq, hw.nodes_eq⟩

/-- the storage: `EAO.C05.storage_wf` proves the same six fields (`EAO.C05.AssetWF` restates them) -/
theorem storage_assetWF (p : StorageP) (g : Grid) (T : Nat) (prices : Prices) (a : AssetProblem) (gridI : List Nat)
    (hb : buildStorage p g T prices = .ok a) (hlen : g.dt.length = g.T) (hI : ∀ k, k < g.T → EAO.Storage.idxAt g k ∈ gridI) :
    EAO.C07.AssetWF gridI a ∧ a.name = p.name ∧ a.nodes = p.nodes := by
  obtain ⟨h, hn, hnodes, _⟩ := EAO.C05.storage_wf p g T prices a gridI hb hlen hI
  exact ⟨⟨h.len_l, h.len_u, h.cols, h.map, h.disp, h.noN⟩, hn, hnodes⟩

/-- the order book: from the shape facts of `EAO.C20.orderbook_wf` -/
theorem orderbook_assetWF (name node : String) (orders : List Order) (fe : Bool) (g : Grid) (gridI : List Nat)
    (hlen : g.idx.length = g.T) (hI : ∀ t ∈ g.idx, t ∈ gridI) :
    EAO.C07.AssetWF gridI (orderBookProblem name node orders fe g) := by
  obtain ⟨hname, hnodes, hc, hl, hu, hrows, hmap, _⟩ :=
    EAO.C20.orderbook_wf name node orders fe g (g.idx.sum + 1) hlen (EAO.SplitBuild.idx_bound g)
  have hn : (orderBookProblem name node orders fe g).n = orders.length := hc
  refine ⟨by rw [hl, hn], by rw [hu, hn], ?_, ?_, ?_, ?_⟩
  · intro r hr; rw [hrows] at hr; cases hr
  · intro m hm
    obtain ⟨h1, _, _, h4, _⟩ := hmap m hm
    exact ⟨by rw [h1, hname], h4⟩
  · intro m hm n _ hnode
    obtain ⟨_, h2, _, _, h5, _⟩ := hmap m hm
    rw [h2] at hnode
    injection hnode with hnode
    subst hnode
    exact ⟨by rw [hnodes]; simp, hI _ h5⟩
  · intro r hr; rw [hrows] at hr; cases hr

/-- **`setupPortfolio` of a builder portfolio is an assembly of `AssetWF` problems** on the grid's own steps -/
theorem portfolio_assembled (specs : List AssetSpec) (grid : Grid) (prices : Prices) (u : Nat) (skip : List String)
    (U : Problem) (hfit : GridFits specs grid) (h : setupPortfolio specs grid prices u skip = .ok U) :
    ∃ as, buildAll specs grid prices u = .ok as ∧ (∀ a ∈ as, EAO.C07.AssetWF grid.idx a) ∧
      U = assemble as grid.idx skip := by
  obtain ⟨as, has, hU⟩ := EAO.SplitBuild.setupPortfolio_ok h
  refine ⟨as, has, ?_, hU⟩
  intro a ha
  rw [hfit.1]
  exact (buildAll_facts specs grid prices u as hfit has a ha).1

/-- **C07 for the literal set-up of a builder portfolio**: sizes, columns, and every mapping row is the shifted mapping row
    of exactly the asset it names; the nodal record is exact (`EAO.C07.*` without any well-formedness hypothesis) -/
theorem mapping_faithful_builders (specs : List AssetSpec) (grid : Grid) (prices : Prices) (u : Nat) (skip : List String)
    (U : Problem) (hfit : GridFits specs grid) (h : setupPortfolio specs grid prices u skip = .ok U) :
    ∃ as, buildAll specs grid prices u = .ok as ∧ U = assemble as grid.idx skip ∧
      U.n = (as.map (·.n)).sum ∧ U.WFCols ∧
      (∀ m ∈ U.mapping, ∃ i, ∃ hi : i < as.length, m.asset = (as[i]).name ∧ EAO.C07.offset as i ≤ m.var ∧
        m.var < EAO.C07.offset as i + (as[i]).n ∧ m.var < U.n ∧
        ∃ m' ∈ (as[i]).mapping, m = m'.shift (EAO.C07.offset as i)) ∧
      (∀ i, (hi : i < as.length) → ∀ j, j < (as[i]).n →
        U.c.getD (EAO.C07.offset as i + j) 0 = (as[i]).c.getD j 0 ∧
        U.l.getD (EAO.C07.offset as i + j) 0 = (as[i]).l.getD j 0 ∧
        U.u.getD (EAO.C07.offset as i + j) 0 = (as[i]).u.getD j 0) ∧
      U.nodal.Nodup ∧
      (∀ t n, (t, n) ∈ U.nodal ↔ (n ∉ skip ∧ ∃ m ∈ U.mapping, isDisp n t m = true)) ∧
      U.rows.filter (·.kind == .N) = U.nodal.map (fun p => nodalRow U.mapping p.2 p.1) := by
  obtain ⟨as, has, hwf, rfl⟩ := portfolio_assembled specs grid prices u skip U hfit h
  have hnd : grid.idx.Nodup := by rw [hfit.1]; exact List.nodup_range
  obtain ⟨n1, n2, n3⟩ := EAO.C07.nodal_rows_exact as grid.idx skip hnd hwf
  exact ⟨as, has, rfl, (EAO.C07.assemble_sizes as _ skip hwf).1, EAO.C07.assemble_cols as _ skip hwf,
    fun m hm => EAO.C07.assemble_mapping_faithful as _ skip hwf m hm,
    fun i hi j hj => EAO.C07.assemble_block as _ skip hwf i hi j hj, n1, n2, n3⟩

/-! ## (b) what `setupSplit` returns is `Assembled` -/

/-- **every element of what `setupSplit` returns is `relabelNodal (intervalSteps ref ab) (assemble as J.idx skip)`** for a
    pair `ab` of consecutive cuts, `J` the interval grid and `as` what the builders return on `J` — all of them `AssetWF` on
    the steps `0 .. T_J-1` of `J`; the list as a whole is the list of the contributing passes (`splitIntervals`) in loop
    order, and each element is the interval's `orig` problem except that its mapping still carries the LOCAL steps -/
theorem setup_split_assembled (specs : List AssetSpec) (ref : Grid) (cuts : List Int) (prices : Prices) (u : Nat)
    (skip : List String) (ps : List Problem) (hfit : GridFits specs ref)
    (h : setupSplit specs ref cuts prices u skip = .ok ps) :
    (∀ P ∈ ps, ∃ ab ∈ splitPairs cuts, ∃ as,
      buildAll (specs.map fun a => a.onInterval ref ab) (ref.interval ab.1 ab.2) (intervalPrices ref ab prices) u = .ok as ∧
      (∀ a ∈ as, EAO.C07.AssetWF (ref.interval ab.1 ab.2).idx a) ∧
      (ref.interval ab.1 ab.2).idx = List.range (intervalSteps ref ab).length ∧
      P = relabelNodal (intervalSteps ref ab) (assemble as (ref.interval ab.1 ab.2).idx skip)) ∧
    ps = (keptIntervals (splitIntervals specs ref cuts prices u skip)).map (fun iv => relabelNodal iv.steps iv.prob) ∧
    ps = (keptIntervals (splitIntervals specs ref cuts prices u skip)).map
      (fun iv => { iv.orig with mapping := iv.prob.mapping }) ∧
    ps ≠ [] := by
  have hk := setupSplit_kept specs ref cuts prices u skip ps hfit.1 h
  refine ⟨?_, hk, hk, ?_⟩
  · intro P hP
    rw [hk] at hP
    obtain ⟨iv, hiv, rfl⟩ := List.mem_map.mp hP
    obtain ⟨ab, hab, _, hsteps, hT, as, has, hp⟩ := kept_origin specs ref cuts prices u skip ps hfit.1 h iv hiv
    have hidxJ : (ref.interval ab.1 ab.2).idx = List.range (intervalSteps ref ab).length := by
      show List.range (ref.interval ab.1 ab.2).T = _
      rw [hT, hsteps]
    refine ⟨ab, hab, as, has, ?_, hidxJ, ?_⟩
    · intro a ha
      exact (buildAll_facts _ _ _ u as (interval_fits specs ref ab hfit) has a ha).1
    · rw [hp, hsteps, hidxJ]
  · obtain ⟨_, _, _, hne⟩ := setupSplit_ok specs ref cuts prices u skip ps h
    exact hne

/-- **the hypotheses of the seven `EAO.C07S` theorems hold for the passes of `setupSplit`**: every contributing pass is
    `Assembled` and `IntervalIn.wf`, its rows are rows over its own variables, its step list has no duplicate; with cuts in
    increasing order the step lists are pairwise disjoint -/
theorem split_hyps_builders (specs : List AssetSpec) (ref : Grid) (cuts : List Int) (prices : Prices) (u : Nat)
    (skip : List String) (ps : List Problem) (hfit : GridFits specs ref)
    (h : setupSplit specs ref cuts prices u skip = .ok ps) :
    (∀ iv ∈ keptIntervals (splitIntervals specs ref cuts prices u skip), EAO.C07S.Assembled skip iv) ∧
    (∀ iv ∈ keptIntervals (splitIntervals specs ref cuts prices u skip), iv.wf) ∧
    (∀ iv ∈ keptIntervals (splitIntervals specs ref cuts prices u skip),
      ∀ r ∈ iv.prob.rows, ∀ q ∈ r.coeffs, q.1 < iv.prob.n) ∧
    (∀ iv ∈ keptIntervals (splitIntervals specs ref cuts prices u skip), iv.steps.Nodup) ∧
    (cuts.Pairwise (· ≤ ·) → StepsDisjoint (keptIntervals (splitIntervals specs ref cuts prices u skip))) :=
  have hf := kept_facts specs ref cuts prices u skip ps hfit h
  ⟨fun iv hiv => (hf iv hiv).1, fun iv hiv => (hf iv hiv).2.1, fun iv hiv => (hf iv hiv).2.2,
    kept_nodup specs ref cuts prices u skip hfit.1, kept_disjoint specs ref cuts prices u skip hfit.1⟩

/-- `EAO.C07S.split_joint_fields` for the split set-up of a builder portfolio -/
theorem split_joint_fields_builders (specs : List AssetSpec) (ref : Grid) (cuts : List Int) (prices : Prices) (u : Nat)
    (skip : List String) (ps : List Problem) (hfit : GridFits specs ref)
    (h : setupSplit specs ref cuts prices u skip = .ok ps) :
    let ivs := splitIntervals specs ref cuts prices u skip
    (splitProblem ivs).mapping = jointMapping ivs ∧
    (splitProblem ivs).rows = (withOffsets 0 (keptIntervals ivs)).flatMap jointRowsOf ∧
    (splitProblem ivs).n = (ps.map fun P => P.n).sum ∧
    (splitProblem ivs).l.length = (splitProblem ivs).n ∧ (splitProblem ivs).u.length = (splitProblem ivs).n ∧
    ∀ p ∈ withOffsets 0 (keptIntervals ivs), ∃ k, ∃ hk : k < (keptIntervals ivs).length,
      p = (splitOffset ivs k, (keptIntervals ivs)[k]) := by
  intro ivs
  obtain ⟨h1, h2, h3, h4, h5, h6⟩ :=
    EAO.C07S.split_joint_fields ivs (split_hyps_builders specs ref cuts prices u skip ps hfit h).2.1
  refine ⟨h1, h2, ?_, h4, h5, h6⟩
  rw [h3, setupSplit_kept specs ref cuts prices u skip ps hfit.1 h, List.map_map]
  rfl

/-- `EAO.C07S.split_block` for the split set-up of a builder portfolio: joint variable `offset_k + j` has the cost and
    bounds of variable `j` of the `k`-th returned interval problem -/
theorem split_block_builders (specs : List AssetSpec) (ref : Grid) (cuts : List Int) (prices : Prices) (u : Nat)
    (skip : List String) (ps : List Problem) (hfit : GridFits specs ref)
    (h : setupSplit specs ref cuts prices u skip = .ok ps) :
    let ivs := splitIntervals specs ref cuts prices u skip
    ∀ k, (hk : k < (keptIntervals ivs).length) → ∀ j, j < ((keptIntervals ivs)[k]).prob.n →
    (splitProblem ivs).c.getD (splitOffset ivs k + j) 0 = ((keptIntervals ivs)[k]).prob.c.getD j 0 ∧
    (splitProblem ivs).l.getD (splitOffset ivs k + j) 0 = ((keptIntervals ivs)[k]).prob.l.getD j 0 ∧
    (splitProblem ivs).u.getD (splitOffset ivs k + j) 0 = ((keptIntervals ivs)[k]).prob.u.getD j 0 ∧
    splitOffset ivs k + j < (splitProblem ivs).n ∧
    ∀ i, (hi : i < (keptIntervals ivs).length) → ∀ j', j' < ((keptIntervals ivs)[i]).prob.n →
      splitOffset ivs i + j' = splitOffset ivs k + j → i = k ∧ j' = j := by
  intro ivs k hk j hj
  exact EAO.C07S.split_block ivs (split_hyps_builders specs ref cuts prices u skip ps hfit h).2.1 k hk j hj

/-- **C07 for the literal split set-up of a builder portfolio — the joint mapping is faithful**
    (`EAO.C07S.split_mapping_faithful` without any hypothesis on the interval problems) -/
theorem split_mapping_faithful_builders (specs : List AssetSpec) (ref : Grid) (cuts : List Int) (prices : Prices)
    (u : Nat) (skip : List String) (ps : List Problem) (hfit : GridFits specs ref) (hs : cuts.Pairwise (· ≤ ·))
    (h : setupSplit specs ref cuts prices u skip = .ok ps) :
    let ivs := splitIntervals specs ref cuts prices u skip
    ∀ m ∈ (splitProblem ivs).mapping,
    ∃ k, ∃ hk : k < (keptIntervals ivs).length, ∃ m' ∈ ((keptIntervals ivs)[k]).prob.mapping,
      m = { m' with var := splitOffset ivs k + m'.var, step := ((keptIntervals ivs)[k]).steps.getD m'.step 0 } ∧
      m'.var < ((keptIntervals ivs)[k]).prob.n ∧
      splitOffset ivs k ≤ m.var ∧ m.var < splitOffset ivs k + ((keptIntervals ivs)[k]).prob.n ∧
      m.var < (splitProblem ivs).n ∧
      (splitProblem ivs).c.getD m.var 0 = ((keptIntervals ivs)[k]).prob.c.getD m'.var 0 ∧
      (splitProblem ivs).l.getD m.var 0 = ((keptIntervals ivs)[k]).prob.l.getD m'.var 0 ∧
      (splitProblem ivs).u.getD m.var 0 = ((keptIntervals ivs)[k]).prob.u.getD m'.var 0 ∧
      m.step ∈ ((keptIntervals ivs)[k]).steps ∧
      (∀ i, (hi : i < (keptIntervals ivs).length) → m.step ∈ ((keptIntervals ivs)[i]).steps → i = k) ∧
      (∀ i, (hi : i < (keptIntervals ivs).length) → ∀ j, j < ((keptIntervals ivs)[i]).prob.n →
        m.var = splitOffset ivs i + j → i = k) := by
  intro ivs m hm
  have hh := split_hyps_builders specs ref cuts prices u skip ps hfit h
  exact EAO.C07S.split_mapping_faithful ivs hh.2.1 (hh.2.2.2.2 hs) m hm

/-- `EAO.C07S.split_rows_of_variable` for the split set-up of a builder portfolio -/
theorem split_rows_of_variable_builders (specs : List AssetSpec) (ref : Grid) (cuts : List Int) (prices : Prices)
    (u : Nat) (skip : List String) (ps : List Problem) (hfit : GridFits specs ref)
    (h : setupSplit specs ref cuts prices u skip = .ok ps) :
    let ivs := splitIntervals specs ref cuts prices u skip
    ∀ k, (hk : k < (keptIntervals ivs).length) →
    (∀ r' ∈ ((keptIntervals ivs)[k]).prob.rows, r'.rename (splitOffset ivs k + ·) ∈ (splitProblem ivs).rows) ∧
    (∀ j, j < ((keptIntervals ivs)[k]).prob.n → ∀ r ∈ (splitProblem ivs).rows, ∀ a : Rat,
      (splitOffset ivs k + j, a) ∈ r.coeffs →
      ∃ r' ∈ ((keptIntervals ivs)[k]).prob.rows, r = r'.rename (splitOffset ivs k + ·) ∧ (j, a) ∈ r'.coeffs ∧
        ∀ q ∈ r.coeffs, splitOffset ivs k ≤ q.1 ∧ q.1 < splitOffset ivs k + ((keptIntervals ivs)[k]).prob.n) := by
  intro ivs k hk
  exact EAO.C07S.split_rows_of_variable ivs (split_hyps_builders specs ref cuts prices u skip ps hfit h).2.2.1 k hk

/-- `EAO.C07S.split_nodal_once` for the split set-up of a builder portfolio: one entry of the nodal record per
    (original step, node) with dispatch, across all returned interval problems -/
theorem split_nodal_once_builders (specs : List AssetSpec) (ref : Grid) (cuts : List Int) (prices : Prices)
    (u : Nat) (skip : List String) (ps : List Problem) (hfit : GridFits specs ref) (hs : cuts.Pairwise (· ≤ ·))
    (h : setupSplit specs ref cuts prices u skip = .ok ps) :
    let ivs := splitIntervals specs ref cuts prices u skip
    jointNodal ivs = ps.flatMap (·.nodal) ∧
    (jointNodal ivs).Nodup ∧
    (∀ t n, (t, n) ∈ jointNodal ivs ↔ (n ∉ skip ∧ ∃ m ∈ jointMapping ivs, isDisp n t m = true)) ∧
    (∀ t n, (t, n) ∈ jointNodal ivs → ∃ k, ∃ hk : k < (keptIntervals ivs).length,
      t ∈ ((keptIntervals ivs)[k]).steps ∧
      ∀ i, (hi : i < (keptIntervals ivs).length) → t ∈ ((keptIntervals ivs)[i]).steps → i = k) := by
  intro ivs
  have hh := split_hyps_builders specs ref cuts prices u skip ps hfit h
  obtain ⟨h1, h2, h3⟩ := EAO.C07S.split_nodal_once ivs skip (hh.2.2.2.2 hs) hh.2.2.2.1 hh.1
  refine ⟨?_, h1, h2, h3⟩
  rw [jointNodal_eq, setupSplit_kept specs ref cuts prices u skip ps hfit.1 h, List.flatMap_map]
  rfl

/-- `EAO.C07S.split_nodal_rows` for the split set-up of a builder portfolio -/
theorem split_nodal_rows_builders (specs : List AssetSpec) (ref : Grid) (cuts : List Int) (prices : Prices)
    (u : Nat) (skip : List String) (ps : List Problem) (hfit : GridFits specs ref) (hs : cuts.Pairwise (· ≤ ·))
    (h : setupSplit specs ref cuts prices u skip = .ok ps) :
    let ivs := splitIntervals specs ref cuts prices u skip
    (splitProblem ivs).rows.filter (·.kind == .N) =
      (jointNodal ivs).map fun p => nodalRow (splitProblem ivs).mapping p.2 p.1 := by
  intro ivs
  have hh := split_hyps_builders specs ref cuts prices u skip ps hfit h
  exact EAO.C07S.split_nodal_rows ivs skip hh.2.1 (hh.2.2.2.2 hs) hh.2.2.2.1 hh.1

/-- `EAO.C07S.split_skipped_shift_nothing` for the split set-up: the joint problem of ALL passes of the loop is the joint
    problem of the contributing passes alone, and there are as many returned problems as contributing passes -/
theorem split_skipped_builders (specs : List AssetSpec) (ref : Grid) (cuts : List Int) (prices : Prices)
    (u : Nat) (skip : List String) (ps : List Problem) (hfit : GridFits specs ref)
    (h : setupSplit specs ref cuts prices u skip = .ok ps) :
    let ivs := splitIntervals specs ref cuts prices u skip
    splitProblem (keptIntervals ivs) = splitProblem ivs ∧ jointMapping (keptIntervals ivs) = jointMapping ivs ∧
    ps.length = (keptIntervals ivs).length ∧ ivs.length = (splitPairs cuts).length := by
  intro ivs
  refine ⟨?_, ?_, ?_, ?_⟩
  · unfold splitProblem; rw [kept_kept]
  · unfold jointMapping; rw [kept_kept]
  · rw [setupSplit_kept specs ref cuts prices u skip ps hfit.1 h, List.length_map]
  · exact List.length_map _

/-! ## non-vacuity

Four hourly steps; cuts at −2 h, 0 h, 2 h, 4 h: the first pass of the loop has no step and is skipped, the other two
contribute.  Node `n`: a contract `buy` (price `p`, spread 1/2, capacities −5 … 5: two variables per step, at most 6 in the
first two hours).  Node `m`: a contract `sink` that only takes and starts at the second step.  A transport `pipe` from `n`
to `m`. -/
section Example
private def exRef : Grid :=
  { pts := [0, 3600, 7200, 10800], idx := [0, 1, 2, 3], dt := [1, 1, 1, 1], Dt := [1, 2, 3, 4], df := [1, 1, 1, 1] }
private def exCuts : List Int := [-7200, 0, 7200, 14400]
private def exPrices : Prices := [("p", [3, 4, 1, 2])]
private def exBuy : ContractP :=
  { name := "buy", nodes := ["n"], price := some "p", extraCosts := .scalar (1/2), minCap := .scalar (-5),
    maxCap := .scalar 5, minTake := [], maxTake := [(0, 7200, 6)] }
private def exSink : ContractP :=
  { name := "sink", nodes := ["m"], price := none, extraCosts := .scalar 0, minCap := .scalar (-3),
    maxCap := .scalar 0, minTake := [], maxTake := [] }
private def exPipe : TransportP :=
  { name := "pipe", nodes := ["n", "m"], costsConst := 1/4, costsKey := none, minCap := 0, maxCap := 2,
    efficiency := 1, minTake := [], maxTake := [] }
private def exSpecs : List AssetSpec :=
  [{ spec := .contract exBuy, start := -1000000, stop := 1000000, df := [1, 1, 1, 1] },
   { spec := .simple exSink, start := 3600, stop := 1000000, df := [1, 1, 1, 1] },
   { spec := .transport exPipe, start := -1000000, stop := 1000000, df := [1, 1, 1, 1] }]

private def exPs : List Problem :=
  match setupSplit exSpecs exRef exCuts exPrices 3600 [] with | .ok ps => ps | .error _ => []

private theorem exPs_ok : setupSplit exSpecs exRef exCuts exPrices 3600 [] = .ok exPs := by
  have h : (match setupSplit exSpecs exRef exCuts exPrices 3600 [] with | .ok _ => true | .error _ => false) = true := by
    decide +kernel
  unfold exPs
  cases hh : setupSplit exSpecs exRef exCuts exPrices 3600 [] with
  | ok ps => rfl
  | error e => rw [hh] at h; cases h

private theorem exFits : GridFits exSpecs exRef := by
  refine ⟨by decide, by decide, ?_⟩
  intro a ha
  simp only [exSpecs, List.mem_cons, List.not_mem_nil, or_false] at ha
  rcases ha with rfl | rfl | rfl <;> rfl

private theorem exSorted : exCuts.Pairwise (· ≤ ·) := by decide

private def exIvs : List IntervalIn := splitIntervals exSpecs exRef exCuts exPrices 3600 []

/-- three passes, the first without step; two contribute, with 7 and 8 variables at offsets 0 and 7 -/
example : exIvs.map (·.steps) = [[], [0, 1], [2, 3]] ∧ (keptIntervals exIvs).map (·.prob.n) = [7, 8] ∧
    splitOffset exIvs 1 = 7 ∧ exPs.map (·.n) = [7, 8] ∧
    exPs.map (fun P => P.nodal.map (·.1)) = [[0, 1, 0, 1], [2, 3, 2, 3]] := by decide +kernel

/-- the joint mapping: 15 variables, ORIGINAL steps -/
example : (jointMapping exIvs).map (fun m => (m.var, m.asset, m.step)) =
    [(0, "buy", 0), (1, "buy", 1), (2, "buy", 0), (3, "buy", 1), (4, "sink", 1), (5, "pipe", 0), (6, "pipe", 1),
     (5, "pipe", 0), (6, "pipe", 1),
     (7, "buy", 2), (8, "buy", 3), (9, "buy", 2), (10, "buy", 3), (11, "sink", 2), (12, "sink", 3),
     (13, "pipe", 2), (14, "pipe", 3), (13, "pipe", 2), (14, "pipe", 3)] := by decide +kernel

/-- the builders' outputs of the example are `AssetWF` by the theorems of part (a) -/
example : ∀ P, buildContract exBuy exRef exPrices 4 3600 = .ok P → EAO.C07.AssetWF [0, 1, 2, 3] P :=
  fun _ h => (contract_assetWF (by decide) h (fun _ ht => ht)).1
example : ∀ P, buildTransport exPipe exRef exPrices 4 = .ok P → EAO.C07.AssetWF [0, 1, 2, 3, 4] P :=
  fun _ h => (transport_assetWF (by decide) h (fun _ ht => List.mem_append_left _ ht)).1
example : (match buildContract exBuy exRef exPrices 4 3600 with | .ok P => P.n | .error _ => 0) = 8 := by decide +kernel

/-- the theorems instantiated at the example -/
example := setup_split_assembled exSpecs exRef exCuts exPrices 3600 [] exPs exFits exPs_ok
example := split_hyps_builders exSpecs exRef exCuts exPrices 3600 [] exPs exFits exPs_ok
example := split_joint_fields_builders exSpecs exRef exCuts exPrices 3600 [] exPs exFits exPs_ok
example := split_block_builders exSpecs exRef exCuts exPrices 3600 [] exPs exFits exPs_ok 1 (by decide +kernel) 4
  (by decide +kernel)
example := split_mapping_faithful_builders exSpecs exRef exCuts exPrices 3600 [] exPs exFits exSorted exPs_ok
  ⟨11, "sink", some "m", .d, 2, 1, false, "disp"⟩ (by decide +kernel)
example := split_rows_of_variable_builders exSpecs exRef exCuts exPrices 3600 [] exPs exFits exPs_ok 0 (by decide +kernel)
example := split_nodal_once_builders exSpecs exRef exCuts exPrices 3600 [] exPs exFits exSorted exPs_ok
example := split_nodal_rows_builders exSpecs exRef exCuts exPrices 3600 [] exPs exFits exSorted exPs_ok
example := split_skipped_builders exSpecs exRef exCuts exPrices 3600 [] exPs exFits exPs_ok

/-- the unsplit set-up of the example by `mapping_faithful_builders`: 15 variables -/
example : (match setupPortfolio exSpecs exRef exPrices 3600 [] with | .ok U => U.n | .error _ => 0) = 15 := by
  decide +kernel

/-- a storage and an order book: `AssetWF` from their own well-formedness theorems -/
example := @storage_assetWF
example := orderbook_assetWF "ob" "n" [⟨0, 7200, 1, 3⟩] false exRef [0, 1, 2, 3] (by decide) (fun _ ht => ht)

end Example

end EAO.C07T
