import EAO.Properties.C07
import EAO.Lemmas.SplitMapping
/-!
# C07 for SPLIT problems — the joint mapping is a faithful description of the block sum

`Portfolio.setup_split_optim_problem` (portfolio.py 261-318) returns the interval problems `ops` and ONE mapping:
`pd.concat(mappings)`, every interval mapping with its variable index shifted by `len_res` (the variables of the
contributing intervals before it) and its step written as the ORIGINAL step `tmp_I[time_step]`; the nodal record of
`SplitOptimProblem` is the concatenation of the re-labelled interval records (`EAO.splitNodal`).  The joint problem is the
block sum of the interval problems (`EAO.splitProblem` of `EAO.Model.FixSplit`; `EAO.C14` says what that sum solves,
`EAO.C15S` how a window is pinned in it, `EAO.C18S` how its prices are read).  This file says that the joint mapping
(`jointMapping` of `EAO.Lemmas.SplitMapping` = `(splitProblem ivs).mapping`) describes that problem faithfully:

* every joint mapping row of the `k`-th contributing interval points to variable `offset_k + j`, whose cost, bounds and
  rows are those of variable `j` of interval problem `k` (`split_mapping_faithful`, `split_block`, `split_rows_of_variable`);
* its step is an original step of interval `k` and of no other interval (`split_mapping_faithful`);
* the nodal record lists each (original step, node) with dispatch once across all intervals, and the rows of type `N`
  of the joint problem are, in order, the nodal rows of the JOINT mapping (`split_nodal_once`, `split_nodal_rows`);
* skipped intervals shift nothing (`split_skipped_shift_nothing`).

The per-interval statements are those of `EAO.C07` (an interval problem is `assemble` of its asset problems on the re-based
grid `0 .. T_k-1`).  Property theorems only; helper lemmas in `EAO/Lemmas/SplitMapping.lean`.
-/
namespace EAO.C07S
open EAO EAO.FixSplit EAO.SplitMapping

/-- the interval problem is what `Portfolio.setup_optim_problem` builds on the re-based interval grid: the assembly of
    well-formed (`EAO.C07.AssetWF`) asset problems on the steps `0 .. T_k-1` -/
def Assembled (skip : List String) (iv : IntervalIn) : Prop :=
  ∃ as : List AssetProblem, (∀ a ∈ as, EAO.C07.AssetWF (List.range iv.steps.length) a) ∧
    iv.prob = assemble as (List.range iv.steps.length) skip

/-- **the joint problem, field by field**: its mapping is the joint mapping (`pd.concat(mappings)`: index `+= len_res`,
    steps original), its rows are the rows of the contributing intervals shifted by their offsets, one after the other,
    it has one cost and one pair of bounds per variable, and the offset the loop has when it reaches the `k`-th
    contributing interval is the number of variables of the contributing intervals before it -/
theorem split_joint_fields (ivs : List IntervalIn) (hwf : ∀ iv ∈ keptIntervals ivs, iv.wf) :
    (splitProblem ivs).mapping = jointMapping ivs ∧
    (splitProblem ivs).rows = (withOffsets 0 (keptIntervals ivs)).flatMap jointRowsOf ∧
    (splitProblem ivs).n = ((keptIntervals ivs).map fun iv => iv.prob.n).sum ∧
    (splitProblem ivs).l.length = (splitProblem ivs).n ∧ (splitProblem ivs).u.length = (splitProblem ivs).n ∧
    ∀ p ∈ withOffsets 0 (keptIntervals ivs), ∃ k, ∃ hk : k < (keptIntervals ivs).length,
      p = (splitOffset ivs k, (keptIntervals ivs)[k]) := by
  refine ⟨splitProblem_mapping ivs, ?_, ?_, ?_, ?_, mem_withOffsets_index ivs⟩
  · rw [splitProblem_eq, asm_rows]
  · rw [splitProblem_eq, asm_n]
  · rw [splitProblem_eq]; exact asm_l_len _ (fun iv h => (hwf iv h).1) 0
  · rw [splitProblem_eq]; exact asm_u_len _ (fun iv h => (hwf iv h).2.1) 0

/-- **variable `offset_k + j` has the cost and bounds of variable `j` of interval problem `k`** — every variable of the
    block, mapped or not; the block lies inside the joint vector and blocks of different intervals do not overlap -/
theorem split_block (ivs : List IntervalIn) (hwf : ∀ iv ∈ keptIntervals ivs, iv.wf)
    (k : Nat) (hk : k < (keptIntervals ivs).length) (j : Nat) (hj : j < ((keptIntervals ivs)[k]).prob.n) :
    (splitProblem ivs).c.getD (splitOffset ivs k + j) 0 = ((keptIntervals ivs)[k]).prob.c.getD j 0 ∧
    (splitProblem ivs).l.getD (splitOffset ivs k + j) 0 = ((keptIntervals ivs)[k]).prob.l.getD j 0 ∧
    (splitProblem ivs).u.getD (splitOffset ivs k + j) 0 = ((keptIntervals ivs)[k]).prob.u.getD j 0 ∧
    splitOffset ivs k + j < (splitProblem ivs).n ∧
    ∀ i, (hi : i < (keptIntervals ivs).length) → ∀ j', j' < ((keptIntervals ivs)[i]).prob.n →
      splitOffset ivs i + j' = splitOffset ivs k + j → i = k ∧ j' = j := by
  obtain ⟨h1, h2, h3, h4⟩ :=
    joint_block ivs (fun iv h => (hwf iv h).1) (fun iv h => (hwf iv h).2.1) k hk j hj
  refine ⟨h1, h2, h3, h4, ?_⟩
  intro i hi j' hj' he
  have hik := block_unique ivs i k hi hk j' j hj' hj he
  subst hik
  exact ⟨rfl, by omega⟩

/-- **C07 for the split set-up — the joint mapping is faithful.**  Every row `m` of the joint mapping is the row `m'` of
    exactly one contributing interval `k`, with the variable index shifted by the interval's offset and the step written
    as original step; it points into the block of interval `k` (a variable of the joint problem), the cost and bounds of
    that variable are those of variable `m'.var` of interval problem `k`; its step is an original step of interval `k`
    and — the step lists of the intervals being disjoint — of NO other interval; type, node, factor, flags are kept -/
theorem split_mapping_faithful (ivs : List IntervalIn) (hwf : ∀ iv ∈ keptIntervals ivs, iv.wf)
    (hd : StepsDisjoint (keptIntervals ivs)) (m : MapRow) (hm : m ∈ (splitProblem ivs).mapping) :
    ∃ k, ∃ hk : k < (keptIntervals ivs).length, ∃ m' ∈ ((keptIntervals ivs)[k]).prob.mapping,
      m = { m' with var := splitOffset ivs k + m'.var, step := ((keptIntervals ivs)[k]).steps.getD m'.step 0 } ∧
      m'.var < ((keptIntervals ivs)[k]).prob.n ∧
      splitOffset ivs k ≤ m.var ∧ m.var < splitOffset ivs k + ((keptIntervals ivs)[k]).prob.n ∧
      m.var < (splitProblem ivs).n ∧
      (splitProblem ivs).c.getD m.var 0 = ((keptIntervals ivs)[k]).prob.c.getD m'.var 0 ∧
      (splitProblem ivs).l.getD m.var 0 = ((keptIntervals ivs)[k]).prob.l.getD m'.var 0 ∧
      (splitProblem ivs).u.getD m.var 0 = ((keptIntervals ivs)[k]).prob.u.getD m'.var 0 ∧
      m.step ∈ ((keptIntervals ivs)[k]).steps ∧
      (∀ i, (hi : i < (keptIntervals ivs).length) → m.step ∈ ((keptIntervals ivs)[i]).steps → i = k) ∧
      (∀ i, (hi : i < (keptIntervals ivs).length) → ∀ j, j < ((keptIntervals ivs)[i]).prob.n →
        m.var = splitOffset ivs i + j → i = k) := by
  rw [splitProblem_mapping] at hm
  obtain ⟨k, hk, m', hm', rfl⟩ := (mem_joint_mapping ivs m).mp hm
  have hiv : (keptIntervals ivs)[k] ∈ keptIntervals ivs := List.getElem_mem hk
  obtain ⟨_, _, hv, hs⟩ := hwf _ hiv
  have hvar := hv m' hm'
  obtain ⟨b1, b2, b3, b4, _⟩ := split_block ivs hwf k hk m'.var hvar
  have hstep : ((keptIntervals ivs)[k]).steps.getD m'.step 0 ∈ ((keptIntervals ivs)[k]).steps :=
    getD_mem_nat _ _ (hs m' hm')
  refine ⟨k, hk, m', hm', rfl, hvar, Nat.le_add_right _ _, Nat.add_lt_add_left hvar _, b4, b1, b2, b3, hstep, ?_, ?_⟩
  · intro i hi hmem
    exact index_of_step _ hd i k hi hk _ hmem hstep
  · intro i hi j hj he
    exact block_unique ivs i k hi hk j m'.var hj hvar he.symm

/-- **the rows of variable `offset_k + j` are the rows of variable `j` of interval problem `k`**: every row of interval
    `k` is, shifted by the offset, a row of the joint problem; a row of the joint problem that mentions variable
    `offset_k + j` is the shifted row of interval `k` (of no other interval) and mentions `j` there with the same
    coefficient; the columns of every joint row lie in one block -/
theorem split_rows_of_variable (ivs : List IntervalIn)
    (hcols : ∀ iv ∈ keptIntervals ivs, ∀ r ∈ iv.prob.rows, ∀ q ∈ r.coeffs, q.1 < iv.prob.n)
    (k : Nat) (hk : k < (keptIntervals ivs).length) :
    (∀ r' ∈ ((keptIntervals ivs)[k]).prob.rows, r'.rename (splitOffset ivs k + ·) ∈ (splitProblem ivs).rows) ∧
    (∀ j, j < ((keptIntervals ivs)[k]).prob.n → ∀ r ∈ (splitProblem ivs).rows, ∀ a : Rat,
      (splitOffset ivs k + j, a) ∈ r.coeffs →
      ∃ r' ∈ ((keptIntervals ivs)[k]).prob.rows, r = r'.rename (splitOffset ivs k + ·) ∧ (j, a) ∈ r'.coeffs ∧
        ∀ q ∈ r.coeffs, splitOffset ivs k ≤ q.1 ∧ q.1 < splitOffset ivs k + ((keptIntervals ivs)[k]).prob.n) := by
  constructor
  · intro r' hr'
    exact (mem_joint_rows ivs _).mpr ⟨k, hk, r', hr', rfl⟩
  · intro j hj r hr a ha
    obtain ⟨i, hi, r', hr', rfl⟩ := (mem_joint_rows ivs r).mp hr
    simp only [Row.rename, List.mem_map, Prod.mk.injEq] at ha
    obtain ⟨q, hq, hq1, hq2⟩ := ha
    have hqn := hcols _ (List.getElem_mem hi) r' hr' q hq
    have hik := block_unique ivs i k hi hk q.1 j hqn hj hq1
    subst hik
    have hqj : q.1 = j := by omega
    refine ⟨r', hr', rfl, ?_, ?_⟩
    · rw [← hqj, ← hq2]; exact hq
    · intro q' hq'
      simp only [Row.rename, List.mem_map] at hq'
      obtain ⟨q0, hq0, rfl⟩ := hq'
      have := hcols _ (List.getElem_mem hi) r' hr' q0 hq0
      exact ⟨Nat.le_add_right _ _, Nat.add_lt_add_left this _⟩

/-- **one entry of the nodal record per (original step, node) with dispatch, across all intervals.**  For interval
    problems assembled on their re-based grids (`Assembled`), duplicate-free and pairwise disjoint step lists: the joint
    nodal record (`SplitOptimProblem.map_nodal_restr`) has no duplicates; it lists `(t, n)` iff `n` is not skipped and
    the JOINT mapping has a dispatch row at node `n` and original step `t`; and the step of every entry belongs to
    exactly one contributing interval -/
theorem split_nodal_once (ivs : List IntervalIn) (skip : List String) (hd : StepsDisjoint (keptIntervals ivs))
    (hs : ∀ iv ∈ keptIntervals ivs, iv.steps.Nodup) (ha : ∀ iv ∈ keptIntervals ivs, Assembled skip iv) :
    (jointNodal ivs).Nodup ∧
    (∀ t n, (t, n) ∈ jointNodal ivs ↔ (n ∉ skip ∧ ∃ m ∈ jointMapping ivs, isDisp n t m = true)) ∧
    (∀ t n, (t, n) ∈ jointNodal ivs → ∃ k, ∃ hk : k < (keptIntervals ivs).length,
      t ∈ ((keptIntervals ivs)[k]).steps ∧
      ∀ i, (hi : i < (keptIntervals ivs).length) → t ∈ ((keptIntervals ivs)[i]).steps → i = k) := by
  -- what `EAO.C07.nodal_rows_exact` gives per interval
  have hiv : ∀ iv ∈ keptIntervals ivs, iv.prob.nodal.Nodup ∧ (∀ q ∈ iv.prob.nodal, q.1 < iv.steps.length) ∧
      ∀ s n, (s, n) ∈ iv.prob.nodal ↔ (n ∉ skip ∧ ∃ m ∈ iv.prob.mapping, isDisp n s m = true) := by
    intro iv h
    obtain ⟨as, hwfa, he⟩ := ha iv h
    obtain ⟨h1, h2, _⟩ := EAO.C07.nodal_rows_exact as (List.range iv.steps.length) skip List.nodup_range hwfa
    rw [he]
    refine ⟨h1, ?_, h2⟩
    intro q hq
    rw [assemble_nodal] at hq
    have := (mem_nodalPairs_iff _ _ _ _ q.1 q.2).mp hq
    exact List.mem_range.mp this.2.2.1
  refine ⟨?_, ?_, ?_⟩
  · rw [jointNodal_eq]
    exact nodup_flat_nodal _ hd hs (fun iv h => ⟨(hiv iv h).1, (hiv iv h).2.1⟩)
  · intro t n
    rw [mem_jointNodal]
    constructor
    · rintro ⟨iv, hmem, s, hsn, rfl⟩
      obtain ⟨hskip, m', hm', hdisp⟩ := ((hiv iv hmem).2.2 s n).mp hsn
      obtain ⟨k, hk, rfl⟩ := List.getElem_of_mem hmem
      refine ⟨hskip, _, (mem_joint_mapping ivs _).mpr ⟨k, hk, m', hm', rfl⟩, ?_⟩
      obtain ⟨e1, e2, e3⟩ := (isDisp_iff _ _ _).mp hdisp
      exact (isDisp_iff _ _ _).mpr ⟨e1, e2, by rw [← e3]⟩
    · rintro ⟨hskip, m, hm, hdisp⟩
      obtain ⟨k, hk, m', hm', rfl⟩ := (mem_joint_mapping ivs m).mp hm
      obtain ⟨e1, e2, e3⟩ := (isDisp_iff _ _ _).mp hdisp
      have hmem : (keptIntervals ivs)[k] ∈ keptIntervals ivs := List.getElem_mem hk
      refine ⟨_, hmem, m'.step, ?_, e3.symm⟩
      exact ((hiv _ hmem).2.2 m'.step n).mpr ⟨hskip, m', hm', (isDisp_iff _ _ _).mpr ⟨e1, e2, rfl⟩⟩
  · intro t n htn
    obtain ⟨iv, hmem, s, hsn, rfl⟩ := (mem_jointNodal ivs _ n).mp htn
    obtain ⟨k, hk, rfl⟩ := List.getElem_of_mem hmem
    have hstep := getD_mem_nat _ _ ((hiv _ hmem).2.1 _ hsn)
    exact ⟨k, hk, hstep, fun i hi hi' => index_of_step _ hd i k hi hk _ hi' hstep⟩

/-- **one nodal row per (original step, node) with dispatch**: the rows of type `N` of the joint problem are, in the
    order of the joint nodal record, the nodal rows of the JOINT mapping — the dispatch rows of the joint mapping at
    `(n, t)` with their factors, which are exactly the shifted dispatch rows of the one interval that owns step `t` -/
theorem split_nodal_rows (ivs : List IntervalIn) (skip : List String)
    (hwf : ∀ iv ∈ keptIntervals ivs, iv.wf) (hd : StepsDisjoint (keptIntervals ivs))
    (hs : ∀ iv ∈ keptIntervals ivs, iv.steps.Nodup) (ha : ∀ iv ∈ keptIntervals ivs, Assembled skip iv) :
    (splitProblem ivs).rows.filter (·.kind == .N) =
      (jointNodal ivs).map fun p => nodalRow (splitProblem ivs).mapping p.2 p.1 := by
  rw [splitProblem_mapping, jointNodal_eq, splitProblem_eq, asm_rows]
  unfold jointMapping
  apply asm_filter_N _ 0 hwf hd hs
  · intro iv h
    obtain ⟨as, hwfa, he⟩ := ha iv h
    rw [he]
    exact (EAO.C07.nodal_rows_exact as _ skip List.nodup_range hwfa).2.2
  · intro iv h q hq
    obtain ⟨as, _, he⟩ := ha iv h
    rw [he, assemble_nodal] at hq
    have := (mem_nodalPairs_iff _ _ _ _ q.1 q.2).mp hq
    exact List.mem_range.mp this.2.2.1

/-- **skipped intervals shift nothing**: an interval without steps or without variables, put anywhere into the loop,
    changes neither the joint problem nor the joint mapping nor the nodal record nor any offset; the joint objects depend
    on the contributing intervals only -/
theorem split_skipped_shift_nothing (a b : List IntervalIn) (iv : IntervalIn) (h : iv.steps = [] ∨ iv.prob.n = 0) :
    splitProblem (a ++ iv :: b) = splitProblem (a ++ b) ∧
    jointMapping (a ++ iv :: b) = jointMapping (a ++ b) ∧
    jointNodal (a ++ iv :: b) = jointNodal (a ++ b) ∧
    (∀ k, splitOffset (a ++ iv :: b) k = splitOffset (a ++ b) k) ∧
    splitProblem (keptIntervals (a ++ b)) = splitProblem (a ++ b) := by
  have hk := kept_skip a b iv h
  refine ⟨?_, ?_, ?_, ?_, ?_⟩
  · unfold splitProblem; rw [hk]
  · unfold jointMapping; rw [hk]
  · unfold jointNodal; rw [hk]
  · intro k; unfold splitOffset; rw [hk]
  · unfold splitProblem; rw [kept_kept]

/-! ### non-vacuity

Five passes of the loop on the grid `0 .. 4`, one asset `a` at node `n`, a second asset `b` at the skipped node `x`:
an interval without steps, the interval of steps 0, 1 (two variables), the interval of step 2 WITHOUT variable
(skipped after its set-up), the interval of steps 3, 4 (three variables: `a` has one per step tied by a row, `b` one
at local step 0 at the skipped node). -/

def mr (v : Nat) (a n : String) (t : Nat) : MapRow := ⟨v, a, some n, .d, t, 1, false, "disp"⟩

def exA1 : AssetProblem :=
  { name := "a", nodes := ["n"], c := [1, 2], l := [0, 0], u := [5, 5], rows := [],
    mapping := [mr 0 "a" "n" 0, mr 1 "a" "n" 1] }
def exA2 : AssetProblem :=
  { name := "a", nodes := ["n"], c := [1, 1], l := [0, -1], u := [7, 8], rows := [⟨[(0, 1), (1, 1)], 6, .U⟩],
    mapping := [mr 0 "a" "n" 0, mr 1 "a" "n" 1] }
def exB2 : AssetProblem :=
  { name := "b", nodes := ["x"], c := [3], l := [0], u := [9], rows := [], mapping := [mr 0 "b" "x" 0] }

def exIvs : List IntervalIn :=
  [ ⟨[], [], ⟨[], [], [], [], [], []⟩⟩,
    ⟨[0, 1], [0, 10], assemble [exA1] [0, 1] ["x"]⟩,
    ⟨[2], [20], ⟨[], [], [], [], [], []⟩⟩,
    ⟨[3, 4], [30, 40], assemble [exA2, exB2] [0, 1] ["x"]⟩ ]

theorem exKept : keptIntervals exIvs = [exIvs[1], exIvs[3]] := rfl

/-- offsets 0 and 2: the two skipped passes shift nothing -/
example : (withOffsets 0 (keptIntervals exIvs)).map (·.1) = [0, 2] ∧ splitOffset exIvs 1 = 2 := by decide +kernel

/-- the joint mapping: variables 0 .. 4, ORIGINAL steps 0, 1, 3, 4, 3 -/
example : (jointMapping exIvs).map (fun m => (m.var, m.asset, m.step)) =
    [(0, "a", 0), (1, "a", 1), (2, "a", 3), (3, "a", 4), (4, "b", 3)] := by decide +kernel

/-- the joint nodal record: each (original step, node) once, nothing for the skipped node and for step 2 -/
example : jointNodal exIvs = [(0, "n"), (1, "n"), (3, "n"), (4, "n")] := by decide +kernel

/-- cost, bounds and rows of the joint problem -/
example : (splitProblem exIvs).c = [1, 2, 1, 1, 3] ∧ (splitProblem exIvs).l = [0, 0, 0, -1, 0] ∧
    (splitProblem exIvs).u = [5, 5, 7, 8, 9] ∧
    (splitProblem exIvs).rows.map (·.coeffs) = [[(0, 1)], [(1, 1)], [(2, 1), (3, 1)], [(2, 1)], [(3, 1)]] := by
  decide +kernel

theorem exWF1 : ∀ a ∈ [exA1], EAO.C07.AssetWF (List.range 2) a := by
  intro a ha
  simp only [List.mem_cons, List.not_mem_nil, or_false] at ha
  subst ha
  refine ⟨by decide, by decide, by decide +kernel, by decide +kernel, ?_, by decide⟩
  intro m hm n hk hn
  simp only [exA1, mr, List.mem_cons, List.not_mem_nil, or_false] at hm
  rcases hm with rfl | rfl <;> simp at hn <;> subst hn <;> simp [exA1] <;> decide

theorem exWF2 : ∀ a ∈ [exA2, exB2], EAO.C07.AssetWF (List.range 2) a := by
  intro a ha
  simp only [List.mem_cons, List.not_mem_nil, or_false] at ha
  rcases ha with rfl | rfl
  · refine ⟨by decide, by decide, by decide +kernel, by decide +kernel, ?_, by decide⟩
    intro m hm n hk hn
    simp only [exA2, mr, List.mem_cons, List.not_mem_nil, or_false] at hm
    rcases hm with rfl | rfl <;> simp at hn <;> subst hn <;> simp [exA2] <;> decide
  · refine ⟨by decide, by decide, by decide +kernel, by decide +kernel, ?_, by decide⟩
    intro m hm n hk hn
    simp only [exB2, mr, List.mem_cons, List.not_mem_nil, or_false] at hm
    subst hm
    simp at hn; subst hn; simp [exB2]

theorem exIvs_mem (iv : IntervalIn) (h : iv ∈ keptIntervals exIvs) : iv = exIvs[1] ∨ iv = exIvs[3] := by
  rw [exKept] at h
  simpa using h

theorem exIvs_wf : ∀ iv ∈ keptIntervals exIvs, iv.wf := by
  intro iv hiv
  rcases exIvs_mem iv hiv with rfl | rfl
  · refine ⟨by decide +kernel, by decide +kernel, ?_, ?_⟩ <;>
    · intro m hm
      have : m ∈ [mr 0 "a" "n" 0, mr 1 "a" "n" 1] := by
        have e : (exIvs[1]).prob.mapping = [mr 0 "a" "n" 0, mr 1 "a" "n" 1] := by decide +kernel
        rw [e] at hm; exact hm
      simp only [List.mem_cons, List.not_mem_nil, or_false] at this
      rcases this with rfl | rfl <;> decide +kernel
  · refine ⟨by decide +kernel, by decide +kernel, ?_, ?_⟩ <;>
    · intro m hm
      have : m ∈ [mr 0 "a" "n" 0, mr 1 "a" "n" 1, mr 2 "b" "x" 0] := by
        have e : (exIvs[3]).prob.mapping = [mr 0 "a" "n" 0, mr 1 "a" "n" 1, mr 2 "b" "x" 0] := by decide +kernel
        rw [e] at hm; exact hm
      simp only [List.mem_cons, List.not_mem_nil, or_false] at this
      rcases this with rfl | rfl | rfl <;> decide +kernel

theorem exIvs_disjoint : StepsDisjoint (keptIntervals exIvs) := by
  rw [exKept]
  refine List.pairwise_cons.mpr ⟨?_, List.pairwise_cons.mpr ⟨by simp, List.Pairwise.nil⟩⟩
  intro b hb t ht
  simp only [List.mem_cons, List.not_mem_nil, or_false] at hb
  subst hb
  have : t = 0 ∨ t = 1 := by simpa [exIvs] using ht
  rcases this with rfl | rfl <;> decide

theorem exIvs_nodup : ∀ iv ∈ keptIntervals exIvs, iv.steps.Nodup := by
  intro iv hiv
  rcases exIvs_mem iv hiv with rfl | rfl <;> decide

theorem exIvs_assembled : ∀ iv ∈ keptIntervals exIvs, Assembled ["x"] iv := by
  intro iv hiv
  rcases exIvs_mem iv hiv with rfl | rfl
  · exact ⟨[exA1], exWF1, rfl⟩
  · exact ⟨[exA2, exB2], exWF2, rfl⟩

/-- the theorems instantiated at the example -/
example := split_joint_fields exIvs exIvs_wf
example := split_block exIvs exIvs_wf 1 (by decide +kernel) 2 (by decide +kernel)
example := split_mapping_faithful exIvs exIvs_wf exIvs_disjoint ⟨3, "a", some "n", .d, 4, 1, false, "disp"⟩
  (by decide +kernel)
example := split_nodal_once exIvs ["x"] exIvs_disjoint exIvs_nodup exIvs_assembled
example := split_nodal_rows exIvs ["x"] exIvs_wf exIvs_disjoint exIvs_nodup exIvs_assembled
/-- the rows of type `N` of the example: one per entry of the joint nodal record, over the JOINT variable indices -/
example : ((splitProblem exIvs).rows.filter (·.kind == .N)).map (·.coeffs) = [[(0, 1)], [(1, 1)], [(2, 1)], [(3, 1)]] := by
  decide +kernel
example := split_skipped_shift_nothing [exIvs[0], exIvs[1]] [exIvs[3]] exIvs[2] (Or.inr rfl)

/-- the row of the second contributing interval that mentions joint variable 2 + 1 is its own row shifted by 2 -/
example : ∃ r' ∈ ((keptIntervals exIvs)[1]'(by decide +kernel)).prob.rows,
    (⟨[(2, 1), (3, 1)], 6, .U⟩ : Row) = r'.rename (splitOffset exIvs 1 + ·) ∧ (1, (1 : Rat)) ∈ r'.coeffs := by
  have hcols : ∀ iv ∈ keptIntervals exIvs, ∀ r ∈ iv.prob.rows, ∀ q ∈ r.coeffs, q.1 < iv.prob.n := by
    intro iv hiv
    rcases exIvs_mem iv hiv with rfl | rfl <;> decide +kernel
  obtain ⟨r', h1, h2, h3, _⟩ := (split_rows_of_variable exIvs hcols 1 (by decide +kernel)).2 1 (by decide +kernel)
    ⟨[(2, 1), (3, 1)], 6, .U⟩ (List.mem_of_getElem? (i := 2) rfl) 1 (by decide +kernel)
  exact ⟨r', h1, h2, h3⟩

end EAO.C07S
