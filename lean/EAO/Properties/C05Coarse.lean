import EAO.Model.CoarseStorage
import EAO.Model.Assemble
import EAO.Lemmas.CoarseReadout
import EAO.Properties.C05Readout
import EAO.Properties.C13Storage
/-!
# C05 — reporting of a storage with a coarse frequency (`freq`) inside a portfolio

`EAO/Properties/C05Readout.lean` proves the read-out theorems for FINE storages embedded at any offset of a portfolio
mapping; `EAO/Properties/C13Storage.lean` proves `fill_level_coarse_reported` / `fill_level_coarse_true` for the coarse
storage's OWN mapping.  Here the two are combined: the columns `<name>_fill_level` (`fillLevelCoarse` of
`EAO/Model/CoarseStorage.lean`, `Storage.fill_level` after the repairs F-05e / F-05f), `<name>_charge`,
`<name>_discharge` (`chargeOut`, `dischargeOut` of `EAO/Model/Storage.lean`) of a coarse storage, evaluated on the
mapping of the PORTFOLIO problem (`assemble`).

Setting as in `C05Readout`: asset list `pre ++ a :: post`, `P = assemble (pre ++ a :: post) gridI skip`,
`off = offsetOf pre`, `slice off x` the storage's own part of a portfolio solution `x`; `Foreign`: no mapping row of the
other assets carries the storage's name.  `cg` the storage's coarse grid over the full grid `ref`; fine steps of the
storage numbered `k` in the order of the minor lists, `cg.minor.flatten.getD k 0` the full-grid step of fine step `k`,
`cg.owner.getD k 0` its coarse step, `(cg.weights ref.dt).getD k 0 = dt_fine/dt_coarse` its weight.

* `readout_embedded_coarse` — for EVERY asset problem `a`, every `x` and step the four read-outs on `P.mapping` are the
  read-outs on `a.mapping` and the own slice; `readout_coarse_position_independent` — hence, for a coarse storage, they
  do not depend on the storage's position nor on the other assets (F-05c for coarse storages);
* `coarse_storage_wf` — what the embedded theorems ask of an asset holds for what `buildCoarseStorage` returns (own name
  in every mapping row, own variables only, one bound pair per variable);
* `fill_level_coarse_reported_embedded` (all `x`), `fill_level_coarse_true_embedded` (`z_in ≤ 0 ≤ z_out`),
  `fill_level_coarse_true_embedded_feasible` (`x` within the bounds of the portfolio problem): the reported level at the
  full-grid step of fine step `k` is the physical level of the expanded schedule at the end of that fine step;
* `charge_discharge_coarse_reported` (all `x`; steps outside the storage's window show 0),
  `charge_discharge_coarse_true` (the columns show the charge / discharge of the EXPANDED schedule per fine step:
  `−x_in·dt_fine/dt_coarse`, `−x_out·dt_fine/dt_coarse`), `charge_discharge_coarse_true_feasible`.
-/
namespace EAO.C05C
open EAO EAO.Storage EAO.StorageReadout EAO.CoarseBuild EAO.CoarseStorage EAO.CoarseReadout EAO.C05R

/-! ### the read-outs see the storage's own block only -/

/-- **Embedded read-out = own read-out on the own slice** (`readout_embedded_coarse`), for every asset problem `a`
    (no assumption on `a`), every position of `a` in the asset list, every coarse grid, every `x` (feasible or not)
    and every step `τ`: charge, discharge, fill-level increment and fill level of a storage with a coarse frequency. -/
theorem readout_embedded_coarse (p : StorageP) (cg : CoarseGrid) (dtFine : List Rat) (pre post : List AssetProblem)
    (a : AssetProblem) (gridI : List Nat) (skip : List String) (hoth : Foreign p.name (pre ++ post)) (x : Vec) :
    (∀ τ, chargeOut p (assemble (pre ++ a :: post) gridI skip).mapping x τ
            = chargeOut p a.mapping (slice (offsetOf pre) x) τ) ∧
    (∀ τ, dischargeOut p (assemble (pre ++ a :: post) gridI skip).mapping x τ
            = dischargeOut p a.mapping (slice (offsetOf pre) x) τ) ∧
    (∀ τ, fillIncCoarse p (assemble (pre ++ a :: post) gridI skip).mapping cg dtFine x τ
            = fillIncCoarse p a.mapping cg dtFine (slice (offsetOf pre) x) τ) ∧
    (∀ Tfull, fillLevelCoarse p (assemble (pre ++ a :: post) gridI skip).mapping cg dtFine Tfull x
            = fillLevelCoarse p a.mapping cg dtFine Tfull (slice (offsetOf pre) x)) :=
  ⟨fun τ => chargeOut_embedded p pre post a gridI skip hoth x τ,
   fun τ => dischargeOut_embedded p pre post a gridI skip hoth x τ,
   fun τ => fillIncCoarse_embedded p cg dtFine pre post a gridI skip hoth x τ,
   fun Tfull => fillLevelCoarse_embedded p cg dtFine pre post a gridI skip hoth x Tfull⟩

/-- **What `buildCoarseStorage` returns is a well-formed portfolio member**: every mapping row carries the storage's
    name (so it is `Foreign` to every storage of another name: `EAO.C05R.foreign_of_names`) and names one of the
    storage's own variables; one bound pair per variable. -/
theorem coarse_storage_wf (p : StorageP) (cg : CoarseGrid) (dtFine : List Rat) (prices : Prices) (fullT : Nat)
    (a : AssetProblem) (hc : buildCoarseStorage p cg dtFine prices fullT = .ok a) :
    (∀ m ∈ a.mapping, m.asset = p.name ∧ m.var < a.n) ∧ a.l.length = a.n ∧ a.u.length = a.n :=
  ⟨fun m hm => ⟨(coarse_mapping_var_name hc m hm).2, (coarse_mapping_var_name hc m hm).1⟩, coarse_bounds_len hc⟩

/-- **The reported columns of a coarse storage do not depend on its position** (F-05c for the `freq` path).  Two
    portfolios containing the same coarse storage problem `a` at any two positions, with ANY other assets, nodal rows or
    not; two solution vectors that give the storage's variables the same values: charge, discharge and fill level
    agree at every step of the horizon. -/
theorem readout_coarse_position_independent (p : StorageP) (cg : CoarseGrid) (dtFine : List Rat) (prices : Prices)
    (fullT : Nat) (a : AssetProblem) (hc : buildCoarseStorage p cg dtFine prices fullT = .ok a)
    (pre post pre' post' : List AssetProblem) (gridI gridI' : List Nat) (skip skip' : List String)
    (hoth : Foreign p.name (pre ++ post)) (hoth' : Foreign p.name (pre' ++ post'))
    (x x' : Vec) (hx : ∀ j, j < a.n → x (offsetOf pre + j) = x' (offsetOf pre' + j)) :
    (∀ τ, chargeOut p (assemble (pre ++ a :: post) gridI skip).mapping x τ
            = chargeOut p (assemble (pre' ++ a :: post') gridI' skip').mapping x' τ) ∧
    (∀ τ, dischargeOut p (assemble (pre ++ a :: post) gridI skip).mapping x τ
            = dischargeOut p (assemble (pre' ++ a :: post') gridI' skip').mapping x' τ) ∧
    (∀ Tfull, fillLevelCoarse p (assemble (pre ++ a :: post) gridI skip).mapping cg dtFine Tfull x
            = fillLevelCoarse p (assemble (pre' ++ a :: post') gridI' skip').mapping cg dtFine Tfull x') := by
  have hM : ∀ m ∈ a.mapping, m.var < a.n := fun m hm => (coarse_mapping_var_name hc m hm).1
  have hs : ∀ j, j < a.n → slice (offsetOf pre) x j = slice (offsetOf pre') x' j := hx
  refine ⟨fun τ => ?_, fun τ => ?_, fun Tfull => ?_⟩
  · rw [chargeOut_embedded p pre post a gridI skip hoth, chargeOut_embedded p pre' post' a gridI' skip' hoth']
    exact (chargeOut_congr p a.mapping a.n hM _ _ hs τ).1
  · rw [dischargeOut_embedded p pre post a gridI skip hoth, dischargeOut_embedded p pre' post' a gridI' skip' hoth']
    exact (chargeOut_congr p a.mapping a.n hM _ _ hs τ).2
  · rw [fillLevelCoarse_embedded p cg dtFine pre post a gridI skip hoth,
      fillLevelCoarse_embedded p cg dtFine pre' post' a gridI' skip' hoth']
    exact fillLevelCoarse_congr p a.mapping cg dtFine a.n hM _ _ hs Tfull

/-! ### fill-level column -/

/-- **Reported fill-level increment inside a portfolio, all options, any `x`**: `EAO.C13S.fill_level_coarse_reported`
    at any offset.  At full-grid step `t` the repaired `Storage.fill_level` books, for every fine step of the storage
    that is `t`, what the code makes of the coarse step's variables (read from the storage's slice of `x`) times
    `dt_fine/dt_coarse`, plus the inflow of the fine step. -/
theorem fill_level_coarse_reported_embedded (p : StorageP) (ref : Grid) (cg : CoarseGrid) (prices : Prices) (fullT : Nat)
    (a : AssetProblem) (hwf : cg.WellFormed ref.dt) (hT : 0 < cg.grid.T)
    (hc : buildCoarseStorage p cg ref.dt prices fullT = .ok a)
    (pre post : List AssetProblem) (gridI : List Nat) (skip : List String)
    (hoth : Foreign p.name (pre ++ post)) (x : Vec) (t : Nat) :
    fillIncCoarse p (assemble (pre ++ a :: post) gridI skip).mapping cg ref.dt x t
      = (((List.range cg.owner.length).filter fun k => cg.minor.flatten.getD k 0 == t).map fun k =>
          repFlow p cg.grid.T (slice (offsetOf pre) x) (cg.owner.getD k 0) * (cg.weights ref.dt).getD k 0
            + p.inflow * ref.dt.getD (cg.minor.flatten.getD k 0) 0).sum := by
  rw [fillIncCoarse_embedded p cg ref.dt pre post a gridI skip hoth]
  exact C13S.fill_level_coarse_reported p ref cg prices fullT a hwf hT hc _ t

/-- **The reported fill level of a coarse storage is the physical level per FINE step, inside a portfolio**
    (`fill_level_coarse_true_embedded`).  `xf` is the expansion of the storage's slice of the portfolio solution to
    the fine steps (`IsExpansion`: share `dt_fine/dt_coarse` of the coarse volume).  The level the column
    `<name>_fill_level` shows at the full-grid step of the storage's `k`-th fine step is the physical level of the
    expanded schedule at the end of that step - wherever the storage stands in the asset list.  Two-variable form: for
    `z_in ≤ 0 ≤ z_out` on the slice (which the bounds enforce); one-variable form: every `x`. -/
theorem fill_level_coarse_true_embedded (p : StorageP) (ref : Grid) (cg : CoarseGrid) (prices : Prices)
    (fullT Tfull : Nat) (a : AssetProblem) (hwf : cg.WellFormed ref.dt) (hT : 0 < cg.grid.T)
    (hinc : cg.minor.flatten.Pairwise (· < ·))
    (hc : buildCoarseStorage p cg ref.dt prices fullT = .ok a)
    (pre post : List AssetProblem) (gridI : List Nat) (skip : List String)
    (hoth : Foreign p.name (pre ++ post)) (x xf : Vec)
    (hx : IsExpansion ref cg (slice (offsetOf pre) x) xf)
    (hsign : sep p = true → ∀ i, i < cg.grid.T →
      slice (offsetOf pre) x i ≤ 0 ∧ 0 ≤ slice (offsetOf pre) x (cg.grid.T + i))
    (k : Nat) (hk : k < cg.owner.length) (hkT : cg.minor.flatten.getD k 0 < Tfull) :
    (fillLevelCoarse p (assemble (pre ++ a :: post) gridI skip).mapping cg ref.dt Tfull x).getD
        (cg.minor.flatten.getD k 0) 0
      = C05.physLevel p (minorGrid ref cg) (minorGrid ref cg).T xf k := by
  rw [fillLevelCoarse_embedded p cg ref.dt pre post a gridI skip hoth]
  exact C13S.fill_level_coarse_true p ref cg prices fullT Tfull a hwf hT hinc hc _ xf hx hsign k hk hkT

/-- the sign condition of the two-variable form follows from the bounds of the PORTFOLIO problem (the other assets
    with one bound pair per variable, which all builders deliver) -/
theorem sign_of_portfolio_bounds_coarse (p : StorageP) (cg : CoarseGrid) (dtFine : List Rat) (prices : Prices)
    (fullT : Nat) (a : AssetProblem) (hlen : cg.grid.dt.length = cg.grid.T)
    (hc : buildCoarseStorage p cg dtFine prices fullT = .ok a)
    (pre post : List AssetProblem) (gridI : List Nat) (skip : List String)
    (hwfo : ∀ b ∈ pre ++ post, b.l.length = b.n ∧ b.u.length = b.n) (x : Vec)
    (hx : InBounds (assemble (pre ++ a :: post) gridI skip).l (assemble (pre ++ a :: post) gridI skip).u x) :
    sep p = true → ∀ i, i < cg.grid.T →
      slice (offsetOf pre) x i ≤ 0 ∧ 0 ≤ slice (offsetOf pre) x (cg.grid.T + i) := by
  intro hs i hi
  have hwfp : ∀ b ∈ pre ++ a :: post, b.l.length = b.n ∧ b.u.length = b.n := by
    intro b hb
    rcases List.mem_append.mp hb with h | h
    · exact hwfo b (List.mem_append_left _ h)
    · rcases List.mem_cons.mp h with rfl | h
      · exact coarse_bounds_len hc
      · exact hwfo b (List.mem_append_right _ h)
  have hz := slice_inBounds pre post a gridI skip hwfp x hx
  have hne : cg.grid.dt.length ≠ 0 := by omega
  obtain ⟨price, bl, _, _, hn, rfl⟩ := buildCoarseStorage_ok hc hne
  have hz' : InBounds (lowerVec p cg.grid cg.grid.T) (upperVec p cg.grid cg.grid.T) (slice (offsetOf pre) x) := hz
  unfold InBounds at hz'
  rw [lowerVec_length] at hz'
  have hnv := nd_le_nVars p cg.grid.T
  have hnd : nd p cg.grid.T = 2 * cg.grid.T := by simp [nd, hs]
  obtain ⟨b1, b2, b3, b4⟩ := bounds_two p cg.grid cg.grid.T i hs hi
  have h1 := hz' i (by omega)
  have h2 := hz' (cg.grid.T + i) (by omega)
  rw [b2] at h1
  rw [b3] at h2
  exact ⟨h1.2, h2.1⟩

/-- … for every `x` within the bounds of the portfolio problem -/
theorem fill_level_coarse_true_embedded_feasible (p : StorageP) (ref : Grid) (cg : CoarseGrid) (prices : Prices)
    (fullT Tfull : Nat) (a : AssetProblem) (hwf : cg.WellFormed ref.dt) (hT : 0 < cg.grid.T)
    (hinc : cg.minor.flatten.Pairwise (· < ·))
    (hc : buildCoarseStorage p cg ref.dt prices fullT = .ok a)
    (pre post : List AssetProblem) (gridI : List Nat) (skip : List String)
    (hoth : Foreign p.name (pre ++ post))
    (hwfo : ∀ b ∈ pre ++ post, b.l.length = b.n ∧ b.u.length = b.n) (x xf : Vec)
    (hx : IsExpansion ref cg (slice (offsetOf pre) x) xf)
    (hb : InBounds (assemble (pre ++ a :: post) gridI skip).l (assemble (pre ++ a :: post) gridI skip).u x)
    (k : Nat) (hk : k < cg.owner.length) (hkT : cg.minor.flatten.getD k 0 < Tfull) :
    (fillLevelCoarse p (assemble (pre ++ a :: post) gridI skip).mapping cg ref.dt Tfull x).getD
        (cg.minor.flatten.getD k 0) 0
      = C05.physLevel p (minorGrid ref cg) (minorGrid ref cg).T xf k :=
  fill_level_coarse_true_embedded p ref cg prices fullT Tfull a hwf hT hinc hc pre post gridI skip hoth x xf hx
    (sign_of_portfolio_bounds_coarse p cg ref.dt prices fullT a hwf.ok.2.1 hc pre post gridI skip hwfo x hb) k hk hkT

/-! ### charge and discharge columns -/

/-- **Reported charge / discharge of a coarse storage inside a portfolio, all options, any `x`.**  At full-grid step
    `t` the columns show, for every fine step of the storage that is `t`, `Σ max(0,−x)` resp. `Σ min(0,−x)` over the
    dispatch variables of the fine step's COARSE step (`repCharge`, `repDischarge`, read from the storage's slice of
    `x`) times `dt_fine/dt_coarse`; at a step that is no fine step of the storage both columns are 0. -/
theorem charge_discharge_coarse_reported (p : StorageP) (ref : Grid) (cg : CoarseGrid) (prices : Prices) (fullT : Nat)
    (a : AssetProblem) (hwf : cg.WellFormed ref.dt) (hT : 0 < cg.grid.T)
    (hc : buildCoarseStorage p cg ref.dt prices fullT = .ok a)
    (pre post : List AssetProblem) (gridI : List Nat) (skip : List String)
    (hoth : Foreign p.name (pre ++ post)) (x : Vec) :
    (∀ t, chargeOut p (assemble (pre ++ a :: post) gridI skip).mapping x t
        = (((List.range cg.owner.length).filter fun k => cg.minor.flatten.getD k 0 == t).map fun k =>
            repCharge p cg.grid.T (slice (offsetOf pre) x) (cg.owner.getD k 0) * (cg.weights ref.dt).getD k 0).sum ∧
      dischargeOut p (assemble (pre ++ a :: post) gridI skip).mapping x t
        = (((List.range cg.owner.length).filter fun k => cg.minor.flatten.getD k 0 == t).map fun k =>
            repDischarge p cg.grid.T (slice (offsetOf pre) x) (cg.owner.getD k 0) * (cg.weights ref.dt).getD k 0).sum) ∧
    (∀ t, (∀ k, k < cg.owner.length → cg.minor.flatten.getD k 0 ≠ t) →
      chargeOut p (assemble (pre ++ a :: post) gridI skip).mapping x t = 0 ∧
      dischargeOut p (assemble (pre ++ a :: post) gridI skip).mapping x t = 0) := by
  have hne : cg.grid.dt.length ≠ 0 := by rw [hwf.ok.2.1]; omega
  obtain ⟨price, bl, _, _, hn, rfl⟩ := buildCoarseStorage_ok hc hne
  refine ⟨fun t => ?_, fun t ht => ?_⟩
  · rw [chargeOut_embedded p pre post _ gridI skip hoth, dischargeOut_embedded p pre post _ gridI skip hoth]
    obtain ⟨h1, h2⟩ := charge_coarse_formula hwf p hn (slice (offsetOf pre) x) t
    refine ⟨h1.trans ?_, h2.trans ?_⟩
    · rw [sum_filter_map]
      apply rsum_congr
      intro k _
      simp only [beq_iff_eq]
    · rw [sum_filter_map]
      apply rsum_congr
      intro k _
      simp only [beq_iff_eq]
  · rw [chargeOut_embedded p pre post _ gridI skip hoth, dischargeOut_embedded p pre post _ gridI skip hoth]
    exact charge_coarse_off hwf p hn _ t ht

/-- **The reported charge and discharge of a coarse storage are those of the expanded schedule, per fine step**
    (`charge_discharge_coarse_true`).  With `xf` the expansion of the storage's slice to the fine steps and the minor
    steps in increasing order, at the full-grid step of fine step `k` the columns show what a FINE storage reports at
    `xf` (`repCharge`, `repDischarge` on the fine variables).  Two-variable form, `z_in ≤ 0 ≤ z_out` on the slice:
    charge `= −xf_in,k`, discharge `= −xf_out,k`; one-variable form, every `x`: charge `= max(0,−xf_k)`, discharge
    `= min(0,−xf_k)`, they add up to `−xf_k` and one of them is 0.  Always `0 ≤ charge`, `discharge ≤ 0`. -/
theorem charge_discharge_coarse_true (p : StorageP) (ref : Grid) (cg : CoarseGrid) (prices : Prices) (fullT : Nat)
    (a : AssetProblem) (hwf : cg.WellFormed ref.dt) (hT : 0 < cg.grid.T)
    (hinc : cg.minor.flatten.Pairwise (· < ·))
    (hc : buildCoarseStorage p cg ref.dt prices fullT = .ok a)
    (pre post : List AssetProblem) (gridI : List Nat) (skip : List String)
    (hoth : Foreign p.name (pre ++ post)) (x xf : Vec)
    (hx : IsExpansion ref cg (slice (offsetOf pre) x) xf)
    (hsign : sep p = true → ∀ i, i < cg.grid.T →
      slice (offsetOf pre) x i ≤ 0 ∧ 0 ≤ slice (offsetOf pre) x (cg.grid.T + i))
    (k : Nat) (hk : k < cg.owner.length) :
    let ch := chargeOut p (assemble (pre ++ a :: post) gridI skip).mapping x (cg.minor.flatten.getD k 0)
    let dis := dischargeOut p (assemble (pre ++ a :: post) gridI skip).mapping x (cg.minor.flatten.getD k 0)
    ch = repCharge p cg.owner.length xf k ∧ dis = repDischarge p cg.owner.length xf k ∧
    (sep p = true → ch = -(xf k) ∧ dis = -(xf (cg.owner.length + k))) ∧
    (sep p = false → ch = posPart (-(xf k)) ∧ dis = negPart (-(xf k)) ∧ ch + dis = -(xf k) ∧ (ch = 0 ∨ dis = 0)) ∧
    0 ≤ ch ∧ dis ≤ 0 := by
  intro ch dis
  have hne : cg.grid.dt.length ≠ 0 := by rw [hwf.ok.2.1]; omega
  obtain ⟨price, bl, _, _, hn, rfl⟩ := buildCoarseStorage_ok hc hne
  obtain ⟨e1, e2⟩ := repCharge_expand hwf p hx k hk
  have hch : ch = repCharge p cg.owner.length xf k := by
    show chargeOut p (assemble (pre ++ _ :: post) gridI skip).mapping x _ = _
    rw [chargeOut_embedded p pre post _ gridI skip hoth, e1]
    exact (charge_coarse_at hwf hinc p hn _ k hk).1
  have hdis : dis = repDischarge p cg.owner.length xf k := by
    show dischargeOut p (assemble (pre ++ _ :: post) gridI skip).mapping x _ = _
    rw [dischargeOut_embedded p pre post _ gridI skip hoth, e2]
    exact (charge_coarse_at hwf hinc p hn _ k hk).2
  have hpos : ∀ r : Rat, 0 ≤ posPart r := by intro r; unfold posPart; split <;> grind
  have hneg : ∀ r : Rat, negPart r ≤ 0 := by intro r; unfold negPart; split <;> grind
  have hw := weight_pos hwf k hk
  refine ⟨hch, hdis, fun hs => ?_, fun hs => ?_, ?_, ?_⟩
  · obtain ⟨s1, s2⟩ := hsign hs _ (owner_lt hwf k hk)
    have s1' : xf k ≤ 0 := by
      rw [isExp_b0 hx k hk]
      have := Rat.mul_nonneg (a := -(slice (offsetOf pre) x (cg.owner.getD k 0))) (by grind) (Rat.le_of_lt hw)
      grind
    have s2' : 0 ≤ xf (cg.owner.length + k) := by
      rw [isExp_b1 hx k hk]
      exact Rat.mul_nonneg s2 (Rat.le_of_lt hw)
    rw [hch, hdis]
    simp only [repCharge, repDischarge, hs, if_true]
    have f1 : posPart (-(xf k)) = -(xf k) := by unfold posPart; split <;> grind
    have f2 : negPart (-(xf k)) = 0 := by unfold negPart; split <;> grind
    have f3 : posPart (-(xf (cg.owner.length + k))) = 0 := by unfold posPart; split <;> grind
    have f4 : negPart (-(xf (cg.owner.length + k))) = -(xf (cg.owner.length + k)) := by unfold negPart; split <;> grind
    rw [f1, f2, f3, f4]
    constructor <;> grind
  · rw [hch, hdis]
    simp only [repCharge, repDischarge, hs, Bool.false_eq_true, if_false]
    refine ⟨trivial, trivial, ?_, ?_⟩
    · unfold posPart negPart; split <;> split <;> grind
    · unfold posPart negPart; split <;> split <;> grind
  · rw [hch]; unfold repCharge; split
    · have := hpos (-(xf k)); have := hpos (-(xf (cg.owner.length + k))); grind
    · exact hpos _
  · rw [hdis]; unfold repDischarge; split
    · have := hneg (-(xf k)); have := hneg (-(xf (cg.owner.length + k))); grind
    · exact hneg _

/-- `charge_discharge_coarse_true` for every `x` within the bounds of the portfolio problem -/
theorem charge_discharge_coarse_true_feasible (p : StorageP) (ref : Grid) (cg : CoarseGrid) (prices : Prices)
    (fullT : Nat) (a : AssetProblem) (hwf : cg.WellFormed ref.dt) (hT : 0 < cg.grid.T)
    (hinc : cg.minor.flatten.Pairwise (· < ·))
    (hc : buildCoarseStorage p cg ref.dt prices fullT = .ok a)
    (pre post : List AssetProblem) (gridI : List Nat) (skip : List String)
    (hoth : Foreign p.name (pre ++ post))
    (hwfo : ∀ b ∈ pre ++ post, b.l.length = b.n ∧ b.u.length = b.n) (x xf : Vec)
    (hx : IsExpansion ref cg (slice (offsetOf pre) x) xf)
    (hb : InBounds (assemble (pre ++ a :: post) gridI skip).l (assemble (pre ++ a :: post) gridI skip).u x)
    (k : Nat) (hk : k < cg.owner.length) :
    let ch := chargeOut p (assemble (pre ++ a :: post) gridI skip).mapping x (cg.minor.flatten.getD k 0)
    let dis := dischargeOut p (assemble (pre ++ a :: post) gridI skip).mapping x (cg.minor.flatten.getD k 0)
    ch = repCharge p cg.owner.length xf k ∧ dis = repDischarge p cg.owner.length xf k ∧
    (sep p = true → ch = -(xf k) ∧ dis = -(xf (cg.owner.length + k))) ∧
    (sep p = false → ch = posPart (-(xf k)) ∧ dis = negPart (-(xf k)) ∧ ch + dis = -(xf k) ∧ (ch = 0 ∨ dis = 0)) ∧
    0 ≤ ch ∧ dis ≤ 0 :=
  charge_discharge_coarse_true p ref cg prices fullT a hwf hT hinc hc pre post gridI skip hoth x xf hx
    (sign_of_portfolio_bounds_coarse p cg ref.dt prices fullT a hwf.ok.2.1 hc pre post gridI skip hwfo x hb) k hk

/-! ### the three columns fit together; from the grid up -/

/-- **The three reported columns of a coarse storage fit together, all options, any `x`** (no sign condition, no
    expansion to be supplied): the fill-level column at the full-grid step of the storage's `k`-th fine step is the
    start level plus the running sum, over the fine steps `s ≤ k`, of `eff_in · charge + discharge + inflow · dt_fine`
    with charge / discharge the values of the two other columns at the full-grid step of fine step `s`. -/
theorem reported_columns_consistent_coarse (p : StorageP) (ref : Grid) (cg : CoarseGrid) (prices : Prices)
    (fullT Tfull : Nat) (a : AssetProblem) (hwf : cg.WellFormed ref.dt) (hT : 0 < cg.grid.T)
    (hinc : cg.minor.flatten.Pairwise (· < ·))
    (hc : buildCoarseStorage p cg ref.dt prices fullT = .ok a)
    (pre post : List AssetProblem) (gridI : List Nat) (skip : List String)
    (hoth : Foreign p.name (pre ++ post)) (x : Vec)
    (k : Nat) (hk : k < cg.owner.length) (hkT : cg.minor.flatten.getD k 0 < Tfull) :
    (fillLevelCoarse p (assemble (pre ++ a :: post) gridI skip).mapping cg ref.dt Tfull x).getD
        (cg.minor.flatten.getD k 0) 0
      = p.startLevel + sumTo (fun s =>
          p.effIn * chargeOut p (assemble (pre ++ a :: post) gridI skip).mapping x (cg.minor.flatten.getD s 0)
          + dischargeOut p (assemble (pre ++ a :: post) gridI skip).mapping x (cg.minor.flatten.getD s 0)
          + p.inflow * ref.dt.getD (cg.minor.flatten.getD s 0) 0) (k + 1) := by
  have hne : cg.grid.dt.length ≠ 0 := by rw [hwf.ok.2.1]; omega
  obtain ⟨price, bl, _, _, hn, rfl⟩ := buildCoarseStorage_ok hc hne
  have hxf := isExpansion_expand (ref := ref) (cg := cg) (slice (offsetOf pre) x)
  rw [fillLevelCoarse_embedded p cg ref.dt pre post _ gridI skip hoth]
  show (fillLevelCoarse p ((Storage.mapping p cg.grid cg.grid.T).flatMap (extendRow cg ref.dt)) cg ref.dt Tfull
    (slice (offsetOf pre) x)).getD _ 0 = _
  unfold fillLevelCoarse
  rw [List.getD_eq_getElem?_getD, List.getElem?_map, List.getElem?_range hkT]
  simp only [Option.map_some, Option.getD_some]
  rw [sumTo_fillIncCoarse hwf hinc p hn hxf k hk, Rat.add_comm]
  congr 1
  apply sumTo_congr
  intro s hs
  have hs' : s < cg.owner.length := by omega
  rw [chargeOut_embedded p pre post _ gridI skip hoth, dischargeOut_embedded p pre post _ gridI skip hoth]
  obtain ⟨c1, c2⟩ := charge_coarse_at hwf hinc p hn (slice (offsetOf pre) x) s hs'
  obtain ⟨e1, e2⟩ := repCharge_expand hwf p hxf s hs'
  show _ = p.effIn * chargeOut p ((Storage.mapping p cg.grid cg.grid.T).flatMap (extendRow cg ref.dt)) _ _
    + dischargeOut p ((Storage.mapping p cg.grid cg.grid.T).flatMap (extendRow cg ref.dt)) _ _ + _
  rw [c1, c2, ← e1, ← e2]
  have hinfl : infl p (minorGrid ref cg) s = p.inflow * ref.dt.getD (cg.minor.flatten.getD s 0) 0 := by
    unfold infl dtAt
    rw [minorGrid_dt_getD s hs']
  rw [hinfl]
  unfold repFlow repCharge repDischarge
  split <;> grind

/-- **From the grid up**: top-level reference grid `ref`, cuts of whole coarse steps `[s, e)`, `cg` the coarse grid
    `Grid.coarsen` makes (what `Asset.set_timegrid` does).  Then no hypothesis about the grids is left: for every `x`
    within the bounds of the portfolio problem the fill-level, charge and discharge columns of the embedded coarse
    storage show, at the full-grid step of fine step `k`, the physical level / charge / discharge of the expanded
    schedule, which lives on `ref.restrict s e`. -/
theorem readout_coarse_embedded_from_grid (p : StorageP) (ref : Grid) (cuts : List Int) (cg : CoarseGrid) (s e : Int)
    (htl : ref.TopLevel) (hco : ref.coarsen cuts = .ok cg) (hcuts : cuts.Pairwise (· ≤ ·))
    (h0 : cuts.head? = some s) (hn : cuts.getLast? = some e) (hT : 0 < cg.grid.T)
    (prices : Prices) (fullT Tfull : Nat) (a : AssetProblem)
    (hc : buildCoarseStorage p cg ref.dt prices fullT = .ok a)
    (pre post : List AssetProblem) (gridI : List Nat) (skip : List String)
    (hoth : Foreign p.name (pre ++ post))
    (hwfo : ∀ b ∈ pre ++ post, b.l.length = b.n ∧ b.u.length = b.n) (x xf : Vec)
    (hx : IsExpansion ref cg (slice (offsetOf pre) x) xf)
    (hb : InBounds (assemble (pre ++ a :: post) gridI skip).l (assemble (pre ++ a :: post) gridI skip).u x)
    (k : Nat) (hk : k < cg.owner.length) (hkT : cg.minor.flatten.getD k 0 < Tfull) :
    (fillLevelCoarse p (assemble (pre ++ a :: post) gridI skip).mapping cg ref.dt Tfull x).getD
        (cg.minor.flatten.getD k 0) 0
      = C05.physLevel p (ref.restrict s e) (ref.restrict s e).T xf k ∧
    chargeOut p (assemble (pre ++ a :: post) gridI skip).mapping x (cg.minor.flatten.getD k 0)
      = repCharge p cg.owner.length xf k ∧
    dischargeOut p (assemble (pre ++ a :: post) gridI skip).mapping x (cg.minor.flatten.getD k 0)
      = repDischarge p cg.owner.length xf k := by
  obtain ⟨hwf, hg, hinc⟩ := C13S.coarse_storage_grid_hyps ref cuts cg s e htl hco hcuts h0 hn
  have h1 := fill_level_coarse_true_embedded_feasible p ref cg prices fullT Tfull a hwf hT hinc hc pre post gridI skip
    hoth hwfo x xf hx hb k hk hkT
  have h2 := charge_discharge_coarse_true_feasible p ref cg prices fullT a hwf hT hinc hc pre post gridI skip
    hoth hwfo x xf hx hb k hk
  rw [hg] at h1
  exact ⟨h1, h2.1, h2.2.1⟩

end EAO.C05C

/-! ### non-vacuity: the coarse storage of `EAO.C13S.Ex` between two market contracts (kernel-evaluated) -/
namespace EAO.C05C.Ex
open EAO EAO.Storage EAO.StorageReadout EAO.CoarseBuild EAO.CoarseStorage EAO.C05R EAO.C13B.Ex EAO.C13S.Ex

/-- the coarse storage of `EAO/Properties/C13Storage.lean`: hourly grid of 4 steps, two coarse steps of two hours,
    two variables per coarse step (efficiency 1/2), inflow 1/4 per hour, start = end = 1 -/
def exC : AssetProblem := okOf (buildCoarseStorage ps cg2 ref4.dt prices4 4)

theorem exC_ok : buildCoarseStorage ps cg2 ref4.dt prices4 4 = .ok exC := okOf_ok _ (by decide +kernel)

def m1 : AssetProblem := market "m1" "a" 4
def m2 : AssetProblem := market "m2" "a" 4

/-- storage in the MIDDLE: variables 0…3 market `m1`, 4…7 storage (`zs`: charge 2 in the first coarse step, discharge 2
    in the second), 8…11 market `m2`; `m1` takes the other side hour by hour -/
def xMid : Vec := C05.vecOf ([1, 1, -1, -1] ++ zs ++ [0, 0, 0, 0])
/-- storage FIRST -/
def xFirst : Vec := C05.vecOf (zs ++ [1, 1, -1, -1] ++ [0, 0, 0, 0])
/-- storage LAST -/
def xLast : Vec := C05.vecOf ([1, 1, -1, -1] ++ [0, 0, 0, 0] ++ zs)

def pfMid : Problem := assemble ([m1] ++ exC :: [m2]) (List.range 4) []
def pfFirst : Problem := assemble ([] ++ exC :: [m1, m2]) (List.range 4) []
def pfLast : Problem := assemble ([m1, m2] ++ exC :: []) (List.range 4) []

/-- the hypotheses of the embedded theorems are satisfiable: the other assets are foreign and have one bound pair per
    variable, the coarse grid has steps, the minor steps increase, and the three points are relaxed-feasible for the
    three portfolio problems (bounds, storage rows, nodal balance at node `a` in all 4 hours) -/
example : Foreign ps.name ([m1] ++ [m2]) ∧ Foreign ps.name ([] ++ [m1, m2]) ∧ Foreign ps.name ([m1, m2] ++ []) ∧
    (∀ b ∈ [m1] ++ [m2], b.l.length = b.n ∧ b.u.length = b.n) ∧
    0 < cg2.grid.T ∧ cg2.minor.flatten.Pairwise (· < ·) ∧ cg2.owner.length = 4 ∧
    offsetOf [m1] = 4 ∧ offsetOf [m1, m2] = 8 ∧ exC.n = 4 ∧
    feasiblePB pfMid xMid = true ∧ feasiblePB pfFirst xFirst = true ∧ feasiblePB pfLast xLast = true ∧
    pfMid.nodal.length = 4 := by decide +kernel

/-- … and the reported columns evaluate, at all three positions, to the physical values per HOUR: charge 1 in hours 0
    and 1 (half of the coarse volume each), discharge 1 (reported negative) in hours 2 and 3, fill level
    `7/4, 5/2, 7/4, 1` = the physical level of the expanded schedule -/
example :
    (List.range 4).map (chargeOut ps pfMid.mapping xMid) = [1, 1, 0, 0] ∧
    (List.range 4).map (dischargeOut ps pfMid.mapping xMid) = [0, 0, -1, -1] ∧
    fillLevelCoarse ps pfMid.mapping cg2 ref4.dt 4 xMid = [7/4, 5/2, 7/4, 1] ∧
    (List.range 4).map (chargeOut ps pfFirst.mapping xFirst) = [1, 1, 0, 0] ∧
    (List.range 4).map (dischargeOut ps pfFirst.mapping xFirst) = [0, 0, -1, -1] ∧
    fillLevelCoarse ps pfFirst.mapping cg2 ref4.dt 4 xFirst = [7/4, 5/2, 7/4, 1] ∧
    (List.range 4).map (chargeOut ps pfLast.mapping xLast) = [1, 1, 0, 0] ∧
    (List.range 4).map (dischargeOut ps pfLast.mapping xLast) = [0, 0, -1, -1] ∧
    fillLevelCoarse ps pfLast.mapping cg2 ref4.dt 4 xLast = [7/4, 5/2, 7/4, 1] ∧
    (List.range 4).map (C05.physLevel ps (minorGrid ref4 cg2) 4 (ex zs)) = [7/4, 5/2, 7/4, 1] ∧
    (List.range 8).map (ex zs) = [-1, -1, 0, 0, 0, 0, 1, 1] := by decide +kernel

/-- `readout_coarse_position_independent` applied: middle versus last position (the solution vectors agree on the
    storage's four variables) -/
example : ∀ Tfull, fillLevelCoarse ps pfMid.mapping cg2 ref4.dt Tfull xMid
    = fillLevelCoarse ps pfLast.mapping cg2 ref4.dt Tfull xLast :=
  (C05C.readout_coarse_position_independent ps cg2 ref4.dt prices4 4 exC exC_ok [m1] [m2] [m1, m2] []
    (List.range 4) (List.range 4) [] [] (by decide +kernel) (by decide +kernel) xMid xLast
    (by
      have h : ∀ j, j < 4 → xMid (offsetOf [m1] + j) = xLast (offsetOf [m1, m2] + j) := by decide +kernel
      intro j hj
      have : exC.n = 4 := by decide +kernel
      exact h j (by omega))).2.2

/-- the slice of the middle solution is the coarse point `zs` on the storage's four variables, so its expansion `ex zs`
    is an expansion of the slice -/
theorem ex_isExpansion : IsExpansion ref4 cg2 (slice (offsetOf [m1]) xMid) (ex zs) := by
  have h : ∀ b, b < 2 → ∀ k, k < 4 →
      ex zs (cg2.owner.length * b + k)
        = slice (offsetOf [m1]) xMid (cg2.grid.T * b + cg2.owner.getD k 0) * (cg2.weights ref4.dt).getD k 0 := by
    decide +kernel
  intro b hb k hk
  have : cg2.owner.length = 4 := by decide +kernel
  exact h b hb k (by omega)

/-- `fill_level_coarse_true_embedded_feasible` and `charge_discharge_coarse_true_feasible` applied to the middle
    position: reported level at the full-grid step of fine step `k` = physical level of the expanded schedule, reported
    charge / discharge = `−xf_in,k` / `−xf_out,k`, for all four fine steps -/
example : ∀ k, k < 4 →
    (fillLevelCoarse ps pfMid.mapping cg2 ref4.dt 4 xMid).getD (cg2.minor.flatten.getD k 0) 0
      = C05.physLevel ps (minorGrid ref4 cg2) (minorGrid ref4 cg2).T (ex zs) k ∧
    chargeOut ps pfMid.mapping xMid (cg2.minor.flatten.getD k 0) = -(ex zs k) ∧
    dischargeOut ps pfMid.mapping xMid (cg2.minor.flatten.getD k 0) = -(ex zs (cg2.owner.length + k)) := by
  intro k hk
  have hlen : cg2.owner.length = 4 := by decide +kernel
  have hf : feasiblePB pfMid xMid = true := by decide +kernel
  have hidx : ∀ k, k < 4 → cg2.minor.flatten.getD k 0 < 4 := by decide +kernel
  have hoth : Foreign ps.name ([m1] ++ [m2]) := by decide +kernel
  have hwfo : ∀ b ∈ [m1] ++ [m2], b.l.length = b.n ∧ b.u.length = b.n := by decide +kernel
  have hinc : cg2.minor.flatten.Pairwise (· < ·) := by decide +kernel
  have hsep : sep ps = true := by decide +kernel
  refine ⟨?_, ?_⟩
  · exact C05C.fill_level_coarse_true_embedded_feasible ps ref4 cg2 prices4 4 4 exC cg2_wf (by decide +kernel) hinc
      exC_ok [m1] [m2] (List.range 4) [] hoth hwfo xMid (ex zs) ex_isExpansion (feasiblePB_ok _ _ hf).1 k
      (by omega) (hidx k hk)
  · exact (C05C.charge_discharge_coarse_true_feasible ps ref4 cg2 prices4 4 exC cg2_wf (by decide +kernel) hinc
      exC_ok [m1] [m2] (List.range 4) [] hoth hwfo xMid (ex zs) ex_isExpansion (feasiblePB_ok _ _ hf).1 k
      (by omega)).2.2.1 hsep

/-- `reported_columns_consistent_coarse` applied to the middle position, and its right-hand side evaluated: the running
    sums `1 + Σ (1/2·charge + discharge + 1/4)` are the reported levels `7/4, 5/2, 7/4, 1` -/
example : (∀ k, k < 4 →
    (fillLevelCoarse ps pfMid.mapping cg2 ref4.dt 4 xMid).getD (cg2.minor.flatten.getD k 0) 0
      = ps.startLevel + sumTo (fun s =>
          ps.effIn * chargeOut ps pfMid.mapping xMid (cg2.minor.flatten.getD s 0)
          + dischargeOut ps pfMid.mapping xMid (cg2.minor.flatten.getD s 0)
          + ps.inflow * ref4.dt.getD (cg2.minor.flatten.getD s 0) 0) (k + 1)) ∧
    (List.range 4).map (fun k => ps.startLevel + sumTo (fun s =>
          ps.effIn * chargeOut ps pfMid.mapping xMid (cg2.minor.flatten.getD s 0)
          + dischargeOut ps pfMid.mapping xMid (cg2.minor.flatten.getD s 0)
          + ps.inflow * ref4.dt.getD (cg2.minor.flatten.getD s 0) 0) (k + 1)) = [7/4, 5/2, 7/4, 1] := by
  refine ⟨fun k hk => ?_, by decide +kernel⟩
  have hlen : cg2.owner.length = 4 := by decide +kernel
  have hidx : ∀ k, k < 4 → cg2.minor.flatten.getD k 0 < 4 := by decide +kernel
  exact C05C.reported_columns_consistent_coarse ps ref4 cg2 prices4 4 4 exC cg2_wf (by decide +kernel)
    (by decide +kernel) exC_ok [m1] [m2] (List.range 4) [] (by decide +kernel) xMid k (by omega) (hidx k hk)

/-- `readout_coarse_embedded_from_grid` applied: the grids are what `Grid.coarsen` makes of the hourly grid along the
    two-hour cuts, so nothing about them is assumed -/
example : ∀ k, k < 4 →
    (fillLevelCoarse ps pfMid.mapping cg2 ref4.dt 4 xMid).getD (cg2.minor.flatten.getD k 0) 0
      = C05.physLevel ps (ref4.restrict 0 14400) (ref4.restrict 0 14400).T (ex zs) k ∧
    chargeOut ps pfMid.mapping xMid (cg2.minor.flatten.getD k 0) = repCharge ps cg2.owner.length (ex zs) k ∧
    dischargeOut ps pfMid.mapping xMid (cg2.minor.flatten.getD k 0) = repDischarge ps cg2.owner.length (ex zs) k := by
  intro k hk
  have hlen : cg2.owner.length = 4 := by decide +kernel
  have hf : feasiblePB pfMid xMid = true := by decide +kernel
  have hidx : ∀ k, k < 4 → cg2.minor.flatten.getD k 0 < 4 := by decide +kernel
  exact C05C.readout_coarse_embedded_from_grid ps ref4 cuts2 cg2 0 14400 ref4_top (by decide +kernel)
    (by decide +kernel) rfl rfl (by decide +kernel) prices4 4 4 exC exC_ok [m1] [m2] (List.range 4) []
    (by decide +kernel) (by decide +kernel) xMid (ex zs) ex_isExpansion (feasiblePB_ok _ _ hf).1 k (by omega)
    (hidx k hk)

end EAO.C05C.Ex
