import EAO.Model.CostsOnly
import EAO.Lemmas.CostsOnly
import EAO.Lemmas.Contract
import EAO.Properties.C17
/-!
# C17 — `costs_only=True` and `Portfolio.create_cost_samples`

Property theorems only; helper lemmas live in `EAO/Lemmas/CostsOnly.lean`.

The stochastic program and the robust target of C17 take cost vectors "produced by `create_cost_samples`" as an input and
assume that they fit the problem (`C17.SamplesFit`) and are the cost vectors of the problem under other prices.  This file
proves that from the models of the builders:

* per builder (`costs_only_is_cost_…`): when the set-up succeeds with problem `a`, the cost-only branch succeeds with `a.c`;
  for the transports and the order book the two are EQUAL as values of the error monad; for the simple contract and the
  storage the error side is stated exactly (`…_error_side`, `setup_error_shared_…`): the cost-only branch can succeed where
  the set-up fails — only with the IndexError of a missing node / block structure or the NaN assertion on capacities;
* for whole asset descriptions (`CSpec`: wrappers around wrappers) `costs_only_is_cost`, with the two hypotheses that are
  NEEDED: no periodic asset whose cost-only branch is reached (`periodic_unmerged`, `periodic_witness`: finding F-17e) and
  bases of scaled assets with as many bounds as costs (`scaled_len_witness`);
* `portfolio_costs_only_is_cost`, `portfolio_costs_blocks`, `cost_samples_are_problem_costs`: the i-th sample is the cost
  vector of the assembled portfolio problem under the i-th prices, block by block;
* `cost_samples_fit`: the hypothesis `SamplesFit` of `C17.makeSlp_ok_iff` / `slp_structure` / `slp_value_mean`, under the
  hypothesis that is needed (the number of variables does not change with the sample: `zero_aux_witness`, finding F-17m);
  `shape_price_free_…`: for which builders that is automatic.
-/
namespace EAO.C17C
open EAO EAO.CostsOnly

/-! ## (1) contracts -/

/-- **costs_only_is_cost_simple.**  `SimpleContract`: whenever the set-up succeeds, the cost-only branch returns exactly the
    cost vector of the problem (one- and two-variable form, any window, any parameter form). -/
theorem costs_only_is_cost_simple {p : ContractP} {g : Grid} {prices : Prices} {fullT : Nat} {a : AssetProblem}
    (h : buildSimpleContract p g prices fullT = .ok a) : costsOnlySimpleContract p g prices fullT = .ok a.c :=
  simple_cost h

/-- **costs_only_simple_error_side.**  When the cost-only branch returns a vector, the set-up returns a problem with that
    cost vector, or fails with the IndexError of an asset without node, or with the NaN assertion of `OptimProblem.__init__`
    (a capacity given as interval data with gaps).  Nothing else. -/
theorem costs_only_simple_error_side {p : ContractP} {g : Grid} {prices : Prices} {fullT : Nat} {c : List Rat}
    (h : costsOnlySimpleContract p g prices fullT = .ok c) :
    (∃ a, buildSimpleContract p g prices fullT = .ok a ∧ a.c = c) ∨
      buildSimpleContract p g prices fullT = .error .index ∨ buildSimpleContract p g prices fullT = .error .nanInput := by
  rcases simple_vs_cost p g prices fullT with ⟨e, _, he⟩ | ⟨c', hc', hcase⟩
  · rw [h] at he; cases he
  · rw [h] at hc'; cases hc'; exact hcase

/-- every other error of the set-up is raised by the cost-only branch too, with the same class -/
theorem setup_error_shared_simple {p : ContractP} {g : Grid} {prices : Prices} {fullT : Nat} {e : BuildError}
    (h : buildSimpleContract p g prices fullT = .error e) (h1 : e ≠ .index) (h2 : e ≠ .nanInput) :
    costsOnlySimpleContract p g prices fullT = .error e := by
  rcases simple_vs_cost p g prices fullT with ⟨e', he', hc⟩ | ⟨c', _, ⟨a, ha, _⟩ | he | he⟩
  · rw [h] at he'; cases he'; exact hc
  · rw [h] at ha; cases ha
  · rw [h] at he; cases he; exact absurd rfl h1
  · rw [h] at he; cases he; exact absurd rfl h2

/-- the cost-only branch really succeeds where the set-up fails: a contract whose maximum capacity has a gap -/
example :
    let p : ContractP := { name := "c", nodes := ["n"], price := some "p", extraCosts := .scalar 0, minCap := .scalar 0,
                           maxCap := .intervals [{ start := 0, stop := some 3600, value := 1 }], minTake := [], maxTake := [] }
    let g : Grid := { pts := [0, 3600], idx := [0, 1], dt := [1, 1], Dt := [1, 2], df := [1, 1] }
    costsOnlySimpleContract p g [("p", [5, 7])] 2 = .ok [5, 7] ∧
      (buildSimpleContract p g [("p", [5, 7])] 2).map (·.c) = .error .nanInput := by
  decide +kernel

theorem costs_only_is_cost_contract {p : ContractP} {g : Grid} {prices : Prices} {fullT u : Nat} {a : AssetProblem}
    (h : buildContract p g prices fullT u = .ok a) : costsOnlyContract p g prices fullT = .ok a.c :=
  contract_cost h

theorem costs_only_is_cost_multi {p : ContractP} {f : List Rat} {g : Grid} {prices : Prices} {fullT u : Nat}
    {a : AssetProblem} (h : buildMulti p f g prices fullT u = .ok a) : costsOnlyMulti p f g prices fullT = .ok a.c :=
  multi_cost h

/-- non-vacuity: a two-variable contract with a maximum take -/
example :
    let p : ContractP := { name := "c", nodes := ["n"], price := some "p", extraCosts := .scalar 1, minCap := .scalar (-2),
                           maxCap := .scalar 3, minTake := [], maxTake := [(0, 7200, 4)] }
    let g : Grid := { pts := [0, 3600], idx := [0, 1], dt := [1, 1], Dt := [1, 2], df := [1, 1/2] }
    (buildContract p g [("p", [5, 7])] 2 3600).map (·.c) = .ok [4, 3, 6, 4] ∧
      costsOnlyContract p g [("p", [5, 7])] 2 = .ok [4, 3, 6, 4] := by
  decide +kernel

/-! ## (2) transports: nothing that can fail is skipped -/

/-- **costs_only_transport_eq.**  `Transport`: the cost-only branch IS the set-up followed by `.c`: same vector, same error. -/
theorem costs_only_transport_eq (p : TransportP) (g : Grid) (prices : Prices) (fullT : Nat) :
    costsOnlyTransport p g prices fullT = (buildTransport p g prices fullT).map (·.c) :=
  costsOnlyTransport_eq p g prices fullT

theorem costs_only_ext_transport_eq (p : TransportP) (g : Grid) (prices : Prices) (fullT u : Nat) :
    costsOnlyExtTransport p g prices fullT = (buildExtTransport p g prices fullT u).map (·.c) :=
  costsOnlyExtTransport_eq p g prices fullT u

example :
    let p : TransportP := { name := "t", nodes := ["a", "b"], costsConst := 1, costsKey := some "tc", minCap := 0, maxCap := 2,
                            efficiency := 1/2, minTake := [], maxTake := [] }
    let g : Grid := { pts := [0, 3600], idx := [0, 1], dt := [1, 1], Dt := [1, 2], df := [1, 1/2] }
    costsOnlyTransport p g [("tc", [2, 3])] 2 = .ok [3, 2] := by
  decide +kernel

/-! ## (3) coarse asset frequency -/

theorem costs_only_is_cost_coarse_simple {p : ContractP} {cg : CoarseGrid} {dtFine : List Rat} {prices : Prices}
    {fullT : Nat} {a : AssetProblem} (h : buildCoarseSimpleContract p cg dtFine prices fullT = .ok a) :
    costsOnlyCoarseSimpleContract p cg prices fullT = .ok a.c :=
  coarse_simple_cost h

theorem costs_only_is_cost_coarse_transport {p : TransportP} {cg : CoarseGrid} {dtFine : List Rat} {prices : Prices}
    {fullT : Nat} {a : AssetProblem} (h : buildCoarseTransport p cg dtFine prices fullT = .ok a) :
    costsOnlyCoarseTransport p cg prices fullT = .ok a.c :=
  coarse_transport_cost h

/-- a contract on two-step blocks: the price of a block is the plain mean of its two steps -/
example :
    let p : ContractP := { name := "c", nodes := ["n"], price := some "p", extraCosts := .scalar 0, minCap := .scalar (-1),
                           maxCap := .scalar 1, minTake := [], maxTake := [] }
    let cg : CoarseGrid := { grid := { pts := [0, 7200], idx := [0, 2], dt := [2, 2], Dt := [1, 3], df := [1, 1] },
                             minor := [[0, 1], [2, 3]] }
    costsOnlyCoarseSimpleContract p cg [("p", [1, 3, 5, 9])] 4 = .ok [2, 7] := by
  decide +kernel

/-! ## (4) storage, order book -/

/-- **costs_only_is_cost_storage.**  One- and two-variable form, storage costs, booleans of the no-simultaneous option and
    of the maximum holding duration (cost 0), blocks, empty window. -/
theorem costs_only_is_cost_storage {p : StorageP} {g : Grid} {T : Nat} {prices : Prices} {a : AssetProblem}
    (h : mkStorage p g T prices = .ok a) : mkCostsOnlyStorage p g T prices = .ok a.c :=
  mk_storage_cost h

/-- the error side of the storage (after the constructor's guards) -/
theorem costs_only_storage_error_side {p : StorageP} {g : Grid} {T : Nat} {prices : Prices} {c : List Rat}
    (h : costsOnlyStorage p g T prices = .ok c) :
    (∃ a, buildStorage p g T prices = .ok a ∧ a.c = c) ∨
      buildStorage p g T prices = .error .index ∨ buildStorage p g T prices = .error .nanInput := by
  rcases storage_vs_cost p g T prices with ⟨e, _, he⟩ | ⟨c', hc', hcase⟩
  · rw [h] at he; cases he
  · rw [h] at hc'; cases hc'; exact hcase

theorem setup_error_shared_storage {p : StorageP} {g : Grid} {T : Nat} {prices : Prices} {e : BuildError}
    (h : buildStorage p g T prices = .error e) (h1 : e ≠ .index) (h2 : e ≠ .nanInput) :
    costsOnlyStorage p g T prices = .error e := by
  rcases storage_vs_cost p g T prices with ⟨e', he', hc⟩ | ⟨c', _, ⟨a, ha, _⟩ | he | he⟩
  · rw [h] at he'; cases he'; exact hc
  · rw [h] at ha; cases ha
  · rw [h] at he; cases he; exact absurd rfl h1
  · rw [h] at he; cases he; exact absurd rfl h2

/-- **costs_only_is_cost_orderbook.**  The order book's cost-only branch is its set-up followed by `.c` (a NaN capacity or
    price: the code returns a vector holding NaN; both sides answer `nanInput` here). -/
theorem costs_only_is_cost_orderbook (name node : String) (starts stops : List Int) (capas prices : List (Option Rat))
    (fullExec : Bool) (g : Grid) :
    costsOnlyOrderBookRaw starts stops capas prices g
      = (buildOrderBookRaw name node starts stops capas prices fullExec g).map (·.c) :=
  costsOnlyOrderBookRaw_eq name node starts stops capas prices fullExec g

/-! ## (5) CHP, plant, minimum-load costs -/

/-- **costs_only_is_cost_chp.**  `CHPAsset` / `Plant` with or without ramp profiles on top of the problem `base` of the
    parent contract: the cost-only branch, which only sees the parent's bare cost vector, returns `c` of the problem. -/
theorem costs_only_is_cost_chp {p : CHPP} {q : CHPProfP} {base : AssetProblem} {g : Grid} {prices : Prices} {u s : Nat}
    {a : AssetProblem} (h : buildCHPAny p q base g prices u s = .ok a) :
    costsOnlyCHPFrom p q base.c g prices u s = .ok a.c :=
  chp_any_cost h

theorem costs_only_is_cost_minload {m : MinLoadP} {a : AssetProblem} {g : Grid} {prices : Prices} {b : AssetProblem}
    (h : buildMinLoad m a g prices = .ok b) : costsOnlyMinLoad m a.c g prices = .ok b.c :=
  minload_cost h

/-- the whole chain Contract → CHPAsset / Plant → minimum-load costs -/
theorem costs_only_is_cost_chp_asset {p : CHPP} {q : CHPProfP} {ml : Option MinLoadP} {cp : ContractP} {g : Grid}
    {prices : Prices} {fullT u s : Nat} {a : AssetProblem} (h : buildCHPAsset p q ml cp g prices fullT u s = .ok a) :
    costsOnlyCHPAsset p q ml cp g prices fullT u s = .ok a.c :=
  chp_asset_cost h

namespace Ex
def g : Grid := { pts := [0, 3600], idx := [0, 1], dt := [1, 1], Dt := [1, 2], df := [1, 1] }
def cp : ContractP :=
  { name := "chp", nodes := ["el", "heat"], price := some "p", extraCosts := .scalar 0, minCap := .scalar 1, maxCap := .scalar 4,
    minTake := [], maxTake := [] }
def p : CHPP :=
  { name := "chp", nodes := ["el", "heat"], noHeat := false, minCap := .scalar 1, convFactor := .scalar (1/2),
    maxShareHeat := none, ramp := none, startCosts := .scalar 3, runningCosts := .scalar 2, minRuntime := 0,
    timeAlreadyRunning := 0, minDowntime := 0, timeAlreadyOff := 0, lastDispatch := 0, startFuel := .scalar 0,
    fuelEfficiency := .scalar 1, consumptionIfOn := .scalar 0, freqMismatch := false }
def ml : MinLoadP := { threshold := some (.scalar 2), costs := some (.scalar 7) }
end Ex

/-- non-vacuity: power, heat, on, start and threshold blocks -/
example :
    (buildCHPAsset Ex.p default (some Ex.ml) Ex.cp Ex.g [("p", [10, 20])] 2 3600 3600).map (·.c)
        = .ok [10, 20, 5, 10, 2, 2, 3, 3, 7, 7] ∧
      costsOnlyCHPAsset Ex.p default (some Ex.ml) Ex.cp Ex.g [("p", [10, 20])] 2 3600 3600
        = .ok [10, 20, 5, 10, 2, 2, 3, 3, 7, 7] := by
  decide +kernel

/-! ## (6) wrappers -/

/-- **costs_only_is_cost_scaled.**  The scaled asset appends `fix_costs · duration` to the base's vector; a base without
    variables stays as it is.  Hypothesis `hlen`: the code tests `len(op.l)` in the full branch and `len(op)` (the vector) in
    the cost-only branch. -/
theorem costs_only_is_cost_scaled (p : ScaledP) (base : AssetProblem) (dtSum : Rat)
    (hlen : base.l.length = base.c.length) : (buildScaled p base dtSum).c = costsOnlyScaled p base.c dtSum :=
  scaled_cost p base dtSum hlen

/-- the hypothesis is needed (no builder of eaopack returns such a problem) -/
theorem scaled_len_witness :
    let base : AssetProblem := { name := "b", nodes := ["n"], c := [1], l := [], u := [], rows := [], mapping := [] }
    let p : ScaledP := { name := "s", node0 := "n", minScale := 0, maxScale := 1, normScale := 1, fixCosts := 5 }
    (buildScaled p base 2).c = [1] ∧ costsOnlyScaled p base.c 2 = [1, 10] := by
  decide +kernel

/-- **costs_only_is_cost_structured.**  The structured asset sets up the wrapped portfolio in full also in the cost-only
    branch: its vector is the concatenation of the cost vectors of the wrapped PROBLEMS. -/
theorem costs_only_is_cost_structured (name : String) (ext : List String) (inner : List AssetProblem) (gridI : List Nat) :
    costsOnlyStructured name ext inner gridI = (structured name ext inner gridI).c ∧
      costsOnlyStructured name ext inner gridI = (inner.map (·.c)).flatten :=
  ⟨rfl, structured_c name ext inner gridI⟩

/-- **costs_only_is_cost_linked.**  The linking rows carry no costs. -/
theorem costs_only_is_cost_linked {name : String} {ext : List String} {inner : List AssetProblem} {gridI : List Nat}
    {lp : LinkP} {u s T : Nat} {aCols : Option Nat} {a : AssetProblem}
    (h : linkedAsset name ext inner gridI lp u s T aCols = .ok a) :
    linkedCostsOnly (structured name ext inner gridI) = a.c :=
  (linked_c h).1.symm

/-! ## (7) whole asset descriptions -/

/-- every base of a scaled asset comes with as many bounds as costs (true for every builder of eaopack; see
    `scaled_len_witness` for why it is a hypothesis) -/
def BasesWF : CSpec → Prices → Prop
  | .scaled _ b _, pr => (∀ base, b.build pr = .ok base → base.l.length = base.c.length) ∧ BasesWF b pr
  | _, _ => True

/-- **costs_only_is_cost.**  For every asset description — contracts, transports, storage, order book, CHP chain, coarse
    frequency, scaled / structured / linked wrappers around any of them — without a periodic asset whose cost-only branch is
    reached: if the set-up returns problem `a`, the cost-only branch returns `a.c`. -/
theorem costs_only_is_cost : (s : CSpec) → (pr : Prices) → s.periodicFree = true → BasesWF s pr →
    (a : AssetProblem) → s.build pr = .ok a → s.costsOnly pr = .ok a.c
  | .simple p g fullT, pr, _, _, a, h => by
    rw [CSpec.build] at h; rw [CSpec.costsOnly]; exact simple_cost h
  | .contract p g fullT u, pr, _, _, a, h => by
    rw [CSpec.build] at h; rw [CSpec.costsOnly]; exact contract_cost h
  | .multi p f g fullT u, pr, _, _, a, h => by
    rw [CSpec.build] at h; rw [CSpec.costsOnly]; exact multi_cost h
  | .transport p g fullT, pr, _, _, a, h => by
    rw [CSpec.build] at h; rw [CSpec.costsOnly, costsOnlyTransport_eq, h]; rfl
  | .extTransport p g fullT u, pr, _, _, a, h => by
    rw [CSpec.build] at h; rw [CSpec.costsOnly, costsOnlyExtTransport_eq p g pr fullT u, h]; rfl
  | .coarseSimple p cg dtFine fullT, pr, _, _, a, h => by
    rw [CSpec.build] at h; rw [CSpec.costsOnly]; exact coarse_simple_cost h
  | .coarseTransport p cg dtFine fullT, pr, _, _, a, h => by
    rw [CSpec.build] at h; rw [CSpec.costsOnly]; exact coarse_transport_cost h
  | .storage p g T, pr, _, _, a, h => by
    rw [CSpec.build] at h; rw [CSpec.costsOnly]; exact mk_storage_cost h
  | .orderBook name node starts stops capas prices fullExec g, pr, _, _, a, h => by
    rw [CSpec.build] at h; rw [CSpec.costsOnly, costsOnlyOrderBookRaw_eq name node starts stops capas prices fullExec g, h]; rfl
  | .chp p q ml cp g fullT u s, pr, _, _, a, h => by
    rw [CSpec.build] at h; rw [CSpec.costsOnly]; exact chp_asset_cost h
  | .scaled p b dtSum, pr, hpf, hwf, a, h => by
    rw [CSpec.build] at h
    rw [CSpec.costsOnly]
    by_cases hc : p.ctorOk = true
    · simp only [hc, Bool.not_true, Bool.false_eq_true, if_false] at h ⊢
      obtain ⟨base, hb, h⟩ := bind_eq_ok h
      have hwf' : (∀ base, b.build pr = .ok base → base.l.length = base.c.length) ∧ BasesWF b pr := by
        simpa [BasesWF] using hwf
      have ih := costs_only_is_cost b pr (by simpa [CSpec.periodicFree] using hpf) hwf'.2 base hb
      rw [ih, bind_ok]
      simp only [pure, Except.pure, Except.ok.injEq] at h ⊢
      subst h
      exact (scaled_cost p base dtSum (hwf'.1 base hb)).symm
    · simp only [hc, Bool.not_false, if_true] at h
      simp [throw, throwThe, MonadExceptOf.throw, bind, Except.bind] at h
  | .structured name ext inner gridI, pr, _, _, a, h => by
    rw [CSpec.build] at h
    rw [CSpec.costsOnly]
    obtain ⟨as, has, h⟩ := bind_eq_ok h
    rw [has, bind_ok]
    simp only [pure, Except.pure, Except.ok.injEq] at h ⊢
    subst h; rfl
  | .linked name ext inner gridI lp u s T aCols, pr, _, _, a, h => by
    rw [CSpec.build] at h
    rw [CSpec.costsOnly]
    obtain ⟨as, has, h⟩ := bind_eq_ok h
    rw [has, bind_ok]
    simp only [pure, Except.pure, Except.ok.injEq]
    exact (linked_c (liftLink_ok h)).1.symm
  | .periodic s labels, pr, hpf, _, a, h => by
    simp [CSpec.periodicFree] at hpf

/-- hence a failing cost-only branch means a failing set-up -/
theorem costs_only_fails_only_if_build_fails (s : CSpec) (pr : Prices) (hpf : s.periodicFree = true) (hwf : BasesWF s pr)
    (e : BuildError) (h : s.costsOnly pr = .error e) : ∃ e', s.build pr = .error e' := by
  cases hb : s.build pr with
  | error e' => exact ⟨e', rfl⟩
  | ok a => rw [costs_only_is_cost s pr hpf hwf a hb] at h; cases h

/-! ### periodic assets: finding F-17e -/

/-- **periodic_unmerged.**  A periodic asset: the cost-only branch returns the vector of the problem BEFORE
    `__make_periodic__` merged the variables of equal position in every period. -/
theorem periodic_unmerged (s : CSpec) (labels : List (Nat × Nat × Nat)) (pr : Prices) (hpf : s.periodicFree = true)
    (hwf : BasesWF s pr) (a : AssetProblem) (h : (CSpec.periodic s labels).build pr = .ok a) :
    ∃ a0, s.build pr = .ok a0 ∧ makePeriodic a0 labels = .ok a ∧ (CSpec.periodic s labels).costsOnly pr = .ok a0.c := by
  rw [CSpec.build] at h
  obtain ⟨a0, h0, h⟩ := bind_eq_ok h
  refine ⟨a0, h0, liftPeriodic_ok h, ?_⟩
  rw [CSpec.costsOnly]
  exact costs_only_is_cost s pr hpf hwf a0 h0

namespace ExP
def g4 : Grid := { pts := [0, 3600, 7200, 10800], idx := [0, 1, 2, 3], dt := [1, 1, 1, 1], Dt := [1, 2, 3, 4], df := [1, 1, 1, 1] }
def sto : StorageP :=
  { name := "sp", nodes := ["n1"], size := 4, capIn := 2, capOut := 2, startLevel := 0, endLevel := 0, costIn := 0, costOut := 0,
    costStore := 0, effIn := 1, inflow := 0, price := some "p", noSimult := false, maxStoreDuration := none, blocks := none }
def labels : List (Nat × Nat × Nat) := [(1, 1, 0), (1, 1, 1), (1, 2, 0), (1, 2, 1)]
def spec : CSpec := .periodic (.storage sto g4 4) labels
end ExP

/-- **periodic_witness** (finding F-17e, machine checked).  `Storage('sp', size=4, cap_in=2, cap_out=2, periodicity='2h')` on
    four hourly steps: the problem has 2 variables (cost −4, −6), the cost-only vector 4 entries.  The hypothesis
    `periodicFree` of `costs_only_is_cost` cannot be dropped. -/
theorem periodic_witness :
    (ExP.spec.build [("p", [1, 2, 3, 4])]).map (·.c) = .ok [-4, -6] ∧
      ExP.spec.costsOnly [("p", [1, 2, 3, 4])] = .ok [-1, -2, -3, -4] := by
  decide +kernel

/-- inside a structured asset the same periodic storage is set up in full: the cost-only vector is the merged one -/
example :
    (CSpec.structured "sa" ["n1"] [ExP.spec] [0, 1, 2, 3]).costsOnly [("p", [1, 2, 3, 4])] = .ok [-4, -6] := by
  decide +kernel

/-! ## (8) portfolio and cost samples -/

/-- **portfolio_costs_only_is_cost.**  `Portfolio.setup_optim_problem(costs_only=True)` returns the cost vector of the
    assembled portfolio problem. -/
theorem portfolio_costs_only_is_cost (specs : List CSpec) (gridI : List Nat) (skip : List String) (pr : Prices)
    (hpf : ∀ s ∈ specs, s.periodicFree = true ∧ BasesWF s pr) (P : Problem)
    (h : portfolioProblem specs gridI skip pr = .ok P) : portfolioCostsOnly specs pr = .ok P.c := by
  unfold portfolioProblem at h
  obtain ⟨as, has, h⟩ := bind_eq_ok h
  simp only [pure, Except.pure, Except.ok.injEq] at h
  subst h
  unfold portfolioCostsOnly
  rw [assetCostVectors_of_build has (fun s hs a ha => costs_only_is_cost s pr (hpf s hs).1 (hpf s hs).2 a ha), bind_ok,
    assemble_c]
  rfl

/-- **portfolio_costs_blocks.**  Its block for the asset at position `pre.length` starts at the offset of that asset in the
    assembled problem (the numbers of variables of the assets before it) and is that asset's own cost-only vector. -/
theorem portfolio_costs_blocks (pre : List CSpec) (s : CSpec) (suf : List CSpec) (pr : Prices) (c : List Rat)
    (h : portfolioCostsOnly (pre ++ s :: suf) pr = .ok c) :
    ∃ cpre ck, assetCostVectors pre pr = .ok cpre ∧ s.costsOnly pr = .ok ck ∧
      (c.drop (cpre.map List.length).sum).take ck.length = ck := by
  unfold portfolioCostsOnly at h
  obtain ⟨cs, hcs, h⟩ := bind_eq_ok h
  simp only [pure, Except.pure, Except.ok.injEq] at h
  subst h
  obtain ⟨cpre, ck, csuf, hpre, hk, rfl⟩ := assetCostVectors_append hcs
  exact ⟨cpre, ck, hpre, hk, flatten_block cpre ck csuf⟩

/-- **cost_samples_are_problem_costs.**  `create_cost_samples`: the i-th vector is the cost vector of the portfolio problem
    set up with the i-th price sample (`prob pr` = that problem). -/
theorem cost_samples_are_problem_costs (specs : List CSpec) (gridI : List Nat) (skip : List String)
    (samples : List Prices) (prob : Prices → Problem)
    (hpf : ∀ pr ∈ samples, ∀ s ∈ specs, s.periodicFree = true ∧ BasesWF s pr)
    (h : ∀ pr ∈ samples, portfolioProblem specs gridI skip pr = .ok (prob pr)) :
    createCostSamples specs samples = .ok (samples.map fun pr => (prob pr).c) := by
  induction samples with
  | nil => rfl
  | cons pr rest ih =>
    unfold createCostSamples
    rw [portfolio_costs_only_is_cost specs gridI skip pr (hpf pr List.mem_cons_self) (prob pr) (h pr List.mem_cons_self),
      bind_ok, ih (fun q hq => hpf q (List.mem_cons_of_mem _ hq)) (fun q hq => h q (List.mem_cons_of_mem _ hq)), bind_ok]
    rfl

/-- **cost_samples_fit.**  The vectors of `create_cost_samples` satisfy the hypothesis `SamplesFit` of the C17 theorems
    (`makeSlp_ok_iff`, `slp_structure`, `slp_value_mean`) for the problem set up with the reference prices `pr0`, PROVIDED the
    number of variables of the portfolio problem is the same under every sample — see `zero_aux_witness` for a portfolio
    where it is not (finding F-17m) and `shape_price_free_…` for builders where it always is. -/
theorem cost_samples_fit (specs : List CSpec) (gridI : List Nat) (skip : List String) (pr0 : Prices)
    (samples : List Prices) (prob : Prices → Problem)
    (hpf : ∀ pr ∈ samples, ∀ s ∈ specs, s.periodicFree = true ∧ BasesWF s pr)
    (h : ∀ pr ∈ samples, portfolioProblem specs gridI skip pr = .ok (prob pr))
    (hshape : ∀ pr ∈ samples, (prob pr).n = (prob pr0).n)
    (cs : List (List Rat)) (hcs : createCostSamples specs samples = .ok cs) :
    EAO.C17.SamplesFit (prob pr0) cs := by
  rw [cost_samples_are_problem_costs specs gridI skip samples prob hpf h] at hcs
  cases hcs
  intro c hc
  obtain ⟨pr, hpr, rfl⟩ := List.mem_map.mp hc
  exact hshape pr hpr

/-! ## (9) the hypothesis `BasesWF` is automatic for the LP builders -/

mutual
/-- every grid handed to a contract / transport builder has its per-step lists as long as its point list (what
    `Timegrid` makes), and no CHP asset or coarse-frequency asset occurs (their problems are not covered by the length
    argument below; for them `BasesWF` stays a hypothesis) -/
def GridsOk : CSpec → Prop
  | .simple _ g _ => g.Ok
  | .contract _ g _ _ => g.Ok
  | .multi _ _ g _ _ => g.Ok
  | .transport _ g _ => g.Ok
  | .extTransport _ g _ _ => g.Ok
  | .coarseSimple _ _ _ _ => False
  | .coarseTransport _ _ _ _ => False
  | .storage _ _ _ => True
  | .orderBook _ _ _ _ _ _ _ _ => True
  | .chp _ _ _ _ _ _ _ _ => False
  | .scaled _ b _ => GridsOk b
  | .structured _ _ inner _ => GridsOkAll inner
  | .linked _ _ inner _ _ _ _ _ _ => GridsOkAll inner
  | .periodic s _ => GridsOk s
def GridsOkAll : List CSpec → Prop
  | [] => True
  | s :: ss => GridsOk s ∧ GridsOkAll ss
end

mutual
/-- every problem these descriptions build has as many bounds as costs -/
theorem build_len : (s : CSpec) → (pr : Prices) → GridsOk s → (a : AssetProblem) → s.build pr = .ok a →
    a.l.length = a.c.length
  | .simple p g fullT, pr, hg, a, h => by
    rw [CSpec.build] at h; rw [GridsOk] at hg; exact (simpleContract_wf hg h).l_len
  | .contract p g fullT u, pr, hg, a, h => by
    rw [CSpec.build] at h; rw [GridsOk] at hg; exact (contract_wf' hg h).l_len
  | .multi p f g fullT u, pr, hg, a, h => by
    rw [CSpec.build] at h; rw [GridsOk] at hg; exact (multi_wf' hg h).l_len
  | .transport p g fullT, pr, hg, a, h => by
    rw [CSpec.build] at h; rw [GridsOk] at hg; exact (transport_wf' hg h).l_len
  | .extTransport p g fullT u, pr, hg, a, h => by
    rw [CSpec.build] at h; rw [GridsOk] at hg; exact (extTransport_wf' hg h).l_len
  | .coarseSimple _ _ _ _, pr, hg, a, h => by rw [GridsOk] at hg; exact hg.elim
  | .coarseTransport _ _ _ _, pr, hg, a, h => by rw [GridsOk] at hg; exact hg.elim
  | .storage p g T, pr, _, a, h => by rw [CSpec.build] at h; exact storage_len h
  | .orderBook name node starts stops capas prices fullExec g, pr, _, a, h => by
    rw [CSpec.build] at h; exact orderBookRaw_len h
  | .chp _ _ _ _ _ _ _ _, pr, hg, a, h => by rw [GridsOk] at hg; exact hg.elim
  | .scaled p b dtSum, pr, hg, a, h => by
    rw [CSpec.build] at h
    rw [GridsOk] at hg
    split at h
    · exact absurd (bind_eq_ok h).choose_spec.1 throw_ne_ok
    · obtain ⟨base, hb, h⟩ := bind_eq_ok h
      simp only [pure, Except.pure, Except.ok.injEq] at h
      subst h
      exact scaled_len p base dtSum (build_len b pr hg base hb)
  | .structured name ext inner gridI, pr, hg, a, h => by
    rw [CSpec.build] at h
    rw [GridsOk] at hg
    obtain ⟨as, has, h⟩ := bind_eq_ok h
    simp only [pure, Except.pure, Except.ok.injEq] at h
    subst h
    rw [structured_l, structured_c]
    exact sum_lengths_eq (buildAll_len inner pr hg as has)
  | .linked name ext inner gridI lp u s T aCols, pr, hg, a, h => by
    rw [CSpec.build] at h
    rw [GridsOk] at hg
    obtain ⟨as, has, h⟩ := bind_eq_ok h
    obtain ⟨hc, hl⟩ := linked_c (liftLink_ok h)
    rw [hc, hl, structured_l, structured_c]
    exact sum_lengths_eq (buildAll_len inner pr hg as has)
  | .periodic s labels, pr, hg, a, h => by
    rw [CSpec.build] at h
    obtain ⟨a0, _, h⟩ := bind_eq_ok h
    exact makePeriodic_len (liftPeriodic_ok h)
theorem buildAll_len : (ss : List CSpec) → (pr : Prices) → GridsOkAll ss → (as : List AssetProblem) →
    CSpec.buildAll ss pr = .ok as → ∀ a ∈ as, a.l.length = a.c.length
  | [], pr, _, as, h => by
    rw [buildAll_nil] at h; cases h; intro a ha; cases ha
  | s :: ss, pr, hg, as, h => by
    rw [GridsOkAll] at hg
    obtain ⟨a, rest, ha, hr, rfl⟩ := buildAll_cons_ok h
    intro b hb
    rcases List.mem_cons.mp hb with rfl | hb
    · exact build_len s pr hg.1 _ ha
    · exact buildAll_len ss pr hg.2 rest hr b hb
end

/-- **basesWF_of_gridsOk.**  For descriptions made of contracts, transports, storages, order books and wrappers around them
    the hypothesis `BasesWF` of `costs_only_is_cost` holds. -/
theorem basesWF_of_gridsOk : (s : CSpec) → (pr : Prices) → GridsOk s → BasesWF s pr
  | .scaled p b dtSum, pr, hg => by
    rw [GridsOk] at hg
    rw [BasesWF]
    exact ⟨fun base hb => build_len b pr hg base hb, basesWF_of_gridsOk b pr hg⟩
  | .simple _ _ _, _, _ => by simp [BasesWF]
  | .contract _ _ _ _, _, _ => by simp [BasesWF]
  | .multi _ _ _ _ _, _, _ => by simp [BasesWF]
  | .transport _ _ _, _, _ => by simp [BasesWF]
  | .extTransport _ _ _ _, _, _ => by simp [BasesWF]
  | .coarseSimple _ _ _ _, _, _ => by simp [BasesWF]
  | .coarseTransport _ _ _ _, _, _ => by simp [BasesWF]
  | .storage _ _ _, _, _ => by simp [BasesWF]
  | .orderBook _ _ _ _ _ _ _ _, _, _ => by simp [BasesWF]
  | .chp _ _ _ _ _ _ _ _, _, _ => by simp [BasesWF]
  | .structured _ _ _ _, _, _ => by simp [BasesWF]
  | .linked _ _ _ _ _ _ _ _ _, _, _ => by simp [BasesWF]
  | .periodic _ _, _, _ => by simp [BasesWF]

/-- **costs_only_is_cost_lp.**  The same without the hypothesis on bases: descriptions made of contracts, transports,
    storages, order books and scaled / structured / linked wrappers around them, on grids as `Timegrid` makes them. -/
theorem costs_only_is_cost_lp (s : CSpec) (pr : Prices) (hpf : s.periodicFree = true) (hg : GridsOk s)
    (a : AssetProblem) (h : s.build pr = .ok a) : s.costsOnly pr = .ok a.c :=
  costs_only_is_cost s pr hpf (basesWF_of_gridsOk s pr hg) a h

/-- non-vacuity: a scaled asset over a structured asset holding a transport, a storage and an order book -/
example :
    let g : Grid := { pts := [0, 3600], idx := [0, 1], dt := [1, 1], Dt := [1, 2], df := [1, 1] }
    let tr : TransportP := { name := "t", nodes := ["i", "n"], costsConst := 1, costsKey := none, minCap := 0, maxCap := 2,
                             efficiency := 1, minTake := [], maxTake := [] }
    let sto : StorageP := { name := "s", nodes := ["i"], size := 4, capIn := 2, capOut := 2, startLevel := 0, endLevel := 0,
                            costIn := 0, costOut := 0, costStore := 0, effIn := 1, inflow := 0, price := some "p", noSimult := false,
                            maxStoreDuration := none, blocks := none }
    let s : CSpec := .scaled { name := "sc", node0 := "n", minScale := 0, maxScale := 2, normScale := 1, fixCosts := 3 }
      (.structured "sa" ["n"] [.transport tr g 2, .storage sto g 2, .orderBook "ob" "i" [0] [7200] [some 2] [some 5] false g] [0, 1]) 2
    (s.build [("p", [1, 2])]).map (·.c) = .ok [1, 1, -1, -2, 20, 6] ∧ s.costsOnly [("p", [1, 2])] = .ok [1, 1, -1, -2, 20, 6] := by
  decide +kernel

/-! ## (10) when does the number of variables depend on the prices?  (finding F-17m) -/

/-- **shape_price_free** (simple contract).  No capacity and no extra-cost parameter given as a key into the price data: the
    number of variables is the same under all prices. -/
theorem shape_price_free_simple {p : ContractP} {g : Grid} {pr pr' : Prices} {fullT : Nat} {a a' : AssetProblem}
    (h1 : p.extraCosts.isKey = false) (h2 : p.minCap.isKey = false) (h3 : p.maxCap.isKey = false)
    (h : buildSimpleContract p g pr fullT = .ok a) (h' : buildSimpleContract p g pr' fullT = .ok a') :
    a.c.length = a'.c.length :=
  simple_shape_price_free h1 h2 h3 h h'

theorem shape_price_free_contract {p : ContractP} {g : Grid} {pr pr' : Prices} {fullT u : Nat} {a a' : AssetProblem}
    (h1 : p.extraCosts.isKey = false) (h2 : p.minCap.isKey = false) (h3 : p.maxCap.isKey = false)
    (h : buildContract p g pr fullT u = .ok a) (h' : buildContract p g pr' fullT u = .ok a') :
    a.c.length = a'.c.length := by
  obtain ⟨a0, h0, hc, _, _⟩ := CostsOnly.buildContract_ok h
  obtain ⟨a0', h0', hc', _, _⟩ := CostsOnly.buildContract_ok h'
  rw [hc, hc']
  exact simple_shape_price_free h1 h2 h3 h0 h0'

/-- the storage: always (size of the blocks of booleans is decided by the options, not by prices) -/
theorem shape_price_free_storage {p : StorageP} {g : Grid} {T : Nat} {pr pr' : Prices} {a a' : AssetProblem}
    (h : buildStorage p g T pr = .ok a) (h' : buildStorage p g T pr' = .ok a') : a.c.length = a'.c.length :=
  storage_shape_price_free h h'

/-- the transport: always (it has one variable per step; prices decide only whether it can be built) -/
theorem shape_price_free_transport {p : TransportP} {g : Grid} {pr pr' : Prices} {fullT : Nat} {a a' : AssetProblem}
    (hg : g.Ok) (h : buildTransport p g pr fullT = .ok a) (h' : buildTransport p g pr' fullT = .ok a') :
    a.c.length = a'.c.length := by
  have e1 := (transport_wf' hg h).l_len
  have e2 := (transport_wf' hg h').l_len
  obtain ⟨n0, n1, cts, hn, _, _, hc, rfl⟩ := buildTransport_ok h
  obtain ⟨n0', n1', cts', hn', _, _, hc', rfl⟩ := buildTransport_ok h'
  unfold AssetProblem.n at e1 e2
  rw [← e1, ← e2]
  simp [trProblem]

namespace ExZ
def zc : ContractP :=
  { name := "zc", nodes := ["n1"], price := some "p", extraCosts := .key "ec", minCap := .scalar (-1), maxCap := .scalar 1,
    minTake := [], maxTake := [] }
def g2 : Grid := { pts := [0, 3600], idx := [0, 1], dt := [1, 1], Dt := [1, 2], df := [1, 1] }
def pr0 : Prices := [("p", [1, 2]), ("ec", [0, 0])]
def pr1 : Prices := [("p", [1, 2]), ("ec", [0, 1])]
end ExZ

/-- **zero_aux_witness** (finding F-17m, machine checked).  `SimpleContract(min_cap=-1, max_cap=1, price='p',
    extra_costs='ec')`: with the series `ec` identically zero the contract has one variable per step, with `ec = [0, 1]` two.
    The cost vector of the second sample does not fit the problem of the first: `SamplesFit` fails, `make_slp` raises. -/
theorem zero_aux_witness :
    (CSpec.simple ExZ.zc ExZ.g2 2).costsOnly ExZ.pr0 = .ok [1, 2] ∧
      (CSpec.simple ExZ.zc ExZ.g2 2).costsOnly ExZ.pr1 = .ok [1, 1, 1, 3] ∧
      (∀ P, portfolioProblem [CSpec.simple ExZ.zc ExZ.g2 2] [0, 1] [] ExZ.pr0 = .ok P →
        ¬ EAO.C17.SamplesFit P [[1, 1, 1, 3]]) := by
  refine ⟨by decide +kernel, by decide +kernel, ?_⟩
  intro P hP hfit
  have hn : (portfolioProblem [CSpec.simple ExZ.zc ExZ.g2 2] [0, 1] [] ExZ.pr0).map (·.c.length) = .ok 2 := by
    decide +kernel
  rw [hP] at hn
  have h4 := hfit [1, 1, 1, 3] (by simp)
  simp only [Except.map, Except.ok.injEq] at hn
  unfold Problem.n at h4
  simp at h4
  omega

/-! ## (11) the glue to the SLP theorems of `EAO/Properties/C17.lean` -/

/-- **scenario_costs_are_problem_costs.**  With the vectors of `create_cost_samples`, the scenario cost vector
    `C17.scenCost P.c cs (i+1)` of the SLP theorems is the cost vector of the portfolio problem set up with the i-th price
    sample, and `C17.scenValue` is the value of a point in THAT problem: the scenarios `slp_structure` / `slp_value_mean`
    average over are the problems under the sampled prices. -/
theorem scenario_costs_are_problem_costs (specs : List CSpec) (gridI : List Nat) (skip : List String) (pr0 : Prices)
    (samples : List Prices) (prob : Prices → Problem)
    (hpf : ∀ pr ∈ samples, ∀ s ∈ specs, s.periodicFree = true ∧ BasesWF s pr)
    (h : ∀ pr ∈ samples, portfolioProblem specs gridI skip pr = .ok (prob pr))
    (cs : List (List Rat)) (hcs : createCostSamples specs samples = .ok cs) (i : Nat) (hi : i < samples.length) :
    EAO.C17.scenCost (prob pr0).c cs (i + 1) = (prob (samples.getD i pr0)).c ∧
      ∀ x, EAO.C17.scenValue (prob pr0) cs (i + 1) x = (prob (samples.getD i pr0)).value x := by
  rw [cost_samples_are_problem_costs specs gridI skip samples prob hpf h] at hcs
  cases hcs
  have e : EAO.C17.scenCost (prob pr0).c (samples.map fun pr => (prob pr).c) (i + 1) = (prob (samples.getD i pr0)).c := by
    unfold EAO.C17.scenCost
    simp [List.getD, hi]
  refine ⟨e, fun x => ?_⟩
  unfold EAO.C17.scenValue Problem.value
  rw [e]

/-- `cost_samples_fit` for the LP builders, without hypotheses on bases -/
theorem cost_samples_fit_lp (specs : List CSpec) (gridI : List Nat) (skip : List String) (pr0 : Prices)
    (samples : List Prices) (prob : Prices → Problem)
    (hpf : ∀ s ∈ specs, s.periodicFree = true ∧ GridsOk s)
    (h : ∀ pr ∈ samples, portfolioProblem specs gridI skip pr = .ok (prob pr))
    (hshape : ∀ pr ∈ samples, (prob pr).n = (prob pr0).n)
    (cs : List (List Rat)) (hcs : createCostSamples specs samples = .ok cs) :
    EAO.C17.SamplesFit (prob pr0) cs :=
  cost_samples_fit specs gridI skip pr0 samples prob
    (fun pr _ s hs => ⟨(hpf s hs).1, basesWF_of_gridsOk s pr (hpf s hs).2⟩) h hshape cs hcs

/-- non-vacuity: market contract and storage, two price samples -/
example :
    let g : Grid := { pts := [0, 3600], idx := [0, 1], dt := [1, 1], Dt := [1, 2], df := [1, 1] }
    let mk : ContractP := { name := "m", nodes := ["n"], price := some "p", extraCosts := .scalar 0, minCap := .scalar (-5),
                            maxCap := .scalar 5, minTake := [], maxTake := [] }
    let sto : StorageP := { name := "s", nodes := ["n"], size := 4, capIn := 2, capOut := 2, startLevel := 0, endLevel := 0,
                            costIn := 0, costOut := 0, costStore := 0, effIn := 1, inflow := 0, price := none, noSimult := false,
                            maxStoreDuration := none, blocks := none }
    createCostSamples [.simple mk g 2, .storage sto g 2] [[("p", [1, 2])], [("p", [3, 5])]]
      = .ok [[1, 2, 0, 0], [3, 5, 0, 0]] ∧
    (portfolioProblem [.simple mk g 2, .storage sto g 2] [0, 1] [] [("p", [3, 5])]).map (·.c) = .ok [3, 5, 0, 0] := by
  decide +kernel

/-! ## (12) the error side of the CHP family -/

/-- **costs_only_chp_error_side.**  `CHPAsset` / `Plant` without ramp profiles: when the cost-only branch returns a vector the
    set-up returns a problem with that cost vector, or fails in one of the checks the cost-only branch does not reach
    (`chpLateChecks`: negative capacities, a two-variable parent, variables of another type in front of the heat copy, fuel
    rows of the wrong length) — with exactly that error. -/
theorem costs_only_chp_error_side {p : CHPP} {base : AssetProblem} {g : Grid} {prices : Prices} {u s : Nat} {c : List Rat}
    (h : costsOnlyCHP p base g prices u s = .ok c) :
    (∃ a, buildCHP p base g prices u s = .ok a ∧ a.c = c) ∨
    (∃ r e, resolveCHPWith p base g prices u s true = .ok (some r) ∧ chpLateChecks r = .error e ∧
        buildCHP p base g prices u s = .error e) :=
  chp_error_side h

/-- **costs_only_minload_error_side.**  Minimum-load costs: the set-up can additionally fail only while generating the rows
    (the assertion on the number of power variables, an IndexError of a look-up). -/
theorem costs_only_minload_error_side {m : MinLoadP} {a : AssetProblem} {g : Grid} {prices : Prices} {c : List Rat}
    (h : costsOnlyMinLoad m a.c g prices = .ok c) :
    (∃ b, buildMinLoad m a g prices = .ok b ∧ b.c = c) ∨ buildMinLoad m a g prices = .error .assertion ∨
      buildMinLoad m a g prices = .error .index :=
  minload_error_side h

end EAO.C17C
