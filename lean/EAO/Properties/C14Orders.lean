import EAO.Model.ObSplit
import EAO.Lemmas.ObSplit
import EAO.Properties.C14
import EAO.Properties.C14Builders
/-!
# C14 + C20 — order books in a split optimisation: equivalence MODULO INERT VARIABLES

`OrderBook.setup_optim_problem` builds one variable per order on whatever grid it is given.  In an interval of
`Portfolio.setup_split_optim_problem` every order is present; the orders without a step in the interval are variables
with zero cost, bounds `[0, 1]`, no mapping row and no restriction row.  The block sum of the interval problems has more
variables than the unsplit problem: `EAO.C14B` (permutation of the variables) does not apply.

* `inert_vars_equiv`, `inert_vars_same_bounds`, `inert_vars_optimum` — generic: a well-formed problem and the problem
  without its inert variables (`Problem.dropInert`) have corresponding feasible points both ways (explicit maps:
  `pullbackAlong P.live` forgets the inert entries, `extendInert P` puts them at their lower bound), relaxed and with
  the boolean flags, equal value, equal dispatch; hence the same optimal value and corresponding optima.
* `orderbook_interval`, `orderbook_interval_keep`, `orderbook_interval_cost` — the order book built on the grid of an
  interval (`Grid.pick`: steps re-based, `dt` and discount factors of the reference — `EAO.C14B.interval_grid_is_pick`)
  is, on the orders that cover a step of the interval, LITERALLY the restriction of the unsplit order book
  (`AssetProblem.restrictTo`, the notion of `EAO.C14B`) — for orders that do not reach across the cut (`orderInside`) —
  and every other order is an inert variable of it.  Without `orderInside` the mapping rows still agree; the COST of an
  order across the cut is prorated (only the steps of the interval), see the last section.
* `split_equals_unsplit_orderbooks` (LP), `split_equals_unsplit_orderbooks_bool` (with full execution) — under the
  witness modulo inert variables (`splitWitnessModInert`: the unsplit problem without its inert variables IS the block
  sum of the interval problems without theirs; evaluated by the driver on the model AND on the real problems of every
  generated case, `harness/comp/obsplit.py`): interval-wise optima, stripped of the inert entries, concatenated,
  transported along the matching of the live variables and extended by the lower bounds of the inert unsplit
  variables, are a feasible and OPTIMAL point of the unsplit problem; its value is the sum of the interval optima.
* `crossing_order_witness` — ONE full-execution order across the cut: the split set-up executes half of it, which the
  unsplit problem cannot; the witness is false and the split value exceeds the unsplit optimum.

NOT proved here (TARGET): `splitWitnessModInert U ps (splitPermLive U Is) = true` for every portfolio of the five
builders of `EAO.C14B` plus order books with `ordersInsideAll` — it needs `EAO.C14B.split_witness_of_banded` for asset
problems whose variables belong to one INTERVAL instead of one step (`Banded.same_step` fails for an order over several
steps, `Banded.no_bool` for full execution).  `orderbook_interval` is the asset-level half of it.
-/
namespace EAO.C14O
open EAO EAO.ObSplit EAO.Split

/-! ## (1) inert variables -/

/-- **A problem and the problem without its inert variables.**  For a well-formed problem `P` (bounds per variable,
    rows and mapping over its variables): forgetting the inert entries maps feasible points of `P` to feasible points of
    `P.dropInert`; extending by the lower bounds maps feasible points of `P.dropInert` to feasible points of `P` —
    relaxed and with the boolean flags — both keep the value and the dispatch of every asset at every node and step. -/
theorem inert_vars_equiv (P : Problem) (hw : P.wfIdx = true) :
    (∀ x, (P.FeasibleRelaxed x → P.dropInert.FeasibleRelaxed (pullbackAlong P.live x)) ∧
          (P.Feasible x → P.dropInert.Feasible (pullbackAlong P.live x)) ∧
          P.dropInert.value (pullbackAlong P.live x) = P.value x ∧
          ∀ a n t, dispatchOut P.dropInert.mapping a n t (pullbackAlong P.live x) = dispatchOut P.mapping a n t x) ∧
    (∀ y, (P.dropInert.FeasibleRelaxed y → P.FeasibleRelaxed (extendInert P y)) ∧
          (P.dropInert.Feasible y → P.Feasible (extendInert P y)) ∧
          P.value (extendInert P y) = P.dropInert.value y ∧
          ∀ a n t, dispatchOut P.mapping a n t (extendInert P y) = dispatchOut P.dropInert.mapping a n t y) := by
  have hK := keeps_live P hw
  have hm : ∀ m ∈ P.mapping, m.var ∈ P.live := fun m hm' => (mem_kept P _ _).mpr (hK.mapping m hm')
  constructor
  · intro x
    obtain ⟨h1, h2, h3⟩ := drop_feasible P _ hK x
    exact ⟨h1, h2, h3, fun a n t => dispatch_agree P P.live hm _ x (agree_pullback P.live x) a n t⟩
  · intro y
    obtain ⟨h1, h2, h3⟩ := extend_feasible P _ hK y
    exact ⟨h1, h2, h3, fun a n t => (dispatch_agree P P.live hm y _ (agree_extend P _ y) a n t).symm⟩

/-- **Same optimal value** (integrality included, no existence assumed) -/
theorem inert_vars_same_bounds (P : Problem) (hw : P.wfIdx = true) (B : Rat) :
    (∀ x, P.Feasible x → P.value x ≤ B) ↔ (∀ y, P.dropInert.Feasible y → P.dropInert.value y ≤ B) := by
  obtain ⟨hd, he⟩ := inert_vars_equiv P hw
  constructor
  · intro h y hy
    rw [← (he y).2.2.1]
    exact h _ ((he y).2.1 hy)
  · intro h x hx
    rw [← (hd x).2.2.1]
    exact h _ ((hd x).2.1 hx)

/-- **Optima correspond**: an optimum of the problem without inert variables, extended by the lower bounds, is an
    optimum of the problem -/
theorem inert_vars_optimum (P : Problem) (hw : P.wfIdx = true) (y : Vec) (hy : P.dropInert.FeasibleRelaxed y)
    (hopt : ∀ z, P.dropInert.FeasibleRelaxed z → P.dropInert.value z ≤ P.dropInert.value y) :
    P.FeasibleRelaxed (extendInert P y) ∧ ∀ x, P.FeasibleRelaxed x → P.value x ≤ P.value (extendInert P y) := by
  obtain ⟨hd, he⟩ := inert_vars_equiv P hw
  refine ⟨(he y).1 hy, fun x hx => ?_⟩
  rw [(he y).2.2.1, ← (hd x).2.2.1]
  exact hopt _ ((hd x).1 hx)

/-! ## (2) the order book of an interval -/

/-- **The order book on the grid of an interval.**  `g` the book's grid on the full horizon, `I` the original steps of
    the interval, `g.pick I` the interval grid; every order lies inside or outside the interval (`orderInside`).  Then,
    with `A` the unsplit and `AI` the interval's order-book problem:
    `AI` on the orders kept in the interval (`A.keep I`) IS `A.restrictTo I` (cost = the order's whole unsplit cost,
    bounds, mapping rows with re-based steps); every other order has zero cost, bounds `[0, 1]` and no mapping row in
    `AI`; `AI` has no restriction rows. -/
theorem orderbook_interval (name node : String) (orders : List Order) (fe : Bool) (g : Grid) (I : List Nat) (hg : g.Ok)
    (hin : ∀ o ∈ orders, orderInside g I o = true) :
    let A := orderBookProblem name node orders fe g
    let AI := orderBookProblem name node orders fe (g.pick I)
    AI.subVars (A.keep I) = A.restrictTo I ∧
    (∀ k, k < orders.length → k ∉ A.keep I →
      AI.c.getD k 0 = 0 ∧ AI.l.getD k 0 = 0 ∧ AI.u.getD k 0 = 1 ∧ ∀ m ∈ AI.mapping, m.var ≠ k) ∧
    AI.rows = [] := by
  refine ⟨orderBook_pick name node orders fe g I hg hin, fun k hk hn => ?_, rfl⟩
  obtain ⟨h1, h2⟩ := orderBook_pick_inert name node orders fe g I hg k hk hn
  refine ⟨h1, ?_, ?_, h2⟩ <;> simp [orderBookProblem, List.getD_eq_getElem?_getD, hk]

/-- the orders kept in an interval are those covering a step of it -/
theorem orderbook_interval_keep (name node : String) (orders : List Order) (fe : Bool) (g : Grid) (I : List Nat) (k : Nat) :
    k ∈ (orderBookProblem name node orders fe g).keep I ↔
      ∃ o, orders[k]? = some o ∧ ∃ i ∈ coverPos g o, g.idx.getD i 0 ∈ I :=
  mem_keep_orderBook name node orders fe g I k

/-- the cost of an order in the interval problem, whatever its position: the part of its discounted duration at the
    steps of the interval — all of it for an order inside, nothing for an order outside, A PART for an order across
    the cut -/
theorem orderbook_interval_cost (g : Grid) (I : List Nat) (hg : g.Ok) (o : Order) :
    orderCost (g.pick I) o = o.capa *
      (((coverPos g o).filter fun i => I.contains (g.idx.getD i 0)).map fun i => g.dt.getD i 0 * g.df.getD i 0).sum *
      o.price := by
  unfold orderCost
  rw [coverWeight_pick g I hg o]

/-! ## (3) portfolios: the witness modulo inert variables -/

/-- an interval solution without the entries of the inert variables -/
def stripInert (P : Problem) (xs : List Rat) : List Rat := P.live.map fun v => xs.getD v 0

private theorem strip_agree (P : Problem) (xs : List Rat) (j : Nat) (hj : j < P.dropInert.n) :
    pullbackAlong P.live (C14.vecOfList xs) j = C14.vecOfList (stripInert P xs) j := by
  have hj' : j < P.live.length := by simpa [Problem.dropInert, Problem.renameAlong, Problem.n] using hj
  simp [pullbackAlong, C14.vecOfList, stripInert, List.getD_eq_getElem?_getD, hj']

private theorem parts (U : Problem) (ps : List Problem) (perm : List Nat) (h : splitWitnessModInert U ps perm = true) :
    U.wfIdx = true ∧ (∀ p ∈ ps, p.wfIdx = true) ∧ splitWitness U.dropInert (ps.map Problem.dropInert) perm = true := by
  unfold splitWitnessModInert at h
  simp only [Bool.and_eq_true, List.all_eq_true] at h
  exact ⟨h.1.1, h.1.2, h.2⟩

/-- **Split optimum = unsplit optimum for portfolios with order books (LP).**  Under the witness modulo inert
    variables: if every interval solution `xs[i]` is feasible and optimal for the interval problem `ps[i]` (inert
    variables included, as the optimiser sees it), then the interval solutions stripped of the inert entries,
    concatenated, transported along the matching of the live variables and extended by the lower bounds of the inert
    unsplit variables are a feasible and OPTIMAL point of the unsplit problem, and the unsplit optimal value is the sum
    of the interval optima. -/
theorem split_equals_unsplit_orderbooks (U : Problem) (ps : List Problem) (perm : List Nat)
    (h : splitWitnessModInert U ps perm = true) (xs : List (List Rat)) (hlen : xs.length = ps.length)
    (hfeas : ∀ i, (h : i < ps.length) → (ps[i]).FeasibleRelaxed (C14.vecOfList (xs.getD i [])))
    (hopt : ∀ i, (h : i < ps.length) → ∀ z, (ps[i]).FeasibleRelaxed z →
        (ps[i]).value z ≤ (ps[i]).value (C14.vecOfList (xs.getD i []))) :
    let w := extendInert U (transportAlong perm (concatVec (List.zipWith stripInert ps xs)))
    U.FeasibleRelaxed w ∧ (∀ y, U.FeasibleRelaxed y → U.value y ≤ U.value w) ∧
    U.value w = ((List.range ps.length).map fun i => (ps.getD i default).value (C14.vecOfList (xs.getD i []))).sum := by
  intro w
  obtain ⟨hU, hps, hw⟩ := parts U ps perm h
  obtain ⟨_, hwp, _, _⟩ := C14.witness_parts U.dropInert (ps.map Problem.dropInert) perm hw
  have hL : (List.zipWith stripInert ps xs).length = (ps.map Problem.dropInert).length := by simp [hlen]
  have hget : ∀ i, (hi : i < ps.length) →
      (List.zipWith stripInert ps xs).getD i [] = stripInert ps[i] (xs.getD i []) := by
    intro i hi
    have hi2 : i < xs.length := by omega
    rw [List.getD_eq_getElem?_getD, List.getD_eq_getElem?_getD, List.getElem?_eq_getElem hi2,
      List.getElem?_eq_getElem (by simp; omega), List.getElem_zipWith]
    rfl
  have hwf : ∀ i, (hi : i < ps.length) → WfIdx (ps[i]).dropInert := fun i hi =>
    hwp _ (List.mem_map.mpr ⟨ps[i], List.getElem_mem hi, rfl⟩)
  have key := C14.split_equals_unsplit U.dropInert (ps.map Problem.dropInert) perm hw (List.zipWith stripInert ps xs) hL
    (by
      intro i hi
      have hi' : i < ps.length := by simpa using hi
      rw [hget i hi', List.getElem_map]
      simp [stripInert, Problem.dropInert, Problem.renameAlong, Problem.n])
    (by
      intro i hi
      have hi' : i < ps.length := by simpa using hi
      rw [hget i hi', List.getElem_map]
      have := ((inert_vars_equiv ps[i] (hps _ (List.getElem_mem hi'))).1 (C14.vecOfList (xs.getD i []))).1 (hfeas i hi')
      exact (hwf i hi').relaxed_congr _ _ (strip_agree ps[i] (xs.getD i [])) this)
    (by
      intro i hi z hz
      have hi' : i < ps.length := by simpa using hi
      rw [hget i hi']
      simp only [List.getElem_map] at hz ⊢
      obtain ⟨hd, he⟩ := inert_vars_equiv ps[i] (hps _ (List.getElem_mem hi'))
      rw [← value_congr _ _ _ (strip_agree ps[i] (xs.getD i [])), (hd _).2.2.1, ← (he z).2.2.1]
      exact hopt i hi' _ ((he z).1 hz))
  obtain ⟨g1, g2, g3⟩ := key
  obtain ⟨hd, he⟩ := inert_vars_equiv U hU
  refine ⟨(he _).1 g1, fun y hy => ?_, ?_⟩
  · show U.value y ≤ U.value (extendInert U _)
    rw [(he _).2.2.1, ← (hd y).2.2.1]
    exact g2 _ ((hd y).1 hy)
  · show U.value (extendInert U _) = _
    rw [(he _).2.2.1, g3, List.length_map]
    congr 1
    apply List.map_congr_left
    intro i hi
    have hi' : i < ps.length := by simpa using hi
    have e1 : (ps.map Problem.dropInert).getD i default = (ps[i]).dropInert := by
      simp [List.getD_eq_getElem?_getD, hi']
    have e2 : ps.getD i default = ps[i] := by simp [List.getD_eq_getElem?_getD, hi']
    rw [e1, e2, hget i hi', ← value_congr _ _ _ (strip_agree ps[i] (xs.getD i []))]
    exact ((inert_vars_equiv ps[i] (hps _ (List.getElem_mem hi'))).1 _).2.2.1

/-- **The same with full execution** (boolean order variables): interval solutions feasible and optimal INCLUDING the
    integrality conditions give a feasible and optimal point of the unsplit problem including its integrality conditions. -/
theorem split_equals_unsplit_orderbooks_bool (U : Problem) (ps : List Problem) (perm : List Nat)
    (h : splitWitnessModInert U ps perm = true) (xs : List (List Rat)) (hlen : xs.length = ps.length)
    (hfeas : ∀ i, (h : i < ps.length) → (ps[i]).Feasible (C14.vecOfList (xs.getD i [])))
    (hopt : ∀ i, (h : i < ps.length) → ∀ z, (ps[i]).Feasible z →
        (ps[i]).value z ≤ (ps[i]).value (C14.vecOfList (xs.getD i []))) :
    let w := extendInert U (transportAlong perm (concatVec (List.zipWith stripInert ps xs)))
    U.Feasible w ∧ (∀ y, U.Feasible y → U.value y ≤ U.value w) ∧
    U.value w = ((List.range ps.length).map fun i => (ps.getD i default).value (C14.vecOfList (xs.getD i []))).sum := by
  intro w
  obtain ⟨hU, hps, hw⟩ := parts U ps perm h
  obtain ⟨_, hwp, _, _⟩ := C14.witness_parts U.dropInert (ps.map Problem.dropInert) perm hw
  have hL : (List.zipWith stripInert ps xs).length = (ps.map Problem.dropInert).length := by simp [hlen]
  have hget : ∀ i, (hi : i < ps.length) →
      (List.zipWith stripInert ps xs).getD i [] = stripInert ps[i] (xs.getD i []) := by
    intro i hi
    have hi2 : i < xs.length := by omega
    rw [List.getD_eq_getElem?_getD, List.getD_eq_getElem?_getD, List.getElem?_eq_getElem hi2,
      List.getElem?_eq_getElem (by simp; omega), List.getElem_zipWith]
    rfl
  have hwf : ∀ i, (hi : i < ps.length) → WfIdx (ps[i]).dropInert := fun i hi =>
    hwp _ (List.mem_map.mpr ⟨ps[i], List.getElem_mem hi, rfl⟩)
  have key := C14.split_equals_unsplit_bool U.dropInert (ps.map Problem.dropInert) perm hw (List.zipWith stripInert ps xs) hL
    (by
      intro i hi
      have hi' : i < ps.length := by simpa using hi
      rw [hget i hi', List.getElem_map]
      simp [stripInert, Problem.dropInert, Problem.renameAlong, Problem.n])
    (by
      intro i hi
      have hi' : i < ps.length := by simpa using hi
      rw [hget i hi', List.getElem_map]
      have := ((inert_vars_equiv ps[i] (hps _ (List.getElem_mem hi'))).1 (C14.vecOfList (xs.getD i []))).2.1 (hfeas i hi')
      exact (hwf i hi').feasible_congr _ _ (strip_agree ps[i] (xs.getD i [])) this)
    (by
      intro i hi z hz
      have hi' : i < ps.length := by simpa using hi
      rw [hget i hi']
      simp only [List.getElem_map] at hz ⊢
      obtain ⟨hd, he⟩ := inert_vars_equiv ps[i] (hps _ (List.getElem_mem hi'))
      rw [← value_congr _ _ _ (strip_agree ps[i] (xs.getD i [])), (hd _).2.2.1, ← (he z).2.2.1]
      exact hopt i hi' _ ((he z).2.1 hz))
  obtain ⟨g1, g2, g3⟩ := key
  obtain ⟨hd, he⟩ := inert_vars_equiv U hU
  refine ⟨(he _).2.1 g1, fun y hy => ?_, ?_⟩
  · show U.value y ≤ U.value (extendInert U _)
    rw [(he _).2.2.1, ← (hd y).2.2.1]
    exact g2 _ ((hd y).2.1 hy)
  · show U.value (extendInert U _) = _
    rw [(he _).2.2.1, g3, List.length_map]
    congr 1
    apply List.map_congr_left
    intro i hi
    have hi' : i < ps.length := by simpa using hi
    have e1 : (ps.map Problem.dropInert).getD i default = (ps[i]).dropInert := by
      simp [List.getD_eq_getElem?_getD, hi']
    have e2 : ps.getD i default = ps[i] := by simp [List.getD_eq_getElem?_getD, hi']
    rw [e1, e2, hget i hi', ← value_congr _ _ _ (strip_agree ps[i] (xs.getD i []))]
    exact ((inert_vars_equiv ps[i] (hps _ (List.getElem_mem hi'))).1 _).2.2.1

/-! ## non-vacuity and the order across a cut

Two hourly steps, cut in the middle (`cuts = 0 h, 1 h, 2 h`).  Node `n`: an order book `ob` and a contract `sink` that
pays 3 per unit and takes at most 1 per step in the first step, at most 1/2 in the second (capacities from the price
data).  Orders: capacity 1 (delivers 1 per hour), price 1. -/
section Example
private def exRef : Grid :=
  { pts := [0, 3600], idx := [0, 1], dt := [1, 1], Dt := [1, 2], df := [1, 1] }
private def exCuts : List Int := [0, 3600, 7200]
private def exPrices : Prices := [("p", [3, 3]), ("lo", [-1, -1/2]), ("hi", [0, 0])]
private def exSink : ContractP :=
  { name := "sink", nodes := ["n"], price := some "p", extraCosts := .scalar 0, minCap := .key "lo",
    maxCap := .key "hi", minTake := [], maxTake := [] }
private def exSpecs (orders : List Order) (fe : Bool) : List OSpec :=
  [.book "ob" "n" orders fe [1, 1],
   .asset { spec := .simple exSink, start := -1000000, stop := 1000000, df := [1, 1] }]
private def exIs : List (List Nat) := (splitPairs exCuts).map (intervalSteps exRef)

/-- one order per hour: each inside one interval -/
private def exInside : List Order := [⟨0, 3600, 1, 1⟩, ⟨3600, 7200, 1/2, 1⟩]
/-- ONE order over both hours -/
private def exCross : List Order := [⟨0, 7200, 1, 1⟩]

private def unsplitOf (specs : List OSpec) : Problem :=
  match setupPortfolioOB specs exRef exPrices 3600 [] with | .ok U => U | .error _ => default
private def splitOf (specs : List OSpec) : List Problem :=
  match setupSplitOB specs exRef exCuts exPrices 3600 [] with | .ok ps => ps | .error _ => []

/-- orders inside: every interval problem carries BOTH orders (one of them inert), the plain witness is false, the
    witness modulo inert variables is true -/
example : ordersInsideAll (exSpecs exInside true) exRef exCuts = true ∧
    (unsplitOf (exSpecs exInside true)).n = 4 ∧ (splitOf (exSpecs exInside true)).map (·.n) = [3, 3] ∧
    (splitOf (exSpecs exInside true)).map Problem.live = [[0, 2], [1, 2]] ∧
    splitWitness (unsplitOf (exSpecs exInside true)) (splitOf (exSpecs exInside true))
      (splitPerm (unsplitOf (exSpecs exInside true)) exIs) = false ∧
    splitWitnessModInert (unsplitOf (exSpecs exInside true)) (splitOf (exSpecs exInside true))
      (splitPermLive (unsplitOf (exSpecs exInside true)) exIs) = true := by decide +kernel

/-- `inert_vars_equiv` at work on the second interval problem: order 0 is inert there -/
example : (splitOf (exSpecs exInside true)).map (fun P => (P.inertVar 0, P.inertVar 1, P.inertVar 2)) =
    [(false, true, false), (true, false, false)] ∧
    (splitOf (exSpecs exInside true)).all Problem.wfIdx = true := by decide +kernel

/-- `orderbook_interval` at work: the hypothesis holds for the orders inside, and the interval's order book on the kept
    order is the restriction -/
example : (exInside.all fun o => orderInside exRef [1] o) = true ∧
    ((orderBookProblem "ob" "n" exInside true exRef).keep [1]) = [1] ∧
    ((orderBookProblem "ob" "n" exInside true (exRef.pick [1])).subVars [1]).c = [1/2] ∧
    ((orderBookProblem "ob" "n" exInside true exRef).restrictTo [1]).c = [1/2] := by decide +kernel

/-- **An order across the cut.**  ONE full-execution order over both hours (capacity 1, price 1 per unit) against a
    sink that pays 3 per unit and takes at most 1 in the first hour and at most 1/2 in the second.
    Unsplit: the order has ONE 0/1 variable delivering 1 in BOTH hours; executing it violates the balance of the second
    hour (the sink takes at most 1/2): the only integral feasible point is 0, the optimum is 0.
    Split: each interval has its own 0/1 variable for the order (cost prorated: 1 per interval instead of 2); the first
    interval executes "its half" (value 3 − 1 = 2), the second cannot: the split value 2 exceeds the unsplit optimum 0.
    `ordersInsideAll` is false and so is the witness modulo inert variables (nothing is inert here: 3 unsplit
    variables, 2 + 2 split variables). -/
theorem crossing_order_witness :
    ordersInsideAll (exSpecs exCross true) exRef exCuts = false ∧
    (unsplitOf (exSpecs exCross true)).n = 3 ∧ (splitOf (exSpecs exCross true)).map (·.n) = [2, 2] ∧
    (unsplitOf (exSpecs exCross true)).c = [2, 3, 3] ∧ (splitOf (exSpecs exCross true)).map (·.c) = [[1, 3], [1, 3]] ∧
    (unsplitOf (exSpecs exCross true)).boolVars = [0] ∧ (splitOf (exSpecs exCross true)).map (·.boolVars) = [[0], [0]] ∧
    splitWitnessModInert (unsplitOf (exSpecs exCross true)) (splitOf (exSpecs exCross true))
      (splitPermLive (unsplitOf (exSpecs exCross true)) exIs) = false ∧
    -- the split set-up: order half executed in the first interval (x = 1, the sink variable is -1: it takes 1), nothing in the second
    decide ((blockSum (splitOf (exSpecs exCross true))).Feasible (C14.vecOfList [1, -1, 0, 0])) = true ∧
    (blockSum (splitOf (exSpecs exCross true))).value (C14.vecOfList [1, -1, 0, 0]) = 2 ∧
    -- unsplit: executing the order is infeasible whatever the sink does within its bounds in the second hour …
    (∀ y, (unsplitOf (exSpecs exCross true)).Feasible y → y 0 = 0 ∧ (unsplitOf (exSpecs exCross true)).value y = 0) := by
  refine ⟨by decide +kernel, by decide +kernel, by decide +kernel, by decide +kernel, by decide +kernel,
    by decide +kernel, by decide +kernel, by decide +kernel, by decide +kernel, by decide +kernel, ?_⟩
  intro y hy
  have hl : (unsplitOf (exSpecs exCross true)).l = [0, -1, -1/2] := by decide +kernel
  have hc : (unsplitOf (exSpecs exCross true)).c = [2, 3, 3] := by decide +kernel
  have hb : (unsplitOf (exSpecs exCross true)).boolVars = [0] := by decide +kernel
  have hn : 1 < (unsplitOf (exSpecs exCross true)).rows.length := by decide +kernel
  have r0 : ((unsplitOf (exSpecs exCross true)).rows[0]'(by omega)).coeffs = [(0, 1), (1, 1)] ∧
      ((unsplitOf (exSpecs exCross true)).rows[0]'(by omega)).rhs = 0 ∧
      ((unsplitOf (exSpecs exCross true)).rows[0]'(by omega)).kind = .N := by decide +kernel +revert
  have r1 : ((unsplitOf (exSpecs exCross true)).rows[1]'hn).coeffs = [(0, 1), (2, 1)] ∧
      ((unsplitOf (exSpecs exCross true)).rows[1]'hn).rhs = 0 ∧
      ((unsplitOf (exSpecs exCross true)).rows[1]'hn).kind = .N := by decide +kernel +revert
  have s0 := hy.1.2 _ (List.getElem_mem (by omega : 0 < (unsplitOf (exSpecs exCross true)).rows.length))
  have s1 := hy.1.2 _ (List.getElem_mem hn)
  unfold Row.Sat at s0 s1
  rw [r0.2.2] at s0
  rw [r1.2.2] at s1
  simp only [Row.eval, r0.1, r0.2.1, r1.1, r1.2.1, List.map_cons, List.map_nil, List.sum_cons, List.sum_nil] at s0 s1
  have b2 := (hy.1.1 2 (by rw [hl]; decide)).1
  rw [hl] at b2
  simp only [List.getD_eq_getElem?_getD, List.getElem?_cons_succ, List.getElem?_cons_zero, Option.getD_some] at b2
  have hbool := hy.2 0 (by rw [hb]; simp)
  have h0 : y 0 = 0 := by
    rcases hbool with h | h
    · exact h
    · exfalso
      rw [h] at s1
      have : y 2 = -1 := by grind
      rw [this] at b2
      exact absurd b2 (by decide +kernel)
  refine ⟨h0, ?_⟩
  rw [h0] at s0 s1
  have h1 : y 1 = 0 := by grind
  have h2 : y 2 = 0 := by grind
  unfold Problem.value
  rw [hc]
  simp only [costAt, h0, h1, h2]
  decide +kernel
end Example

end EAO.C14O
