import EAO.Model.Schema
import EAO.Generated.Schema
import EAO.Lemmas.Schema
/-!
# C11 — JSON round trip preserves every asset and portfolio

Three layers.

1. `schema_roundtrip` — RE-CHECKED ON EVERY RUN over the table `EAO.Schema.classes` that
   `harness/schema_gen.py` regenerates from the eaopack sources: every class the serialiser knows satisfies
   `RoundTripOK` (stored keys are accepted constructor parameters or swallowed constants, required
   parameters are stored, every stored key is re-assigned unchanged to the attribute it was read from,
   computed fields are popped, nothing derived sits under a parameter name, no parameter-carrying attribute
   and no parameter is lost, names are unambiguous, the translator interpreted every statement) — EXCEPT
   the known finding F-11d `LinkedAsset`, which stays in the table and is proved NOT to satisfy it
   (`linkedAsset_not_roundtrip`).
2. `roundtrip_of_schema` — for EVERY object tree over classes satisfying `RoundTripOK` (any depth: assets
   inside portfolios inside structured assets, nodes, units, grids, dictionaries, lists, arrays, dates):
   `dec (enc v) = some v`, hence `enc` of the decoded object is the same JSON
   (`encode_decode_encode`).  Structural induction over the (nested) object tree.
3. `decode_encode_value` — the value codec on the tagged dictionaries the code writes, under the explicit
   predicate `WholeSecond` (the format string `%Y-%m-%d %H:%M:%S` drops sub-second parts) and the law
   `strptime ∘ strftime = id` of `TimeCodec`.

`timegrid_stored_keys`: a `Timegrid` is written as exactly start, end, freq, main_time_unit, timezone ← tz,
each re-assigned unchanged by the constructor, so the rebuilt grid has the same start / end instants, step
and zone (that equal constructor arguments give equal time points is pandas' `date_range`; checked by the
oracle `c11-grid` on the real code).
-/
namespace EAO.C11
open EAO.Schema

/-! ## 1. the regenerated table -/

set_option maxRecDepth 100000 in
/-- every class of the regenerated table round-trips, except the classes listed by name as known findings -/
theorem schema_roundtrip :
    ∀ cls ∈ classes, cls.name ≠ "LinkedAsset" → RoundTripOK cls = true := by
  decide +kernel

set_option maxRecDepth 100000 in
/-- F-11d (known finding): the attribute set of `LinkedAsset` is not its constructor signature -/
theorem linkedAsset_not_roundtrip : ¬ (RoundTripOK c_LinkedAsset = true) := by
  decide +kernel

set_option maxRecDepth 100000 in
/-- what exactly fails for `LinkedAsset` -/
theorem linkedAsset_failed_checks :
    report [c_LinkedAsset] =
      [("LinkedAsset", ["stored-keys-accepted", "required-stored", "stored-reassigned-same",
                        "no-derived-under-parameter-name", "parameters-stored"])] := by
  decide +kernel

set_option maxRecDepth 100000 in
/-- the table is consistent: distinct class names, one way of recovering the class per tag, no class uses a
tag of the value codec, and the known finding is really in the table -/
theorem schema_table_ok :
    tableOK classes = true ∧ (∀ cls ∈ classes, cls.tag ∉ reservedTags) ∧ c_LinkedAsset ∈ classes ∧
    (∀ cls ∈ classes, findByName classes cls.name = some cls) := by
  refine ⟨by decide +kernel, by decide +kernel, by simp [classes], ?_⟩
  intro cls h
  simp only [classes, List.mem_cons, List.not_mem_nil, or_false] at h
  rcases h with h | h | h | h | h | h | h | h | h | h | h | h | h | h | h | h | h | h <;> subst h <;>
    decide +kernel

set_option maxRecDepth 100000 in
/-- a `Timegrid` is written as exactly these five keys, `timezone` read from the attribute `tz` -/
theorem timegrid_stored_keys :
    (storedOf c_Timegrid true).map (fun s => (s.key, s.attr)) =
      [("start", "start"), ("end", "end"), ("freq", "freq"), ("main_time_unit", "main_time_unit"),
       ("timezone", "tz")] := by
  decide +kernel

set_option maxRecDepth 100000 in
/-- the computed CHP fields and the base-asset copies of a scaled asset are not written -/
theorem computed_fields_not_stored :
    (∀ k ∈ ["n", "heat_idx", "on_idx", "start_idx", "shutdown_idx", "timegrid", "idx_nodes",
             "start_ramp_time", "shutdown_ramp_time"],
        k ∉ storedKeys c_CHPAsset true ∧ k ∉ storedKeys c_Plant true) ∧
    (∀ k ∈ ["nodes", "freq", "profile", "timegrid"], k ∉ storedKeys c_ScaledAsset true) := by
  decide +kernel

/-! ## 3. the value codec (stated first: used by the induction) -/

section codec
variable (S : List ClassSchema) (tc : TimeCodec)

/-- datetime / Timestamp: naive, or aware stored as UTC string + zone name -/
theorem decode_encode_datetime (hl : tc.Lawful) (t : DateTime) (hw : WholeSecond t) :
    dec S tc (enc S tc (.datetime t)) = some (.datetime t) := by
  obtain ⟨secs, nanos, tz⟩ := t
  simp only [WholeSecond] at hw
  subst hw
  cases tz with
  | none => simp [enc, encDT, dec, decFields, hook, lookup, hl.parse_fmt]
  | some z => simp [enc, encDT, dec, decFields, hook, lookup, hl.parse_fmt]

theorem decode_encode_date (hl : tc.Lawful) (d : Int) :
    dec S tc (enc S tc (.date d)) = some (.date d) := by
  simp [enc, dec, decFields, hook, lookup, hl.parseDate_fmtDate]

theorem decList_ints : ∀ (ns : List Int), decList S tc (ns.map JVal.int) = some (ns.map PyVal.int) := by
  intro ns
  induction ns with
  | nil => simp [decList]
  | cons n ns ih => simp [decList, dec, ih]

theorem mapM_asInt : ∀ (ns : List Int), mapM' asInt (ns.map PyVal.int) = some ns := by
  intro ns
  induction ns with
  | nil => simp [mapM']
  | cons n ns ih => simp [mapM', asInt, ih]

theorem mapM_asDateTime : ∀ (ts : List DateTime), mapM' asDateTime (ts.map PyVal.datetime) = some ts := by
  intro ts
  induction ts with
  | nil => simp [mapM']
  | cons n ns ih => simp [mapM', asDateTime, ih]

theorem decList_datetimes (hl : tc.Lawful) : ∀ (ts : List DateTime), (∀ t ∈ ts, WholeSecond t) →
    decList S tc (ts.map (encDT tc)) = some (ts.map PyVal.datetime) := by
  intro ts
  induction ts with
  | nil => intro _; simp [decList]
  | cons t ts ih =>
    intro h
    have h1 := decode_encode_datetime S tc hl t (h t (by simp))
    have h2 := ih (fun x hx => h x (List.mem_cons_of_mem _ hx))
    simp only [enc] at h1
    simp [decList, h1, h2]

/-- numpy array of datetime64[ns] (`tolist()` gives integers) -/
theorem decode_encode_ndarrayDate (ns : List Int) :
    dec S tc (enc S tc (.ndarrayDate ns)) = some (.ndarrayDate ns) := by
  simp [enc, dec, decFields, decList_ints, hook, lookup, mapM_asInt]

/-- DatetimeIndex (naive or aware, with or without freq) -/
theorem decode_encode_dtindex (hl : tc.Lawful) (f : Option String) (ts : List DateTime)
    (hw : ∀ t ∈ ts, WholeSecond t) :
    dec S tc (enc S tc (.dtindex f ts)) = some (.dtindex f ts) := by
  cases f with
  | none => simp [enc, dec, decFields, decList_datetimes S tc hl ts hw, hook, lookup, optStr, mapM_asDateTime]
  | some s => simp [enc, dec, decFields, decList_datetimes S tc hl ts hw, hook, lookup, optStr, mapM_asDateTime]

/-! ## 2. all object trees -/

mutual
  /-- **round trip of every well-formed object tree** -/
  theorem roundtrip_of_schema (hl : tc.Lawful) : ∀ (v : PyVal), Valid S v → dec S tc (enc S tc v) = some v
    | .none, _ => by simp [enc, dec]
    | .bool _, _ => by simp [enc, dec]
    | .int _, _ => by simp [enc, dec]
    | .float _, _ => by simp [enc, dec]
    | .str _, _ => by simp [enc, dec]
    | .date d, _ => decode_encode_date S tc hl d
    | .datetime t, h => decode_encode_datetime S tc hl t (by simpa [Valid] using h)
    | .ndarrayDate ns, _ => decode_encode_ndarrayDate S tc ns
    | .dtindex f ts, h => decode_encode_dtindex S tc hl f ts (by simpa [Valid] using h)
    | .list xs, h => by
        have ih := roundtrip_list hl xs (by simpa [Valid] using h)
        simp [enc, dec, decList_encList_of S tc xs ih]
    | .ndarray xs, h => by
        have ih := roundtrip_list hl xs (by simpa [Valid] using h)
        simp [enc, dec, decFields, decList_encList_of S tc xs ih, hook, lookup]
    | .dict kvs, h => by
        simp only [Valid] at h
        have ih := roundtrip_fields hl kvs h.2
        simp [enc, dec, decFields_encFields_of S tc kvs ih, hook, h.1]
    | .obj cls attrs, h => by
        simp only [Valid] at h
        obtain ⟨⟨c, hfind, hname, hok, hcls, hres, hreach⟩, hf⟩ := h
        have ih := roundtrip_fields hl attrs hf
        subst hname
        simp only [enc, hfind, dec, decFields_serialise S tc c attrs ih]
        exact hook_serialiseP tc hfind hok hcls hres attrs hreach
  theorem roundtrip_list (hl : tc.Lawful) : ∀ (xs : List PyVal), ValidList S xs →
      ∀ x ∈ xs, dec S tc (enc S tc x) = some x
    | [], _ => by intro x hx; cases hx
    | y :: ys, h => by
        simp only [ValidList] at h
        intro x hx
        rcases List.mem_cons.mp hx with e | hm
        · rw [e]; exact roundtrip_of_schema hl y h.1
        · exact roundtrip_list hl ys h.2 x hm
  theorem roundtrip_fields (hl : tc.Lawful) : ∀ (kvs : List (String × PyVal)), ValidFields S kvs →
      ∀ kv ∈ kvs, dec S tc (enc S tc kv.2) = some kv.2
    | [], _ => by intro x hx; cases hx
    | (k, v) :: rest, h => by
        simp only [ValidFields] at h
        intro x hx
        rcases List.mem_cons.mp hx with e | hm
        · rw [e]; exact roundtrip_of_schema hl v h.1
        · exact roundtrip_fields hl rest h.2 x hm
end

/-- saving the loaded object reproduces the same JSON -/
theorem encode_decode_encode (hl : tc.Lawful) (v : PyVal) (hv : Valid S v) :
    ∃ w, dec S tc (enc S tc v) = some w ∧ enc S tc w = enc S tc v :=
  ⟨v, roundtrip_of_schema S tc hl v hv, rfl⟩

/-- the value codec: dates, naive / aware datetimes, numeric and datetime64 numpy arrays, DatetimeIndex,
nested lists and dictionaries of them (an instance of the general theorem: such values contain no objects) -/
theorem decode_encode_value (hl : tc.Lawful) (v : PyVal) (hv : Valid S v) :
    dec S tc (enc S tc v) = some v := roundtrip_of_schema S tc hl v hv

end codec

/-- the general theorem over the regenerated table: every class except the known finding may occur -/
theorem roundtrip_generated (tc : TimeCodec) (hl : tc.Lawful) (v : PyVal) (hv : Valid classes v) :
    dec classes tc (enc classes tc v) = some v := roundtrip_of_schema classes tc hl v hv

/-! ## computed fields do not reach the JSON -/

/-- an object that additionally carries computed fields (attributes assigned by `set_timegrid` /
`setup_optim_problem`: `timegrid`, `n`, `heat_idx`, …) is written as the same JSON as without them -/
theorem computed_fields_ignored (S : List ClassSchema) (tc : TimeCodec) (c : ClassSchema)
    (hfind : findByName S c.name = some c) (hok : RoundTripOK c = true)
    (attrs extras : List (String × PyVal))
    (hextra : ∀ kv ∈ extras, kv.1 ∈ c.computed ∧ kv.1 ∉ (stateAttrs c).map (·.name)) :
    enc S tc (.obj c.name (attrs ++ extras)) = enc S tc (.obj c.name attrs) := by
  simp only [enc, hfind]
  congr 1
  unfold serialise
  congr 1
  apply filterMap_congr'
  intro s hs
  congr 1
  rw [lookup_encFields, lookup_encFields]
  congr 1
  cases hl : lookup s.attr attrs with
  | some v => exact lookup_append_of_some hl
  | none =>
    rw [lookup_append_of_none hl]
    apply lookup_none_of_not_mem
    intro hm
    simp only [List.mem_map] at hm
    obtain ⟨kv, hkv, e⟩ := hm
    obtain ⟨hc, hns⟩ := hextra kv hkv
    -- a stored key read from a computed attribute must be restored through a setter: a state attribute
    have hpop : chkComputedPopped c = true := by
      simp only [RoundTripOK, Bool.and_eq_true] at hok
      exact hok.1.1.1.1.2
    simp only [chkComputedPopped, List.all_eq_true, Bool.or_eq_true, bne_iff_ne, ne_eq, List.any_eq_true,
      Bool.and_eq_true, beq_iff_eq] at hpop
    rcases hpop kv.1 hc s hs with h | ⟨b, hb, ⟨h1, _⟩, _⟩
    · exact h e.symm
    · apply hns
      simp only [List.mem_map]
      exact ⟨b, hb, h1⟩

/-! ## non-vacuity -/

/-- sub-second parts do NOT survive (why `WholeSecond` is a hypothesis): the decoded stamp has `nanos = 0` -/
example (tc : TimeCodec) (hl : tc.Lawful) :
    dec [] tc (enc [] tc (.datetime ⟨10, 500, none⟩)) = some (.datetime ⟨10, 0, none⟩) := by
  simp [enc, encDT, dec, decFields, hook, lookup, hl.parse_fmt]

/-- a lawful time codec exists (unary strings instead of the calendar format): the hypothesis `tc.Lawful` of
the theorems above is satisfiable -/
def unaryCodec : TimeCodec :=
  let f : Int → String := fun s => match s with
    | .ofNat n => String.ofList ('p' :: List.replicate n 'x')
    | .negSucc n => String.ofList ('n' :: List.replicate n 'x')
  let p : String → Option Int := fun str => match str.toList with
    | 'p' :: r => some (Int.ofNat r.length)
    | 'n' :: r => some (Int.negSucc r.length)
    | _ => Option.none
  { fmt := f, parse := p, fmtDate := f, parseDate := p }

theorem unaryCodec_lawful : unaryCodec.Lawful := by
  constructor <;> intro s <;> cases s <;> simp [unaryCodec]

/-- a node object (class of the regenerated table) built by its constructor is `Valid` -/
example : Valid classes (.obj "Node" (build c_Node [("name", .str "N1"), ("commodity", .none)])) := by
  simp only [Valid]
  refine ⟨⟨c_Node, by decide +kernel, rfl, by decide +kernel, by decide +kernel, by decide +kernel,
    [("name", .str "N1"), ("commodity", .none)], rfl, ?_, ?_⟩, ?_⟩
  · intro kv hkv
    simp only [List.mem_cons, List.not_mem_nil, or_false] at hkv
    rcases hkv with h | h <;> subst h <;> decide +kernel
  · intro p hp hr
    simp only [c_Node, List.mem_cons, List.not_mem_nil, or_false] at hp
    rcases hp with h | h | h <;> subst h
    · decide +kernel
    · simp at hr
    · simp at hr
  · simp [build, stateAttrs, setterAttrs, c_Node, attrVal, lookup, ValidFields, Valid]

end EAO.C11
