import EAO.Model.Structured
import EAO.Model.Scaled
import EAO.Properties.C09
import EAO.Properties.C09Nested
import EAO.Lemmas.ScaledPerm
/-!
# C09 — a ScaledAsset over a structure whose inner list is permuted; wrappers of both kinds at any depth

`EAO/Properties/C09Nested.lean` relates a structured asset and the one built from the permuted inner list by the
SEMANTIC correspondence `Sim` (feasible points map both ways with the same cost and flows).  A ScaledAsset around the
structure (`buildScaled`) reads the base problem SYNTACTICALLY (bounds, right-hand sides, the mapping rows of type
'd' / non-boolean 'i'), so `Sim` of the bases says nothing about the scaled problems — the case C09Nested lists under
"not proved".  This file closes it with a syntactic relation.

`VarPerm σ A B` (`EAO/Lemmas/ScaledPerm.lean`): `B` is `A` with the variables renumbered along `σ` —
`σ` permutes `0 … A.n-1` (with an inverse) and fixes every other index; cost and bounds are permuted
(`B.c[σ j] = A.c[j]` …, all of length `A.n`); the rows of `A` renamed along `σ` are the rows of `B` as a multiset, every
row up to the order of its coefficients (`RowsRel`; the order of rows and of the coefficients of nodal rows DOES
change when the inner list is permuted); the mapping rows of `A` with `var` renamed along `σ` are the mapping rows of
`B` as a multiset — every other column (asset, node, type, step, factor, boolean flag, variable name) is carried
unchanged; name and node list agree.

Hypotheses on the leaves: `C09.WF`, `C09.Local` and `MapLocal` (EVERY mapping row points at a variable of the asset,
not only the dispatch rows as in `C09.Local` — the scaled wrapper also reads rows of type 'i'); together: `SGood`.

Property theorems only; helper lemmas are in `EAO/Lemmas/ScaledPerm.lean` (namespace `EAO.ScaledPerm`).
-/
namespace EAO.C09S
open EAO EAO.Perm EAO.NestedPerm EAO.ScaledPerm EAO.C09

/-- every mapping row (of any type) points at a variable of the asset -/
def MapLocal (a : AssetProblem) : Prop := ∀ m ∈ a.mapping, m.var < a.n

/-- the lemma file's `SGood` is `C09.WF ∧ C09.Local ∧ MapLocal` -/
theorem sgood_iff (gridI : List Nat) (a : AssetProblem) : SGood gridI a ↔ WF gridI a ∧ Local a ∧ MapLocal a :=
  ⟨fun h => ⟨⟨h.good.len_l, h.good.len_u, h.good.disp⟩, ⟨h.good.cols, h.good.vars⟩, h.mvar⟩,
   fun h => ⟨⟨h.1.len_l, h.1.len_u, h.1.disp, h.2.1.cols, h.2.1.vars⟩, h.2.2⟩⟩

/-! ## the relation -/

/-- **what a renumbering keeps** (`VarPerm` implies the semantic correspondence, with the explicit map): `y` is
    feasible for `B` iff `y ∘ σ` is feasible for `A`; the two points have the same cost and the same flow at every
    (node, step) -/
theorem varperm_same_results {σ : Nat → Nat} {A B : AssetProblem} (h : VarPerm σ A B) (y : Vec) :
    (B.FeasibleRelaxed y ↔ A.FeasibleRelaxed (fun j => y (σ j))) ∧
    costAt B.c 0 y = costAt A.c 0 (fun j => y (σ j)) ∧
    ∀ n t, flow B n t y = flow A n t (fun j => y (σ j)) :=
  ⟨varperm_feasible_iff h y, (varperm_cost h y).symm, fun n t => (varperm_flow h n t y).symm⟩

/-- **`VarPerm` implies `Sim`** of `NestedPerm` (so everything proved for `Sim` — `nested_perm_step`, the portfolio
    around — applies) -/
theorem varperm_sim {σ : Nat → Nat} {A B : AssetProblem} (h : VarPerm σ A B) : Sim A B :=
  ScaledPerm.varperm_sim h

/-- every feasible point of `A` is the image of a feasible point of `B` with the same entries along `σ` -/
theorem varperm_point {σ : Nat → Nat} {A B : AssetProblem} (h : VarPerm σ A B) (x : Vec) (hx : A.FeasibleRelaxed x) :
    ∃ x', B.FeasibleRelaxed x' ∧ costAt B.c 0 x' = costAt A.c 0 x ∧
      (∀ n t, flow B n t x' = flow A n t x) ∧ ∀ j, x' (σ j) = x j :=
  varperm_fwd h x hx

/-- reflexive (on problems with bounds of the right length), transitive, symmetric (the inverse renumbering) -/
theorem varperm_refl (A : AssetProblem) (hl : A.l.length = A.n) (hu : A.u.length = A.n) :
    VarPerm (fun j => j) A A := VarPerm.refl A hl hu

theorem varperm_trans {σ1 σ2 : Nat → Nat} {A B C : AssetProblem} (h1 : VarPerm σ1 A B) (h2 : VarPerm σ2 B C) :
    VarPerm (fun j => σ2 (σ1 j)) A C := h1.trans h2

theorem varperm_symm {σ : Nat → Nat} {A B : AssetProblem} (h : VarPerm σ A B) :
    ∃ τ : Nat → Nat, (∀ j, τ (σ j) = j) ∧ (∀ j, σ (τ j) = j) ∧ VarPerm τ B A := h.symm

/-- the relation keeps the hypotheses: a renumbering of a well-formed, local problem is one -/
theorem varperm_good (gridI : List Nat) {σ : Nat → Nat} {A B : AssetProblem} (h : VarPerm σ A B)
    (hwf : WF gridI A) (hloc : Local A) (hm : MapLocal A) : WF gridI B ∧ Local B ∧ MapLocal B :=
  (sgood_iff gridI B).mp (sgood_varperm gridI h ((sgood_iff gridI A).mpr ⟨hwf, hloc, hm⟩))

/-! ## the inner list of a structured asset permuted -/

/-- **permutation of the inner list, syntactic form** (strengthens `C09N.structured_inner_perm`): the structured asset
    built from the permuted list is the renumbering of the original one along a BLOCK permutation `σ`: there is a map
    `π` of positions with `inner'[π i] = inner[i]` and `σ (offset inner i + j) = offset inner' (π i) + j` for every
    variable `j` of inner asset `i`. -/
theorem structured_inner_perm_syntactic (name : String) (ext : List String) (inner inner' : List AssetProblem)
    (hp : inner.Perm inner') (gridI : List Nat)
    (hwf : ∀ a ∈ inner, WF gridI a) (hloc : ∀ a ∈ inner, Local a) (hm : ∀ a ∈ inner, MapLocal a) :
    ∃ σ : Nat → Nat, VarPerm σ (structured name ext inner gridI) (structured name ext inner' gridI) ∧
      ∃ π : Nat → Nat, ∀ i, i < inner.length → π i < inner'.length ∧
        inner'.getD (π i) default = inner.getD i default ∧
        ∀ j, j < (inner.getD i default).n → σ (offset inner i + j) = offset inner' (π i) + j :=
  structured_perm_blocks name ext gridI hp fun a ha => (sgood_iff gridI a).mpr ⟨hwf a ha, hloc a ha, hm a ha⟩

/-- the conclusion of `C09N.structured_inner_perm` read off the syntactic form: the point `x'` with `x' ∘ σ = x` is
    feasible, has the same cost, the same flows and the same block for every inner asset -/
theorem structured_inner_perm_of_syntactic (name : String) (ext : List String) (inner inner' : List AssetProblem)
    (hp : inner.Perm inner') (gridI : List Nat)
    (hwf : ∀ a ∈ inner, WF gridI a) (hloc : ∀ a ∈ inner, Local a) (hm : ∀ a ∈ inner, MapLocal a)
    (x : Vec) (hx : (structured name ext inner gridI).FeasibleRelaxed x) :
    ∃ x' : Vec, (structured name ext inner' gridI).FeasibleRelaxed x' ∧
      costAt (structured name ext inner' gridI).c 0 x' = costAt (structured name ext inner gridI).c 0 x ∧
      (∀ n t, flow (structured name ext inner' gridI) n t x' = flow (structured name ext inner gridI) n t x) ∧
      ∃ π : Nat → Nat, ∀ i, i < inner.length → π i < inner'.length ∧
        inner'.getD (π i) default = inner.getD i default ∧
        ∀ j, j < (inner.getD i default).n → block inner' (π i) x' j = block inner i x j := by
  obtain ⟨σ, hσ, π, hπ⟩ := structured_inner_perm_syntactic name ext inner inner' hp gridI hwf hloc hm
  obtain ⟨x', h1, h2, h3, h4⟩ := varperm_fwd hσ x hx
  refine ⟨x', h1, h2, h3, π, fun i hi => ?_⟩
  obtain ⟨p1, p2, p3⟩ := hπ i hi
  refine ⟨p1, p2, fun j hj => ?_⟩
  show x' (offset inner' (π i) + j) = x (offset inner i + j)
  rw [← p3 j hj, h4]

/-! ## the scaled wrapper -/

/-- **the scaled wrapper maps renumbered bases to renumbered results**: `σ' = σ` extended by the scale variable —
    since `σ` fixes every index from `A.n` on, the extension is `σ` itself: `σ A.n = A.n` is the scale variable of both
    scaled problems. -/
theorem scaled_varperm {σ : Nat → Nat} {A B : AssetProblem} (h : VarPerm σ A B) (hm : MapLocal A)
    (p : ScaledP) (dtSum : Rat) :
    VarPerm σ (buildScaled p A dtSum) (buildScaled p B dtSum) ∧ σ A.n = A.n ∧
    (A.l.length ≠ 0 → (buildScaled p A dtSum).n = A.n + 1) :=
  ⟨scaled_varperm_core h hm p dtSum, h.perm.fix _ (Nat.le_refl _), fun h0 => by
    unfold buildScaled; rw [if_neg h0]; exact core_n p A dtSum⟩

/-- the capacity variables (`Idisp` of the code) of the renumbered base are the renumbered capacity variables -/
theorem scaled_dispVars {σ : Nat → Nat} {A B : AssetProblem} (h : VarPerm σ A B) :
    ((dispVars A.mapping).map σ).Perm (dispVars B.mapping) := dispVars_varperm h

/-- the scaled wrapper keeps the hypotheses -/
theorem scaled_good (gridI : List Nat) (p : ScaledP) (A : AssetProblem) (dtSum : Rat)
    (hwf : WF gridI A) (hloc : Local A) (hm : MapLocal A) :
    WF gridI (buildScaled p A dtSum) ∧ Local (buildScaled p A dtSum) ∧ MapLocal (buildScaled p A dtSum) :=
  (sgood_iff gridI _).mp (sgood_scaled gridI p A dtSum ((sgood_iff gridI A).mpr ⟨hwf, hloc, hm⟩))

/-- **the case C09Nested left open**: a ScaledAsset over a structure and over the structure with the inner list
    permuted are renumberings of each other (hence `Sim`: same feasible sets up to the map, same cost, same flows) -/
theorem scaled_over_permuted_structure (p : ScaledP) (dtSum : Rat) (name : String) (ext : List String)
    (inner inner' : List AssetProblem) (hp : inner.Perm inner') (gridI : List Nat)
    (hwf : ∀ a ∈ inner, WF gridI a) (hloc : ∀ a ∈ inner, Local a) (hm : ∀ a ∈ inner, MapLocal a) :
    (∃ σ : Nat → Nat, VarPerm σ (buildScaled p (structured name ext inner gridI) dtSum)
      (buildScaled p (structured name ext inner' gridI) dtSum)) ∧
    Sim (buildScaled p (structured name ext inner gridI) dtSum)
      (buildScaled p (structured name ext inner' gridI) dtSum) := by
  obtain ⟨σ, hσ, _⟩ := structured_inner_perm_syntactic name ext inner inner' hp gridI hwf hloc hm
  have hg := sgood_structured name ext inner gridI
    fun a ha => (sgood_iff gridI a).mpr ⟨hwf a ha, hloc a ha, hm a ha⟩
  have h := scaled_varperm_core hσ hg.mvar p dtSum
  exact ⟨⟨σ, h⟩, ScaledPerm.varperm_sim h⟩

/-! ## closure under `structured`; wrappers of both kinds at any depth -/

/-- the structured wrapper keeps the hypotheses -/
theorem structured_good (name : String) (ext : List String) (inner : List AssetProblem) (gridI : List Nat)
    (hwf : ∀ a ∈ inner, WF gridI a) (hloc : ∀ a ∈ inner, Local a) (hm : ∀ a ∈ inner, MapLocal a) :
    WF gridI (structured name ext inner gridI) ∧ Local (structured name ext inner gridI) ∧
      MapLocal (structured name ext inner gridI) :=
  (sgood_iff gridI _).mp (sgood_structured name ext inner gridI
    fun a ha => (sgood_iff gridI a).mpr ⟨hwf a ha, hloc a ha, hm a ha⟩)

/-- **closure under `structured`**: `PermRel inner inner'` — the lists are equal up to order and up to a renumbering
    of the variables of every entry (`VP a a' := ∃ σ, VarPerm σ a a'`; constructors `nil`, `cons`, `swap`, `trans`) —
    gives structured assets that are renumberings of each other; the hypotheses carry over to `inner'`. -/
theorem structured_varperm (name : String) (ext : List String) (inner inner' : List AssetProblem)
    (h : PermRel inner inner') (gridI : List Nat)
    (hwf : ∀ a ∈ inner, WF gridI a) (hloc : ∀ a ∈ inner, Local a) (hm : ∀ a ∈ inner, MapLocal a) :
    (∀ a ∈ inner', WF gridI a ∧ Local a ∧ MapLocal a) ∧
    ∃ σ : Nat → Nat, VarPerm σ (structured name ext inner gridI) (structured name ext inner' gridI) := by
  obtain ⟨hg', hσ⟩ := structured_permRel name ext gridI h
    fun a ha => (sgood_iff gridI a).mpr ⟨hwf a ha, hloc a ha, hm a ha⟩
  exact ⟨fun a ha => (sgood_iff gridI a).mp (hg' a ha), hσ⟩

/-- a plain permutation is such a relation -/
theorem permRel_of_perm (inner inner' : List AssetProblem) (hp : inner.Perm inner') (gridI : List Nat)
    (hwf : ∀ a ∈ inner, WF gridI a) (hloc : ∀ a ∈ inner, Local a) (hm : ∀ a ∈ inner, MapLocal a) :
    PermRel inner inner' :=
  ScaledPerm.permRel_of_perm gridI hp fun a ha => (sgood_iff gridI a).mpr ⟨hwf a ha, hloc a ha, hm a ha⟩

/-- **the portfolio around**: for asset lists equal up to order and entry-wise renumbering (e.g. wrappers of either
    kind with permuted lists below) the assembled portfolio problems have the same feasible set up to ONE renumbering
    `σ` of the variables, with the same value -/
theorem portfolio_varperm (as as' : List AssetProblem) (h : PermRel as as') (gridI : List Nat) (skip : List String)
    (hwf : ∀ a ∈ as, WF gridI a) (hloc : ∀ a ∈ as, Local a) (hm : ∀ a ∈ as, MapLocal a) :
    ∃ σ : Nat → Nat, ∀ y : Vec,
      ((assemble as' gridI skip).FeasibleRelaxed y ↔ (assemble as gridI skip).FeasibleRelaxed (fun j => y (σ j))) ∧
      (assemble as' gridI skip).value y = (assemble as gridI skip).value (fun j => y (σ j)) := by
  obtain ⟨_, σ, hσ⟩ := structured_varperm "" skip as as' h gridI hwf hloc hm
  refine ⟨σ, fun y => ⟨?_, ?_⟩⟩
  · rw [← structured_feasible "" skip as' gridI y, ← structured_feasible "" skip as gridI _]
    exact varperm_feasible_iff hσ y
  · have := varperm_cost hσ y
    rw [structured_c, structured_c] at this
    unfold Problem.value
    rw [this]

/-- **wrappers in wrappers, scaled nodes included, any depth** (structural induction over object trees `STree`: a
    finished asset problem, a structured asset around a list of object trees, or a scaled asset over an object tree;
    `TPerm`: lists of trees equal up to the order of the wrapped lists at EVERY level, below structured and scaled
    nodes): if all leaves are well-formed, local and map-local, the built problems are equal up to order and a
    renumbering of the variables of every entry (`PermRel`), and the leaves of the other list satisfy the
    hypotheses too.  Compose with `portfolio_varperm` / `structured_varperm` at the top level. -/
theorem nested_perm_scaled (gridI : List Nat) (ts ts' : List STree) (h : TPerm ts ts') (hg : sgoodL gridI ts) :
    sgoodL gridI ts' ∧ PermRel (sbuildL gridI ts) (sbuildL gridI ts') :=
  tperm_permRel gridI h hg

/-- one object tree: the wrapper and the wrapper with the lists permuted at every level below are renumberings of
    each other, hence correspond semantically (`Sim`) -/
theorem nested_perm_scaled_tree (gridI : List Nat) (t t' : STree) (h : TPerm [t] [t']) (hg : t.good gridI) :
    (∃ σ : Nat → Nat, VarPerm σ (t.build gridI) (t'.build gridI)) ∧ Sim (t.build gridI) (t'.build gridI) := by
  obtain ⟨_, σ, hσ⟩ := tperm_tree gridI t t' h hg
  exact ⟨⟨σ, hσ⟩, ScaledPerm.varperm_sim hσ⟩

/-! ## Concrete instances (non-vacuity)

The inner portfolio of `C09Nested.lean` (`in1`, `inT`, `in2` on the grid `[0,1]`, wrapper `"S"`, external node `"N"`),
the scaled asset `exP` over it. -/

open EAO.C09N

theorem inMapLocal : ∀ a ∈ [in1, inT, in2], MapLocal a := by
  intro a ha
  simp only [List.mem_cons, List.not_mem_nil, or_false] at ha
  rcases ha with rfl | rfl | rfl <;> (intro m hm; revert m hm; decide)

example := structured_inner_perm_syntactic "S" ["N"] _ _ inRot [0, 1] inWF inLocal inMapLocal
example := structured_inner_perm_of_syntactic "S" ["N"] _ _ inSwap [0, 1] inWF inLocal inMapLocal inX inFeasible
example := scaled_over_permuted_structure exP 2 "S" ["N"] _ _ inRot [0, 1] inWF inLocal inMapLocal
example := structured_good "S" ["N"] _ [0, 1] inWF inLocal inMapLocal

/-- the two scaled problems evaluated: the rotation `[in1, inT, in2] → [in2, in1, inT]` is the block permutation
    `0,1 ↦ 1,2`, `2,3 ↦ 3,4`, `4 ↦ 0`, the scale variable `5` stays; the capacity variables are those at the
    external node and at the inner node (type 'i', not boolean) — all five — in the order of the mapping -/
example :
    (buildScaled exP (structured "S" ["N"] [in1, inT, in2] [0, 1]) 2).c = [2, 0, 0, 0, -3, 6] ∧
    (buildScaled exP (structured "S" ["N"] [in2, in1, inT] [0, 1]) 2).c = [-3, 2, 0, 0, 0, 6] ∧
    (buildScaled exP (structured "S" ["N"] [in1, inT, in2] [0, 1]) 2).u = [10, 10, 8, 8, 0, 2] ∧
    (buildScaled exP (structured "S" ["N"] [in2, in1, inT] [0, 1]) 2).u = [0, 10, 10, 8, 8, 2] ∧
    dispVars (structured "S" ["N"] [in1, inT, in2] [0, 1]).mapping = [0, 1, 2, 3, 4] ∧
    dispVars (structured "S" ["N"] [in2, in1, inT] [0, 1]).mapping = [0, 1, 2, 3, 4] ∧
    (buildScaled exP (structured "S" ["N"] [in1, inT, in2] [0, 1]) 2).rows.length = 13 ∧
    (buildScaled exP (structured "S" ["N"] [in2, in1, inT] [0, 1]) 2).rows.length = 13 := by
  decide +kernel

/-- the order of the rows and of the coefficients of a nodal row does change (why `RowsRel` is a multiset relation up
    to the order of coefficients): the nodal row of (`"a"`, step 0) — supplier, transport, consumer -/
example :
    ((structured "S" ["N"] [in1, inT, in2] [0, 1]).rows.map (·.coeffs)).getD 1 [] = [(0, 1), (2, -1), (4, 1)] ∧
    ((structured "S" ["N"] [in2, in1, inT] [0, 1]).rows.map (·.coeffs)).getD 1 [] = [(0, 1), (1, 1), (3, -1)] := by
  decide +kernel

/-- object trees: the scaled asset over the structure `"S"` next to a consumer, inside a structure `"T"`; the lists
    permuted at both levels, the inner one BELOW the scaled node -/
def exS : STree :=
  .node "T" ["N"] [.scaled exP 2 (.node "S" ["N"] [.leaf in1, .leaf inT, .leaf in2]), .leaf outC]
def exS' : STree :=
  .node "T" ["N"] [.leaf outC, .scaled exP 2 (.node "S" ["N"] [.leaf in2, .leaf in1, .leaf inT])]

theorem exTPerm : TPerm [exS] [exS'] :=
  .node "T" ["N"]
    (.trans
      (.scaled exP 2
        (.node "S" ["N"] (.trans (.leaf in1 (.swap (.leaf inT) (.leaf in2) [])) (.swap (.leaf in1) (.leaf in2) [.leaf inT]))
          .nil)
        (.leaf outC .nil))
      (.swap _ (.leaf outC) []))
    .nil

theorem exSGood : exS.good [0, 1] := by
  have hC : MapLocal outC := by intro m hm; revert m hm; decide
  simp only [exS, STree.good, sgoodL, and_true]
  exact ⟨⟨(sgood_iff _ _).mpr ⟨inWF in1 (by simp), inLocal in1 (by simp), inMapLocal in1 (by simp)⟩,
    (sgood_iff _ _).mpr ⟨inWF inT (by simp), inLocal inT (by simp), inMapLocal inT (by simp)⟩,
    (sgood_iff _ _).mpr ⟨inWF in2 (by simp), inLocal in2 (by simp), inMapLocal in2 (by simp)⟩⟩,
    (sgood_iff _ _).mpr ⟨outCWF.1, outCWF.2, hC⟩⟩

example := nested_perm_scaled_tree [0, 1] exS exS' exTPerm exSGood
example := nested_perm_scaled [0, 1] [exS] [exS'] exTPerm (by rw [sgoodL, sgoodL]; exact ⟨exSGood, trivial⟩)

example : exS.build [0, 1] =
      structured "T" ["N"] [buildScaled exP (structured "S" ["N"] [in1, inT, in2] [0, 1]) 2, outC] [0, 1] ∧
    exS'.build [0, 1] =
      structured "T" ["N"] [outC, buildScaled exP (structured "S" ["N"] [in2, in1, inT] [0, 1]) 2] [0, 1] := by
  simp [exS, exS', STree.build, sbuildL]

/-- the portfolio around the two wrappers: hypotheses of the top-level list -/
theorem exPortGood : ∀ a ∈ [buildScaled exP (structured "S" ["N"] [in1, inT, in2] [0, 1]) 2, outC],
    WF [0, 1] a ∧ Local a ∧ MapLocal a := by
  intro a ha
  simp only [List.mem_cons, List.not_mem_nil, or_false] at ha
  rcases ha with rfl | rfl
  · obtain ⟨h1, h2, h3⟩ := structured_good "S" ["N"] [in1, inT, in2] [0, 1] inWF inLocal inMapLocal
    exact scaled_good [0, 1] exP _ 2 h1 h2 h3
  · exact ⟨outCWF.1, outCWF.2, by intro m hm; revert m hm; decide⟩

example : ∃ σ : Nat → Nat, ∀ y : Vec,
    ((assemble [outC, buildScaled exP (structured "S" ["N"] [in2, in1, inT] [0, 1]) 2] [0, 1] []).FeasibleRelaxed y ↔
      (assemble [buildScaled exP (structured "S" ["N"] [in1, inT, in2] [0, 1]) 2, outC] [0, 1] []).FeasibleRelaxed
        (fun j => y (σ j))) ∧
    (assemble [outC, buildScaled exP (structured "S" ["N"] [in2, in1, inT] [0, 1]) 2] [0, 1] []).value y =
      (assemble [buildScaled exP (structured "S" ["N"] [in1, inT, in2] [0, 1]) 2, outC] [0, 1] []).value
        (fun j => y (σ j)) :=
  portfolio_varperm _ _
    (PermRel.trans
      (.cons (scaled_over_permuted_structure exP 2 "S" ["N"] _ _ inRot [0, 1] inWF inLocal inMapLocal).1
        (.cons ⟨_, varperm_refl outC (by decide) (by decide)⟩ .nil))
      (.swap _ outC [])) [0, 1] []
    (fun a ha => (exPortGood a ha).1) (fun a ha => (exPortGood a ha).2.1) (fun a ha => (exPortGood a ha).2.2)

/-! ## why the relation has to be syntactic

`Sim` of two base problems does not carry over to the scaled assets: the scaled wrapper reads which variables are
capacity variables, their bounds and the right-hand sides — not the feasible set. -/

/-- a supplier with capacity 5 … -/
def wA : AssetProblem :=
  { name := "a", nodes := ["N"], c := [0], l := [0], u := [5], rows := [],
    mapping := [⟨0, "a", some "N", .d, 0, 1, false, "disp"⟩] }
/-- … and the same supplier with the capacity written as a row against an auxiliary variable fixed to 1 -/
def wB : AssetProblem :=
  { name := "a", nodes := ["N"], c := [0, 0], l := [0, 1], u := [5, 1], rows := [⟨[(0, 1), (1, -5)], 0, .U⟩],
    mapping := [⟨0, "a", some "N", .d, 0, 1, false, "disp"⟩] }

theorem wFlow (A : AssetProblem) (hA : A.mapping = [⟨0, "a", some "N", .d, 0, 1, false, "disp"⟩]) (n : String) (t : Nat)
    (y : Vec) : flowOf A n t y = if isDisp n t ⟨0, "a", some "N", .d, 0, 1, false, "disp"⟩ then y 0 * 1 else 0 := by
  unfold flowOf
  rw [hA]
  by_cases h : isDisp n t ⟨0, "a", some "N", .d, 0, 1, false, "disp"⟩ = true
  · simp only [List.filter_cons, h, if_true, List.filter_nil, List.map_cons, List.map_nil, List.sum_cons, List.sum_nil,
      MapRow.contrib]
    grind
  · simp only [List.filter_cons, h, if_false, List.filter_nil, List.map_nil, List.sum_nil, Bool.false_eq_true]

theorem wSim : Sim wA wB := by
  constructor
  · intro y hy
    refine ⟨fun j => if j = 0 then y 0 else 1, ?_, ?_, ?_⟩
    · obtain ⟨hb, _⟩ := hy
      have h0 := hb 0 (by decide)
      have e1 : wA.l.getD 0 0 = 0 := by decide +kernel
      have e2 : wA.u.getD 0 0 = 5 := by decide +kernel
      rw [e1, e2] at h0
      constructor
      · intro j hj
        have hj' : j < 2 := hj
        match j, hj' with
        | 0, _ =>
          have e3 : wB.l.getD 0 0 = 0 := by decide +kernel
          have e4 : wB.u.getD 0 0 = 5 := by decide +kernel
          rw [e3, e4]; exact h0
        | 1, _ =>
          have e3 : wB.l.getD 1 0 = 1 := by decide +kernel
          have e4 : wB.u.getD 1 0 = 1 := by decide +kernel
          rw [e3, e4]; simp
      · intro r hr
        simp only [wB, List.mem_cons, List.not_mem_nil, or_false] at hr
        subst hr
        simp only [Row.Sat, Row.eval, List.map_cons, List.map_nil, List.sum_cons, List.sum_nil]
        simp
        grind
    · simp only [wA, wB, costAt]; grind
    · intro n t
      rw [wFlow wB rfl, wFlow wA rfl]
      simp
  · intro y hy
    refine ⟨y, ?_, ?_, ?_⟩
    · obtain ⟨hb, _⟩ := hy
      have h0 := hb 0 (by decide)
      constructor
      · intro j hj
        have hj' : j < 1 := hj
        have : j = 0 := by omega
        subst this
        exact h0
      · intro r hr; simp [wA] at hr
    · simp only [wA, wB, costAt]; grind
    · intro n t
      rw [wFlow wB rfl, wFlow wA rfl]


/-- the point "capacity doubled, dispatch 10" of the scaled supplier -/
def wX : Vec := fun j => [10, 2].getD j 0

theorem wScaledFeasible : (buildScaled exP wA 2).FeasibleRelaxed wX := by decide +kernel

theorem wLen : 0 < (buildScaled exP wB 2).rows.length := by decide +kernel

/-- **why the relation has to be syntactic**: `wA` and `wB` correspond semantically (`Sim`: same feasible dispatch,
    cost, flows), the scaled assets over them do not — the scaled wrapper scales the bound `u = 5` of the dispatch
    variable of `wA` but neither the bounds of the auxiliary variable of `wB` nor the matrix coefficient 5 -/
theorem sim_not_enough_for_scaled :
    Sim wA wB ∧ ¬ Sim (buildScaled exP wA 2) (buildScaled exP wB 2) := by
  refine ⟨wSim, ?_⟩
  rintro ⟨hf, _⟩
  obtain ⟨y, ⟨hb, hr⟩, _, hfl⟩ := hf wX wScaledFeasible
  have hsat := hr ((buildScaled exP wB 2).rows[0]'wLen) (List.getElem_mem _)
  have hc : ((buildScaled exP wB 2).rows[0]'wLen).coeffs = [(0, 1), (1, -5), (2, 0)] := by
    decide +kernel
  have hk : ((buildScaled exP wB 2).rows[0]'wLen).kind = .U := by decide +kernel
  have hrhs : ((buildScaled exP wB 2).rows[0]'wLen).rhs = 0 := by decide +kernel
  unfold Row.Sat at hsat
  rw [hk] at hsat
  simp only [Row.eval, hc, hrhs, List.map_cons, List.map_nil, List.sum_cons, List.sum_nil] at hsat
  have h1 := (hb 1 (by decide +kernel)).2
  have e1 : (buildScaled exP wB 2).u.getD 1 0 = 1 := by decide +kernel
  rw [e1] at h1
  have h2 := hfl "N" 0
  have e2 : flowOf (buildScaled exP wA 2) "N" 0 wX = 10 := by decide +kernel
  have hm : (buildScaled exP wB 2).mapping =
      [⟨0, "sc", some "N", .d, 0, 1, false, "disp"⟩, ⟨2, "sc", some "N", .other "size", 0, 1, false, "scale"⟩] := by
    decide +kernel
  rw [e2] at h2
  unfold flowOf at h2
  rw [hm] at h2
  simp [isDisp, MapRow.contrib] at h2
  grind

end EAO.C09S
