import EAO.Model.Periodic
import EAO.Model.Readout
import EAO.Lemmas.Blocks
import EAO.Lemmas.Merge
/-!
# C13 — coarse asset frequency and periodicity equal the fine problem plus equalities

Property theorems only; helper lemmas in `EAO/Lemmas/Merge.lean`.

* `merge_columns` — generic: merging the columns of an asset problem along an idempotent leader map
  (`mergeProblem`: costs summed into the leader, columns renamed, leaders compacted onto positions) is
  the original problem with each variable's bounds replaced by its leader's PLUS the equalities
  `x_j = x_(lead j)`: same rows, same objective, same dispatch read-out, both directions.
* `periodic_groups_sound` — whatever `makePeriodic` merges shares a group (asset, node ≠ NaN, type,
  var_name, duration, position in period).  The converse is FALSE for the code as it is (a variable with
  several rows is merged only once): `periodic_groups_complete_counterexample` (finding F-13f).
* `coarse_weights*` — for any incoming mapping the rows `extendMinor` writes for a coarse row carry
  `(dt_fine/dt_coarse)·f`; per row they sum to `f` and give a constant rate (finding F-13e, accumulation of
  the weights for mappings with a `disp_factor` column, is repaired in the code: `e844f73`).
* `makePeriodic_is_merge`, `makePeriodic_equiv` — the literal loop IS the generic merge along its final leader
  map when the groups form a partition of the variables (the aligned case), hence `merge_columns` applies to
  what `makePeriodic` returns; without that hypothesis the tie is checked at run time on every generated case
  (`agreesWithGeneric`, driver field `generic`).
-/
namespace EAO.C13
open EAO EAO.Merge

/-- the original problem with group bounds: every variable within the bounds given to its leader -/
def GroupBounds (lead : Nat → Nat) (n : Nat) (lbar ubar : List Rat) (x : Vec) : Prop :=
  ∀ j, j < n → lbar.getD (lead j) 0 ≤ x j ∧ x j ≤ ubar.getD (lead j) 0

/-- the equalities that merging imposes -/
def Equalities (lead : Nat → Nat) (n : Nat) (x : Vec) : Prop := ∀ j, j < n → x j = x (lead j)

/-- **C13 `merge_columns`.**  Let `lead` be idempotent and map `0 … n-1` into itself, `Q` the merged
    problem with leader bounds `lbar`, `ubar`, and `σ j` the position of `j`'s leader.  Then
    (1) every point `z` of `Q` expands to `x = z ∘ σ`, which satisfies the equalities, is feasible for the
    original rows and group bounds iff `z` is feasible for `Q`, has the same objective and the same dispatch
    read-out at every asset, node and step;
    (2) every `x` satisfying the equalities is such an expansion (on the variables of the problem). -/
theorem merge_columns (P : AssetProblem) (lead : Nat → Nat) (lbar ubar : List Rat)
    (hidem : ∀ j, lead (lead j) = lead j) (hclosed : ∀ j, j < P.n → lead j < P.n) :
    (∀ z : Vec,
        Equalities lead P.n (fun j => z (sigmaOf lead P.n j)) ∧
        ((mergeProblem P lead lbar ubar).FeasibleRelaxed z ↔
          GroupBounds lead P.n lbar ubar (fun j => z (sigmaOf lead P.n j)) ∧
            ∀ r ∈ P.rows, r.Sat (fun j => z (sigmaOf lead P.n j))) ∧
        costAt (mergeProblem P lead lbar ubar).c 0 z = costAt P.c 0 (fun j => z (sigmaOf lead P.n j)) ∧
        ∀ a n t, dispatchOut (mergeProblem P lead lbar ubar).mapping a n t z
          = dispatchOut P.mapping a n t (fun j => z (sigmaOf lead P.n j))) ∧
    (∀ x : Vec, Equalities lead P.n x → ∃ z : Vec, ∀ j, j < P.n → x j = z (sigmaOf lead P.n j)) := by
  refine ⟨fun z => ⟨?_, ?_, ?_, ?_⟩, ?_⟩
  · intro j _
    show z (sigmaOf lead P.n j) = z (sigmaOf lead P.n (lead j))
    unfold sigmaOf; rw [hidem]
  · unfold AssetProblem.FeasibleRelaxed GroupBounds
    show (InBounds (compact (keepOf lead P.n) lbar) (compact (keepOf lead P.n) ubar) z ∧
      ∀ r ∈ P.rows.map (Row.rename (sigmaOf lead P.n)), r.Sat z) ↔ _
    rw [inBounds_merge lead P.n lbar ubar hidem hclosed z, rows_sat_map_rename]
  · exact costAt_merge lead P.c hidem hclosed z
  · intro a n t
    exact dispatchOut_relabel P.mapping (sigmaOf lead P.n) a n t z
  · intro x hx
    refine ⟨fun p => x ((keepOf lead P.n).getD p 0), fun j hj => ?_⟩
    have hp := sigma_lt lead P.n hidem hclosed j hj
    show x j = x ((keepOf lead P.n).getD (sigmaOf lead P.n j) 0)
    rw [List.getD_eq_getElem?_getD, List.getElem?_eq_getElem hp, Option.getD_some,
      keep_sigma lead P.n hidem hclosed j hj]
    exact hx j hj

/-- the value EAO maximises is the same (`-c·x`) -/
theorem merge_columns_value (P : AssetProblem) (lead : Nat → Nat) (lbar ubar : List Rat)
    (hidem : ∀ j, lead (lead j) = lead j) (hclosed : ∀ j, j < P.n → lead j < P.n) (z : Vec) :
    - costAt (mergeProblem P lead lbar ubar).c 0 z = - costAt P.c 0 (fun j => z (sigmaOf lead P.n j)) := by
  rw [((merge_columns P lead lbar ubar hidem hclosed).1 z).2.2.1]

/-- four variables, one row over all of them -/
def merge4 : AssetProblem :=
  { name := "a", nodes := ["n"], c := [1, 2, 3, 4], l := [0, 0, 0, 0], u := [1, 1, 1, 1],
    rows := [{ coeffs := [(0, 1), (1, 1), (2, 1), (3, 1)], rhs := 3, kind := .U }], mapping := [] }

/-- non-vacuity: `2 → 0`, `3 → 1`; two leaders remain, costs `1+3` and `2+4` -/
example :
    (∀ j, (fun j => j % 2) ((fun j => j % 2) j) = (fun j => j % 2) j) ∧
      (∀ j, j < merge4.n → (fun j => j % 2) j < merge4.n) ∧
      (mergeProblem merge4 (fun j => j % 2) merge4.l merge4.u).c = [4, 6] ∧
      ((mergeProblem merge4 (fun j => j % 2) merge4.l merge4.u).rows.map (·.coeffs)) = [[(0, 1), (1, 1), (0, 1), (1, 1)]] := by
  refine ⟨fun j => by simp, fun j hj => ?_, by decide +kernel, by decide +kernel⟩
  have : j < 4 := hj
  show j % 2 < 4
  omega

/-- **C13 `makePeriodic_is_merge`.**  The literal loop of `__make_periodic__` IS the generic merge along its final
    leader map whenever the groups form a partition of the variables (`Merge.Partition`: two groups that share a
    variable have the same variables — one group per variable, a transport's two nodes, a coarse asset whose
    period and duration are multiples of its coarse step).  For a well-formed input (`c` as long as `l`, row
    columns within the variables): the leader map is idempotent and closed, bounds, mapping, name, nodes are
    those of `mergeProblem`, costs and rows are the same linear functionals (rows with equal right-hand side and
    type).  Without the partition hypothesis the statement fails (`periodic_groups_complete_counterexample`);
    on every generated case the executable `agreesWithGeneric` checks the same tie at run time. -/
theorem makePeriodic_is_merge (P : AssetProblem) (labels : List (Nat × Nat × Nat)) (Q : AssetProblem)
    (hlen : P.c.length = P.l.length) (hcols : ∀ r ∈ P.rows, ∀ p ∈ r.coeffs, p.1 < P.l.length)
    (hpart : Partition P.mapping labels) (h : makePeriodic P labels = .ok Q) :
    (∀ j, finalLead P labels (finalLead P labels j) = finalLead P labels j) ∧
    (∀ j, j < P.n → finalLead P labels j < P.n) ∧
    Q.l = (mergeProblem P (finalLead P labels) (mergeAll P labels).l (mergeAll P labels).u).l ∧
    Q.u = (mergeProblem P (finalLead P labels) (mergeAll P labels).l (mergeAll P labels).u).u ∧
    Q.mapping = (mergeProblem P (finalLead P labels) (mergeAll P labels).l (mergeAll P labels).u).mapping ∧
    Q.name = P.name ∧ Q.nodes = P.nodes ∧
    (∀ z, costAt Q.c 0 z
      = costAt (mergeProblem P (finalLead P labels) (mergeAll P labels).l (mergeAll P labels).u).c 0 z) ∧
    Q.rows.length = (mergeProblem P (finalLead P labels) (mergeAll P labels).l (mergeAll P labels).u).rows.length ∧
    ∀ (i : Nat) (r r' : Row), Q.rows[i]? = some r →
      (mergeProblem P (finalLead P labels) (mergeAll P labels).l (mergeAll P labels).u).rows[i]? = some r' →
      (∀ z, r.eval z = r'.eval z) ∧ r.rhs = r'.rhs ∧ r.kind = r'.kind :=
  makePeriodic_is_merge_aux P labels Q hlen hcols hpart h

/-- the partition hypothesis is decidable on the input: the executable `partitionCheck` (reported by the driver
    for every case) implies it -/
theorem partition_of_partitionCheck (M : List MapRow) (labels : List (Nat × Nat × Nat))
    (h : partitionCheck M labels = true) : Partition M labels :=
  partition_of_check M labels h

/-- **C13 for what `makePeriodic` returns** (`merge_columns` applied through `makePeriodic_is_merge`): the
    periodic problem `Q` is the original problem with each variable's bounds replaced by the (averaged) bounds of
    its leader plus the equalities `x_j = x_(lead j)` — feasibility, objective and dispatch read-out agree at
    `z` and its expansion `z ∘ σ`, and every point satisfying the equalities is such an expansion. -/
theorem makePeriodic_equiv (P : AssetProblem) (labels : List (Nat × Nat × Nat)) (Q : AssetProblem)
    (hlen : P.c.length = P.l.length) (hcols : ∀ r ∈ P.rows, ∀ p ∈ r.coeffs, p.1 < P.l.length)
    (hpart : Partition P.mapping labels) (h : makePeriodic P labels = .ok Q) :
    (∀ z : Vec,
        Equalities (finalLead P labels) P.n (fun j => z (sigmaOf (finalLead P labels) P.n j)) ∧
        (Q.FeasibleRelaxed z ↔
          GroupBounds (finalLead P labels) P.n (mergeAll P labels).l (mergeAll P labels).u
              (fun j => z (sigmaOf (finalLead P labels) P.n j)) ∧
            ∀ r ∈ P.rows, r.Sat (fun j => z (sigmaOf (finalLead P labels) P.n j))) ∧
        costAt Q.c 0 z = costAt P.c 0 (fun j => z (sigmaOf (finalLead P labels) P.n j)) ∧
        ∀ a n t, dispatchOut Q.mapping a n t z
          = dispatchOut P.mapping a n t (fun j => z (sigmaOf (finalLead P labels) P.n j))) ∧
    (∀ x : Vec, Equalities (finalLead P labels) P.n x →
      ∃ z : Vec, ∀ j, j < P.n → x j = z (sigmaOf (finalLead P labels) P.n j)) := by
  obtain ⟨hidem, hclosed, hl, hu, hm, _, _, hc, hrl, hrows⟩ := makePeriodic_is_merge P labels Q hlen hcols hpart h
  obtain ⟨hmc, hsurj⟩ := merge_columns P (finalLead P labels) (mergeAll P labels).l (mergeAll P labels).u hidem hclosed
  refine ⟨fun z => ?_, hsurj⟩
  obtain ⟨h1, h2, h3, h4⟩ := hmc z
  refine ⟨h1, ?_, ?_, ?_⟩
  · rw [← h2]
    unfold AssetProblem.FeasibleRelaxed
    rw [hl, hu, rows_sat_of_rel Q.rows _ hrl hrows z]
  · rw [hc z, h3]
  · intro a n t; rw [hm, h4]

/-- four hourly variables, one row each, a period of two steps: positions repeat, `0 ~ 2`, `1 ~ 3` -/
def per4 : AssetProblem :=
  { name := "a", nodes := ["n"], c := [1, 2, 3, 4], l := [-1, -1, -3, -1], u := [1, 1, 1, 3],
    rows := [{ coeffs := [(0, 1), (1, 1), (2, 1), (3, 1)], rhs := 3, kind := .U }],
    mapping := (List.range 4).map fun t =>
      { var := t, asset := "a", node := some "n", kind := .d, step := t, factor := 1, isBool := false, varName := "disp" } }

/-- non-vacuity of `makePeriodic_is_merge` / `makePeriodic_equiv`: the hypotheses hold for `per4` and the result has
    two variables with summed costs `1+3`, `2+4` and averaged bounds -/
example :
    per4.c.length = per4.l.length ∧ (∀ r ∈ per4.rows, ∀ p ∈ r.coeffs, p.1 < per4.l.length) ∧
    Partition per4.mapping [(1,1,0),(1,1,1),(1,2,0),(1,2,1)] ∧
    ((makePeriodic per4 [(1,1,0),(1,1,1),(1,2,0),(1,2,1)]).toOption.map fun Q => (Q.c, Q.l, Q.u, Q.mapping.map (·.var)))
      = some ([4, 6], [-2, -1], [1, 2], [0, 1, 0, 1]) := by
  refine ⟨rfl, by decide +kernel, partition_of_single_rows _ _ (by decide +kernel), by decide +kernel⟩

/-- a transport (one variable per step, rows at both nodes) with a period of two steps satisfies the partition
    hypothesis although every variable lies in two groups -/
example :
    partitionCheck ((List.range 4).flatMap fun t =>
        [({ var := t, asset := "t", node := some "n1", kind := .d, step := t, factor := -1, isBool := false, varName := "disp" } : MapRow),
         { var := t, asset := "t", node := some "n2", kind := .d, step := t, factor := 1/2, isBool := false, varName := "disp" }])
      [(1,1,0),(1,1,1),(1,2,0),(1,2,1)] = true := by
  decide +kernel

/-- **C13 `periodic_groups` (soundness).**  If `makePeriodic` merges variable `v` into `w ≠ v`, then `v`
    and `w` have mapping rows with the same asset, the same node (not NaN), type, variable name, duration
    index and position in the period. -/
theorem periodic_groups_sound (P : AssetProblem) (labels : List (Nat × Nat × Nat)) (v : Nat)
    (hv : finalLead P labels v ≠ v) :
    ∃ m1, m1 ∈ P.mapping ∧ ∃ m2, m2 ∈ P.mapping ∧ m1.var = v ∧ m2.var = finalLead P labels v ∧
      m1.asset = m2.asset ∧ (∃ n, m1.node = some n ∧ m2.node = some n) ∧ m1.kind = m2.kind ∧
      m1.varName = m2.varName ∧ (∃ d, durOf labels m1 = some d ∧ durOf labels m2 = some d) ∧
      (∃ s, subOf labels m1 = some s ∧ subOf labels m2 = some s) := by
  obtain ⟨k, m1, hm1, m2, hm2, hv1, hv2, hg1, hg2⟩ := mergeAll_leadInv P labels v hv
  exact ⟨m1, hm1, m2, hm2, hv1, hv2, inGroup_same labels k m1 m2 hg1 hg2⟩

/-- labels of ten hourly steps with a period of five steps, one duration -/
def labels10 : List (Nat × Nat × Nat) :=
  [(1,1,0),(1,1,1),(1,1,2),(1,1,3),(1,1,4),(1,2,0),(1,2,1),(1,2,2),(1,2,3),(1,2,4)]

/-- five coarse variables of two steps each (what `extendMinor` makes of a contract with `freq='2h'`) -/
def coarse5 : AssetProblem :=
  { name := "a", nodes := ["n"], c := [1, 2, 3, 4, 5], l := [-2, -2, -2, -2, -2], u := [2, 2, 2, 2, 2], rows := [],
    mapping := (List.range 10).map fun t =>
      { var := t / 2, asset := "a", node := some "n", kind := .d, step := t, factor := 1/2, isBool := false, varName := "disp" } }

/-- non-vacuity of `periodic_groups_sound` and **failure of the converse** (finding F-13f): variables 1 and 3
    both have a row at position 2 of a period (steps 2 and 7), yet 3 is merged into 0 and 1 stays a leader —
    the dispatch at position 2 differs between the two periods.  `stepLabels` yields these labels. -/
theorem periodic_groups_complete_counterexample :
    stepLabels [0, 1, 2, 3, 4, 5, 6, 7, 8, 9] [0, 5, 10, 15] [0, 18] = labels10 ∧
    (mergeAll coarse5 labels10).leadOf = [0, 1, 0, 0, 1] ∧
    (∃ m1 ∈ coarse5.mapping, ∃ m2 ∈ coarse5.mapping, m1.var = 1 ∧ m2.var = 3 ∧
      subOf labels10 m1 = subOf labels10 m2 ∧ durOf labels10 m1 = durOf labels10 m2) ∧
    finalLead coarse5 labels10 1 ≠ finalLead coarse5 labels10 3 ∧
    ((makePeriodic coarse5 labels10).toOption.map fun Q => (Q.c, Q.mapping.map (·.var)))
      = some ([1 + 3 + 4, 2 + 5], [0, 0, 1, 1, 0, 0, 0, 0, 1, 1]) := by
  refine ⟨by decide +kernel, by decide +kernel, ?_, by decide +kernel, by decide +kernel⟩
  refine ⟨{ var := 1, asset := "a", node := some "n", kind := .d, step := 2, factor := 1/2, isBool := false, varName := "disp" },
    by decide +kernel,
    { var := 3, asset := "a", node := some "n", kind := .d, step := 7, factor := 1/2, isBool := false, varName := "disp" },
    by decide +kernel, rfl, rfl, by decide +kernel, by decide +kernel⟩

/-- `stepLabels` gives one label per grid step -/
theorem stepLabels_length (pts periods durations : List Int) :
    (stepLabels pts periods durations).length = pts.length := by
  have aux : ∀ (ts : List Int) (a b c : Nat), (stepLabelsAux periods durations ts a b c).length = ts.length := by
    intro ts
    induction ts with
    | nil => intro a b c; simp [stepLabelsAux]
    | cons t ts ih => intro a b c; simp only [stepLabelsAux, List.length_cons]; rw [ih]
  exact aux pts 0 0 0

/-- **C13 `coarse_weights`.**  For ANY incoming mapping row `r` (with or without a `disp_factor` column; a
    missing factor is 1) the rows written for it carry, in the order of the minor steps, the factor
    `(dt_fine/dt_coarse) · r.factor` of their own minor step. -/
theorem coarse_weights (dtFine : List Rat) (dtCoarse : Rat) (r : MapRow) (I : List Nat) :
    (extendSteps dtFine dtCoarse r I).map (·.factor) = I.map (fun t => dtFine.getD t 0 / dtCoarse * r.factor) ∧
    (extendSteps dtFine dtCoarse r I).map (·.step) = I :=
  ⟨extendSteps_factors dtFine dtCoarse r I, extendSteps_steps dtFine dtCoarse r I⟩

/-- per original row the written factors sum to the row's factor when the coarse step is the sum of its
    minor steps (to one for a mapping without factors) -/
theorem coarse_weights_sum (dtFine : List Rat) (dtCoarse : Rat) (r : MapRow) (I : List Nat)
    (hsum : dtCoarse = (I.map fun t => dtFine.getD t 0).sum) (h0 : dtCoarse ≠ 0) :
    ((extendSteps dtFine dtCoarse r I).map (·.factor)).sum = r.factor := by
  rw [extendSteps_factors]
  have h1 : (I.map fun t => dtFine.getD t 0 / dtCoarse * r.factor)
      = (I.map fun t => dtFine.getD t 0 / dtCoarse).map (· * r.factor) := by
    rw [List.map_map]; rfl
  have h2 : (I.map fun t => dtFine.getD t 0 / dtCoarse) = (I.map fun t => dtFine.getD t 0).map (· / dtCoarse) := by
    rw [List.map_map]; rfl
  rw [h1, sum_map_mul_right, h2, sum_map_div, ← hsum, Rat.div_def, Rat.mul_inv_cancel _ h0]
  grind

/-- hence constant rate: the volume a coarse variable `x` puts on a minor step through row `r`, divided by
    the length of that step, is `x · r.factor / dt_coarse` for every minor step -/
theorem coarse_constant_rate (dtFine : List Rat) (dtCoarse : Rat) (r : MapRow) (I : List Nat)
    (x : Rat) (m : MapRow) (hm : m ∈ extendSteps dtFine dtCoarse r I)
    (hdt : dtFine.getD m.step 0 ≠ 0) :
    x * m.factor / dtFine.getD m.step 0 = x * r.factor / dtCoarse := by
  rw [(mem_extendSteps dtFine dtCoarse r I m hm).2.1]
  simp only [Rat.div_def]
  have := Rat.mul_inv_cancel _ hdt
  calc x * (dtFine.getD m.step 0 * dtCoarse⁻¹ * r.factor) * (dtFine.getD m.step 0)⁻¹
      = x * r.factor * dtCoarse⁻¹ * (dtFine.getD m.step 0 * (dtFine.getD m.step 0)⁻¹) := by grind
    _ = x * r.factor * dtCoarse⁻¹ := by rw [this]; grind

/-- the same on the level of `extendMinor`, for any mapping: every output row stems from a row `r` of the
    coarse mapping, keeps its variable, asset, node, type and name, sits on a minor step of `r`'s coarse step
    `i` and carries the factor `dt_fine/dt_coarse(i) · r.factor` -/
theorem coarse_weights_extendMinor (M : List MapRow) (cg : CoarseGrid) (dtFine : List Rat) (M' : List MapRow)
    (h : extendMinor M cg dtFine = .ok M') (m : MapRow) (hm : m ∈ M') :
    ∃ r, r ∈ M ∧ ∃ i, majorOf cg r = some i ∧ m.step ∈ cg.minor.getD i [] ∧
      m.factor = dtFine.getD m.step 0 / cg.grid.dt.getD i 0 * r.factor ∧ m.var = r.var ∧ m.asset = r.asset ∧
      m.node = r.node ∧ m.kind = r.kind ∧ m.varName = r.varName := by
  unfold extendMinor at h
  split at h
  · injection h with h
    subst h
    obtain ⟨r, hr, hmr⟩ := List.mem_flatMap.mp hm
    refine ⟨r, hr, ?_⟩
    unfold extendRow at hmr
    split at hmr
    · simp at hmr
    · rename_i i hi
      have := mem_extendSteps _ _ _ _ _ hmr
      exact ⟨i, hi, this.1, this.2.1, this.2.2.1, this.2.2.2.1, this.2.2.2.2.1, this.2.2.2.2.2.1, this.2.2.2.2.2.2.1⟩
  · cases h

/-- the output of `extendMinor` is the concatenation, row by row, of the rows written for each coarse row;
    with `coarse_weights_sum`: per original row the factors sum to the row's factor -/
theorem extendMinor_rows (M : List MapRow) (cg : CoarseGrid) (dtFine : List Rat) (M' : List MapRow)
    (h : extendMinor M cg dtFine = .ok M') :
    M' = M.flatMap fun r => match majorOf cg r with
      | none => []
      | some i => extendSteps dtFine (cg.grid.dt.getD i 0) r (cg.minor.getD i []) := by
  unfold extendMinor at h
  split at h
  · injection h with h; subst h; rfl
  · cases h

/-- an asset that is not active in the horizon (empty mapping, e.g. a coarse asset whose window lies entirely
    outside it): nothing to extend, the empty mapping comes back (the code used to raise `KeyError` here) -/
example (cg : CoarseGrid) (dtFine : List Rat) : extendMinor [] cg dtFine = .ok [] := rfl

/-- non-vacuity: hourly grid, one coarse step of four hours; a transport (factors −1 and efficiency 1/2, one
    variable, two rows): every minor step gets a quarter of the row's factor -/
example :
    (extendMinor
        [{ var := 0, asset := "t", node := some "n1", kind := .d, step := 0, factor := -1, isBool := false, varName := "disp" },
         { var := 0, asset := "t", node := some "n2", kind := .d, step := 0, factor := 1/2, isBool := false, varName := "disp" }]
        { grid := { pts := [0], idx := [0], dt := [4], Dt := [1], df := [1] }, minor := [[0, 1, 2, 3]] } [1, 1, 1, 1]).toOption
      = some (((List.range 4).map fun t =>
          ({ var := 0, asset := "t", node := some "n1", kind := .d, step := t, factor := -1/4, isBool := false, varName := "disp" } : MapRow))
        ++ (List.range 4).map fun t =>
          { var := 0, asset := "t", node := some "n2", kind := .d, step := t, factor := 1/8, isBool := false, varName := "disp" }) := by
  decide +kernel

end EAO.C13
