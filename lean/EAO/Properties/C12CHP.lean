import EAO.Lemmas.CHPUnitCore
import EAO.Lemmas.CHPUnitRamp
import EAO.Lemmas.CHPUnitProfile
import EAO.Lemmas.Contract
/-!
# C12 — time bookkeeping, builder side: `CHPAsset` / `Plant` / `CHPAsset_with_min_load_costs`

The analogue of `EAO.C12.unit_change` (contracts, transports) and `unit_change_storage` for the CHP builders
`buildCHP` (profile-free), `buildCHPP` / `buildCHPAny` (with start / shutdown ramp profiles), `buildMinLoad`
(minimum-load costs) and their `costs_only` variants.

Re-expressing the asset for another main time unit: every step length `dt`, `Dt` multiplied by `k > 0`
(`Grid.scaleDt`: same points, steps, discount factors), the unit's length in seconds `u' · k = u`, the step length in
seconds `s` unchanged, and (`CHPUnit.CHPP.rescale`, `MinLoadP.rescale`, `CHPProfP.rescale`)

* every rate per time multiplied by `1/k`: `ramp`, `last_dispatch`, `running_costs`, `consumption_if_on`, the raw `min_cap`
  (the capacities themselves enter through the parent's problem `base`, which is the same by `unit_change_contract`), the
  eight profile bound lists, `min_load_threshhold`, `min_load_costs`;
* every duration in main time units multiplied by `k`: `min_runtime`, `min_downtime`, `time_already_running`,
  `time_already_off`;
* everything else untouched — in particular `ramp_freq` (its length in seconds and its string comparison with the grid's
  frequency): a `ramp_freq` of `None` means "the main time unit" and must be made explicit before the unit is changed.

Then the builders return the SAME result: equal problems in every field, the same error otherwise.  Consequently
feasible sets, objective, optimal value and dispatched volumes are the same.  The durations pass through
`ceil(duration · unit / step)`: the rational under the ceiling is literally the same (`unit_change_chp_steps`).

HYPOTHESES (each is needed):
* `hrc`, `hci` (and for min-load `ht`, `hc`): `running_costs`, `consumption_if_on`, `min_load_threshhold`, `min_load_costs` are
  not given as keys into the price data (a key refers to data that `rescale` does not touch — as in `unit_change` for
  contracts; the harness rescales the price series instead);
* `GuardStable k p`: the constructor's XOR guard on (`time_already_running`, `time_already_off`) is evaluated on the RAW values
  in main time units and only when the raw `min_downtime > 1` (known finding F-06d), so a change of the unit can switch it
  on or off: `guard_not_unit_invariant` is a machine-checked instance (`min_downtime = 0.5 h` builds, `= 30 min` raises the
  assertion) — a C12 finding on the real code as well (harness oracle `chp.unit_change`, kind `unit_change_guard`).  Stable
  when exactly one of the two histories is declared, or when `min_downtime ≤ 1` in both units;
* `ProfConsistent q` (profiles only): a heat profile is given only together with the power profile of the same ramp.
-/
namespace EAO.C12
open EAO EAO.CHPUnit

/-- the step counts `ceil(duration · unit / step)` of the durations are equal: the rational under the ceiling is the same -/
theorem unit_change_chp_steps {k : Rat} (hk : k ≠ 0) {u u' : Nat} (hu : (u' : Rat) * k = (u : Rat)) (v : Rat) (s : Nat) :
    convertSteps (v * k) u' s = convertSteps v u s :=
  convertSteps_rescale hk hu v s

/-- CHP / Plant without ramp profiles: the rescaled asset on the rescaled grid gives the same problem -/
theorem unit_change_chp {k : Rat} (hk : 0 < k) {u u' : Nat} (hu : (u' : Rat) * k = (u : Rat)) (p : CHPP)
    (hg : GuardStable k p) (hrc : p.runningCosts.isKey = false) (hci : p.consumptionIfOn.isKey = false)
    (base : AssetProblem) (g : Grid) (prices : Prices) (s : Nat) :
    buildCHP (CHPP.rescale k p) base (g.scaleDt k) prices u' s = buildCHP p base g prices u s :=
  buildCHP_rescale hk hu p hg hrc hci base g prices s

/-- … and the same `costs_only` cost vector -/
theorem unit_change_chp_costs_only {k : Rat} (hk : 0 < k) {u u' : Nat} (hu : (u' : Rat) * k = (u : Rat)) (p : CHPP)
    (hg : GuardStable k p) (hrc : p.runningCosts.isKey = false) (hci : p.consumptionIfOn.isKey = false)
    (base : AssetProblem) (g : Grid) (prices : Prices) (s : Nat) :
    costsOnlyCHP (CHPP.rescale k p) base (g.scaleDt k) prices u' s = costsOnlyCHP p base g prices u s :=
  costsOnlyCHP_rescale hk hu p hg hrc hci base g prices s

/-- with start / shutdown ramp profiles (`ramp_freq` kept) -/
theorem unit_change_chp_profiles {k : Rat} (hk : 0 < k) {u u' : Nat} (hu : (u' : Rat) * k = (u : Rat)) (p : CHPP)
    (hg : GuardStable k p) (hrc : p.runningCosts.isKey = false) (hci : p.consumptionIfOn.isKey = false)
    (q : CHPProfP) (hq : ProfConsistent q) (base : AssetProblem) (g : Grid) (prices : Prices) (s : Nat) :
    buildCHPP (CHPP.rescale k p) (CHPProfP.rescale k q) base (g.scaleDt k) prices u' s = buildCHPP p q base g prices u s :=
  buildCHPP_rescale hk hu p hg hrc hci q hq base g prices s

/-- the dispatching builder (with or without profiles) -/
theorem unit_change_chp_any {k : Rat} (hk : 0 < k) {u u' : Nat} (hu : (u' : Rat) * k = (u : Rat)) (p : CHPP)
    (hg : GuardStable k p) (hrc : p.runningCosts.isKey = false) (hci : p.consumptionIfOn.isKey = false)
    (q : CHPProfP) (hq : ProfConsistent q) (base : AssetProblem) (g : Grid) (prices : Prices) (s : Nat) :
    buildCHPAny (CHPP.rescale k p) (CHPProfP.rescale k q) base (g.scaleDt k) prices u' s = buildCHPAny p q base g prices u s :=
  buildCHPAny_rescale hk hu p hg hrc hci q hq base g prices s

/-- the linear profile conversion commutes with the rescaling: `_convert_ramp` of the bounds divided by `k`, times
    step / new unit, equals `_convert_ramp` of the bounds times step / old unit -/
theorem unit_change_profile_bounds {k : Rat} {u u' : Nat} (hu : (u' : Rat) * k = (u : Rat)) (l : List Rat)
    (stepSec rampSec : Nat) (same : Bool) :
    (convertRamp (l.map (· * (1 / k))) stepSec rampSec same).map (· * ((stepSec : Rat) / (u' : Rat)))
      = (convertRamp l stepSec rampSec same).map (· * ((stepSec : Rat) / (u : Rat))) :=
  cv_rescale_core hu l stepSec rampSec same

/-- minimum-load costs: threshold and costs divided by `k` -/
theorem unit_change_min_load {k : Rat} (hk : k ≠ 0) (q : MinLoadP) (ht : ∀ w, q.threshold = some w → w.isKey = false)
    (hc : ∀ w, q.costs = some w → w.isKey = false) (a : AssetProblem) (g : Grid) (prices : Prices) :
    buildMinLoad (MinLoadP.rescale k q) a (g.scaleDt k) prices = buildMinLoad q a g prices :=
  buildMinLoad_rescale hk q ht hc a g prices

theorem unit_change_min_load_costs_only {k : Rat} (hk : k ≠ 0) (q : MinLoadP)
    (ht : ∀ w, q.threshold = some w → w.isKey = false) (hc : ∀ w, q.costs = some w → w.isKey = false) (c : List Rat)
    (g : Grid) (prices : Prices) :
    costsOnlyMinLoad (MinLoadP.rescale k q) c (g.scaleDt k) prices = costsOnlyMinLoad q c g prices :=
  costsOnlyMinLoad_rescale hk q ht hc c g prices

/-- the whole chain as the classes are derived in the code: Contract → CHP (with or without profiles) → min-load -/
def chpChain (cp : ContractP) (p : CHPP) (q : CHPProfP) (ml : MinLoadP) (g : Grid) (prices : Prices)
    (fullT u s : Nat) : Except BuildError AssetProblem := do
  let base ← buildContract cp g prices fullT u
  let a ← buildCHPAny p q base g prices u s
  buildMinLoad ml a g prices

theorem unit_change_chp_chain {k : Rat} (hk : 0 < k) {u u' : Nat} (hu : (u' : Rat) * k = (u : Rat))
    (cp : ContractP) (hmin : cp.minCap.isKey = false) (hmax : cp.maxCap.isKey = false)
    (p : CHPP) (hg : GuardStable k p) (hrc : p.runningCosts.isKey = false) (hci : p.consumptionIfOn.isKey = false)
    (q : CHPProfP) (hq : ProfConsistent q)
    (ml : MinLoadP) (ht : ∀ w, ml.threshold = some w → w.isKey = false) (hc : ∀ w, ml.costs = some w → w.isKey = false)
    (g : Grid) (prices : Prices) (fullT s : Nat) :
    chpChain (cp.rescale k) (CHPP.rescale k p) (CHPProfP.rescale k q) (MinLoadP.rescale k ml) (g.scaleDt k) prices fullT u' s
      = chpChain cp p q ml g prices fullT u s := by
  have hk0 : k ≠ 0 := by intro h; rw [h] at hk; exact absurd hk (by decide +kernel)
  unfold chpChain
  rw [contract_unit_change' hk hu cp hmin hmax g prices fullT]
  simp only [buildCHPAny_rescale hk hu p hg hrc hci q hq, buildMinLoad_rescale hk0 ml ht hc]

/-- the hypothesis `GuardStable` is needed (known finding F-06d seen from C12): `Plant(min_downtime = 0.5)` with no declared
    history is accepted with main time unit 'h' and rejected (AssertionError) when re-expressed in minutes (`30 > 1`) -/
theorem guard_not_unit_invariant :
    chpCtor guardEx = .ok (false, none) ∧ chpCtor (CHPP.rescale 60 guardEx) = .error .assertion ∧
      ¬ GuardStable 60 guardEx :=
  CHPUnit.guard_not_unit_invariant

end EAO.C12

/-! ### non-vacuity: hours → minutes (`k = 60`) on a 15-minute grid, kernel-evaluated -/
namespace EAO.C12.ExCHP
open EAO EAO.CHPUnit

/-- main time unit HOUR: 8 steps of 1/4 h -/
def g : Grid := { pts := (List.range 8).map fun i => ((i * 900 : Nat) : Int), idx := List.range 8, dt := List.replicate 8 (1/4),
                  Dt := (List.range 8).map fun i => ((i + 1 : Nat) : Rat) / 4, df := List.replicate 8 1 }

/-- parent contract: capacities 2 … 12 per hour -/
def cp : ContractP :=
  { name := "p", nodes := ["el"], price := none, extraCosts := .scalar 0, minCap := .scalar 2, maxCap := .scalar 12,
    minTake := [], maxTake := [] }

/-- `Plant(min_runtime = 0.5 h, time_already_off = 0.25 h, ramp = 8 per h, last_dispatch = 0, running costs 4 per h)` -/
def p : CHPP :=
  { name := "p", nodes := ["el"], noHeat := true, minCap := .scalar 2, convFactor := .scalar 1, maxShareHeat := none,
    ramp := some 8, startCosts := .scalar 5, runningCosts := .scalar 4, minRuntime := 1/2, timeAlreadyRunning := 0,
    minDowntime := 0, timeAlreadyOff := 1/4, lastDispatch := 0, startFuel := .scalar 0, fuelEfficiency := .scalar 1,
    consumptionIfOn := .scalar 0, freqMismatch := false }

/-- start ramp profile of one hour, given per hour with `ramp_freq = 'h'` (kept): interpolated to four 15-minute steps -/
def q : CHPProfP :=
  { startLo := some [4], startUp := some [8], shutLo := none, shutUp := none, startLoH := none, startUpH := none,
    shutLoH := none, shutUpH := none, rampFreqSec := 3600, sameFreq := false }

def ml : MinLoadP := { threshold := some (.scalar 6), costs := some (.scalar 3) }

-- in minutes: steps of 15 min, rates per minute, durations in minutes
example : (g.scaleDt 60).dt = List.replicate 8 15 ∧ (CHPP.rescale 60 p).ramp = some (2/15) ∧ (CHPP.rescale 60 p).minRuntime = 30 ∧
    (CHPP.rescale 60 p).timeAlreadyOff = 15 ∧
    (match (CHPP.rescale 60 p).runningCosts with | .scalar v => v == 1/15 | _ => false) = true ∧
    (CHPProfP.rescale 60 q).startLo = some [1/15] ∧ (CHPProfP.rescale 60 q).rampFreqSec = 3600 ∧
    (match (MinLoadP.rescale 60 ml).threshold with | some (.scalar v) => v == 1/10 | _ => false) = true := by decide +kernel

example : ((60 : Nat) : Rat) * 60 = ((3600 : Nat) : Rat) ∧ (0 : Rat) < 60 ∧ GuardStable 60 p ∧ ProfConsistent q := by
  decide +kernel

-- the same step counts: 0.5 h = 30 min = 2 steps of 15 min; 0.25 h = 15 min = 1 step
example : convertSteps (1/2) 3600 900 = 2 ∧ convertSteps 30 60 900 = 2 ∧ convertSteps (1/4) 3600 900 = 1 ∧
    convertSteps 15 60 900 = 1 := by decide +kernel

/-- the problem in minutes is literally the problem in hours (instance of `unit_change_chp_chain`) -/
example : chpChain (cp.rescale 60) (CHPP.rescale 60 p) (CHPProfP.rescale 60 q) (MinLoadP.rescale 60 ml) (g.scaleDt 60) [] 8 60 900
    = chpChain cp p q ml g [] 8 3600 900 :=
  unit_change_chp_chain (by decide +kernel) (by decide +kernel) cp (by decide) (by decide) p (by decide +kernel) (by decide)
    (by decide) q (by decide +kernel) ml (by decide) (by decide) g [] 8 900

-- and it is a real problem: 8 power + 8 on + 8 start + 8 shutdown + 8 threshold variables; minimum runtime 2 + 4 ramp
-- steps; start profile bounds 1 … 2 per step (4 … 8 per hour × 1/4 h); ramp 2 per step; threshold 1.5 per step
example : (match chpChain (cp.rescale 60) (CHPP.rescale 60 p) (CHPProfP.rescale 60 q) (MinLoadP.rescale 60 ml) (g.scaleDt 60) [] 8 60 900 with
    | .ok P => P.c.length == 40 && P.u.take 8 == List.replicate 8 3 && P.c.drop 32 == List.replicate 8 (3/4) &&
               P.c.take 16 == List.replicate 8 0 ++ List.replicate 8 1
    | .error _ => false) = true := by decide +kernel
example : (match chpChain cp p q ml g [] 8 3600 900 with
    | .ok P => P.c.length == 40 && P.u.take 8 == List.replicate 8 3 && P.c.drop 32 == List.replicate 8 (3/4) &&
               P.c.take 16 == List.replicate 8 0 ++ List.replicate 8 1
    | .error _ => false) = true := by decide +kernel
example : (match resolveCHPP p q (default : AssetProblem) g [] 3600 900 true with
    | .ok (some r) => r.prof.sl == [1, 1, 1, 1] && r.prof.su == [2, 2, 2, 2] && r.core.R == 6 && r.core.tao == 1 &&
                      r.core.ramp == some 2
    | _ => false) = true := by decide +kernel
example : (match resolveCHPP (CHPP.rescale 60 p) (CHPProfP.rescale 60 q) (default : AssetProblem) (g.scaleDt 60) [] 60 900 true with
    | .ok (some r) => r.prof.sl == [1, 1, 1, 1] && r.prof.su == [2, 2, 2, 2] && r.core.R == 6 && r.core.tao == 1 &&
                      r.core.ramp == some 2
    | _ => false) = true := by decide +kernel

end EAO.C12.ExCHP
