import EAO.Model.Storage
import EAO.Model.Assemble
import EAO.Lemmas.Storage
import EAO.Lemmas.StorageReadout
import EAO.Properties.C05
/-!
# C05 — storage reporting inside a portfolio, and the unchecked end level

The TARGET left open in `EAO/Properties/C05.lean`: the columns `<name>_charge`, `<name>_discharge`,
`<name>_fill_level` of `io.extract_output` (models `chargeOut`, `dischargeOut`, `fillLevel` of
`EAO/Model/Storage.lean`) are evaluated on the mapping of the PORTFOLIO problem (`assemble`,
`EAO/Model/Assemble.lean`), in which the storage's rows sit somewhere between the rows of the other assets and
its variables are shifted by the storage's offset.

Setting of all theorems: the asset list is `pre ++ a :: post` with `a` the storage's own problem (what
`buildStorage` returned), `P = assemble (pre ++ a :: post) gridI skip`, `off = offsetOf pre` = number of
variables of the assets before the storage, `slice off x = fun j => x (off + j)` the storage's own part of a
portfolio solution `x`.  The only hypothesis on the other assets is `Foreign`: none of their mapping rows carries
the storage's name (asset names are unique in a portfolio and every builder writes its own name:
`foreign_of_names`).

* `readout_embedded` — for EVERY `x` and every step the three read-outs on `P.mapping` are the read-outs on the
  storage's own mapping and own slice; `readout_position_independent` — hence they do not depend on where the
  storage stands in the asset list nor on what the other assets are (the situation of finding F-05c, where the
  columns were zero unless the storage was the last asset);
* `charge_discharge_reported` (all `x`), `charge_discharge_true` (`x_in ≤ 0 ≤ x_out`), `…_feasible`;
* `fill_level_reported_embedded`, `fill_level_true_embedded`, `…_feasible`;
* `reported_columns_consistent` — the fill-level column is the running sum of `eff·charge + discharge + inflow`;
* the guard situation `end_level ∉ [0, size]` (the constructor does not check the end level): `end_level_forced`,
  `end_level_lower`, `end_above_size_overfills`, `level_bounds_iff_end_in_range` (the hypothesis of
  `EAO.C05.storage_level_bounds` is necessary), `reported_level_above_size`, and kernel-checked witnesses.
-/
namespace EAO.C05R
open EAO EAO.Storage EAO.StorageReadout EAO.C05

/-- no mapping row of the assets `bs` carries the name `name` -/
def Foreign (name : String) (bs : List AssetProblem) : Prop := ∀ b ∈ bs, ∀ m ∈ b.mapping, m.asset ≠ name

/-- `Foreign` holds when every asset writes its own name into its mapping rows and no other asset has the
    storage's name (`Portfolio.__init__` asserts unique names) -/
theorem foreign_of_names (name : String) (bs : List AssetProblem)
    (hname : ∀ b ∈ bs, ∀ m ∈ b.mapping, m.asset = b.name) (hne : ∀ b ∈ bs, b.name ≠ name) : Foreign name bs :=
  others_of_names name bs hname hne

/-! ### the read-outs see the storage's own block only -/

/-- **Embedded read-out = own read-out on the own slice**, for every asset problem `a` (no assumption on `a`
    at all), every position of `a` in the asset list, every `x` (feasible or not) and every step `τ`. -/
theorem readout_embedded (p : StorageP) (g : Grid) (pre post : List AssetProblem) (a : AssetProblem)
    (gridI : List Nat) (skip : List String) (hoth : Foreign p.name (pre ++ post)) (x : Vec) :
    (∀ τ, chargeOut p (assemble (pre ++ a :: post) gridI skip).mapping x τ
            = chargeOut p a.mapping (slice (offsetOf pre) x) τ) ∧
    (∀ τ, dischargeOut p (assemble (pre ++ a :: post) gridI skip).mapping x τ
            = dischargeOut p a.mapping (slice (offsetOf pre) x) τ) ∧
    (∀ τ, fillInc p (assemble (pre ++ a :: post) gridI skip).mapping g x τ
            = fillInc p a.mapping g (slice (offsetOf pre) x) τ) ∧
    (∀ Tfull, fillLevel p (assemble (pre ++ a :: post) gridI skip).mapping g Tfull x
            = fillLevel p a.mapping g Tfull (slice (offsetOf pre) x)) :=
  ⟨fun τ => chargeOut_embedded p pre post a gridI skip hoth x τ,
   fun τ => dischargeOut_embedded p pre post a gridI skip hoth x τ,
   fun τ => fillInc_embedded p g pre post a gridI skip hoth x τ,
   fun Tfull => fillLevel_embedded p g pre post a gridI skip hoth x Tfull⟩

/-- **The reported columns do not depend on the position of the storage** (F-05c).  Two portfolios containing
    the same storage problem `a` at any two positions, with ANY other assets (in particular: the same assets in
    another order), nodal rows or not; two solution vectors that give the storage's variables the same values:
    charge, discharge and fill level agree at every step of the horizon. -/
theorem readout_position_independent (p : StorageP) (g : Grid) (T : Nat) (prices : Prices) (a : AssetProblem)
    (hb : buildStorage p g T prices = .ok a)
    (pre post pre' post' : List AssetProblem) (gridI gridI' : List Nat) (skip skip' : List String)
    (hoth : Foreign p.name (pre ++ post)) (hoth' : Foreign p.name (pre' ++ post'))
    (x x' : Vec) (hx : ∀ j, j < a.n → x (offsetOf pre + j) = x' (offsetOf pre' + j)) :
    (∀ τ, chargeOut p (assemble (pre ++ a :: post) gridI skip).mapping x τ
            = chargeOut p (assemble (pre' ++ a :: post') gridI' skip').mapping x' τ) ∧
    (∀ τ, dischargeOut p (assemble (pre ++ a :: post) gridI skip).mapping x τ
            = dischargeOut p (assemble (pre' ++ a :: post') gridI' skip').mapping x' τ) ∧
    (∀ Tfull, fillLevel p (assemble (pre ++ a :: post) gridI skip).mapping g Tfull x
            = fillLevel p (assemble (pre' ++ a :: post') gridI' skip').mapping g Tfull x') := by
  have hM := buildStorage_mapping_var p g T prices a hb
  have hs : ∀ j, j < a.n → slice (offsetOf pre) x j = slice (offsetOf pre') x' j := hx
  refine ⟨fun τ => ?_, fun τ => ?_, fun Tfull => ?_⟩
  · rw [chargeOut_embedded p pre post a gridI skip hoth, chargeOut_embedded p pre' post' a gridI' skip' hoth']
    exact (chargeOut_congr p a.mapping a.n hM _ _ hs τ).1
  · rw [dischargeOut_embedded p pre post a gridI skip hoth, dischargeOut_embedded p pre' post' a gridI' skip' hoth']
    exact (chargeOut_congr p a.mapping a.n hM _ _ hs τ).2
  · rw [fillLevel_embedded p g pre post a gridI skip hoth, fillLevel_embedded p g pre' post' a gridI' skip' hoth']
    exact fillLevel_congr p a.mapping g a.n hM _ _ hs Tfull

/-- the instance of F-05c: storage FIRST in the asset list versus storage LAST -/
theorem readout_first_vs_last (p : StorageP) (g : Grid) (T : Nat) (prices : Prices) (a : AssetProblem)
    (hb : buildStorage p g T prices = .ok a) (others : List AssetProblem) (gridI : List Nat) (skip : List String)
    (hoth : Foreign p.name others)
    (x x' : Vec) (hx : ∀ j, j < a.n → x j = x' (offsetOf others + j)) :
    (∀ τ, chargeOut p (assemble (a :: others) gridI skip).mapping x τ
            = chargeOut p (assemble (others ++ [a]) gridI skip).mapping x' τ) ∧
    (∀ τ, dischargeOut p (assemble (a :: others) gridI skip).mapping x τ
            = dischargeOut p (assemble (others ++ [a]) gridI skip).mapping x' τ) ∧
    (∀ Tfull, fillLevel p (assemble (a :: others) gridI skip).mapping g Tfull x
            = fillLevel p (assemble (others ++ [a]) gridI skip).mapping g Tfull x') := by
  have h := readout_position_independent p g T prices a hb [] others others [] gridI gridI skip skip
    (by simpa using hoth) (by simpa using hoth) x x'
    (by intro j hj; simpa [offsetOf] using hx j hj)
  simpa using h

/-! ### charge and discharge columns -/

/-- **Reported charge / discharge, for all `x`.**  At the full-grid step of window position `t` the columns show
    `Σ max(0,−x)` resp. `Σ min(0,−x)` over the dispatch variables of that position (`repCharge`, `repDischarge`:
    one variable `x_t`, or the two variables `x_in,t`, `x_out,t`), read from the storage's slice of `x`; at a
    step that is no step of the storage's window both columns are 0. -/
theorem charge_discharge_reported (p : StorageP) (g : Grid) (T : Nat) (prices : Prices) (a : AssetProblem)
    (hb : buildStorage p g T prices = .ok a) (hlen : g.dt.length = g.T) (hinc : IdxInc g g.T)
    (pre post : List AssetProblem) (gridI : List Nat) (skip : List String)
    (hoth : Foreign p.name (pre ++ post)) (x : Vec) :
    (∀ t, t < g.T →
      chargeOut p (assemble (pre ++ a :: post) gridI skip).mapping x (idxAt g t)
        = repCharge p g.T (slice (offsetOf pre) x) t ∧
      dischargeOut p (assemble (pre ++ a :: post) gridI skip).mapping x (idxAt g t)
        = repDischarge p g.T (slice (offsetOf pre) x) t) ∧
    (∀ τ, (∀ k, k < g.T → idxAt g k ≠ τ) →
      chargeOut p (assemble (pre ++ a :: post) gridI skip).mapping x τ = 0 ∧
      dischargeOut p (assemble (pre ++ a :: post) gridI skip).mapping x τ = 0) := by
  by_cases hne : g.dt.length = 0
  · have hT : g.T = 0 := by omega
    unfold buildStorage at hb
    rw [if_pos hne] at hb
    cases hb
    refine ⟨fun t ht => by omega, fun τ _ => ?_⟩
    rw [chargeOut_embedded p pre post _ gridI skip hoth, dischargeOut_embedded p pre post _ gridI skip hoth]
    exact ⟨rfl, rfl⟩
  · obtain ⟨pr, bl, _, hnodes, rfl⟩ := buildStorage_ok p g T prices a hb hne
    refine ⟨fun t ht => ?_, fun τ hτ => ?_⟩
    · rw [chargeOut_embedded p pre post _ gridI skip hoth, dischargeOut_embedded p pre post _ gridI skip hoth]
      exact charge_at p g g.T hnodes hinc _ t ht
    · rw [chargeOut_embedded p pre post _ gridI skip hoth, dischargeOut_embedded p pre post _ gridI skip hoth]
      exact charge_off p g g.T hnodes _ τ hτ

/-- **The reported charge and discharge are the physical ones** (`charge_discharge_true`).  With `y` the
    storage's slice of `x`: two-variable form, `y_in ≤ 0 ≤ y_out` (which the bounds enforce): charge `= −y_in,t`,
    discharge `= −y_out,t`; one-variable form, every `x`: charge `= max(0,−y_t)`, discharge `= min(0,−y_t)`, they
    add up to `−y_t` and one of them is 0.  In both forms `0 ≤ charge`, `discharge ≤ 0`. -/
theorem charge_discharge_true (p : StorageP) (g : Grid) (T : Nat) (prices : Prices) (a : AssetProblem)
    (hb : buildStorage p g T prices = .ok a) (hlen : g.dt.length = g.T) (hinc : IdxInc g g.T)
    (pre post : List AssetProblem) (gridI : List Nat) (skip : List String)
    (hoth : Foreign p.name (pre ++ post)) (x : Vec)
    (hsign : sep p = true → ∀ k, k < g.T →
      slice (offsetOf pre) x k ≤ 0 ∧ 0 ≤ slice (offsetOf pre) x (g.T + k))
    (t : Nat) (ht : t < g.T) :
    let y := slice (offsetOf pre) x
    let ch := chargeOut p (assemble (pre ++ a :: post) gridI skip).mapping x (idxAt g t)
    let dis := dischargeOut p (assemble (pre ++ a :: post) gridI skip).mapping x (idxAt g t)
    (sep p = true → ch = -(y t) ∧ dis = -(y (g.T + t))) ∧
    (sep p = false → ch = posPart (-(y t)) ∧ dis = negPart (-(y t)) ∧ ch + dis = -(y t) ∧ (ch = 0 ∨ dis = 0)) ∧
    0 ≤ ch ∧ dis ≤ 0 := by
  intro y ch dis
  obtain ⟨h1, h2⟩ := (charge_discharge_reported p g T prices a hb hlen hinc pre post gridI skip hoth x).1 t ht
  have hch : ch = repCharge p g.T y t := h1
  have hdis : dis = repDischarge p g.T y t := h2
  have hpos : ∀ r : Rat, 0 ≤ posPart r := by intro r; unfold posPart; split <;> grind
  have hneg : ∀ r : Rat, negPart r ≤ 0 := by intro r; unfold negPart; split <;> grind
  refine ⟨fun hs => ?_, fun hs => ?_, ?_, ?_⟩
  · obtain ⟨s1, s2⟩ := hsign hs t ht
    have s1' : y t ≤ 0 := s1
    have s2' : 0 ≤ y (g.T + t) := s2
    rw [hch, hdis]
    simp only [repCharge, repDischarge, hs, if_true]
    have e1 : posPart (-(y t)) = -(y t) := by unfold posPart; split <;> grind
    have e2 : negPart (-(y t)) = 0 := by unfold negPart; split <;> grind
    have e3 : posPart (-(y (g.T + t))) = 0 := by unfold posPart; split <;> grind
    have e4 : negPart (-(y (g.T + t))) = -(y (g.T + t)) := by unfold negPart; split <;> grind
    rw [e1, e2, e3, e4]
    constructor <;> grind
  · rw [hch, hdis]
    simp only [repCharge, repDischarge, hs, Bool.false_eq_true, if_false]
    refine ⟨trivial, trivial, ?_, ?_⟩
    · unfold posPart negPart; split <;> split <;> grind
    · unfold posPart negPart; split <;> split <;> grind
  · rw [hch]; unfold repCharge; split
    · have := hpos (-(y t)); have := hpos (-(y (g.T + t))); grind
    · exact hpos _
  · rw [hdis]; unfold repDischarge; split
    · have := hneg (-(y t)); have := hneg (-(y (g.T + t))); grind
    · exact hneg _

/-- the sign condition of the two-variable form follows from the bounds of the PORTFOLIO problem (every asset
    problem with one bound pair per variable, which all builders deliver) -/
theorem sign_of_portfolio_bounds (p : StorageP) (g : Grid) (T : Nat) (prices : Prices) (a : AssetProblem)
    (hb : buildStorage p g T prices = .ok a) (hlen : g.dt.length = g.T)
    (pre post : List AssetProblem) (gridI : List Nat) (skip : List String)
    (hwf : ∀ b ∈ pre ++ a :: post, b.l.length = b.n ∧ b.u.length = b.n) (x : Vec)
    (hx : InBounds (assemble (pre ++ a :: post) gridI skip).l (assemble (pre ++ a :: post) gridI skip).u x) :
    sep p = true → ∀ k, k < g.T → slice (offsetOf pre) x k ≤ 0 ∧ 0 ≤ slice (offsetOf pre) x (g.T + k) := by
  intro hs k hk
  have hy := slice_inBounds pre post a gridI skip hwf x hx
  have := storage_rates p g T prices a (slice (offsetOf pre) x) hb hlen hy k hk
  simp only [RatesOK, hs, if_true] at this
  exact ⟨this.2.1, this.2.2.1⟩

/-- `charge_discharge_true` for every `x` within the bounds of the portfolio problem, plus the rate limits:
    `0 ≤ charge ≤ cap_in·dt_t` and `−cap_out·dt_t ≤ discharge ≤ 0` (for a storage accepted by the constructor
    guards — `cap_in, cap_out ≥ 0` — and a step of non-negative length; in the one-variable form a column that
    shows 0 is within its limit only because the limit is not negative) -/
theorem charge_discharge_true_feasible (p : StorageP) (g : Grid) (T : Nat) (prices : Prices) (a : AssetProblem)
    (hb : buildStorage p g T prices = .ok a) (hlen : g.dt.length = g.T) (hinc : IdxInc g g.T)
    (pre post : List AssetProblem) (gridI : List Nat) (skip : List String)
    (hoth : Foreign p.name (pre ++ post))
    (hwf : ∀ b ∈ pre ++ a :: post, b.l.length = b.n ∧ b.u.length = b.n) (x : Vec)
    (hx : InBounds (assemble (pre ++ a :: post) gridI skip).l (assemble (pre ++ a :: post) gridI skip).u x)
    (hg : p.guards = true) (t : Nat) (ht : t < g.T) (hdt : 0 ≤ g.dt.getD t 0) :
    let y := slice (offsetOf pre) x
    let ch := chargeOut p (assemble (pre ++ a :: post) gridI skip).mapping x (idxAt g t)
    let dis := dischargeOut p (assemble (pre ++ a :: post) gridI skip).mapping x (idxAt g t)
    (sep p = true → ch = -(y t) ∧ dis = -(y (g.T + t))) ∧
    (sep p = false → ch = posPart (-(y t)) ∧ dis = negPart (-(y t)) ∧ ch + dis = -(y t) ∧ (ch = 0 ∨ dis = 0)) ∧
    0 ≤ ch ∧ ch ≤ p.capIn * g.dt.getD t 0 ∧ -(p.capOut * g.dt.getD t 0) ≤ dis ∧ dis ≤ 0 := by
  intro y ch dis
  have hsign := sign_of_portfolio_bounds p g T prices a hb hlen pre post gridI skip hwf x hx
  obtain ⟨c1, c2, c3, c4⟩ := charge_discharge_true p g T prices a hb hlen hinc pre post gridI skip hoth x hsign t ht
  have hy := slice_inBounds pre post a gridI skip hwf x hx
  have hr := storage_rates p g T prices a y hb hlen hy t ht
  have hcaps : 0 ≤ p.capIn ∧ 0 ≤ p.capOut := by
    unfold StorageP.guards at hg
    simp only [Bool.and_eq_true, decide_eq_true_eq] at hg
    exact ⟨hg.1.1.2, hg.1.2⟩
  have hci : 0 ≤ p.capIn * g.dt.getD t 0 := Rat.mul_nonneg hcaps.1 hdt
  have hco : 0 ≤ p.capOut * g.dt.getD t 0 := Rat.mul_nonneg hcaps.2 hdt
  refine ⟨c1, c2, c3, ?_, ?_, c4⟩
  · by_cases hs : sep p = true
    · simp only [RatesOK, hs, if_true] at hr
      have e : ch = -(y t) := (c1 hs).1
      rw [e]
      grind
    · have hs' : sep p = false := by simpa using hs
      simp only [RatesOK, hs', Bool.false_eq_true, if_false] at hr
      obtain ⟨e1, _, _, _⟩ := c2 hs'
      have e1' : ch = posPart (-(y t)) := e1
      rw [e1']
      unfold posPart; split <;> grind
  · by_cases hs : sep p = true
    · simp only [RatesOK, hs, if_true] at hr
      have e : dis = -(y (g.T + t)) := (c1 hs).2
      rw [e]
      grind
    · have hs' : sep p = false := by simpa using hs
      simp only [RatesOK, hs', Bool.false_eq_true, if_false] at hr
      obtain ⟨_, e2, _, _⟩ := c2 hs'
      have e2' : dis = negPart (-(y t)) := e2
      rw [e2']
      unfold negPart; split <;> grind

/-! ### fill-level column -/

/-- **Reported fill level inside a portfolio, for all `x`**: `EAO.C05.fill_level_reported` at any offset -/
theorem fill_level_reported_embedded (p : StorageP) (g : Grid) (T Tfull : Nat) (prices : Prices) (a : AssetProblem)
    (hb : buildStorage p g T prices = .ok a) (hlen : g.dt.length = g.T) (hlen' : g.idx.length = g.T)
    (hinc : IdxInc g g.T)
    (pre post : List AssetProblem) (gridI : List Nat) (skip : List String)
    (hoth : Foreign p.name (pre ++ post)) (x : Vec)
    (t : Nat) (ht : t < g.T) (htT : idxAt g t < Tfull) :
    (fillLevel p (assemble (pre ++ a :: post) gridI skip).mapping g Tfull x).getD (idxAt g t) 0
      = reportedLevel p g g.T (slice (offsetOf pre) x) t := by
  rw [fillLevel_embedded p g pre post a gridI skip hoth]
  exact fill_level_reported p g T Tfull prices a _ hb hlen hlen' hinc t ht htT

/-- **The reported fill level is the physical level, inside a portfolio** (`fill_level_true` for the embedded
    mapping): the physical level computed from the storage's slice of `x`. -/
theorem fill_level_true_embedded (p : StorageP) (g : Grid) (T Tfull : Nat) (prices : Prices) (a : AssetProblem)
    (hb : buildStorage p g T prices = .ok a) (hlen : g.dt.length = g.T) (hlen' : g.idx.length = g.T)
    (hinc : IdxInc g g.T)
    (pre post : List AssetProblem) (gridI : List Nat) (skip : List String)
    (hoth : Foreign p.name (pre ++ post)) (x : Vec)
    (hsign : sep p = true → ∀ k, k < g.T →
      slice (offsetOf pre) x k ≤ 0 ∧ 0 ≤ slice (offsetOf pre) x (g.T + k))
    (t : Nat) (ht : t < g.T) (htT : idxAt g t < Tfull) :
    (fillLevel p (assemble (pre ++ a :: post) gridI skip).mapping g Tfull x).getD (idxAt g t) 0
      = physLevel p g g.T (slice (offsetOf pre) x) t := by
  rw [fillLevel_embedded p g pre post a gridI skip hoth]
  exact fill_level_true p g T Tfull prices a _ hb hlen hlen' hinc hsign t ht htT

/-- … for every `x` within the bounds of the portfolio problem -/
theorem fill_level_true_embedded_feasible (p : StorageP) (g : Grid) (T Tfull : Nat) (prices : Prices)
    (a : AssetProblem)
    (hb : buildStorage p g T prices = .ok a) (hlen : g.dt.length = g.T) (hlen' : g.idx.length = g.T)
    (hinc : IdxInc g g.T)
    (pre post : List AssetProblem) (gridI : List Nat) (skip : List String)
    (hoth : Foreign p.name (pre ++ post))
    (hwf : ∀ b ∈ pre ++ a :: post, b.l.length = b.n ∧ b.u.length = b.n) (x : Vec)
    (hx : InBounds (assemble (pre ++ a :: post) gridI skip).l (assemble (pre ++ a :: post) gridI skip).u x)
    (t : Nat) (ht : t < g.T) (htT : idxAt g t < Tfull) :
    (fillLevel p (assemble (pre ++ a :: post) gridI skip).mapping g Tfull x).getD (idxAt g t) 0
      = physLevel p g g.T (slice (offsetOf pre) x) t :=
  fill_level_true_embedded p g T Tfull prices a hb hlen hlen' hinc pre post gridI skip hoth x
    (sign_of_portfolio_bounds p g T prices a hb hlen pre post gridI skip hwf x hx) t ht htT

/-- **The three reported columns fit together, for all `x`**: the fill-level column at window position `t` is
    the start level plus the running sum of `eff_in · charge + discharge + inflow · dt` over the window positions
    `≤ t`, with charge / discharge the values of the two other columns. -/
theorem reported_columns_consistent (p : StorageP) (g : Grid) (T Tfull : Nat) (prices : Prices) (a : AssetProblem)
    (hb : buildStorage p g T prices = .ok a) (hlen : g.dt.length = g.T) (hlen' : g.idx.length = g.T)
    (hinc : IdxInc g g.T)
    (pre post : List AssetProblem) (gridI : List Nat) (skip : List String)
    (hoth : Foreign p.name (pre ++ post)) (x : Vec)
    (t : Nat) (ht : t < g.T) (htT : idxAt g t < Tfull) :
    (fillLevel p (assemble (pre ++ a :: post) gridI skip).mapping g Tfull x).getD (idxAt g t) 0
      = p.startLevel + sumTo (fun k =>
          p.effIn * chargeOut p (assemble (pre ++ a :: post) gridI skip).mapping x (idxAt g k)
          + dischargeOut p (assemble (pre ++ a :: post) gridI skip).mapping x (idxAt g k)
          + p.inflow * g.dt.getD k 0) (t + 1) := by
  rw [fill_level_reported_embedded p g T Tfull prices a hb hlen hlen' hinc pre post gridI skip hoth x t ht htT]
  unfold reportedLevel
  congr 1
  apply sumTo_congr
  intro k hk
  obtain ⟨h1, h2⟩ := (charge_discharge_reported p g T prices a hb hlen hinc pre post gridI skip hoth x).1 k (by omega)
  rw [h1, h2]
  unfold repFlow repCharge repDischarge
  split <;> grind

/-! ### the end level is not checked by the constructor -/

/-- **Both last fill-level rows pin the end level, whatever it is** (no maximum holding duration; with or without
    time blocks): for every `x` satisfying the rows the physical level at the last step of the window, and at
    the last step of every time block, EQUALS `end_level` — no assumption `0 ≤ end_level ≤ size`. -/
theorem end_level_forced (p : StorageP) (g : Grid) (T : Nat) (prices : Prices) (a : AssetProblem) (x : Vec)
    (hmh : p.maxStoreDuration = none)
    (hb : buildStorage p g T prices = .ok a) (hlen : g.dt.length = g.T) (hpos : 0 < g.T)
    (hrows : ∀ r ∈ a.rows, r.Sat x) :
    physLevel p g g.T x (g.T - 1) = p.endLevel ∧
    (∀ aa, p.blocks = some aa → ∀ e ∈ aa, 0 < e → physLevel p g g.T x (e - 1) = p.endLevel) := by
  obtain ⟨h1, h2⟩ := end_level_eq_core p g T prices a x hmh hb hlen hpos hrows
  refine ⟨?_, fun aa haa e he hpos' => ?_⟩
  · rw [physLevel_eq_lev]
    have : g.T - 1 + 1 = g.T := by omega
    rw [this]; exact h1
  · rw [physLevel_eq_lev]
    have : e - 1 + 1 = e := by omega
    rw [this]; exact h2 aa haa e he hpos'

/-- **The last "empty" row bounds the end of the window from below, with every option** (one / two variables,
    time blocks, no-simultaneous option, maximum holding duration): `end_level ≤ level` at the last step of the
    window and of every block. -/
theorem end_level_lower (p : StorageP) (g : Grid) (T : Nat) (prices : Prices) (a : AssetProblem) (x : Vec)
    (hb : buildStorage p g T prices = .ok a) (hlen : g.dt.length = g.T) (hpos : 0 < g.T)
    (hrows : ∀ r ∈ a.rows, r.Sat x) :
    p.endLevel ≤ physLevel p g g.T x (g.T - 1) ∧
    (∀ aa, p.blocks = some aa → ∀ e ∈ aa, 0 < e → p.endLevel ≤ physLevel p g g.T x (e - 1)) := by
  obtain ⟨h1, h2⟩ := end_level_lower_core p g T prices a x hb hlen hpos hrows
  refine ⟨?_, fun aa haa e he hpos' => ?_⟩
  · rw [physLevel_eq_lev]
    have : g.T - 1 + 1 = g.T := by omega
    rw [this]; exact h1
  · rw [physLevel_eq_lev]
    have : e - 1 + 1 = e := by omega
    rw [this]; exact h2 aa haa e he hpos'

/-- **`end_level > size` (accepted by the constructor) forces the level above the size.**  With every option:
    EVERY `x` that satisfies the rows of the set-up has a physical level above `size` at the last step of the
    window (and of every time block) — the problem is either infeasible or every solution overfills the store. -/
theorem end_above_size_overfills (p : StorageP) (g : Grid) (T : Nat) (prices : Prices) (a : AssetProblem) (x : Vec)
    (hover : p.size < p.endLevel)
    (hb : buildStorage p g T prices = .ok a) (hlen : g.dt.length = g.T) (hpos : 0 < g.T)
    (hrows : ∀ r ∈ a.rows, r.Sat x) :
    p.size < physLevel p g g.T x (g.T - 1) ∧
    (∀ aa, p.blocks = some aa → ∀ e ∈ aa, 0 < e → p.size < physLevel p g g.T x (e - 1)) := by
  obtain ⟨h1, h2⟩ := end_level_lower p g T prices a x hb hlen hpos hrows
  refine ⟨by grind, fun aa haa e he hpos' => ?_⟩
  have := h2 aa haa e he hpos'
  grind

/-- **The hypothesis `0 ≤ end_level ≤ size` of `EAO.C05.storage_level_bounds` / `storage_blocks` is necessary
    and sufficient** (no maximum holding duration): for a feasible `x` of a successful set-up on a non-empty
    window, the level stays within `[0, size]` at every step IF AND ONLY IF the end level lies in `[0, size]`. -/
theorem level_bounds_iff_end_in_range (p : StorageP) (g : Grid) (T : Nat) (prices : Prices) (a : AssetProblem)
    (x : Vec) (hmh : p.maxStoreDuration = none)
    (hb : buildStorage p g T prices = .ok a) (hlen : g.dt.length = g.T) (hpos : 0 < g.T)
    (hf : a.FeasibleRelaxed x) :
    (∀ t, t < g.T → 0 ≤ physLevel p g g.T x t ∧ physLevel p g g.T x t ≤ p.size) ↔
      (0 ≤ p.endLevel ∧ p.endLevel ≤ p.size) := by
  constructor
  · intro h
    have h1 := (end_level_forced p g T prices a x hmh hb hlen hpos hf.2).1
    have h2 := h (g.T - 1) (by omega)
    rw [h1] at h2
    exact h2
  · intro hend t ht
    rw [physLevel_eq_lev]
    exact (levels_core p g T prices a x hend hb hlen hpos hf).1 t ht

/-- **… and the user sees it**: for a storage with `end_level > size` inside any portfolio, every relaxed-feasible
    point `x` of the PORTFOLIO problem makes the `<name>_fill_level` column exceed `size` at the last step of the
    storage's window. -/
theorem reported_level_above_size (p : StorageP) (g : Grid) (T Tfull : Nat) (prices : Prices) (a : AssetProblem)
    (hover : p.size < p.endLevel)
    (hb : buildStorage p g T prices = .ok a) (hlen : g.dt.length = g.T) (hlen' : g.idx.length = g.T)
    (hinc : IdxInc g g.T) (hpos : 0 < g.T)
    (pre post : List AssetProblem) (gridI : List Nat) (skip : List String)
    (hoth : Foreign p.name (pre ++ post))
    (hwf : ∀ b ∈ pre ++ a :: post, b.l.length = b.n ∧ b.u.length = b.n) (x : Vec)
    (hx : (assemble (pre ++ a :: post) gridI skip).FeasibleRelaxed x)
    (htT : idxAt g (g.T - 1) < Tfull) :
    p.size < (fillLevel p (assemble (pre ++ a :: post) gridI skip).mapping g Tfull x).getD (idxAt g (g.T - 1)) 0 := by
  have hy := slice_feasible pre post a gridI skip hwf x hx
  rw [fill_level_true_embedded_feasible p g T Tfull prices a hb hlen hlen' hinc pre post gridI skip hoth hwf x hx.1
    (g.T - 1) (by omega) htT]
  exact (end_above_size_overfills p g T prices a _ hover hb hlen hpos hy.2).1

/-! ### non-vacuity: a storage between two market contracts, and the end-level witnesses (kernel-evaluated) -/

instance (name : String) (bs : List AssetProblem) : Decidable (Foreign name bs) := by
  unfold Foreign; exact inferInstance

/-- executable relaxed feasibility of a portfolio problem -/
def feasiblePB (P : Problem) (x : Vec) : Bool :=
  decide (InBounds P.l P.u x) && P.rows.all fun r => decide (r.Sat x)

theorem feasiblePB_ok (P : Problem) (x : Vec) (h : feasiblePB P x = true) : P.FeasibleRelaxed x := by
  simp only [feasiblePB, Bool.and_eq_true, decide_eq_true_eq, List.all_eq_true] at h
  exact ⟨h.1, h.2⟩

/-- the problem a set-up returned (empty problem if it failed) -/
def okOf (r : Except BuildError AssetProblem) : AssetProblem :=
  match r with
  | .ok a => a
  | .error _ => { name := "", nodes := [], c := [], l := [], u := [], rows := [], mapping := [] }

def isOk (r : Except BuildError AssetProblem) : Bool := match r with | .ok _ => true | .error _ => false

theorem okOf_ok (r : Except BuildError AssetProblem) (h : isOk r = true) : r = .ok (okOf r) := by
  cases r with
  | ok a => rfl
  | error e => simp [isOk] at h

/-- a market contract at node `node` with one dispatch variable per step of a horizon of `T` steps -/
def market (name node : String) (T : Nat) : AssetProblem :=
  { name := name, nodes := [node], c := (List.range T).map fun (k : Nat) => (k : Rat),
    l := (List.range T).map fun _ => -10, u := (List.range T).map fun _ => 10, rows := [],
    mapping := (List.range T).map fun k =>
      { var := k, asset := name, node := some node, kind := .d, step := k, factor := 1, isBool := false, varName := "disp" } }

/-- the storage of `EAO/Properties/C05.lean` (two variables per step, efficiency 1/2, inflow, two time blocks,
    window = steps 2…5 of a horizon of 8 steps) -/
def exA : AssetProblem := okOf (buildStorage exP exG 8 [])

theorem exA_ok : buildStorage exP exG 8 [] = .ok exA := okOf_ok _ (by decide +kernel)

/-- strictly increasing step indices, checked by evaluation -/
theorem exG_inc : IdxInc exG exG.T := by
  have h : ∀ j, j < 4 → ∀ i, i < j → idxAt exG i < idxAt exG j := by decide +kernel
  intro i j hij hj
  exact h j hj i hij

def m1 : AssetProblem := market "m1" "a" 8
def m2 : AssetProblem := market "m2" "a" 8

/-- storage in the MIDDLE: variables 0…7 market `m1`, 8…15 storage (charge 1 in steps 2 and 4, discharge 1 in
    steps 3 and 5), 16…23 market `m2`; `m1` takes the other side -/
def xMid : Vec := vecOf ([0, 0, 1, -1, 1, -1, 0, 0] ++ [-1, 0, -1, 0, 0, 1, 0, 1] ++ [0, 0, 0, 0, 0, 0, 0, 0])
/-- storage FIRST -/
def xFirst : Vec := vecOf ([-1, 0, -1, 0, 0, 1, 0, 1] ++ [0, 0, 1, -1, 1, -1, 0, 0] ++ [0, 0, 0, 0, 0, 0, 0, 0])
/-- storage LAST -/
def xLast : Vec := vecOf ([0, 0, 1, -1, 1, -1, 0, 0] ++ [0, 0, 0, 0, 0, 0, 0, 0] ++ [-1, 0, -1, 0, 0, 1, 0, 1])

def pfMid : Problem := assemble ([m1] ++ exA :: [m2]) (List.range 8) []
def pfFirst : Problem := assemble ([] ++ exA :: [m1, m2]) (List.range 8) []
def pfLast : Problem := assemble ([m1, m2] ++ exA :: []) (List.range 8) []

/-- the hypotheses of the embedded theorems are satisfiable: the other assets are foreign, every asset has one
    bound pair per variable, the grid lists have the right lengths, and the three points are relaxed-feasible for
    the three portfolio problems (bounds, storage rows, nodal balance at node `a` in all 8 steps) -/
example : Foreign exP.name ([m1] ++ [m2]) ∧ Foreign exP.name ([] ++ [m1, m2]) ∧ Foreign exP.name ([m1, m2] ++ []) ∧
    (∀ b ∈ [m1] ++ exA :: [m2], b.l.length = b.n ∧ b.u.length = b.n) ∧
    exG.dt.length = exG.T ∧ exG.idx.length = exG.T ∧ offsetOf [m1] = 8 ∧ offsetOf [m1, m2] = 16 ∧ exA.n = 8 ∧
    feasiblePB pfMid xMid = true ∧ feasiblePB pfFirst xFirst = true ∧ feasiblePB pfLast xLast = true ∧
    pfMid.nodal.length = 8 := by decide +kernel

/-- … and the reported columns evaluate, at all three positions, to the physical values: charge 1 at steps 2 and 4,
    discharge 1 (reported negative) at steps 3 and 5, fill level `7/4, 1, 7/4, 1` inside the window, start level
    before and last level after it -/
example :
    (List.range 8).map (chargeOut exP pfMid.mapping xMid) = [0, 0, 1, 0, 1, 0, 0, 0] ∧
    (List.range 8).map (dischargeOut exP pfMid.mapping xMid) = [0, 0, 0, -1, 0, -1, 0, 0] ∧
    fillLevel exP pfMid.mapping exG 8 xMid = [1, 1, 7/4, 1, 7/4, 1, 1, 1] ∧
    (List.range 8).map (chargeOut exP pfFirst.mapping xFirst) = [0, 0, 1, 0, 1, 0, 0, 0] ∧
    (List.range 8).map (dischargeOut exP pfFirst.mapping xFirst) = [0, 0, 0, -1, 0, -1, 0, 0] ∧
    fillLevel exP pfFirst.mapping exG 8 xFirst = [1, 1, 7/4, 1, 7/4, 1, 1, 1] ∧
    (List.range 8).map (chargeOut exP pfLast.mapping xLast) = [0, 0, 1, 0, 1, 0, 0, 0] ∧
    (List.range 8).map (dischargeOut exP pfLast.mapping xLast) = [0, 0, 0, -1, 0, -1, 0, 0] ∧
    fillLevel exP pfLast.mapping exG 8 xLast = [1, 1, 7/4, 1, 7/4, 1, 1, 1] ∧
    (List.range 4).map (physLevel exP exG 4 (slice 8 xMid)) = [7/4, 1, 7/4, 1] := by decide +kernel

/-- `readout_position_independent` applied: middle versus last position (the solution vectors agree on the
    storage's eight variables) -/
example : ∀ τ, chargeOut exP pfMid.mapping xMid τ = chargeOut exP pfLast.mapping xLast τ :=
  (readout_position_independent exP exG 8 [] exA exA_ok [m1] [m2] [m1, m2] [] (List.range 8) (List.range 8) [] []
    (by decide +kernel) (by decide +kernel) xMid xLast
    (by
      have h : ∀ j, j < 8 → xMid (offsetOf [m1] + j) = xLast (offsetOf [m1, m2] + j) := by decide +kernel
      intro j hj
      have : exA.n = 8 := by decide +kernel
      exact h j (by omega))).1

/-- `fill_level_true_embedded_feasible` applied to the middle position: reported level at full-grid step
    `idx t` = physical level of window position `t`, for all four positions -/
example : ∀ t, t < 4 → (fillLevel exP pfMid.mapping exG 8 xMid).getD (idxAt exG t) 0
      = physLevel exP exG 4 (slice (offsetOf [m1]) xMid) t := by
  intro t ht
  have hT : exG.T = 4 := rfl
  have hf : feasiblePB pfMid xMid = true := by decide +kernel
  have hidx : ∀ t, t < 4 → idxAt exG t < 8 := by decide +kernel
  exact fill_level_true_embedded_feasible exP exG 8 8 [] exA exA_ok rfl rfl exG_inc [m1] [m2] (List.range 8) []
    (by decide +kernel) (by decide +kernel) xMid (feasiblePB_ok _ _ hf).1 t (by omega) (hidx t ht)

/-! #### the end level is not checked: `end_level = 3 > size = 2`, and `end_level = −1 < 0` -/

/-- one-variable storage of size 2, empty at the start, `end_level = 3`: accepted by the constructor guards -/
def exOverP : StorageP :=
  { name := "s", nodes := ["a"], size := 2, capIn := 2, capOut := 2, startLevel := 0, endLevel := 3,
    costIn := 0, costOut := 0, costStore := 0, effIn := 1, inflow := 0, price := none,
    noSimult := false, maxStoreDuration := none, blocks := none }

/-- `end_level = −1` -/
def exUnderP : StorageP := { exOverP with endLevel := -1 }

def exOverA : AssetProblem := okOf (buildStorage exOverP exHoldG 2 [])

theorem exOverA_ok : buildStorage exOverP exHoldG 2 [] = .ok exOverA := okOf_ok _ (by decide +kernel)

/-- **witness** (`end_level > size`): the constructor guards accept, the set-up succeeds (also through `mkStorage`),
    charging 2 then 1 is feasible — and the level is 2, then 3 `> size`; the hypotheses of
    `end_above_size_overfills` and `end_level_forced` are satisfiable -/
theorem end_above_size_witness :
    exOverP.guards = true ∧ exOverP.size < exOverP.endLevel ∧ exOverP.maxStoreDuration = none ∧
    isOk (mkStorage exOverP exHoldG 2 []) = true ∧
    feasibleB (buildStorage exOverP exHoldG 2 []) (vecOf [-2, -1]) = true ∧
    (List.range 2).map (physLevel exOverP exHoldG 2 (vecOf [-2, -1])) = [2, 3] := by decide +kernel

/-- **witness** (`end_level < 0`): accepted as well; doing nothing and then discharging 1 from the EMPTY storage is
    feasible — the level ends at −1 -/
theorem end_below_zero_witness :
    exUnderP.guards = true ∧ isOk (mkStorage exUnderP exHoldG 2 []) = true ∧
    feasibleB (buildStorage exUnderP exHoldG 2 []) (vecOf [0, 1]) = true ∧
    (List.range 2).map (physLevel exUnderP exHoldG 2 (vecOf [0, 1])) = [0, -1] := by decide +kernel

/-- the same storage behind a market contract: the point is feasible for the PORTFOLIO problem and the
    `<name>_fill_level` column shows `2, 3` for a storage of size 2 (hypotheses of `reported_level_above_size`) -/
example :
    Foreign exOverP.name ([market "m" "a" 2] ++ []) ∧
    (∀ b ∈ [market "m" "a" 2] ++ exOverA :: [], b.l.length = b.n ∧ b.u.length = b.n) ∧
    feasiblePB (assemble ([market "m" "a" 2] ++ exOverA :: []) [0, 1] []) (vecOf [2, 1, -2, -1]) = true ∧
    fillLevel exOverP (assemble ([market "m" "a" 2] ++ exOverA :: []) [0, 1] []).mapping exHoldG 2 (vecOf [2, 1, -2, -1])
      = [2, 3] ∧
    (List.range 2).map (chargeOut exOverP (assemble ([market "m" "a" 2] ++ exOverA :: []) [0, 1] []).mapping
      (vecOf [2, 1, -2, -1])) = [2, 1] := by decide +kernel

/-- `level_bounds_iff_end_in_range` on the witness: both sides are false -/
example : ¬ (∀ t, t < exHoldG.T → 0 ≤ physLevel exOverP exHoldG exHoldG.T (vecOf [-2, -1]) t ∧
    physLevel exOverP exHoldG exHoldG.T (vecOf [-2, -1]) t ≤ exOverP.size) := by
  have hf := feasibleB_ok exOverA (vecOf [-2, -1])
    (by have := exOverA_ok; rw [← this]; exact end_above_size_witness.2.2.2.2.1)
  rw [level_bounds_iff_end_in_range exOverP exHoldG 2 [] exOverA _ rfl exOverA_ok rfl (by decide) hf]
  decide +kernel

end EAO.C05R
