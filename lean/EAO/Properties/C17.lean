import EAO.Model.Slp
import EAO.Model.Readout
import EAO.Model.Translate
import EAO.Lemmas.Slp
/-!
# C17 — two-stage stochastic program (`make_slp`) and robust target

Property theorems only; helper lemmas live in `EAO/Lemmas/Slp.lean`.

* `makeSlp_ok_iff`     — `make_slp` succeeds exactly when the future grid is non-empty (else `IndexError`,
                         F-17c), the future labels are variables, and bounds and cost samples have one entry
                         per variable; variables WITHOUT mapping row are fine (they belong to the present).
* `slp_structure`      — a point of `makeSlp P F cs` is `(x_present, x_future^0 … x_future^S)`: it satisfies
                         the rows/bounds iff every recombined point `z ∘ embed s` satisfies those of `P`; its
                         value is `value_present,non-straddling + 1/(S+1) Σ_s (value_straddling^s + value_future^s)`.
* `slp_value_mean`     — if the scenario cost vectors share the costs of the present variables that are NOT
                         straddling (`SharePresentNS`; implied by `SharePresent`), the SLP value is the mean of
                         the scenario values of the recombined points.  A straddling present variable (present,
                         but with a mapping row at a future step) gets the mean of its scenario costs.
* `slp_mapping_faithful` — the mapping of the SLP: original rows unchanged, the copy for sample `i` of a row of
                         future variable `j` points at `slpEmbed … (i+1) j`; every label `< n_slp`; `firstRows` and
                         `boolVars` are the original ones plus their copies.
* `slp_dispatch_mean`, `slp_dispatch_balance` — the reported dispatch of an SLP result is the mean over the scenarios
                         of the dispatch of the recombined points; it balances wherever those balance.
* abstract two-stage lemmas over arbitrary feasible sets and value functions:
  `slp_le_wait_and_see`, `ev_le_slp`, `slp_eq_det_of_equal`; their instances for `makeSlp`:
  `slp_le_wait_and_see_problem`, `ev_le_slp_problem` (with `slp_glue`), `slp_eq_det_of_equal_problem`.
* `robust_bounds`, `robust_bounds_problem`, `robust_reported_value`.

The numerical solver is outside the model; the statements are about feasible points and upper bounds of
value sets, so no existence of optima is assumed.
-/
namespace EAO.C17
open EAO EAO.Slp

/-! ## guards -/

/-- the labels `fut_vars` selected as future are variable indices (`If[fut_vars] = True` does not leave the
    array); always true for problems whose mapping labels are `< n` -/
def FutLabelsInRange (P : Problem) (F : List Nat) : Prop := ∀ v ∈ slpFutVars P F, v < P.n

instance (P : Problem) (F : List Nat) : Decidable (FutLabelsInRange P F) :=
  inferInstanceAs (Decidable (∀ v ∈ slpFutVars P F, v < P.n))

/-- bounds have the length of the cost vector -/
def BoundsWF (P : Problem) : Prop := P.l.length = P.n ∧ P.u.length = P.n

instance (P : Problem) : Decidable (BoundsWF P) := inferInstanceAs (Decidable (_ ∧ _))

/-- cost vectors produced by `create_cost_samples` have one entry per variable -/
def SamplesFit (P : Problem) (cs : List (List Rat)) : Prop := ∀ c ∈ cs, c.length = P.n

instance (P : Problem) (cs : List (List Rat)) : Decidable (SamplesFit P cs) :=
  inferInstanceAs (Decidable (∀ c ∈ cs, c.length = P.n))

theorem slpMask_length (P : Problem) (F : List Nat) : (slpMask P F).length = P.n := by
  simp [slpMask]

/-- entry `j` of the mask: `j` is one of the future labels -/
theorem slpMask_getD (P : Problem) (F : List Nat) (j : Nat) (hj : j < P.n) :
    (slpMask P F).getD j false = (slpFutVars P F).contains j := by
  simp [slpMask, List.getD_eq_getElem?_getD, hj]

/-- `make_slp` builds a problem exactly under these conditions; in every other case the model (and the code)
    fails with `IndexError`.  No condition on variables without mapping rows. -/
theorem makeSlp_ok_iff (P : Problem) (F : List Nat) (cs : List (List Rat)) :
    (∃ Q, makeSlp P F cs = .ok Q) ↔ F ≠ [] ∧ FutLabelsInRange P F ∧ BoundsWF P ∧ SamplesFit P cs := by
  unfold makeSlp FutLabelsInRange BoundsWF SamplesFit
  dsimp only
  constructor
  · rintro ⟨Q, h⟩
    split at h
    · cases h
    · split at h
      · cases h
      · split at h
        · cases h
        · split at h
          · cases h
          · rename_i h1 h2 h3 h4
            refine ⟨by simpa using h1, fun v hv => ?_, ⟨?_, ?_⟩, fun c hc => ?_⟩
            · by_contra hh
              exact h2 (List.any_eq_true.mpr ⟨v, hv, by simpa using hh⟩)
            · by_contra hh; exact h3 (Or.inl hh)
            · by_contra hh; exact h3 (Or.inr hh)
            · by_contra hh
              exact h4 (List.any_eq_true.mpr ⟨c, hc, by simpa using hh⟩)
  · rintro ⟨hF, hlab, ⟨hl, hu⟩, hs⟩
    rw [if_neg (by simpa using hF), if_neg, if_neg (by omega), if_neg]
    · exact ⟨_, rfl⟩
    · intro hh
      obtain ⟨c, hc, hne⟩ := List.any_eq_true.mp hh
      have := hs c hc
      simp at hne
      omega
    · intro hh
      obtain ⟨v, hv, hge⟩ := List.any_eq_true.mp hh
      have := hlab v hv
      simp at hge
      omega

theorem makeSlp_error (P : Problem) (F : List Nat) (cs : List (List Rat)) (e : BuildError)
    (h : makeSlp P F cs = .error e) : e = .index := by
  unfold makeSlp at h
  dsimp only at h
  split at h
  · cases h; rfl
  · split at h
    · cases h; rfl
    · split at h
      · cases h; rfl
      · split at h
        · cases h; rfl
        · cases h

/-! ## structure of the SLP -/

/-- cost vector of scenario `s`: `0` = the problem's own costs, `i+1` = sample `i` -/
def scenCost (c : List Rat) (samples : List (List Rat)) : Nat → List Rat
  | 0 => c
  | i + 1 => samples.getD i []

/-- `- Σ_{j present} c_j x_j` -/
def presentValue (mask : List Bool) (c : List Rat) (x : Vec) : Rat := - selCost (!·) mask c x
/-- `- Σ_{j future} c_j x_j` -/
def futureValue (mask : List Bool) (c : List Rat) (x : Vec) : Rat := - selCost id mask c x

/-- the value of a problem is its present part plus its future part -/
theorem value_split (mask : List Bool) (c : List Rat) (h : c.length = mask.length) (x : Vec) :
    - costAt c 0 x = presentValue mask c x + futureValue mask c x := by
  unfold presentValue futureValue
  rw [costAt_split mask c h x]; ring

/-- `- Σ_{j present, not straddling} c_j x_j` -/
def nsValue (mask strad : List Bool) (c : List Rat) (x : Vec) : Rat := - selCost id (nsMask mask strad) c x
/-- `- Σ_{j straddling} c_j x_j` (straddling: a present variable with some mapping row at a future step) -/
def stradValue (strad : List Bool) (c : List Rat) (x : Vec) : Rat := - selCost id strad c x

theorem slpStraddle_length (P : Problem) (F : List Nat) : (slpStraddle P F).length = P.n := by
  simp [slpStraddle]

/-- a straddling variable is a present variable -/
theorem slpStraddle_disjoint (P : Problem) (F : List Nat) (j : Nat)
    (h : (slpStraddle P F).getD j false = true) : (slpMask P F).getD j false = false := by
  by_cases hj : j < P.n
  · rw [slpMask_getD P F j hj]
    have e : (slpStraddle P F).getD j false =
        (!(slpFutVars P F).contains j && P.mapping.any fun m => m.var == j && F.contains m.step) := by
      simp [slpStraddle, List.getD_eq_getElem?_getD, hj]
    rw [e, Bool.and_eq_true] at h
    simpa using h.1
  · simp [slpStraddle, List.getD_eq_getElem?_getD, hj] at h

/-- the present part of a value = its non-straddling part + its straddling part -/
theorem presentValue_split (mask strad : List Bool) (c : List Rat) (hs : strad.length = mask.length)
    (hc : c.length = mask.length) (hdis : ∀ j, strad.getD j false = true → mask.getD j false = false) (x : Vec) :
    presentValue mask c x = nsValue mask strad c x + stradValue strad c x := by
  unfold presentValue nsValue stradValue
  rw [selCost_not_split mask strad c hs hc hdis x]; ring

/-- what `makeSlp` returns, with the facts its checks establish -/
theorem makeSlp_eq (P : Problem) (F : List Nat) (cs : List (List Rat)) (Q : Problem)
    (h : makeSlp P F cs = .ok Q) :
    let mask := slpMask P F
    (mask.length = P.n ∧ P.l.length = P.n ∧ P.u.length = P.n ∧ ∀ c ∈ cs, c.length = P.n) ∧
    Q.c = scaleSel ((cs.length : Rat) + 1) mask (presentCosts ((cs.length : Rat) + 1) (slpStraddle P F) P.c cs) ++
      sampleCosts ((cs.length : Rat) + 1) mask cs ∧
    Q.l = P.l ++ tile (maskSel mask P.l) cs.length ∧
    Q.u = P.u ++ tile (maskSel mask P.u) cs.length ∧
    Q.rows = P.rows ++ sampleRows mask P.n P.rows 0 cs.length ∧
    Q.mapping = slpMapping P F cs.length := by
  have hg := (makeSlp_ok_iff P F cs).mp ⟨Q, h⟩
  obtain ⟨hF, hlab, ⟨hl, hu⟩, hs⟩ := hg
  unfold makeSlp at h
  dsimp only at h
  rw [if_neg (by simpa using hF)] at h
  split at h
  · cases h
  · split at h
    · cases h
    · split at h
      · cases h
      · injection h with h
        subst h
        exact ⟨⟨slpMask_length P F, hl, hu, hs⟩, rfl, rfl, rfl, rfl, rfl⟩

/-- number of variables of the SLP: the original ones plus `S` copies of the future ones -/
theorem slp_n (P : Problem) (F : List Nat) (cs : List (List Rat)) (Q : Problem)
    (h : makeSlp P F cs = .ok Q) :
    Q.l.length = P.n + cs.length * maskCount (slpMask P F) ∧
    Q.u.length = P.n + cs.length * maskCount (slpMask P F) := by
  obtain ⟨⟨hm, hl, hu, _⟩, _, hQl, hQu, _, _⟩ := makeSlp_eq P F cs Q h
  rw [hQl, hQu, List.length_append, List.length_append, length_tile, length_tile,
    length_maskSel _ _ (by omega), length_maskSel _ _ (by omega), hl, hu]
  exact ⟨rfl, rfl⟩

/-- **slp_structure.**  With `embed s : Nat → Nat` (present variable ↦ itself, future variable `j` ↦ its copy
    for scenario `s`; `s = 0` is the original future, `s = i+1` sample `i`), a point `z` of the SLP satisfies
    bounds and rows iff every recombined point `z ∘ embed s`, `s = 0 … S`, satisfies those of `P`; and the SLP
    value of `z` is: the value of the non-straddling present variables (own costs), plus the mean over the
    scenarios of the value of the straddling present variables (present variables whose cost depends on future
    prices; scenario costs, common decision `z`), plus the mean over the scenarios of the future values.
    (Row by row: `Row.eval (r.rename (embed s)) z = Row.eval r (z ∘ embed s)`, lemma `eval_rename`.) -/
theorem slp_structure (P : Problem) (F : List Nat) (cs : List (List Rat)) (Q : Problem)
    (h : makeSlp P F cs = .ok Q) (z : Vec) :
    let mask := slpMask P F
    let strad := slpStraddle P F
    let S := cs.length
    (Q.FeasibleRelaxed z ↔ ∀ s, s ≤ S → P.FeasibleRelaxed (fun j => z (slpEmbed mask P.n s j))) ∧
    Q.value z = nsValue mask strad P.c z +
      mean S (fun s => stradValue strad (scenCost P.c cs s) z) +
      mean S (fun s => futureValue mask (scenCost P.c cs s) (fun j => z (slpEmbed mask P.n s j))) := by
  intro mask strad S
  obtain ⟨⟨hm, hl, hu, hs⟩, hQc, hQl, hQu, hQr, _⟩ := makeSlp_eq P F cs Q h
  have hm' : (slpMask P F).length = P.n := hm
  constructor
  · unfold Problem.FeasibleRelaxed
    rw [hQl, hQu, hQr, slp_bounds_iff _ P.l P.u (by omega) (by omega), slp_rows_iff, hl]
    constructor
    · rintro ⟨hb, hr⟩ s hs
      exact ⟨hb s hs, hr s hs⟩
    · intro hh
      exact ⟨fun s hs => (hh s hs).1, fun s hs => (hh s hs).2⟩
  · unfold Problem.value
    rw [hQc, slp_cost_eq_strad _ _ _ P.c cs (by rw [slpStraddle_length, hm']) (by rw [hm']; rfl)
      (fun c hc => by rw [hs c hc, hm']) (slpStraddle_disjoint P F)]
    unfold mean nsValue stradValue futureValue
    rw [sum_range_succ_shift, sum_range_succ_shift]
    simp only [scenCost, slpEmbed_zero]
    rw [sum_map_neg, sum_map_neg]
    have hk : ((cs.length : Nat) : Rat) + 1 ≠ 0 := (scen_pos cs.length).ne'
    have hn : P.c.length = P.n := rfl
    rw [hn]
    field_simp
    ring

/-- the samples share the costs of the present variables that are NOT straddling (a straddling present variable
    — coarser asset frequency, block starting in the present and ending in the future — has a cost that depends
    on future prices and may differ between the samples) -/
def SharePresentNS (P : Problem) (F : List Nat) (cs : List (List Rat)) : Prop :=
  ∀ i, i < cs.length → ∀ x,
    nsValue (slpMask P F) (slpStraddle P F) (cs.getD i []) x = nsValue (slpMask P F) (slpStraddle P F) P.c x

/-- **slp_value_mean.**  If the scenario cost vectors agree with the problem's own costs on the present variables
    that are not straddling, the SLP value is the mean over the scenarios of the full scenario values of the
    recombined points.  (A straddling variable is a present variable: `z_j` is the same in every recombined
    point, so `mean_s (c_s[j]·z_j) = mean_s (c_s[j])·z_j`, which is what `make_slp` puts into the cost vector.) -/
theorem slp_value_mean (P : Problem) (F : List Nat) (cs : List (List Rat)) (Q : Problem)
    (h : makeSlp P F cs = .ok Q) (z : Vec) (hshare : SharePresentNS P F cs) :
    Q.value z = mean cs.length (fun s => - costAt (scenCost P.c cs s) 0 (fun j => z (slpEmbed (slpMask P F) P.n s j))) := by
  obtain ⟨⟨hm, hl, hu, hs⟩, _⟩ := makeSlp_eq P F cs Q h
  have hm' : (slpMask P F).length = P.n := hm
  have hst : (slpStraddle P F).length = (slpMask P F).length := by rw [slpStraddle_length, hm']
  rw [(slp_structure P F cs Q h z).2]
  have e : ∀ s, s ≤ cs.length →
      - costAt (scenCost P.c cs s) 0 (fun j => z (slpEmbed (slpMask P F) P.n s j)) =
        nsValue (slpMask P F) (slpStraddle P F) P.c z +
          (stradValue (slpStraddle P F) (scenCost P.c cs s) z +
            futureValue (slpMask P F) (scenCost P.c cs s) (fun j => z (slpEmbed (slpMask P F) P.n s j))) := by
    intro s hs'
    have hlen : (scenCost P.c cs s).length = (slpMask P F).length := by
      cases s with
      | zero => rw [hm']; rfl
      | succ i =>
        have hi : i < cs.length := by omega
        show (cs.getD i []).length = _
        rw [hm', List.getD_eq_getElem?_getD, List.getElem?_eq_getElem hi]
        exact hs _ (List.getElem_mem hi)
    rw [value_split _ _ hlen, presentValue_split _ (slpStraddle P F) _ hst hlen (slpStraddle_disjoint P F)]
    have hns : nsValue (slpMask P F) (slpStraddle P F) (scenCost P.c cs s) (fun j => z (slpEmbed (slpMask P F) P.n s j)) =
        nsValue (slpMask P F) (slpStraddle P F) P.c z := by
      have h1 : nsValue (slpMask P F) (slpStraddle P F) (scenCost P.c cs s) (fun j => z (slpEmbed (slpMask P F) P.n s j)) =
          nsValue (slpMask P F) (slpStraddle P F) P.c (fun j => z (slpEmbed (slpMask P F) P.n s j)) := by
        cases s with
        | zero => rfl
        | succ i => exact hshare i (by omega) _
      rw [h1]
      unfold nsValue
      congr 1
      apply selCost_id_congr
      intro j _ hj
      have hmj := (nsMask_getD _ _ j hj).1
      cases s with
      | zero => rfl
      | succ i => rw [slpEmbed_succ_unsel _ _ i j hmj]
    have hsv : stradValue (slpStraddle P F) (scenCost P.c cs s) (fun j => z (slpEmbed (slpMask P F) P.n s j)) =
        stradValue (slpStraddle P F) (scenCost P.c cs s) z := by
      unfold stradValue
      congr 1
      apply selCost_id_congr
      intro j _ hj
      have hmj := slpStraddle_disjoint P F j hj
      cases s with
      | zero => rfl
      | succ i => rw [slpEmbed_succ_unsel _ _ i j hmj]
    rw [hns, hsv]; ring
  rw [mean_congr _ _ _ e, mean_add_const, mean_add]; ring

/-- with future labels in range, "label is one of `fut_vars`" and "mask entry of the label" are the same -/
theorem slpIsFut_eq (P : Problem) (F : List Nat) (hlab : FutLabelsInRange P F) (v : Nat) :
    (slpFutVars P F).contains v = (slpMask P F).getD v false := by
  by_cases hv : v < P.n
  · rw [slpMask_getD P F v hv]
  · have h1 : (slpMask P F).getD v false = false := by
      simp [List.getD_eq_getElem?_getD, slpMask_length, hv]
    rw [h1]
    by_contra hc
    have : v ∈ slpFutVars P F := by simpa using hc
    exact hv (hlab v this)

/-- number of variables of the SLP -/
theorem slp_n' (P : Problem) (F : List Nat) (cs : List (List Rat)) (Q : Problem)
    (h : makeSlp P F cs = .ok Q) : Q.n = P.n + cs.length * maskCount (slpMask P F) := by
  obtain ⟨⟨hm, _, _, hs⟩, hQc, _⟩ := makeSlp_eq P F cs Q h
  have hm' : (slpMask P F).length = P.n := hm
  unfold Problem.n
  rw [hQc, List.length_append, length_scaleSel, length_sampleCosts _ _ cs (fun c hc => by rw [hs c hc, hm'])]
  unfold presentCosts
  rw [length_meanSel]

/-- **slp_mapping_faithful.**  The mapping of the SLP keeps its index on VARIABLES: the original rows are
    unchanged; for every sample `i` the rows of the future variables (all rows of such a variable) are appended
    with the label of the copy, `slpEmbed mask n (i+1) j`.  If the labels of `P` are variables (`< n`), every label
    of the SLP is a variable of the SLP, the first rows (`~index.duplicated(keep='first')`, used by `dcf`,
    `optimize`, the read-out) are the original first rows plus their copies, and the boolean variables are the
    original ones plus the copies of the future ones — for any number of mapping rows per variable and with
    variables that have no mapping row. -/
theorem slp_mapping_faithful (P : Problem) (F : List Nat) (cs : List (List Rat)) (Q : Problem)
    (h : makeSlp P F cs = .ok Q) (hwf : ∀ m ∈ P.mapping, m.var < P.n) :
    let mask := slpMask P F
    Q.mapping = P.mapping ++ copyBlocks mask P.n P.mapping cs.length ∧
    (∀ m ∈ Q.mapping, m.var < Q.n) ∧
    firstRows Q.mapping [] = firstRows P.mapping [] ++ copyBlocks mask P.n (firstRows P.mapping []) cs.length ∧
    Q.boolVars = P.boolVars ++ (List.range cs.length).flatMap (fun i =>
      (P.boolVars.filter fun j => mask.getD j false).map (slpEmbed mask P.n (i + 1))) := by
  intro mask
  have hlab := ((makeSlp_ok_iff P F cs).mp ⟨Q, h⟩).2.1
  have hQm := (makeSlp_eq P F cs Q h).2.2.2.2.2
  have hmap : Q.mapping = P.mapping ++ copyBlocks mask P.n P.mapping cs.length := by
    rw [hQm]
    unfold slpMapping slpCopyRows copyBlocks
    simp only [slpIsFut_eq P F hlab, List.map_flatMap, List.map_map]
    rfl
  have hfirst : firstRows Q.mapping [] =
      firstRows P.mapping [] ++ copyBlocks mask P.n (firstRows P.mapping []) cs.length := by
    rw [hmap, firstRows_append, firstRows_copyBlocks mask P.n P.mapping hwf]
  refine ⟨hmap, ?_, hfirst, ?_⟩
  · intro m hm
    rw [hmap] at hm
    rw [slp_n' P F cs Q h]
    rcases List.mem_append.mp hm with hm | hm
    · have := hwf m hm; omega
    · exact (copyBlocks_var mask P.n P.mapping cs.length m hm).2
  · unfold Problem.boolVars
    rw [hfirst]
    simp only [copyBlocks, List.filter_append, List.map_append, List.filter_flatMap, List.map_flatMap,
      List.filter_map, List.map_map, List.filter_filter]
    congr 1
    apply List.flatMap_congr
    intro i _
    have e1 : ((fun x : MapRow => x.var) ∘ relabel (slpEmbed mask P.n (i + 1))) =
        (slpEmbed mask P.n (i + 1) ∘ fun x => x.var) := by funext m; rfl
    have e2 : (fun a : MapRow => ((fun x : MapRow => x.isBool) ∘ relabel (slpEmbed mask P.n (i + 1))) a && mask.getD a.var false) =
        (fun a => ((fun j => mask.getD j false) ∘ fun x : MapRow => x.var) a && a.isBool) := by
      funext a; simp [Bool.and_comm]
    rw [e1, e2]


/-! ## read-out of the dispatch of an SLP result -/

/-- the tagged mapping rows of the SLP: original rows (tag −1 on rows of future variables), then the copies -/
theorem slpMappingRows_eq (P : Problem) (F : List Nat) (S : Nat) (hlab : FutLabelsInRange P F) :
    slpMappingRows P F S =
      P.mapping.map (fun m => (m, if (slpMask P F).getD m.var false then some (-1 : Int) else none)) ++
        (List.range S).flatMap fun i => (P.mapping.filter fun m => (slpMask P F).getD m.var false).map
          fun m => (relabel (slpEmbed (slpMask P F) P.n (i + 1)) m, some (Int.ofNat i)) := by
  unfold slpMappingRows slpCopyRows
  simp only [slpIsFut_eq P F hlab, List.map_flatMap, List.map_map]
  rfl

/-- **slp_dispatch_mean.**  For any point `z` of the SLP problem the dispatch reported by the read-out for asset
    `a` at (node `n`, step `t`) is the mean over the scenarios `s = 0 … S` of the dispatch of the original problem
    at the recombined point `z ∘ embed s` — i.e. the dispatch of the present variables of that cell (common to
    all scenarios, counted once, also when such a variable has a row on a future step) plus the mean of the
    dispatch of the future variables.  Holds for any number of mapping rows per variable. -/
theorem slp_dispatch_mean (P : Problem) (F : List Nat) (cs : List (List Rat)) (Q : Problem)
    (h : makeSlp P F cs = .ok Q) (a n : String) (t : Nat) (z : Vec) :
    slpDispatchOut Q.mapping (slpColumn P F cs.length) a n t z =
      mean cs.length (fun s => dispatchOut P.mapping a n t (fun j => z (slpEmbed (slpMask P F) P.n s j))) := by
  have hlab := ((makeSlp_ok_iff P F cs).mp ⟨Q, h⟩).2.1
  have hQm := (makeSlp_eq P F cs Q h).2.2.2.2.2
  have hshape := slpMappingRows_eq P F cs.length hlab
  have hmap : Q.mapping = (slpMappingRows P F cs.length).map (·.1) := by
    rw [hQm]
    unfold slpMapping slpMappingRows
    simp [List.map_append, List.map_map, Function.comp_def]
  -- number of distinct sample ids, whenever it matters
  have hk : ∀ m ∈ P.mapping, (slpMask P F).getD m.var false = true →
      ((slpNSamples (slpColumn P F cs.length) : Nat) : Rat) = (cs.length : Rat) + 1 := by
    intro m hm hf
    have : slpNSamples (slpColumn P F cs.length) = cs.length + 1 := by
      unfold slpColumn
      rw [hshape]
      simp only [List.map_append, List.map_map, List.map_flatMap, Function.comp_def]
      exact slpNSamples_tags P.mapping (fun m => (slpMask P F).getD m.var false) cs.length ⟨m, hm, hf⟩
    rw [this]; push_cast; ring
  unfold slpDispatchOut
  generalize ((slpNSamples (slpColumn P F cs.length) : Nat) : Rat) = k at hk ⊢
  rw [hmap]
  unfold slpColumn
  rw [zip_map_fst_snd', hshape,
    slpDispatchRows_eq P.mapping (fun m => (slpMask P F).getD m.var false) (fun i => slpEmbed (slpMask P F) P.n (i + 1))]
  unfold dispatchOut
  simp only [MapRow.contrib]
  rw [mean_list_sum]
  congr 1
  apply List.map_congr_left
  intro m hm
  have hm' : m ∈ P.mapping := (List.mem_filter.mp hm).1
  rw [row_mean]
  by_cases hf : (slpMask P F).getD m.var false = true
  · simp only [hf, if_true]
    rw [hk m hm' hf]
  · rw [if_neg hf, if_neg hf]

/-- hence the reported SLP dispatch balances wherever every recombined point balances: the sum over a list of
    assets of the reported dispatch is the mean of the scenario sums (with `slp_structure` and the nodal rows of
    `P`: the mean of zeros) -/
theorem slp_dispatch_balance (P : Problem) (F : List Nat) (cs : List (List Rat)) (Q : Problem)
    (h : makeSlp P F cs = .ok Q) (names : List String) (n : String) (t : Nat) (z : Vec)
    (hbal : ∀ s, s ≤ cs.length →
      (names.map fun a => dispatchOut P.mapping a n t (fun j => z (slpEmbed (slpMask P F) P.n s j))).sum = 0) :
    (names.map fun a => slpDispatchOut Q.mapping (slpColumn P F cs.length) a n t z).sum = 0 := by
  simp only [slp_dispatch_mean P F cs Q h]
  rw [← mean_list_sum, mean_congr _ _ (fun _ => 0) hbal, mean_const]

/-! ## abstract two-stage lemmas (arbitrary feasible sets and value functions) -/
section TwoStage
variable {X Y : Type} (S : Nat) (Feas : Nat → X → Y → Prop) (v : Nat → X → Y → Rat)

/-- feasible set of the two-stage program: one first-stage decision, one recourse per scenario -/
def SlpFeas (x : X) (y : Nat → Y) : Prop := ∀ s, s ≤ S → Feas s x (y s)
/-- its objective: mean of the scenario values -/
def slpValue (x : X) (y : Nat → Y) : Rat := mean S (fun s => v s x (y s))

/-- wait-and-see bound: any SLP-feasible point has value at most the mean of (upper bounds of) the
    per-scenario optima -/
theorem slp_le_wait_and_see (ub : Nat → Rat)
    (hub : ∀ s, s ≤ S → ∀ x y, Feas s x y → v s x y ≤ ub s)
    (x : X) (y : Nat → Y) (h : SlpFeas S Feas x y) : slpValue S v x y ≤ mean S ub :=
  mean_le_mean S _ _ (fun s hs => hub s hs x (y s) (h s hs))

/-- expected value of fixing the first stage: ANY first-stage decision that admits recourse in every
    scenario, together with per-scenario recourse, is SLP-feasible; so its mean value is at most every upper
    bound of the SLP value -/
theorem ev_le_slp (U : Rat) (hU : ∀ x y, SlpFeas S Feas x y → slpValue S v x y ≤ U)
    (x0 : X) (y : Nat → Y) (hrec : ∀ s, s ≤ S → Feas s x0 (y s)) :
    SlpFeas S Feas x0 y ∧ mean S (fun s => v s x0 (y s)) ≤ U :=
  ⟨hrec, hU x0 y hrec⟩

/-- all scenarios equal: the diagonal point of a deterministic point is SLP-feasible with the deterministic
    value, and every SLP point's value is a mean of deterministic values, hence below every upper bound of
    the deterministic value: the two optima coincide -/
theorem slp_eq_det_of_equal
    (hF : ∀ s, s ≤ S → ∀ x y, Feas s x y ↔ Feas 0 x y) (hv : ∀ s, s ≤ S → ∀ x y, v s x y = v 0 x y) :
    (∀ x y, Feas 0 x y → SlpFeas S Feas x (fun _ => y) ∧ slpValue S v x (fun _ => y) = v 0 x y) ∧
    (∀ ub, (∀ x y, Feas 0 x y → v 0 x y ≤ ub) → ∀ x y, SlpFeas S Feas x y → slpValue S v x y ≤ ub) := by
  constructor
  · intro x y h
    refine ⟨fun s hs => (hF s hs x y).mpr h, ?_⟩
    unfold slpValue
    rw [mean_congr S _ (fun _ => v 0 x y) (fun s hs => hv s hs x y), mean_const]
  · intro ub hub x y h
    unfold slpValue
    calc mean S (fun s => v s x (y s)) ≤ mean S (fun _ => ub) :=
          mean_le_mean S _ _ (fun s hs => by
            rw [hv s hs]; exact hub x (y s) ((hF s hs x (y s)).mp (h s hs)))
      _ = ub := mean_const S ub

end TwoStage

/-! ## the same for `makeSlp` -/

/-- value of a point of `P` under the cost vector of scenario `s` -/
def scenValue (P : Problem) (cs : List (List Rat)) (s : Nat) (x : Vec) : Rat := - costAt (scenCost P.c cs s) 0 x

/-- the scenario cost vectors share the present part (the price samples share the present prices) -/
def SharePresent (P : Problem) (F : List Nat) (cs : List (List Rat)) : Prop :=
  ∀ i, i < cs.length → ∀ x, presentValue (slpMask P F) (cs.getD i []) x = presentValue (slpMask P F) P.c x

/-- sharing the whole present part implies sharing its non-straddling part -/
theorem sharePresentNS_of_sharePresent (P : Problem) (F : List Nat) (cs : List (List Rat))
    (hfit : SamplesFit P cs) (h : SharePresent P F cs) : SharePresentNS P F cs := by
  intro i hi x
  have hm : (slpMask P F).length = P.n := slpMask_length P F
  have hst : (slpStraddle P F).length = (slpMask P F).length := by rw [slpStraddle_length, hm]
  -- evaluate at the point with the straddling coordinates set to zero
  let x' : Vec := fun j => if (slpStraddle P F).getD j false then 0 else x j
  have key : ∀ c : List Rat, c.length = (slpMask P F).length →
      nsValue (slpMask P F) (slpStraddle P F) c x = presentValue (slpMask P F) c x' := by
    intro c hc
    rw [presentValue_split _ (slpStraddle P F) c hst hc (slpStraddle_disjoint P F)]
    have h1 : nsValue (slpMask P F) (slpStraddle P F) c x' = nsValue (slpMask P F) (slpStraddle P F) c x := by
      unfold nsValue
      congr 1
      apply selCost_id_congr
      intro j _ hj
      have := (nsMask_getD _ _ j hj).2
      show (if (slpStraddle P F).getD j false = true then 0 else x j) = x j
      rw [if_neg (by rw [this]; exact Bool.false_ne_true)]
    have h2 : stradValue (slpStraddle P F) c x' = 0 := by
      unfold stradValue
      rw [selCost_id_congr (slpStraddle P F) c x' (fun _ => 0) (fun j _ hj => by
        show (if (slpStraddle P F).getD j false = true then 0 else x j) = 0
        rw [if_pos hj]), selCost_zero]
      simp
    rw [h1, h2]; ring
  have hci : (cs.getD i []).length = (slpMask P F).length := by
    rw [hm, List.getD_eq_getElem?_getD, List.getElem?_eq_getElem hi]
    exact hfit _ (List.getElem_mem hi)
  rw [key _ hci, key P.c (by rw [hm]; rfl)]
  exact h i hi x'

/-- wait-and-see for the SLP problem: its value at any feasible point is at most the mean of upper bounds
    of the per-scenario problems (same rows and bounds as `P`, costs of scenario `s`) -/
theorem slp_le_wait_and_see_problem (P : Problem) (F : List Nat) (cs : List (List Rat)) (Q : Problem)
    (h : makeSlp P F cs = .ok Q) (hshare : SharePresentNS P F cs) (ub : Nat → Rat)
    (hub : ∀ s, s ≤ cs.length → ∀ x, P.FeasibleRelaxed x → scenValue P cs s x ≤ ub s)
    (z : Vec) (hz : Q.FeasibleRelaxed z) : Q.value z ≤ mean cs.length ub := by
  rw [slp_value_mean P F cs Q h z hshare]
  have hf := (slp_structure P F cs Q h z).1.mp hz
  exact slp_le_wait_and_see cs.length (fun s (z : Vec) (_ : Unit) => P.FeasibleRelaxed (fun j => z (slpEmbed (slpMask P F) P.n s j)))
    (fun s z _ => scenValue P cs s (fun j => z (slpEmbed (slpMask P F) P.n s j))) ub
    (fun s hs z _ hzz => hub s hs _ hzz) z (fun _ => ()) hf

/-- all samples equal to the problem's own costs: the SLP value of any feasible point is at most every upper
    bound of the deterministic value (and the diagonal point attains the deterministic value, see the
    example below and `slp_eq_det_of_equal`) -/
theorem slp_eq_det_of_equal_problem (P : Problem) (F : List Nat) (cs : List (List Rat)) (Q : Problem)
    (h : makeSlp P F cs = .ok Q) (heq : ∀ c ∈ cs, c = P.c) (ub : Rat)
    (hub : ∀ x, P.FeasibleRelaxed x → P.value x ≤ ub) (z : Vec) (hz : Q.FeasibleRelaxed z) :
    Q.value z ≤ ub := by
  have hsc : ∀ s, s ≤ cs.length → scenCost P.c cs s = P.c := by
    intro s hs
    cases s with
    | zero => rfl
    | succ i =>
      have hi : i < cs.length := by omega
      show cs.getD i [] = _
      rw [List.getD_eq_getElem?_getD, List.getElem?_eq_getElem hi]
      exact heq _ (List.getElem_mem hi)
  have hshare : SharePresentNS P F cs := by
    intro i hi x
    have := hsc (i + 1) (by omega)
    have e : cs.getD i [] = P.c := this
    rw [e]
  have := slp_le_wait_and_see_problem P F cs Q h hshare (fun _ => ub)
    (fun s hs x hx => by unfold scenValue; rw [hsc s hs]; exact hub x hx) z hz
  rwa [mean_const] at this

/-- **slp_glue.**  Points `w 0 … w S` of the original problem, one per scenario, that agree on the present
    variables glue to ONE point of the SLP (`slpGlue`: original variables from `w 0`, the copy block of sample `i`
    from `w (i+1)`).  If every `w s` is feasible for `P` the glued point is feasible for the SLP, and — if the
    samples share the costs of the non-straddling present variables — its SLP value is the mean of the scenario
    values `scenValue P cs s (w s)`.  Needs the rows of `P` to mention columns `< n` only (so that `P` reads a point
    only below `n`). -/
theorem slp_glue (P : Problem) (F : List Nat) (cs : List (List Rat)) (Q : Problem)
    (h : makeSlp P F cs = .ok Q) (hshare : SharePresentNS P F cs)
    (hcols : ∀ r ∈ P.rows, ∀ p ∈ r.coeffs, p.1 < P.n)
    (w : Nat → Vec) (hw : ∀ s, s ≤ cs.length → P.FeasibleRelaxed (w s))
    (hagree : ∀ s, s ≤ cs.length → ∀ j, j < P.n → (slpMask P F).getD j false = false → w s j = w 0 j) :
    Q.FeasibleRelaxed (slpGlue (slpMask P F) P.n w) ∧
    Q.value (slpGlue (slpMask P F) P.n w) = mean cs.length (fun s => scenValue P cs s (w s)) := by
  obtain ⟨⟨hm, hl, hu, hs⟩, _⟩ := makeSlp_eq P F cs Q h
  have hrec : ∀ s, s ≤ cs.length → ∀ j, j < P.n →
      slpGlue (slpMask P F) P.n w (slpEmbed (slpMask P F) P.n s j) = w s j :=
    fun s hs' j hj => slpGlue_embed _ _ w s j hj (hagree s hs' j hj)
  constructor
  · rw [(slp_structure P F cs Q h _).1]
    intro s hs'
    exact (feasibleRelaxed_congr P hl hcols _ (w s) (hrec s hs')).mpr (hw s hs')
  · rw [slp_value_mean P F cs Q h _ hshare]
    apply mean_congr
    intro s hs'
    unfold scenValue
    congr 1
    apply costAt_congr
    intro j hj
    have hlen : (scenCost P.c cs s).length = P.n := by
      cases s with
      | zero => rfl
      | succ i =>
        have hi : i < cs.length := by omega
        show (cs.getD i []).length = _
        rw [List.getD_eq_getElem?_getD, List.getElem?_eq_getElem hi]
        exact hs _ (List.getElem_mem hi)
    rw [Nat.zero_add]
    exact hrec s hs' j (by omega)

/-- **ev_le_slp_problem** (the instance of `ev_le_slp` for `makeSlp`).  The expected value of fixing the present
    to ANY common decision that admits recourse in every scenario is at most the SLP optimum: for points `w s`
    (`s = 0 … S`) feasible for `P` that agree on the present variables there is a feasible point of the SLP
    whose value is `mean_s scenValue_s (w s)`; hence that mean is at most every upper bound `U` of the SLP value
    on its feasible points.  (With `w s` = the optimum of scenario `s` after fixing the present to the present part
    of any single-scenario optimum this is `EEV_k ≤ V_slp`.) -/
theorem ev_le_slp_problem (P : Problem) (F : List Nat) (cs : List (List Rat)) (Q : Problem)
    (h : makeSlp P F cs = .ok Q) (hshare : SharePresentNS P F cs)
    (hcols : ∀ r ∈ P.rows, ∀ p ∈ r.coeffs, p.1 < P.n)
    (w : Nat → Vec) (hw : ∀ s, s ≤ cs.length → P.FeasibleRelaxed (w s))
    (hagree : ∀ s, s ≤ cs.length → ∀ j, j < P.n → (slpMask P F).getD j false = false → w s j = w 0 j) :
    (∃ z, Q.FeasibleRelaxed z ∧ Q.value z = mean cs.length (fun s => scenValue P cs s (w s))) ∧
    ∀ U, (∀ z, Q.FeasibleRelaxed z → Q.value z ≤ U) → mean cs.length (fun s => scenValue P cs s (w s)) ≤ U := by
  have hg := slp_glue P F cs Q h hshare hcols w hw hagree
  refine ⟨⟨_, hg.1, hg.2⟩, fun U hU => ?_⟩
  rw [← hg.2]
  exact hU _ hg.1

/-! ## robust target -/

/-- `w` is the worst case (minimum over the scenarios `0 … S`) of the values `v s x` -/
def IsWorst {X : Type} (S : Nat) (v : Nat → X → Rat) (x : X) (w : Rat) : Prop :=
  (∀ s, s ≤ S → w ≤ v s x) ∧ ∃ s, s ≤ S ∧ w = v s x

/-- **robust_bounds.**  (1) if `x_r` maximises the worst case over the feasible set, its worst case is at
    least the worst case of every feasible point — in particular of every single-scenario optimum `x_k`;
    (2) the worst case of ANY feasible point is at most the smallest (upper bound of a) per-scenario optimum. -/
theorem robust_bounds {X : Type} (S : Nat) (Feas : X → Prop) (v : Nat → X → Rat) :
    (∀ xr wr, IsWorst S v xr wr → (∀ x w, Feas x → IsWorst S v x w → w ≤ wr) →
        ∀ xk wk, Feas xk → IsWorst S v xk wk → wk ≤ wr) ∧
    (∀ (ub : Nat → Rat), (∀ s, s ≤ S → ∀ x, Feas x → v s x ≤ ub s) →
        ∀ x w, Feas x → IsWorst S v x w → ∀ s, s ≤ S → w ≤ ub s) := by
  constructor
  · intro xr wr _ hopt xk wk hk hwk
    exact hopt xk wk hk hwk
  · intro ub hub x w hx hw s hs
    exact le_trans (hw.1 s hs) (hub s hs x hx)

/-- the same for the model of the robust target (`robustObjective`, epigraph form proved in
    `EAO.C03.robust_epigraph`): the robust objective of a feasible point is at most every upper bound of every
    single-sample problem, and the maximiser dominates the robust objective of every feasible point -/
theorem robust_bounds_problem (P : Problem) (samples : List (List Rat)) (x : Vec) (w : Rat)
    (hx : P.FeasibleRelaxed x) (hw : robustObjective samples x = some w) :
    (∀ c ∈ samples, ∀ ub, (∀ y, P.FeasibleRelaxed y → - costAt c 0 y ≤ ub) → w ≤ ub) ∧
    (∀ c ∈ samples, w ≤ - costAt c 0 x) ∧ (∃ c ∈ samples, w = - costAt c 0 x) := by
  have hspec := min?_map_spec (fun cs => - costAt cs 0 x) samples w hw
  exact ⟨fun c hc ub hub => le_trans (hspec.1 c hc) (hub x hx), hspec.1, hspec.2⟩

/-- what `results.value` of the robust target is: `-sum(x*c)` with the problem's OWN cost vector, i.e. the
    value of the robust decision in the base scenario — NOT the optimised worst case (the code comment says
    "the optimized value is the minimum").  If the own cost vector is one of the samples the reported value is
    at least the worst case; it equals it iff the base scenario is a worst one. -/
theorem robust_reported_value (P : Problem) (samples : List (List Rat)) (x : Vec) (w : Rat)
    (hw : robustObjective samples x = some w) (hown : P.c ∈ samples) : w ≤ P.value x :=
  (min?_map_spec (fun cs => - costAt cs 0 x) samples w hw).1 P.c hown

/-! ## non-vacuity -/
section Example
private def mr (v t : Nat) : MapRow :=
  { var := v, asset := "a", node := some "n", kind := .d, step := t, factor := 1, isBool := false, varName := "disp" }

/-- three steps, one variable per step, a coupling row over steps 0 and 2; future = steps 1, 2 -/
private def exP : Problem :=
  { c := [1, 2, 3], l := [0, 0, 0], u := [1, 1, 1], rows := [⟨[(0, 1), (2, 1)], 1, .U⟩],
    mapping := [mr 0 0, mr 1 1, mr 2 2], nodal := [] }

private def exQ : Problem :=
  { c := [1, 2/3, 1, 4/3, 5/3, 1/3, 1/3], l := [0, 0, 0, 0, 0, 0, 0], u := [1, 1, 1, 1, 1, 1, 1],
    rows := [⟨[(0, 1), (2, 1)], 1, .U⟩, ⟨[(0, 1), (4, 1)], 1, .U⟩, ⟨[(0, 1), (6, 1)], 1, .U⟩],
    mapping := [mr 0 0, mr 1 1, mr 2 2, mr 3 1, mr 4 2, mr 5 1, mr 6 2], nodal := [] }

/-- observable parts of a result: costs and bounds — or the error; rows; mapping labels -/
private def view (r : Except BuildError Problem) : BuildError ⊕ List (List Rat) :=
  match r with
  | .error e => .inl e
  | .ok Q => .inr [Q.c, Q.l, Q.u]
private def viewRows (r : Except BuildError Problem) : List (List (Nat × Rat) × Rat × RowKind) :=
  match r with
  | .error _ => []
  | .ok Q => Q.rows.map (fun r => (r.coeffs, r.rhs, r.kind))
private def viewLabels (r : Except BuildError Problem) : List Nat :=
  match r with
  | .error _ => []
  | .ok Q => Q.mapping.map (·.var)

example : FutLabelsInRange exP [1, 2] ∧ BoundsWF exP := by decide
example : slpMask exP [1, 2] = [false, true, true] := by decide
example : view (makeSlp exP [1, 2] [[1, 4, 5], [0, 1, 1]]) = view (.ok exQ) := by decide +kernel
example : viewRows (makeSlp exP [1, 2] [[1, 4, 5], [0, 1, 1]]) = viewRows (.ok exQ) := by decide +kernel
example : viewLabels (makeSlp exP [1, 2] [[1, 4, 5], [0, 1, 1]]) = [0, 1, 2, 3, 4, 5, 6] := by decide +kernel
example : slpColumn exP [1, 2] 2 = [none, some (-1), some (-1), some 0, some 0, some 1, some 1] := by decide
example : (List.range 3).map (slpEmbed [false, true, true] 3 2) = [0, 5, 6] := by decide
private def exZ : Vec := fun j => [1/2, 1, 1/2, 0, 1/2, 1, 0].getD j 0
example : exQ.FeasibleRelaxed exZ := by decide +kernel
example : exQ.value exZ = -17/6 := by decide +kernel
example : presentValue [false, true, true] exP.c exZ = -1/2 := by decide +kernel
/-- future values of the three scenarios: −7/2, −5/2, −1; mean −7/3; −1/2 − 7/3 = −17/6 -/
example : (List.range 3).map (fun s => futureValue [false, true, true] (scenCost exP.c [[1, 4, 5], [0, 1, 1]] s)
    (fun j => exZ (slpEmbed [false, true, true] 3 s j))) = [-7/2, -5/2, -1] := by decide +kernel
example : view (makeSlp exP [] [[1, 4, 5]]) = .inl .index := by decide +kernel
/-- a variable without mapping row (variable 1; F-17a before commit c776509) belongs to the present: only
    variable 2 is copied, its copy row carries label 3 -/
private def exR : Problem := { exP with mapping := [mr 0 0, mr 2 2] }
example : slpMask exR [1, 2] = [false, false, true] := by decide
example : view (makeSlp exR [1, 2] [[1, 4, 5]]) = .inr [[1, 2, 3/2, 5/2], [0, 0, 0, 0], [1, 1, 1, 1]] := by decide +kernel
example : viewLabels (makeSlp exR [1, 2] [[1, 4, 5]]) = [0, 2, 3] := by decide +kernel
/-- two mapping rows per variable (transport): both rows of future variable 1 are copied and both copies carry
    the label 2 of the new variable (before commit c776509 the labels were the row numbers `0 … 5`, F-17g) -/
private def mr2 (v t : Nat) : MapRow :=
  { var := v, asset := "a", node := some "m", kind := .d, step := t, factor := (-1 : Rat), isBool := false, varName := "disp" }
private def exT : Problem :=
  { c := [1, 2], l := [0, 0], u := [1, 1], rows := [], mapping := [mr 0 0, mr 1 1, mr2 0 0, mr2 1 1], nodal := [] }
example : view (makeSlp exT [1] [[1, 5]]) = .inr [[1, 1, 5/2], [0, 0, 0], [1, 1, 1]] := by decide +kernel
example : viewLabels (makeSlp exT [1] [[1, 5]]) = [0, 1, 0, 1, 2, 2] := by decide +kernel
example : slpColumn exT [1] 1 = [none, some (-1), none, some (-1), some 0, some 0] := by decide
/-- boolean flags: variables 0 (present) and 1 (future) are boolean; with two samples the boolean variables of the
    SLP are 0, 1 and the copies 2, 3 of variable 1 -/
private def exB : Problem :=
  { c := [1, 2], l := [0, 0], u := [1, 1], rows := [],
    mapping := [{ mr 0 0 with isBool := true }, { mr 1 1 with isBool := true }, mr2 1 1], nodal := [] }
example : (match makeSlp exB [1] [[1, 5], [1, 7]] with | .ok Q => Q.boolVars | .error _ => []) = [0, 1, 2, 3] := by
  decide +kernel
/-- read-out with a present variable reaching into the future (finding F-17h before commit 43d96c3): market `mkt`
    (variables 0–3, steps 0–3) and one order `ob` (variable 4, rows on steps 0–3, first row in the present);
    future = steps 2, 3, one sample.  At step 2 the order's common contribution 1 is NOT divided, the market's two
    scenario copies (−1 and −1) are averaged: the cell balances -/
private def mrA (asset : String) (v t : Nat) : MapRow :=
  { var := v, asset := asset, node := some "n", kind := .d, step := t, factor := 1, isBool := false, varName := "disp" }
private def exO : Problem :=
  { c := [4, 2, 8, 6, 3], l := [-10, -10, -10, -10, 0], u := [10, 10, 10, 10, 1], rows := [],
    mapping := [mrA "mkt" 0 0, mrA "mkt" 1 1, mrA "mkt" 2 2, mrA "mkt" 3 3,
                mrA "ob" 4 0, mrA "ob" 4 1, mrA "ob" 4 2, mrA "ob" 4 3], nodal := [] }
private def zO : Vec := fun j => [-1, -1, -1, -1, 1, -1, -1].getD j 0
example : slpMask exO [2, 3] = [false, false, true, true, false] := by decide
example : slpColumn exO [2, 3] 1 = [none, none, some (-1), some (-1), none, none, none, none, some 0, some 0] := by decide
example : (match makeSlp exO [2, 3] [[4, 2, 1, 12, 3]] with
    | .ok Q => ["ob", "mkt"].map fun a => slpDispatchOut Q.mapping (slpColumn exO [2, 3] 1) a "n" 2 zO
    | .error _ => []) = [1, -1] := by decide +kernel
/-- a straddling present variable (commit 20639b0): variable 1 has its first row in the present (step 0) and a
    second row at the future step 1 (coarser asset frequency), variable 2 is future; the two samples differ on
    variable 1 (costs 5 and 8, own cost 2): its SLP cost is the MEAN (2+5+8)/3 = 5, not the own cost 2 -/
private def exS : Problem :=
  { c := [1, 2, 3], l := [0, 0, 0], u := [4, 4, 4], rows := [],
    mapping := [mr 0 0, mr 1 0, mr 1 1, mr 2 1], nodal := [] }
example : slpMask exS [1] = [false, false, true] ∧ slpStraddle exS [1] = [false, true, false] := by decide
example : view (makeSlp exS [1] [[1, 5, 4], [1, 8, 6]]) =
    .inr [[1, 5, 1, 4/3, 2], [0, 0, 0, 0, 0], [4, 4, 4, 4, 4]] := by decide +kernel
/-- the samples share the cost of the only non-straddling present variable 0, so `slp_value_mean` applies: at
    `z = (1, 1, 1 | 2 | 3)` the SLP value −47/3 is the mean of the scenario values −6, −14, −27 -/
private def zS : Vec := fun j => [1, 1, 1, 2, 3].getD j 0
example : (match makeSlp exS [1] [[1, 5, 4], [1, 8, 6]] with | .ok Q => Q.value zS | .error _ => 0) = -47/3 := by
  decide +kernel
example : (List.range 3).map (fun s => - costAt (scenCost exS.c [[1, 5, 4], [1, 8, 6]] s) 0
    (fun j => zS (slpEmbed [false, false, true] 3 s j))) = [-6, -14, -27] := by decide +kernel
/-- `ev_le_slp_problem` on `exS`: scenario points `(1,1,1)`, `(1,1,2)`, `(1,1,3)` are feasible for `exS` and agree on
    the present variables 0 and 1; all hypotheses hold, so the mean −47/3 of their scenario values is a lower
    bound of every upper bound of the SLP value -/
private def csS : List (List Rat) := [[1, 5, 4], [1, 8, 6]]
private def wS (s : Nat) : Vec := fun j => [1, 1, 1 + (s : Rat)].getD j 0
private theorem exS_share : SharePresentNS exS [1] csS := by
  intro i hi x
  have hmask : slpMask exS [1] = [false, false, true] := by decide
  have hstr : slpStraddle exS [1] = [false, true, false] := by decide
  rw [hmask, hstr]
  have hi' : i < 2 := hi
  match i, hi' with
  | 0, _ => simp [nsValue, nsMask, selCost, csS, exS]
  | 1, _ => simp [nsValue, nsMask, selCost, csS, exS]
example : ∀ r ∈ exS.rows, ∀ p ∈ r.coeffs, p.1 < exS.n := by decide
example : ∀ s, s ≤ csS.length → exS.FeasibleRelaxed (wS s) := by decide +kernel
example : ∀ s, s ≤ csS.length → ∀ j, j < exS.n → (slpMask exS [1]).getD j false = false → wS s j = wS 0 j := by
  decide +kernel
example : mean csS.length (fun s => scenValue exS csS s (wS s)) = -47/3 := by decide +kernel
example : ∃ Q, makeSlp exS [1] csS = .ok Q ∧
    (∃ z, Q.FeasibleRelaxed z ∧ Q.value z = -47/3) ∧
    ∀ U, (∀ z, Q.FeasibleRelaxed z → Q.value z ≤ U) → (-47/3 : Rat) ≤ U := by
  obtain ⟨Q, hQ⟩ := (makeSlp_ok_iff exS [1] csS).mpr ⟨by decide, by decide, by decide, by decide⟩
  have hm : mean csS.length (fun s => scenValue exS csS s (wS s)) = -47/3 := by decide +kernel
  have := ev_le_slp_problem exS [1] csS Q hQ exS_share (by decide) wS (by decide +kernel) (by decide +kernel)
  rw [hm] at this
  exact ⟨Q, hQ, this⟩
example : robustObjective [[1, 2, 3], [3, 0, 0]] (fun j => [1, 1, 0].getD j 0) = some (-3) := by decide +kernel
end Example

end EAO.C17
