import EAO.Model.PriceSplit
import EAO.Model.Slp
import EAO.Lemmas.PriceSplit
import EAO.Properties.C18
import EAO.Properties.C14
/-!
# C18 in the split set-up — nodal prices of split problems, of the block sum and of SLP results

`EAO.C18` proves the supergradient statement for ONE problem.  A split optimisation (`SplitOptimProblem`) reports
ONE price table assembled from the interval duals: the nodal records of the interval problems (re-labelled to
original steps) are concatenated, the duals per row type are stacked with `np.hstack`, and `io.extract_output`
writes `-duals['N'][m]` for the `m`-th record entry (`EAO.splitPrices`, `EAO/Model/PriceSplit.lean`).

* `lagrangian_block_sum` — the Lagrangian bound of the block sum at the concatenated multipliers is the sum of the
  interval bounds; `signOK_block_sum` — the concatenation is sign-correct iff every part is;
* `split_price_entry` — which entry of the table belongs to nodal row `k` of interval `i`: its label is the
  interval's (original step, node), its value `-dualN_i[k]`;
* `inject_block_sum` — an injection at that (node, step) into the block sum is the injection into that one interval;
* `price_supergradient_split` — **the split counterpart of C18**, `price_supergradient_split_readout` — the same with
  the table computed from the interval multiplier vectors by the model of the read-out (`readSplitPrices`);
* `price_supergradient_unsplit` — under the C14 witness the same bound for the UNSPLIT problem;
* `slp_readout_row`, `slp_price_supergradient`, `slp_price_scaling` — what the read-out reports for `make_slp`
  problems: the dual of the ORIGINAL scenario's copy of the nodal row only; the slope of the value with respect to a
  physical injection (in every scenario) is the SUM over the scenario copies, i.e. `(samples + 1)` times the reported
  price when the copies carry the same multiplier.

Property theorems only; helper lemmas live in `EAO/Lemmas/PriceSplit.lean`.
-/
namespace EAO.C18S
open EAO EAO.PriceSplit

/-- the block sum with an extra injection `δ` at the (node, step) of the `k`-th nodal row of interval `i` -/
def injectSplit (ps : List Problem) (i k : Nat) (δ : Rat) : Problem :=
  (blockSum ps).perturbRhs (splitNodalRow ps i k) (-δ)

/-- **Lagrangian bound of the block sum.**  With one multiplier vector per interval (one entry per row), the exact
    Lagrangian bound of the block-diagonal sum at the concatenated multipliers (`np.hstack`) is the sum of the
    interval bounds. -/
theorem lagrangian_block_sum (ps : List Problem) (ys : List (List Rat))
    (hwf : ∀ p ∈ ps, p.WFCols) (hlen : ys.length = ps.length)
    (hy : ∀ q ∈ ps.zip ys, q.2.length = q.1.rows.length) :
    lagrangianUB (blockSum ps) ys.flatten = ((ps.zip ys).map fun q => lagrangianUB q.1 q.2).sum := by
  rw [lagrangianUB_eq_lagAt]
  exact lagAt_assembleFrom ps ys 0 hwf hlen hy

/-- **Sign-correctness of the concatenation**: the stacked multipliers are sign-correct for the block sum iff every
    interval's multipliers are sign-correct for the interval problem. -/
theorem signOK_block_sum (ps : List Problem) (ys : List (List Rat)) (hlen : ys.length = ps.length)
    (hy : ∀ q ∈ ps.zip ys, q.2.length = q.1.rows.length) :
    SignOK (blockSum ps).rows ys.flatten ↔ ∀ q ∈ ps.zip ys, SignOK q.1.rows q.2 :=
  signOK_assembleFrom ps ys 0 hlen hy

/-- the block sum of well-formed interval problems is well-formed -/
theorem blockSum_wf (ps : List Problem) (hwf : ∀ p ∈ ps, p.WFCols) : (blockSum ps).WFCols :=
  blockSum_WFCols ps hwf

/-- **The entry of the split price table** that belongs to the `k`-th nodal row of interval `i`: it sits at position
    `splitPriceIndex ps i k`, carries the interval's own label — the ORIGINAL step and the node — and the value
    `-dualN_i[k]`, provided every interval delivers as many `N` duals as its nodal record has entries (otherwise the
    stacked array is shifted against the concatenated record). -/
theorem split_price_entry (ps : List Problem) (dualNs : List (List Rat)) (i k : Nat)
    (hlenD : dualNs.length = ps.length) (hd : ∀ q ∈ ps.zip dualNs, q.2.length = q.1.nodal.length)
    (hi : i < ps.length) (hk : k < (ps[i]).nodal.length) (d : (Nat × String) × Rat) :
    (splitPrices ps dualNs).getD (splitPriceIndex ps i k) d =
      ((ps[i]).nodal.getD k d.1, - (dualNs.getD i []).getD k 0) := by
  unfold splitPrices splitPriceIndex splitDuals
  rw [nodalPrices_getD_full _ _ _ (splitNodal_length_gt ps i k hi hk), getD_flatMap_nodal ps i k hi hk]
  have hmem := getD_zip ps dualNs [] i hi hlenD
  have hdi : (dualNs.getD i []).length = (ps[i]).nodal.length := hd _ hmem
  have hoff : nodalOffset ps i = ((dualNs.take i).map List.length).sum :=
    offset_eq ps dualNs (fun p => p.nodal.length) List.length i hd hlenD
  rw [hoff, getD_flatten dualNs i k (by omega)]

/-- **An injection into the block sum is an injection into one interval.**  Perturbing the right-hand side of the
    `k`-th nodal row of interval `i` inside the block sum gives the block sum of the interval problems in which
    interval `i` alone carries the injection (`EAO.C18.inject`): a split run re-built with an extra injection at an
    original step changes exactly the interval that holds the step. -/
theorem inject_block_sum (ps : List Problem) (i k : Nat) (δ : Rat) (hi : i < ps.length)
    (hk : k < (ps[i]).nodal.length) (hnr : (ps[i]).nodal.length ≤ (ps[i]).rows.length) :
    blockSum (ps.set i (EAO.C18.inject (ps[i]) k δ)) = injectSplit ps i k δ := by
  have hr : EAO.C18.nodalRowIndex (ps[i]) k < (ps[i]).rows.length := by
    unfold EAO.C18.nodalRowIndex; omega
  obtain ⟨h1, h2, h3, h4, h5, h6⟩ := assembleFrom_perturb ps 0 i (EAO.C18.nodalRowIndex (ps[i]) k) (-δ) hi hr
  have hg : ps.getD i default = ps[i] := by simp [List.getD_eq_getElem?_getD, hi]
  unfold injectSplit splitNodalRow Problem.perturbRhs blockSum EAO.C18.inject
  rw [hg]
  exact problem_ext_rows _ _ _ h1 h2 h3 h4 h5 h6

/-- **C18 for a split optimisation.**  Let `ps` be the interval problems, `ys[i]` any sign-correct multiplier vector
    of interval `i` that carries the interval's reported nodal duals `dualNs[i]` on its nodal rows, `Vs[i]` the
    reported interval optimum (the split run reports `V = Σ Vs[i]`) and `gap_i = lagrangianUB ps[i] ys[i] - Vs[i]`.
    Then every point feasible for the block sum with an injection `δ` (of either sign) at the (node, original step)
    of the `k`-th nodal row of interval `i` has value at most `V + price * δ + Σ gap_i`, where `price` is the entry
    the split read-out writes into the price table for that node and step. -/
theorem price_supergradient_split (ps : List Problem) (ys dualNs : List (List Rat)) (Vs : List Rat)
    (i k : Nat) (δ : Rat)
    (hwf : ∀ p ∈ ps, p.WFCols)
    (hlen : ys.length = ps.length) (hlenD : dualNs.length = ps.length) (hlenV : Vs.length = ps.length)
    (hy : ∀ q ∈ ps.zip ys, SignOK q.1.rows q.2)
    (hd : ∀ q ∈ ps.zip dualNs, q.2.length = q.1.nodal.length)
    (hi : i < ps.length) (hk : k < (ps[i]).nodal.length) (hnr : (ps[i]).nodal.length ≤ (ps[i]).rows.length)
    (hyk : (ys.getD i []).getD (EAO.C18.nodalRowIndex (ps[i]) k) 0 = (dualNs.getD i []).getD k 0)
    (x' : Vec) (hx' : (injectSplit ps i k δ).FeasibleRelaxed x') :
    (injectSplit ps i k δ).value x' ≤
      Vs.sum + ((splitPrices ps dualNs).getD (splitPriceIndex ps i k) ((0, ""), 0)).2 * δ
        + (((ps.zip ys).zip Vs).map fun q => lagrangianUB q.1.1 q.1.2 - q.2).sum := by
  have hyl : ∀ q ∈ ps.zip ys, q.2.length = q.1.rows.length := fun q hq => (hy q hq).1
  have hwfB := blockSum_WFCols ps hwf
  have hsB : SignOK (blockSum ps).rows ys.flatten := (signOK_block_sum ps ys hlen hyl).mpr hy
  have hg : ps.getD i default = ps[i] := by simp [List.getD_eq_getElem?_getD, hi]
  have hmem := getD_zip ps ys [] i hi hlen
  have hyi : (ys.getD i []).length = (ps[i]).rows.length := hyl _ hmem
  have hr : EAO.C18.nodalRowIndex (ps[i]) k < (ys.getD i []).length := by
    unfold EAO.C18.nodalRowIndex; omega
  have hoff : rowOffset ps i = ((ys.take i).map List.length).sum :=
    offset_eq ps ys (fun p => p.rows.length) List.length i hyl hlen
  have hidx_eq : splitNodalRow ps i k = ((ys.take i).map List.length).sum + EAO.C18.nodalRowIndex (ps[i]) k := by
    unfold splitNodalRow; rw [hg, hoff]; rfl
  have hidx : splitNodalRow ps i k < (blockSum ps).rows.length := by
    rw [← hsB.1, hidx_eq]; exact flatten_length_gt ys i _ hr
  have hb := EAO.C18.lagrangian_bound (injectSplit ps i k δ) ys.flatten
    (Problem.WFCols_perturbRhs hwfB _ _) (SignOK_perturbRows hsB _ _) x' hx'
  have ha := EAO.C18.lagrangian_affine (blockSum ps) ys.flatten (splitNodalRow ps i k) (-δ) hidx hsB.1
  have hY : ys.flatten.getD (splitNodalRow ps i k) 0 = (dualNs.getD i []).getD k 0 := by
    rw [hidx_eq, getD_flatten ys i _ hr, hyk]
  have hentry := split_price_entry ps dualNs i k hlenD hd hi hk ((0, ""), 0)
  have hsum : (((ps.zip ys).zip Vs).map fun q => lagrangianUB q.1.1 q.1.2 - q.2).sum
      = ((ps.zip ys).map fun q => lagrangianUB q.1 q.2).sum - Vs.sum := by
    have := sum_zip_sub ((ps.zip ys).map fun q => lagrangianUB q.1 q.2) Vs (by simp; omega)
    rw [← this, zip_map_left', List.map_map]
    rfl
  unfold injectSplit at hb ⊢
  rw [ha, hY, lagrangian_block_sum ps ys hwf hlen hyl] at hb
  rw [hentry, hsum]
  simp only
  grind

/-- **The same with the table computed by the model of the read-out.**  If in every interval problem the rows of type
    `N` are exactly its last `nodal.length` rows (`nodalLast`; what `Portfolio.setup_optim_problem` builds), the price
    table the split read-out derives from the interval multiplier vectors themselves — duals per row type, stacked,
    sign flipped, placed by the concatenated record (`readSplitPrices`) — satisfies the supergradient bound; no
    separate assumption ties the table to the multipliers. -/
theorem price_supergradient_split_readout (ps : List Problem) (ys : List (List Rat)) (Vs : List Rat)
    (i k : Nat) (δ : Rat)
    (hwf : ∀ p ∈ ps, p.WFCols) (hnl : ∀ p ∈ ps, nodalLast p = true)
    (hlen : ys.length = ps.length) (hlenV : Vs.length = ps.length)
    (hy : ∀ q ∈ ps.zip ys, SignOK q.1.rows q.2)
    (hi : i < ps.length) (hk : k < (ps[i]).nodal.length)
    (x' : Vec) (hx' : (injectSplit ps i k δ).FeasibleRelaxed x') :
    (injectSplit ps i k δ).value x' ≤
      Vs.sum + ((readSplitPrices ps ys).getD (splitPriceIndex ps i k) ((0, ""), 0)).2 * δ
        + (((ps.zip ys).zip Vs).map fun q => lagrangianUB q.1.1 q.1.2 - q.2).sum := by
  unfold readSplitPrices
  have hmem := getD_zip ps ys [] i hi hlen
  have hlz : (ps.zip ys).length = ps.length := by simp; omega
  have hD : ∀ q ∈ ps.zip ((ps.zip ys).map fun q => dualsOfKind q.1.rows q.2 .N), q.2.length = q.1.nodal.length := by
    intro q hq
    obtain ⟨j, hj, rfl⟩ := List.mem_iff_getElem.mp hq
    have hj' : j < ps.length := by simp at hj; omega
    have hjy : j < ys.length := by omega
    simp only [List.getElem_zip, List.getElem_map]
    have hmj : (ps[j], ys[j]) ∈ ps.zip ys := by
      have : (ps.zip ys)[j]'(by simp; omega) = (ps[j], ys[j]) := by simp
      rw [← this]; exact List.getElem_mem _
    exact (dualsOfKind_nodalLast_spec ps[j] ys[j] (hnl _ (List.getElem_mem hj')) (hy _ hmj).1).1
  have hnli := hnl _ (List.getElem_mem hi)
  have hnr : (ps[i]).nodal.length ≤ (ps[i]).rows.length := by
    unfold nodalLast at hnli
    simp only [Bool.and_eq_true, decide_eq_true_eq] at hnli
    exact hnli.1.1
  refine price_supergradient_split ps ys _ Vs i k δ hwf hlen (by simp; omega) hlenV hy hD hi hk hnr ?_ x' hx'
  have hiy : i < ys.length := by omega
  have e1 : ((ps.zip ys).map fun q => dualsOfKind q.1.rows q.2 .N).getD i []
      = dualsOfKind (ps[i]).rows (ys.getD i []) .N := by
    have hz : (ps.zip ys)[i]? = some (ps[i], ys[i]) := by
      rw [List.getElem?_eq_getElem (by omega)]; simp
    simp [List.getD_eq_getElem?_getD, hiy, hz]
  rw [e1]
  exact ((dualsOfKind_nodalLast_spec ps[i] (ys.getD i []) hnli (hy _ hmem).1).2 k).symm

/-- **The bound for the UNSPLIT problem.**  Let `U'` be the unsplit problem of the portfolio with the extra injection
    (in practice `EAO.C18.inject U kU δ` for the unsplit problem `U` and the index `kU` of the (step, node) in its own
    nodal record), and let the C14 witness hold between `U'` and the interval problems in which interval `i` carries
    the injection (decidable, evaluated exactly by the driver op `split_witness`).  Then every relaxed-feasible point
    of `U'` has value at most `V + price * δ + Σ gap_i` with the SPLIT run's value `V = Σ Vs[i]`, the SPLIT run's price
    table and the interval gaps: the table reported by a split optimisation is a supergradient table for the unsplit
    problem as well. -/
theorem price_supergradient_unsplit (U' : Problem) (perm : List Nat)
    (ps : List Problem) (ys dualNs : List (List Rat)) (Vs : List Rat) (i k : Nat) (δ : Rat)
    (hwf : ∀ p ∈ ps, p.WFCols)
    (hlen : ys.length = ps.length) (hlenD : dualNs.length = ps.length) (hlenV : Vs.length = ps.length)
    (hy : ∀ q ∈ ps.zip ys, SignOK q.1.rows q.2)
    (hd : ∀ q ∈ ps.zip dualNs, q.2.length = q.1.nodal.length)
    (hi : i < ps.length) (hk : k < (ps[i]).nodal.length) (hnr : (ps[i]).nodal.length ≤ (ps[i]).rows.length)
    (hyk : (ys.getD i []).getD (EAO.C18.nodalRowIndex (ps[i]) k) 0 = (dualNs.getD i []).getD k 0)
    (hW : splitWitness U' (ps.set i (EAO.C18.inject (ps[i]) k δ)) perm = true)
    (z : Vec) (hz : U'.FeasibleRelaxed z) :
    U'.value z ≤
      Vs.sum + ((splitPrices ps dualNs).getD (splitPriceIndex ps i k) ((0, ""), 0)).2 * δ
        + (((ps.zip ys).zip Vs).map fun q => lagrangianUB q.1.1 q.1.2 - q.2).sum := by
  obtain ⟨_, h2, h3⟩ := EAO.C14.split_witness_pullback U' _ perm hW z
  rw [inject_block_sum ps i k δ hi hk hnr] at h2 h3
  rw [h3]
  exact price_supergradient_split ps ys dualNs Vs i k δ hwf hlen hlenD hlenV hy hd hi hk hnr hyk _ (h2.mp hz)

/-! ### non-vacuity (split)

Two interval problems.  `q1 = EAO.C18.exP`: `max x₀ + 2 x₁`, `0 ≤ x ≤ 4`, `x₀ + x₁ ≤ 5`, nodal row `x₀ - x₁ = 0` of
(original step 0, node "n"); optimum `15/2`, multipliers `(3/2, -1/2)`, reported price `1/2`.  `q2`: `max 3 x₀ + x₁`,
`0 ≤ x ≤ 4`, `x₀ + x₁ ≤ 6`, nodal row `x₀ - x₁ = 0` of (original step 1, node "n") — the record is already
re-labelled; optimum `12` at `(3, 3)`, multipliers `(2, 1)`, reported price `-1`.  The split run reports `V = 39/2`
and the table `[((0,"n"), 1/2), ((1,"n"), -1)]`.  With an injection `δ = 1` at (step 1, "n") the point
`(5/2, 5/2, 5/2, 7/2)` is feasible for the block sum and attains `V + price * δ = 37/2` (all gaps are 0).

The unsplit problem `exU` has the variables in another order (`step`-major: `q1.x₀, q2.x₀, q1.x₁, q2.x₁`), asset rows
first, the two nodal rows last; `exPerm = [0, 2, 1, 3]`. -/

def q1 : Problem := EAO.C18.exP
def q2 : Problem :=
  { c := [-3, -1], l := [0, 0], u := [4, 4],
    rows := [{ coeffs := [(0, 1), (1, 1)], rhs := 6, kind := .U },
             { coeffs := [(0, 1), (1, -1)], rhs := 0, kind := .N }],
    mapping := [], nodal := [(1, "n")] }
def exYs : List (List Rat) := [[3/2, -1/2], [2, 1]]
def exDs : List (List Rat) := [[-1/2], [1]]
def exVs : List Rat := [15/2, 12]
def exX' : Vec := fun j => [5/2, 5/2, 5/2, 7/2].getD j 0
def exU : Problem :=
  { c := [-1, -3, -2, -1], l := [0, 0, 0, 0], u := [4, 4, 4, 4],
    rows := [{ coeffs := [(0, 1), (2, 1)], rhs := 5, kind := .U },
             { coeffs := [(1, 1), (3, 1)], rhs := 6, kind := .U },
             { coeffs := [(0, 1), (2, -1)], rhs := 0, kind := .N },
             { coeffs := [(1, 1), (3, -1)], rhs := 0, kind := .N }],
    mapping := [], nodal := [(0, "n"), (1, "n")] }
def exPerm : List Nat := [0, 2, 1, 3]
/-- the point `exX'` in the variable order of `exU` -/
def exZ : Vec := fun j => [5/2, 5/2, 5/2, 7/2].getD j 0

/-- hypotheses of `lagrangian_block_sum` / `signOK_block_sum` hold and both sides are `39/2` -/
example : (∀ p ∈ [q1, q2], p.WFCols) ∧ exYs.length = [q1, q2].length ∧
    (∀ q ∈ [q1, q2].zip exYs, q.2.length = q.1.rows.length) ∧
    (∀ q ∈ [q1, q2].zip exYs, SignOK q.1.rows q.2) ∧ SignOK (blockSum [q1, q2]).rows exYs.flatten ∧
    lagrangianUB (blockSum [q1, q2]) exYs.flatten = 39/2 ∧
    (([q1, q2].zip exYs).map fun q => lagrangianUB q.1 q.2).sum = 39/2 := by
  unfold Problem.WFCols SignOK
  decide +kernel

/-- the split price table of the example, the position and the entry of interval 1 -/
example : splitPrices [q1, q2] exDs = [((0, "n"), 1/2), ((1, "n"), -1)] ∧ splitPriceIndex [q1, q2] 1 0 = 1 ∧
    splitNodalRow [q1, q2] 1 0 = 3 ∧
    (splitPrices [q1, q2] exDs).getD (splitPriceIndex [q1, q2] 1 0) ((0, ""), 0) = ((1, "n"), -1) ∧
    readSplitPrices [q1, q2] exYs = splitPrices [q1, q2] exDs ∧ nodalLast q1 = true ∧ nodalLast q2 = true := by
  decide +kernel

/-- `inject_block_sum` on the example: only the nodal row of interval 1 changes -/
example : (injectSplit [q1, q2] 1 0 1).rows.map (·.rhs) = [5, 0, 6, -1] ∧
    (blockSum ([q1, q2].set 1 (EAO.C18.inject q2 0 1))).rows.map (·.rhs) = [5, 0, 6, -1] := by
  decide +kernel

/-- all hypotheses of `price_supergradient_split` hold on the example with `i = 1`, `k = 0`, `δ = 1`; the injected
    problem differs from the block sum (the point is infeasible without the injection) and the bound is attained -/
example : (∀ p ∈ [q1, q2], p.WFCols) ∧ exYs.length = 2 ∧ exDs.length = 2 ∧ exVs.length = 2 ∧
    (∀ q ∈ [q1, q2].zip exYs, SignOK q.1.rows q.2) ∧
    (∀ q ∈ [q1, q2].zip exDs, q.2.length = q.1.nodal.length) ∧
    0 < q2.nodal.length ∧ q2.nodal.length ≤ q2.rows.length ∧
    (exYs.getD 1 []).getD (EAO.C18.nodalRowIndex q2 0) 0 = (exDs.getD 1 []).getD 0 0 ∧
    (injectSplit [q1, q2] 1 0 1).FeasibleRelaxed exX' ∧ ¬ (blockSum [q1, q2]).FeasibleRelaxed exX' ∧
    (injectSplit [q1, q2] 1 0 1).value exX' = 37/2 ∧
    exVs.sum + ((splitPrices [q1, q2] exDs).getD (splitPriceIndex [q1, q2] 1 0) ((0, ""), 0)).2 * 1
      + ((([q1, q2].zip exYs).zip exVs).map fun q => lagrangianUB q.1.1 q.1.2 - q.2).sum = 37/2 := by
  unfold Problem.WFCols SignOK Problem.FeasibleRelaxed InBounds
  decide +kernel

/-- the witness of `price_supergradient_unsplit` holds for the unsplit problem with the injection at its own nodal
    entry 1 = (step 1, "n"), the permuted point is feasible there and attains the bound of the SPLIT table -/
example : splitWitness (EAO.C18.inject exU 1 1) ([q1, q2].set 1 (EAO.C18.inject q2 0 1)) exPerm = true ∧
    splitWitness exU [q1, q2] exPerm = true ∧
    (EAO.C18.inject exU 1 1).FeasibleRelaxed exZ ∧ ¬ exU.FeasibleRelaxed exZ ∧
    (EAO.C18.inject exU 1 1).value exZ = 37/2 := by
  unfold Problem.FeasibleRelaxed InBounds
  decide +kernel

/-! ### SLP results -/

/-- row index, in the SLP built from `P`, of scenario `s`'s copy (`0` = the original future, `s+1` = sample `s`) of
    the `k`-th nodal row of `P` -/
def slpNodalRow (P : Problem) (s k : Nat) : Nat := s * P.rows.length + EAO.C18.nodalRowIndex P k

/-- the SLP with an injection `δ` at the (node, step) of the `k`-th nodal entry in EVERY scenario — what an extra
    physical injection at that node and step is for the two stage program -/
def slpInject (P Q : Problem) (nS k : Nat) (δ : Rat) : Problem :=
  perturbMany Q ((List.range (nS + 1)).map fun s => slpNodalRow P s k) (-δ)

/-- **What the read-out reports for an SLP.**  `make_slp` repeats the rows (and so the `N` rows) once per sample but
    leaves `map_nodal_restr` as it is; the read-out takes the first `nodal.length` entries of `duals['N']`.  For a
    problem `P` with its nodal rows last these are the duals of the ORIGINAL scenario's copies of the nodal rows: the
    reported price of entry `k` is `-y[nodalRowIndex P k]`, whatever the multipliers on the sample copies are. -/
theorem slp_readout_row (P Q : Problem) (F : List Nat) (cs : List (List Rat)) (y : List Rat) (k : Nat)
    (hQ : makeSlp P F cs = .ok Q) (hnl : nodalLast P = true) (hy : y.length = Q.rows.length)
    (hk : k < P.nodal.length) (d : (Nat × String) × Rat) :
    (readPrices Q y).getD k d = (P.nodal.getD k d.1, - y.getD (slpNodalRow P 0 k) 0) := by
  obtain ⟨hrows, hnod⟩ := makeSlp_rows P Q F cs hQ
  unfold readPrices slpNodalRow
  rw [hnod, nodalPrices_getD_full _ _ _ hk]
  have hle : P.nodal.length ≤ P.rows.length := by
    unfold nodalLast at hnl
    simp only [Bool.and_eq_true, decide_eq_true_eq] at hnl
    exact hnl.1.1
  have hlen : P.rows.length ≤ y.length := by rw [hy, hrows, List.length_append]; omega
  have hyy : y = y.take P.rows.length ++ y.drop P.rows.length := (List.take_append_drop _ _).symm
  have ht : (y.take P.rows.length).length = P.rows.length := by simp [List.length_take]; omega
  have hspec := dualsOfKind_nodalLast_spec P (y.take P.rows.length) hnl ht
  have e : (dualsOfKind Q.rows y .N).getD k 0 = (dualsOfKind P.rows (y.take P.rows.length) .N).getD k 0 := by
    conv => lhs; rw [hrows, hyy]
    rw [dualsOfKind_append _ _ _ _ _ ht]
    exact getD_app_left _ _ _ (by rw [hspec.1]; exact hk)
  rw [e, hspec.2 k]
  have hlt : EAO.C18.nodalRowIndex P k < P.rows.length := by unfold EAO.C18.nodalRowIndex; omega
  simp [List.getD_eq_getElem?_getD, hlt]

/-- **Supergradient of an SLP with respect to a physical injection.**  For the SLP `Q` built from `P` with `nS`
    samples and any sign-correct multiplier vector `y` of `Q`: every point feasible for `Q` with an injection `δ` at
    the `k`-th (node, step) IN EVERY SCENARIO has value at most `V + (Σ_s -y[row of scenario s]) * δ + gap`.  The slope
    is the sum over the `nS + 1` scenario copies of the nodal row; the read-out reports only the term `s = 0`
    (`slp_readout_row`). -/
theorem slp_price_supergradient (P Q : Problem) (F : List Nat) (cs : List (List Rat)) (y : List Rat) (V : Rat)
    (k : Nat) (δ : Rat)
    (hQ : makeSlp P F cs = .ok Q) (hwf : Q.WFCols) (hy : SignOK Q.rows y)
    (hk : k < P.nodal.length) (hnr : P.nodal.length ≤ P.rows.length)
    (x' : Vec) (hx' : (slpInject P Q cs.length k δ).FeasibleRelaxed x') :
    (slpInject P Q cs.length k δ).value x' ≤
      V + ((List.range (cs.length + 1)).map fun s => - y.getD (slpNodalRow P s k) 0).sum * δ
        + (lagrangianUB Q y - V) := by
  obtain ⟨hrows, _⟩ := makeSlp_rows P Q F cs hQ
  have hQl : Q.rows.length = (cs.length + 1) * P.rows.length := by
    rw [hrows, List.length_append, sampleRows_length, Nat.succ_mul, Nat.add_comm]
  have hidx : ∀ j ∈ (List.range (cs.length + 1)).map (fun s => slpNodalRow P s k), j < Q.rows.length := by
    intro j hj
    obtain ⟨s, hs, rfl⟩ := List.mem_map.mp hj
    have hs' : s < cs.length + 1 := List.mem_range.mp hs
    have hlt : EAO.C18.nodalRowIndex P k < P.rows.length := by unfold EAO.C18.nodalRowIndex; omega
    have : s * P.rows.length + P.rows.length ≤ (cs.length + 1) * P.rows.length := by
      rw [← Nat.succ_mul]; exact Nat.mul_le_mul_right _ hs'
    unfold slpNodalRow; omega
  have hb := EAO.C18.lagrangian_bound (slpInject P Q cs.length k δ) y
    (perturbMany_WFCols Q _ _ hwf) (perturbMany_SignOK Q _ _ y hy) x' hx'
  unfold slpInject at hb ⊢
  rw [lagrangianUB_perturbMany Q _ (-δ) y hidx, List.map_map] at hb
  have hneg : ((List.range (cs.length + 1)).map fun s => - y.getD (slpNodalRow P s k) 0).sum
      = - ((List.range (cs.length + 1)).map ((fun i => y.getD i 0) ∘ fun s => slpNodalRow P s k)).sum := by
    rw [← sum_map_neg]; rfl
  rw [hneg]
  grind

/-- **The tester's observation, made explicit: reported SLP price = marginal value / (samples + 1)** — when the
    multipliers on the `nS + 1` scenario copies of the nodal row agree (`hsym`; e.g. rows of present steps, which are
    repeated literally, with a solver that treats the copies alike, or samples equal to the original prices), the slope
    of the SLP value with respect to a physical injection is `(nS + 1)` times the price the read-out writes into the
    table.  Without `hsym` the slope is the sum of `slp_price_supergradient`, of which the table shows one term. -/
theorem slp_price_scaling (P Q : Problem) (F : List Nat) (cs : List (List Rat)) (y : List Rat) (V : Rat)
    (k : Nat) (δ : Rat)
    (hQ : makeSlp P F cs = .ok Q) (hwf : Q.WFCols) (hy : SignOK Q.rows y) (hnl : nodalLast P = true)
    (hk : k < P.nodal.length)
    (hsym : ∀ s, s ≤ cs.length → y.getD (slpNodalRow P s k) 0 = y.getD (slpNodalRow P 0 k) 0)
    (x' : Vec) (hx' : (slpInject P Q cs.length k δ).FeasibleRelaxed x') :
    (slpInject P Q cs.length k δ).value x' ≤
      V + ((cs.length : Rat) + 1) * ((readPrices Q y).getD k ((0, ""), 0)).2 * δ + (lagrangianUB Q y - V) := by
  have hnr : P.nodal.length ≤ P.rows.length := by
    unfold nodalLast at hnl
    simp only [Bool.and_eq_true, decide_eq_true_eq] at hnl
    exact hnl.1.1
  have h := slp_price_supergradient P Q F cs y V k δ hQ hwf hy hk hnr x' hx'
  rw [slp_readout_row P Q F cs y k hQ hnl hy.1 hk]
  have hs : ((List.range (cs.length + 1)).map fun s => - y.getD (slpNodalRow P s k) 0)
      = (List.range (cs.length + 1)).map fun _ => - y.getD (slpNodalRow P 0 k) 0 := by
    apply List.map_congr_left
    intro s hs
    rw [hsym s (by have := List.mem_range.mp hs; omega)]
  rw [hs, sum_range_const] at h
  simp only at h ⊢
  have hc : ((cs.length + 1 : Nat) : Rat) = (cs.length : Rat) + 1 := by simp
  rw [hc] at h
  exact h

/-! ### non-vacuity (SLP)

`exSP`: the problem of `EAO.C18.exP` with a mapping (both variables dispatch at node "n", step 0); the whole grid is
future (`F = [0]`), one sample.  The SLP has the variables `(x₀, x₁, x₀¹, x₁¹)`, costs divided by 2, rows
`[U, N, U¹, N¹]` and the nodal record `[(0, "n")]` of `exSP`.

* sample = the original costs (`exSQ`): multipliers `(3/4, -1/4, 3/4, -1/4)`, `V = 15/2`; the read-out reports
  `1/4`, the slope of the value is `2 * 1/4 = 1/2` (`slp_price_scaling`, attained by `(2, 3, 2, 3)` for `δ = 1`).
* sample `(-3, -2)` (`exSQ'`): multipliers `(3/4, -1/4, 5/4, 1/4)`, `V = 10`; the read-out still reports `1/4` (it
  only sees scenario 0), the slope is `1/4 - 1/4 = 0` (`slp_price_supergradient`), and for `δ = -1` the point
  `(3, 2, 3, 2)` is feasible with value `10 > V + price * δ = 39/4` and `> V + 2 * price * δ = 19/2`: without `hsym`
  the reported SLP price is not a supergradient of the SLP value in either scaling. -/

local instance decEqRow : DecidableEq Row := fun r s =>
  decidable_of_iff (r.coeffs = s.coeffs ∧ r.rhs = s.rhs ∧ r.kind = s.kind) (by cases r; cases s; simp)

local instance decEqProblem : DecidableEq Problem := fun p q =>
  decidable_of_iff (p.c = q.c ∧ p.l = q.l ∧ p.u = q.u ∧ p.rows = q.rows ∧ p.mapping = q.mapping ∧ p.nodal = q.nodal)
    (by cases p; cases q; simp)

local instance decEqOk {ε α} [DecidableEq α] (e : Except ε α) (v : α) : Decidable (e = .ok v) :=
  match e with
  | .ok w => decidable_of_iff (w = v) ⟨fun h => by rw [h], fun h => by injection h⟩
  | .error _ => isFalse (by intro h; cases h)

def exMap : List MapRow :=
  [{ var := 0, asset := "a", node := some "n", kind := .d, step := 0, factor := 1, isBool := false, varName := "disp" },
   { var := 1, asset := "b", node := some "n", kind := .d, step := 0, factor := -1, isBool := false, varName := "disp" }]
def exSP : Problem := { EAO.C18.exP with mapping := exMap }
def exSRows : List Row :=
  [{ coeffs := [(0, 1), (1, 1)], rhs := 5, kind := .U }, { coeffs := [(0, 1), (1, -1)], rhs := 0, kind := .N },
   { coeffs := [(2, 1), (3, 1)], rhs := 5, kind := .U }, { coeffs := [(2, 1), (3, -1)], rhs := 0, kind := .N }]
def exSMap : List MapRow := exMap ++
  [{ var := 2, asset := "a", node := some "n", kind := .d, step := 0, factor := 1, isBool := false, varName := "disp" },
   { var := 3, asset := "b", node := some "n", kind := .d, step := 0, factor := -1, isBool := false, varName := "disp" }]
def exSQ : Problem :=
  { c := [-1/2, -1, -1/2, -1], l := [0, 0, 0, 0], u := [4, 4, 4, 4], rows := exSRows, mapping := exSMap,
    nodal := [(0, "n")] }
def exSQ' : Problem := { exSQ with c := [-1/2, -1, -3/2, -1] }
def exSY : List Rat := [3/4, -1/4, 3/4, -1/4]
def exSY' : List Rat := [3/4, -1/4, 5/4, 1/4]

theorem exSQ_built : makeSlp exSP [0] [[-1, -2]] = .ok exSQ := by decide +kernel
theorem exSQ'_built : makeSlp exSP [0] [[-3, -2]] = .ok exSQ' := by decide +kernel

/-- hypotheses of `slp_readout_row` / `slp_price_scaling` hold on the symmetric example; reported price `1/4`, the rows
    of the two scenario copies are 1 and 3, the bound `V + 2 * price * δ` is attained for `δ = 1` -/
example : exSQ.WFCols ∧ SignOK exSQ.rows exSY ∧ nodalLast exSP = true ∧ 0 < exSP.nodal.length ∧
    (∀ s, s ≤ 1 → exSY.getD (slpNodalRow exSP s 0) 0 = exSY.getD (slpNodalRow exSP 0 0) 0) ∧
    slpNodalRow exSP 0 0 = 1 ∧ slpNodalRow exSP 1 0 = 3 ∧
    readPrices exSQ exSY = [((0, "n"), 1/4)] ∧ lagrangianUB exSQ exSY = 15/2 ∧
    (slpInject exSP exSQ 1 0 1).rows.map (·.rhs) = [5, -1, 5, -1] ∧
    (slpInject exSP exSQ 1 0 1).FeasibleRelaxed (fun j => [2, 3, 2, 3].getD j 0) ∧
    (slpInject exSP exSQ 1 0 1).value (fun j => [2, 3, 2, 3].getD j 0) = 8 ∧
    (15/2 : Rat) + ((1 : Nat) + 1) * ((readPrices exSQ exSY).getD 0 ((0, ""), 0)).2 * 1 + (lagrangianUB exSQ exSY - 15/2) = 8 := by
  unfold Problem.WFCols SignOK Problem.FeasibleRelaxed InBounds
  refine ⟨?_, ?_, ?_, ?_, ?_, ?_, ?_, ?_, ?_, ?_, ?_, ?_, ?_⟩
  case refine_5 => intro s hs; match s, hs with
    | 0, _ => rfl
    | 1, _ => decide +kernel
  all_goals decide +kernel

/-- the asymmetric example: hypotheses of `slp_price_supergradient` hold, the slope is `0`, the read-out reports `1/4`,
    and for `δ = -1` the feasible point `(3, 2, 3, 2)` has value `10`, above `V + price * δ` and above
    `V + 2 * price * δ` (gap 0): the reported SLP price alone bounds nothing -/
example : exSQ'.WFCols ∧ SignOK exSQ'.rows exSY' ∧ lagrangianUB exSQ' exSY' = 10 ∧
    readPrices exSQ' exSY' = [((0, "n"), 1/4)] ∧
    ((List.range 2).map fun s => - exSY'.getD (slpNodalRow exSP s 0) 0).sum = 0 ∧
    (slpInject exSP exSQ' 1 0 (-1)).FeasibleRelaxed (fun j => [3, 2, 3, 2].getD j 0) ∧
    (slpInject exSP exSQ' 1 0 (-1)).value (fun j => [3, 2, 3, 2].getD j 0) = 10 ∧
    ¬ ((10 : Rat) ≤ 10 + 1/4 * (-1)) ∧ ¬ ((10 : Rat) ≤ 10 + 2 * (1/4) * (-1)) := by
  unfold Problem.WFCols SignOK Problem.FeasibleRelaxed InBounds
  decide +kernel

end EAO.C18S
