import EAO.Lemmas.StructWinFlat
import EAO.Properties.C08Wrap
/-!
# C16 + C08 — a wrapper WITH a window against the flat portfolio with clipped windows

`EAO.C16.structured_flat` relates the portfolio with a structured asset to the flat portfolio for FINISHED inner problems;
`EAO.C08W.setup_eq_pure` says which inner problems the real set-up builds (each wrapped object on its own window clipped by
the wrapper's).  Here the two are composed — the reference the C08 stream `swin` and the C16 stream `tzwin` build by hand:

* `structured_window_builds`, `structured_window_flat` (+ `_literal`): a `StructuredAsset` with window `W`, at ANY position of a
  portfolio, and the flat portfolio in which every wrapped object stands at top level with its `start` / `end` set to the
  intersection of its own window with `W` are THE SAME PROBLEM (`same_problem_means`: same variables in the same order, same
  costs, bounds and boolean variables, the same feasible points, values and optimal points); at every node that is not an
  inner node of the structure the nodal rows are the same rows, the outer assets have the same dispatch, and the wrapper's
  dispatch is the sum of the wrapped assets' dispatch.  The wrapped objects are ARBITRARY objects (leaf builders, order books,
  scaled assets, structures): one level of wrapping is removed;
* `flat_steps_same`: any depth — every chain of such steps (one structure opened per step, structure in structure in …) leads
  to the same problem, under the separation hypothesis of `structured_flat` at each step;
* `flatten_all_same` (+ `_dates`): any depth at once — `flattenAll` opens every structure of the tree (scaled assets stay
  objects), and ONE decidable tree-level condition `treeSepOk` (inner node names of every structure occur nowhere outside it
  and are not skipped; dispatch rows at own nodes) replaces the per-step hypotheses;
* `scaled_window_builds`, `scaled_window_flat`, `scaled_window_flat_builder` (+ instances for the LP builders): a `ScaledAsset`
  with its own window at fixed scale `s` is the base on the INTERSECTED window with capacities times `s/norm`, less
  `s · fix_costs · duration of the scaled asset's OWN window` (not of the intersection: witness in `Ex`).

Hypotheses forced by the proofs (witnesses in `EAO.C16W.Ex`): the separation of inner node names from the nodes of the other
assets of the portfolio (`structured_flat`'s; a clash merges two balances in the flat portfolio), and for the scaled asset the
duration of the own window.
-/
namespace EAO.C16W
open EAO EAO.Scaled EAO.Structured EAO.WrapWindow EAO.C16 EAO.ScaleBuild EAO.StructWinFlat

variable {ε : Type}

/-! ## what "the same problem" means -/

/-- reading of `SameProblem` (`EAO/Lemmas/StructWinFlat.lean`): equal cost vector and bounds (hence the same variables in the
    same order), the same boolean variables, the same feasible points (relaxed and with integrality), the same value at every
    point, the same optimal points -/
theorem same_problem_means {A B : Problem} (h : SameProblem A B) :
    A.c = B.c ∧ A.l = B.l ∧ A.u = B.u ∧ A.boolVars = B.boolVars ∧
    (∀ x, A.FeasibleRelaxed x ↔ B.FeasibleRelaxed x) ∧ (∀ x, A.Feasible x ↔ B.Feasible x) ∧
    (∀ x, A.value x = B.value x) ∧
    (∀ x, (A.Feasible x ∧ ∀ y, A.Feasible y → A.value y ≤ A.value x) ↔
          (B.Feasible x ∧ ∀ y, B.Feasible y → B.value y ≤ B.value x)) :=
  ⟨h.c, h.l, h.u, h.bools, h.relaxed, h.feasible, h.value, h.optimal⟩

/-! ## structured asset with a window, one level -/

/-- **which problems the wrapper wraps.**  `flat` = the wrapped objects taken out of the wrapper: the same objects with
    `start` / `end` set to dates standing for the intersection of their own window with the wrapper's (`FlatOf`).  The wrapper's
    set-up succeeds with `P` iff every flat object, set up on its own as a top-level asset, succeeds, and `P` is the structured
    asset (`EAO.Model.Structured`) of exactly those problems. -/
theorem structured_window_builds (env : Env) (W : WinD) (name : String) (ext : List String)
    (inner flat : List (WTree ε)) (hflat : ListRel (FlatOf env (env.winI W)) inner flat) (P : AssetProblem) :
    buildTop env (.structured W name ext inner) = .ok P ↔
      ∃ qs, ListRel (fun f q => buildTop env f = .ok q) flat qs ∧ P = structured name ext qs env.g.idx := by
  unfold buildTop
  rw [buildTree]
  simp only [WTree.win]
  cases h : buildList env inner (env.winI W) with
  | error e =>
    simp only
    constructor
    · intro h'; cases h'
    · rintro ⟨qs, hq, _⟩
      have := (buildList_flat env (env.winI W) hflat qs).mpr hq
      rw [h] at this; cases this
  | ok ps =>
    simp only
    constructor
    · intro h'; cases h'
      exact ⟨ps, (buildList_flat env (env.winI W) hflat ps).mp h, rfl⟩
    · rintro ⟨qs, hq, rfl⟩
      have := (buildList_flat env (env.winI W) hflat qs).mpr hq
      rw [h] at this; cases this; rfl

/-- **C16 + C08: a structured asset WITH a window equals the flat portfolio with clipped windows.**
    Let the wrapper (window `W`, external nodes `ext`) build `P`.  Then the flat objects build problems `qs`, and for every
    portfolio `outer ++ [P] ++ rest` of finished problems on the same grid — under the hypotheses of `EAO.C16.structured_flat`:
    dispatch rows at own nodes, the inner non-external node names of `qs` used by no other asset of the portfolio and not
    skipped —
    1. the portfolio with the wrapper and the flat portfolio `outer ++ qs ++ rest` are the same problem (`same_problem_means`);
    2. at every node that is not an inner node of the structure the nodal rows are the same (same variables, same factors);
    3. an asset that is neither the wrapper nor wrapped has the same dispatch at every node and step;
    4. the wrapper's dispatch at such a node is the sum of the dispatch of the wrapped assets there. -/
theorem structured_window_flat (env : Env) (W : WinD) (name : String) (ext : List String)
    (inner flat : List (WTree ε)) (hflat : ListRel (FlatOf env (env.winI W)) inner flat) (P : AssetProblem)
    (hP : buildTop env (.structured W name ext inner) = .ok P) :
    ∃ qs, ListRel (fun f q => buildTop env f = .ok q) flat qs ∧ P = structured name ext qs env.g.idx ∧
      ∀ (outer rest : List AssetProblem) (skip : List String),
        (∀ a ∈ outer ++ rest, DispAtOwnNodes a) → (∀ a ∈ qs, DispAtOwnNodes a) →
        (∀ a ∈ outer ++ rest, ∀ n ∈ a.nodes, n ∈ portfolioNodes qs → n ∈ ext) →
        (∀ n ∈ portfolioNodes qs, n ∉ ext → n ∉ skip) →
        SameProblem (assemble (outer ++ [P] ++ rest) env.g.idx skip) (assemble (outer ++ qs ++ rest) env.g.idx skip) ∧
        (∀ n t, (n ∈ portfolioNodes qs → n ∈ ext) →
          nodalRow (assemble (outer ++ [P] ++ rest) env.g.idx skip).mapping n t =
          nodalRow (assemble (outer ++ qs ++ rest) env.g.idx skip).mapping n t) ∧
        (∀ a, a ≠ name → (∀ q ∈ qs, ∀ m ∈ q.mapping, m.asset ≠ a) → ∀ n t x,
          dispatchOut (assemble (outer ++ [P] ++ rest) env.g.idx skip).mapping a n t x =
          dispatchOut (assemble (outer ++ qs ++ rest) env.g.idx skip).mapping a n t x) ∧
        (∀ names : List String, names.Nodup → (∀ q ∈ qs, ∀ m ∈ q.mapping, m.asset ∈ names) →
          (∀ q ∈ outer ++ rest, ∀ m ∈ q.mapping, m.asset ≠ name ∧ m.asset ∉ names) →
          ∀ n t x, (n ∈ portfolioNodes qs → n ∈ ext) →
          dispatchOut (assemble (outer ++ [P] ++ rest) env.g.idx skip).mapping name n t x =
          (names.map fun a => dispatchOut (assemble (outer ++ qs ++ rest) env.g.idx skip).mapping a n t x).sum) := by
  obtain ⟨qs, hq, rfl⟩ := (structured_window_builds env W name ext inner flat hflat P).mp hP
  refine ⟨qs, hq, rfl, ?_⟩
  intro outer rest skip hwo hwi hsep hskip
  exact ⟨structured_flat_same name ext outer qs rest env.g.idx skip hwo hwi hsep hskip,
    fun n t hn => nodalRow_structured_flat name ext outer qs rest env.g.idx skip hwi n hn t,
    fun a ha hai n t x => dispatchOut_outer name ext outer qs rest env.g.idx skip a ha hai n t x,
    fun names hnd hcov hout n t x hn =>
      dispatchOut_wrapper name ext outer qs rest env.g.idx skip hwi names hnd hcov hout n hn t x⟩

/-- **the same for the LITERAL set-up and the dates a user writes.**  The flat assets carry the dates `flatWinD` computes from
    the two pairs of `start` / `end` — the later start, the earlier end as Python's `max` / `min` on `pd.Timestamp`s give them —
    on a grid whose localisation keeps the order of wall-clock times.  If the wrapper's set-up returns `P` and the set-ups of
    the flat assets return `qs`, then `P` is the structured asset of `qs` and all conclusions of `structured_window_flat` hold. -/
theorem structured_window_flat_literal (env : Env) (hm : MonoLoc env) (W : WinD) (name : String) (ext : List String)
    (inner : List (WTree ε)) (wfs : List WinD) (hw : ListRel (fun c wf => flatWinD c.win W = some wf) inner wfs)
    (P : AssetProblem) (hP : (setupTop env (.structured W name ext inner)).res = .ok P)
    (qs : List AssetProblem) (hqs : ListRel (fun f q => (setupTop env f).res = .ok q) (setWins inner wfs) qs) :
    P = structured name ext qs env.g.idx ∧
    ∀ (outer rest : List AssetProblem) (skip : List String),
      (∀ a ∈ outer ++ rest, DispAtOwnNodes a) → (∀ a ∈ qs, DispAtOwnNodes a) →
      (∀ a ∈ outer ++ rest, ∀ n ∈ a.nodes, n ∈ portfolioNodes qs → n ∈ ext) →
      (∀ n ∈ portfolioNodes qs, n ∉ ext → n ∉ skip) →
      SameProblem (assemble (outer ++ [P] ++ rest) env.g.idx skip) (assemble (outer ++ qs ++ rest) env.g.idx skip) := by
  have hflat := flatOf_literal_list env hm W inner wfs hw
  obtain ⟨qs', hq', hPq, hrest⟩ := structured_window_flat env W name ext inner _ hflat P ((C08W.setup_eq_pure env hm _).1 P hP)
  have hpure : ∀ {fs : List (WTree ε)} {qs : List AssetProblem}, ListRel (fun f q => (setupTop env f).res = .ok q) fs qs →
      ListRel (fun f q => buildTop env f = .ok q) fs qs := by
    intro fs qs h
    induction h with
    | nil => exact .nil
    | cons h1 _ ih => exact .cons ((C08W.setup_eq_pure env hm _).1 _ h1) ih
  have : qs' = qs := listRel_functional (fun a b b' h1 h2 => by rw [h1] at h2; cases h2; rfl) hq' (hpure hqs)
  subst this
  exact ⟨hPq, fun outer rest skip h1 h2 h3 h4 => (hrest outer rest skip h1 h2 h3 h4).1⟩

/-! ## any depth -/

/-- a chain of flattening steps on a top-level portfolio of objects: each step opens ONE structured asset (window `W`) standing
    anywhere in the portfolio and puts the objects it wraps — leaves, scaled assets, further structures — in its place, with
    their windows intersected with `W`; the step carries the hypotheses of `structured_flat` for the problems built at that
    stage.  Opening structure after structure flattens a tree of any depth. -/
inductive FlatSteps (env : Env) (skip : List String) : List (WTree ε) → List (WTree ε) → Prop
  | refl (pf : List (WTree ε)) : FlatSteps env skip pf pf
  | step {outer rest inner flat pf' : List (WTree ε)} {W : WinD} {name : String} {ext : List String} :
      ListRel (FlatOf env (env.winI W)) inner flat →
      (∀ os qs rs, ListRel (fun f q => buildTop env f = .ok q) outer os → ListRel (fun f q => buildTop env f = .ok q) flat qs →
        ListRel (fun f q => buildTop env f = .ok q) rest rs →
        (∀ a ∈ os ++ rs, DispAtOwnNodes a) ∧ (∀ a ∈ qs, DispAtOwnNodes a) ∧
        (∀ a ∈ os ++ rs, ∀ n ∈ a.nodes, n ∈ portfolioNodes qs → n ∈ ext) ∧
        (∀ n ∈ portfolioNodes qs, n ∉ ext → n ∉ skip)) →
      FlatSteps env skip (outer ++ flat ++ rest) pf' →
      FlatSteps env skip (outer ++ [.structured W name ext inner] ++ rest) pf'

/-- **any depth.**  If the portfolio of objects `pf` builds the problems `ps` and `pf'` is reached from `pf` by flattening steps
    (structures in structures opened one after the other), then `pf'` builds problems `ps'` and the two assembled portfolios
    are the same problem. -/
theorem flat_steps_same (env : Env) (skip : List String) (pf pf' : List (WTree ε)) (h : FlatSteps env skip pf pf')
    (ps : List AssetProblem) (hps : ListRel (fun f q => buildTop env f = .ok q) pf ps) :
    ∃ ps', ListRel (fun f q => buildTop env f = .ok q) pf' ps' ∧
      SameProblem (assemble ps env.g.idx skip) (assemble ps' env.g.idx skip) := by
  induction h generalizing ps with
  | refl pf => exact ⟨ps, hps, SameProblem.refl _⟩
  | step hflat hyp hstep ih =>
    rename_i outer rest inner flat pf' W name ext
    obtain ⟨b12, rs, rfl, h12, hr⟩ := listRel_append hps
    obtain ⟨os, b2, rfl, ho, h2⟩ := listRel_append h12
    cases h2 with
    | cons hP hnil =>
      cases hnil
      rename_i P
      obtain ⟨qs, hq, _, hrest⟩ := structured_window_flat env W name ext inner flat hflat P hP
      obtain ⟨h1, h2, h3, h4⟩ := hyp os qs rs ho hq hr
      obtain ⟨ps', hps', hsame⟩ := ih (os ++ qs ++ rs) (listRel_append_mk (listRel_append_mk ho hq) hr)
      exact ⟨ps', hps', (hrest os rs skip h1 h2 h3 h4).1.trans hsame⟩

/-! ## any depth at once: full flattening under ONE tree-level condition -/

/-- **full flattening.**  `flattenAll env pf` (`EAO/Lemmas/StructWinFlat.lean`) opens every structured asset of the portfolio
    of objects `pf`, at any depth: what remains are the leaves and the scaled assets (a scaled asset stays ONE object, with
    its base inside), in the order of the tree, each with `start` / `end` standing for its own window intersected with the
    windows of all the structures that were around it (`awareWin`: the instants as zone-aware dates, `winI_awareWin`).
    `treeSepOk env skip pf` is ONE decidable condition on the tree (evaluated on the problems the objects build): for every
    structure at any depth, its inner node names — nodes of the problems it wraps that are not among its external nodes —
    are not skipped and occur nowhere outside that structure (not at a sibling, not inside a sibling, not next to an enclosing
    structure: node names of leaves / scaled assets and external nodes of structures count), and every leaf and scaled asset
    has its dispatch rows at its own nodes.  Under it: if `pf` builds the problems `ps`, the flat portfolio builds problems
    `ps'` and the two assembled portfolios are the same problem (`same_problem_means`) — the per-step hypotheses of
    `flat_steps_same` are no longer hypotheses. -/
theorem flatten_all_same (env : Env) (skip : List String) (pf : List (WTree ε)) (hsep : treeSepOk env skip pf = true)
    (ps : List AssetProblem) (hps : ListRel (fun f q => buildTop env f = .ok q) pf ps) :
    ∃ ps', ListRel (fun f q => buildTop env f = .ok q) (flattenAll env pf) ps' ∧
      SameProblem (assemble ps env.g.idx skip) (assemble ps' env.g.idx skip) :=
  flattenAll_same env skip pf hsep ps hps

/-- the same for a flat portfolio whose `start` / `end` are written as ANY dates standing for the same instants (`SameDates`:
    e.g. the naive dates Python's `max` / `min` give, `flatWinD`, on a grid whose localisation keeps the order) -/
theorem flatten_all_same_dates (env : Env) (skip : List String) (pf flat : List (WTree ε))
    (hsep : treeSepOk env skip pf = true) (hflat : ListRel (SameDates env) (flattenAll env pf) flat)
    (ps : List AssetProblem) (hps : ListRel (fun f q => buildTop env f = .ok q) pf ps) :
    ∃ ps', ListRel (fun f q => buildTop env f = .ok q) flat ps' ∧
      SameProblem (assemble ps env.g.idx skip) (assemble ps' env.g.idx skip) := by
  obtain ⟨ps', h1, h2⟩ := flattenAll_same env skip pf hsep ps hps
  exact ⟨ps', listRel_redate env hflat h1, h2⟩

/-! ## scaled asset with a window -/

/-- **which problem a scaled asset with a window scales.**  `fb` = the base object taken out of the wrapper (its window
    intersected with the scaled asset's).  The set-up succeeds with `P` iff the base, set up on its own with the intersected
    window, succeeds with some `bp`, and `P` is `buildScaled` of `bp` with the duration of the SCALED ASSET'S OWN window. -/
theorem scaled_window_builds (env : Env) (ws : WinD) (sp : ScaledP) (base fb : WTree ε)
    (hfb : FlatOf env (env.winI ws) base fb) (P : AssetProblem) :
    buildTop env (.scaled ws sp base) = .ok P ↔
      ∃ bp, buildTop env fb = .ok bp ∧
        P = buildScaled sp bp (activeDuration (env.restricted (env.winI ws))) := by
  unfold buildTop
  rw [buildTree]
  have e : (WTree.scaled ws sp base).win = ws := rfl
  rw [e]
  have hb := buildTop_flatOf env (env.winI ws) base fb hfb
  unfold buildTop at hb
  rw [← hb]
  cases h : buildTree env fb (env.winI fb.win) with
  | error e =>
    simp only
    constructor
    · intro h'; cases h'
    · rintro ⟨bp, h', _⟩; cases h'
  | ok bp =>
    simp only
    constructor
    · intro h'; cases h'; exact ⟨bp, rfl, rfl⟩
    · rintro ⟨bp', h', rfl⟩; cases h'; rfl

/-- **C16 + C08: a scaled asset with its own window, at a fixed scale.**  Let the scaled asset (window `ws`) over the base
    object build `P`; `bp` is what the base builds on its own with the intersected window.  For a base problem of the right
    shape (`scaled_fixed`'s hypotheses), `0 < norm` and a point whose scale component is `s`, `0 ≤ s`, `min_scale ≤ s ≤
    max_scale`: the point is feasible for `P` iff it is feasible for `bp` with all capacities times `s/norm`
    (`scaleProblemCaps`), and the value is that problem's value less `s · fix_costs · Σdt` over the steps of the scaled asset's
    OWN window `ws` (clipped by the horizon) — not over the intersection with the base's window. -/
theorem scaled_window_flat (env : Env) (ws : WinD) (sp : ScaledP) (base fb : WTree ε)
    (hfb : FlatOf env (env.winI ws) base fb) (P : AssetProblem) (hP : buildTop env (.scaled ws sp base) = .ok P) :
    ∃ bp, buildTop env fb = .ok bp ∧ P = buildScaled sp bp (activeDuration (env.restricted (env.winI ws))) ∧
      ∀ (x : Vec) (s : Rat), 0 < bp.n → bp.l.length = bp.n → bp.u.length = bp.n →
        (∀ d ∈ dispVars bp.mapping, d < bp.n) → 0 < sp.normScale → 0 ≤ s → sp.minScale ≤ s → s ≤ sp.maxScale →
        x bp.n = s →
        (P.FeasibleRelaxed x ↔ (scaleProblemCaps (s / sp.normScale) bp).FeasibleRelaxed x) ∧
        - costAt P.c 0 x = - costAt (scaleProblemCaps (s / sp.normScale) bp).c 0 x
          - s * sp.fixCosts * activeDuration (env.restricted (env.winI ws)) := by
  obtain ⟨bp, hb, rfl⟩ := (scaled_window_builds env ws sp base fb hfb P).mp hP
  exact ⟨bp, hb, rfl, fun x s h1 h2 h3 h4 h5 h6 h7 h8 h9 =>
    C16B.scaled_is_caps sp bp _ x s h1 h2 h3 h4 h5 h6 h7 h8 h9⟩

/-- `b'` is the builder `b` "with all capacities times `k`" (the theorems `*_caps` of `EAO.C16B`) -/
def CapsBuilder (k : Rat) (b b' : Grid → Except ε AssetProblem) : Prop :=
  ∀ g, g.Ok → b' g = (b g).map (scaleProblemCaps k)

/-- on a grid with steps the builder returns problems of the shape `scaled_fixed` asks for -/
def BaseWf (b : Grid → Except ε AssetProblem) : Prop :=
  ∀ g P, g.Ok → g.T ≠ 0 → b g = .ok P →
    0 < P.n ∧ P.l.length = P.n ∧ P.u.length = P.n ∧ ∀ d ∈ dispVars P.mapping, d < P.n

/-- **scaled asset with a window over a builder = the builder with capacities times `s/norm` on the intersected window.**
    The scaled asset (window `ws`) wraps the asset built by `b` (window `wb`); `b'` is the same asset with all capacities
    times `s/norm`, standing at top level with the window `wf` = `wb ∩ ws`.  If the intersection contains a step of the grid:
    the flat asset builds `base'`, a point with scale component `s` is feasible for the scaled problem iff it is feasible for
    `base'`, and the value is `base'`'s value less `s · fix_costs · duration(ws ∩ horizon)`. -/
theorem scaled_window_flat_builder (env : Env) (hg : env.g.Ok) (ws wb wf : WinD) (sp : ScaledP)
    (b b' : Grid → Except ε AssetProblem) (hwf : env.winI wf = clip (env.winI wb) (env.winI ws))
    (s : Rat) (hcaps : CapsBuilder (s / sp.normScale) b b') (hbw : BaseWf b)
    (hT : (env.restricted (clip (env.winI wb) (env.winI ws))).T ≠ 0)
    (P : AssetProblem) (hP : buildTop env (.scaled ws sp (.leaf wb b)) = .ok P)
    (hnorm : 0 < sp.normScale) (h0 : 0 ≤ s) (hmin : sp.minScale ≤ s) (hmax : s ≤ sp.maxScale) :
    ∃ base', buildTop env (.leaf wf b') = .ok base' ∧
      ∀ x : Vec, x base'.n = s →
        (P.FeasibleRelaxed x ↔ base'.FeasibleRelaxed x) ∧
        - costAt P.c 0 x = - costAt base'.c 0 x
          - s * sp.fixCosts * activeDuration (env.restricted (env.winI ws)) := by
  have hfb : FlatOf env (env.winI ws) (.leaf wb b) (.leaf wf b) := ⟨wf, rfl, hwf⟩
  obtain ⟨bp, hb, rfl, hrest⟩ := scaled_window_flat env ws sp _ _ hfb P hP
  have hgr : (env.restricted (clip (env.winI wb) (env.winI ws))).Ok := restrictWin_ok env.g hg env.gs env.ge _
  have hb' : b (env.restricted (clip (env.winI wb) (env.winI ws))) = .ok bp := by
    unfold buildTop at hb; rw [buildTree] at hb
    simp only [WTree.win] at hb
    rw [hwf] at hb; exact hb
  obtain ⟨h1, h2, h3, h4⟩ := hbw _ bp hgr hT hb'
  refine ⟨scaleProblemCaps (s / sp.normScale) bp, ?_, fun x hx => hrest x s h1 h2 h3 h4 hnorm h0 hmin hmax hx⟩
  unfold buildTop; rw [buildTree]
  simp only [WTree.win]
  rw [hwf, hcaps _ hgr, hb']; rfl

/-! ### the builders of eaopack satisfy the two hypotheses -/

theorem caps_simpleContract {k : Rat} (hk : 0 < k) (p : ContractP) (hmin : p.minCap.isKey = false)
    (hmax : p.maxCap.isKey = false) (prices : Prices) (fullT : Nat) :
    CapsBuilder k (fun g => buildSimpleContract p g prices fullT) (fun g => buildSimpleContract (p.capsTimes k) g prices fullT) :=
  fun g hg => C16B.simpleContract_caps hk p hmin hmax g hg prices fullT

theorem caps_contract {k : Rat} (hk : 0 < k) (p : ContractP) (hmin : p.minCap.isKey = false)
    (hmax : p.maxCap.isKey = false) (prices : Prices) (fullT u : Nat) :
    CapsBuilder k (fun g => buildContract p g prices fullT u) (fun g => buildContract (p.capsTimes k) g prices fullT u) :=
  fun g hg => C16B.contract_caps hk p hmin hmax g hg prices fullT u

theorem caps_multi {k : Rat} (hk : 0 < k) (p : ContractP) (factors : List Rat) (hmin : p.minCap.isKey = false)
    (hmax : p.maxCap.isKey = false) (prices : Prices) (fullT u : Nat) :
    CapsBuilder k (fun g => buildMulti p factors g prices fullT u) (fun g => buildMulti (p.capsTimes k) factors g prices fullT u) :=
  fun g hg => C16B.multi_caps hk p factors hmin hmax g hg prices fullT u

theorem caps_transport {k : Rat} (hk : 0 < k) (p : TransportP) (prices : Prices) (fullT : Nat) :
    CapsBuilder k (fun g => buildTransport p g prices fullT) (fun g => buildTransport (p.capsTimes k) g prices fullT) :=
  fun g hg => C16B.transport_caps hk p g hg prices fullT

theorem caps_extTransport {k : Rat} (hk : 0 < k) (p : TransportP) (prices : Prices) (fullT u : Nat) :
    CapsBuilder k (fun g => buildExtTransport p g prices fullT u) (fun g => buildExtTransport (p.capsTimes k) g prices fullT u) :=
  fun g hg => C16B.extTransport_caps hk p g hg prices fullT u

/-- storage in LP form: every `k` (scale 0 included) -/
theorem caps_storage (k : Rat) (p : StorageP) (hns : Storage.hasNS p = false) (hh : p.maxStoreDuration = none)
    (prices : Prices) (fullT : Nat) :
    CapsBuilder k (fun g => buildStorage p g fullT prices) (fun g => buildStorage (p.capsTimes k) g fullT prices) :=
  fun g _ => C16B.storage_caps k p hns hh g fullT prices

theorem wf_simpleContract (p : ContractP) (prices : Prices) (fullT : Nat) :
    BaseWf fun g => buildSimpleContract p g prices fullT :=
  fun _ _ hg hT h => builtWf_hyps (simpleContract_wf hg h) hT

theorem wf_contract (p : ContractP) (prices : Prices) (fullT u : Nat) :
    BaseWf fun g => buildContract p g prices fullT u :=
  fun _ _ hg hT h => builtWf_hyps (contract_wf' hg h) hT

theorem wf_multi (p : ContractP) (factors : List Rat) (prices : Prices) (fullT u : Nat) :
    BaseWf fun g => buildMulti p factors g prices fullT u :=
  fun _ _ hg hT h => builtWf_hyps (multi_wf' hg h) hT

theorem wf_transport (p : TransportP) (prices : Prices) (fullT : Nat) :
    BaseWf fun g => buildTransport p g prices fullT :=
  fun _ _ hg hT h => builtWf_hyps (transport_wf' hg h) hT

theorem wf_extTransport (p : TransportP) (prices : Prices) (fullT u : Nat) :
    BaseWf fun g => buildExtTransport p g prices fullT u :=
  fun _ _ hg hT h => builtWf_hyps (extTransport_wf' hg h) hT

theorem wf_storage (p : StorageP) (hns : Storage.hasNS p = false) (hh : p.maxStoreDuration = none) (prices : Prices)
    (fullT : Nat) : BaseWf fun g => buildStorage p g fullT prices := by
  intro g P hg hT h
  obtain ⟨h2, h3, _⟩ := storage_fullCap p g hns hh h
  obtain ⟨hm, hn⟩ := storage_map_lt p g h
  have hdt : g.dt.length ≠ 0 := by rw [hg.2.1]; exact hT
  exact ⟨by have := hn hdt; omega, h2, h3, dispVars_lt P hm⟩

end EAO.C16W

/-! ## non-vacuity and witnesses (evaluated by the kernel) -/
namespace EAO.C16W.Ex
open EAO EAO.Scaled EAO.Structured EAO.WrapWindow EAO.C16 EAO.ScaleBuild EAO.StructWinFlat EAO.C16W

/-- the grid of `EAO.C08W.Ex`: four hourly steps from 00:00, zone one hour east of UTC (wall clock = instant + 3600) -/
abbrev env : Env := EAO.C08W.Ex.env

/-- a stand-in asset: one dispatch variable per step of its grid at `node`, bounds `[lo, hi]`, costs `cost · dt` -/
def boxProblem (name node : String) (lo hi cost : Rat) (g : Grid) : AssetProblem :=
  { name := name, nodes := [node], c := g.dt.map (cost * ·), l := g.idx.map fun _ => lo, u := g.idx.map fun _ => hi, rows := [],
    mapping := g.idx.zipIdx.map fun ti =>
      { var := ti.2, asset := name, node := some node, kind := .d, step := ti.1, factor := 1, isBool := false,
        varName := "disp" } }
def box (name node : String) (lo hi cost : Rat) : Grid → Except BuildError AssetProblem :=
  fun g => .ok (boxProblem name node lo hi cost g)

/-- the wrapper: 02:00 – 04:00 wall clock (steps 1, 2), external node `N`; inside a supply `a` at `N` that ends 03:00 (step 1
    only), and at the inner node `i` a producer `b` and a consumer `c` without windows of their own -/
def W : WinD := (some (.naive 7200), some (.naive 14400))
def inner : List (WTree BuildError) :=
  [.leaf (none, some (.naive 10800)) (box "a" "N" 0 1 2), .leaf (none, none) (box "b" "i" 0 1 1),
   .leaf (none, none) (box "c" "i" (-1) 0 3)]
def tS : WTree BuildError := .structured W "sa" ["N"] inner
/-- the dates of the flat assets, as `max` / `min` give them -/
def wfs : List WinD := [(some (.naive 7200), some (.naive 10800)), W, W]
def flat : List (WTree BuildError) := setWins inner wfs

theorem hw : ListRel (fun c wf => flatWinD c.win W = some wf) inner wfs :=
  .cons (by decide) (.cons (by decide) (.cons (by decide) .nil))
theorem hmono : MonoLoc env := fun a b h => by show a - 3600 ≤ b - 3600; omega
theorem hflat : ListRel (FlatOf env (env.winI W)) inner flat := flatOf_literal_list env hmono W inner wfs hw

/-- the wrapper's problem as a term -/
def PS : AssetProblem := match buildTop env tS with | .ok P => P | .error _ => default
theorem PS_ok : buildTop env tS = .ok PS := by
  unfold PS
  cases h : buildTop env tS with
  | ok P => rfl
  | error e =>
    have : (match buildTop env tS with | .ok _ => true | .error _ => false) = true := by decide +kernel
    rw [h] at this; cases this
def QS : List AssetProblem := flat.map fun f => match buildTop env f with | .ok P => P | .error _ => default

-- five variables: a at step 1; b, c at steps 1, 2
example : PS.c = [2, 1, 1, 3, 3] ∧ PS.l = [0, 0, 0, -1, -1] ∧ PS.mapping.map (fun m => (m.var, m.step, m.node, m.varName)) =
    [(0, 1, some "N", "disp__a"), (1, 1, some "sa_internal_i", "disp__b"), (2, 2, some "sa_internal_i", "disp__b"),
     (3, 1, some "sa_internal_i", "disp__c"), (4, 2, some "sa_internal_i", "disp__c")] := by decide +kernel
/-- all fields of an asset problem (for comparisons by evaluation) -/
def same (P Q : AssetProblem) : Bool :=
  P.name == Q.name && P.nodes == Q.nodes && P.c == Q.c && P.l == Q.l && P.u == Q.u && P.mapping == Q.mapping &&
  P.rows.map (·.coeffs) == Q.rows.map (·.coeffs) && P.rows.map (·.rhs) == Q.rows.map (·.rhs) &&
  P.rows.map (·.kind) == Q.rows.map (·.kind)
example : same PS (structured "sa" ["N"] QS env.g.idx) = true := by decide +kernel

/-- a market at `N` before and a consumer at `N` after the wrapper in the portfolio -/
def mkt : AssetProblem := boxProblem "mkt" "N" (-10) 10 (-5) env.g
def con : AssetProblem := boxProblem "con" "N" (-1) 0 (-7) env.g

-- the hypotheses of `structured_window_flat` hold …
example : ([mkt] ++ [con]).all dispOwn = true ∧ QS.all dispOwn = true ∧ sepOk ([mkt] ++ [con]) QS ["N"] = true ∧
    skipOk QS ["N"] [] = true := by decide +kernel
-- … the theorem applies …
example := structured_window_flat env W "sa" ["N"] inner flat hflat PS PS_ok
-- … and both problems have the point: market −1/2 at step 1 against a = 1/2, inner flow b = −c = 1/4 at step 2
def xS : Vec := fun j => if j = 1 then -1/2 else if j = 4 then 1/2 else if j = 6 then 1/4 else if j = 8 then -1/4 else 0
example : (assemble ([mkt] ++ [PS] ++ [con]) env.g.idx []).Feasible xS ∧
    (assemble ([mkt] ++ QS ++ [con]) env.g.idx []).Feasible xS ∧
    (assemble ([mkt] ++ [PS] ++ [con]) env.g.idx []).value xS = -3 ∧
    ((assemble ([mkt] ++ [PS] ++ [con]) env.g.idx []).rows.map (·.kind)) = [.S, .S, .N, .N, .N, .N] ∧
    ((assemble ([mkt] ++ QS ++ [con]) env.g.idx []).rows.map (·.kind)) = [.N, .N, .N, .N, .N, .N] := by
  decide +kernel

/-- **the separation hypothesis is needed**: an outer asset `o` at a node called `i` like the structure's inner node.  With the
    wrapper the two `i` are different nodes (`o` alone at its node: `o = 0`); in the flat portfolio they are one node.  The point
    `o = 1/2`, `c = −1/2` at step 1 is feasible for the flat portfolio only; the check of the hypothesis fails. -/
def o : AssetProblem := boxProblem "o" "i" (-1) 1 1 env.g
def xBad : Vec := fun j => if j = 1 then 1/2 else if j = 7 then -1/2 else 0
example : sepOk ([o] ++ []) QS ["N"] = false ∧
    (assemble ([o] ++ QS ++ []) env.g.idx []).Feasible xBad ∧
    ¬ (assemble ([o] ++ [PS] ++ []) env.g.idx []).Feasible xBad := by decide +kernel

/-! ### any depth: a structure in a structure -/

/-- outer wrapper 01:00 – 04:00 wall clock (steps 0, 1, 2) around `d` and the wrapper `tS` (steps 1, 2) -/
def W2 : WinD := (none, some (.naive 14400))
def tSS : WTree BuildError := .structured W2 "top" ["N"] [.leaf (none, none) (box "d" "N" 0 1 1), tS]
def flat2 : List (WTree BuildError) :=
  [.leaf (none, some (.naive 14400)) (box "d" "N" 0 1 1), .structured W "sa" ["N"] inner]

example : (match buildTop env tSS, buildTop env (.leaf (none, some (.naive 14400)) (box "d" "N" 0 1 1)) with
    | .ok P, .ok D => same P (structured "top" ["N"] [D, PS] env.g.idx) && P.c == [1, 1, 1, 2, 1, 1, 3, 3]
    | _, _ => false) = true := by decide +kernel

-- the two steps of `flat_steps_same` on this tree, evaluated: portfolio [mkt, top] → [mkt, d, sa] → [mkt, d, a, b, c]; the three
-- assembled problems have the same costs and bounds, and the point below is feasible for all three
def PSS : AssetProblem := match buildTop env tSS with | .ok P => P | .error _ => default
def DD : AssetProblem := match buildTop env (.leaf (none, some (.naive 14400)) (box "d" "N" 0 1 1)) with | .ok P => P | .error _ => default
def xSS : Vec := fun j => if j = 1 then -1 else if j = 5 then 1/2 else if j = 7 then 1/2 else if j = 9 then 1/4 else if j = 11 then -1/4 else 0
example : (assemble [mkt, PSS] env.g.idx []).c = (assemble ([mkt, DD] ++ QS) env.g.idx []).c ∧
    (assemble [mkt, PSS] env.g.idx []).l = (assemble [mkt, DD, PS] env.g.idx []).l ∧
    (assemble [mkt, PSS] env.g.idx []).u = (assemble ([mkt, DD] ++ QS) env.g.idx []).u ∧
    (assemble [mkt, PSS] env.g.idx []).Feasible xSS ∧ (assemble [mkt, DD, PS] env.g.idx []).Feasible xSS ∧
    (assemble ([mkt, DD] ++ QS) env.g.idx []).Feasible xSS ∧
    sepOk [mkt] [DD, PS] ["N"] = true ∧ sepOk [mkt, DD] QS ["N"] = true := by decide +kernel

/-! ### any depth at once: `flatten_all_same` on the same tree -/

def tMkt : WTree BuildError := .leaf (none, none) (box "mkt" "N" (-10) 10 (-5))
theorem PSS_ok : buildTop env tSS = .ok PSS := by
  unfold PSS
  cases h : buildTop env tSS with
  | ok P => rfl
  | error e =>
    have : (match buildTop env tSS with | .ok _ => true | .error _ => false) = true := by decide +kernel
    rw [h] at this; cases this

-- the tree-level condition holds for [mkt, top[d, sa[a, b, c]]]; the flat portfolio is mkt, d, a, b, c with the windows
-- (instants; wall clock − 3600) none, –10800 (W2), 3600–7200 (a: own end 03:00, start from W), 3600–10800 (W inside W2) twice
example : treeSepOk env [] [tMkt, tSS] = true := by decide +kernel
example : (flattenAll env [tMkt, tSS]).map (·.win) =
    [(none, none), (none, some (.aware 10800)), (some (.aware 3600), some (.aware 7200)),
     (some (.aware 3600), some (.aware 10800)), (some (.aware 3600), some (.aware 10800))] := by decide +kernel
-- the theorem applies …
example := flatten_all_same env [] [tMkt, tSS] (by decide +kernel) [_, PSS] (.cons rfl (.cons PSS_ok .nil))
-- … also with the naive dates a user writes for the flat assets (here: `flat2`'s `d` and the dates `wfs` inside `W2`)
example : ListRel (SameDates env) (flattenAll env [tMkt, tSS])
    ([tMkt, .leaf (none, some (.naive 14400)) (box "d" "N" 0 1 1)] ++ flat) :=
  .cons ⟨(none, none), rfl, rfl⟩ (.cons ⟨(none, some (.naive 14400)), rfl, rfl⟩
    (.cons ⟨_, rfl, rfl⟩ (.cons ⟨_, rfl, rfl⟩ (.cons ⟨_, rfl, rfl⟩ .nil))))
/-- **the condition fails** where the flat portfolio is a different problem: an outer asset at a node called like the inner
    node `i` of `sa` (the witness `o` above); the same clash one level down (`d` inside `top` at a node `i`: with the wrappers
    `top_internal_i` and `top_internal_sa_internal_i` are two nodes); two structures side by side that both have an inner node
    `i`; an inner node that is skipped -/
example : treeSepOk env [] [.leaf (none, none) (box "o" "i" (-1) 1 1), tS] = false ∧
    treeSepOk env [] [tMkt, .structured W2 "top" ["N"] [.leaf (none, none) (box "d" "i" 0 1 1), tS]] = false ∧
    treeSepOk env [] [tS, .structured W "sb" ["N"] inner] = false ∧
    treeSepOk env ["i"] [tMkt, tSS] = false := by decide +kernel

/-! ### scaled asset with a window over a Transport -/

/-- transport `a → b`, capacity 4, efficiency 9/10, costs 1 (`EAO.C16B.Ex.pt`) ending 03:00 wall clock; scaled asset from 02:00
    on, norm 2, range [0, 2], fix costs 3: the scaled asset lives on steps 1, 2, 3 (3 h), the base on step 1 only -/
def sp : ScaledP := { name := "s", node0 := "a", minScale := 0, maxScale := 2, normScale := 2, fixCosts := 3 }
def ws : WinD := (some (.naive 7200), none)
def wb : WinD := (none, some (.naive 10800))
def wf : WinD := (some (.naive 7200), some (.naive 10800))
def tSc : WTree BuildError := .scaled ws sp (.leaf wb fun g => buildTransport EAO.C16B.Ex.pt g [] 4)
def PSc : AssetProblem := match buildTop env tSc with | .ok P => P | .error _ => default
theorem PSc_ok : buildTop env tSc = .ok PSc := by
  unfold PSc
  cases h : buildTop env tSc with
  | ok P => rfl
  | error e =>
    have : (match buildTop env tSc with | .ok _ => true | .error _ => false) = true := by decide +kernel
    rw [h] at this; cases this

-- one base variable (step 1) and the scale; fix costs over 3 h (the scaled asset's own window), not over the 1 h of the base
example : PSc.c = [1, 9] ∧ activeDuration (env.restricted (env.winI ws)) = 3 ∧
    activeDuration (env.restricted (clip (env.winI wb) (env.winI ws))) = 1 ∧
    flatWinD wb ws = some wf ∧ env.winI wf = clip (env.winI wb) (env.winI ws) := by decide +kernel

-- `scaled_window_flat_builder` at scale 1 (capacities times 1/2)
example := scaled_window_flat_builder env (by decide) ws wb wf sp _ _ (by decide +kernel) 1
  (caps_transport (k := 1 / sp.normScale) (by decide +kernel) EAO.C16B.Ex.pt [] 4) (wf_transport EAO.C16B.Ex.pt [] 4)
  (by decide +kernel) PSc PSc_ok (by decide +kernel) (by decide +kernel) (by decide +kernel) (by decide +kernel)

-- the flat transport with capacity 2 on step 1: the point (flow 2, scale 1) is feasible for both, values −2 − 9 and −2
example : (match buildTop env (.leaf wf fun g => buildTransport (EAO.C16B.Ex.pt.capsTimes (1 / 2)) g [] 4) with
    | .ok B => B.u == [2] && decide (B.FeasibleRelaxed (fun j => if j = 0 then 2 else 1)) &&
               decide (- costAt B.c 0 (fun j => if j = 0 then 2 else 1) = -2)
    | .error _ => false) = true ∧
    PSc.FeasibleRelaxed (fun j => if j = 0 then 2 else 1) ∧
    - costAt PSc.c 0 (fun j => if j = 0 then 2 else 1) = -2 - 1 * 3 * 3 := by decide +kernel

end EAO.C16W.Ex
