import EAO.Lemmas.Contract
/-!
# C08 — horizon and windows (builder side: contracts and transports)

The builders see the horizon only through the asset's restricted grid `g` (the steps of the horizon inside
`[start, end)`; C19 states that the restricted grid is that filter).  Proved here, for the models of
`SimpleContract`, `Contract`, `MultiCommodityContract`, `Transport`, `ExtendedTransport`:

* `built_wf` (`contract_wf`, `transport_wf`, …): what a builder returns is well formed — lengths, variable
  indices of mapping rows and of row coefficients below the number of variables, names, nodes, steps in `g.idx`;
* `empty_window_inert`: on a grid without steps the result has no variable, no row, no mapping row;
* `vars_only_in_window`: every mapping row sits at a step of the restricted grid, so the asset is dispatched
  (and appears in nodal restrictions) only inside its window clipped to the horizon;
* `take_outside_inert`: a take period covering no step of the restricted grid adds no row (the built problem
  is literally the same as without the period);
* `take_prorated`: the right-hand side of a take row is `V · (Σ dt of the covered steps) / ((e − s)/unit)`.
-/
namespace EAO.C08
open EAO

/-- `P` is what one of the five builders returns on grid `g` for an asset `name` at `nodes` -/
inductive BuiltBy (g : Grid) : String → List String → AssetProblem → Prop
  | simple (p : ContractP) (prices : Prices) (fullT : Nat) (P : AssetProblem) :
      buildSimpleContract p g prices fullT = .ok P → BuiltBy g p.name p.nodes P
  | contract (p : ContractP) (prices : Prices) (fullT u : Nat) (P : AssetProblem) :
      buildContract p g prices fullT u = .ok P → BuiltBy g p.name p.nodes P
  | multi (p : ContractP) (factors : List Rat) (prices : Prices) (fullT u : Nat) (P : AssetProblem) :
      buildMulti p factors g prices fullT u = .ok P → BuiltBy g p.name p.nodes P
  | transport (p : TransportP) (prices : Prices) (fullT : Nat) (P : AssetProblem) :
      buildTransport p g prices fullT = .ok P → BuiltBy g p.name p.nodes P
  | extTransport (p : TransportP) (prices : Prices) (fullT u : Nat) (P : AssetProblem) :
      buildExtTransport p g prices fullT u = .ok P → BuiltBy g p.name p.nodes P

/-! ### well-formedness -/

theorem contract_wf {p : ContractP} {g : Grid} {prices : Prices} {fullT u : Nat} {P : AssetProblem}
    (hg : g.Ok) (h : buildContract p g prices fullT u = .ok P) : BuiltWf p.name p.nodes g P :=
  contract_wf' hg h

theorem simple_contract_wf {p : ContractP} {g : Grid} {prices : Prices} {fullT : Nat} {P : AssetProblem}
    (hg : g.Ok) (h : buildSimpleContract p g prices fullT = .ok P) : BuiltWf p.name p.nodes g P :=
  simpleContract_wf hg h

theorem multi_wf {p : ContractP} {factors : List Rat} {g : Grid} {prices : Prices} {fullT u : Nat}
    {P : AssetProblem} (hg : g.Ok) (h : buildMulti p factors g prices fullT u = .ok P) :
    BuiltWf p.name p.nodes g P := multi_wf' hg h

theorem transport_wf {p : TransportP} {g : Grid} {prices : Prices} {fullT : Nat} {P : AssetProblem}
    (hg : g.Ok) (h : buildTransport p g prices fullT = .ok P) : BuiltWf p.name p.nodes g P :=
  transport_wf' hg h

theorem ext_transport_wf {p : TransportP} {g : Grid} {prices : Prices} {fullT u : Nat} {P : AssetProblem}
    (hg : g.Ok) (h : buildExtTransport p g prices fullT u = .ok P) : BuiltWf p.name p.nodes g P :=
  extTransport_wf' hg h

/-- every builder returns a well-formed asset problem -/
theorem built_wf {g : Grid} {name : String} {nodes : List String} {P : AssetProblem}
    (hg : g.Ok) (h : BuiltBy g name nodes P) : BuiltWf name nodes g P := by
  cases h with
  | simple p pr T P h => exact simpleContract_wf hg h
  | contract p pr T u P h => exact contract_wf' hg h
  | multi p f pr T u P h => exact multi_wf' hg h
  | transport p pr T P h => exact transport_wf' hg h
  | extTransport p pr T u P h => exact extTransport_wf' hg h

/-- a multi-commodity contract puts every variable into every one of its nodes with that node's factor -/
theorem multi_mapping {p : ContractP} {factors : List Rat} {g : Grid} {prices : Prices} {fullT u : Nat}
    {P : AssetProblem} (h : buildMulti p factors g prices fullT u = .ok P) :
    factors.length = p.nodes.length ∧ ∃ a, buildContract p g prices fullT u = .ok a ∧
      P.c = a.c ∧ P.l = a.l ∧ P.u = a.u ∧ P.rows = a.rows ∧
      P.mapping = (p.nodes.zip factors).flatMap fun nf =>
        a.mapping.map fun m => { m with node := some nf.1, factor := m.factor * nf.2 } := by
  obtain ⟨hf, a, ha, rfl⟩ := buildMulti_ok h
  exact ⟨hf, a, ha, rfl, rfl, rfl, rfl, rfl⟩

/-! ### empty windows, dispatch only inside the window -/

/-- a builder given a grid with no step (window entirely outside the horizon, empty or reversed window)
    returns a problem with no variable, no row and no mapping row -/
theorem empty_window_inert {g : Grid} {name : String} {nodes : List String} {P : AssetProblem}
    (hg : g.Ok) (hT : g.T = 0) (h : BuiltBy g name nodes P) :
    P.c = [] ∧ P.l = [] ∧ P.u = [] ∧ P.rows = [] ∧ P.mapping = [] :=
  (built_wf hg h).empty hT

/-- every mapping row's step is a step of the restricted grid -/
theorem vars_only_in_window {g : Grid} {name : String} {nodes : List String} {P : AssetProblem}
    (hg : g.Ok) (h : BuiltBy g name nodes P) : ∀ m ∈ P.mapping, m.step ∈ g.idx :=
  fun m hm => ((built_wf hg h).map_ok m hm).2.2.2.1

/-- … hence a step outside the restricted grid carries no dispatch of the asset, whatever the solution -/
theorem no_dispatch_outside_window {g : Grid} {name : String} {nodes : List String} {P : AssetProblem}
    (hg : g.Ok) (h : BuiltBy g name nodes P) (t : Nat) (ht : t ∉ g.idx) (x : Vec) (n : String) :
    ((P.mapping.filter fun m => m.step == t && m.node == some n).map fun m => x m.var * m.factor).sum = 0 := by
  have : (P.mapping.filter fun m => m.step == t && m.node == some n) = [] := by
    apply List.filter_eq_nil_iff.mpr
    intro m hm
    have := vars_only_in_window hg h m hm
    simp only [Bool.and_eq_true, beq_iff_eq, not_and]
    intro hst
    exact absurd (hst ▸ this) ht
  rw [this]; rfl

/-! ### take periods -/

/-- a period whose `[s, e)` contains no point of the restricted grid covers no step -/
theorem coveredPos_nil_of_outside {g : Grid} {s e : Int} (h : ∀ t ∈ g.pts, t < s ∨ e ≤ t) :
    coveredPos g s e = [] := by
  apply List.filter_eq_nil_iff.mpr
  intro i hi
  have hi' : i < g.pts.length := by simpa [Grid.T] using hi
  have hm : g.pts.getD i 0 ∈ g.pts := by
    rw [List.getD_eq_getElem?_getD, List.getElem?_eq_getElem hi']
    simp
  generalize g.pts.getD i 0 = t at hm ⊢
  rcases h t hm with h1 | h1 <;> simp <;> omega

/-- a take period covering no step yields no row … -/
theorem take_outside_inert {kind : RowKind} {u : Nat} {g : Grid} {mapping : List MapRow} {node : Option String}
    {tk : Take} (h : coveredPos g tk.1 tk.2.1 = []) : takeRow kind u g mapping node tk = none :=
  takeRow_none_of_uncovered h

/-- … so a contract with such a period among its minimum takes is built exactly as without it … -/
theorem take_outside_inert_contract_min (p : ContractP) (xs ys : List Take) (tk : Take) (g : Grid) (prices : Prices)
    (fullT u : Nat) (h : coveredPos g tk.1 tk.2.1 = []) :
    buildContract { p with minTake := xs ++ tk :: ys } g prices fullT u
      = buildContract { p with minTake := xs ++ ys } g prices fullT u := by
  unfold buildContract
  have e : buildSimpleContract { p with minTake := xs ++ tk :: ys } g prices fullT
         = buildSimpleContract { p with minTake := xs ++ ys } g prices fullT := rfl
  rw [e]
  simp only [defineRestr_insert_uncovered _ _ _ _ _ xs ys tk h]

/-- … and the same among its maximum takes -/
theorem take_outside_inert_contract_max (p : ContractP) (xs ys : List Take) (tk : Take) (g : Grid) (prices : Prices)
    (fullT u : Nat) (h : coveredPos g tk.1 tk.2.1 = []) :
    buildContract { p with maxTake := xs ++ tk :: ys } g prices fullT u
      = buildContract { p with maxTake := xs ++ ys } g prices fullT u := by
  unfold buildContract
  have e : buildSimpleContract { p with maxTake := xs ++ tk :: ys } g prices fullT
         = buildSimpleContract { p with maxTake := xs ++ ys } g prices fullT := rfl
  rw [e]
  simp only [defineRestr_insert_uncovered _ _ _ _ _ xs ys tk h]

/-- the same for an extended transport (periods are negated first, which does not move them) -/
theorem take_outside_inert_transport_min (p : TransportP) (xs ys : List Take) (tk : Take) (g : Grid) (prices : Prices)
    (fullT u : Nat) (h : coveredPos g tk.1 tk.2.1 = []) :
    buildExtTransport { p with minTake := xs ++ tk :: ys } g prices fullT u
      = buildExtTransport { p with minTake := xs ++ ys } g prices fullT u := by
  unfold buildExtTransport
  have e : buildTransport { p with minTake := xs ++ tk :: ys } g prices fullT
         = buildTransport { p with minTake := xs ++ ys } g prices fullT := rfl
  rw [e]
  have h' : coveredPos g (negTake tk).1 (negTake tk).2.1 = [] := h
  simp only [List.map_append, List.map_cons, defineRestr_insert_uncovered _ _ _ _ _ _ _ _ h']

theorem take_outside_inert_transport_max (p : TransportP) (xs ys : List Take) (tk : Take) (g : Grid) (prices : Prices)
    (fullT u : Nat) (h : coveredPos g tk.1 tk.2.1 = []) :
    buildExtTransport { p with maxTake := xs ++ tk :: ys } g prices fullT u
      = buildExtTransport { p with maxTake := xs ++ ys } g prices fullT u := by
  unfold buildExtTransport
  have e : buildTransport { p with maxTake := xs ++ tk :: ys } g prices fullT
         = buildTransport { p with maxTake := xs ++ ys } g prices fullT := rfl
  rw [e]
  have h' : coveredPos g (negTake tk).1 (negTake tk).2.1 = [] := h
  simp only [List.map_append, List.map_cons, defineRestr_insert_uncovered _ _ _ _ _ _ _ _ h']

/-- covered time of a period: the summed length of the covered steps that carry a selected mapping row -/
def coveredTime (g : Grid) (mapping : List MapRow) (node : Option String) (s e : Int) : Rat :=
  ((takeSteps g mapping node s e).map fun i => g.dt.getD i 0).sum

/-- the right-hand side of a take row is the volume prorated by covered time over the period's duration;
    its coefficients are the factors of the mapping rows at the covered steps -/
theorem take_prorated {kind : RowKind} {u : Nat} {g : Grid} {mapping : List MapRow} {node : Option String}
    {tk : Take} {r : Row} (h : takeRow kind u g mapping node tk = some r) :
    r.rhs = tk.2.2 * coveredTime g mapping node tk.1 tk.2.1 / takeDuration tk.1 tk.2.1 u ∧ r.kind = kind ∧
    r.coeffs = (takeSel g mapping node tk.1 tk.2.1).map (fun m => (m.var, m.factor)) := by
  obtain ⟨_, hk, hc, hr⟩ := takeRow_some h
  refine ⟨?_, hk, hc⟩
  rw [hr, coveredTime]
  grind

/-- all rows of a contract are prorated take rows: `U` rows of its maximum takes, `L` rows of its minimum takes -/
theorem contract_rows_prorated {p : ContractP} {g : Grid} {prices : Prices} {fullT u : Nat} {P : AssetProblem}
    (h : buildContract p g prices fullT u = .ok P) (r : Row) (hr : r ∈ P.rows) :
    ∃ a tk, buildSimpleContract p g prices fullT = .ok a ∧
      ((tk ∈ p.maxTake ∧ r.kind = .U) ∨ (tk ∈ p.minTake ∧ r.kind = .L)) ∧
      r.rhs = tk.2.2 * coveredTime g a.mapping none tk.1 tk.2.1 / takeDuration tk.1 tk.2.1 u := by
  obtain ⟨a, ha, rfl⟩ := buildContract_ok h
  have hrows : a.rows = [] := by
    obtain ⟨d, _, _, _, _, _, _, _, _, _, rfl⟩ := buildSimpleContract_ok ha
    split <;> rfl
  simp only [hrows, List.nil_append, List.mem_append] at hr
  rcases hr with hr | hr
  · obtain ⟨tk, htk, hrow⟩ := defineRestr_row hr
    obtain ⟨h1, h2, _⟩ := take_prorated hrow
    exact ⟨a, tk, ha, Or.inl ⟨htk, h2⟩, h1⟩
  · obtain ⟨tk, htk, hrow⟩ := defineRestr_row hr
    obtain ⟨h1, h2, _⟩ := take_prorated hrow
    exact ⟨a, tk, ha, Or.inr ⟨htk, h2⟩, h1⟩

/-- rows of an extended transport: taken at the FIRST node (factor −1), volume negated, `L` for a maximum
    and `U` for a minimum take -/
theorem ext_transport_rows_prorated {p : TransportP} {g : Grid} {prices : Prices} {fullT u : Nat} {P : AssetProblem}
    (h : buildExtTransport p g prices fullT u = .ok P) (r : Row) (hr : r ∈ P.rows) :
    ∃ a tk, buildTransport p g prices fullT = .ok a ∧
      ((tk ∈ p.maxTake ∧ r.kind = .L) ∨ (tk ∈ p.minTake ∧ r.kind = .U)) ∧
      r.rhs = (- tk.2.2) * coveredTime g a.mapping p.nodes.head? tk.1 tk.2.1 / takeDuration tk.1 tk.2.1 u := by
  obtain ⟨a, ha, rfl⟩ := buildExtTransport_ok h
  have hrows : a.rows = [] := by
    obtain ⟨n0, n1, cts, _, _, _, _, rfl⟩ := buildTransport_ok ha
    rfl
  simp only [hrows, List.nil_append, List.mem_append] at hr
  rcases hr with hr | hr
  · obtain ⟨tk', htk, hrow⟩ := defineRestr_row hr
    obtain ⟨tk, htk0, rfl⟩ := List.mem_map.mp htk
    obtain ⟨h1, h2, _⟩ := take_prorated hrow
    exact ⟨a, tk, ha, Or.inl ⟨htk0, h2⟩, h1⟩
  · obtain ⟨tk', htk, hrow⟩ := defineRestr_row hr
    obtain ⟨tk, htk0, rfl⟩ := List.mem_map.mp htk
    obtain ⟨h1, h2, _⟩ := take_prorated hrow
    exact ⟨a, tk, ha, Or.inr ⟨htk0, h2⟩, h1⟩

end EAO.C08

/-! ### non-vacuity: concrete instances (evaluated by the kernel) -/
namespace EAO.C08.Ex
open EAO

/-- hourly horizon of three steps; the asset's window keeps steps 1 and 2 -/
def g : Grid := { pts := [3600, 7200], idx := [1, 2], dt := [1, 1], Dt := [2, 3], df := [1, 1] }
def gEmpty : Grid := { pts := [], idx := [], dt := [], Dt := [], df := [] }
def prices : Prices := [("p", [10, 20, 30])]
/-- buy/sell contract with a spread; a minimum take over [0 h, 2 h) (half of it inside the window) and a maximum
    take far after the horizon -/
def p : ContractP :=
  { name := "c", nodes := ["n"], price := some "p", extraCosts := .scalar 1, minCap := .scalar (-2), maxCap := .scalar 3,
    minTake := [(0, 7200, 4)], maxTake := [(100000, 200000, 5)] }
def tr : TransportP :=
  { name := "t", nodes := ["a", "b"], costsConst := 1, costsKey := some "p", minCap := -2, maxCap := 0,
    efficiency := 1/2, minTake := [], maxTake := [(3600, 10800, 6)] }

example : g.Ok := by decide
example : gEmpty.Ok ∧ gEmpty.T = 0 := by decide

-- two variables per step, one prorated row (4 · 1 h / 2 h = 2), nothing from the period outside
example : (match buildContract p g prices 3 3600 with
    | .ok P => P.c == [19, 29, 21, 31] && P.l == [-2, -2, 0, 0] && P.u == [0, 0, 3, 3]
               && P.rows.map (fun r => (r.coeffs, r.rhs)) == [([(0, 1), (2, 1)], 2)]
               && P.mapping.map (fun m => (m.var, m.step, m.varName)) ==
                    [(0, 1, "disp_in"), (1, 2, "disp_in"), (2, 1, "disp_out"), (3, 2, "disp_out")]
    | .error _ => false) = true := by decide +kernel

-- empty window: the hypotheses of `empty_window_inert` are met by a successful build
example : (match buildContract p gEmpty prices 3 3600 with
    | .ok P => P.c.isEmpty && P.rows.isEmpty && P.mapping.isEmpty
    | .error _ => false) = true := by decide +kernel

-- the period after the horizon covers no step
example : coveredPos g 100000 200000 = [] := by decide +kernel

-- transport in negative direction: one variable per step, two mapping rows, costs negated, take row at node "a"
example : (match buildExtTransport tr g prices 3 3600 with
    | .ok P => P.c == [-21, -31] && P.l == [-2, -2] && P.u == [0, 0]
               && P.rows.map (fun r => (r.coeffs, r.rhs)) == [([(0, -1), (1, -1)], -6)]
               && P.mapping.map (fun m => (m.var, m.node, m.factor)) ==
                    [(0, some "a", -1), (1, some "a", -1), (0, some "b", 1/2), (1, some "b", 1/2)]
    | .error _ => false) = true := by decide +kernel

-- error branches
example : (match buildSimpleContract { p with minCap := .scalar 5 } g prices 3 with
    | .error .illPosed => true | _ => false) = true := by decide +kernel
example : (match buildSimpleContract { p with maxCap := .intervals [⟨7200, none, 3⟩] } g prices 3 with
    | .error .nanInput => true | _ => false) = true := by decide +kernel
example : (match buildSimpleContract p g prices 4 with
    | .error .lengthMismatch => true | _ => false) = true := by decide +kernel
example : (match buildTransport { tr with maxCap := 1 } g prices 3 with
    | .error .notImplemented => true | _ => false) = true := by decide +kernel

end EAO.C08.Ex
