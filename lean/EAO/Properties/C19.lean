import EAO.Model.Grid
import EAO.Lemmas.Grid
/-!
# C19 — time grid and interval data: every step, and only the right interval, counts

Property theorems only (helper lemmas are in `EAO/Lemmas/Grid.lean`).  The model
(`EAO/Model/Grid.lean`) follows `eaopack/basic_classes.py` literally: `Timegrid.__init__` (top level,
restricted, coarse), `values_to_grid`, `prep_date_dict`, and the gridded case of `prices_to_grid`.
Instants are integer seconds; calendar points and localisation come from pandas (inputs).
-/
namespace EAO.C19
open EAO

/-! ## grid points of a tick frequency -/

/-- `Grid.ofTicks` (tick frequency, `start ≤ stop`): with `n` = number of whole steps between start and
    stop, the grid has exactly `n` steps with `I = 0..n-1`; the `k`-th point is `start + k·step`; points
    are strictly increasing; the first point is the start as soon as there is one step; every point lies
    before the end and so does the END of every step; `n` is maximal (`stop < start + (n+1)·step`): what
    the grid does not cover is a remainder shorter than one step (it silently ends before `stop` when
    `stop - start` is no multiple of the step). -/
theorem grid_points (start stop : Int) (step unitSec : Nat) (df : List Rat) (hs : 0 < step) (hle : start ≤ stop) :
    (Grid.ofTicks start stop step unitSec df).T = tickCount start stop step ∧
    (Grid.ofTicks start stop step unitSec df).idx = List.range (tickCount start stop step) ∧
    (∀ k (hk : k < (Grid.ofTicks start stop step unitSec df).pts.length),
        (Grid.ofTicks start stop step unitSec df).pts[k] = start + (k : Int) * (step : Int)) ∧
    (Grid.ofTicks start stop step unitSec df).pts.Pairwise (· < ·) ∧
    (start + (step : Int) ≤ stop → (Grid.ofTicks start stop step unitSec df).pts.head? = some start) ∧
    (∀ p ∈ (Grid.ofTicks start stop step unitSec df).pts, p < stop ∧ p + (step : Int) ≤ stop) ∧
    (start + (tickCount start stop step : Int) * (step : Int) ≤ stop ∧
      stop < start + ((tickCount start stop step : Int) + 1) * (step : Int)) := by
  have hpts : (Grid.ofTicks start stop step unitSec df).pts =
      (List.range (tickCount start stop step)).map fun (k : Nat) => start + (k : Int) * (step : Int) := by
    show (tickRange start stop step).dropLast = _
    exact tickRange_dropLast start stop step hs hle
  have hb := tickCount_bounds start stop step hs hle
  refine ⟨?_, ?_, ?_, ?_, ?_, ?_, hb⟩
  · show (Grid.ofTicks start stop step unitSec df).pts.length = _
    rw [hpts]; simp
  · show List.range (tickRange start stop step).dropLast.length = _
    rw [tickRange_dropLast start stop step hs hle]; simp
  · intro k hk
    simp only [hpts] at hk ⊢
    simp
  · rw [hpts]; exact map_tick_pairwise start step hs _
  · intro h1
    rw [hpts]
    have hn : 0 < tickCount start stop step := by
      apply Nat.pos_of_ne_zero
      intro h0
      rw [h0] at hb
      omega
    obtain ⟨m, hm⟩ : ∃ m, tickCount start stop step = m + 1 := ⟨tickCount start stop step - 1, by omega⟩
    rw [hm, List.range_succ_eq_map]
    simp
  · intro p hp
    rw [hpts, List.mem_map] at hp
    obtain ⟨k, hk, rfl⟩ := hp
    have hk' : k < tickCount start stop step := List.mem_range.mp hk
    have : ((k : Int) + 1) * (step : Int) ≤ (tickCount start stop step : Int) * (step : Int) :=
      Int.mul_le_mul_of_nonneg_right (by omega) (by omega)
    have h2 : ((k : Int) + 1) * (step : Int) = (k : Int) * step + step := by
      rw [Int.add_mul, Int.one_mul]
    omega

/-- no step at all when the end is not after the start (the constructor asserts `start < end` first) -/
theorem grid_points_empty (start stop : Int) (step unitSec : Nat) (df : List Rat) (h : stop < start) :
    (Grid.ofTicks start stop step unitSec df).T = 0 ∧
    Grid.make start stop (tickRange start stop step) unitSec df = .error .assertion := by
  constructor
  · show (tickRange start stop step).dropLast.length = 0
    rw [tickRange_empty start stop step (Or.inr h)]; rfl
  · unfold Grid.make; rw [if_neg (by omega)]

example : (Grid.ofTicks 0 36000 7200 3600 []).pts = [0, 7200, 14400, 21600, 28800] := by decide +kernel
example : (Grid.ofTicks 0 9000 3600 3600 []).pts = [0, 3600] ∧ tickCount 0 9000 3600 = 2 := by decide +kernel

/-! ## step lengths are real elapsed time -/

/-- `Grid.ofPoints` over ANY list of points (so also calendar frequencies and daylight-saving switches):
    one step per point except the closing one, `I = 0..T-1`, and for every step `i`
    `dt_i · unit = p_{i+1} − p_i` (elapsed seconds), `Dt_i = Σ_{j≤i} dt_j`, `Dt_i · unit = p_{i+1} − p_0`. -/
theorem dt_real (allPts : List Int) (unitSec : Nat) (df : List Rat) (hu : 0 < unitSec) :
    (Grid.ofPoints allPts unitSec df).pts.length = allPts.length - 1 ∧
    (Grid.ofPoints allPts unitSec df).dt.length = allPts.length - 1 ∧
    (Grid.ofPoints allPts unitSec df).Dt.length = allPts.length - 1 ∧
    (Grid.ofPoints allPts unitSec df).idx = List.range (allPts.length - 1) ∧
    ∀ i (h : i + 1 < allPts.length),
      (Grid.ofPoints allPts unitSec df).pts[i]? = some allPts[i] ∧
      ∃ d D, (Grid.ofPoints allPts unitSec df).dt[i]? = some d ∧ (Grid.ofPoints allPts unitSec df).Dt[i]? = some D ∧
        d * (unitSec : Rat) = ((allPts[i+1] - allPts[i] : Int) : Rat) ∧
        D * (unitSec : Rat) = ((allPts[i+1] - allPts[0] : Int) : Rat) ∧
        D = (((Grid.ofPoints allPts unitSec df).dt).take (i+1)).sum := by
  refine ⟨by simp [Grid.ofPoints], by simp [Grid.ofPoints, diffs_length],
    by simp [Grid.ofPoints, cumsum_length, diffs_length], by simp [Grid.ofPoints], ?_⟩
  intro i h
  constructor
  · show allPts.dropLast[i]? = some allPts[i]
    rw [List.getElem?_eq_getElem (by simp; omega)]
    simp
  · have h1 := cumsum_diffs_getElem? unitSec allPts 0 i h
    rw [Rat.zero_add] at h1
    refine ⟨mkRat (allPts[i+1] - allPts[i]) unitSec, mkRat (allPts[i+1] - allPts[0]) unitSec, ?_, ?_, ?_, ?_, ?_⟩
    · exact diffs_getElem? unitSec allPts i h
    · exact h1
    · exact mkRat_mul_self _ _ hu
    · exact mkRat_mul_self _ _ hu
    · have h2 := cumsum_getElem? (diffs unitSec allPts) 0 i (by rw [diffs_length]; omega)
      rw [Rat.zero_add] at h2
      have h3 : (cumsum (diffs unitSec allPts) 0)[i]? = some (mkRat (allPts[i+1] - allPts[0]) unitSec) := h1
      rw [h3] at h2
      exact Option.some.inj h2

/-- across the spring daylight-saving switch in CET (2021-03-28): hourly points 00:00, 01:00, 03:00 local
    are 3600 s apart; a calendar day 27th→28th→29th has 24 h then 23 h -/
example : (Grid.ofPoints [1616799600, 1616886000, 1616968800, 1617055200] 3600 []).dt = [24, 23, 24] := by decide +kernel
example : (Grid.ofPoints [1616799600, 1616886000, 1616968800, 1617055200] 3600 []).Dt = [24, 47, 71] := by decide +kernel

/-! ## restricted grid -/

/-- the restricted grid is exactly the sub-list of the reference ROWS (point, `I`, `dt`, `Dt`, discount
    factor) whose point lies in `[s, e)` -/
theorem restricted_is_filter (g : Grid) (s e : Int) :
    (g.restrict s e).pts = g.pts.filter (fun p => decide (s ≤ p) && decide (p < e)) ∧
    (g.restrict s e).idx = ((g.pts.zip g.idx).filter (fun q => decide (s ≤ q.1) && decide (q.1 < e))).map (·.2) ∧
    (g.restrict s e).dt = ((g.pts.zip g.dt).filter (fun q => decide (s ≤ q.1) && decide (q.1 < e))).map (·.2) ∧
    (g.restrict s e).Dt = ((g.pts.zip g.Dt).filter (fun q => decide (s ≤ q.1) && decide (q.1 < e))).map (·.2) ∧
    (g.restrict s e).df = ((g.pts.zip g.df).filter (fun q => decide (s ≤ q.1) && decide (q.1 < e))).map (·.2) :=
  ⟨sel_map_self _ g.pts, sel_map_eq_filter_zip _ g.pts g.idx, sel_map_eq_filter_zip _ g.pts g.dt,
   sel_map_eq_filter_zip _ g.pts g.Dt, sel_map_eq_filter_zip _ g.pts g.df⟩

/-- every point of the restricted grid is a point of the reference inside the window, in the same order -/
theorem restricted_points (g : Grid) (s e : Int) :
    (g.restrict s e).pts.Sublist g.pts ∧ ∀ p, p ∈ (g.restrict s e).pts ↔ p ∈ g.pts ∧ s ≤ p ∧ p < e := by
  rw [(restricted_is_filter g s e).1]
  refine ⟨List.filter_sublist, ?_⟩
  intro p
  simp [List.mem_filter]

/-- restricting within a restriction = restricting to the intersection of the windows -/
theorem restrict_restrict (g : Grid) (s e s' e' : Int) :
    (g.restrict s e).restrict s' e' = g.restrict (max s s') (min e e') := by
  have hw : (fun x => win s e x && win s' e' x) = win (max s s') (min e e') := by
    funext x
    rw [Bool.eq_iff_iff]
    simp only [win, Bool.and_eq_true, decide_eq_true_eq]
    omega
  have key : ∀ {α} (xs : List α), sel ((sel (g.pts.map (win s e)) g.pts).map (win s' e')) (sel (g.pts.map (win s e)) xs)
      = sel (g.pts.map (win (max s s') (min e e'))) xs := by
    intro α xs
    rw [sel_sel, hw]
  show Grid.mk _ _ _ _ _ = Grid.mk _ _ _ _ _
  simp only [Grid.restrict, Grid.mask]
  congr 1 <;> exact key _

/-- restriction is idempotent -/
theorem restrict_idempotent (g : Grid) (s e : Int) : (g.restrict s e).restrict s e = g.restrict s e := by
  rw [restrict_restrict, Int.max_self, Int.min_self]

example : (Grid.ofTicks 0 18000 3600 3600 [1, 1, 1, 1, 1]).restrict 3000 14400
    = { pts := [3600, 7200, 10800], idx := [1, 2, 3], dt := [1, 1, 1], Dt := [2, 3, 4], df := [1, 1, 1] } := by decide +kernel


/-! ## calendar frequencies, positivity, first minor step, F-19d witness -/

/-- step lengths are positive when the points are strictly increasing -/
theorem dt_pos (allPts : List Int) (unitSec : Nat) (df : List Rat) (hu : 0 < unitSec)
    (hinc : allPts.Pairwise (· < ·)) : ∀ d ∈ (Grid.ofPoints allPts unitSec df).dt, 0 < d := by
  intro d hd
  obtain ⟨i, hi, hdi⟩ := List.getElem_of_mem hd
  have hlen : (Grid.ofPoints allPts unitSec df).dt.length = allPts.length - 1 := by simp [Grid.ofPoints, diffs_length]
  have h : i + 1 < allPts.length := by omega
  have hg := diffs_getElem? unitSec allPts i h
  have hd' : d = mkRat (allPts[i+1] - allPts[i]) unitSec := by
    have : (Grid.ofPoints allPts unitSec df).dt[i]? = some d := by rw [List.getElem?_eq_getElem hi, hdi]
    have h3 : (diffs unitSec allPts)[i]? = some d := this
    rw [hg] at h3
    exact (Option.some.inj h3).symm
  have hmul := mkRat_mul_self (allPts[i+1] - allPts[i]) unitSec hu
  have hlt : allPts[i] < allPts[i+1] := (List.pairwise_iff_getElem.mp hinc) i (i+1) (by omega) h (by omega)
  have hpos : (0 : Rat) < ((allPts[i+1] - allPts[i] : Int) : Rat) := Rat.intCast_pos.mpr (by omega)
  rw [← hmul, ← hd'] at hpos
  exact (Rat.mul_pos_iff_of_pos_right (Rat.natCast_pos.mpr hu)).mp hpos

/-- calendar frequencies: under the hypothesis `CalendarOK` on the points pandas returned (strictly
    increasing, first = start, none after the end) the grid points are strictly increasing, start at the
    grid start and lie before the grid end.  Anchored offsets ('MS', 'W') violate the hypothesis (F-19a). -/
theorem calendar_grid_points (allPts : List Int) (start stop : Int) (unitSec : Nat) (df : List Rat)
    (h : CalendarOK allPts start stop = true) :
    (Grid.ofPoints allPts unitSec df).pts.Pairwise (· < ·) ∧
    (2 ≤ allPts.length → (Grid.ofPoints allPts unitSec df).pts.head? = some start) ∧
    ∀ p ∈ (Grid.ofPoints allPts unitSec df).pts, p < stop := by
  simp only [CalendarOK, Bool.and_eq_true, decide_eq_true_eq, beq_iff_eq, List.all_eq_true] at h
  obtain ⟨⟨hinc, hhead⟩, hall⟩ := h
  show allPts.dropLast.Pairwise (· < ·) ∧ (2 ≤ allPts.length → allPts.dropLast.head? = some start) ∧ ∀ p ∈ allPts.dropLast, p < stop
  refine ⟨hinc.sublist (List.dropLast_sublist _), ?_, ?_⟩
  · intro h2
    match allPts, hhead, h2 with
    | a :: b :: rest, hhead, _ => simpa using hhead
  · intro p hp
    cases hne : allPts with
    | nil => rw [hne] at hp; simp at hp
    | cons a l =>
      have hne' : allPts ≠ [] := by rw [hne]; simp
      have hsplit := List.dropLast_concat_getLast hne'
      rw [← hsplit, List.pairwise_append] at hinc
      have hlast : allPts.getLast hne' ≤ stop := hall _ (List.getLast_mem hne')
      have := hinc.2.2 p hp (allPts.getLast hne') (by simp)
      omega

/-- what pandas returns for `Timegrid(2021-01-15, 2021-04-01, 'MS')` (Feb 1, Mar 1, Apr 1) does not satisfy
    the hypothesis: the first point is not the grid start (F-19a) -/
example : CalendarOK [1612137600, 1614556800, 1617235200] 1610668800 1617235200 = false := by decide +kernel

/-- on a reference grid with `I = 0..T-1` each coarse step carries the index, the point and the cumulated
    time of its first fine step -/
theorem coarse_first_minor (g : Grid) (a b : Int) (c : CoarseCell) (h : coarseCell g a b = .ok (some c))
    (hidx : g.idx = List.range g.pts.length) (hDt : g.Dt.length = g.pts.length) :
    (g.restrict a b).idx.head? = some c.I ∧ (g.restrict a b).pts.head? = some c.pt ∧ (g.restrict a b).Dt.head? = some c.Dt := by
  have := coarseCell_first g a b c h hidx hDt
  have hmin := (coarseCell_ok g a b c h).1
  refine ⟨?_, this.2.1, this.2.2⟩
  show (sel (g.mask a b) g.idx).head? = _
  rw [← hmin]; exact this.1

/-- F-19d on the model: coarse grid on a RESTRICTED reference (indices 2..5 of a 6-hour hourly grid):
    the coarse step gets index 2 but the point and `Dt` found at POSITION 2 of the restricted arrays
    (14400 s, Dt 5) instead of those of its first fine step (7200 s, Dt 3) -/
theorem coarse_on_restricted_witness :
    ((Grid.ofTicks 0 21600 3600 3600 []).restrict 7200 21600).coarsen [7200, 14400]
      = .ok { grid := { pts := [14400], idx := [2], dt := [2], Dt := [5], df := [] }, minor := [[2, 3]] } ∧
    ((Grid.ofTicks 0 21600 3600 3600 []).restrict 7200 21600).coarsen [14400, 21600] = .error .index := by
  decide +kernel


/-! ## coarse grid -/

/-- When the coarse grid can be built (`cuts` = the coarse `date_range`, non-decreasing; reference points
    non-decreasing): there is one coarse step per consecutive pair of cuts THAT HOLDS A FINE STEP of the
    reference grid (`cutPairs cuts` filtered with `hasFine g`), in the order of the cuts; pairs of cuts
    without any fine step - the asset's own window reaches beyond the optimisation horizon - are skipped
    (before the repair of this part of F-19b the construction failed on them, and the statement then was
    "one coarse step per pair of cuts": that form is `coarse_partition_no_empty` below).  The step made
    from the pair `[a, b)` has as minor list exactly the reference indices of the fine steps in `[a, b)`,
    which is NON-EMPTY, and as length the sum of their `dt`; the minor lists, concatenated in order, are
    exactly the indices of the fine steps in `[first cut, last cut)` - skipping loses nothing - (so they
    are consecutive and cover that range; disjoint and increasing when the reference indices are
    increasing); `Σ dt` over the coarse grid equals `Σ dt` over the fine steps of `[first cut, last cut)`
    (new hypothesis `g.dt.length ≤ g.idx.length`, which every constructed grid satisfies with equality:
    a skipped pair is recognised by its indices, so its step lengths must not outnumber them).
    NOTE the range is `[first cut, last cut)`, not the window: see `coarse_remainder_witness` (F-19b). -/
theorem coarse_partition (g : Grid) (cuts : List Int) (cg : CoarseGrid) (c0 cn : Int)
    (h : g.coarsen cuts = .ok cg) (hp : g.pts.Pairwise (· ≤ ·)) (hc : cuts.Pairwise (· ≤ ·))
    (h0 : cuts.head? = some c0) (hn : cuts.getLast? = some cn) :
    cg.grid.T = ((cutPairs cuts).filter (hasFine g)).length ∧
    cg.minor = ((cutPairs cuts).filter (hasFine g)).map (fun ab => (g.restrict ab.1 ab.2).idx) ∧
    cg.grid.dt = ((cutPairs cuts).filter (hasFine g)).map (fun ab => (g.restrict ab.1 ab.2).dt.sum) ∧
    (∀ ab ∈ cutPairs cuts, ab ∉ (cutPairs cuts).filter (hasFine g) → (g.restrict ab.1 ab.2).idx = []) ∧
    (∀ m ∈ cg.minor, m ≠ []) ∧
    cg.minor.flatten = (g.restrict c0 cn).idx ∧
    (g.dt.length ≤ g.idx.length → cg.grid.dt.sum = (g.restrict c0 cn).dt.sum) ∧
    (g.idx.Pairwise (· < ·) → cg.minor.flatten.Pairwise (· < ·)) := by
  unfold Grid.coarsen at h
  cases hcells : coarseCells g cuts with
  | error e => rw [hcells] at h; cases h
  | ok cells =>
    rw [hcells] at h
    cases h
    have hok := coarseCells_spec g cuts cells hcells
    have hcov := coarseCells_cover g hp cuts cells hcells hc c0 cn h0 hn
    refine ⟨?_, hok.1, hok.2.1, ?_, ?_, hcov.1, hcov.2, ?_⟩
    · show (cells.map (·.pt)).length = _
      have := congrArg List.length hok.1
      simpa using this
    · intro ab hab hnot
      apply (hasFine_false_iff g ab).mp
      cases hf : hasFine g ab with
      | false => rfl
      | true => exact absurd (List.mem_filter.mpr ⟨hab, hf⟩) hnot
    · intro m hm
      rw [List.mem_map] at hm
      obtain ⟨c, hcm, rfl⟩ := hm
      exact (hok.2.2 c hcm).1
    · intro hi
      show (List.map (fun x => x.minor) cells).flatten.Pairwise (· < ·)
      rw [hcov.1]
      exact hi.sublist (sel_sublist _ _)

/-- the statement as it read before empty intervals were skipped, under the hypothesis it then got from
    the success of the construction and now has to ask for: NO pair of cuts is without fine step.  Then
    there is one coarse step per consecutive pair of cuts, and step `j` has the fine steps of
    `[cuts_j, cuts_{j+1})` as minor list and the sum of their `dt` as length. -/
theorem coarse_partition_no_empty (g : Grid) (cuts : List Int) (cg : CoarseGrid)
    (h : g.coarsen cuts = .ok cg) (hp : g.pts.Pairwise (· ≤ ·)) (hc : cuts.Pairwise (· ≤ ·))
    (hne : ∀ j (hj : j + 1 < cuts.length), (g.restrict cuts[j] cuts[j+1]).idx ≠ []) :
    cg.grid.T = cuts.length - 1 ∧ cg.minor.length = cuts.length - 1 ∧
    ∀ j (hj : j + 1 < cuts.length),
        cg.minor[j]? = some ((g.restrict cuts[j] cuts[j+1]).idx) ∧
        cg.grid.dt[j]? = some ((g.restrict cuts[j] cuts[j+1]).dt.sum) := by
  cases hcuts : cuts with
  | nil =>
    subst hcuts
    have : cg = { grid := { pts := [], idx := [], dt := [], Dt := [], df := [] }, minor := [] } := by
      simp [Grid.coarsen, coarseCells] at h; exact h.symm
    subst this
    exact ⟨rfl, rfl, fun j hj => by simp at hj⟩
  | cons c0 rest =>
    rw [← hcuts]
    have hlast : ∃ cn, cuts.getLast? = some cn := by
      cases hg : cuts.getLast? with
      | some cn => exact ⟨cn, rfl⟩
      | none => rw [List.getLast?_eq_none_iff] at hg; rw [hg] at hcuts; cases hcuts
    obtain ⟨cn, hn⟩ := hlast
    have r := coarse_partition g cuts cg c0 cn h hp hc (by rw [hcuts]; rfl) hn
    have hall : (cutPairs cuts).filter (hasFine g) = cutPairs cuts := by
      rw [List.filter_eq_self]
      intro ab hab
      obtain ⟨j, hj, hjab⟩ := List.getElem_of_mem hab
      have hj' : j + 1 < cuts.length := by rw [cutPairs_length] at hj; omega
      have h1 := cutPairs_getElem? cuts j hj'
      rw [List.getElem?_eq_getElem hj, hjab] at h1
      cases h1
      exact (hasFine_true_iff g _).mpr (hne j hj')
    rw [hall] at r
    refine ⟨by rw [r.1, cutPairs_length], by rw [r.2.1, List.length_map, cutPairs_length], ?_⟩
    intro j hj
    rw [r.2.1, r.2.2.1]
    simp [List.getElem?_map, cutPairs_getElem? cuts j hj]

/-- if the first cut is the window start and the last cut is the window end (the window is a whole number
    of coarse steps and the frequency is not anchored elsewhere), nothing of the window is lost: neither a
    fine step that lies in it (wherever the window lies relative to the reference grid: coarse intervals
    outside the grid are skipped, the others keep what they hold) nor - for a reference with as many step
    lengths as indices - any of its duration -/
theorem coarse_partition_whole (g : Grid) (cuts : List Int) (cg : CoarseGrid) (s e : Int)
    (h : g.coarsen cuts = .ok cg) (hp : g.pts.Pairwise (· ≤ ·)) (hc : cuts.Pairwise (· ≤ ·))
    (h0 : cuts.head? = some s) (hn : cuts.getLast? = some e) (hl : g.dt.length ≤ g.idx.length) :
    cg.minor.flatten = (g.restrict s e).idx ∧ cg.grid.dt.sum = (g.restrict s e).dt.sum :=
  let r := coarse_partition g cuts cg s e h hp hc h0 hn
  ⟨r.2.2.2.2.2.1, r.2.2.2.2.2.2.1 hl⟩

/-- the same for a window `[s, e)` that ends after the last cut `cn`, as long as no point of the reference
    lies in `[cn, e)`: this is the window that reaches beyond the optimisation horizon (the everyday case of
    an asset with a long life in a rolling optimisation).  The window need not be a whole number of coarse
    steps then; whatever coarse interval holds the last fine steps of the horizon keeps them (it becomes a
    shorter coarse step), and the fine steps of the window clipped to the horizon are partitioned without
    loss. -/
theorem coarse_partition_clipped (g : Grid) (cuts : List Int) (cg : CoarseGrid) (s e cn : Int)
    (h : g.coarsen cuts = .ok cg) (hp : g.pts.Pairwise (· ≤ ·)) (hc : cuts.Pairwise (· ≤ ·))
    (h0 : cuts.head? = some s) (hn : cuts.getLast? = some cn) (hl : g.dt.length ≤ g.idx.length)
    (hcov : ∀ p ∈ g.pts, s ≤ p → p < e → p < cn) (hcn : cn ≤ e) :
    cg.minor.flatten = (g.restrict s e).idx ∧ cg.grid.dt.sum = (g.restrict s e).dt.sum := by
  have r := coarse_partition_whole g cuts cg s cn h hp hc h0 hn hl
  have hm : g.mask s cn = g.mask s e := by
    simp only [Grid.mask]
    apply List.map_congr_left
    intro p hpm
    have := hcov p hpm
    rw [Bool.eq_iff_iff]
    simp only [Bool.and_eq_true, decide_eq_true_eq]
    constructor
    · intro ⟨h1, h2⟩; exact ⟨h1, by omega⟩
    · intro ⟨h1, h2⟩; exact ⟨h1, this h1 h2⟩
  have hr : g.restrict s cn = g.restrict s e := by simp only [Grid.restrict, hm]
  rw [← hr]; exact r

/-- a pair of cuts that contains no fine step is skipped: the coarse grid is the one of the remaining cuts
    (before the repair the construction failed here with `ValueError: zero-size array to reduction
    operation minimum`) -/
theorem coarse_empty_skipped (g : Grid) (a b : Int) (rest : List Int)
    (h : (g.restrict a b).idx = []) : g.coarsen (a :: b :: rest) = g.coarsen (b :: rest) := by
  have h' : coarseCell g a b = .ok none := (coarseCell_none_iff g a b).mpr h
  have hcc : coarseCells g (a :: b :: rest) = coarseCells g (b :: rest) := by
    rw [coarseCells, h']
    cases coarseCells g (b :: rest) <;> rfl
  unfold Grid.coarsen
  rw [hcc]

/-- F-19b on the model: a 5-hour hourly grid with 2-hour coarse steps over the whole grid: the cuts are
    0 h, 2 h, 4 h; the coarse grid covers 4 of the 5 fine steps and 4 of 5 hours -/
theorem coarse_remainder_witness :
    ∃ cg, (Grid.ofTicks 0 18000 3600 3600 []).coarsen (tickRange 0 18000 7200) = .ok cg ∧
      cg.minor = [[0, 1], [2, 3]] ∧ cg.grid.dt.sum = 4 ∧
      ((Grid.ofTicks 0 18000 3600 3600 []).restrict 0 18000).idx = [0, 1, 2, 3, 4] ∧
      ((Grid.ofTicks 0 18000 3600 3600 []).restrict 0 18000).dt.sum = 5 := by
  refine ⟨{ grid := { pts := [0, 7200], idx := [0, 2], dt := [2, 2], Dt := [1, 3], df := [] }, minor := [[0, 1], [2, 3]] }, ?_⟩
  decide +kernel

/-- the former witness of the crash is now accepted: the same grid with a window that reaches 3 hours
    beyond it (cuts 0, 2, 4, 6, 8 h): the interval [6 h, 8 h) is skipped, [4 h, 6 h) keeps the one fine
    step it holds (a coarse step of 1 hour), all 5 fine steps and 5 hours are covered; and with a window
    starting 4 hours BEFORE the grid (cuts -4, -2, 0, 2, 4 h) the two leading intervals are skipped (the
    last hour is still dropped: the window does not end on a cut, F-19b) -/
theorem coarse_beyond_grid_witness :
    (Grid.ofTicks 0 18000 3600 3600 []).coarsen (tickRange 0 28800 7200)
      = .ok { grid := { pts := [0, 7200, 14400], idx := [0, 2, 4], dt := [2, 2, 1], Dt := [1, 3, 5], df := [] },
              minor := [[0, 1], [2, 3], [4]] } ∧
    (Grid.ofTicks 0 18000 3600 3600 []).coarsen (tickRange (-14400) 18000 7200)
      = .ok { grid := { pts := [0, 7200], idx := [0, 2], dt := [2, 2], Dt := [1, 3], df := [] },
              minor := [[0, 1], [2, 3]] } := by
  decide +kernel

/-! ## interval data -/

/-- `values_to_grid` fails (with the overlap error) iff some GRID POINT lies in two intervals (two
    positions of the list); overlaps between grid points are not seen -/
theorem values_error_iff (pts : List Int) (ivs : List Interval) :
    valuesToGrid pts ivs = .error .overlap ↔
      ∃ p ∈ pts, ∃ i j, ∃ (_ : i < j) (hj : j < ivs.length),
        (ivs[i]'(by omega)).contains p = true ∧ ivs[j].contains p = true := by
  have hdis : DisjointOn pts ivs ↔ ¬ ∃ p ∈ pts, ∃ i j, ∃ (_ : i < j) (hj : j < ivs.length),
        (ivs[i]'(by omega)).contains p = true ∧ ivs[j].contains p = true := by
    unfold DisjointOn
    rw [List.pairwise_iff_getElem]
    constructor
    · intro h ⟨p, hp, i, j, hij, hj, h1, h2⟩
      exact h i j (by omega) hj hij p hp ⟨h1, h2⟩
    · intro h i j hi hj hij p hp hc
      exact h ⟨p, hp, i, j, hij, hj, hc.1, hc.2⟩
  constructor
  · intro herr
    apply Classical.byContradiction
    intro hno
    rw [valuesToGrid_ok pts ivs (hdis.mpr hno)] at herr
    cases herr
  · intro hex
    exact valuesToGrid_error pts ivs (fun hd => hdis.mp hd hex)

/-- the only possible error is the overlap error -/
theorem values_error_kind (pts : List Int) (ivs : List Interval) (e : GridError)
    (h : valuesToGrid pts ivs = .error e) : e = .overlap := by
  by_cases hd : DisjointOn pts ivs
  · rw [valuesToGrid_ok pts ivs hd] at h; cases h
  · rw [valuesToGrid_error pts ivs hd] at h; cases h; rfl

/-- if `values_to_grid` succeeds, the result has one entry per grid point; if interval `i` contains the
    `k`-th point the entry is its value and NO other interval contains that point; if no interval contains
    the point the entry is undefined (`none` = NaN) -/
theorem values_unique (pts : List Int) (ivs : List Interval) (r : List (Option Rat))
    (h : valuesToGrid pts ivs = .ok r) :
    r.length = pts.length ∧
    ∀ k (hk : k < pts.length),
      (∀ i (hi : i < ivs.length), ivs[i].contains pts[k] = true →
          r[k]? = some (some ivs[i].value) ∧
          ∀ j (hj : j < ivs.length), ivs[j].contains pts[k] = true → j = i) ∧
      ((∀ iv ∈ ivs, iv.contains pts[k] = false) → r[k]? = some none) := by
  have hd : DisjointOn pts ivs := (valuesToGrid_ok_iff pts ivs).mp ⟨r, h⟩
  rw [valuesToGrid_ok pts ivs hd] at h
  cases h
  refine ⟨by simp, ?_⟩
  intro k hk
  have hmem : pts[k] ∈ pts := List.getElem_mem hk
  have huniq : ∀ i j (hi : i < ivs.length) (hj : j < ivs.length),
      ivs[i].contains pts[k] = true → ivs[j].contains pts[k] = true → j = i := by
    intro i j hi hj h1 h2
    unfold DisjointOn at hd
    rw [List.pairwise_iff_getElem] at hd
    rcases Nat.lt_trichotomy i j with hlt | heq | hgt
    · exact absurd ⟨h1, h2⟩ (hd i j hi hj hlt pts[k] hmem)
    · exact heq.symm
    · exact absurd ⟨h2, h1⟩ (hd j i hj hi hgt pts[k] hmem)
  constructor
  · intro i hi hc
    refine ⟨?_, fun j hj hcj => huniq i j hi hj hc hcj⟩
    simp only [List.getElem?_map, List.getElem?_eq_getElem hk, Option.map_some, lookupIv]
    cases hf : ivs.find? (·.contains pts[k]) with
    | none =>
      rw [List.find?_eq_none] at hf
      exact absurd hc (hf ivs[i] (List.getElem_mem hi))
    | some iv0 =>
      have hc0 : iv0.contains pts[k] = true := by simpa using List.find?_some hf
      obtain ⟨j, hj, hjeq⟩ := List.getElem_of_mem (List.mem_of_find?_eq_some hf)
      have := huniq i j hi hj hc (by rw [hjeq]; exact hc0)
      subst this
      simp [hjeq]
  · intro hnone
    simp only [List.getElem?_map, List.getElem?_eq_getElem hk, Option.map_some, lookupIv]
    have : ivs.find? (·.contains pts[k]) = none := by
      rw [List.find?_eq_none]
      intro iv hiv
      simp [hnone iv hiv]
    rw [this]; rfl

example : valuesToGrid [0, 10, 20, 30] [⟨5, some 25, 1/2⟩, ⟨25, none, 3⟩] = .ok [none, some (1/2), some (1/2), some 3] := by decide +kernel
example : valuesToGrid [0, 10, 20, 30] [⟨0, some 20, 1/2⟩, ⟨5, some 30, 3⟩] = .error .overlap := by decide +kernel
/-- an overlap between grid points is not seen -/
example : valuesToGrid [0, 10, 20, 30] [⟨0, some 15, 1/2⟩, ⟨12, some 30, 3⟩] = .ok [some (1/2), some (1/2), some 3, none] := by decide +kernel

/-! ## implicit ends, zipping, `prep_date_dict`, gridded prices -/

/-- shape of the implicit ends: as many as starts; each end is the next start; the last interval is
    extended by twice the last gap; a single start has no end ("for ever") -/
theorem implicit_ends (starts : List Int) :
    (implicitEnds starts).length = starts.length ∧
    (∀ i (h : i + 1 < starts.length), (implicitEnds starts)[i]? = some (some starts[i+1])) ∧
    (∀ a, starts = [a] → implicitEnds starts = [none]) ∧
    (∀ (h : 2 ≤ starts.length), (implicitEnds starts)[starts.length - 1]? =
        some (some (starts[starts.length - 1] + 2 * (starts[starts.length - 1] - starts[starts.length - 2])))) := by
  match starts with
  | [] => simp [implicitEnds]
  | [a] => simp [implicitEnds]
  | a :: b :: rest =>
    refine ⟨by simp [implicitEnds], ?_, by simp, ?_⟩
    · intro i h
      simp only [implicitEnds, List.drop_succ_cons, List.drop_zero]
      rw [List.getElem?_append_left (by simp at h ⊢; omega)]
      rw [List.getElem?_eq_getElem (by simp at h ⊢; omega)]
      show some ((List.map some (b :: rest))[i]'(by simp at h ⊢; omega)) = _
      rw [List.getElem_map]
      simp
    · intro h
      simp only [implicitEnds, List.drop_succ_cons, List.drop_zero]
      rw [List.getElem?_append_right (by simp)]
      simp [List.getD_eq_getElem?_getD]
      rw [List.getElem?_eq_getElem (by simp; omega)]
      rfl

/-- `zip(start, end, values)`: the shortest list decides; the k-th interval is made of the k-th entries -/
theorem mkIntervals_explicit (starts ends : List Int) (values : List Rat) (fe : Option Int) :
    (mkIntervals starts (some ends) values fe).length = min (min starts.length ends.length) values.length ∧
    ∀ k (h1 : k < starts.length) (h2 : k < ends.length) (h3 : k < values.length),
      (mkIntervals starts (some ends) values fe)[k]? = some ⟨starts[k], some ends[k], values[k]⟩ := by
  constructor
  · simp [mkIntervals]
  · intro k h1 h2 h3
    simp [mkIntervals, List.getElem?_map, List.getElem?_zip_eq_some, h1, h2, h3]
    exact ⟨_, _, _, ⟨⟨rfl, rfl⟩, rfl⟩, rfl, rfl, rfl⟩

/-- quirk of `prep_date_dict`: data WITHOUT ends comes back with an EMPTY end list, so nothing is zipped
    and `values_to_grid` of the prepared data is undefined everywhere -/
theorem prep_without_end (pts starts : List Int) (values : List Rat) (fe : Option Int) :
    let d := prepDateDict starts none values
    mkIntervals d.1 d.2.1 d.2.2 fe = [] ∧
    valuesToGrid pts (mkIntervals d.1 d.2.1 d.2.2 fe) = .ok (pts.map fun _ => none) := by
  simp [prepDateDict, mkIntervals, valuesToGrid, valuesToGridAux]

/-- already gridded price arrays pass through unchanged; an array of another length is rejected -/
theorem gridded_passthrough (T : Nat) (arr : List Rat) :
    (arr.length = T → pricesPassThrough T arr = .ok arr) ∧
    (arr.length ≠ T → pricesPassThrough T arr = .error .length) := by
  unfold pricesPassThrough
  constructor <;> intro h <;> simp [h]


end EAO.C19
