import EAO.Model.ResultValue
import EAO.Lemmas.ResultValue
import EAO.Properties.C03
import EAO.Properties.C04
import EAO.Properties.C17
/-!
# C04 (result object) — the value a `Results` object carries is the accounting value

`EAO/Properties/C04.lean` proves `Σ_assets Σ_t dcf = -c·x` for every `x`.  This file closes the gap to the number
the caller reads: `results.value` as `OptimProblem.optimize` / `SplitOptimProblem.optimize` build it
(`EAO/Model/ResultValue.lean`), per target, the target read through `.lower()`.

Property theorems only; helper lemmas live in `EAO/Lemmas/ResultValue.lean`.
-/
namespace EAO.C04R
open EAO EAO.ResultValue

/-- the word `value` / `robust` as `target.lower()` is compared with it -/
abbrev wValue : List Char := ['v', 'a', 'l', 'u', 'e']
abbrev wRobust : List Char := ['r', 'o', 'b', 'u', 's', 't']

/-- **result_value_is_accounting.**  For every target string, every problem and every point: when the number the
    solver reports is the objective handed to cvxpy evaluated at `x` (`-c·x` of the translated problem for the value
    target, the largest epigraph value `min_s -c_s·x` for the robust target, any samples), `results.value` is `-c·x` of
    the problem — whatever the letter case of the target. -/
theorem result_value_is_accounting (t : String) (P : Problem) (samples : List (List Rat)) (x : Vec) (objective : Rat)
    (hobj : solverObjective t P samples x = some objective) :
    resultValue t P x objective = some (P.value x) := by
  unfold solverObjective at hobj
  cases hp : parseTarget t with
  | none => simp [hp] at hobj
  | some tg =>
    cases tg with
    | value =>
      simp only [hp, Option.some.injEq] at hobj
      rw [resultValue_value t ((parseTarget_eq_value t).mp hp), ← hobj, C03.translate_objective]
    | robust =>
      exact resultValue_robust t ((parseTarget_eq_robust t).mp hp) P x objective

/-- the value target keeps the solver's number: `results.value` IS `prob.value` -/
theorem result_value_value_is_objective (t : String) (ht : lowerWord t = wValue) (P : Problem) (x : Vec)
    (objective : Rat) : resultValue t P x objective = some objective :=
  resultValue_value t ht P x objective

/-- the robust target does not use the solver's number nor the samples: `results.value = -c·x` for any `objective` -/
theorem result_value_robust_ignores_objective (t : String) (ht : lowerWord t = wRobust) (P : Problem) (x : Vec)
    (objective : Rat) : resultValue t P x objective = some (P.value x) :=
  resultValue_robust t ht P x objective

/-- a result exists exactly for the two words, in any letter case; everything else is the `NotImplementedError` -/
theorem result_value_defined_iff (t : String) (P : Problem) (x : Vec) (objective : Rat) :
    (resultValue t P x objective).isSome ↔ (lowerWord t = wValue ∨ lowerWord t = wRobust) := by
  constructor
  · intro h
    cases hp : parseTarget t with
    | none => rw [resultValue_none t hp] at h; simp at h
    | some tg =>
      cases tg with
      | value => exact Or.inl ((parseTarget_eq_value t).mp hp)
      | robust => exact Or.inr ((parseTarget_eq_robust t).mp hp)
  · rintro (h | h)
    · rw [resultValue_value t h]; rfl
    · rw [resultValue_robust t h]; rfl

/-- **case-insensitive**: two targets with the same lower-cased word give the same result on every input -/
theorem result_value_case_insensitive (t t' : String) (h : lowerWord t = lowerWord t') (P : Problem) (x : Vec)
    (objective : Rat) : resultValue t P x objective = resultValue t' P x objective := by
  unfold resultValue parseTarget
  rw [h]

/-- in particular the call with `target` and the call with `target.lower()` agree -/
theorem result_value_lowered (t : String) (P : Problem) (x : Vec) (objective : Rat) :
    resultValue (String.ofList (lowerWord t)) P x objective = resultValue t P x objective :=
  result_value_case_insensitive _ _ (lowerWord_idem t) P x objective

/-- **result_value_is_dcf_sum.**  For an assembled portfolio problem (`C04.WF` assets with distinct names) the value in
    the result object is the sum of the DCF table over all assets and steps. -/
theorem result_value_is_dcf_sum (t : String) (as : List AssetProblem) (gridI : List Nat) (skip : List String) (T : Nat)
    (hnd : (as.map (·.name)).Nodup) (hwf : ∀ a ∈ as, C04.WF T a)
    (samples : List (List Rat)) (x : Vec) (objective : Rat)
    (hobj : solverObjective t (assemble as gridI skip) samples x = some objective) :
    resultValue t (assemble as gridI skip) x objective
      = some (((as.map (·.name)).map fun a =>
          dcfTotal (assemble as gridI skip).c (assemble as gridI skip).mapping a T x).sum) := by
  rw [result_value_is_accounting t _ samples x objective hobj, C04.value_accounting as gridI skip T hnd hwf x]

/-- when the problem's own cost vector is one of the samples, the robust solver number is a LOWER bound of the
    value the result carries (the minimum over the samples vs. the expected-price value) -/
theorem robust_objective_le_result_value (t : String) (ht : lowerWord t = wRobust) (P : Problem)
    (samples : List (List Rat)) (hc : P.c ∈ samples) (x : Vec) (objective : Rat)
    (hobj : solverObjective t P samples x = some objective) :
    ∃ v, resultValue t P x objective = some v ∧ objective ≤ v := by
  refine ⟨P.value x, resultValue_robust t ht P x objective, ?_⟩
  simp only [solverObjective, parseTarget_robust t ht] at hobj
  exact (C03.robust_epigraph samples x objective hobj).1 P.c hc

/-! ### split problems -/

/-- **split_result_value_is_sum.**  `SplitOptimProblem.optimize`: when in every interval the solver's number is attained
    by the interval solution, the value of the joint result is the sum of the interval values `-c_k·x_k`. -/
theorem split_result_value_is_sum (t : String) (samples : List (List Rat)) (ivs : List IntervalResult)
    (hobj : ∀ iv ∈ ivs, solverObjective t iv.P samples iv.x = some iv.objective) :
    splitResultValue t ivs = some ((ivs.map fun iv => iv.P.value iv.x).sum) := by
  unfold splitResultValue
  rw [splitFrom_eq t (fun iv => iv.P.value iv.x) ivs 0
    (fun iv hiv => result_value_is_accounting t iv.P samples iv.x iv.objective (hobj iv hiv))]
  congr 1
  grind

/-- the interval results of a joint point `x` (interval `i` reads `x` from its offset on) -/
def slices (ps : List Problem) (x : Vec) (obj : Nat → Rat) : List IntervalResult :=
  (List.range ps.length).map fun i => ⟨ps.getD i default, fun j => x (C03.offset ps i + j), obj i⟩

/-- **split_result_value_is_joint.**  The value of the joint result is `-c·x` of the block-diagonal sum at the
    concatenated solution (`self.c = np.hstack([op.c …])`, `res.x = np.hstack(…)`): the value the joint mapping accounts
    for. -/
theorem split_result_value_is_joint (t : String) (samples : List (List Rat)) (ps : List Problem) (x : Vec)
    (obj : Nat → Rat)
    (hobj : ∀ i, i < ps.length →
      solverObjective t (ps.getD i default) samples (fun j => x (C03.offset ps i + j)) = some (obj i)) :
    splitResultValue t (slices ps x obj) = some ((blockSum ps).value x) := by
  rw [split_result_value_is_sum t samples]
  · rw [C03.blockSum_value]
    simp [slices, List.map_map, Function.comp_def]
  · intro iv hiv
    simp only [slices, List.mem_map, List.mem_range] at hiv
    obtain ⟨i, hi, rfl⟩ := hiv
    exact hobj i hi

/-- one interval of a split portfolio problem: its assets, its grid indices, its solution, the solver's number -/
abbrev Part := List AssetProblem × List Nat × Vec × Rat

/-- **split_result_value_is_dcf_sum.**  Intervals that are assembled portfolio problems (the setting of
    `C04.value_accounting_split`): the value of the joint result is the sum over the intervals of the sums of their DCF
    tables. -/
theorem split_result_value_is_dcf_sum (t : String) (samples : List (List Rat)) (parts : List Part)
    (skip : List String) (T : Nat)
    (hnd : ∀ q ∈ parts, (q.1.map (·.name)).Nodup) (hwf : ∀ q ∈ parts, ∀ a ∈ q.1, C04.WF T a)
    (hobj : ∀ q ∈ parts, solverObjective t (assemble q.1 q.2.1 skip) samples q.2.2.1 = some q.2.2.2) :
    splitResultValue t (parts.map fun q => ⟨assemble q.1 q.2.1 skip, q.2.2.1, q.2.2.2⟩)
      = some ((parts.map fun q =>
          ((q.1.map (·.name)).map fun a =>
            dcfTotal (assemble q.1 q.2.1 skip).c (assemble q.1 q.2.1 skip).mapping a T q.2.2.1).sum).sum) := by
  rw [split_result_value_is_sum t samples]
  · rw [List.map_map]
    congr 2
    apply List.map_congr_left
    intro q hq
    exact (C04.value_accounting q.1 q.2.1 skip T (hnd q hq) (hwf q hq) q.2.2.1).symm
  · intro iv hiv
    simp only [List.mem_map] at hiv
    obtain ⟨q, hq, rfl⟩ := hiv
    exact hobj q hq

/-- a split result exists exactly for the two words (given at least one interval); with no interval the value is 0 -/
theorem split_result_value_unknown_target (t : String) (ht : lowerWord t ≠ wValue ∧ lowerWord t ≠ wRobust)
    (iv : IntervalResult) (rest : List IntervalResult) : splitResultValue t (iv :: rest) = none :=
  splitFrom_none t ((parseTarget_eq_none t).mpr ht) iv rest 0

/-! ### stochastic programs -/

/-- **result_value_slp.**  A problem made by `make_slp` is optimised by the same `optimize`: its result carries the mean
    over the scenarios of the scenario values of the recombined points (`C17.slp_value_mean`). -/
theorem result_value_slp (t : String) (P : Problem) (F : List Nat) (cs : List (List Rat)) (Q : Problem)
    (h : makeSlp P F cs = .ok Q) (hshare : C17.SharePresentNS P F cs)
    (samples : List (List Rat)) (z : Vec) (objective : Rat)
    (hobj : solverObjective t Q samples z = some objective) :
    resultValue t Q z objective
      = some (Slp.mean cs.length fun s =>
          - costAt (C17.scenCost P.c cs s) 0 (fun j => z (slpEmbed (slpMask P F) P.n s j))) := by
  rw [result_value_is_accounting t Q samples z objective hobj, C17.slp_value_mean P F cs Q h z hshare]

/-! ### the seeded-change shape: robust value left at the epigraph objective -/

/-- without the overwrite the robust result carries the minimum over the samples: it is the accounting value
    exactly when that minimum happens to be `-c·x` -/
theorem no_overwrite_correct_iff (t : String) (ht : lowerWord t = wRobust) (P : Problem) (samples : List (List Rat))
    (x : Vec) (objective : Rat) (hobj : solverObjective t P samples x = some objective) :
    (resultValueNoOverwrite t P x objective = some (P.value x)) ↔
      (samples.map fun cs => - costAt cs 0 x).min? = some (P.value x) := by
  simp only [solverObjective, parseTarget_robust t ht, robustObjective] at hobj
  simp only [resultValueNoOverwrite, parseTarget_robust t ht, hobj]

/-- the counterexample problem: one variable with cost 1 and bounds `[1, 2]`; samples: the own cost and the double -/
def cexP : Problem := { c := [1], l := [1], u := [2], rows := [], mapping := [], nodal := [] }
def cexSamples : List (List Rat) := [[1], [2]]
def cexX : Vec := fun _ => 1

/-- **no_overwrite_counterexample.**  `cexX` is feasible and OPTIMAL for the robust problem of `cexP` (no feasible point
    has a larger minimum over the samples), the solver's number `-2` is attained by it, the real `resultValue` carries
    `-c·x = -1`, the variant without the overwrite carries `-2`: not the accounting value. -/
theorem no_overwrite_counterexample :
    cexP.Feasible cexX ∧
    solverObjective "robust" cexP cexSamples cexX = some (-2) ∧
    (∀ z v, cexP.Feasible z → solverObjective "robust" cexP cexSamples z = some v → v ≤ -2) ∧
    cexP.value cexX = -1 ∧
    resultValue "robust" cexP cexX (-2) = some (cexP.value cexX) ∧
    resultValueNoOverwrite "robust" cexP cexX (-2) = some (-2) ∧
    resultValueNoOverwrite "robust" cexP cexX (-2) ≠ some (cexP.value cexX) := by
  refine ⟨by decide +kernel, by decide +kernel, ?_, by decide +kernel, by decide +kernel, by decide +kernel,
    by decide +kernel⟩
  intro z v hz hv
  have hr : lowerWord "robust" = wRobust := by decide
  simp only [solverObjective, parseTarget_robust "robust" hr] at hv
  have h2 := (C03.robust_epigraph cexSamples z v hv).1 [2] (by simp [cexSamples])
  have hb := hz.1.1 0 (by decide)
  simp only [cexP, List.getD_cons_zero] at hb
  simp only [costAt] at h2
  grind

/-! ### non-vacuity -/

/-- letter cases the code accepts, and strings it does not -/
example : parseTarget "value" = some .value ∧ parseTarget "VALUE" = some .value ∧ parseTarget "vAlUe" = some .value ∧
    parseTarget "robust" = some .robust ∧ parseTarget "Robust" = some .robust ∧ parseTarget "ROBUST" = some .robust ∧
    parseTarget "rObUsT" = some .robust ∧
    parseTarget "" = none ∧ parseTarget "values" = none ∧ parseTarget " value" = none ∧ parseTarget "robus" = none := by
  decide

/-- the instance of `C04`: two assets, 4 variables -/
def exP : Problem := assemble [C04.exA, C04.exB] [0, 1] []

/-- value target in three letter cases: the solver's number `-13/2` is attained by `exX`; the result carries it and
    it is the sum of the DCF table (`-6 + 2 - 5/2 + 0`) -/
example : solverObjective "Value" exP [] C04.exX = some (-13/2) ∧
    resultValue "Value" exP C04.exX (-13/2) = some (-13/2) ∧
    resultValue "VALUE" exP C04.exX (-13/2) = some (-13/2) ∧
    resultValue "value" exP C04.exX (-13/2) = some (-13/2) ∧ exP.value C04.exX = -13/2 := by
  decide +kernel

example : resultValue "Value" exP C04.exX (-13/2)
    = some ((["a", "b"].map fun a => dcfTotal exP.c exP.mapping a 2 C04.exX).sum) :=
  result_value_is_dcf_sum "Value" [C04.exA, C04.exB] [0, 1] [] 2 C04.exNodup C04.exWF [] C04.exX (-13/2)
    (by decide +kernel)

/-- an integer point for the robust instance -/
def exXi : Vec := fun j => [2, 7, -1, 1].getD j 0

/-- robust target with two cost samples: the solver's number is `min(-9, -16) = -16`, the result carries
    `-9 = -c·x`; an unknown target gives no result -/
example : solverObjective "RoBust" exP [[3, 0, 2, 5], [5, 1, 2, 1]] exXi = some (-16) ∧
    resultValue "RoBust" exP exXi (-16) = some (-9) ∧
    resultValueNoOverwrite "RoBust" exP exXi (-16) = some (-16) ∧
    resultValue "robust " exP exXi (-16) = none := by
  decide +kernel

example : resultValue "RoBust" exP exXi (-16)
    = some ((["a", "b"].map fun a => dcfTotal exP.c exP.mapping a 2 exXi).sum) :=
  result_value_is_dcf_sum "RoBust" [C04.exA, C04.exB] [0, 1] [] 2 C04.exNodup C04.exWF
    [[3, 0, 2, 5], [5, 1, 2, 1]] exXi (-16) (by decide +kernel)

/-- `robust_objective_le_result_value` on the instance (`exP.c` is the first sample) -/
example : ∃ v, resultValue "ROBUST" exP exXi (-16) = some v ∧ (-16 : Rat) ≤ v :=
  robust_objective_le_result_value "ROBUST" (by decide) exP [[3, 0, 2, 5], [5, 1, 2, 1]] (by decide +kernel)
    exXi (-16) (by decide +kernel)

/-- two intervals (4 and 1 variables), joint point `(2, 7, -1, 1/2, 3)`: the loop gives `0 + (-13/2) + (-15)` -/
def exB2 : Problem := assemble [C04.exB] [0] []
def exJoint : Vec := fun j => [2, 7, -1, 1/2, 3].getD j 0

example : splitResultValue "VALUE" (slices [exP, exB2] exJoint fun i => [-13/2, -15].getD i 0) = some (-43/2) ∧
    (blockSum [exP, exB2]).value exJoint = -43/2 := by
  decide +kernel

example : splitResultValue "VALUE" (slices [exP, exB2] exJoint fun i => [-13/2, -15].getD i 0)
    = some ((blockSum [exP, exB2]).value exJoint) :=
  split_result_value_is_joint "VALUE" [] [exP, exB2] exJoint _ (by
    intro i hi
    have : i = 0 ∨ i = 1 := by simp at hi; omega
    rcases this with rfl | rfl <;> decide +kernel)

example :
    let parts : List Part := [([C04.exA, C04.exB], [0, 1], C04.exX, -13/2), ([C04.exB], [0], C04.exX, -10)]
    splitResultValue "value" (parts.map fun q => ⟨assemble q.1 q.2.1 [], q.2.2.1, q.2.2.2⟩)
      = some ((parts.map fun q => ((q.1.map (·.name)).map fun a =>
          dcfTotal (assemble q.1 q.2.1 []).c (assemble q.1 q.2.1 []).mapping a 2 q.2.2.1).sum).sum) ∧
    splitResultValue "value" (parts.map fun q => ⟨assemble q.1 q.2.1 [], q.2.2.1, q.2.2.2⟩) = some (-33/2) := by
  refine ⟨split_result_value_is_dcf_sum "value" [] _ [] 2 ?_ ?_ ?_, by decide +kernel⟩
  · intro q hq
    simp only [List.mem_cons, List.not_mem_nil, or_false] at hq
    rcases hq with rfl | rfl <;> decide +kernel
  · intro q hq a ha
    simp only [List.mem_cons, List.not_mem_nil, or_false] at hq
    rcases hq with rfl | rfl
    · exact C04.exWF a ha
    · exact C04.exWF a (by simp only [List.mem_cons, List.not_mem_nil, or_false] at ha ⊢; exact Or.inr ha)
  · intro q hq
    simp only [List.mem_cons, List.not_mem_nil, or_false] at hq
    rcases hq with rfl | rfl <;> decide +kernel

/-- a stochastic program (the instance of `C17`): present variables 0 and 1 (1 straddling), future variable 2, two
    samples; at `z = (1, 1, 1 | 2 | 3)` the result of the value target carries `-47/3`, the mean of the scenario values
    `-6, -14, -27` -/
def slpP : Problem :=
  { c := [1, 2, 3], l := [0, 0, 0], u := [4, 4, 4], rows := [],
    mapping := [⟨0, "a", some "n", .d, 0, 1, false, "disp"⟩, ⟨1, "a", some "n", .d, 0, 1, false, "disp"⟩,
                ⟨1, "a", some "n", .d, 1, 1, false, "disp"⟩, ⟨2, "a", some "n", .d, 1, 1, false, "disp"⟩],
    nodal := [] }
def slpCs : List (List Rat) := [[1, 5, 4], [1, 8, 6]]
def slpZ : Vec := fun j => [1, 1, 1, 2, 3].getD j 0

theorem slp_share : C17.SharePresentNS slpP [1] slpCs := by
  intro i hi x
  have hmask : slpMask slpP [1] = [false, false, true] := by decide
  have hstr : slpStraddle slpP [1] = [false, true, false] := by decide
  rw [hmask, hstr]
  have hi' : i < 2 := hi
  match i, hi' with
  | 0, _ => simp [C17.nsValue, Slp.nsMask, Slp.selCost, slpCs, slpP]
  | 1, _ => simp [C17.nsValue, Slp.nsMask, Slp.selCost, slpCs, slpP]

example : ∃ Q, makeSlp slpP [1] slpCs = .ok Q ∧ Q.value slpZ = -47/3 ∧
    resultValue "VALUE" Q slpZ (-47/3)
      = some (Slp.mean slpCs.length fun s =>
          - costAt (C17.scenCost slpP.c slpCs s) 0 (fun j => slpZ (slpEmbed (slpMask slpP [1]) slpP.n s j))) := by
  obtain ⟨Q, hQ⟩ := (C17.makeSlp_ok_iff slpP [1] slpCs).mpr ⟨by decide, by decide, by decide, by decide⟩
  have hv : Q.value slpZ = -47/3 := by
    have : (match makeSlp slpP [1] slpCs with | .ok Q => Q.value slpZ | .error _ => 0) = -47/3 := by decide +kernel
    rw [hQ] at this
    exact this
  refine ⟨Q, hQ, hv, result_value_slp "VALUE" slpP [1] slpCs Q hQ slp_share [] slpZ _ ?_⟩
  have hl : lowerWord "VALUE" = wValue := by decide
  simp only [solverObjective, parseTarget_value "VALUE" hl, C03.translate_objective, hv]

/-- unknown target: the split loop ends without a value; no interval: the value is the initial 0 -/
example : splitResultValue "Values" [⟨exP, C04.exX, 0⟩] = none ∧ splitResultValue "value" [] = some 0 := by
  decide +kernel

end EAO.C04R
