import EAO.Model.CoarseBuild
import EAO.Model.Readout
import EAO.Lemmas.CoarseBuild
/-!
# C13 for the builders: a contract / transport with an own, coarser frequency is the fine one plus "same rate"

Property theorems only; helper lemmas in `EAO/Lemmas/CoarseBuild.lean`, the model of the `freq` path of
`SimpleContract.setup_optim_problem` / `Transport.setup_optim_problem` in `EAO/Model/CoarseBuild.lean`.

The coarse builder works on the coarse restricted grid `cg` (one variable per coarse step, price = plain mean over the
minor steps, capacities / extra costs / discount factor sampled at the first minor step, `dt` of the coarse step) and
extends its mapping to the minor grid with the weights `dt_fine/dt_coarse`.  It is compared with THE FINE PROBLEM
(`fineSimpleContract`, `fineTransport`): the `freq=None` builder's tail (`simpleCore`, `transportCore`; by
`builder_is_core` / `transport_builder_is_core` the `freq=None` builders ARE these tails applied to the sampled series)
on the fine steps of the coarse grid (`minorGrid`; by `minorGrid_eq_restrict` this is `ref.restrict start end` for a
window of whole coarse steps) with the price series replaced by its plain mean per coarse step.

* `coarse_equiv_contract`, `coarse_equiv_transport` — under the hypotheses that are TRUE for the code
  (`CoarseGrid.WellFormed`: what `Grid.coarsen` guarantees, `coarsen_wellFormed`; `EqualDiscount`: no discounting or equal
  discount factors inside a coarse step — the complement is finding F-13h, `unequal_discount_witness`; `ConstInside`:
  capacities and extra costs constant inside a coarse step — the complement is finding F-13i, `varying_limits_witness`;
  scalars always are, `constInside_scalar`) the coarse problem is the fine problem plus the equalities "same RATE in all
  fine steps of a coarse step", with explicit maps in both directions: every coarse point `z` expands
  (`expand`: fine step `t` of coarse step `i` gets `z_i · dt_t/dt_i`) to a point that satisfies the equalities, is feasible
  for the fine problem iff `z` is feasible for the coarse one, has the same cost (so the same value `-c·x`) and the same
  dispatch read-out at every asset, node and FINE step; and every fine point satisfying the equalities is such an expansion.
  One form for both problems: one variable per step, or `disp_in | disp_out` (`B` = 1 or 2 blocks).
* `coarse_equiv_contract_grid` — the same from the grid up: top-level reference grid, cuts, scalar parameters; the only
  hypothesis left about the data is `EqualDiscount`, which `equalDiscount_of_const` reduces to the reference's factors.
* `coarse_weights_sum_one_builder`, `coarse_weights_sum_transport` — per coarse variable the factors of the mapping rows
  the builder returns add up to 1 (to `-1 + efficiency` for a transport: −1 at the first node, the efficiency at the second).
* `coarse_rate_constant`, `coarse_rate_constant_transport` — every mapping row puts `x · dt_fine/dt_coarse` on its fine step:
  volume over step length is `x / dt_coarse` (times the node factor) at every minor step.

NOT covered: windows that are not whole coarse steps lose their remainder (finding F-19b: the coarse grid then covers
less than the fine asset's window; the theorems compare with the fine steps the coarse grid HAS); `Contract` with take
periods (finding F-13g), `periodicity` together with `freq`.
-/
namespace EAO.C13B
open EAO EAO.CoarseBuild

/-! ### the main theorems -/

/-- **C13 `coarse_equiv_contract`.**  `Pc` = what `SimpleContract(freq=f)` builds on the coarse grid `cg` of the full grid
    `ref`; then the fine problem `Pf` (same asset without `freq` on the fine steps of `cg`, price series averaged per coarse
    step) is built too (`fine_builds`).  `B` blocks of variables (1: `disp`, 2: `disp_in | disp_out`), the same for both.  For every coarse point `z`
    and its expansion `x = expand … z`: `x` has the same rate inside every coarse step; `z` feasible ⇔ `x` feasible; same
    cost; same dispatch at every asset, node and fine step.  Every fine point with the same rate inside every coarse step
    is an expansion. -/
theorem coarse_equiv_contract (p : ContractP) (ref : Grid) (cg : CoarseGrid) (prices : Prices) (fullT : Nat)
    (Pc : AssetProblem) (hwf : cg.WellFormed ref.dt) (hdf : EqualDiscount ref cg)
    (hcap : ConstInside p ref cg prices)
    (hc : buildCoarseSimpleContract p cg ref.dt prices fullT = .ok Pc) :
    ∃ Pf, fineSimpleContract p ref cg prices fullT = .ok Pf ∧
    ∃ B, (B = 1 ∨ B = 2) ∧ Pc.n = cg.grid.T * B ∧ Pf.n = (minorGrid ref cg).T * B ∧
      (∀ z : Vec,
        SameRate cg.owner (minorGrid ref cg).dt Pf.n (expand cg.owner (cg.weights ref.dt) cg.grid.T z) ∧
        (Pc.FeasibleRelaxed z ↔ Pf.FeasibleRelaxed (expand cg.owner (cg.weights ref.dt) cg.grid.T z)) ∧
        costAt Pf.c 0 (expand cg.owner (cg.weights ref.dt) cg.grid.T z) = costAt Pc.c 0 z ∧
        ∀ a n t, dispatchOut Pf.mapping a n t (expand cg.owner (cg.weights ref.dt) cg.grid.T z)
          = dispatchOut Pc.mapping a n t z) ∧
      (∀ x : Vec, SameRate cg.owner (minorGrid ref cg).dt Pf.n x →
        ∃ z : Vec, ∀ j, j < Pf.n → x j = expand cg.owner (cg.weights ref.dt) cg.grid.T z j) := by
  obtain ⟨Pf, hf0⟩ := fine_builds hwf hcap hc
  refine ⟨Pf, hf0, ?_⟩
  have hf := hf0
  obtain ⟨hill, price, a, hprice, ha, rfl⟩ := buildCoarseSimpleContract_ok hc
  rw [fineSimpleContract_eq hill hprice] at hf
  obtain ⟨dC, minOC, maxOC, ecOC, hpC, hvC, heC, hmiC, hmaC, ⟨restC, hnC⟩, rfl⟩ := simpleCore_ok ha
  obtain ⟨dF, minOF, maxOF, ecOF, hpF, hvF, heF, hmiF, hmaF, ⟨restF, hnF⟩, rfl⟩ := simpleCore_ok hf
  have hnode : dF.node = dC.node := by
    rw [hnC] at hnF; injection hnF with h1 _; exact h1.symm
  have D : DataSpread ref cg dC dF :=
    dataSpread_of hwf hcap (by rw [hpC]; exact coarsePrice_length hprice) (by rw [hpF, hpC]) hvC heC hmiC hmaC
      hvF heF hmiF hmaF hnode
  have S := spread_of_wf hwf
  have hone := oneVariable_spread hwf D
  -- the common part, for either form
  have main : ∀ (B : Nat) (Qc Qf : AssetProblem),
      SpreadProblem B (fun k => cg.owner.getD k 0) (fun k => (cg.weights ref.dt).getD k 0) cg.owner.length cg.grid.T Qc Qf →
      Qc.n = cg.grid.T * B ∧ Qf.n = (minorGrid ref cg).T * B ∧
      (∀ z : Vec,
        SameRate cg.owner (minorGrid ref cg).dt Qf.n (expand cg.owner (cg.weights ref.dt) cg.grid.T z) ∧
        (Qc.FeasibleRelaxed z ↔ Qf.FeasibleRelaxed (expand cg.owner (cg.weights ref.dt) cg.grid.T z)) ∧
        costAt Qf.c 0 (expand cg.owner (cg.weights ref.dt) cg.grid.T z) = costAt Qc.c 0 z ∧
        ∀ a n t, dispatchOut Qf.mapping a n t (expand cg.owner (cg.weights ref.dt) cg.grid.T z)
          = dispatchOut Qc.mapping a n t z) ∧
      (∀ x : Vec, SameRate cg.owner (minorGrid ref cg).dt Qf.n x →
        ∃ z : Vec, ∀ j, j < Qf.n → x j = expand cg.owner (cg.weights ref.dt) cg.grid.T z j) := by
    intro B Qc Qf SP
    have hnF : Qf.n = cg.owner.length * B := SP.cLenF
    refine ⟨SP.cLenC, by rw [hnF, minorGrid_T], ?_, ?_⟩
    · intro z
      have E := spreadProblem_equiv S SP z (expand cg.owner (cg.weights ref.dt) cg.grid.T z) (expand_hx B z)
      refine ⟨?_, E.1, E.2.1, E.2.2⟩
      rw [hnF]; exact sameRate_expand_cg B z
    · intro x hx
      rw [hnF] at hx ⊢
      exact expand_surj_cg hwf B x hx
  by_cases h1 : oneVariable dC.ec dC.minC dC.maxC = true
  · have h1F : oneVariable dF.ec dF.minC dF.maxC = true := by rw [hone]; exact h1
    simp only [h1, h1F, if_true]
    exact ⟨1, Or.inl rfl, main 1 _ _ (scOne_spread hwf hdf p D)⟩
  · have h1F : ¬ oneVariable dF.ec dF.minC dF.maxC = true := by rw [hone]; exact h1
    simp only [h1, h1F]
    exact ⟨2, Or.inr rfl, main 2 _ _ (scTwo_spread hwf hdf p D)⟩

/-- **C13 `coarse_equiv_transport`.**  The same for `Transport(freq=f)`; here the fine problem is shown to EXIST (the
    sign / zero tests that make `Transport.setup_optim_problem` refuse a problem have the same outcome on both grids). -/
theorem coarse_equiv_transport (p : TransportP) (ref : Grid) (cg : CoarseGrid) (prices : Prices) (fullT : Nat)
    (Pc : AssetProblem) (hwf : cg.WellFormed ref.dt) (hdf : EqualDiscount ref cg)
    (hc : buildCoarseTransport p cg ref.dt prices fullT = .ok Pc) :
    ∃ Pf, fineTransport p ref cg prices fullT = .ok Pf ∧
      Pc.n = cg.grid.T ∧ Pf.n = (minorGrid ref cg).T ∧
      (∀ z : Vec,
        SameRate cg.owner (minorGrid ref cg).dt Pf.n (expand cg.owner (cg.weights ref.dt) cg.grid.T z) ∧
        (Pc.FeasibleRelaxed z ↔ Pf.FeasibleRelaxed (expand cg.owner (cg.weights ref.dt) cg.grid.T z)) ∧
        costAt Pf.c 0 (expand cg.owner (cg.weights ref.dt) cg.grid.T z) = costAt Pc.c 0 z ∧
        ∀ a n t, dispatchOut Pf.mapping a n t (expand cg.owner (cg.weights ref.dt) cg.grid.T z)
          = dispatchOut Pc.mapping a n t z) ∧
      (∀ x : Vec, SameRate cg.owner (minorGrid ref cg).dt Pf.n x →
        ∃ z : Vec, ∀ j, j < Pf.n → x j = expand cg.owner (cg.weights ref.dt) cg.grid.T z j) := by
  obtain ⟨n0, n1, cts, hn, h1, h2, hcts, hfl, rfl⟩ := buildCoarseTransport_ok hc
  have hlen := coarseCosts_length hcts
  have hflF : trFlags p (minorGrid ref cg) (spreadList cg.owner cts) = true := by
    rw [(trFlags_spread hwf p cts hlen).2]; exact hfl
  have hf : fineTransport p ref cg prices fullT = .ok (trProblem p (minorGrid ref cg) n0 n1 (spreadList cg.owner cts)) := by
    unfold fineTransport
    rw [hn]
    simp only [bind, Except.bind, hcts]
    rw [if_neg h1, if_neg (by simpa using h2)]
    exact transportCore_of_flags p n0 n1 _ _ hflF
  have S := spread_of_wf hwf
  have SP := transport_spread hwf hdf p n0 n1 cts hlen
  have hnF : (trProblem p (minorGrid ref cg) n0 n1 (spreadList cg.owner cts)).n = cg.owner.length * 1 := SP.cLenF
  refine ⟨_, hf, ?_, ?_, ?_, ?_⟩
  · have := SP.cLenC; simpa [AssetProblem.n] using this
  · rw [hnF, minorGrid_T]; omega
  · intro z
    have E := spreadProblem_equiv S SP z (expand cg.owner (cg.weights ref.dt) cg.grid.T z) (expand_hx 1 z)
    refine ⟨?_, E.1, E.2.1, E.2.2⟩
    rw [hnF]; exact sameRate_expand_cg 1 z
  · intro x hx
    rw [hnF] at hx ⊢
    exact expand_surj_cg hwf 1 x hx

/-! ### the hypotheses are true for the code -/

/-- what `Grid.coarsen` makes of a top-level grid (indices `0…T-1`, positive step lengths, increasing points) along
    non-decreasing cuts is well formed in the sense the builders need -/
theorem coarsen_wellFormed (ref : Grid) (cuts : List Int) (cg : CoarseGrid) (htl : ref.TopLevel)
    (h : ref.coarsen cuts = .ok cg) (hc : cuts.Pairwise (· ≤ ·)) : cg.WellFormed ref.dt :=
  coarsen_wellFormed' ref cuts cg htl h hc

/-- the discount factor of a coarse step is the reference's factor at one of its minor steps (the first); so equal
    factors inside every coarse step of the REFERENCE grid (e.g. no discounting: all 1) give `EqualDiscount` -/
theorem equalDiscount_of_const (ref : Grid) (cuts : List Int) (cg : CoarseGrid) (htl : ref.TopLevel)
    (h : ref.coarsen cuts = .ok cg)
    (hconst : ∀ i, i < cg.minor.length → ∀ t, t ∈ cg.minor.getD i [] → ∀ t', t' ∈ cg.minor.getD i [] →
      ref.df.getD t 0 = ref.df.getD t' 0) : EqualDiscount ref cg := by
  intro i hi t ht
  obtain ⟨t0, ht0, he⟩ := coarsen_df ref cuts cg htl h i hi
  rw [he]
  exact hconst i hi t ht t0 ht0

/-- constant capacities and extra costs are constant inside every coarse step -/
theorem constInside_scalar (p : ContractP) (ref : Grid) (cg : CoarseGrid) (prices : Prices) (hwf : cg.WellFormed ref.dt)
    (a b e : Rat) (hmin : p.minCap = .scalar a) (hmax : p.maxCap = .scalar b) (hec : p.extraCosts = .scalar e) :
    ConstInside p ref cg prices := by
  refine ⟨?_, ?_, ?_⟩
  · rw [hmax]; exact baseVector_scalar_spread hwf b prices none
  · rw [hmin]; exact baseVector_scalar_spread hwf a prices none
  · rw [hec]; exact baseVector_scalar_spread hwf e prices (some 0)

/-- whole coarse steps: when the first cut is the window's start and the last cut its end, the fine steps of the coarse
    grid ARE the fine restricted grid of the same window (points, indices, `dt`, `Dt`, discount factors) -/
theorem minorGrid_eq_restrict (ref : Grid) (cuts : List Int) (cg : CoarseGrid) (s e : Int) (htl : ref.TopLevel)
    (h : ref.coarsen cuts = .ok cg) (hc : cuts.Pairwise (· ≤ ·))
    (h0 : cuts.head? = some s) (hn : cuts.getLast? = some e) : minorGrid ref cg = ref.restrict s e := by
  apply minorGrid_eq_restrict' ref cg s e htl
  have hpts : ref.pts.Pairwise (· ≤ ·) := htl.pts.imp (fun h => by omega)
  unfold Grid.coarsen at h
  cases hcells : coarseCells ref cuts with
  | error err => rw [hcells] at h; cases h
  | ok cells =>
    rw [hcells] at h
    cases h
    exact (coarseCells_cover ref hpts cuts cells hcells hc s e h0 hn).1

/-- the `freq=None` builder is its tail applied to the sampled price series -/
theorem builder_is_core (p : ContractP) (g : Grid) (prices : Prices) (fullT : Nat) :
    buildSimpleContract p g prices fullT
      = (if scalarIllPosed p.minCap p.maxCap then throw .illPosed
         else priceVector p.price g prices fullT >>= simpleCore p g prices) :=
  buildSimpleContract_eq_core p g prices fullT

theorem transport_builder_is_core (p : TransportP) (g : Grid) (prices : Prices) (fullT : Nat) (n0 n1 : String)
    (hn : p.nodes = [n0, n1]) :
    buildTransport p g prices fullT
      = (if p.maxCap < p.minCap then throw .assertion
         else if ¬ (0 < p.efficiency) then throw .assertion
         else transportCosts p.costsKey g prices fullT >>= transportCore p n0 n1 g) :=
  buildTransport_eq_core p g prices fullT n0 n1 hn

/-- **from the grid up**: top-level reference grid, cuts of whole coarse steps `[s, e)`, constant capacities and extra
    costs.  The fine problem then lives on `ref.restrict s e`, and the only hypothesis about the data is equal discounting
    inside the coarse steps. -/
theorem coarse_equiv_contract_grid (p : ContractP) (ref : Grid) (cuts : List Int) (cg : CoarseGrid) (s e : Int)
    (prices : Prices) (fullT : Nat) (Pc : AssetProblem) (a b ec : Rat)
    (htl : ref.TopLevel) (hco : ref.coarsen cuts = .ok cg) (hcuts : cuts.Pairwise (· ≤ ·))
    (h0 : cuts.head? = some s) (hn : cuts.getLast? = some e)
    (hmin : p.minCap = .scalar a) (hmax : p.maxCap = .scalar b) (hec : p.extraCosts = .scalar ec)
    (hdf : EqualDiscount ref cg)
    (hc : buildCoarseSimpleContract p cg ref.dt prices fullT = .ok Pc) :
    minorGrid ref cg = ref.restrict s e ∧
    ∃ Pf, fineSimpleContract p ref cg prices fullT = .ok Pf ∧
    ∃ B, (B = 1 ∨ B = 2) ∧ Pc.n = cg.grid.T * B ∧ Pf.n = (ref.restrict s e).T * B ∧
      (∀ z : Vec,
        SameRate cg.owner (ref.restrict s e).dt Pf.n (expand cg.owner (cg.weights ref.dt) cg.grid.T z) ∧
        (Pc.FeasibleRelaxed z ↔ Pf.FeasibleRelaxed (expand cg.owner (cg.weights ref.dt) cg.grid.T z)) ∧
        costAt Pf.c 0 (expand cg.owner (cg.weights ref.dt) cg.grid.T z) = costAt Pc.c 0 z ∧
        ∀ a n t, dispatchOut Pf.mapping a n t (expand cg.owner (cg.weights ref.dt) cg.grid.T z)
          = dispatchOut Pc.mapping a n t z) ∧
      (∀ x : Vec, SameRate cg.owner (ref.restrict s e).dt Pf.n x →
        ∃ z : Vec, ∀ j, j < Pf.n → x j = expand cg.owner (cg.weights ref.dt) cg.grid.T z j) := by
  have hwf := coarsen_wellFormed ref cuts cg htl hco hcuts
  have hg := minorGrid_eq_restrict ref cuts cg s e htl hco hcuts h0 hn
  have := coarse_equiv_contract p ref cg prices fullT Pc hwf hdf
    (constInside_scalar p ref cg prices hwf a b ec hmin hmax hec) hc
  rw [hg] at this
  exact ⟨hg, this⟩

/-! ### weights and rates of the mapping the coarse builders return -/

/-- **`coarse_weights_sum_one_builder`.**  For every variable that has a mapping row, the factors of all its rows (one
    per minor step of its coarse step) add up to one: the coarse variable's volume is distributed completely. -/
theorem coarse_weights_sum_one_builder (p : ContractP) (ref : Grid) (cg : CoarseGrid) (prices : Prices) (fullT : Nat)
    (Pc : AssetProblem) (hwf : cg.WellFormed ref.dt)
    (hc : buildCoarseSimpleContract p cg ref.dt prices fullT = .ok Pc) (m : MapRow) (hm : m ∈ Pc.mapping) :
    ((Pc.mapping.filter (fun r => r.var == m.var)).map (·.factor)).sum = 1 := by
  obtain ⟨node, hM | hM⟩ := contract_mapping_form hwf hc
  · rw [hM] at hm ⊢
    obtain ⟨i, hi, _, hv, _⟩ := mem_extBlock _ _ _ _ _ _ hm
    rw [extBlock_factor_sum hwf, if_pos (by rw [hv, ← hwf.minorLen]; omega)]
  · rw [hM] at hm ⊢
    rw [filter_sum_append, extBlock_factor_sum hwf, extBlock_factor_sum hwf]
    rcases List.mem_append.mp hm with hm | hm
    · obtain ⟨i, hi, _, hv, _⟩ := mem_extBlock _ _ _ _ _ _ hm
      rw [hwf.minorLen] at hi
      rw [if_pos (by omega), if_neg (by omega)]; grind
    · obtain ⟨i, hi, _, hv, _⟩ := mem_extBlock _ _ _ _ _ _ hm
      rw [hwf.minorLen] at hi
      rw [if_neg (by omega), if_pos (by omega)]; grind

/-- for a transport every variable has its rows at both nodes: factors `-1·w` and `efficiency·w`, adding up to
    `-1 + efficiency` -/
theorem coarse_weights_sum_transport (p : TransportP) (ref : Grid) (cg : CoarseGrid) (prices : Prices) (fullT : Nat)
    (Pc : AssetProblem) (hwf : cg.WellFormed ref.dt)
    (hc : buildCoarseTransport p cg ref.dt prices fullT = .ok Pc) (m : MapRow) (hm : m ∈ Pc.mapping) :
    ((Pc.mapping.filter (fun r => r.var == m.var)).map (·.factor)).sum = -1 + p.efficiency := by
  obtain ⟨n0, n1, _, hM⟩ := transport_mapping_form hwf hc
  rw [hM] at hm ⊢
  rw [filter_sum_append, extBlock_factor_sum hwf, extBlock_factor_sum hwf]
  rcases List.mem_append.mp hm with hm | hm
  · obtain ⟨i, hi, _, hv, _⟩ := mem_extBlock _ _ _ _ _ _ hm
    rw [hwf.minorLen] at hi
    rw [if_pos (by omega), if_pos (by omega)]
  · obtain ⟨i, hi, _, hv, _⟩ := mem_extBlock _ _ _ _ _ _ hm
    rw [hwf.minorLen] at hi
    rw [if_pos (by omega), if_pos (by omega)]

/-- **`coarse_rate_constant`.**  Every mapping row of the coarse contract belongs to a coarse step `i`, sits on one of
    its minor steps, carries the factor `dt_fine/dt_coarse`, and so puts `x · dt_fine/dt_coarse` on its fine step: the rate
    (volume over step length) is `x/dt_coarse` at every minor step. -/
theorem coarse_rate_constant (p : ContractP) (ref : Grid) (cg : CoarseGrid) (prices : Prices) (fullT : Nat)
    (Pc : AssetProblem) (hwf : cg.WellFormed ref.dt)
    (hc : buildCoarseSimpleContract p cg ref.dt prices fullT = .ok Pc) (m : MapRow) (hm : m ∈ Pc.mapping) :
    ∃ i, i < cg.grid.T ∧ m.step ∈ cg.minor.getD i [] ∧ (m.var = i ∨ m.var = cg.grid.T + i) ∧
      m.factor = ref.dt.getD m.step 0 / cg.grid.dt.getD i 0 ∧
      ∀ x : Vec, m.contrib x = x m.var * (ref.dt.getD m.step 0 / cg.grid.dt.getD i 0) ∧
        m.contrib x / ref.dt.getD m.step 0 = x m.var / cg.grid.dt.getD i 0 := by
  have key : ∀ (node vn : String) (off : Nat), m ∈ cellMapFrom (extRow ref cg p.name node vn 1 off) 0 cg.minor →
      (off = 0 ∨ off = cg.grid.T) →
      ∃ i, i < cg.grid.T ∧ m.step ∈ cg.minor.getD i [] ∧ (m.var = i ∨ m.var = cg.grid.T + i) ∧
        m.factor = ref.dt.getD m.step 0 / cg.grid.dt.getD i 0 ∧
        ∀ x : Vec, m.contrib x = x m.var * (ref.dt.getD m.step 0 / cg.grid.dt.getD i 0) ∧
          m.contrib x / ref.dt.getD m.step 0 = x m.var / cg.grid.dt.getD i 0 := by
    intro node vn off hmem hoff
    obtain ⟨i, hi, hs, hv, hf⟩ := mem_extBlock _ _ _ _ _ _ hmem
    have hf' : m.factor = ref.dt.getD m.step 0 / cg.grid.dt.getD i 0 := by rw [hf]; grind
    refine ⟨i, by rw [← hwf.minorLen]; exact hi, hs, ?_, hf', fun x => ⟨?_, ?_⟩⟩
    · rcases hoff with rfl | rfl
      · left; omega
      · right; exact hv
    · unfold MapRow.contrib; rw [hf']
    · have := rate_of_row hwf m i hi hs 1 hf x
      rw [this]; grind
  obtain ⟨node, hM | hM⟩ := contract_mapping_form hwf hc
  · rw [hM] at hm
    exact key node "disp" 0 hm (Or.inl rfl)
  · rw [hM] at hm
    rcases List.mem_append.mp hm with hm | hm
    · exact key node "disp_in" 0 hm (Or.inl rfl)
    · exact key node "disp_out" cg.grid.T hm (Or.inr rfl)

/-- the same for a transport: the row at the first node carries `-dt_fine/dt_coarse`, the one at the second
    `efficiency · dt_fine/dt_coarse`; the rate at a node is `x · f / dt_coarse` at every minor step -/
theorem coarse_rate_constant_transport (p : TransportP) (ref : Grid) (cg : CoarseGrid) (prices : Prices) (fullT : Nat)
    (Pc : AssetProblem) (hwf : cg.WellFormed ref.dt)
    (hc : buildCoarseTransport p cg ref.dt prices fullT = .ok Pc) (m : MapRow) (hm : m ∈ Pc.mapping) :
    ∃ i f, i < cg.grid.T ∧ m.step ∈ cg.minor.getD i [] ∧ m.var = i ∧ (f = -1 ∨ f = p.efficiency) ∧
      m.factor = ref.dt.getD m.step 0 / cg.grid.dt.getD i 0 * f ∧
      ∀ x : Vec, m.contrib x / ref.dt.getD m.step 0 = x m.var * f / cg.grid.dt.getD i 0 := by
  obtain ⟨n0, n1, _, hM⟩ := transport_mapping_form hwf hc
  rw [hM] at hm
  rcases List.mem_append.mp hm with hm | hm
  · obtain ⟨i, hi, hs, hv, hf⟩ := mem_extBlock _ _ _ _ _ _ hm
    exact ⟨i, -1, by rw [← hwf.minorLen]; exact hi, hs, by omega, Or.inl rfl, hf, fun x => rate_of_row hwf m i hi hs _ hf x⟩
  · obtain ⟨i, hi, hs, hv, hf⟩ := mem_extBlock _ _ _ _ _ _ hm
    exact ⟨i, p.efficiency, by rw [← hwf.minorLen]; exact hi, hs, by omega, Or.inr rfl, hf,
      fun x => rate_of_row hwf m i hi hs _ hf x⟩

end EAO.C13B

/-! ### non-vacuity and the complements of the hypotheses (concrete instances, evaluated by the kernel) -/
namespace EAO.C13B.Ex
open EAO EAO.CoarseBuild

/-- hourly grid of 4 steps (main time unit hour), no discounting -/
def ref4 : Grid := Grid.ofTicks 0 14400 3600 3600 [1, 1, 1, 1]

/-- the cuts of a 2-hour frequency over the whole grid -/
def cuts2 : List Int := [0, 7200, 14400]

/-- its coarse grid: two steps of two hours -/
def cg2 : CoarseGrid :=
  { grid := { pts := [0, 7200], idx := [0, 2], dt := [2, 2], Dt := [1, 3], df := [1, 1] }, minor := [[0, 1], [2, 3]] }

example : ref4.coarsen cuts2 = .ok cg2 := by decide +kernel

theorem ref4_top : ref4.TopLevel :=
  ⟨by decide +kernel, by decide +kernel, by decide +kernel, by decide +kernel, by decide +kernel, by decide +kernel⟩

theorem cg2_wf : cg2.WellFormed ref4.dt :=
  coarsen_wellFormed ref4 cuts2 cg2 ref4_top (by decide +kernel) (by decide +kernel)

theorem cg2_df : EqualDiscount ref4 cg2 := by decide +kernel

/-- buys and sells with a spread: two variables per step -/
def pc : ContractP :=
  { name := "c", nodes := ["n"], price := some "p", extraCosts := .scalar (1/2), minCap := .scalar (-1), maxCap := .scalar 2,
    minTake := [], maxTake := [] }

def prices4 : Prices := [("p", [1, 3, 2, 6])]

theorem ok_of_isSome {ε α : Type} (e : Except ε α) (h : e.toOption.isSome = true) : ∃ a, e = .ok a := by
  cases e with
  | error _ => simp [Except.toOption] at h
  | ok a => exact ⟨a, rfl⟩

-- the coarse problem: means 2 and 4 of the price, limits −1·2 h and 2·2 h, weights 1/2 on every minor step
example : (match buildCoarseSimpleContract pc cg2 ref4.dt prices4 4 with
    | .ok P => P.c == [3/2, 7/2, 5/2, 9/2] && P.l == [-2, -2, 0, 0] && P.u == [0, 0, 4, 4] &&
        P.mapping.map (fun m => (m.var, m.step, m.factor)) ==
          [(0, 0, 1/2), (0, 1, 1/2), (1, 2, 1/2), (1, 3, 1/2), (2, 0, 1/2), (2, 1, 1/2), (3, 2, 1/2), (3, 3, 1/2)]
    | .error _ => false) = true := by decide +kernel

-- the fine problem: the price series [1,3,2,6] replaced by [2,2,4,4]
example : (match fineSimpleContract pc ref4 cg2 prices4 4 with
    | .ok P => P.c == [3/2, 3/2, 7/2, 7/2, 5/2, 5/2, 9/2, 9/2] && P.l == [-1, -1, -1, -1, 0, 0, 0, 0] &&
        P.u == [0, 0, 0, 0, 2, 2, 2, 2]
    | .error _ => false) = true := by decide +kernel

example : cg2.owner = [0, 0, 1, 1] ∧ cg2.weights ref4.dt = [1/2, 1/2, 1/2, 1/2] ∧
    minorGrid ref4 cg2 = ref4.restrict 0 14400 := by decide +kernel

/-- every hypothesis of `coarse_equiv_contract_grid` holds for this instance; the conclusion is the theorem's -/
example : ∃ Pc Pf, buildCoarseSimpleContract pc cg2 ref4.dt prices4 4 = .ok Pc ∧
    fineSimpleContract pc ref4 cg2 prices4 4 = .ok Pf ∧ Pc.n = 4 ∧ Pf.n = 8 ∧
    ∀ z : Vec, (Pc.FeasibleRelaxed z ↔ Pf.FeasibleRelaxed (expand cg2.owner (cg2.weights ref4.dt) cg2.grid.T z)) ∧
      costAt Pf.c 0 (expand cg2.owner (cg2.weights ref4.dt) cg2.grid.T z) = costAt Pc.c 0 z := by
  obtain ⟨Pc, hc⟩ := ok_of_isSome (buildCoarseSimpleContract pc cg2 ref4.dt prices4 4) (by decide +kernel)
  obtain ⟨_, Pf, hf, B, _, hnC, hnF, hz, _⟩ := coarse_equiv_contract_grid pc ref4 cuts2 cg2 0 14400 prices4 4 Pc (-1) 2 (1/2)
    ref4_top (by decide +kernel) (by decide +kernel) rfl rfl rfl rfl rfl cg2_df hc
  have h4 : Pc.n = 4 := by
    have : (buildCoarseSimpleContract pc cg2 ref4.dt prices4 4).toOption.map (·.n) = some 4 := by decide +kernel
    rw [hc] at this; simpa [Except.toOption] using this
  have h8 : Pf.n = 8 := by
    have : (fineSimpleContract pc ref4 cg2 prices4 4).toOption.map (·.n) = some 8 := by decide +kernel
    rw [hf] at this; simpa [Except.toOption] using this
  exact ⟨Pc, Pf, hc, hf, h4, h8, fun z => ⟨(hz z).2.1, (hz z).2.2.1⟩⟩

/-- a transport (efficiency 1/2, costs 1 + series) on the same grids -/
def pt : TransportP :=
  { name := "t", nodes := ["a", "b"], costsConst := 1, costsKey := some "p", minCap := 0, maxCap := 3, efficiency := 1/2,
    minTake := [], maxTake := [] }

example : (match buildCoarseTransport pt cg2 ref4.dt prices4 4 with
    | .ok P => P.c == [3, 5] && P.u == [6, 6] &&
        P.mapping.map (fun m => (m.var, m.node, m.step, m.factor)) ==
          [(0, some "a", 0, -1/2), (0, some "a", 1, -1/2), (1, some "a", 2, -1/2), (1, some "a", 3, -1/2),
           (0, some "b", 0, 1/4), (0, some "b", 1, 1/4), (1, some "b", 2, 1/4), (1, some "b", 3, 1/4)]
    | .error _ => false) = true := by decide +kernel

example : ∃ Pc Pf, buildCoarseTransport pt cg2 ref4.dt prices4 4 = .ok Pc ∧ fineTransport pt ref4 cg2 prices4 4 = .ok Pf ∧
    ∀ z : Vec, costAt Pf.c 0 (expand cg2.owner (cg2.weights ref4.dt) cg2.grid.T z) = costAt Pc.c 0 z := by
  obtain ⟨Pc, hc⟩ := ok_of_isSome (buildCoarseTransport pt cg2 ref4.dt prices4 4) (by decide +kernel)
  obtain ⟨Pf, hf, _, _, hz, _⟩ := coarse_equiv_transport pt ref4 cg2 prices4 4 Pc cg2_wf cg2_df hc
  exact ⟨Pc, Pf, hc, hf, fun z => (hz z).2.2.1⟩

/-! the complements: where a hypothesis fails the statement fails (recorded findings) -/

/-- discount factors 1, 1/2, 1, 1/2 on the fine steps: the coarse steps carry the factor of their FIRST minor step -/
def ref4d : Grid := Grid.ofTicks 0 14400 3600 3600 [1, 1/2, 1, 1/2]

example : ref4d.coarsen cuts2 = .ok cg2 := by decide +kernel

def pflat : ContractP :=
  { name := "c", nodes := ["n"], price := some "q", extraCosts := .scalar 0, minCap := .scalar 0, maxCap := .scalar 1,
    minTake := [], maxTake := [] }

/-- **F-13h on the model** (`EqualDiscount` fails): price 1 everywhere, the coarse point `z = (2, 0)` costs 2 in the
    coarse problem and 3/2 in the fine one at its expansion `(1, 1, 0, 0)` -/
theorem unequal_discount_witness :
    (match buildCoarseSimpleContract pflat cg2 ref4d.dt [("q", [1, 1, 1, 1])] 4,
           fineSimpleContract pflat ref4d cg2 [("q", [1, 1, 1, 1])] 4 with
     | .ok Pc, .ok Pf =>
       costAt Pc.c 0 (fun j => if j = 0 then 2 else 0) == 2 &&
       costAt Pf.c 0 (expand cg2.owner (cg2.weights ref4d.dt) cg2.grid.T (fun j => if j = 0 then 2 else 0)) == 3/2
     | _, _ => false) = true ∧ ¬ EqualDiscount ref4d cg2 := by
  constructor
  · decide +kernel
  · decide +kernel

/-- capacity given as a series that varies inside the coarse steps -/
def pvar : ContractP :=
  { name := "c", nodes := ["n"], price := none, extraCosts := .scalar 0, minCap := .scalar 0, maxCap := .key "m",
    minTake := [], maxTake := [] }

/-- **F-13i on the model** (`ConstInside` fails): capacity series 3, 1, 3, 1: the coarse limit is 3 · 2 h = 6 (value at
    the first minor step), the coarse point `z = (6, 0)` is within it, but its expansion puts 3 on the second fine
    step whose limit is 1 -/
theorem varying_limits_witness :
    (match buildCoarseSimpleContract pvar cg2 ref4.dt [("m", [3, 1, 3, 1])] 4,
           fineSimpleContract pvar ref4 cg2 [("m", [3, 1, 3, 1])] 4 with
     | .ok Pc, .ok Pf =>
       Pc.u == [6, 6] && Pf.u == [3, 1, 3, 1] &&
       expand cg2.owner (cg2.weights ref4.dt) cg2.grid.T (fun j => if j = 0 then 6 else 0) 1 == 3
     | _, _ => false) = true ∧
    baseVector pvar.maxCap (minorGrid ref4 cg2) [("m", [3, 1, 3, 1])] none
      ≠ (baseVector pvar.maxCap cg2.grid [("m", [3, 1, 3, 1])] none).map (spreadO cg2.owner) := by
  constructor
  · decide +kernel
  · decide +kernel

end EAO.C13B.Ex
