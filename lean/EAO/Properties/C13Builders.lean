import EAO.Model.CoarseBuild
import EAO.Model.Readout
import EAO.Lemmas.CoarseBuild
/-!
# C13 for the builders: a contract / transport with an own, coarser frequency is the fine one plus "same rate"

Property theorems only; helper lemmas in `EAO/Lemmas/CoarseBuild.lean`.
-/
namespace EAO.C13B
open EAO EAO.CoarseBuild

theorem coarse_equiv_transport (p : TransportP) (ref : Grid) (cg : CoarseGrid) (prices : Prices) (fullT : Nat)
    (Pc : AssetProblem) (hwf : cg.WellFormed ref.dt) (hdf : EqualDiscount ref cg)
    (hc : buildCoarseTransport p cg ref.dt prices fullT = .ok Pc) :
    ∃ Pf, fineTransport p ref cg prices fullT = .ok Pf ∧
      Pc.n = cg.grid.T ∧ Pf.n = (minorGrid ref cg).T ∧
      (∀ z : Vec,
        SameRate cg.owner (minorGrid ref cg).dt Pf.n (expand cg.owner (cg.weights ref.dt) cg.grid.T z) ∧
        (Pc.FeasibleRelaxed z ↔ Pf.FeasibleRelaxed (expand cg.owner (cg.weights ref.dt) cg.grid.T z)) ∧
        costAt Pf.c 0 (expand cg.owner (cg.weights ref.dt) cg.grid.T z) = costAt Pc.c 0 z ∧
        ∀ a n t, dispatchOut Pf.mapping a n t (expand cg.owner (cg.weights ref.dt) cg.grid.T z)
          = dispatchOut Pc.mapping a n t z) ∧
      (∀ x : Vec, SameRate cg.owner (minorGrid ref cg).dt Pf.n x →
        ∃ z : Vec, ∀ j, j < Pf.n → x j = expand cg.owner (cg.weights ref.dt) cg.grid.T z j) := by
  obtain ⟨n0, n1, cts, hn, h1, h2, hcts, hfl, rfl⟩ := buildCoarseTransport_ok hc
  have hlen := coarseCosts_length hcts
  have hflF : trFlags p (minorGrid ref cg) (spreadList cg.owner cts) = true := by
    rw [(trFlags_spread hwf p cts hlen).2]; exact hfl
  have hf : fineTransport p ref cg prices fullT = .ok (trProblem p (minorGrid ref cg) n0 n1 (spreadList cg.owner cts)) := by
    unfold fineTransport
    rw [hn]
    simp only [bind, Except.bind, pure, Except.pure, hcts]
    rw [if_neg h1, if_neg (by simpa using h2)]
    exact transportCore_of_flags p n0 n1 _ _ hflF
  have S := spread_of_wf hwf
  have SP := transport_spread hwf hdf p n0 n1 cts hlen
  have hnF : (trProblem p (minorGrid ref cg) n0 n1 (spreadList cg.owner cts)).n = cg.owner.length * 1 := SP.cLenF
  refine ⟨_, hf, ?_, ?_, ?_, ?_⟩
  · have := SP.cLenC; simpa [AssetProblem.n] using this
  · rw [hnF, minorGrid_T]; omega
  · intro z
    have E := spreadProblem_equiv S SP z (expand cg.owner (cg.weights ref.dt) cg.grid.T z) (expand_hx 1 z)
    refine ⟨?_, E.1, E.2.1, E.2.2⟩
    rw [hnF]; exact sameRate_expand_cg 1 z
  · intro x hx
    rw [hnF] at hx ⊢
    exact expand_surj_cg hwf 1 x hx

theorem coarse_equiv_contract (p : ContractP) (ref : Grid) (cg : CoarseGrid) (prices : Prices) (fullT : Nat)
    (Pc Pf : AssetProblem) (hwf : cg.WellFormed ref.dt) (hdf : EqualDiscount ref cg)
    (hcap : ConstInside p ref cg prices)
    (hc : buildCoarseSimpleContract p cg ref.dt prices fullT = .ok Pc)
    (hf : fineSimpleContract p ref cg prices fullT = .ok Pf) :
    ∃ B, (B = 1 ∨ B = 2) ∧ Pc.n = cg.grid.T * B ∧ Pf.n = (minorGrid ref cg).T * B ∧
      (∀ z : Vec,
        SameRate cg.owner (minorGrid ref cg).dt Pf.n (expand cg.owner (cg.weights ref.dt) cg.grid.T z) ∧
        (Pc.FeasibleRelaxed z ↔ Pf.FeasibleRelaxed (expand cg.owner (cg.weights ref.dt) cg.grid.T z)) ∧
        costAt Pf.c 0 (expand cg.owner (cg.weights ref.dt) cg.grid.T z) = costAt Pc.c 0 z ∧
        ∀ a n t, dispatchOut Pf.mapping a n t (expand cg.owner (cg.weights ref.dt) cg.grid.T z)
          = dispatchOut Pc.mapping a n t z) ∧
      (∀ x : Vec, SameRate cg.owner (minorGrid ref cg).dt Pf.n x →
        ∃ z : Vec, ∀ j, j < Pf.n → x j = expand cg.owner (cg.weights ref.dt) cg.grid.T z j) := by
  obtain ⟨hill, price, a, hprice, ha, rfl⟩ := buildCoarseSimpleContract_ok hc
  rw [fineSimpleContract_eq hill hprice] at hf
  obtain ⟨dC, minOC, maxOC, ecOC, hpC, hvC, heC, hmiC, hmaC, ⟨restC, hnC⟩, rfl⟩ := simpleCore_ok ha
  obtain ⟨dF, minOF, maxOF, ecOF, hpF, hvF, heF, hmiF, hmaF, ⟨restF, hnF⟩, rfl⟩ := simpleCore_ok hf
  have hnode : dF.node = dC.node := by
    rw [hnC] at hnF; injection hnF with h1 _; exact h1.symm
  have D : DataSpread ref cg dC dF :=
    dataSpread_of hwf hcap (by rw [hpC]; exact coarsePrice_length hprice) (by rw [hpF, hpC]) hvC heC hmiC hmaC
      hvF heF hmiF hmaF hnode
  have S := spread_of_wf hwf
  have hone := oneVariable_spread hwf D
  -- the common part, for either form
  have main : ∀ (B : Nat) (Qc Qf : AssetProblem),
      SpreadProblem B (fun k => cg.owner.getD k 0) (fun k => (cg.weights ref.dt).getD k 0) cg.owner.length cg.grid.T Qc Qf →
      Qc.n = cg.grid.T * B ∧ Qf.n = (minorGrid ref cg).T * B ∧
      (∀ z : Vec,
        SameRate cg.owner (minorGrid ref cg).dt Qf.n (expand cg.owner (cg.weights ref.dt) cg.grid.T z) ∧
        (Qc.FeasibleRelaxed z ↔ Qf.FeasibleRelaxed (expand cg.owner (cg.weights ref.dt) cg.grid.T z)) ∧
        costAt Qf.c 0 (expand cg.owner (cg.weights ref.dt) cg.grid.T z) = costAt Qc.c 0 z ∧
        ∀ a n t, dispatchOut Qf.mapping a n t (expand cg.owner (cg.weights ref.dt) cg.grid.T z)
          = dispatchOut Qc.mapping a n t z) ∧
      (∀ x : Vec, SameRate cg.owner (minorGrid ref cg).dt Qf.n x →
        ∃ z : Vec, ∀ j, j < Qf.n → x j = expand cg.owner (cg.weights ref.dt) cg.grid.T z j) := by
    intro B Qc Qf SP
    have hnF : Qf.n = cg.owner.length * B := SP.cLenF
    refine ⟨SP.cLenC, by rw [hnF, minorGrid_T], ?_, ?_⟩
    · intro z
      have E := spreadProblem_equiv S SP z (expand cg.owner (cg.weights ref.dt) cg.grid.T z) (expand_hx B z)
      refine ⟨?_, E.1, E.2.1, E.2.2⟩
      rw [hnF]; exact sameRate_expand_cg B z
    · intro x hx
      rw [hnF] at hx ⊢
      exact expand_surj_cg hwf B x hx
  by_cases h1 : oneVariable dC.ec dC.minC dC.maxC = true
  · have h1F : oneVariable dF.ec dF.minC dF.maxC = true := by rw [hone]; exact h1
    simp only [h1, h1F, if_true]
    exact ⟨1, Or.inl rfl, main 1 _ _ (scOne_spread hwf hdf p D)⟩
  · have h1F : ¬ oneVariable dF.ec dF.minC dF.maxC = true := by rw [hone]; exact h1
    simp only [h1, h1F]
    exact ⟨2, Or.inr rfl, main 2 _ _ (scTwo_spread hwf hdf p D)⟩

end EAO.C13B
