import EAO.Model.Assemble
import EAO.Model.Translate
import EAO.Lemmas.Blocks
import EAO.Properties.C18
/-!
# C03 — solver hand-off (and the block-sum theorems shared with C14)

Property theorems only; helper lemmas live in `EAO/Lemmas/Blocks.lean`.
The numerical solver itself is outside the model: what is proved here is that the constraint
list / objective handed to it mean exactly `Problem.Feasible` / `Problem.value`, and that the
piecewise optimisation of a split problem is the optimisation of the block-diagonal sum.
Optimality of what the solver returns is certificate-checked per instance with
`EAO.C18.lagrangian_bound`.
-/
namespace EAO.C03

/-- the constraint list handed to cvxpy (bounds, then one block per occurring row type U, L, S, N;
    boolean index set = variables whose first mapping row is flagged) has exactly the feasible set
    of the problem — for any mix of row kinds, duplicated mapping rows, boolean flags and bounds -/
theorem translate_equiv (P : Problem) (x : Vec) : (translate P).Sat x ↔ P.Feasible x := by
  unfold CvxProblem.Sat Problem.Feasible Problem.FeasibleRelaxed
  rw [translate_blocks_sat]
  show InBounds P.l P.u x ∧ (∀ r ∈ P.rows, r.Sat x) ∧ (∀ j ∈ P.boolVars, x j = 0 ∨ x j = 1) ↔ _
  exact ⟨fun ⟨a, b, c⟩ => ⟨⟨a, b⟩, c⟩, fun ⟨⟨a, b⟩, c⟩ => ⟨a, b, c⟩⟩

/-! non-vacuity: a problem with one row of each kind, a duplicated mapping row and a boolean
    variable (variable 0: first mapping row flagged; variable 1: only its *second* row is flagged,
    so it is continuous) -/
section Example
private def mr (v : Nat) (b : Bool) : MapRow :=
  { var := v, asset := "a", node := some "n", kind := .d, step := 0, factor := 1, isBool := b,
    varName := "disp" }

private def exP : Problem :=
  { c := [1, -2, 0], l := [0, 0, 0], u := [1, 5, 5],
    rows := [⟨[(0, 1), (1, 1)], 4, .U⟩, ⟨[(1, 1)], 1, .L⟩, ⟨[(1, 1), (2, -1)], 0, .S⟩,
             ⟨[(0, 2), (1, 1), (2, -1)], 2, .N⟩, ⟨[(2, 1)], 5, .U⟩],
    mapping := [mr 0 true, mr 0 false, mr 1 false, mr 1 true, mr 2 false],
    nodal := [(0, "n")] }

private def exX : Vec := fun j => [1, 3/2, 3/2].getD j 0
/-- same point but the boolean variable at 1/2 (then the N row is also violated) -/
private def exY : Vec := fun j => [1/2, 3/2, 3/2].getD j 0
/-- boolean variable fractional, everything else fine -/
private def exQ : Problem := { exP with rows := exP.rows.take 3 }

example : exP.boolVars = [0] := by decide
example : ((translate exP).blocks.map (·.kind)) = [.U, .L, .S, .N] := by decide
example : ((translate exP).blocks.map (·.rows.length)) = [2, 1, 1, 1] := by decide
example : (translate exP).Sat exX := by decide +kernel
example : exP.Feasible exX := (translate_equiv exP exX).mp (by decide +kernel)
example : ¬ (translate exP).Sat exY := by decide +kernel
example : exQ.FeasibleRelaxed exY ∧ ¬ (translate exQ).Sat exY := by decide +kernel
example : (translate exP).objective exX = 2 := by decide +kernel
end Example

theorem translate_objective (P : Problem) (x : Vec) : (translate P).objective x = P.value x := by
  rfl

/-- offset of block `i` in a block sum -/
def offset (ps : List Problem) (i : Nat) : Nat := ((ps.take i).map (·.n)).sum

/-- well-formedness needed for bounds of a concatenation to be read block-wise -/
def BoundsWF (p : Problem) : Prop := p.l.length = p.n ∧ p.u.length = p.n

theorem offset_eq_blockOffset (ps : List Problem) (i : Nat) :
    offset ps i = blockOffset (ps.map Problem.toAsset) i := by
  unfold offset blockOffset
  rw [← List.map_take, List.map_map]
  rfl

/-- feasibility (relaxed) of the block-diagonal sum = feasibility of every block on its own slice -/
theorem blockSum_feasible (ps : List Problem) (hwf : ∀ p ∈ ps, BoundsWF p) (x : Vec) :
    (blockSum ps).FeasibleRelaxed x ↔
      ∀ i, (h : i < ps.length) → (ps[i]).FeasibleRelaxed (fun j => x (offset ps i + j)) := by
  unfold blockSum
  rw [assembleFrom_feasibleRelaxed (ps.map Problem.toAsset) (by
    intro a ha
    obtain ⟨p, hp, rfl⟩ := List.mem_map.mp ha
    exact hwf p hp)]
  constructor
  · intro h i hi
    have := h i (by simpa using hi)
    rw [← offset_eq_blockOffset, List.getElem_map] at this
    exact this
  · intro h i hi
    have := h i (by simpa using hi)
    rw [← offset_eq_blockOffset, List.getElem_map]
    exact this

/-- value of the block-diagonal sum = sum of block values (`res.value += res_tmp.value`) -/
theorem blockSum_value (ps : List Problem) (x : Vec) :
    (blockSum ps).value x =
      ((List.range ps.length).map fun i => (ps.getD i default).value (fun j => x (offset ps i + j))).sum := by
  unfold blockSum Problem.value
  rw [assembleFrom_cost, ← sum_map_neg, List.length_map]
  congr 1
  apply List.map_congr_left
  intro i hi
  have hi' : i < ps.length := by simpa using hi
  simp only [Nat.zero_add, ← offset_eq_blockOffset]
  have h1 : (ps.map Problem.toAsset).getD i default = (ps[i]).toAsset := by
    simp [List.getD_eq_getElem?_getD, hi']
  have h2 : ps.getD i default = ps[i] := by
    simp [List.getD_eq_getElem?_getD, hi']
  rw [h1, h2]
  rfl

/-! non-vacuity: two interval problems (2 and 1 variables), their block sum, a feasible point -/
section Example
private def p1 : Problem :=
  { c := [1, 2], l := [0, 0], u := [1, 1], rows := [⟨[(0, 1), (1, 1)], 1, .U⟩], mapping := [], nodal := [] }
private def p2 : Problem :=
  { c := [-3], l := [0], u := [2], rows := [⟨[(0, 1)], 1, .L⟩], mapping := [], nodal := [] }
private def exZ : Vec := fun j => [1, 0, 2].getD j 0

example : BoundsWF p1 ∧ BoundsWF p2 := ⟨⟨rfl, rfl⟩, ⟨rfl, rfl⟩⟩
example : offset [p1, p2] 0 = 0 ∧ offset [p1, p2] 1 = 2 := by decide
example : (blockSum [p1, p2]).c = [1, 2, -3] ∧ (blockSum [p1, p2]).u = [1, 1, 2] := ⟨rfl, rfl⟩
example : (blockSum [p1, p2]).rows = [⟨[(0, 1), (1, 1)], 1, .U⟩, ⟨[(2, 1)], 1, .L⟩] := rfl
example : (blockSum [p1, p2]).FeasibleRelaxed exZ := by decide +kernel
example : (blockSum [p1, p2]).value exZ = 5 := by decide +kernel
example : p1.value (fun j => exZ (offset [p1, p2] 0 + j)) = -1 ∧
    p2.value (fun j => exZ (offset [p1, p2] 1 + j)) = 6 := by decide +kernel
end Example

/-- the concatenated solution vector restricted to block `i` is the `i`-th interval solution -/
theorem concatVec_block (ps : List Problem) (xs : List (List Rat)) (hlen : xs.length = ps.length)
    (hn : ∀ i, (h : i < ps.length) → (xs.getD i []).length = (ps[i]).n)
    (i : Nat) (hi : i < ps.length) (j : Nat) (hj : j < (ps[i]).n) :
    concatVec xs (offset ps i + j) = (xs.getD i []).getD j 0 := by
  unfold offset
  rw [List.map_take]
  exact concatVec_take_sum (ps.map (·.n)) xs (by simpa using hlen)
    (fun k hk => by
      have hk' : k < ps.length := by simpa using hk
      rw [List.getElem_map]; exact hn k hk')
    i (by simpa using hi) j (by rw [List.getElem_map]; exact hj)

/-- hence: if every interval solution is optimal for its interval problem, the concatenation is optimal
    for the block sum and its value is the sum of the interval optima (stated with upper bounds, no
    existence of optima assumed) -/
theorem blockSum_optimal (ps : List Problem) (hwf : ∀ p ∈ ps, BoundsWF p) (x : Vec)
    (hopt : ∀ i, (h : i < ps.length) → ∀ z, (ps[i]).FeasibleRelaxed z →
        (ps[i]).value z ≤ (ps[i]).value (fun j => x (offset ps i + j)))
    (z : Vec) (hz : (blockSum ps).FeasibleRelaxed z) : (blockSum ps).value z ≤ (blockSum ps).value x := by
  rw [blockSum_value, blockSum_value]
  have hz' := (blockSum_feasible ps hwf z).mp hz
  apply sum_map_le
  intro i hi
  have hi' : i < ps.length := by simpa using hi
  have h2 : ps.getD i default = ps[i] := by
    simp [List.getD_eq_getElem?_getD, hi']
  rw [h2]
  exact hopt i hi' _ (hz' i hi')

/-! non-vacuity of `concatVec_block` / `blockSum_optimal`: the interval optima of `p1`, `p2` are
    `[0, 0]` (value 0) and `[2]` (value 6); their concatenation is optimal for the block sum -/
section Example
private def exW : Vec := concatVec [[0, 0], [2]]

example : exW (offset [p1, p2] 1 + 0) = 2 := by decide +kernel

private theorem exW_opt : ∀ i, (h : i < [p1, p2].length) → ∀ z, ([p1, p2][i]).FeasibleRelaxed z →
    ([p1, p2][i]).value z ≤ ([p1, p2][i]).value (fun j => exW (offset [p1, p2] i + j)) := by
  intro i hi z hz
  match i, hi with
  | 0, _ =>
    have hz : p1.FeasibleRelaxed z := hz
    have hv : p1.value (fun j => exW (offset [p1, p2] 0 + j)) = 0 := by decide +kernel
    have b0 : (0 : Rat) ≤ z 0 := (hz.1 0 (by decide)).1
    have b1 : (0 : Rat) ≤ z 1 := (hz.1 1 (by decide)).1
    show p1.value z ≤ p1.value (fun j => exW (offset [p1, p2] 0 + j))
    rw [hv]
    show - (1 * z 0 + (2 * z 1 + 0)) ≤ 0
    grind
  | 1, _ =>
    have hz : p2.FeasibleRelaxed z := hz
    have hv : p2.value (fun j => exW (offset [p1, p2] 1 + j)) = 6 := by decide +kernel
    have b0 : z 0 ≤ (2 : Rat) := (hz.1 0 (by decide)).2
    show p2.value z ≤ p2.value (fun j => exW (offset [p1, p2] 1 + j))
    rw [hv]
    show - (-3 * z 0 + 0) ≤ 6
    grind

example (z : Vec) (hz : (blockSum [p1, p2]).FeasibleRelaxed z) :
    (blockSum [p1, p2]).value z ≤ 6 := by
  have h := blockSum_optimal [p1, p2]
    (by intro p hp; simp at hp; rcases hp with rfl | rfl <;> exact ⟨rfl, rfl⟩) exW exW_opt z hz
  have hv : (blockSum [p1, p2]).value exW = 6 := by decide +kernel
  rwa [hv] at h
end Example

/-- robust target: the epigraph value is the minimum over the cost samples of `-c_s·x` -/
theorem robust_epigraph (samples : List (List Rat)) (x : Vec) (v : Rat)
    (h : robustObjective samples x = some v) :
    (∀ cs ∈ samples, v ≤ - costAt cs 0 x) ∧ ∃ cs ∈ samples, v = - costAt cs 0 x :=
  min?_map_spec (fun cs => - costAt cs 0 x) samples v h

example : robustObjective [[1, 2], [3, -1], [2, 2]] (fun j => [1, 1].getD j 0) = some (-4) := by
  decide +kernel
example : robustObjective [] (fun _ => 0) = none := rfl

end EAO.C03

namespace EAO.C03

/-- the feasibility version of a problem: same bounds and rows, zero objective -/
def zeroCost (P : Problem) : Problem := { P with c := P.c.map fun _ => 0 }

theorem costAt_zero (cs : List Rat) (off : Nat) (x : Vec) : costAt (cs.map fun _ => (0 : Rat)) off x = 0 := by
  induction cs generalizing off with
  | nil => simp [costAt]
  | cons c cs ih => simp [costAt, ih]; grind

/-- **Exact infeasibility certificate (Farkas).**  If some sign-correct multiplier vector makes the Lagrangian
    bound of the zero-objective problem negative, the problem has no point satisfying its bounds and rows —
    hence (a fortiori) no feasible point with the boolean flags.  The run evaluates the bound exactly over the
    rationals for the multipliers of a phase-1 LP, so "optimisation failed ⇒ infeasible" is certified per
    instance by this theorem, not by trust in a second solver. -/
theorem infeasible_of_negative_bound (P : Problem) (y : List Rat) (hwf : P.WFCols) (hy : SignOK P.rows y)
    (hneg : lagrangianUB (zeroCost P) y < 0) : ¬ ∃ x, P.FeasibleRelaxed x := by
  rintro ⟨x, hx⟩
  have hwf0 : (zeroCost P).WFCols := by
    unfold Problem.WFCols Problem.n zeroCost at *
    simpa using hwf
  have hx0 : (zeroCost P).FeasibleRelaxed x := hx
  have hb := EAO.C18.lagrangian_bound (zeroCost P) y hwf0 hy x hx0
  have hv : (zeroCost P).value x = 0 := by
    unfold Problem.value zeroCost
    simp [costAt_zero]
  rw [hv] at hb
  exact absurd hneg (by grind)

theorem infeasible_of_negative_bound_bool (P : Problem) (y : List Rat) (hwf : P.WFCols) (hy : SignOK P.rows y)
    (hneg : lagrangianUB (zeroCost P) y < 0) : ¬ ∃ x, P.Feasible x := by
  rintro ⟨x, hx⟩
  exact infeasible_of_negative_bound P y hwf hy hneg ⟨x, hx.1⟩

end EAO.C03
