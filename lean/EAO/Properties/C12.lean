import EAO.Lemmas.Contract
/-!
# C12 — time bookkeeping (builder side: contracts and transports)

* `limits_follow_dt` (+ `_transport`): the bounds of the dispatch variables are `rate_t · dt_t` with `dt_t` the
  length of step `t` of the asset's grid (in the two-variable form of a contract the pair of bounds splits that
  number into its negative and positive part), hence `limits_total`: `Σ_t bound_t = Σ_t rate_t · dt_t`, and for a
  constant rate `limits_total_const`: `= rate · Σ_t dt_t` — rate × elapsed time, whatever the step lengths
  (daylight-saving days, calendar months).
* `unit_change` (+ `_contract`, `_multi`, `_transport`, `_ext_transport`): re-expressing the problem for another
  main time unit — every step length multiplied by `k > 0`, every rate divided by `k`, the unit's length in seconds
  divided by `k` (take VOLUMES, prices, costs, efficiencies and discount factors untouched) — gives the SAME
  asset problem, not merely an equivalent one.  Rates given as a key into the price data are excluded here
  (the price data would have to be rescaled for exactly the keys used as rates); the real code is checked for that
  case by the harness' metamorphic oracle.
-/
namespace EAO.C12
open EAO

/-- per-step volume limits of a simple contract are rate × step length -/
theorem limits_follow_dt {p : ContractP} {g : Grid} {prices : Prices} {fullT : Nat} {P : AssetProblem}
    (hg : g.Ok) (h : buildSimpleContract p g prices fullT = .ok P) :
    ∃ lo hi : List Rat,
      baseVector p.minCap g prices none = .ok (lo.map some) ∧ lo.length = g.T ∧
      baseVector p.maxCap g prices none = .ok (hi.map some) ∧ hi.length = g.T ∧
      ((P.l = List.zipWith (· * ·) lo g.dt ∧ P.u = List.zipWith (· * ·) hi g.dt) ∨
       (P.l = (List.zipWith (· * ·) lo g.dt).map (rmin 0) ++ (List.zipWith (· * ·) lo g.dt).map (rmax 0) ∧
        P.u = (List.zipWith (· * ·) hi g.dt).map (rmin 0) ++ (List.zipWith (· * ·) hi g.dt).map (rmax 0))) := by
  obtain ⟨d, minO, maxO, ecO, _, hv, _, hmi, hma, _, rfl⟩ := buildSimpleContract_ok h
  obtain ⟨h1, h2, _, _⟩ := contractVectors_ok hv
  obtain ⟨lo, hlo, hlol, hlo'⟩ := capVector_eq hg h2 hmi
  obtain ⟨hi, hhi, hhil, hhi'⟩ := capVector_eq hg h1 hma
  refine ⟨lo, hi, hlo, hlol, hhi, hhil, ?_⟩
  split
  · exact Or.inl ⟨by simp [scOne, hlo'], by simp [scOne, hhi']⟩
  · exact Or.inr ⟨by simp [scTwo, hlo'], by simp [scTwo, hhi']⟩

/-- … so the limits add up to `Σ_t rate_t · dt_t` in both forms -/
theorem limits_total {p : ContractP} {g : Grid} {prices : Prices} {fullT : Nat} {P : AssetProblem}
    (hg : g.Ok) (h : buildSimpleContract p g prices fullT = .ok P) :
    ∃ lo hi : List Rat,
      baseVector p.minCap g prices none = .ok (lo.map some) ∧
      baseVector p.maxCap g prices none = .ok (hi.map some) ∧
      P.l.sum = (List.zipWith (· * ·) lo g.dt).sum ∧ P.u.sum = (List.zipWith (· * ·) hi g.dt).sum := by
  obtain ⟨lo, hi, h1, _, h2, _, h3⟩ := limits_follow_dt hg h
  refine ⟨lo, hi, h1, h2, ?_⟩
  rcases h3 with ⟨hl, hu⟩ | ⟨hl, hu⟩
  · rw [hl, hu]; exact ⟨rfl, rfl⟩
  · rw [hl, hu, sum_rmin_rmax, sum_rmin_rmax]; exact ⟨rfl, rfl⟩

/-- constant rates: total limit = rate × elapsed time, for any step lengths -/
theorem limits_total_const {p : ContractP} {g : Grid} {prices : Prices} {fullT : Nat} {P : AssetProblem}
    {rmin' rmax' : Rat} (hg : g.Ok) (hmin : p.minCap = .scalar rmin') (hmax : p.maxCap = .scalar rmax')
    (h : buildSimpleContract p g prices fullT = .ok P) :
    P.l.sum = rmin' * g.dt.sum ∧ P.u.sum = rmax' * g.dt.sum := by
  obtain ⟨d, minO, maxO, ecO, _, hv, _, hmi, hma, _, rfl⟩ := buildSimpleContract_ok h
  obtain ⟨h1, h2, _, _⟩ := contractVectors_ok hv
  rw [hmax] at h1
  rw [hmin] at h2
  have e1 := capVector_scalar hg h1 hma
  have e2 := capVector_scalar hg h2 hmi
  split
  · simp only [scOne, e1, e2, sum_map_mul_left, and_self]
  · simp only [scTwo, sum_rmin_rmax, e1, e2, sum_map_mul_left, and_self]

/-- the same holds with take restrictions and several commodities (they do not touch the bounds) -/
theorem limits_total_const_contract {p : ContractP} {g : Grid} {prices : Prices} {fullT u : Nat} {P : AssetProblem}
    {rmin' rmax' : Rat} (hg : g.Ok) (hmin : p.minCap = .scalar rmin') (hmax : p.maxCap = .scalar rmax')
    (h : buildContract p g prices fullT u = .ok P) :
    P.l.sum = rmin' * g.dt.sum ∧ P.u.sum = rmax' * g.dt.sum := by
  obtain ⟨a, ha, rfl⟩ := buildContract_ok h
  exact limits_total_const (P := a) hg hmin hmax ha

/-- transport: bounds are capacity × step length; totals = capacity × elapsed time -/
theorem limits_follow_dt_transport {p : TransportP} {g : Grid} {prices : Prices} {fullT : Nat} {P : AssetProblem}
    (h : buildTransport p g prices fullT = .ok P) :
    P.l = g.dt.map (p.minCap * ·) ∧ P.u = g.dt.map (p.maxCap * ·) ∧
    P.l.sum = p.minCap * g.dt.sum ∧ P.u.sum = p.maxCap * g.dt.sum := by
  obtain ⟨n0, n1, cts, _, _, _, _, rfl⟩ := buildTransport_ok h
  exact ⟨rfl, rfl, sum_map_mul_left _ _, sum_map_mul_left _ _⟩

theorem limits_follow_dt_ext_transport {p : TransportP} {g : Grid} {prices : Prices} {fullT u : Nat}
    {P : AssetProblem} (h : buildExtTransport p g prices fullT u = .ok P) :
    P.l = g.dt.map (p.minCap * ·) ∧ P.u = g.dt.map (p.maxCap * ·) ∧
    P.l.sum = p.minCap * g.dt.sum ∧ P.u.sum = p.maxCap * g.dt.sum := by
  obtain ⟨a, ha, rfl⟩ := buildExtTransport_ok h
  exact limits_follow_dt_transport (P := a) ha

/-- elapsed time in the new unit -/
theorem scaleDt_elapsed (k : Rat) (g : Grid) : (g.scaleDt k).dt.sum = g.dt.sum * k := by
  rw [scaleDt_dt, sum_map_mul_right]

/-! ### change of the main time unit -/

/-- scaling every `dt` by `k` and every rate by `1/k` gives the same problem -/
theorem unit_change {k : Rat} (hk : 0 < k) (p : ContractP) (hmin : p.minCap.isKey = false)
    (hmax : p.maxCap.isKey = false) (g : Grid) (prices : Prices) (fullT : Nat) :
    buildSimpleContract (p.rescale k) (g.scaleDt k) prices fullT = buildSimpleContract p g prices fullT :=
  simple_unit_change' hk p hmin hmax g prices fullT

/-- with take periods: the unit's length in seconds changes by the same factor (`u' · k = u`), the volumes do not -/
theorem unit_change_contract {k : Rat} (hk : 0 < k) {u u' : Nat} (hu : (u' : Rat) * k = (u : Rat))
    (p : ContractP) (hmin : p.minCap.isKey = false) (hmax : p.maxCap.isKey = false) (g : Grid)
    (prices : Prices) (fullT : Nat) :
    buildContract (p.rescale k) (g.scaleDt k) prices fullT u' = buildContract p g prices fullT u :=
  contract_unit_change' hk hu p hmin hmax g prices fullT

theorem unit_change_multi {k : Rat} (hk : 0 < k) {u u' : Nat} (hu : (u' : Rat) * k = (u : Rat))
    (p : ContractP) (factors : List Rat) (hmin : p.minCap.isKey = false) (hmax : p.maxCap.isKey = false) (g : Grid)
    (prices : Prices) (fullT : Nat) :
    buildMulti (p.rescale k) factors (g.scaleDt k) prices fullT u' = buildMulti p factors g prices fullT u :=
  multi_unit_change' hk hu p factors hmin hmax g prices fullT

theorem unit_change_transport {k : Rat} (hk : 0 < k) (p : TransportP) (g : Grid) (prices : Prices) (fullT : Nat) :
    buildTransport (p.rescale k) (g.scaleDt k) prices fullT = buildTransport p g prices fullT :=
  transport_unit_change' hk p g prices fullT

theorem unit_change_ext_transport {k : Rat} (hk : 0 < k) {u u' : Nat} (hu : (u' : Rat) * k = (u : Rat))
    (p : TransportP) (g : Grid) (prices : Prices) (fullT : Nat) :
    buildExtTransport (p.rescale k) (g.scaleDt k) prices fullT u' = buildExtTransport p g prices fullT u :=
  extTransport_unit_change' hk hu p g prices fullT

end EAO.C12

/-! ### non-vacuity: concrete instances (evaluated by the kernel) -/
namespace EAO.C12.Ex
open EAO

def p : ContractP :=
  { name := "c", nodes := ["n"], price := none, extraCosts := .scalar 1, minCap := .scalar (-2), maxCap := .scalar 3,
    minTake := [(0, 28800, 4)], maxTake := [] }   -- 8 h, of which the 4 h of the grid are covered

/-- unequal steps: 1 h and 3 h -/
def g2 : Grid := { pts := [0, 3600], idx := [0, 1], dt := [1, 3], Dt := [1, 4], df := [1, 1] }

-- unequal steps: limits 3·1 and 3·3, total 3 · 4 h
example : (match buildSimpleContract p g2 [] 2 with
    | .ok P => P.u == [0, 0, 3, 9] && P.u.sum == 3 * g2.dt.sum
    | .error _ => false) = true := by decide +kernel

-- hours -> days: k = 1/24, unit 3600 s -> 86400 s
example : ((86400 : Nat) : Rat) * (1 / 24) = ((3600 : Nat) : Rat) := by decide +kernel
example : p.minCap.isKey = false ∧ p.maxCap.isKey = false := by decide

-- the rescaled contract on the rescaled grid is literally the same problem (instance of `unit_change_contract`)
example : buildContract (p.rescale (1/24)) (g2.scaleDt (1/24)) [] 2 86400 = buildContract p g2 [] 2 3600 :=
  unit_change_contract (by decide +kernel) (by decide +kernel) p (by decide) (by decide) g2 [] 2
example : (match buildContract (p.rescale (1/24)) (g2.scaleDt (1/24)) [] 2 86400 with
    | .ok P => P.u == [0, 0, 3, 9] && P.rows.map (·.rhs) == [2]
    | .error _ => false) = true := by decide +kernel

end EAO.C12.Ex
