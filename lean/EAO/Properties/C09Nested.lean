import EAO.Model.Structured
import EAO.Model.Scaled
import EAO.Model.Linked
import EAO.Properties.C09
import EAO.Lemmas.NestedPerm
/-!
# C09 inside wrappers — names and order of the assets a wrapper contains

`EAO/Properties/C09.lean` proves the independence of names and order for the asset list of a portfolio.  A
`StructuredAsset` (`structured`), a `ScaledAsset` around it (`buildScaled`) and a `LinkedAsset` (`linkedAsset`)
contain asset lists / asset problems of their own.  Property theorems only; helper lemmas are in
`EAO/Lemmas/NestedPerm.lean` (namespace `EAO.NestedPerm`).

What the portfolio around a wrapper reads of the wrapper's problem is: cost, bounds, rows, the dispatch rows of
the mapping (variable, factor, step, node) — `C09.assemble_feasible_iff` —, i.e. the feasible set, the cost and
the flow `C09.flow` at every (node, step).  The theorems below are stated in these terms.
-/
namespace EAO.C09N
open EAO EAO.Perm EAO.NestedPerm EAO.C09

/-- `C09.WF` and `C09.Local` together are the lemma file's `Good` -/
theorem good_iff (gridI : List Nat) (a : AssetProblem) : Good gridI a ↔ WF gridI a ∧ Local a :=
  ⟨fun h => ⟨⟨h.len_l, h.len_u, h.disp⟩, ⟨h.cols, h.vars⟩⟩,
   fun h => ⟨h.1.len_l, h.1.len_u, h.1.disp, h.2.cols, h.2.vars⟩⟩

/-! ## what a structured asset shows to the portfolio around it -/

/-- the feasible points of a structured asset are those of the inner assembly (nodal rows of inner nodes as
    equalities), its cost vector is the inner one -/
theorem structured_feasible_iff (name : String) (ext : List String) (inner : List AssetProblem)
    (gridI : List Nat) (x : Vec) :
    ((structured name ext inner gridI).FeasibleRelaxed x ↔ (assemble inner gridI ext).FeasibleRelaxed x) ∧
    (structured name ext inner gridI).c = (assemble inner gridI ext).c :=
  ⟨structured_feasible name ext inner gridI x, rfl⟩

/-- the flow of a structured asset into node `n`: at an external node the sum of the flows of the inner assets
    (each from its own block), nothing at any other node — whatever the inner nodes are called, also when an
    external node is called `<name>_internal_<inner node>` (inner rows are typed 'i') -/
theorem structured_flow (name : String) (ext : List String) (inner : List AssetProblem) (gridI : List Nat)
    (n : String) (t : Nat) (x : Vec) :
    flow (structured name ext inner gridI) n t x =
      if ext.contains n then
        ((List.range inner.length).map fun i => flow (inner.getD i default) n t (block inner i x)).sum
      else 0 := by
  show flowOf _ n t x = _
  rw [flowOf_structured, totalFlow_assemble, ← sum_pieces (fun a y => flowOf a n t y)]
  rfl

/-- a structured asset of well-formed, local inner problems is well-formed and local (so the theorems of
    `C09.lean` apply to a portfolio that contains it, and to a wrapper that contains it) -/
theorem structured_wf_local (name : String) (ext : List String) (inner : List AssetProblem) (gridI : List Nat)
    (hwf : ∀ a ∈ inner, WF gridI a) (hloc : ∀ a ∈ inner, Local a) :
    WF gridI (structured name ext inner gridI) ∧ Local (structured name ext inner gridI) :=
  (good_iff _ _).mp (good_structured name ext inner gridI fun a ha => (good_iff _ _).mpr ⟨hwf a ha, hloc a ha⟩)

/-! ## order of the inner assets -/

/-- **permutation of the inner list**: for a permutation `inner'` of the list a structured asset wraps, every
    feasible point of the structured asset's problem can be rearranged block-wise into a feasible point of the
    problem built from `inner'` with the same cost, the same flow at EVERY (node, step) (in particular at the
    external nodes: same dispatch of the wrapper) and the same block for every inner asset.  By symmetry of
    `List.Perm` the two problems have the same optimal value (`structured_inner_perm_optimal`). -/
theorem structured_inner_perm (name : String) (ext : List String) (inner inner' : List AssetProblem)
    (hp : inner.Perm inner') (gridI : List Nat)
    (hwf : ∀ a ∈ inner, WF gridI a) (hloc : ∀ a ∈ inner, Local a)
    (x : Vec) (hx : (structured name ext inner gridI).FeasibleRelaxed x) :
    ∃ x' : Vec, (structured name ext inner' gridI).FeasibleRelaxed x' ∧
      costAt (structured name ext inner' gridI).c 0 x' = costAt (structured name ext inner gridI).c 0 x ∧
      (∀ n t, flow (structured name ext inner' gridI) n t x' = flow (structured name ext inner gridI) n t x) ∧
      ∃ π : Nat → Nat, ∀ i, i < inner.length → π i < inner'.length ∧
        inner'.getD (π i) default = inner.getD i default ∧
        ∀ j, j < (inner.getD i default).n → block inner' (π i) x' j = block inner i x j := by
  have hg : ∀ a ∈ inner, Good gridI a := fun a ha => (good_iff _ _).mpr ⟨hwf a ha, hloc a ha⟩
  obtain ⟨x', h1, h2, h3, π, hπ⟩ := perm_transport inner inner' hp gridI ext hg x
    ((structured_feasible name ext inner gridI x).mp hx)
  refine ⟨x', (structured_feasible name ext inner' gridI x').mpr h1, ?_, ?_, π, hπ⟩
  · rw [structured_c, structured_c]
    unfold Problem.value at h2
    grind
  · intro n t
    show flowOf _ n t x' = flowOf _ n t x
    rw [flowOf_structured, flowOf_structured, h3 n t]

/-- the rearranged point of an optimal point is optimal: the structured asset's own optimum (cost minimised over
    its feasible set) does not depend on the order of the inner list -/
theorem structured_inner_perm_optimal (name : String) (ext : List String) (inner inner' : List AssetProblem)
    (hp : inner.Perm inner') (gridI : List Nat)
    (hwf : ∀ a ∈ inner, WF gridI a) (hloc : ∀ a ∈ inner, Local a)
    (x : Vec) (hx : (structured name ext inner gridI).FeasibleRelaxed x)
    (hopt : ∀ y, (structured name ext inner gridI).FeasibleRelaxed y →
      costAt (structured name ext inner gridI).c 0 x ≤ costAt (structured name ext inner gridI).c 0 y) :
    ∃ x' : Vec, (structured name ext inner' gridI).FeasibleRelaxed x' ∧
      costAt (structured name ext inner' gridI).c 0 x' = costAt (structured name ext inner gridI).c 0 x ∧
      ∀ y', (structured name ext inner' gridI).FeasibleRelaxed y' →
        costAt (structured name ext inner' gridI).c 0 x' ≤ costAt (structured name ext inner' gridI).c 0 y' := by
  obtain ⟨x', h1, h2, _⟩ := structured_inner_perm name ext inner inner' hp gridI hwf hloc x hx
  refine ⟨x', h1, h2, ?_⟩
  intro y' hy'
  obtain ⟨y, hy1, hy2, _⟩ := structured_inner_perm name ext inner' inner hp.symm gridI
    (fun a ha => hwf a (hp.mem_iff.mpr ha)) (fun a ha => hloc a (hp.mem_iff.mpr ha)) y' hy'
  rw [h2, ← hy2]
  exact hopt y hy1

/-! `Sim a a'` (`EAO/Lemmas/NestedPerm.lean`): **correspondence of asset problems as a portfolio sees them** —
every feasible point of one has a feasible point of the other with the same cost and the same flow at every
(node, step), in both directions.  Reflexive, symmetric, transitive (`Sim.refl`, `Sim.symm`, `Sim.trans`). -/

/-- `structured_inner_perm` in terms of `Sim` -/
theorem structured_perm_sim (name : String) (ext : List String) (inner inner' : List AssetProblem)
    (hp : inner.Perm inner') (gridI : List Nat) (hwf : ∀ a ∈ inner, WF gridI a) (hloc : ∀ a ∈ inner, Local a) :
    Sim (structured name ext inner gridI) (structured name ext inner' gridI) := by
  have hg : ∀ a ∈ inner, Good gridI a := fun a ha => (good_iff _ _).mpr ⟨hwf a ha, hloc a ha⟩
  exact ⟨fwd_structured_perm name ext inner inner' hp gridI hg,
    fwd_structured_perm name ext inner' inner hp.symm gridI fun a ha => hg a (hp.mem_iff.mpr ha)⟩

/-- **wrappers in wrappers, the induction step**: replacing every inner asset problem by a corresponding one
    (for instance an inner structured asset by the one built from a permuted list — `structured_perm_sim` — or
    from corresponding problems — this theorem again) and permuting the list gives a corresponding structured
    asset.  `mid` is the permuted list, `inner'` its entry-wise replacement. -/
theorem nested_perm_step (name : String) (ext : List String) (inner mid inner' : List AssetProblem)
    (hp : inner.Perm mid) (hs : All2 Sim mid inner') (gridI : List Nat)
    (hwf : ∀ a ∈ inner, WF gridI a) (hloc : ∀ a ∈ inner, Local a)
    (hwf' : ∀ a ∈ inner', WF gridI a) (hloc' : ∀ a ∈ inner', Local a) :
    Sim (structured name ext inner gridI) (structured name ext inner' gridI) :=
  sim_structured_step name ext inner mid inner' hp hs gridI
    (fun a ha => (good_iff _ _).mpr ⟨hwf a ha, hloc a ha⟩) (fun a ha => (good_iff _ _).mpr ⟨hwf' a ha, hloc' a ha⟩)

/-- **wrappers in wrappers, any depth** (structural induction over object trees `PTree`: a finished asset problem
    or a structured asset around a list of object trees; `LPerm`: lists of trees equal up to the order of the
    wrapped lists at EVERY level): if all leaves are well-formed and local, the built problems correspond (`Sim`)
    entry by entry after a permutation of the top-level list — and the leaves of the other list are well-formed and
    local too, so the statement can be used in both directions and composed with `C09.assemble_perm` /
    `nested_perm_step` at the top level. -/
theorem nested_perm (gridI : List Nat) (ts ts' : List PTree) (h : LPerm ts ts') (hg : goodL gridI ts) :
    goodL gridI ts' ∧ ∃ mid, (buildL gridI ts).Perm mid ∧ All2 Sim mid (buildL gridI ts') :=
  lperm_sim gridI h hg

/-- one object tree: the two wrappers, lists permuted at every level below, correspond -/
theorem nested_perm_tree (gridI : List Nat) (t t' : PTree) (h : LPerm [t] [t']) (hg : t.good gridI) :
    Sim (t.build gridI) (t'.build gridI) := by
  obtain ⟨_, mid, hp, hs⟩ := lperm_sim gridI h (by rw [goodL, goodL]; exact ⟨hg, trivial⟩)
  rw [buildL, buildL] at hp hs
  have hmid : mid = [t.build gridI] := by
    have hl := hp.length_eq
    cases mid with
    | nil => simp at hl
    | cons m ms =>
      cases ms with
      | nil =>
        have : m ∈ [t.build gridI] := hp.mem_iff.mpr (by simp)
        simp only [List.mem_cons, List.not_mem_nil, or_false] at this
        rw [this]
      | cons _ _ => simp at hl
  subst hmid
  cases hs with
  | cons h1 _ => exact h1

/-! ## names -/

/-- **renaming, exact form**: with an injective renaming `ρn` of the nodes, any renaming `ρa` of the inner assets
    and any new name of the wrapper, the structured asset of the renamed inner problems has the numbers of the
    original one (cost, bounds, rows — hence the same feasible set and cost), the renamed external nodes, and the
    mapping rows of the inner assembly relabelled and wrapped under the new names. -/
theorem structured_rename (ρa ρn : String → String) (hn : ∀ a b, ρn a = ρn b → a = b) (name name' : String)
    (ext : List String) (inner : List AssetProblem) (gridI : List Nat) :
    structured name' (ext.map ρn) (inner.map (renameAsset ρa ρn)) gridI =
      { structured name ext inner gridI with
        name := name', nodes := ext.map ρn,
        mapping := (assemble inner gridI ext).mapping.map fun m =>
          structuredMapRow name' (ext.map ρn) { m with asset := ρa m.asset, node := m.node.map ρn } } := by
  have h := assemble_rename ρa ρn hn inner gridI ext
  unfold structured
  rw [h]
  simp only [renameProblem, List.map_map]
  rfl

/-- **renaming, as the portfolio around the wrapper sees it**: the structured asset of entry-wise relabelled
    inner problems (`AssetRel ρn`: same numbers, dispatch rows at the renamed nodes; asset names, variable names
    and the nodes of other rows are free — e.g. `renameAsset`, or again a wrapper of relabelled problems) is a
    relabelling of the original in the same sense, whatever the two wrapper names are.  The names `name`,
    `name'`, the inner asset names and the `<name>_internal_<node>` / `<var>__<asset>` labels do not enter. -/
theorem structured_rename_rel (ρn : String → String) (hn : ∀ a b, ρn a = ρn b → a = b) (name name' : String)
    (ext : List String) (inner inner' : List AssetProblem) (h : All2 (AssetRel ρn) inner inner') (gridI : List Nat) :
    AssetRel ρn (structured name ext inner gridI) (structured name' (ext.map ρn) inner' gridI) :=
  rel_structured ρn hn name name' ext h gridI

/-- `renameAsset` is such a relabelling -/
theorem rename_is_rel (ρa ρn : String → String) (inner : List AssetProblem) :
    All2 (AssetRel ρn) inner (inner.map (renameAsset ρa ρn)) :=
  All2.map_right _ _ _ fun a _ => rel_ren ρa ρn a

/-- what a relabelling keeps: the feasible set, the cost vector and the flow at every renamed (node, step) -/
theorem rel_same_results (ρn : String → String) (hn : ∀ a b, ρn a = ρn b → a = b) (a a' : AssetProblem)
    (h : AssetRel ρn a a') (y : Vec) :
    (a'.FeasibleRelaxed y ↔ a.FeasibleRelaxed y) ∧ a'.c = a.c ∧
    ∀ n t, flow a' (ρn n) t y = flow a n t y :=
  ⟨feasible_rel ρn a a' h y, h.c, fun n t => flowOf_rel ρn hn a a' h n t y⟩

/-- **scaled over anything relabelled**: a `ScaledAsset` with the same numbers (scales, norm, fix costs) — any name,
    any first node — over a relabelled base is the relabelled scaled asset -/
theorem scaled_rename (ρn : String → String) (p p' : ScaledP) (hmin : p'.minScale = p.minScale)
    (hmax : p'.maxScale = p.maxScale) (hnorm : p'.normScale = p.normScale) (hfix : p'.fixCosts = p.fixCosts)
    (b b' : AssetProblem) (h : AssetRel ρn b b') (dtSum : Rat) :
    AssetRel ρn (buildScaled p b dtSum) (buildScaled p' b' dtSum) :=
  rel_scaled ρn p p' hmin hmax hnorm hfix b b' h dtSum

/-- exact form for `renameAsset`: the scaled asset of the renamed base is the scaled asset with every mapping row
    relabelled (the scale row is written at the renamed first node) -/
theorem scaled_rename_exact (ρa ρn : String → String) (p : ScaledP) (b : AssetProblem) (dtSum : Rat)
    (hne : b.l.length ≠ 0) :
    buildScaled { p with name := ρa p.name, node0 := ρn p.node0 } (renameAsset ρa ρn b) dtSum =
      { buildScaled p b dtSum with
        name := ρa p.name, nodes := b.nodes.map ρn,
        mapping := (b.mapping.map fun m => { m with asset := ρa p.name, node := m.node.map ρn })
          ++ [scaleMapRow { p with name := ρa p.name, node0 := ρn p.node0 } b.l.length] } := by
  have hd : dispVars ((renameAsset ρa ρn b).mapping) = dispVars b.mapping := by
    unfold dispVars renameAsset
    simp only [List.filter_map, List.map_map]
    rfl
  unfold buildScaled
  have h1 : (renameAsset ρa ρn b).l.length ≠ 0 := hne
  rw [if_neg hne, if_neg h1]
  unfold buildScaledCore
  rw [hd]
  simp only [renameAsset, List.map_map]
  rfl

/-- **the portfolio around relabelled wrappers** (generalises `C09.assemble_rename` to entry-wise relabelled
    asset problems, e.g. wrappers of renamed inner assets): same cost, bounds and rows, the nodal record renamed,
    the mapping rows related row by row -/
theorem assemble_relabel (ρn : String → String) (hn : ∀ a b, ρn a = ρn b → a = b)
    (as as' : List AssetProblem) (h : All2 (AssetRel ρn) as as') (gridI : List Nat) (skip : List String) :
    (assemble as' gridI (skip.map ρn)).c = (assemble as gridI skip).c ∧
    (assemble as' gridI (skip.map ρn)).l = (assemble as gridI skip).l ∧
    (assemble as' gridI (skip.map ρn)).u = (assemble as gridI skip).u ∧
    (assemble as' gridI (skip.map ρn)).rows = (assemble as gridI skip).rows ∧
    (assemble as' gridI (skip.map ρn)).nodal = (assemble as gridI skip).nodal.map (fun p => (p.1, ρn p.2)) ∧
    All2 (RowRel ρn) (assemble as gridI skip).mapping (assemble as' gridI (skip.map ρn)).mapping :=
  assemble_rel ρn hn h gridI skip

/-! ## the labels a structured asset writes, and when they collide -/

/-- the three labels of a wrapped row -/
theorem structured_labels (name : String) (ext : List String) (m : MapRow) :
    (structuredMapRow name ext m).node = m.node.map (outNode name ext) ∧
    (structuredMapRow name ext m).varName = outVar m.varName m.asset ∧
    (structuredMapRow name ext m).asset = name :=
  structuredMapRow_labels name ext m

/-- **exact condition for the node labels** `<name>_internal_<node>`: the labelling is injective on the nodes of
    the inner portfolio iff no external node is called `<name>_internal_<nd>` for an inner, non-external `nd` -/
theorem node_labels_injective_iff (name : String) (ext nodes : List String) (hsub : ∀ e ∈ ext, e ∈ nodes) :
    (∀ a ∈ nodes, ∀ b ∈ nodes, outNode name ext a = outNode name ext b → a = b) ↔ NoClash name ext nodes :=
  outNode_inj_iff name ext nodes hsub

/-- collision witness for the node labels: wrapper `"S"`, external node `"S_internal_a"`, inner node `"a"` —
    two different nodes, one label (the flows are not affected: `structured_flow`) -/
theorem node_label_collision :
    outNode "S" ["S_internal_a"] "a" = outNode "S" ["S_internal_a"] "S_internal_a" ∧
    ¬ NoClash "S" ["S_internal_a"] ["a", "S_internal_a"] := by
  refine ⟨by decide, ?_⟩
  intro h
  exact h "S_internal_a" (by simp) "a" (by simp) (by decide) (by decide)

/-- **sufficient condition for the variable names** `<var>__<asset>`: inner asset names without an underscore
    can be read off the written name, so the written names of two (variable, asset) pairs agree only if the pairs
    do; an unnamed variable ("nan") never carries a written name -/
theorem var_labels_injective (v v' a a' : String) (ha : '_' ∉ a.toList) (ha' : '_' ∉ a'.toList)
    (h : v ++ "__" ++ a = v' ++ "__" ++ a') : v = v' ∧ a = a' :=
  suffix_inj v v' a a' ha ha' h

theorem var_label_not_nan (v a : String) : "nan" ≠ v ++ "__" ++ a := nan_ne_written v a

/-- **collision witness for the variable names** (the condition is needed): a structured asset `"b"` wrapping a
    plant `"a"` writes `bool_on__a`; a structure around `"b"` and a plant called `"a__b"` writes the SAME name
    `bool_on__a__b` for the two different variables, and a link to `bool_on` of `"a__b"` (`findVars`, the look-up
    of `LinkedAsset`) finds both.  After renaming `"a__b"` to `"c"` — an injective renaming — it finds one.
    Also names that only START with an underscore collide: (`x_`, `_y`) and (`x__`, `y`). -/
theorem var_label_collision :
    let inA : MapRow := ⟨0, "a", none, .i, 0, 1, true, "bool_on"⟩
    let wrapB := structuredMapRow "b" [] inA
    let sib (nm : String) : MapRow := ⟨1, nm, none, .i, 0, 1, true, "bool_on"⟩
    let M (nm : String) := [structuredMapRow "L" ["N"] wrapB, structuredMapRow "L" ["N"] (sib nm)]
    wrapB.varName = "bool_on__a" ∧
    findVars (M "a__b") ("bool_on" ++ "__" ++ "a__b") none 0 = [0, 1] ∧
    findVars (M "c") ("bool_on" ++ "__" ++ "c") none 0 = [1] ∧
    outVar "x_" "_y" = outVar "x__" "y" := by
  decide

/-! ## Concrete instances (non-vacuity)

Inner portfolio on the grid `[0,1]`: a supplier `"1"` at the inner node `"a"` (both steps, one asset row), a
transport `"11"` from `"a"` to the external node `"N"` (two mapping rows per variable), a consumer `"2"` at `"a"`
(step 0).  The names `"1"` and `"11"` are prefix-related on purpose.  The wrapper is called `"S"`. -/

def in1 : AssetProblem :=
  { name := "1", nodes := ["a"], c := [2, 0], l := [0, 0], u := [5, 5],
    rows := [⟨[(0, 1), (1, 1)], 6, .U⟩],
    mapping := [⟨0, "1", some "a", .d, 0, 1, false, "disp"⟩, ⟨1, "1", some "a", .d, 1, 1, false, "disp"⟩] }
def inT : AssetProblem :=
  { name := "11", nodes := ["a", "N"], c := [0, 0], l := [0, 0], u := [4, 4], rows := [],
    mapping := [⟨0, "11", some "a", .d, 0, -1, false, "disp"⟩, ⟨0, "11", some "N", .d, 0, 1, false, "disp"⟩,
                ⟨1, "11", some "a", .d, 1, -1, false, "disp"⟩, ⟨1, "11", some "N", .d, 1, 1, false, "disp"⟩] }
def in2 : AssetProblem :=
  { name := "2", nodes := ["a"], c := [-3], l := [-4], u := [0], rows := [],
    mapping := [⟨0, "2", some "a", .d, 0, 1, false, "disp"⟩] }

/-- a feasible point of `structured "S" ["N"] [in1, inT, in2]` -/
def inX : Vec := fun j => [3, 2, 1, 2, -2].getD j 0

theorem inWF : ∀ a ∈ [in1, inT, in2], WF [0, 1] a := by
  intro a ha
  simp only [List.mem_cons, List.not_mem_nil, or_false] at ha
  rcases ha with rfl | rfl | rfl
  · refine ⟨by decide, by decide, ?_⟩
    intro m hm n hk hn
    simp only [in1, List.mem_cons, List.not_mem_nil, or_false] at hm
    rcases hm with rfl | rfl <;> simp at hn <;> subst hn <;> simp [in1]
  · refine ⟨by decide, by decide, ?_⟩
    intro m hm n hk hn
    simp only [inT, List.mem_cons, List.not_mem_nil, or_false] at hm
    rcases hm with rfl | rfl | rfl | rfl <;> simp at hn <;> subst hn <;> simp [inT]
  · refine ⟨by decide, by decide, ?_⟩
    intro m hm n hk hn
    simp only [in2, List.mem_cons, List.not_mem_nil, or_false] at hm
    rcases hm with rfl <;> simp at hn <;> subst hn <;> simp [in2]

theorem inLocal : ∀ a ∈ [in1, inT, in2], Local a := by
  intro a ha
  simp only [List.mem_cons, List.not_mem_nil, or_false] at ha
  rcases ha with rfl | rfl | rfl <;> exact ⟨by decide +kernel, by decide⟩

theorem inFeasible : (structured "S" ["N"] [in1, inT, in2] [0, 1]).FeasibleRelaxed inX := by decide +kernel

theorem inSwap : [in1, inT, in2].Perm [inT, in1, in2] := List.Perm.swap inT in1 [in2]
theorem inRot : [in1, inT, in2].Perm [in2, in1, inT] :=
  ((List.Perm.swap in2 inT []).cons in1).trans (List.Perm.swap in2 in1 [inT])

example := structured_inner_perm "S" ["N"] _ _ inSwap [0, 1] inWF inLocal inX inFeasible
example := structured_inner_perm "S" ["N"] _ _ inRot [0, 1] inWF inLocal inX inFeasible
example := structured_perm_sim "S" ["N"] _ _ inRot [0, 1] inWF inLocal
example := structured_wf_local "S" ["N"] _ [0, 1] inWF inLocal

/-- the rearranged points explicitly: feasible, same cost, same flow into the external node -/
example :
    (structured "S" ["N"] [inT, in1, in2] [0, 1]).FeasibleRelaxed (fun j => [1, 2, 3, 2, -2].getD j 0) ∧
    (structured "S" ["N"] [in2, in1, inT] [0, 1]).FeasibleRelaxed (fun j => [-2, 3, 2, 1, 2].getD j 0) ∧
    costAt (structured "S" ["N"] [in1, inT, in2] [0, 1]).c 0 inX = 12 ∧
    costAt (structured "S" ["N"] [in2, in1, inT] [0, 1]).c 0 (fun j => [-2, 3, 2, 1, 2].getD j 0) = 12 ∧
    flow (structured "S" ["N"] [in1, inT, in2] [0, 1]) "N" 1 inX = 2 ∧
    flow (structured "S" ["N"] [in2, in1, inT] [0, 1]) "N" 1 (fun j => [-2, 3, 2, 1, 2].getD j 0) = 2 ∧
    flow (structured "S" ["N"] [in1, inT, in2] [0, 1]) "S_internal_a" 0 inX = 0 := by
  decide +kernel

/-- the labels the wrapper writes: all rows under `"S"`, the inner node as `"S_internal_a"` with type 'i', the
    variable names with the inner asset's name -/
example :
    (structured "S" ["N"] [in1, inT, in2] [0, 1]).mapping.map (fun m => (m.asset, m.node, m.kind, m.varName)) =
      [("S", some "S_internal_a", .i, "disp__1"), ("S", some "S_internal_a", .i, "disp__1"),
       ("S", some "S_internal_a", .i, "disp__11"), ("S", some "N", .d, "disp__11"),
       ("S", some "S_internal_a", .i, "disp__11"), ("S", some "N", .d, "disp__11"),
       ("S", some "S_internal_a", .i, "disp__2")] := by
  decide +kernel

/-- renaming by prefixing: inner asset `"1"` becomes `"11"` (the old name of another inner asset), node `"a"`
    becomes `"Na"`, `"N"` becomes `"NN"`, the wrapper `"S"` becomes `"S_internal"` -/
example := structured_rename ("1" ++ ·) ("N" ++ ·) (prefix_inj "N") "S" "S_internal" ["N"] [in1, inT, in2] [0, 1]
example := structured_rename_rel ("N" ++ ·) (prefix_inj "N") "S" "S_internal" ["N"] _ _
  (rename_is_rel ("1" ++ ·) ("N" ++ ·) [in1, inT, in2]) [0, 1]
example := rel_same_results ("N" ++ ·) (prefix_inj "N") _ _
  (structured_rename_rel ("N" ++ ·) (prefix_inj "N") "S" "S_internal" ["N"] _ _
    (rename_is_rel ("1" ++ ·) ("N" ++ ·) [in1, inT, in2]) [0, 1]) inX

/-- the renamed wrapper evaluated: same numbers, new labels, same flow at the renamed external node -/
example :
    let S' := structured "S_internal" ["NN"] ([in1, inT, in2].map (renameAsset ("1" ++ ·) ("N" ++ ·))) [0, 1]
    S'.c = (structured "S" ["N"] [in1, inT, in2] [0, 1]).c ∧
    S'.rows.length = 3 ∧
    (S'.mapping.map (fun m => (m.node, m.varName))).eraseDups =
      [(some "S_internal_internal_Na", "disp__11"), (some "S_internal_internal_Na", "disp__111"),
       (some "NN", "disp__111"), (some "S_internal_internal_Na", "disp__12")] ∧
    flow S' "NN" 1 inX = 2 := by
  decide +kernel

/-- a wrapper in a wrapper: the structure `"S"` and a consumer at `"N"` inside a structure `"T"` with external
    node `"N"`; the inner-inner list rotated and the outer list swapped -/
def outC : AssetProblem :=
  { name := "c", nodes := ["N"], c := [-1], l := [-9], u := [0], rows := [],
    mapping := [⟨0, "c", some "N", .d, 0, 1, false, "disp"⟩] }

theorem outCWF : WF [0, 1] outC ∧ Local outC := by
  refine ⟨⟨by decide, by decide, ?_⟩, ⟨by decide +kernel, by decide⟩⟩
  intro m hm n hk hn
  simp only [outC, List.mem_cons, List.not_mem_nil, or_false] at hm
  rcases hm with rfl <;> simp at hn <;> subst hn <;> simp [outC]

example : Sim (structured "T" ["N"] [structured "S" ["N"] [in1, inT, in2] [0, 1], outC] [0, 1])
    (structured "T" ["N"] [outC, structured "S" ["N"] [in2, in1, inT] [0, 1]] [0, 1]) := by
  have hS := structured_wf_local "S" ["N"] [in1, inT, in2] [0, 1] inWF inLocal
  have hS' := structured_wf_local "S" ["N"] [in2, in1, inT] [0, 1]
    (fun a ha => inWF a (inRot.mem_iff.mpr ha)) (fun a ha => inLocal a (inRot.mem_iff.mpr ha))
  refine nested_perm_step "T" ["N"] _ [outC, structured "S" ["N"] [in1, inT, in2] [0, 1]] _
    (List.Perm.swap _ _ []) (.cons (Sim.refl _) (.cons (structured_perm_sim "S" ["N"] _ _ inRot [0, 1] inWF inLocal) .nil))
    [0, 1] ?_ ?_ ?_ ?_
  · intro a ha
    simp only [List.mem_cons, List.not_mem_nil, or_false] at ha
    rcases ha with rfl | rfl
    · exact hS.1
    · exact outCWF.1
  · intro a ha
    simp only [List.mem_cons, List.not_mem_nil, or_false] at ha
    rcases ha with rfl | rfl
    · exact hS.2
    · exact outCWF.2
  · intro a ha
    simp only [List.mem_cons, List.not_mem_nil, or_false] at ha
    rcases ha with rfl | rfl
    · exact outCWF.1
    · exact hS'.1
  · intro a ha
    simp only [List.mem_cons, List.not_mem_nil, or_false] at ha
    rcases ha with rfl | rfl
    · exact outCWF.2
    · exact hS'.2

/-- the same as object trees: lists permuted at both levels -/
def exT : PTree := .node "T" ["N"] [.node "S" ["N"] [.leaf in1, .leaf inT, .leaf in2], .leaf outC]
def exT' : PTree := .node "T" ["N"] [.leaf outC, .node "S" ["N"] [.leaf in2, .leaf in1, .leaf inT]]

theorem exLPerm : LPerm [exT] [exT'] :=
  .node "T" ["N"]
    (.trans
      (.node "S" ["N"] (.trans (.leaf in1 (.swap (.leaf inT) (.leaf in2) [])) (.swap (.leaf in1) (.leaf in2) [.leaf inT]))
        (.leaf outC .nil))
      (.swap _ (.leaf outC) []))
    .nil

theorem exTGood : exT.good [0, 1] := by
  simp only [exT, PTree.good, goodL, and_true]
  exact ⟨⟨(good_iff _ _).mpr ⟨inWF in1 (by simp), inLocal in1 (by simp)⟩,
    (good_iff _ _).mpr ⟨inWF inT (by simp), inLocal inT (by simp)⟩,
    (good_iff _ _).mpr ⟨inWF in2 (by simp), inLocal in2 (by simp)⟩⟩, (good_iff _ _).mpr outCWF⟩

example := nested_perm_tree [0, 1] exT exT' exLPerm exTGood
example : exT.build [0, 1] = structured "T" ["N"] [structured "S" ["N"] [in1, inT, in2] [0, 1], outC] [0, 1] ∧
    exT'.build [0, 1] = structured "T" ["N"] [outC, structured "S" ["N"] [in2, in1, inT] [0, 1]] [0, 1] := by
  simp [exT, exT', PTree.build, buildL]

/-- a scaled asset over the structure, and over the renamed structure -/
def exP : ScaledP := { name := "sc", node0 := "N", minScale := 0, maxScale := 2, normScale := 1, fixCosts := 3 }

example := scaled_rename ("N" ++ ·) exP { exP with name := "sc2", node0 := "NN" } rfl rfl rfl rfl _ _
  (structured_rename_rel ("N" ++ ·) (prefix_inj "N") "S" "S_internal" ["N"] _ _
    (rename_is_rel ("1" ++ ·) ("N" ++ ·) [in1, inT, in2]) [0, 1]) 2
example := scaled_rename_exact ("1" ++ ·) ("N" ++ ·) exP in1 2 (by decide)
example : (buildScaled exP (structured "S" ["N"] [in1, inT, in2] [0, 1]) 2).c = [2, 0, 0, 0, -3, 6] ∧
    (buildScaled { exP with name := "sc2", node0 := "NN" }
      (structured "S_internal" ["NN"] ([in1, inT, in2].map (renameAsset ("1" ++ ·) ("N" ++ ·))) [0, 1]) 2).rows.map
        (fun r => (r.coeffs, r.rhs))
    = (buildScaled exP (structured "S" ["N"] [in1, inT, in2] [0, 1]) 2).rows.map (fun r => (r.coeffs, r.rhs)) := by
  decide +kernel

/-- the portfolio around the relabelled wrapper -/
example := assemble_relabel ("N" ++ ·) (prefix_inj "N") _ _
  (.cons (structured_rename_rel ("N" ++ ·) (prefix_inj "N") "S" "S_internal" ["N"] _ _
      (rename_is_rel ("1" ++ ·) ("N" ++ ·) [in1, inT, in2]) [0, 1])
    (.cons (rel_ren ("1" ++ ·) ("N" ++ ·) outC) .nil)) [0, 1] []

example := var_labels_injective "bool_on" "disp" "a" "b" (by decide) (by decide)
example := (node_labels_injective_iff "S" ["N"] ["a", "N"] (by simp)).mpr (by
  intro e he nd hnd hne
  simp only [List.mem_cons, List.not_mem_nil, or_false] at he hnd
  subst he
  rcases hnd with rfl | rfl
  · decide
  · exact absurd (by simp) hne)

end EAO.C09N
