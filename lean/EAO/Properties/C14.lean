import EAO.Model.Split
import EAO.Lemmas.Split
import EAO.Properties.C03
/-!
# C14 — split optimisation is consistent with the unsplit problem: the per-instance certificate

`EAO.C03` proves that `SplitOptimProblem.optimize` solves the block-diagonal sum of the interval problems
(`blockSum_feasible`, `blockSum_value`, `blockSum_optimal`, `concatVec_block`).  This file relates that block
sum to the UNSPLIT problem of the same portfolio: `splitWitness U ps perm` is a decidable statement about the
three concrete objects the real code produced (the unsplit problem `U`, the interval problems `ps`, the
matching `perm` of the variables read off the two mappings); the compiled driver evaluates it exactly on every
generated case, and the theorems below say what a true witness means:

* `split_witness_feasible` / `split_witness_pullback` — the two problems have the same feasible set and the same
  objective, up to the renaming of the variables;
* `split_upper_bounds` — hence the same upper bounds of their value sets (the same optimal value, no existence of
  optima assumed);
* `split_optimum_is_unsplit_optimum` — an optimal point of the block sum, transported, is an optimal point of `U`
  (also with boolean variables);
* `split_equals_unsplit` (LP / relaxed) and `split_equals_unsplit_bool` (with the boolean flags) — interval-wise
  optima, concatenated as `np.hstack` does and transported, are an optimal point of `U` whose value is the sum of
  the interval optima: split optimum = unsplit optimum, value AND dispatch.

What is certified per instance is the relation between the PROBLEMS; that the numerical solver returns optima of
the interval problems is certified separately (`EAO.C18.lagrangian_bound`).
-/
namespace EAO.C14
open EAO EAO.Split

/-- the content of a true witness -/
theorem witness_parts (U : Problem) (ps : List Problem) (perm : List Nat)
    (h : splitWitness U ps perm = true) :
    WfIdx U ∧ (∀ p ∈ ps, WfIdx p) ∧ IsPerm perm U.n ∧ Same (U.renameAlong perm) (blockSum ps) := by
  unfold splitWitness at h
  simp only [Bool.and_eq_true, List.all_eq_true] at h
  obtain ⟨⟨⟨h1, h2⟩, h3⟩, h4⟩ := h
  exact ⟨wfIdx_spec U h1, fun p hp => wfIdx_spec p (h2 p hp), isPermOf_spec perm U.n h3,
    sameProblem_spec _ _ h4⟩

/-- **The witness identifies the two problems.**  Under a true witness a point `x` of the block sum of the
    interval problems is feasible iff the transported point (`y (perm[j]) = x j`) is feasible for the unsplit
    problem — with and without the integrality conditions — and the two objective values agree. -/
theorem split_witness_feasible (U : Problem) (ps : List Problem) (perm : List Nat)
    (h : splitWitness U ps perm = true) (x : Vec) :
    ((blockSum ps).Feasible x ↔ U.Feasible (transportAlong perm x)) ∧
    ((blockSum ps).FeasibleRelaxed x ↔ U.FeasibleRelaxed (transportAlong perm x)) ∧
    (blockSum ps).value x = U.value (transportAlong perm x) := by
  obtain ⟨hw, _, hp, hs⟩ := witness_parts U ps perm h
  refine ⟨?_, ?_, ?_⟩
  · rw [← hs.feasible x, renameAlong_feasible U hp hw x]
  · rw [← hs.relaxed x, renameAlong_relaxed U hp hw.l x]
  · rw [← hs.value x, renameAlong_value U hp x]

/-- the same identification read from the unsplit side: every point `y` of the unsplit problem is feasible iff its
    pull-back (`x j = y (perm[j])`) is feasible for the block sum, with the same value — so NO feasible point of
    the unsplit problem is lost by splitting -/
theorem split_witness_pullback (U : Problem) (ps : List Problem) (perm : List Nat)
    (h : splitWitness U ps perm = true) (y : Vec) :
    (U.Feasible y ↔ (blockSum ps).Feasible (pullbackAlong perm y)) ∧
    (U.FeasibleRelaxed y ↔ (blockSum ps).FeasibleRelaxed (pullbackAlong perm y)) ∧
    U.value y = (blockSum ps).value (pullbackAlong perm y) := by
  obtain ⟨hw, _, hp, _⟩ := witness_parts U ps perm h
  obtain ⟨h1, h2, h3⟩ := split_witness_feasible U ps perm h (pullbackAlong perm y)
  have hag : ∀ i, i < U.n → transportAlong perm (pullbackAlong perm y) i = y i :=
    fun i hi => hp.transport_pullback y i hi
  have hag' : ∀ i, i < U.n → y i = transportAlong perm (pullbackAlong perm y) i := fun i hi => (hag i hi).symm
  refine ⟨?_, ?_, ?_⟩
  · rw [h1]
    exact ⟨hw.feasible_congr _ _ hag', hw.feasible_congr _ _ hag⟩
  · rw [h2]
    exact ⟨hw.relaxed_congr _ _ hag', hw.relaxed_congr _ _ hag⟩
  · rw [h3]
    exact value_congr U _ _ hag'

/-- **Same optimal value** (stated with upper bounds, no existence of optima assumed): under a true witness a
    number bounds the values of the unsplit problem iff it bounds the values of the block sum of the interval
    problems. -/
theorem split_upper_bounds (U : Problem) (ps : List Problem) (perm : List Nat)
    (h : splitWitness U ps perm = true) (B : Rat) :
    (∀ y, U.Feasible y → U.value y ≤ B) ↔ (∀ x, (blockSum ps).Feasible x → (blockSum ps).value x ≤ B) := by
  constructor
  · intro hU x hx
    obtain ⟨h1, _, h3⟩ := split_witness_feasible U ps perm h x
    rw [h3]
    exact hU _ (h1.mp hx)
  · intro hB y hy
    obtain ⟨h1, _, h3⟩ := split_witness_pullback U ps perm h y
    rw [h3]
    exact hB _ (h1.mp hy)

/-- the same for the relaxations (the LP case) -/
theorem split_upper_bounds_relaxed (U : Problem) (ps : List Problem) (perm : List Nat)
    (h : splitWitness U ps perm = true) (B : Rat) :
    (∀ y, U.FeasibleRelaxed y → U.value y ≤ B) ↔
      (∀ x, (blockSum ps).FeasibleRelaxed x → (blockSum ps).value x ≤ B) := by
  constructor
  · intro hU x hx
    obtain ⟨_, h2, h3⟩ := split_witness_feasible U ps perm h x
    rw [h3]
    exact hU _ (h2.mp hx)
  · intro hB y hy
    obtain ⟨_, h2, h3⟩ := split_witness_pullback U ps perm h y
    rw [h3]
    exact hB _ (h2.mp hy)

/-- **Same optimal points**: an optimal point of the block sum, transported, is an optimal point of the unsplit
    problem, with the same value (integrality conditions included). -/
theorem split_optimum_is_unsplit_optimum (U : Problem) (ps : List Problem) (perm : List Nat)
    (h : splitWitness U ps perm = true) (x : Vec) (hx : (blockSum ps).Feasible x)
    (hopt : ∀ z, (blockSum ps).Feasible z → (blockSum ps).value z ≤ (blockSum ps).value x) :
    U.Feasible (transportAlong perm x) ∧
    (∀ y, U.Feasible y → U.value y ≤ U.value (transportAlong perm x)) ∧
    U.value (transportAlong perm x) = (blockSum ps).value x := by
  obtain ⟨h1, _, h3⟩ := split_witness_feasible U ps perm h x
  refine ⟨h1.mp hx, ?_, h3.symm⟩
  rw [← h3]
  exact (split_upper_bounds U ps perm h _).mpr hopt

theorem split_optimum_is_unsplit_optimum_relaxed (U : Problem) (ps : List Problem) (perm : List Nat)
    (h : splitWitness U ps perm = true) (x : Vec) (hx : (blockSum ps).FeasibleRelaxed x)
    (hopt : ∀ z, (blockSum ps).FeasibleRelaxed z → (blockSum ps).value z ≤ (blockSum ps).value x) :
    U.FeasibleRelaxed (transportAlong perm x) ∧
    (∀ y, U.FeasibleRelaxed y → U.value y ≤ U.value (transportAlong perm x)) ∧
    U.value (transportAlong perm x) = (blockSum ps).value x := by
  obtain ⟨_, h2, h3⟩ := split_witness_feasible U ps perm h x
  refine ⟨h2.mp hx, ?_, h3.symm⟩
  rw [← h3]
  exact (split_upper_bounds_relaxed U ps perm h _).mpr hopt

/-- an interval solution (a list of numbers) as a point -/
def vecOfList (xs : List Rat) : Vec := fun j => xs.getD j 0

/-- the concatenation read on block `i` is the `i`-th interval solution -/
theorem concat_slice (ps : List Problem) (xs : List (List Rat)) (hlen : xs.length = ps.length)
    (hn : ∀ i, (h : i < ps.length) → (xs.getD i []).length = (ps[i]).n) (i : Nat) (hi : i < ps.length) :
    ∀ j, j < (ps[i]).n →
      vecOfList (xs.getD i []) j = (fun j => concatVec xs (C03.offset ps i + j)) j :=
  fun j hj => (C03.concatVec_block ps xs hlen hn i hi j hj).symm

/-- **Split optimum = unsplit optimum (value and dispatch), LP case.**  Under a true witness: if every interval
    solution `xs[i]` is feasible and optimal for its interval problem `ps[i]`, then the concatenation of the
    interval solutions (`np.hstack`), transported along the matching of the variables, is a feasible and OPTIMAL
    point of the unsplit problem, and its value — the optimal value of the unsplit problem — is the sum of the
    interval optima. -/
theorem split_equals_unsplit (U : Problem) (ps : List Problem) (perm : List Nat)
    (h : splitWitness U ps perm = true) (xs : List (List Rat)) (hlen : xs.length = ps.length)
    (hn : ∀ i, (h : i < ps.length) → (xs.getD i []).length = (ps[i]).n)
    (hfeas : ∀ i, (h : i < ps.length) → (ps[i]).FeasibleRelaxed (vecOfList (xs.getD i [])))
    (hopt : ∀ i, (h : i < ps.length) → ∀ z, (ps[i]).FeasibleRelaxed z →
        (ps[i]).value z ≤ (ps[i]).value (vecOfList (xs.getD i []))) :
    U.FeasibleRelaxed (transportAlong perm (concatVec xs)) ∧
    (∀ y, U.FeasibleRelaxed y → U.value y ≤ U.value (transportAlong perm (concatVec xs))) ∧
    U.value (transportAlong perm (concatVec xs)) =
      ((List.range ps.length).map fun i => (ps.getD i default).value (vecOfList (xs.getD i []))).sum := by
  obtain ⟨_, hwp, _, _⟩ := witness_parts U ps perm h
  have hbw : ∀ p ∈ ps, C03.BoundsWF p := fun p hp => ⟨(hwp p hp).l, (hwp p hp).u⟩
  have hsl := concat_slice ps xs hlen hn
  have hval : ∀ i, (hi : i < ps.length) →
      (ps[i]).value (fun j => concatVec xs (C03.offset ps i + j)) = (ps[i]).value (vecOfList (xs.getD i [])) :=
    fun i hi => (value_congr (ps[i]) _ _ (hsl i hi)).symm
  have hxB : (blockSum ps).FeasibleRelaxed (concatVec xs) := by
    rw [C03.blockSum_feasible ps hbw]
    intro i hi
    exact (hwp _ (List.getElem_mem hi)).relaxed_congr _ _ (hsl i hi) (hfeas i hi)
  have hoptB : ∀ z, (blockSum ps).FeasibleRelaxed z → (blockSum ps).value z ≤ (blockSum ps).value (concatVec xs) :=
    C03.blockSum_optimal ps hbw (concatVec xs) (fun i hi z hz => by rw [hval i hi]; exact hopt i hi z hz)
  obtain ⟨g1, g2, g3⟩ := split_optimum_is_unsplit_optimum_relaxed U ps perm h (concatVec xs) hxB hoptB
  refine ⟨g1, g2, ?_⟩
  rw [g3, C03.blockSum_value]
  congr 1
  apply List.map_congr_left
  intro i hi
  have hi' : i < ps.length := by simpa using hi
  have h2 : ps.getD i default = ps[i] := by simp [List.getD_eq_getElem?_getD, hi']
  rw [h2]
  exact hval i hi'

/-! ### with boolean variables -/

/-- feasibility of the block sum INCLUDING the integrality conditions = feasibility of every block on its slice
    (`EAO.C03.blockSum_feasible` is the relaxed part) -/
theorem blockSum_feasible_bool (ps : List Problem) (hw : ∀ p ∈ ps, WfIdx p) (x : Vec) :
    (blockSum ps).Feasible x ↔
      ∀ i, (h : i < ps.length) → (ps[i]).Feasible (fun j => x (C03.offset ps i + j)) := by
  have hbw : ∀ p ∈ ps, C03.BoundsWF p := fun p hp => ⟨(hw p hp).l, (hw p hp).u⟩
  have hb := assembleFrom_bools (ps.map Problem.toAsset) (by
    intro a ha m hm
    obtain ⟨p, hp, rfl⟩ := List.mem_map.mp ha
    exact (hw p hp).mapping m hm) 0 x
  unfold Problem.Feasible
  rw [C03.blockSum_feasible ps hbw x, boolVars_eq]
  unfold blockSum
  rw [hb]
  simp only [List.length_map, List.getElem_map, Nat.zero_add, ← C03.offset_eq_blockOffset]
  constructor
  · rintro ⟨h1, h2⟩ i hi
    exact ⟨h1 i hi, h2 i hi⟩
  · intro h
    exact ⟨fun i hi => (h i hi).1, fun i hi => (h i hi).2⟩

/-- interval-wise optima (integrality included) concatenate to an optimum of the block sum -/
theorem blockSum_optimal_bool (ps : List Problem) (hw : ∀ p ∈ ps, WfIdx p) (x : Vec)
    (hopt : ∀ i, (h : i < ps.length) → ∀ z, (ps[i]).Feasible z →
        (ps[i]).value z ≤ (ps[i]).value (fun j => x (C03.offset ps i + j)))
    (z : Vec) (hz : (blockSum ps).Feasible z) : (blockSum ps).value z ≤ (blockSum ps).value x := by
  rw [C03.blockSum_value, C03.blockSum_value]
  have hz' := (blockSum_feasible_bool ps hw z).mp hz
  apply sum_map_le
  intro i hi
  have hi' : i < ps.length := by simpa using hi
  have h2 : ps.getD i default = ps[i] := by simp [List.getD_eq_getElem?_getD, hi']
  rw [h2]
  exact hopt i hi' _ (hz' i hi')

/-- **Split optimum = unsplit optimum (value and dispatch), with boolean variables.**  As `split_equals_unsplit`,
    for interval solutions that are feasible and optimal INCLUDING the integrality conditions. -/
theorem split_equals_unsplit_bool (U : Problem) (ps : List Problem) (perm : List Nat)
    (h : splitWitness U ps perm = true) (xs : List (List Rat)) (hlen : xs.length = ps.length)
    (hn : ∀ i, (h : i < ps.length) → (xs.getD i []).length = (ps[i]).n)
    (hfeas : ∀ i, (h : i < ps.length) → (ps[i]).Feasible (vecOfList (xs.getD i [])))
    (hopt : ∀ i, (h : i < ps.length) → ∀ z, (ps[i]).Feasible z →
        (ps[i]).value z ≤ (ps[i]).value (vecOfList (xs.getD i []))) :
    U.Feasible (transportAlong perm (concatVec xs)) ∧
    (∀ y, U.Feasible y → U.value y ≤ U.value (transportAlong perm (concatVec xs))) ∧
    U.value (transportAlong perm (concatVec xs)) =
      ((List.range ps.length).map fun i => (ps.getD i default).value (vecOfList (xs.getD i []))).sum := by
  obtain ⟨_, hwp, _, _⟩ := witness_parts U ps perm h
  have hsl := concat_slice ps xs hlen hn
  have hval : ∀ i, (hi : i < ps.length) →
      (ps[i]).value (fun j => concatVec xs (C03.offset ps i + j)) = (ps[i]).value (vecOfList (xs.getD i [])) :=
    fun i hi => (value_congr (ps[i]) _ _ (hsl i hi)).symm
  have hxB : (blockSum ps).Feasible (concatVec xs) := by
    rw [blockSum_feasible_bool ps hwp]
    intro i hi
    exact (hwp _ (List.getElem_mem hi)).feasible_congr _ _ (hsl i hi) (hfeas i hi)
  have hoptB : ∀ z, (blockSum ps).Feasible z → (blockSum ps).value z ≤ (blockSum ps).value (concatVec xs) :=
    blockSum_optimal_bool ps hwp (concatVec xs) (fun i hi z hz => by rw [hval i hi]; exact hopt i hi z hz)
  obtain ⟨g1, g2, g3⟩ := split_optimum_is_unsplit_optimum U ps perm h (concatVec xs) hxB hoptB
  refine ⟨g1, g2, ?_⟩
  rw [g3, C03.blockSum_value]
  congr 1
  apply List.map_congr_left
  intro i hi
  have hi' : i < ps.length := by simpa using hi
  have h2 : ps.getD i default = ps[i] := by simp [List.getD_eq_getElem?_getD, hi']
  rw [h2]
  exact hval i hi'

/-! ### non-vacuity: a concrete portfolio

Two assets on one node, two steps, cut into two intervals of one step.  Asset `a` (a sink, dispatch in `[-5, 0]`)
and asset `b` (a source, dispatch in `[0, 5]`, an own restriction `b ≤ 2` per step), one nodal row per step.
The unsplit problem orders its variables asset-major (`a@0, a@1, b@0, b@1`), the block sum interval-major
(`a@0, b@0, a@1, b@1`): the matching is `perm = [0, 2, 1, 3]`.  The unsplit nodal rows are written differently on
purpose (other order, a split coefficient, a zero entry, type `N` against `S`). -/
section Example
private def mr (v : Nat) (a : String) (t : Nat) (b : Bool := false) : MapRow :=
  { var := v, asset := a, node := some "n", kind := .d, step := t, factor := 1, isBool := b, varName := "disp" }

private def exU : Problem :=
  { c := [3, 4, 1, 1], l := [-5, -5, 0, 0], u := [0, 0, 5, 5],
    rows := [⟨[(2, 1)], 2, .U⟩, ⟨[(3, 1)], 2, .U⟩,
             ⟨[(2, 1), (0, 1/2), (1, 0), (0, 1/2)], 0, .N⟩, ⟨[(1, 1), (3, 1)], 0, .N⟩],
    mapping := [mr 0 "a" 0, mr 1 "a" 1, mr 2 "b" 0, mr 3 "b" 1],
    nodal := [(0, "n"), (1, "n")] }

private def exP1 : Problem :=
  { c := [3, 1], l := [-5, 0], u := [0, 5],
    rows := [⟨[(1, 1)], 2, .U⟩, ⟨[(0, 1), (1, 1)], 0, .S⟩],
    mapping := [mr 0 "a" 0, mr 1 "b" 0], nodal := [(0, "n")] }

private def exP2 : Problem :=
  { c := [4, 1], l := [-5, 0], u := [0, 5],
    rows := [⟨[(1, 1)], 2, .U⟩, ⟨[(0, 1), (1, 1)], 0, .N⟩],
    mapping := [mr 0 "a" 1, mr 1 "b" 1], nodal := [(1, "n")] }

private def exPerm : List Nat := [0, 2, 1, 3]

/-- the normal form: columns merged and sorted, the zero entry dropped, `N` read as `S` -/
example : (Row.norm ⟨[(2, 1), (0, 1/2), (1, 0), (0, 1/2)], 0, .N⟩).coeffs = [(0, 1), (2, 1)] ∧
    (Row.norm ⟨[(2, 1), (0, 1/2), (1, 0), (0, 1/2)], 0, .N⟩).kind = .S := by
  decide +kernel
example : isPermOf exPerm 4 = true ∧ isPermOf [0, 2, 2, 3] 4 = false ∧ isPermOf [0, 2, 1] 4 = false := by
  decide +kernel
example : (exU.renameAlong exPerm).c = [3, 1, 4, 1] := by decide +kernel

/-- the witness holds: nothing couples the two intervals -/
private theorem exWitness : splitWitness exU [exP1, exP2] exPerm = true := by decide +kernel

/-- with the identity matching it does not (the variables are ordered differently) -/
example : splitWitness exU [exP1, exP2] [0, 1, 2, 3] = false := by decide +kernel

/-- a ramp restriction of asset `a` across the cut (`a@1 - a@0 ≤ 1`) couples the intervals: the witness fails -/
private def exUramp : Problem := { exU with rows := exU.rows ++ [⟨[(1, 1), (0, -1)], 1, .U⟩] }
example : splitWitness exUramp [exP1, exP2] exPerm = false := by decide +kernel

/-- a different cost in one step (e.g. another discount factor in the interval) makes it fail as well -/
example : splitWitness { exU with c := [3, 4, 1, 2] } [exP1, exP2] exPerm = false := by decide +kernel

/-- a boolean flag on one side only makes it fail; on both sides it holds -/
example : splitWitness { exU with mapping := [mr 0 "a" 0, mr 1 "a" 1, mr 2 "b" 0 true, mr 3 "b" 1] }
    [exP1, exP2] exPerm = false := by decide +kernel
example : splitWitness { exU with mapping := [mr 0 "a" 0, mr 1 "a" 1, mr 2 "b" 0 true, mr 3 "b" 1] }
    [{ exP1 with mapping := [mr 0 "a" 0, mr 1 "b" 0 true] }, exP2] exPerm = true := by decide +kernel

/-- the interval optima: `[-2, 2]` in both intervals (values 4 and 6) -/
private def exXs : List (List Rat) := [[-2, 2], [-2, 2]]

/-- the transported concatenation is the unsplit dispatch `a = (-2, -2)`, `b = (2, 2)` -/
example : (List.range 4).map (transportAlong exPerm (concatVec exXs)) = [-2, -2, 2, 2] := by decide +kernel

private theorem exFeas : ∀ i, (h : i < [exP1, exP2].length) →
    ([exP1, exP2][i]).FeasibleRelaxed (vecOfList (exXs.getD i [])) := by
  intro i hi
  match i, hi with
  | 0, _ => show exP1.FeasibleRelaxed (vecOfList [-2, 2]); decide +kernel
  | 1, _ => show exP2.FeasibleRelaxed (vecOfList [-2, 2]); decide +kernel

private theorem exOpt : ∀ i, (h : i < [exP1, exP2].length) → ∀ z, ([exP1, exP2][i]).FeasibleRelaxed z →
    ([exP1, exP2][i]).value z ≤ ([exP1, exP2][i]).value (vecOfList (exXs.getD i [])) := by
  intro i hi z hz
  match i, hi with
  | 0, _ =>
    have hz : exP1.FeasibleRelaxed z := hz
    have hv : exP1.value (vecOfList [-2, 2]) = 4 := by decide +kernel
    have r1 : (⟨[(1, 1)], 2, .U⟩ : Row).Sat z := hz.2 _ (by simp [exP1])
    have r2 : (⟨[(0, 1), (1, 1)], 0, .S⟩ : Row).Sat z := hz.2 _ (by simp [exP1])
    have r1' : 1 * z 1 + 0 ≤ (2 : Rat) := by simpa [Row.Sat, Row.eval] using r1
    have r2' : 1 * z 0 + (1 * z 1 + 0) = (0 : Rat) := by simpa [Row.Sat, Row.eval] using r2
    show exP1.value z ≤ exP1.value (vecOfList [-2, 2])
    rw [hv]
    show - (3 * z 0 + (1 * z 1 + 0)) ≤ 4
    grind
  | 1, _ =>
    have hz : exP2.FeasibleRelaxed z := hz
    have hv : exP2.value (vecOfList [-2, 2]) = 6 := by decide +kernel
    have r1 : (⟨[(1, 1)], 2, .U⟩ : Row).Sat z := hz.2 _ (by simp [exP2])
    have r2 : (⟨[(0, 1), (1, 1)], 0, .N⟩ : Row).Sat z := hz.2 _ (by simp [exP2])
    have r1' : 1 * z 1 + 0 ≤ (2 : Rat) := by simpa [Row.Sat, Row.eval] using r1
    have r2' : 1 * z 0 + (1 * z 1 + 0) = (0 : Rat) := by simpa [Row.Sat, Row.eval] using r2
    show exP2.value z ≤ exP2.value (vecOfList [-2, 2])
    rw [hv]
    show - (4 * z 0 + (1 * z 1 + 0)) ≤ 6
    grind

/-- the theorem at work: no point of the UNSPLIT problem is worth more than 10 = 4 + 6, and the transported
    concatenation of the interval optima attains it -/
example : exU.FeasibleRelaxed (transportAlong exPerm (concatVec exXs)) ∧
    (∀ y, exU.FeasibleRelaxed y → exU.value y ≤ 10) ∧
    exU.value (transportAlong exPerm (concatVec exXs)) = 10 := by
  obtain ⟨g1, g2, g3⟩ := split_equals_unsplit exU [exP1, exP2] exPerm exWitness exXs rfl
    (by
      intro i hi
      match i, hi with
      | 0, _ => rfl
      | 1, _ => rfl)
    exFeas exOpt
  have hs : ((List.range [exP1, exP2].length).map fun i =>
      ([exP1, exP2].getD i default).value (vecOfList (exXs.getD i []))).sum = 10 := by decide +kernel
  rw [hs] at g3
  rw [g3] at g2
  exact ⟨g1, g2, g3⟩
end Example

/-! ## The one-sided certificate: split never exceeds unsplit

For storages whose start level equals their end level the interval problems are MORE restrictive than the unsplit
problem (every interval has to end at the start level), so the witness above is false.  `splitLeWitness U ps perm
lams` certifies the inclusion that remains: same objective, bounds of the unsplit problem not tighter, and every
row of the unsplit problem is an explicitly given combination (`lams`) of rows of the interval problems.  The
multipliers are found numerically by the harness, rounded to rationals and CHECKED exactly by the compiled model;
the theorems say what a true witness means. -/

/-- the content of a true one-sided witness -/
theorem le_witness_parts (U : Problem) (ps : List Problem) (perm : List Nat) (lams : List (List Rat))
    (h : splitLeWitness U ps perm lams = true) :
    WfIdx U ∧ (∀ p ∈ ps, WfIdx p) ∧ IsPerm perm U.n ∧ LeSpec (U.renameAlong perm) (blockSum ps) := by
  unfold splitLeWitness at h
  simp only [Bool.and_eq_true, decide_eq_true_eq] at h
  obtain ⟨⟨⟨⟨⟨⟨⟨⟨⟨h1, h2⟩, h3⟩, _⟩, h5⟩, h6⟩, h7⟩, h8⟩, h9⟩, h10⟩ := h
  exact ⟨wfIdx_spec U h1, fun p hp => wfIdx_spec p (List.all_eq_true.mp h2 p hp), isPermOf_spec perm U.n h3,
    ⟨h5, ⟨h6, h7, h8, fun x hx => rows_implied _ _ lams h9 h10 x hx⟩⟩⟩

/-- **Every split-feasible point is unsplit-feasible.**  Under a true one-sided witness a feasible point of the
    block sum of the interval problems, transported along the matching of the variables, is a feasible point of the
    unsplit problem (with and without the integrality conditions) — it satisfies ALL restrictions and bounds of the
    unsplit problem on the original grid — and has the same objective value. -/
theorem split_le_witness_feasible (U : Problem) (ps : List Problem) (perm : List Nat) (lams : List (List Rat))
    (h : splitLeWitness U ps perm lams = true) (x : Vec) :
    ((blockSum ps).Feasible x → U.Feasible (transportAlong perm x)) ∧
    ((blockSum ps).FeasibleRelaxed x → U.FeasibleRelaxed (transportAlong perm x)) ∧
    (blockSum ps).value x = U.value (transportAlong perm x) := by
  obtain ⟨hw, _, hp, hs⟩ := le_witness_parts U ps perm lams h
  have hlu : (U.renameAlong perm).u.length = (U.renameAlong perm).l.length := by
    simp [Problem.renameAlong]
  refine ⟨fun hx => ?_, fun hx => ?_, ?_⟩
  · exact (renameAlong_feasible U hp hw x).mp (hs.feas.feasible hlu x hx)
  · exact (renameAlong_relaxed U hp hw.l x).mp (hs.feas.relaxed hlu x hx)
  · rw [← hs.value x, renameAlong_value U hp x]

/-- **Split never exceeds unsplit** (no existence of optima assumed): under a true one-sided witness every upper
    bound of the values of the unsplit problem is an upper bound of the values of the block sum of the interval
    problems. -/
theorem split_le_unsplit (U : Problem) (ps : List Problem) (perm : List Nat) (lams : List (List Rat))
    (h : splitLeWitness U ps perm lams = true) (B : Rat) (hU : ∀ y, U.Feasible y → U.value y ≤ B) :
    ∀ x, (blockSum ps).Feasible x → (blockSum ps).value x ≤ B := by
  intro x hx
  obtain ⟨h1, _, h3⟩ := split_le_witness_feasible U ps perm lams h x
  rw [h3]
  exact hU _ (h1 hx)

theorem split_le_unsplit_relaxed (U : Problem) (ps : List Problem) (perm : List Nat) (lams : List (List Rat))
    (h : splitLeWitness U ps perm lams = true) (B : Rat) (hU : ∀ y, U.FeasibleRelaxed y → U.value y ≤ B) :
    ∀ x, (blockSum ps).FeasibleRelaxed x → (blockSum ps).value x ≤ B := by
  intro x hx
  obtain ⟨_, h2, h3⟩ := split_le_witness_feasible U ps perm lams h x
  rw [h3]
  exact hU _ (h2 hx)

/-! interval solutions, concatenated -/

theorem concat_relaxed (ps : List Problem) (hw : ∀ p ∈ ps, WfIdx p) (xs : List (List Rat))
    (hlen : xs.length = ps.length) (hn : ∀ i, (h : i < ps.length) → (xs.getD i []).length = (ps[i]).n)
    (hfeas : ∀ i, (h : i < ps.length) → (ps[i]).FeasibleRelaxed (vecOfList (xs.getD i []))) :
    (blockSum ps).FeasibleRelaxed (concatVec xs) := by
  have hbw : ∀ p ∈ ps, C03.BoundsWF p := fun p hp => ⟨(hw p hp).l, (hw p hp).u⟩
  rw [C03.blockSum_feasible ps hbw]
  intro i hi
  exact (hw _ (List.getElem_mem hi)).relaxed_congr _ _ (concat_slice ps xs hlen hn i hi) (hfeas i hi)

theorem concat_feasible (ps : List Problem) (hw : ∀ p ∈ ps, WfIdx p) (xs : List (List Rat))
    (hlen : xs.length = ps.length) (hn : ∀ i, (h : i < ps.length) → (xs.getD i []).length = (ps[i]).n)
    (hfeas : ∀ i, (h : i < ps.length) → (ps[i]).Feasible (vecOfList (xs.getD i []))) :
    (blockSum ps).Feasible (concatVec xs) := by
  rw [blockSum_feasible_bool ps hw]
  intro i hi
  exact (hw _ (List.getElem_mem hi)).feasible_congr _ _ (concat_slice ps xs hlen hn i hi) (hfeas i hi)

theorem concat_value (ps : List Problem) (xs : List (List Rat))
    (hlen : xs.length = ps.length) (hn : ∀ i, (h : i < ps.length) → (xs.getD i []).length = (ps[i]).n) :
    (blockSum ps).value (concatVec xs) =
      ((List.range ps.length).map fun i => (ps.getD i default).value (vecOfList (xs.getD i []))).sum := by
  rw [C03.blockSum_value]
  congr 1
  apply List.map_congr_left
  intro i hi
  have hi' : i < ps.length := by simpa using hi
  have h2 : ps.getD i default = ps[i] := by simp [List.getD_eq_getElem?_getD, hi']
  rw [h2]
  exact (value_congr (ps[i]) _ _ (concat_slice ps xs hlen hn i hi')).symm

/-- **The split solution is an unsplit-feasible dispatch worth the sum of the interval values, and that sum never
    exceeds the unsplit optimum (LP case).**  Under a true one-sided witness: if every interval solution `xs[i]` is
    feasible for its interval problem, the concatenation (`np.hstack`), transported along the matching of the
    variables, satisfies every restriction and bound of the UNSPLIT problem, its unsplit value is the sum of the
    interval values, and this sum is below every upper bound of the unsplit value set — in particular for the
    interval OPTIMA (`EAO.C03.blockSum_optimal`: their sum is the split optimum): split optimum ≤ unsplit optimum. -/
theorem split_solution_le_unsplit (U : Problem) (ps : List Problem) (perm : List Nat) (lams : List (List Rat))
    (h : splitLeWitness U ps perm lams = true) (xs : List (List Rat)) (hlen : xs.length = ps.length)
    (hn : ∀ i, (h : i < ps.length) → (xs.getD i []).length = (ps[i]).n)
    (hfeas : ∀ i, (h : i < ps.length) → (ps[i]).FeasibleRelaxed (vecOfList (xs.getD i []))) :
    U.FeasibleRelaxed (transportAlong perm (concatVec xs)) ∧
    U.value (transportAlong perm (concatVec xs)) =
      ((List.range ps.length).map fun i => (ps.getD i default).value (vecOfList (xs.getD i []))).sum ∧
    ∀ B, (∀ y, U.FeasibleRelaxed y → U.value y ≤ B) →
      ((List.range ps.length).map fun i => (ps.getD i default).value (vecOfList (xs.getD i []))).sum ≤ B := by
  obtain ⟨_, hwp, _, _⟩ := le_witness_parts U ps perm lams h
  have hxB := concat_relaxed ps hwp xs hlen hn hfeas
  obtain ⟨_, h2, h3⟩ := split_le_witness_feasible U ps perm lams h (concatVec xs)
  have hv := concat_value ps xs hlen hn
  refine ⟨h2 hxB, by rw [← h3, hv], fun B hB => ?_⟩
  rw [← hv]
  exact split_le_unsplit_relaxed U ps perm lams h B hB _ hxB

/-- the same with boolean variables (interval solutions feasible including the integrality conditions) -/
theorem split_solution_le_unsplit_bool (U : Problem) (ps : List Problem) (perm : List Nat) (lams : List (List Rat))
    (h : splitLeWitness U ps perm lams = true) (xs : List (List Rat)) (hlen : xs.length = ps.length)
    (hn : ∀ i, (h : i < ps.length) → (xs.getD i []).length = (ps[i]).n)
    (hfeas : ∀ i, (h : i < ps.length) → (ps[i]).Feasible (vecOfList (xs.getD i []))) :
    U.Feasible (transportAlong perm (concatVec xs)) ∧
    U.value (transportAlong perm (concatVec xs)) =
      ((List.range ps.length).map fun i => (ps.getD i default).value (vecOfList (xs.getD i []))).sum ∧
    ∀ B, (∀ y, U.Feasible y → U.value y ≤ B) →
      ((List.range ps.length).map fun i => (ps.getD i default).value (vecOfList (xs.getD i []))).sum ≤ B := by
  obtain ⟨_, hwp, _, _⟩ := le_witness_parts U ps perm lams h
  have hxB := concat_feasible ps hwp xs hlen hn hfeas
  obtain ⟨h1, _, h3⟩ := split_le_witness_feasible U ps perm lams h (concatVec xs)
  have hv := concat_value ps xs hlen hn
  refine ⟨h1 hxB, by rw [← h3, hv], fun B hB => ?_⟩
  rw [← hv]
  exact split_le_unsplit U ps perm lams h B hB _ hxB

/-- a true two-sided witness is a one-sided witness with unit multipliers — stated as: whatever the one-sided
    theorems conclude also follows from `splitWitness` (feasibility transfer) -/
theorem split_witness_implies_le (U : Problem) (ps : List Problem) (perm : List Nat)
    (h : splitWitness U ps perm = true) (x : Vec) :
    ((blockSum ps).Feasible x → U.Feasible (transportAlong perm x)) ∧
    ((blockSum ps).FeasibleRelaxed x → U.FeasibleRelaxed (transportAlong perm x)) ∧
    (blockSum ps).value x = U.value (transportAlong perm x) := by
  obtain ⟨h1, h2, h3⟩ := split_witness_feasible U ps perm h x
  exact ⟨h1.mp, h2.mp, h3⟩

/-! ### objectives that differ by a combination of rows (`cost_store`)

`splitLeWitnessC` accepts, instead of equal cost vectors, a certificate (`lamC`) that `(c_B − c_A)·x ≥ 0` follows
from the rows of the block sum: then a split-feasible point is worth at least as much in the unsplit problem as in
the split problem, and "split never exceeds unsplit" still follows. -/

theorem le_witnessC_parts (U : Problem) (ps : List Problem) (perm : List Nat) (lams : List (List Rat))
    (lamC : List Rat) (h : splitLeWitnessC U ps perm lams lamC = true) :
    WfIdx U ∧ (∀ p ∈ ps, WfIdx p) ∧ IsPerm perm U.n ∧ LeFeas (U.renameAlong perm) (blockSum ps) ∧
    costCert (U.renameAlong perm).c (blockSum ps).c (blockSum ps).rows lamC = true := by
  unfold splitLeWitnessC at h
  simp only [Bool.and_eq_true, decide_eq_true_eq] at h
  obtain ⟨⟨⟨⟨⟨⟨⟨⟨⟨h1, h2⟩, h3⟩, _⟩, h5⟩, h6⟩, h7⟩, h8⟩, h9⟩, h10⟩ := h
  exact ⟨wfIdx_spec U h1, fun p hp => wfIdx_spec p (List.all_eq_true.mp h2 p hp), isPermOf_spec perm U.n h3,
    ⟨h6, h7, h8, fun x hx => rows_implied _ _ lams h9 h10 x hx⟩, h5⟩

/-- a one-sided witness with equal objectives is one with a certified objective, whatever `lamC` -/
theorem splitLeWitness_imp_C (U : Problem) (ps : List Problem) (perm : List Nat) (lams : List (List Rat))
    (lamC : List Rat) (h : splitLeWitness U ps perm lams = true) : splitLeWitnessC U ps perm lams lamC = true := by
  unfold splitLeWitness at h
  unfold splitLeWitnessC
  simp only [Bool.and_eq_true, decide_eq_true_eq] at h ⊢
  obtain ⟨⟨⟨⟨⟨⟨⟨⟨⟨h1, h2⟩, h3⟩, h4⟩, h5⟩, h6⟩, h7⟩, h8⟩, h9⟩, h10⟩ := h
  refine ⟨⟨⟨⟨⟨⟨⟨⟨⟨h1, h2⟩, h3⟩, h4⟩, ?_⟩, h6⟩, h7⟩, h8⟩, h9⟩, h10⟩
  unfold costCert
  rw [Bool.or_eq_true]
  exact Or.inl (decide_eq_true h5)

/-- **Every split-feasible point is unsplit-feasible and worth at least as much there** (certified objective). -/
theorem split_le_witnessC_feasible (U : Problem) (ps : List Problem) (perm : List Nat) (lams : List (List Rat))
    (lamC : List Rat) (h : splitLeWitnessC U ps perm lams lamC = true) (x : Vec) :
    ((blockSum ps).Feasible x → U.Feasible (transportAlong perm x)) ∧
    ((blockSum ps).FeasibleRelaxed x → U.FeasibleRelaxed (transportAlong perm x)) ∧
    ((blockSum ps).FeasibleRelaxed x → (blockSum ps).value x ≤ U.value (transportAlong perm x)) := by
  obtain ⟨hw, _, hp, hs, hc⟩ := le_witnessC_parts U ps perm lams lamC h
  have hlu : (U.renameAlong perm).u.length = (U.renameAlong perm).l.length := by
    simp [Problem.renameAlong]
  refine ⟨fun hx => ?_, fun hx => ?_, fun hx => ?_⟩
  · exact (renameAlong_feasible U hp hw x).mp (hs.feasible hlu x hx)
  · exact (renameAlong_relaxed U hp hw.l x).mp (hs.relaxed hlu x hx)
  · rw [← renameAlong_value U hp x]
    exact costCert_sound _ _ _ lamC hc x hx.2

/-- **Split never exceeds unsplit**, certified objective (no existence of optima assumed). -/
theorem split_le_unsplitC (U : Problem) (ps : List Problem) (perm : List Nat) (lams : List (List Rat))
    (lamC : List Rat) (h : splitLeWitnessC U ps perm lams lamC = true) (B : Rat)
    (hU : ∀ y, U.Feasible y → U.value y ≤ B) :
    ∀ x, (blockSum ps).Feasible x → (blockSum ps).value x ≤ B := by
  intro x hx
  obtain ⟨h1, _, h3⟩ := split_le_witnessC_feasible U ps perm lams lamC h x
  exact Rat.le_trans (h3 hx.1) (hU _ (h1 hx))

theorem split_le_unsplitC_relaxed (U : Problem) (ps : List Problem) (perm : List Nat) (lams : List (List Rat))
    (lamC : List Rat) (h : splitLeWitnessC U ps perm lams lamC = true) (B : Rat)
    (hU : ∀ y, U.FeasibleRelaxed y → U.value y ≤ B) :
    ∀ x, (blockSum ps).FeasibleRelaxed x → (blockSum ps).value x ≤ B := by
  intro x hx
  obtain ⟨_, h2, h3⟩ := split_le_witnessC_feasible U ps perm lams lamC h x
  exact Rat.le_trans (h3 hx) (hU _ (h2 hx))

/-- the concatenated interval solutions, transported, are an unsplit-feasible dispatch worth AT LEAST the sum of the
    interval values there, and that sum is below every upper bound of the unsplit value (LP case, certified
    objective) -/
theorem split_solution_le_unsplitC (U : Problem) (ps : List Problem) (perm : List Nat) (lams : List (List Rat))
    (lamC : List Rat) (h : splitLeWitnessC U ps perm lams lamC = true) (xs : List (List Rat))
    (hlen : xs.length = ps.length) (hn : ∀ i, (h : i < ps.length) → (xs.getD i []).length = (ps[i]).n)
    (hfeas : ∀ i, (h : i < ps.length) → (ps[i]).FeasibleRelaxed (vecOfList (xs.getD i []))) :
    U.FeasibleRelaxed (transportAlong perm (concatVec xs)) ∧
    ((List.range ps.length).map fun i => (ps.getD i default).value (vecOfList (xs.getD i []))).sum ≤
      U.value (transportAlong perm (concatVec xs)) ∧
    ∀ B, (∀ y, U.FeasibleRelaxed y → U.value y ≤ B) →
      ((List.range ps.length).map fun i => (ps.getD i default).value (vecOfList (xs.getD i []))).sum ≤ B := by
  obtain ⟨_, hwp, _, _, _⟩ := le_witnessC_parts U ps perm lams lamC h
  have hxB := concat_relaxed ps hwp xs hlen hn hfeas
  obtain ⟨_, h2, h3⟩ := split_le_witnessC_feasible U ps perm lams lamC h (concatVec xs)
  have hv := concat_value ps xs hlen hn
  refine ⟨h2 hxB, by rw [← hv]; exact h3 hxB, fun B hB => ?_⟩
  rw [← hv]
  exact split_le_unsplitC_relaxed U ps perm lams lamC h B hB _ hxB

/-- the same with boolean variables -/
theorem split_solution_le_unsplitC_bool (U : Problem) (ps : List Problem) (perm : List Nat)
    (lams : List (List Rat)) (lamC : List Rat) (h : splitLeWitnessC U ps perm lams lamC = true)
    (xs : List (List Rat)) (hlen : xs.length = ps.length)
    (hn : ∀ i, (h : i < ps.length) → (xs.getD i []).length = (ps[i]).n)
    (hfeas : ∀ i, (h : i < ps.length) → (ps[i]).Feasible (vecOfList (xs.getD i []))) :
    U.Feasible (transportAlong perm (concatVec xs)) ∧
    ((List.range ps.length).map fun i => (ps.getD i default).value (vecOfList (xs.getD i []))).sum ≤
      U.value (transportAlong perm (concatVec xs)) ∧
    ∀ B, (∀ y, U.Feasible y → U.value y ≤ B) →
      ((List.range ps.length).map fun i => (ps.getD i default).value (vecOfList (xs.getD i []))).sum ≤ B := by
  obtain ⟨_, hwp, _, _, _⟩ := le_witnessC_parts U ps perm lams lamC h
  have hxB := concat_feasible ps hwp xs hlen hn hfeas
  obtain ⟨h1, _, h3⟩ := split_le_witnessC_feasible U ps perm lams lamC h (concatVec xs)
  have hv := concat_value ps xs hlen hn
  refine ⟨h1 hxB, by rw [← hv]; exact h3 hxB.1, fun B hB => ?_⟩
  rw [← hv]
  exact split_le_unsplitC U ps perm lams lamC h B hB _ hxB

/-! ### non-vacuity: a storage with start level = end level over two intervals

A market `m` (prices 1, 3, 1, 3) and a storage `s` (size 4, start level = end level = 1, dispatch in `[-1, 1]`,
level after step `t` = `1 - Σ_{τ≤t} s_τ`) on one node, four steps, two intervals of two steps.  Unsplit variable
order `m0..m3, s0..s3`, block sum `m0, m1, s0, s1 | m2, m3, s2, s3`.  The unsplit level rows are cumulative over
the horizon (`-Σ_{τ≤t} s_τ ≤ 3` resp. `≥ -1`, and `= 0` at the end, written as a `U` and an `L` row as eaopack
does); every interval has its own cumulative rows and its own end-level pair. -/
section ExampleStorage
private def exSPerm : List Nat := [0, 1, 4, 5, 2, 3, 6, 7]

/-- unsplit problem with end level `e` (start level 1) -/
private def exSUe (e : Rat) : Problem :=
  { c := [1, 3, 1, 3, 0, 0, 0, 0], l := [-2, -2, -2, -2, -1, -1, -1, -1], u := [2, 2, 2, 2, 1, 1, 1, 1],
    rows := [⟨[(4, -1)], 3, .U⟩, ⟨[(4, -1), (5, -1)], 3, .U⟩, ⟨[(4, -1), (5, -1), (6, -1)], 3, .U⟩,
             ⟨[(4, -1), (5, -1), (6, -1), (7, -1)], e - 1, .U⟩,
             ⟨[(4, -1)], -1, .L⟩, ⟨[(4, -1), (5, -1)], -1, .L⟩, ⟨[(4, -1), (5, -1), (6, -1)], -1, .L⟩,
             ⟨[(4, -1), (5, -1), (6, -1), (7, -1)], e - 1, .L⟩,
             ⟨[(0, 1), (4, 1)], 0, .N⟩, ⟨[(1, 1), (5, 1)], 0, .N⟩, ⟨[(2, 1), (6, 1)], 0, .N⟩,
             ⟨[(3, 1), (7, 1)], 0, .N⟩],
    mapping := [mr 0 "m" 0, mr 1 "m" 1, mr 2 "m" 2, mr 3 "m" 3, mr 4 "s" 0, mr 5 "s" 1, mr 6 "s" 2, mr 7 "s" 3],
    nodal := [(0, "n"), (1, "n"), (2, "n"), (3, "n")] }

/-- interval problem (steps `t0`, `t0 + 1`) with end level `e` -/
private def exSPe (e : Rat) (t0 : Nat) : Problem :=
  { c := [1, 3, 0, 0], l := [-2, -2, -1, -1], u := [2, 2, 1, 1],
    rows := [⟨[(2, -1)], 3, .U⟩, ⟨[(2, -1), (3, -1)], e - 1, .U⟩,
             ⟨[(2, -1)], -1, .L⟩, ⟨[(2, -1), (3, -1)], e - 1, .L⟩,
             ⟨[(0, 1), (2, 1)], 0, .N⟩, ⟨[(1, 1), (3, 1)], 0, .N⟩],
    mapping := [mr 0 "m" t0, mr 1 "m" (t0 + 1), mr 2 "s" t0, mr 3 "s" (t0 + 1)],
    nodal := [(t0, "n"), (t0 + 1, "n")] }

private def exSU : Problem := exSUe 1
private def exSPs : List Problem := [exSPe 1 0, exSPe 1 2]

/-- multiplier list over the 12 rows of the block sum: 1 at the positions `ks` -/
private def pick (ks : List Nat) : List Rat := (List.range 12).map fun i => if ks.contains i then 1 else 0

/-- the cumulative row at a step of the second interval = end-level row of the first interval + the second
    interval's own cumulative row; rows of the first interval and the nodal rows occur verbatim (the level row at
    the end of the first interval with a right-hand side that is even smaller) -/
private def exSLams : List (List Rat) :=
  [pick [0], pick [1], pick [1, 6], pick [1, 7], pick [2], pick [3], pick [3, 8], pick [3, 9],
   pick [4], pick [5], pick [10], pick [11]]

/-- the two problems are NOT the same: the level rows couple the intervals … -/
example : splitWitness exSU exSPs exSPerm = false := by decide +kernel
/-- … but every unsplit row follows from the interval rows with the multipliers given -/
private theorem exSLe : splitLeWitness exSU exSPs exSPerm exSLams = true := by decide +kernel

/-- a wrong multiplier (the first interval's end-level row forgotten) is rejected -/
example : splitLeWitness exSU exSPs exSPerm
    ([pick [0], pick [1], pick [6]] ++ exSLams.drop 3) = false := by decide +kernel
/-- so is a multiplier of the wrong sign on an inequality row -/
example : rowImplied ⟨[(0, 1)], 5, .U⟩ [⟨[(0, -1)], -5, .U⟩] [-1] = false ∧
    rowImplied ⟨[(0, 1)], 5, .U⟩ [⟨[(0, -1)], -5, .L⟩] [-1] = true ∧
    rowImplied ⟨[(0, 2)], 4, .S⟩ [⟨[(0, 1)], 2, .U⟩, ⟨[(0, 1)], 2, .L⟩] [2, 0, 0, 2] = true ∧
    rowImplied ⟨[(0, 2)], 4, .S⟩ [⟨[(0, 1)], 2, .U⟩, ⟨[(0, 1)], 2, .L⟩] [2, 0] = false := by decide +kernel

/-- interval solutions: buy and charge at price 1, discharge and sell at price 3 (value 2 per interval) -/
private def exSXs : List (List Rat) := [[1, -1, -1, 1], [1, -1, -1, 1]]

/-- the theorem at work: the concatenated split solution satisfies all restrictions of the unsplit problem (the
    cumulative level rows on the original grid), is worth 2 + 2 there, and 4 is below every upper bound of the
    unsplit values -/
example : exSU.FeasibleRelaxed (transportAlong exSPerm (concatVec exSXs)) ∧
    exSU.value (transportAlong exSPerm (concatVec exSXs)) = 4 ∧
    ∀ B, (∀ y, exSU.FeasibleRelaxed y → exSU.value y ≤ B) → 4 ≤ B := by
  obtain ⟨g1, g2, g3⟩ := split_solution_le_unsplit exSU exSPs exSPerm exSLams exSLe exSXs rfl
    (by
      intro i hi
      match i, hi with
      | 0, _ => rfl
      | 1, _ => rfl)
    (by
      intro i hi
      match i, hi with
      | 0, _ => show (exSPe 1 0).FeasibleRelaxed (vecOfList [1, -1, -1, 1]); decide +kernel
      | 1, _ => show (exSPe 1 2).FeasibleRelaxed (vecOfList [1, -1, -1, 1]); decide +kernel)
  have hs : ((List.range exSPs.length).map fun i =>
      (exSPs.getD i default).value (vecOfList (exSXs.getD i []))).sum = 4 := by decide +kernel
  rw [hs] at g2 g3
  exact ⟨g1, g2, g3⟩

/-- with `cost_store = 1` the unsplit cost of charging at step `τ` counts the `4 - τ` later steps of the horizon, the
    interval cost only those of the interval: the cost vectors differ, but `(c_B − c_A)·x = 2 (s0 + s1)` is twice the
    first interval's end-level row — certified with the multiplier `-2` on that (`U`) row -/
private def exSUc : Problem := { exSU with c := [1, 3, 1, 3, -4, -3, -2, -1] }
private def exSPc (t0 : Nat) : Problem := { exSPe 1 t0 with c := [1, 3, -2, -1] }
private def exSLamC : List Rat := (List.range 12).map fun i => if i = 1 then -2 else 0

example : splitLeWitness exSUc [exSPc 0, exSPc 2] exSPerm exSLams = false := by decide +kernel
example : splitLeWitnessC exSUc [exSPc 0, exSPc 2] exSPerm exSLams exSLamC = true := by decide +kernel
/-- the sign matters: the `L` twin of that row (it bounds the other direction) is rejected with the same multiplier,
    and so is `+2` on the `U` row (wrong coefficients) -/
example : splitLeWitnessC exSUc [exSPc 0, exSPc 2] exSPerm exSLams
      ((List.range 12).map fun i => if i = 3 then -2 else 0) = false ∧
    splitLeWitnessC exSUc [exSPc 0, exSPc 2] exSPerm exSLams
      ((List.range 12).map fun i => if i = 1 then 2 else 0) = false := by decide +kernel

/-- **start level ≠ end level** (start 1, end 2): every interval raises the level by 1, the concatenation ends at
    level 3, not 2 — NO multipliers can make the one-sided witness true (by the theorem: a split-feasible point
    whose transport violates the unsplit end-level row) -/
private def exSBad : Vec := vecOfList [1, 0, -1, 0, 1, 0, -1, 0]

example (lams : List (List Rat)) : splitLeWitness (exSUe 2) [exSPe 2 0, exSPe 2 2] exSPerm lams = false := by
  cases h : splitLeWitness (exSUe 2) [exSPe 2 0, exSPe 2 2] exSPerm lams with
  | false => rfl
  | true =>
    exfalso
    have hB : (blockSum [exSPe 2 0, exSPe 2 2]).FeasibleRelaxed exSBad := by decide +kernel
    have hU := (split_le_witness_feasible _ _ _ _ h exSBad).2.1 hB
    have hno : ¬ (exSUe 2).FeasibleRelaxed (transportAlong exSPerm exSBad) := by decide +kernel
    exact hno hU
end ExampleStorage

end EAO.C14
